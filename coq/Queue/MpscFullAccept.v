(* Trace acceptor for the FULL mpsc model (Queue/MpscFullModel.v, delay = true).  One recorded event
   `[code; actor; obj; val]` of the real may_queue::mpsc::Queue is matched against the model: the model must be
   at the corresponding control point, must compute the index / flag the code observed, and every block
   pointer the code loads or stores must be - through a renaming  real address <-> model address  that is
   learned from the allocator events and must stay a bijection, also when the allocator issues a freed
   address again - the block the model says.  Codes are bound to source sites in Queue/mpsc_full_sites.json.

   API level (logged by the scenario harness/src/bin/q_mpsc.rs):
      1 push.call(v)    2 push.ret       3 pop.call     4 pop.ret(some, v)
      5 bulk.call       6 bulk.ret(len)  7 bulk.item(i, v)  (the items, in order, before bulk.ret)
      8 len.call        9 len.ret(l)    10 empty.call  11 empty.ret(b)   12 peek.call   13 peek.ret(some, v)
     14 drop.call      15 drop.ret      16 val.drop(v)  (a payload dropped inside Queue::drop)
     17 blk.alloc(addr) 18 blk.free(addr)  (allocator shim of the scenario: BlockNode::new_box / Box drop)
   sites of may_queue/src/mpsc.rs:
     21 push tail.load  22 push tail.cas  23 set slot.write  24 set ready.store
     25 26 wait_next_block next.load#0 #1 (of the pusher of a last slot, or of the consumer at a block end)
     27 push next_block.next.store   28 push tail.store
     29 try_get ready.load  30 push_index tail.load  31 get ready.load  32 peek ready.load
     33 34 35 head.index.store of pop / fast_bulk_pop / bulk_pop    36 37 38 head.block.store of the same
     39 len head.index.load   40 drop head.block.load  41 drop tail.load  42 drop block.next.load
     43 Queue::new init_block.next.store

   Accesses without a record are taken with the preceding recorded event of the same thread, which is where
   the baton scheduler runs them: `old_block.replace` when old_block is None (nothing is freed: no allocator
   event) with the head.index.store, the drop of an empty old_block field with the last free of Queue::drop.
   The object of every event is tied to the memory word the model accesses (tail, head.index, head.block,
   `next` / slot i / ready i of the block at a model address): objects <-> words is a bijection too. *)
From Coq Require Import List ZArith Bool Arith.
Import ListNotations.
Require Import MayV.Queue.MpscFullModel.

Section A.
Variable B : nat.
Notation step := (step B true).
Notation run := (run B true).

Record aux := { ren : list (Z * nat);      (* real block address <-> model address *)
                fob : list (Z * Z);        (* object <-> memory word *)
                boot : nat;                (* Queue::new: 0 nothing yet, 1 init_block allocated, 2 next_block allocated, 3 linked *)
                pin : list nat;            (* pushers between push.call and push.ret *)
                cact : Z;                  (* the thread inside a consumer call (0: nobody) *)
                ccall : nat;               (* 1 pop, 2 bulk_pop, 3 len, 4 is_empty, 5 peek, 6 drop *)
                nitems : nat;              (* bulk items reported so far *)
                vdue : bool }.             (* Queue::drop popped a value whose drop has not been seen yet *)
Definition ast := (st * aux)%type.
Definition aux0 := {| ren := []; fob := []; boot := 0; pin := []; cact := 0%Z; ccall := 0; nitems := 0; vdue := false |}.
Definition a_init : ast := (init B, aux0).

Fixpoint lookup {Y} (l : list (Z * Y)) (a : Z) : option Y :=
  match l with [] => None | (a', b) :: r => if Z.eqb a' a then Some b else lookup r a end.
Fixpoint rlookup_n (l : list (Z * nat)) (b : nat) : option Z :=
  match l with [] => None | (a, b') :: r => if Nat.eqb b' b then Some a else rlookup_n r b end.
Fixpoint rlookup_z (l : list (Z * Z)) (b : Z) : option Z :=
  match l with [] => None | (a, b') :: r => if Z.eqb b' b then Some a else rlookup_z r b end.
Definition bind_n (l : list (Z * nat)) (a : Z) (b : nat) : option (list (Z * nat)) :=
  match lookup l a with
  | Some b' => if Nat.eqb b' b then Some l else None
  | None => match rlookup_n l b with Some _ => None | None => Some ((a, b) :: l) end
  end.
Definition bind_z (l : list (Z * Z)) (a : Z) (b : Z) : option (list (Z * Z)) :=
  match lookup l a with
  | Some b' => if Z.eqb b' b then Some l else None
  | None => match rlookup_z l b with Some _ => None | None => Some ((a, b) :: l) end
  end.
(* model address of a real pointer: null and unknown addresses are 0 (no block lives at model address 0) *)
Definition rn (x : aux) (v : Z) : nat := match lookup (ren x) v with Some b => b | None => 0 end.
(* the model address the allocator action uses for real address v: the one it had before, else a new one *)
Definition addr_for (x : aux) (v : Z) : nat := match lookup (ren x) v with Some b => b | None => S (length (ren x)) end.

Definition ppc_eqb (a b : ppc) : bool :=
  match a, b with
  | PIdle, PIdle | PLoad, PLoad | PCas, PCas | PWrite, PWrite | PReady, PReady | PAlloc, PAlloc
  | PNext, PNext | PLink, PLink | PStore, PStore => true
  | _, _ => false end.
Definition cpc_eqb (a b : cpc) : bool :=
  match a, b with
  | CIdle, CIdle | CTry, CTry | CTail, CTail | CSpin, CSpin | CCommit, CCommit | CFree, CFree | CNext, CNext
  | CSetH, CSetH | CLenH, CLenH | CLenT, CLenT | DHead, DHead | DTail, DTail | DNext, DNext | DFree1, DFree1
  | DFree2, DFree2 | DOld, DOld | CDead, CDead => true
  | _, _ => false end.
Definition op_eqb (a b : op) : bool :=
  match a, b with OPop, OPop | OBulk, OBulk | OPeek, OPeek | OLen, OLen => true | _, _ => false end.

Definition set_ren x l := {| ren := l; fob := fob x; boot := boot x; pin := pin x; cact := cact x; ccall := ccall x; nitems := nitems x; vdue := vdue x |}.
Definition set_fob x l := {| ren := ren x; fob := l; boot := boot x; pin := pin x; cact := cact x; ccall := ccall x; nitems := nitems x; vdue := vdue x |}.
Definition set_boot x n := {| ren := ren x; fob := fob x; boot := n; pin := pin x; cact := cact x; ccall := ccall x; nitems := nitems x; vdue := vdue x |}.
Definition set_pin x l := {| ren := ren x; fob := fob x; boot := boot x; pin := l; cact := cact x; ccall := ccall x; nitems := nitems x; vdue := vdue x |}.
Definition set_call x a n := {| ren := ren x; fob := fob x; boot := boot x; pin := pin x; cact := a; ccall := n; nitems := 0; vdue := vdue x |}.
Definition set_items x n := {| ren := ren x; fob := fob x; boot := boot x; pin := pin x; cact := cact x; ccall := ccall x; nitems := n; vdue := vdue x |}.
Definition set_vdue x b := {| ren := ren x; fob := fob x; boot := boot x; pin := pin x; cact := cact x; ccall := ccall x; nitems := nitems x; vdue := b |}.

(* if [pre] holds take the model transitions [acts] (all must be enabled), require [post] of the
   resulting state and let [nx] update the acceptor's own bookkeeping (None: inconsistent) *)
Definition fin (s : st) (pre : bool) (acts : list action) (post : st -> bool) (nx : st -> option aux) : option ast :=
  if pre then
    match run s acts with
    | Some s' => if post s' then match nx s' with Some x' => Some (s', x') | None => None end else None
    | None => None
    end
  else None.

Definition zn (n : nat) (v : Z) : bool := Z.eqb (Z.of_nat n) v.
Definition znz (v : Z) : bool := negb (Z.eqb v 0).
Definition memb (p : nat) (l : list nat) : bool := existsb (Nat.eqb p) l.

Local Open Scope Z_scope.

(* the packed tail word: bit 63 = closing, low bits = index, the rest = block address *)
Definition zclosing (w : Z) : bool := Z.testbit w 63.
Definition zlow (w : Z) : Z := Z.modulo w (2 ^ 63).
Definition zidx (w : Z) : nat := Z.to_nat (Z.modulo (zlow w) (Z.of_nat B)).
Definition zaddr (w : Z) : Z := zlow w - Z.modulo (zlow w) (Z.of_nat B).
(* the tail word the code saw is the model's tail word *)
Definition tail_is (s : st) (x : aux) (w : Z) : bool :=
  Nat.eqb (rn x (zaddr w)) (taddr (M s)) && negb (Nat.eqb (taddr (M s)) 0) &&
  Nat.eqb (zidx w) (ti (M s)) && Bool.eqb (zclosing w) (tc (M s)).

(* memory words *)
Definition w_tail : Z := 1.
Definition w_hidx : Z := 2.
Definition w_hblk : Z := 3.
Definition w_base (a : nat) : Z := 16 + Z.of_nat a * (2 * Z.of_nat B + 2).
Definition w_next (a : nat) : Z := w_base a.
Definition w_slot (a i : nat) : Z := w_base a + 1 + Z.of_nat i.
Definition w_rdy (a i : nat) : Z := w_base a + 1 + Z.of_nat B + Z.of_nat i.

(* the event is a consumer-side event of the thread inside consumer call k *)
Definition inc (x : aux) (a : Z) (k : nat) : bool := Z.eqb (cact x) a && Nat.eqb (ccall x) k && negb (Z.eqb a 0).
Definition incs (x : aux) (a : Z) : bool := Z.eqb (cact x) a && negb (Z.eqb a 0).

(* the memory word an event must hit, from the state BEFORE the event *)
Definition word_of (s : st) (x : aux) (code a : Z) : option Z :=
  let p := Z.to_nat a in let me := P s p in let m := M s in let c := C s in
  match code with
  | 21 | 22 | 28 | 30 | 41 => Some w_tail
  | 23 => Some (w_slot (lb me) (li me))
  | 24 => Some (w_rdy (lb me) (li me))
  | 25 | 26 => if incs x a && cpc_eqb (cp c) CNext then Some (w_next (hblk m)) else Some (w_next (lb me))
  | 27 => Some (w_next (pnx me))
  | 29 | 31 | 32 => Some (w_rdy (hblk m) (Nat.modulo (ck c) B))
  | 33 | 34 | 35 | 39 => Some w_hidx
  | 36 | 37 | 38 | 40 => Some w_hblk
  | 42 => Some (w_next (cblk c))
  | 43 => Some (w_next 1%nat)
  | _ => None
  end.

(* head.index.store: the commit, and with it old_block.replace when old_block is still None *)
Definition commit_acts (s : st) : list action :=
  if Nat.eqb (Nat.modulo (hidx (M s) + length (cacc (C s))) B) 0 && Nat.eqb (oldb (M s)) 0
  then [CStep; CStep] else [CStep].
(* a free of Queue::drop, and with the last one the drop of an empty old_block field *)
Definition dfree2_acts (s : st) : list action :=
  if Nat.eqb (oldb (M s)) 0 then [CStep; CStep] else [CStep].

Definition accept_core (sx : ast) (e : list Z) : option ast :=
  let (s, x) := sx in
  let m := M s in let c := C s in
  match e with
  | [code; a; o; v] =>
    let p := Z.to_nat a in let me := P s p in
    let up := Nat.eqb (boot x) 3 && Z.ltb 0 a in
    let atp pc := ppc_eqb (pp me) pc && up && memb p (pin x) in
    let atc pc := cpc_eqb (cp c) pc && up && incs x a in
    let same := fun _ : st => Some x in
    let yes := fun _ : st => true in
    match code with
    (* ---- Queue::new ---- *)
    | 17 => match boot x with
            | 0%nat => fin s true [] yes (fun _ => option_map (fun l => set_boot (set_ren x l) 1%nat) (bind_n (ren x) v 1%nat))
            | 1%nat => fin s true [] yes (fun _ => option_map (fun l => set_boot (set_ren x l) 2%nat) (bind_n (ren x) v 2%nat))
            | 3%nat => (* BlockNode::new_box of the pusher of a last slot *)
                let ad := addr_for x v in
                fin s (atp PAlloc && znz v) [PStep p ad] yes (fun _ => option_map (set_ren x) (bind_n (ren x) v ad))
            | _ => None
            end
    | 43 => fin s (Nat.eqb (boot x) 2 && Nat.eqb (rn x v) 2) [] yes (fun _ => Some (set_boot x 3%nat))
    (* ---- push ---- *)
    | 1 => fin s (ppc_eqb (pp me) PIdle && up && negb (memb p (pin x)) && Z.leb 0 v) [Push p (Z.to_nat v)] yes
               (fun _ => Some (set_pin x (p :: pin x)))
    | 2 => fin s (atp PIdle) [] yes (fun _ => Some (set_pin x (remove_nat p (pin x))))
    | 21 => fin s (atp PLoad && tail_is s x v) [PStep p 0%nat] yes same
    | 22 => fin s (atp PCas) [PStep p 0%nat] (fun s' => Bool.eqb (ppc_eqb (pp (P s' p)) PWrite) (znz v)) same
    | 23 => fin s (atp PWrite && zn (li me) v) [PStep p 0%nat] yes same
    | 24 => fin s (atp PReady && Z.eqb v 1) [PStep p 0%nat] yes same
    | 25 | 26 =>
        if atc CNext
        then fin s true [CStep]
                 (fun s' => if znz v then cpc_eqb (cp (C s')) CSetH && Nat.eqb (rn x v) (cnx (C s')) else cpc_eqb (cp (C s')) CNext) same
        else fin s (atp PNext) [PStep p 0%nat]
                 (fun s' => if znz v then ppc_eqb (pp (P s' p)) PLink && Nat.eqb (rn x v) (pnx (P s' p))
                            else ppc_eqb (pp (P s' p)) PNext) same
    | 27 => fin s (atp PLink && Nat.eqb (rn x v) (pnew me) && znz v) [PStep p 0%nat] yes same
    | 28 => fin s (atp PStore && Nat.eqb (rn x v) (pnx me) && znz v) [PStep p 0%nat] yes same
    (* ---- consumer calls ---- *)
    | 3 => fin s (up && Z.eqb (cact x) 0) [Pop] yes (fun _ => Some (set_call x a 1%nat))
    | 5 => fin s (up && Z.eqb (cact x) 0) [Bulk] yes (fun _ => Some (set_call x a 2%nat))
    | 8 => fin s (up && Z.eqb (cact x) 0) [Len] yes (fun _ => Some (set_call x a 3%nat))
    | 10 => fin s (up && Z.eqb (cact x) 0) [Len] yes (fun _ => Some (set_call x a 4%nat))
    | 12 => fin s (up && Z.eqb (cact x) 0) [Peek] yes (fun _ => Some (set_call x a 5%nat))
    | 14 => fin s (up && Z.eqb (cact x) 0 && isnil (pin x)) [Drop] yes (fun _ => Some (set_call x a 6%nat))
    | 4 => fin s (cpc_eqb (cp c) CIdle && inc x a 1%nat &&
                  (if znz o then match cret c with [r] => zn r v | _ => false end else isnil (cret c)))
               [] yes (fun _ => Some (set_call x 0 0%nat))
    | 7 => fin s (cpc_eqb (cp c) CIdle && inc x a 2%nat && zn (nitems x) o &&
                  Nat.ltb (nitems x) (length (cret c)) && zn (nth (nitems x) (cret c) 0%nat) v)
               [] yes (fun _ => Some (set_items x (S (nitems x))))
    | 6 => fin s (cpc_eqb (cp c) CIdle && inc x a 2%nat && zn (length (cret c)) o && Nat.eqb (nitems x) (length (cret c)))
               [] yes (fun _ => Some (set_call x 0 0%nat))
    | 9 => fin s (cpc_eqb (cp c) CIdle && inc x a 3%nat && zn (cres c) v) [] yes (fun _ => Some (set_call x 0 0%nat))
    | 11 => fin s (cpc_eqb (cp c) CIdle && inc x a 4%nat && Bool.eqb (Nat.eqb (cres c) 0) (znz v)) [] yes
                (fun _ => Some (set_call x 0 0%nat))
    | 13 => fin s (cpc_eqb (cp c) CIdle && inc x a 5%nat &&
                   (if znz o then match cret c with [r] => zn r v | _ => false end else isnil (cret c)))
                [] yes (fun _ => Some (set_call x 0 0%nat))
    | 15 => fin s (cpc_eqb (cp c) CDead && inc x a 6%nat && negb (vdue x)) [] yes (fun _ => Some (set_call x 0 0%nat))
    | 16 => fin s (cpc_eqb (cp c) CTry && cdrop c && inc x a 6%nat && vdue x && Nat.eqb (ck c) (hidx m) &&
                   match cret c with [r] => zn r v | _ => false end) [] yes (fun _ => Some (set_vdue x false))
    (* ---- consumer accesses ---- *)
    | 29 => fin s (atc CTry && negb (vdue x)) [CStep]
                (fun s' => if znz v then Nat.eqb (ck (C s')) (S (ck c)) else Nat.eqb (ck (C s')) (ck c)) same
    | 30 => fin s ((atc CTail || atc CLenT) && tail_is s x v) [CStep] yes same
    | 31 => fin s (atc CSpin && negb (op_eqb (cop c) OPeek)) [CStep]
                (fun s' => if znz v then Nat.eqb (ck (C s')) (S (ck c)) else Nat.eqb (ck (C s')) (ck c)) same
    | 32 => fin s (atc CSpin && op_eqb (cop c) OPeek) [CStep]
                (fun s' => if znz v then Nat.eqb (ck (C s')) (S (ck c)) else Nat.eqb (ck (C s')) (ck c)) same
    | 33 => fin s (atc CCommit && op_eqb (cop c) OPop) (commit_acts s) (fun s' => zn (hidx (M s')) v)
                (fun _ => Some (set_vdue x (cdrop c)))
    | 34 => fin s (atc CCommit && op_eqb (cop c) OBulk && Nat.eqb (cend c) (hidx m)) (commit_acts s)
                (fun s' => zn (hidx (M s')) v) same
    | 35 => fin s (atc CCommit && op_eqb (cop c) OBulk && negb (Nat.eqb (cend c) (hidx m))) (commit_acts s)
                (fun s' => zn (hidx (M s')) v) same
    | 18 => if cpc_eqb (cp c) CFree
            then fin s (atc CFree && znz v && Nat.eqb (rn x v) (oldb m)) [CStep] yes same
            else if cpc_eqb (cp c) DFree1
            then fin s (atc DFree1 && znz v && Nat.eqb (rn x v) (cnx c)) [CStep] yes same
            else if cpc_eqb (cp c) DFree2
            then fin s (atc DFree2 && znz v && Nat.eqb (rn x v) (cblk c)) (dfree2_acts s) yes same
            else fin s (atc DOld && znz v && Nat.eqb (rn x v) (oldb m)) [CStep] yes same
    | 36 => fin s (atc CSetH && op_eqb (cop c) OPop && znz v && Nat.eqb (rn x v) (cnx c)) [CStep] yes same
    | 37 => fin s (atc CSetH && op_eqb (cop c) OBulk && Nat.eqb (cend c) (ck c - length (cacc c)) && znz v && Nat.eqb (rn x v) (cnx c)) [CStep] yes same
    | 38 => fin s (atc CSetH && op_eqb (cop c) OBulk && negb (Nat.eqb (cend c) (ck c - length (cacc c))) && znz v && Nat.eqb (rn x v) (cnx c)) [CStep] yes same
    | 39 => fin s (atc CLenH) [CStep] (fun s' => zn (clh (C s')) v) same
    | 40 => fin s (atc DHead && znz v && Nat.eqb (rn x v) (hblk m) && negb (vdue x)) [CStep] yes same
    | 41 => fin s (atc DTail && tail_is s x v) [CStep] yes same
    | 42 => fin s (atc DNext) [CStep] (fun s' => znz v && Nat.eqb (rn x v) (cnx (C s'))) same
    | _ => None
    end
  | _ => None
  end.

(* the event's object must be the word the model accesses (objects <-> words is a bijection) *)
Definition accept_ev (sx : ast) (e : list Z) : option ast :=
  match accept_core sx e with
  | Some (s', x') =>
      match e with
      | [code; a; o; _] =>
          match word_of (fst sx) (snd sx) code a with
          | Some w => option_map (fun l => (s', set_fob x' l)) (bind_z (fob x') o w)
          | None => Some (s', x')
          end
      | _ => Some (s', x')
      end
  | None => None
  end.

Fixpoint accept_all (sx : ast) (tr : list (list Z)) : option ast :=
  match tr with
  | [] => Some sx
  | e :: l => match accept_ev sx e with Some sx' => accept_all sx' l | None => None end
  end.

(* the ghost monitors of the final state (the theorems say they never trip on a reachable state);
   after Queue::drop every allocation has been matched by a free *)
Definition a_final (sx : ast) : bool :=
  let s := fst sx in
  monitors_ok s && (if cpc_eqb (cp (C s)) CDead then Nat.eqb (nalloc (G s)) (nfree (G s)) else true).

Local Close Scope Z_scope.

Lemma run_reach acts : forall s s', Reach B true s -> run s acts = Some s' -> Reach B true s'.
Proof.
  induction acts as [|a l IH]; cbn [MpscFullModel.run]; intros s s' R H; [inversion H; subst; exact R|].
  destruct (step s a) as [s1|] eqn:E; [|discriminate]. eapply IH; [eapply RS; eauto | exact H].
Qed.
Lemma fin_reach s pre acts post nx sx' : Reach B true s -> fin s pre acts post nx = Some sx' -> Reach B true (fst sx').
Proof.
  unfold fin. intros R H. destruct pre; [|discriminate].
  destruct (run s acts) as [s1|] eqn:E; [|discriminate].
  destruct (post s1); [|discriminate]. destruct (nx s1); [|discriminate].
  inversion H; subst. cbn. eapply run_reach; eauto.
Qed.

Lemma accept_core_reach sx e sx' : Reach B true (fst sx) -> accept_core sx e = Some sx' -> Reach B true (fst sx').
Proof.
  destruct sx as [s x]. cbn [fst]. intros R H. unfold accept_core in H.
  repeat match type of H with
         | match ?z with _ => _ end = Some _ => destruct z; try discriminate
         | (if ?z then _ else _) = Some _ => destruct z; try discriminate
         end; eauto using fin_reach.
Qed.
Lemma accept_ev_reach sx e sx' : Reach B true (fst sx) -> accept_ev sx e = Some sx' -> Reach B true (fst sx').
Proof.
  intros R H. unfold accept_ev in H. destruct (accept_core sx e) as [[s1 x1]|] eqn:E; [|discriminate].
  pose proof (accept_core_reach _ _ _ R E) as R1. cbn [fst] in R1.
  assert (G : fst sx' = s1).
  { repeat match type of H with
           | match ?z with _ => _ end = Some _ => destruct z; try discriminate
           | option_map _ ?z = Some _ => destruct z; cbn [option_map] in H; try discriminate
           end; inversion H; reflexivity. }
  now rewrite G.
Qed.

(* every state along an accepted trace of the implementation is a reachable state of the model *)
Theorem accept_all_reach tr : forall sx sx', Reach B true (fst sx) -> accept_all sx tr = Some sx' -> Reach B true (fst sx').
Proof.
  induction tr as [|e l IH]; cbn [accept_all]; intros sx sx' R H; [inversion H; subst; exact R|].
  destruct (accept_ev sx e) as [sx1|] eqn:E; [|discriminate]. eapply IH; [eapply accept_ev_reach; eauto | exact H].
Qed.
End A.
