From Coq Require Import List Arith Bool Lia.
Import ListNotations.
Require Import MayV.Queue.MpscCore MayV.Queue.MpscInv MayV.Queue.MpscPres.

Lemma map_upd_out {X} (f : nat -> X) j v h m : h + m <= j -> map (upd f j v) (seq h m) = map f (seq h m).
Proof.
  intros L. apply map_ext_in. intros x Hx. apply in_seq in Hx. apply upd_neq. lia.
Qed.

Section S.
Variable B : nat.
Hypothesis Bpos : 1 <= B.
Notation step := (step B).
Notation Inv := (Inv B).

Lemma pres_F s a s' : Inv s -> step s a = Some s' -> absq s' = map (rv s') (seq (hidx s') (lpb B s' - hidx s')).
Proof.
  intros Hi H. pose proof (IF _ _ Hi) as F. pose proof (IE _ _ Hi) as E. destruct (IA _ _ Hi) as [A1 A2].
  pose proof (IG _ _ Hi) as G. pose proof (IC _ _ Hi (hidx s)) as C.
  pose proof (IB _ _ Hi (tk s * B + ti s)) as Bt.
  step_cases H; bools; unfold lpb, res in *; cbn [tk ti tc sval srdy hidx P cp cv saw rv absq bad_none bad_fifo] in *; auto;
    try (p_facts Hi p).
  - (* CAS, not the last slot: linearisation point of the push *)
    rewrite H0 in *. cbn [andb] in *. rewrite H, H1.
    replace (tk s * B + S (ti s) + 0 - hidx s) with (S (tk s * B + ti s + 0 - hidx s)) by lia.
    rewrite seq_S, map_app. cbn [map]. rewrite map_upd_out by lia. rewrite <- F. f_equal.
    replace (hidx s + (tk s * B + ti s + 0 - hidx s)) with (tk s * B + ti s) by lia. rewrite upd_eq. reflexivity.
  - (* CAS on the last slot: closing bit set, not yet linearised *)
    rewrite H0 in *. cbn [andb] in *. rewrite H, H1.
    assert (Q : tk s * B + ti s + 0 <= tk s * B + ti s) by lia. destruct (Bt Q) as [_ Br]. rewrite Br.
    rewrite map_upd_out by lia. exact F.
  - (* publishing a slot that is not the closing one does not move the LP bound *)
    destruct Dp as (D1 & D2 & D3 & D4 & D5 & D6).
    destruct (closing_slot_neq B Bpos s (P s p) Hi Ec) as [N|N].
    + rewrite upd_neq by congruence. exact F.
    + rewrite N in *. cbn [andb] in *. exact F.
  - (* publishing the last slot of a block: linearisation point of that push *)
    destruct Dp as (D1 & D2 & D3 & D4 & D5 & D6).
    assert (Q : S (li (P s p)) = B) by lia. destruct (D6 Q) as (K1 & K2 & K3).
    rewrite K1, K2, K3 in *. cbn [andb] in *. rewrite D4 in *. rewrite upd_eq.
    replace (tk s * B + ti s + 1 - hidx s) with (S (tk s * B + ti s + 0 - hidx s)) by lia.
    rewrite seq_S, map_app. cbn [map]. rewrite <- F. f_equal.
    replace (hidx s + (tk s * B + ti s + 0 - hidx s)) with (tk s * B + ti s) by lia. rewrite D3. reflexivity.
  - (* the last pusher re-opens the tail on the next block: same LP bound *)
    destruct Dp as (D1 & D2 & D3 & D4 & D5). unfold slot in D5.
    rewrite D2, D3 in *. rewrite D4, D5 in F. cbn [andb] in *.
    replace (S (tk s) * B + 0 + 0 - hidx s) with (tk s * B + ti s + 1 - hidx s) by nia. exact F.
  - (* commit of a pop *)
    destruct (G eq_refl) as [G1 G2]. destruct (C G1) as [_ C2].
    rewrite F.
    destruct (tk s * B + ti s + (if tc s && srdy s (tk s * B + ti s) then 1 else 0) - hidx s) eqn:El; [lia|].
    replace (tk s * B + ti s + (if tc s && srdy s (tk s * B + ti s) then 1 else 0) - S (hidx s)) with n by lia.
    reflexivity.
Qed.
End S.
