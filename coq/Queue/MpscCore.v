(* Prototype (design-time): linearisation core of may_queue::mpsc::Queue.
   Slots are addressed by their logical index k*B+i (the block chain / reclamation is left to
   the real model); what is kept: the packed tail word (block k, index i, closing bit), the
   reserving CAS, slot write, `ready` publication, the last pusher re-opening the tail, and the
   consumer's try_get / push_index() / spin / head.index store, with the linearisation points
   of DESIGN.md C03 as ghost updates. *)
From Coq Require Import List Arith Bool Lia.
Import ListNotations.

Section M.
Variable B : nat.
Hypothesis Bpos : 1 <= B.

Inductive ppc := PIdle | PLoad | PCas | PWrite | PReady | PStore.
Inductive cpc := CIdle | CTry | CTail | CSpin | CCommit.

Record pst := { pp : ppc; lk : nat; li : nat; pv : nat }.
Record st := {
  tk : nat; ti : nat; tc : bool;              (* tail word *)
  sval : nat -> option nat; srdy : nat -> bool; (* slots by logical index *)
  hidx : nat;                                 (* consumer position *)
  P : nat -> pst;
  cp : cpc; cv : nat; saw : bool;             (* consumer pc, value read, ghost: saw the abstract queue empty during this pop *)
  rv : nat -> nat;                            (* ghost: value reserved for each slot *)
  absq : list nat;                            (* ghost: abstract FIFO *)
  bad_none : bool;                            (* ghost monitor: an unjustified None was returned *)
  bad_fifo : bool                             (* ghost monitor: a pop returned something else than the abstract head *)
}.

Definition upd {X} (f : nat -> X) i v := fun j => if Nat.eqb j i then v else f j.
Definition isnil {X} (l : list X) := match l with [] => true | _ => false end.

Inductive action := Push (p v : nat) | PStep (p : nat) | Pop | CStep.

Definition step (s : st) (a : action) : option st :=
  match a with
  | Push p v =>
      match pp (P s p) with
      | PIdle => Some {| tk := tk s; ti := ti s; tc := tc s; sval := sval s; srdy := srdy s; hidx := hidx s;
                         P := upd (P s) p {| pp := PLoad; lk := 0; li := 0; pv := v |};
                         cp := cp s; cv := cv s; saw := saw s; rv := rv s; absq := absq s; bad_none := bad_none s; bad_fifo := bad_fifo s |}
      | _ => None
      end
  | PStep p =>
      let x := P s p in
      match pp x with
      | PIdle => None
      | PLoad => Some {| tk := tk s; ti := ti s; tc := tc s; sval := sval s; srdy := srdy s; hidx := hidx s;
                         P := upd (P s) p {| pp := PCas; lk := tk s; li := ti s; pv := pv x |};
                         cp := cp s; cv := cv s; saw := saw s; rv := rv s; absq := absq s; bad_none := bad_none s; bad_fifo := bad_fifo s |}
      | PCas =>
          if Nat.eqb (lk x) (tk s) && Nat.eqb (li x) (ti s) && negb (tc s) then
            let j := lk x * B + li x in
            if Nat.ltb (S (li x)) B
            then Some {| tk := tk s; ti := S (ti s); tc := false; sval := sval s; srdy := srdy s; hidx := hidx s;
                         P := upd (P s) p {| pp := PWrite; lk := lk x; li := li x; pv := pv x |};
                         cp := cp s; cv := cv s; saw := saw s; rv := upd (rv s) j (pv x);
                         absq := absq s ++ [pv x]; bad_none := bad_none s; bad_fifo := bad_fifo s |}
            else Some {| tk := tk s; ti := ti s; tc := true; sval := sval s; srdy := srdy s; hidx := hidx s;
                         P := upd (P s) p {| pp := PWrite; lk := lk x; li := li x; pv := pv x |};
                         cp := cp s; cv := cv s; saw := saw s; rv := upd (rv s) j (pv x);
                         absq := absq s; bad_none := bad_none s; bad_fifo := bad_fifo s |}
          else (* CAS failed: continue with the value it returned (closing bit stripped) *)
            Some {| tk := tk s; ti := ti s; tc := tc s; sval := sval s; srdy := srdy s; hidx := hidx s;
                    P := upd (P s) p {| pp := PCas; lk := tk s; li := ti s; pv := pv x |};
                    cp := cp s; cv := cv s; saw := saw s; rv := rv s; absq := absq s; bad_none := bad_none s; bad_fifo := bad_fifo s |}
      | PWrite => let j := lk x * B + li x in
            Some {| tk := tk s; ti := ti s; tc := tc s; sval := upd (sval s) j (Some (pv x)); srdy := srdy s; hidx := hidx s;
                    P := upd (P s) p {| pp := PReady; lk := lk x; li := li x; pv := pv x |};
                    cp := cp s; cv := cv s; saw := saw s; rv := rv s; absq := absq s; bad_none := bad_none s; bad_fifo := bad_fifo s |}
      | PReady => let j := lk x * B + li x in
            if Nat.ltb (S (li x)) B
            then Some {| tk := tk s; ti := ti s; tc := tc s; sval := sval s; srdy := upd (srdy s) j true; hidx := hidx s;
                    P := upd (P s) p {| pp := PIdle; lk := lk x; li := li x; pv := pv x |};
                    cp := cp s; cv := cv s; saw := saw s; rv := rv s; absq := absq s; bad_none := bad_none s; bad_fifo := bad_fifo s |}
            else Some {| tk := tk s; ti := ti s; tc := tc s; sval := sval s; srdy := upd (srdy s) j true; hidx := hidx s;
                    P := upd (P s) p {| pp := PStore; lk := lk x; li := li x; pv := pv x |};
                    cp := cp s; cv := cv s; saw := saw s; rv := rv s; absq := absq s ++ [pv x]; bad_none := bad_none s; bad_fifo := bad_fifo s |}
      | PStore =>
            Some {| tk := S (lk x); ti := 0; tc := false; sval := sval s; srdy := srdy s; hidx := hidx s;
                    P := upd (P s) p {| pp := PIdle; lk := lk x; li := li x; pv := pv x |};
                    cp := cp s; cv := cv s; saw := saw s; rv := rv s; absq := absq s; bad_none := bad_none s; bad_fifo := bad_fifo s |}
      end
  | Pop =>
      match cp s with
      | CIdle => Some {| tk := tk s; ti := ti s; tc := tc s; sval := sval s; srdy := srdy s; hidx := hidx s; P := P s;
                         cp := CTry; cv := 0; saw := false; rv := rv s; absq := absq s; bad_none := bad_none s; bad_fifo := bad_fifo s |}
      | _ => None
      end
  | CStep =>
      match cp s with
      | CIdle => None
      | CTry =>
          if srdy s (hidx s)
          then Some {| tk := tk s; ti := ti s; tc := tc s; sval := sval s; srdy := srdy s; hidx := hidx s; P := P s;
                       cp := CCommit; cv := match sval s (hidx s) with Some v => v | None => 0 end; saw := saw s;
                       rv := rv s; absq := absq s; bad_none := bad_none s; bad_fifo := bad_fifo s |}
          else Some {| tk := tk s; ti := ti s; tc := tc s; sval := sval s; srdy := srdy s; hidx := hidx s; P := P s;
                       cp := CTail; cv := 0; saw := saw s || isnil (absq s);
                       rv := rv s; absq := absq s; bad_none := bad_none s; bad_fifo := bad_fifo s |}
      | CTail =>
          if Nat.leb (tk s * B + ti s) (hidx s)      (* pop_index >= push_index(): return None *)
          then Some {| tk := tk s; ti := ti s; tc := tc s; sval := sval s; srdy := srdy s; hidx := hidx s; P := P s;
                       cp := CIdle; cv := 0; saw := saw s;
                       rv := rv s; absq := absq s; bad_none := bad_none s || negb (saw s || isnil (absq s)); bad_fifo := bad_fifo s |}
          else Some {| tk := tk s; ti := ti s; tc := tc s; sval := sval s; srdy := srdy s; hidx := hidx s; P := P s;
                       cp := CSpin; cv := 0; saw := saw s;
                       rv := rv s; absq := absq s; bad_none := bad_none s; bad_fifo := bad_fifo s |}
      | CSpin =>
          if srdy s (hidx s)
          then Some {| tk := tk s; ti := ti s; tc := tc s; sval := sval s; srdy := srdy s; hidx := hidx s; P := P s;
                       cp := CCommit; cv := match sval s (hidx s) with Some v => v | None => 0 end; saw := saw s;
                       rv := rv s; absq := absq s; bad_none := bad_none s; bad_fifo := bad_fifo s |}
          else Some s
      | CCommit =>
          Some {| tk := tk s; ti := ti s; tc := tc s; sval := sval s; srdy := srdy s; hidx := S (hidx s); P := P s;
                  cp := CIdle; cv := cv s; saw := saw s; rv := rv s;
                  absq := tl (absq s);
                  bad_none := bad_none s;
                  bad_fifo := bad_fifo s || negb (match absq s with v :: _ => Nat.eqb v (cv s) | [] => false end) |}
      end
  end.

Definition init : st :=
  {| tk := 0; ti := 0; tc := false; sval := fun _ => None; srdy := fun _ => false; hidx := 0;
     P := fun _ => {| pp := PIdle; lk := 0; li := 0; pv := 0 |};
     cp := CIdle; cv := 0; saw := false; rv := fun _ => 0; absq := []; bad_none := false; bad_fifo := false |}.

Inductive Reach : st -> Prop :=
| R0 : Reach init
| RS s a s' : Reach s -> step s a = Some s' -> Reach s'.

End M.
