(* C04 - preservation of the actor assertions, part 2: the stepping actor establishes the assertion of its next
   control point. *)
From Coq Require Import List Arith Bool Lia.
Import ListNotations.
Require Import MayV.Queue.SpmcModel MayV.Queue.SpmcInv MayV.Queue.SpmcTac MayV.Queue.SpmcFacts MayV.Queue.SpmcPresA1.
Section S.
Variable B : nat. Variable reuse : bool. Hypothesis Bpos : 1 <= B.
Notation step := (step B reuse). Notation Inv := (Inv B).

Lemma head_below_tail s : Inv s -> tbk s = badr s (nblk s - 1) -> bno (heap s (tbk s)) = nblk s - 1 ->
  (nblk s - 1) * B <= tix s < nblk s * B -> ~ (hb s = tbk s /\ tix s mod B <= hi s) -> HL s < tix s.
Proof.
  intros Hi T2 TB T4 Hne. destruct (head_facts _ Bpos _ Hi) as (F1 & F2 & F3 & F4 & F5 & _).
  destruct (ITl _ _ Hi) as (T1 & _). pose proof (pred_mul _ Bpos _ T1) as PM.
  rewrite F4. destruct (Nat.eq_dec (hb s) (tbk s)) as [e|ne].
  - rewrite e in *. rewrite TB in *.
    assert (tix s mod B = tix s - (nblk s - 1) * B).
    { replace (tix s) with ((nblk s - 1) * B + (tix s - (nblk s - 1) * B)) at 1 by lia. apply mod_block; auto. lia. }
    lia.
  - assert (bno (heap s (hb s)) <> nblk s - 1) by (intro Q; apply ne; rewrite <- F2, Q; auto).
    assert (S (bno (heap s (hb s))) * B <= (nblk s - 1) * B) by (apply Nat.mul_le_mono_r; lia).
    lia.
Qed.

Lemma mod_in_block k t : k * B <= t < k * B + B -> t mod B = t - k * B.
Proof. intros H. replace t with (k * B + (t - k * B)) at 1 by lia. apply mod_block; auto. lia. Qed.

Lemma tix_lt_blocks s : Inv s -> tix s < nblk s * B.
Proof.
  intros Hi. destruct (ITl _ _ Hi) as (T1 & T2 & T3). cbn zeta in *. pose proof (pred_mul _ Bpos _ T1) as PM.
  destruct (pc (A s 0)); lia.
Qed.

Ltac cas_ok Ec :=
  let E1 := fresh "E" in let E2 := fresh "E" in
  apply andb_prop in Ec; destruct Ec as [E1 Hhl]; apply andb_prop in E1; destruct E1 as [Hhb Hhi];
  apply Nat.eqb_eq in Hhb; apply Nat.eqb_eq in Hhi; apply negb_true_iff in Hhl.

Lemma step_own s ac s' : Inv s -> step s ac = Some s' -> ainv B s' (actor_of ac).
Proof.
  intros Hi H. pose proof (IAc _ _ Hi (actor_of ac)) as Ha.
  pose proof (head_facts _ Bpos _ Hi) as HF. cbn zeta in HF.
  destruct (IHd _ _ Hi) as (HD1 & HD2).
  destruct (tail_facts _ Bpos _ Hi) as (TA & TB). destruct (ITl _ _ Hi) as (T1 & T2 & T3). cbn zeta in *.
  pose proof (pred_mul _ Bpos _ T1) as PM.
  unfold ainv in *.
  step_cases H; cbn [actor_of] in *; simp; rewrite ?upd_eq; simp.
  all: try exact Ha.
  all: rewrite Epc in Ha; cbn beta iota in Ha.
  all: destruct Ha as (A1 & A2 & A3 & A4).
  all: try (destruct k; cbn [entry] in * ).
  all: unfold local_ok, lock_ok, claim_ok, emptyck, newid, lockedB, locked, nexti in *; simp.
  all: split; [auto | split; [ | split ]].
  all: try solve [auto].
  all: try solve [intros; discriminate].
  all: try solve [intros [Q|Q]; discriminate].
  all: try solve [cbn; auto].
  all: try solve [bools; auto].
  all: try solve [bools; intros; auto].
  all: try solve [bools; repeat split; auto; try tauto; try lia].
  - (* Call KPush *) intros _. cbn in Ec. bools. auto.
  - (* Call KLocal *) intros _. cbn in Ec. bools. auto.
  - (* XC: lock taken *) cas_ok Ec. rewrite Ec0. destruct A4 as (E1 & E2 & E3).
    split; [|split; [auto|split; [auto|]]].
    + rewrite E2. destruct (is_bulk (kd (A s a))); [destruct (lb (A s a) =? ltb (A s a)); [apply mod_lt; auto | lia] | lia].
    + intros Q. destruct (E3 Q) as (Q1 & Q2). assert (a = 0) by auto. subst a. rewrite Epc in *. cbn beta iota in *.
      rewrite Q in *. cbn [is_bulk] in *. apply Nat.eqb_eq in Ec0.
      assert (HL s < tix s).
      { apply head_below_tail; auto; [tauto|]. intros (R1 & R2). rewrite <- Hhb, <- Hhi, Q1, Q2 in *.
        rewrite R1, Nat.eqb_refl in E1. cbn [andb] in E1. apply Nat.leb_gt in E1. lia. }
      unfold HL in *. rewrite Hhb, Hhi in *. lia.
  - (* XC: claim *) cas_ok Ec. rewrite Ec0. destruct A4 as (E1 & E2 & E3).
    pose proof (nexti_bounds _ Bpos (A s a) A1 E1 E2 Ec0) as NB. unfold nexti in NB.
    destruct HF as (F1 & F2 & F3 & F4 & F5 & F6 & F7 & F8). rewrite <- Hhb in *.
    split; [|split; [auto|split; [|split; [auto|]]]].
    + rewrite E2. destruct (is_bulk (kd (A s a))); [destruct (hb s =? ltb (A s a)); [apply mod_lt; auto | lia] | lia].
    + repeat split; auto; try lia.
      * rewrite updr_in by lia. reflexivity.
      * apply (unrel_above _ Bpos); auto. unfold HL. lia.
      * apply (unrel_above _ Bpos); auto. unfold HL. lia.
    + intros Q. destruct (E3 Q) as (Q1 & Q2). assert (a = 0) by auto. subst a. rewrite Epc in *. cbn beta iota in *.
      rewrite Q in *. cbn [is_bulk] in *.
      assert (HL s < tix s).
      { apply head_below_tail; auto; [tauto|]. intros (R1 & R2). rewrite <- Hhi, Q1, Q2 in *.
        rewrite R1, Nat.eqb_refl in E1. cbn [andb] in E1. apply Nat.leb_gt in E1. lia. }
      unfold HL in *. lia.
  - (* XS, local, lock, would restore: impossible *) exfalso. rewrite Ec in A4. destruct A4 as (_ & LO & (LKo & KL)).
    apply is_local_true in Ec0. destruct (LO Ec0) as (Q1 & Q2). specialize (KL Ec0). apply Nat.leb_le in Ec1. lia.
  - (* XS, local, lock *) rewrite Ec in A4. destruct A4 as (_ & LO & (LKo & KL)).
    apply is_local_true in Ec0. destruct (LO Ec0) as (Q1 & Q2). specialize (KL Ec0). rewrite Ec0 in Ec. cbn [is_bulk] in Ec. apply Nat.eqb_eq in Ec.
    repeat split; auto; try tauto; lia.
  - (* XS, lock *) rewrite Ec in A4. destruct A4 as (_ & LO & (LKo & KL)). apply is_local_false in Ec0. repeat split; auto; tauto.
  - (* XS, local, skip branch: impossible *) rewrite Ec in A4. destruct A4 as (_ & LO & (Cl & Gh & KL)).
    apply is_local_true in Ec0. destruct (LO Ec0) as (Q1 & Q2). specialize (KL Ec0). rewrite Ec0 in *. cbn [is_bulk] in *. apply Nat.leb_le in Ec1. lia.
  - (* XS, local *) rewrite Ec in A4. destruct A4 as (_ & LO & (Cl & Gh & KL)).
    apply is_local_true in Ec0. destruct (LO Ec0) as (Q1 & Q2). specialize (KL Ec0). rewrite Ec0 in *. cbn [is_bulk] in *.
    destruct Cl as (C1 & C2 & C3 & C4 & C5). rewrite Epc in C5. repeat split; auto; try lia; apply C5; auto.
  - (* XS *) rewrite Ec in A4. destruct A4 as (_ & LO & (Cl & Gh & KL)).
    destruct Cl as (C1 & C2 & C3 & C4 & C5). rewrite Epc in C5. repeat split; auto; try lia; apply C5; auto.
  - (* XT bulk, to the block end *) destruct A4 as ((L1 & L2 & L3) & NL & Pp & Lk).
    destruct HF as (F1 & F2 & F3 & F4 & F5 & _). rewrite L2 in *. apply Nat.leb_gt in Ec. apply Nat.eqb_eq in Ec1.
    rewrite Pp in *. replace (bstart (heap s (lb (A s a))) + li (A s a) - li (A s a)) with (bstart (heap s (lb (A s a)))) in * by lia.
    repeat split; auto; try lia.
    destruct (Nat.le_gt_cases (bstart (heap s (lb (A s a))) + B) (tix s)) as [Q|Q]; [lia|].
    rewrite Nat.min_r in * by lia. rewrite (mod_in_block (bno (heap s (lb (A s a))))) in Ec1 by lia. lia.
  - (* XT bulk, inside the block *) destruct A4 as ((L1 & L2 & L3) & NL & Pp & Lk).
    destruct HF as (F1 & F2 & F3 & F4 & F5 & _). rewrite L2 in *. apply Nat.leb_gt in Ec. apply Nat.eqb_neq in Ec1.
    rewrite Pp in *. replace (bstart (heap s (lb (A s a))) + li (A s a) - li (A s a)) with (bstart (heap s (lb (A s a)))) in * by lia.
    repeat split; auto; try lia.
    destruct (Nat.le_gt_cases (bstart (heap s (lb (A s a))) + B) (tix s)) as [Q|Q]; [|lia].
    rewrite Nat.min_l in * by lia. rewrite F3 in Ec1. rewrite mod_block_end in Ec1 by auto. lia.
  - (* XT pop *) destruct A4 as ((L1 & L2 & L3) & NL & Pp & Lk). rewrite Ec0 in Lk. apply Nat.eqb_eq in Lk. apply Nat.leb_gt in Ec.
    repeat split; auto; lia.
  - (* XN *) destruct A4 as ((L1 & L2 & L3) & Pp & Pe & Pt). destruct HF as (F1 & F2 & F3 & F4 & F5 & _). rewrite L2 in *.
    pose proof (tix_lt_blocks s Hi) as TL.
    assert (SK : S (bno (heap s (lb (A s a)))) < nblk s).
    { destruct (Nat.le_gt_cases (nblk s) (S (bno (heap s (lb (A s a)))))) as [Q|Q]; [|lia].
      apply (Nat.mul_le_mono_r _ _ B) in Q. lia. }
    destruct (IBk _ _ Hi _ HD2) as (_ & _ & _ & _ & _ & K6 & _).
    repeat split; auto.
  - (* XH *) destruct A4 as ((L1 & L2 & L3) & Pp & Pe & Pt & _). destruct HF as (F1 & F2 & F3 & F4 & F5 & _). rewrite L2 in *.
    repeat split; auto; try lia.
    + rewrite updr_in by lia. reflexivity.
    + apply (unrel_above _ Bpos); auto. unfold HL. rewrite L2, L3. lia.
    + apply (unrel_above _ Bpos); auto. unfold HL. rewrite L2, L3. lia.
  - (* XH, null *) destruct A4 as (_ & _ & _ & _ & Nx & _). congruence.
  - (* XH2 *) destruct A4 as ((L1 & L2 & L3) & Pp & Pl & Pe & Pt). destruct HF as (F1 & F2 & F3 & F4 & F5 & _). rewrite L2 in *.
    repeat split; auto; try lia.
    + rewrite updr_in by lia. reflexivity.
    + apply (unrel_above _ Bpos); auto. unfold HL. rewrite L2, L3. lia.
    + apply (unrel_above _ Bpos); auto. unfold HL. rewrite L2, L3. lia.
  - (* XW *) destruct A4 as ((C1 & C2 & C3 & C4 & C5) & Pp & Pe). rewrite Epc in C5. apply Nat.leb_le in Ec.
    repeat split; auto; apply C5; auto.
  - (* XG *) destruct A4 as ((C1 & C2 & C3 & C4 & C5) & Pp & Pe & Pt). rewrite Epc in C5. rewrite Pp, Pe in *.
    destruct (IBk _ _ Hi _ C2) as (_ & _ & K3 & _ & _ & _ & K7). pose proof (len_pushed _ Bpos _ Hi) as LP.
    repeat split; auto; try (apply C5; auto).
    + rewrite updr_in by lia. reflexivity.
    + unfold val_at; simp. rewrite <- (map_add_seq B Bpos (glo (A s a))). rewrite map_map. apply map_ext_in.
      intros j Hj. apply in_seq in Hj. rewrite K7 by lia. unfold val_at. f_equal. lia.
Qed.
End S.
