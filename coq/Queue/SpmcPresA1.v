(* C04 - preservation of the actor assertions, part 1: interference freedom.  [stable] is what the assertion of
   an actor needs from a step of somebody else; every step provides it for every other actor. *)
From Coq Require Import List Arith Bool Lia.
Import ListNotations.
Require Import MayV.Queue.SpmcModel MayV.Queue.SpmcInv MayV.Queue.SpmcTac MayV.Queue.SpmcFacts.
Section S.
Variable B : nat. Variable reuse : bool. Hypothesis Bpos : 1 <= B.
Notation step := (step B reuse). Notation Inv := (Inv B).

(* what the assertion of an actor with local state x needs from a step of somebody else *)
Definition stable (s s' : st) (x : ast) : Prop :=
  tix s <= tix s' /\
  (kd x = KLocal -> tix s' = tix s /\ tbk s' = tbk s) /\
  (lockpc B x = true -> hl s' = hl s /\ hb s' = hb s /\ hi s' = hi s) /\
  (holds B x = true \/ lockpc B x = true ->
     alive (heap s' (lb x)) = true /\ bstart (heap s' (lb x)) = bstart (heap s (lb x)) /\ bno (heap s' (lb x)) = bno (heap s (lb x))) /\
  (holds B x = true -> forall i, glo x <= i < ghi x -> cl s' i = cl s i /\ rl s' i = rl s i /\ rd s' i = rd s i) /\
  (nblk s <= nblk s' /\ forall k, k < nblk s -> badr s' k = badr s k) /\
  (forall i, i < length (pushed s) -> val_at s' i = val_at s i).

Lemma map_ext_seq {X} (f g : nat -> X) lo n : (forall i, lo <= i < lo + n -> f i = g i) -> map f (seq lo n) = map g (seq lo n).
Proof. intros H. apply map_ext_in. intros i Hi. apply in_seq in Hi. apply H. lia. Qed.

Lemma ainv_frame s s' a : Inv s -> A s' a = A s a -> stable s s' (A s a) -> ainv B s' a.
Proof.
  intros Hi EA (S1 & S2 & S3 & S4 & S5 & (S6 & S7) & S8). pose proof (IAc _ _ Hi a) as Ha. pose proof (len_pushed _ Bpos _ Hi) as LP.
  unfold ainv in *. rewrite EA. set (x := A s a) in *.
  destruct Ha as (H1 & H2 & H3 & H4). repeat split; auto.
  unfold holds, lockpc in S3, S4, S5. unfold local_ok, lock_ok, claim_ok in *.
  destruct (pc x) eqn:E; auto.
  all: try match goal with |- context [if lockedB B ?y then _ else _] => destruct (lockedB B y) eqn:EL; cbn [negb] in * end.
  all: repeat match goal with
       | H : true = true -> _ |- _ => specialize (H eq_refl)
       | H : true = true \/ _ -> _ |- _ => specialize (H (or_introl eq_refl))
       | H : _ \/ true = true -> _ |- _ => specialize (H (or_intror eq_refl))
       end.
  all: try (lazymatch type of S3 with _ /\ _ => destruct S3 as (S3a & S3b & S3c); rewrite S3a, S3b, S3c end).
  all: try (lazymatch type of S4 with _ /\ _ => destruct S4 as (S4a & S4b & S4c); rewrite ?S4a, ?S4b, ?S4c end).
  - (* XC *) destruct H4 as (P1 & P2 & P3). split; [auto | split; [auto |]]. intros Q. destruct (S2 Q) as [-> ->]. apply P3; auto.
  - (* XS locked *) destruct H4 as (P1 & P2 & P3 & P4). split; [auto | split; [| split; [tauto|]]].
    + intros Q; destruct (S2 Q) as [-> ->]; apply P2; auto.
    + intros Q. specialize (P4 Q). lia.
  - (* XS claim *) destruct H4 as (P1 & P2 & (C1 & C2 & C3 & C4 & C5) & P4 & P5). split; [auto | split; [| split; [| split; [auto|]]]].
    + intros Q; destruct (S2 Q) as [-> ->]; apply P2; auto.
    + repeat split; auto.
      * destruct (S5 i H) as (-> & _ & _). apply C5; auto.
      * destruct (S5 i H) as (_ & -> & _). apply C5; auto.
      * destruct (S5 i H) as (_ & _ & ->). apply C5; auto.
    + intros Q. specialize (P5 Q). lia.
  - (* XT *) tauto.
  - tauto.
  - (* XN *) destruct H4 as (P1 & P2 & P3 & P4). repeat split; auto; try tauto. lia.
  - (* XH *) destruct H4 as (P1 & P2 & P3 & P4 & P5 & P6). repeat split; auto; try tauto; try lia. rewrite S7 by lia. auto.
  - (* XH2 *) destruct H4 as (P1 & P2 & P3 & P4 & P5). repeat split; auto; try tauto; lia.
  - (* XW *) destruct H4 as ((C1 & C2 & C3 & C4 & C5) & P4 & P5). repeat split; auto.
    + destruct (S5 i H) as (-> & _ & _). apply C5; auto.
    + destruct (S5 i H) as (_ & -> & _). apply C5; auto.
    + destruct (S5 i H) as (_ & _ & ->). apply C5; auto.
  - (* XG *) destruct H4 as ((C1 & C2 & C3 & C4 & C5) & P4 & P5 & P6). repeat split; auto; try lia.
    + destruct (S5 i H) as (-> & _ & _). apply C5; auto.
    + destruct (S5 i H) as (_ & -> & _). apply C5; auto.
    + destruct (S5 i H) as (_ & _ & ->). apply C5; auto.
  - (* XM *) destruct H4 as ((C1 & C2 & C3 & C4 & C5) & P4 & P5 & P6 & P7). repeat split; auto; try lia.
    + destruct (S5 i H) as (-> & _ & _). apply C5; auto.
    + destruct (S5 i H) as (_ & -> & _). apply C5; auto.
    + destruct (S5 i H) as (_ & _ & ->). apply C5; auto.
    + rewrite P7. apply map_ext_seq. intros i Hi'. symmetry. apply S8. lia.
Qed.


Definition actor_of (ac : action) : nat := match ac with Call a _ _ | Step a _ | Ret a => a end.

Lemma step_other s ac s' a' : step s ac = Some s' -> a' <> actor_of ac -> A s' a' = A s a'.
Proof.
  intros H Hne. step_cases H; cbn [actor_of] in Hne; simp; rewrite ?upd_neq by auto; reflexivity.
Qed.

Lemma holds_claim s a : Inv s -> holds B (A s a) = true -> claim_ok B s a (A s a).
Proof.
  intros Hi H. pose proof (IAc _ _ Hi a) as Ha. unfold ainv in Ha. unfold holds in H.
  destruct (pc (A s a)) eqn:E; try discriminate; destruct Ha as (_ & _ & _ & Ha); try tauto.
  destruct (lockedB B (A s a)); [discriminate | tauto].
Qed.

(* an actor that owns a claim or the lock pins its block: the block has an unreleased slot that nobody else claimed *)
Lemma pinned_index s a : Inv s -> holds B (A s a) = true \/ lockpc B (A s a) = true ->
  exists i, bno (heap s (lb (A s a))) * B <= i < bno (heap s (lb (A s a))) * B + B /\ rl s i = false /\
            (cl s i = Some a \/ cl s i = None).
Proof.
  intros Hi H. destruct H as [H|H].
  - assert (C : claim_ok B s a (A s a)).
    { pose proof (IAc _ _ Hi a) as Ha. unfold ainv in Ha. unfold holds in H.
      destruct (pc (A s a)) eqn:E; try discriminate; destruct Ha as (_ & _ & _ & Ha); try tauto.
      destruct (lockedB B (A s a)); [discriminate | tauto]. }
    destruct (claim_facts _ Bpos _ _ _ Hi C) as (F1 & F2 & F3 & F4 & F5 & F6 & F7 & F8 & F9).
    destruct C as (C1 & C2 & C3 & C4 & C5). exists (glo (A s a)). destruct (C5 (glo (A s a))) as (Q1 & Q2 & _); [lia|].
    repeat split; auto; lia.
  - destruct (lock_knows _ s a Hi H) as (L1 & L2 & L3). destruct (head_facts _ Bpos _ Hi) as (F1 & F2 & F3 & F4 & F5 & F6 & F7 & F8).
    exists (HL s). rewrite <- L2. repeat split; auto; lia.
Qed.

Lemma step_stable s ac s' a' : Inv s -> step s ac = Some s' -> a' <> actor_of ac -> stable s s' (A s a').
Proof.
  intros Hi H Hne. pose proof (IAc _ _ Hi a') as Ha'.
  pose proof (lb_alive _ s a' Hi) as LA. pose proof (lock_knows _ s a' Hi) as LK'. pose proof (pinned_index s a' Hi) as PI.
  pose proof (holds_claim s a' Hi) as HC.
  unfold stable.
  step_cases H; cbn [actor_of] in *; unfold val_at; simp.
  all: split; [|split; [|split; [|split; [|split; [|split]]]]].
  all: try solve [auto].
  all: try solve [intros; repeat split; auto].
  all: try solve [intros; rewrite nth_error_app1 by lia; reflexivity].
  all: try (a_facts Hi a).
  (* the owner's words change only in the owner's own steps *)
  all: try solve [intros Q; exfalso; apply Hne; destruct Ha' as (_ & Hk & _); rewrite (Hk (or_introl Q));
                  symmetry; destruct (Nat.eq_dec a 0) as [|Hn0]; [assumption | owner_only Ha Hn0]].
  all: try solve [exfalso; lia].
  (* the head word does not change under a foreign lock *)
  all: try solve [intros Q; exfalso; bools; destruct (LK' Q) as (Q1 & _); congruence].
  all: try solve [intros Q; exfalso; apply Hne; apply (ILu _ _ Hi); auto; unfold lockpc; rewrite Epc; reflexivity].
  (* ranges of different claimers are disjoint; new claims start at the head *)
  all: try solve [intros Q i Hi'; destruct (HC Q) as (_ & _ & _ & _ & C5); destruct (C5 i Hi') as (Q1 & Q2 & Q3);
                  repeat split; auto; updr_all; auto; exfalso;
                  first [ destruct Ha as (_ & _ & _ & (_ & _ & _ & _ & D5) & Pp & Pe & _); rewrite Pp, Pe in *; destruct (D5 i ltac:(lia)) as (D1 & _); congruence
                        | bools; destruct (unrel_above _ Bpos s i Hi) as (U1 & _); [unfold HL; lia | congruence]
                        | destruct Ha as (_ & _ & _ & (L1 & L2 & L3) & P1 & _); destruct (unrel_above _ Bpos s i Hi) as (U1 & _); [unfold HL; rewrite L2, L3; lia | congruence] ]].
  (* blocks *)
  all: try solve [split; [lia | intros k Hk; rewrite upd_neq by lia; reflexivity]].
  - intros Q. specialize (LA Q). destruct (Nat.eq_dec (lb (A s a')) (tbk s)) as [e|ne]; [rewrite e in *; rewrite upd_eq | rewrite upd_neq by auto]; simp; auto.
  - intros Q. specialize (LA Q). destruct (Nat.eq_dec (lb (A s a')) (tbk s)) as [e|ne]; [rewrite e in *; rewrite upd_eq | rewrite upd_neq by auto]; simp; auto.
  - intros Q. specialize (LA Q). bools. assert (lb (A s a') <> x) by (intro R; rewrite R in *; congruence).
    destruct (Nat.eq_dec (lb (A s a')) (tbk s)) as [e|ne]; [rewrite e in *; rewrite upd_eq; rewrite upd_neq by auto | rewrite !upd_neq by auto]; simp; auto.
  - intros Q. specialize (LA Q). destruct (PI Q) as (i & I1 & I2 & I3).
    destruct Ha as (_ & _ & _ & Hc & Pp & Pe & _).
    destruct (claim_facts _ Bpos _ _ _ Hi Hc) as (F1 & F2 & F3 & F4 & F5 & F6 & F7 & F8 & F9).
    destruct Hc as (C1 & C2 & C3 & C4 & C5). rewrite Pp, Pe in *.
    destruct (Nat.eq_dec (lb (A s a')) (lb (A s a))) as [e|ne]; [rewrite e in *; rewrite upd_eq | rewrite upd_neq by auto]; simp; auto.
    repeat split; auto. rewrite C2. cbn [andb]. apply negb_true_iff, Nat.eqb_neq.
    assert (ghi (A s a) - glo (A s a) < used (heap s (lb (A s a)))).
    { apply (release_used B) with (i := i); auto; try lia. intros j Hj. apply C5; lia.
      intro R. destruct (C5 i R) as (R1 & _). destruct I3; congruence. }
    lia.
  - intros Q. specialize (LA Q). destruct (PI Q) as (i & I1 & I2 & I3).
    destruct Ha as (_ & _ & _ & Hc & Pp & Pe & _).
    destruct (claim_facts _ Bpos _ _ _ Hi Hc) as (F1 & F2 & F3 & F4 & F5 & F6 & F7 & F8 & F9).
    destruct Hc as (C1 & C2 & C3 & C4 & C5). rewrite Pp, Pe in *.
    destruct (Nat.eq_dec (lb (A s a')) (lb (A s a))) as [e|ne]; [rewrite e in *; rewrite upd_eq | rewrite upd_neq by auto]; simp; auto.
    repeat split; auto. rewrite C2. cbn [andb]. apply negb_true_iff, Nat.eqb_neq.
    assert (ghi (A s a) - glo (A s a) < used (heap s (lb (A s a)))).
    { apply (release_used B) with (i := i); auto; try lia. intros j Hj. apply C5; lia.
      intro R. destruct (C5 i R) as (R1 & _). destruct I3; congruence. }
    lia.
Qed.
End S.
