(* Preservation of the spsc invariant, part A: tactics; refinement clauses; block sequence clauses. *)
From Coq Require Import List Arith Bool Lia.
Import ListNotations.
Require Import MayV.Queue.SpscModel MayV.Queue.SpscInv.

Ltac inv_some := match goal with H : Some _ = Some _ |- _ => inversion H; subst; clear H end.
Ltac sp :=
  cbn [M P C Q K F tidx tblk hidx hblk first lasth nxt slot nalloc pp pv pnew plh plenh pres
       cp cop cpidx cend ck cacc cnh clh cres absq pushed popped glen0 glen0p q_len0p
       bid gfk glk gplk ghk gtk gnb bad_fifo bad_none bad_read bad_recyc bad_over bad_null bad_len bad_lenp f_lenp
       m_tidx m_tblk m_hidx m_hblk m_first m_lasth m_nxt m_slot m_nalloc p_pc p_new p_lh c_pc
       k_fk k_lk k_plk k_hk k_tk k_app f_fifo f_none f_read f_recyc f_over f_null f_len] in *.
Ltac step_cases H :=
  unfold SpscModel.step, start_call, recycle in H; cbv zeta in H;
  repeat match type of H with
  | context [match ?ac with Push _ => _ | PLen => _ | PStep => _ | Pop => _ | Bulk => _ | Peek => _ | Len => _ | CStep => _ end] => destruct ac
  | context [match pp ?x with _ => _ end] => let E := fresh "Epp" in destruct (pp x) eqn:E
  | context [match cp ?x with _ => _ end] => let E := fresh "Ecp" in destruct (cp x) eqn:E
  | context [match cop ?x with _ => _ end] => let E := fresh "Eop" in destruct (cop x) eqn:E
  | context [if ?c then _ else _] => let E := fresh "Ec" in destruct c eqn:E
  end; try discriminate; inv_some; sp.
(* the same, with the slot the consumer reads resolved by the invariant (lemma read_ok) *)
Ltac step_cases_r Hi H :=
  unfold SpscModel.step, start_call, recycle in H; cbv zeta in H;
  repeat match type of H with
  | context [slot (M ?s) (hblk (M ?s)) (ck (C ?s) mod _)] =>
      match goal with Ecp : cp (C s) = CRead, Bp : 1 <= _ |- _ =>
        rewrite (read_ok _ Bp s Hi Ecp) in H; rewrite Nat.eqb_refl in H end
  | context [match ?ac with Push _ => _ | PLen => _ | PStep => _ | Pop => _ | Bulk => _ | Peek => _ | Len => _ | CStep => _ end] => destruct ac
  | context [match pp ?x with _ => _ end] => let E := fresh "Epp" in destruct (pp x) eqn:E
  | context [match cp ?x with _ => _ end] => let E := fresh "Ecp" in destruct (cp x) eqn:E
  | context [match cop ?x with _ => _ end] => let E := fresh "Eop" in destruct (cop x) eqn:E
  | context [if ?c then _ else _] => let E := fresh "Ec" in destruct c eqn:E
  end; try discriminate; inv_some; sp.
Ltac bools :=
  repeat match goal with
  | H : _ && _ = true |- _ => apply andb_prop in H; destruct H
  | H : _ || _ = false |- _ => apply orb_false_elim in H; destruct H
  | H : negb _ = true |- _ => apply negb_true_iff in H
  | H : negb _ = false |- _ => apply negb_false_iff in H
  | H : (_ =? _) = true |- _ => apply Nat.eqb_eq in H
  | H : (_ =? _) = false |- _ => apply Nat.eqb_neq in H
  | H : (_ <? _) = true |- _ => apply Nat.ltb_lt in H
  | H : (_ <? _) = false |- _ => apply Nat.ltb_ge in H
  | H : (_ <=? _) = true |- _ => apply Nat.leb_le in H
  | H : (_ <=? _) = false |- _ => apply Nat.leb_gt in H
  end.
Ltac brk := repeat match goal with H : _ /\ _ |- _ => destruct H end.
(* the control point assertions of the pre-state, specialised to the current pcs *)
Ltac pfacts Hi :=
  let Hp := fresh "Hp" in
  pose proof (IP _ _ Hi) as Hp; unfold pinv in Hp;
  match goal with E : pp (P _) = _ |- _ => rewrite E in Hp end; sp.
Ltac cfacts Hi :=
  let Hc := fresh "Hc" in
  pose proof (IC _ _ Hi) as Hc; unfold cinv in Hc;
  match goal with E : cp (C _) = _ |- _ => rewrite E in Hc end; sp.
Ltac upd_tac :=
  repeat match goal with
  | |- context [upd ?f ?i ?v ?j] =>
      first [ rewrite (upd_eq f i v) | rewrite (upd_neq f i j v) by (try congruence; try lia)
            | let e := fresh "e" in let ne := fresh "ne" in
              destruct (Nat.eq_dec j i) as [e|ne];
              [ rewrite e; rewrite (upd_eq f i v) | rewrite (upd_neq f i j v ne) ] ]
  end.

Section S.
Variable B : nat.
Hypothesis Bpos : 1 <= B.
Set Default Proof Using "Bpos".
Notation step := (step B).
Notation Inv := (Inv B).

Lemma pres_R s a s' : Inv s -> step s a = Some s' ->
  length (pushed (Q s')) = tidx (M s') /\ length (popped (Q s')) = hidx (M s') /\
  pushed (Q s') = popped (Q s') ++ absq (Q s').
Proof.
  intros Hi H. pose proof (IR1 _ _ Hi) as R1. pose proof (IR2 _ _ Hi) as R2. pose proof (IR3 _ _ Hi) as R3.
  pose proof (absq_len _ Bpos _ Hi) as AL.
  step_cases H; auto.
  - (* publish *) repeat split; auto.
    + rewrite app_length. cbn. lia.
    + rewrite app_assoc. now rewrite <- R3.
  - (* commit *) cfacts Hi. brk.
    assert (L : length (cacc (C s)) = cend (C s) - hidx (M s)).
    { match goal with E : cacc _ = _ |- _ => rewrite E end. rewrite firstn_length. lia. }
    rewrite app_length, L, <- app_assoc.
    match goal with E : cacc _ = _ |- _ => rewrite E end. rewrite firstn_skipn.
    repeat split; auto; lia.
Qed.

(* first != last_head means that at least one block lies strictly before last_head *)
Lemma first_lt s : Inv s -> first (M s) <> lasth (M s) -> gfk (K s) < glk (K s).
Proof.
  intros Hi Hne. destruct (IK1 _ _ Hi) as (A1 & A2 & A3 & A4). destruct (IK2 _ _ Hi) as (E1 & E2 & _).
  destruct (Nat.eq_dec (gfk (K s)) (glk (K s))) as [E|E]; [|lia]. exfalso. apply Hne. now rewrite E1, E2, E.
Qed.

(* the consumer's next block exists once the producer went past the end of the head block *)
Lemma next_in_seq s : Inv s -> (ghk (K s) + 1) * B <= tidx (M s) -> S (ghk (K s)) <= gtk (K s).
Proof. intros Hi H. pose proof (tail_bounds _ Bpos _ Hi). nia. Qed.

Lemma pres_K1 s a s' : Inv s -> step s a = Some s' ->
  gfk (K s') <= glk (K s') /\ glk (K s') <= ghk (K s') /\ ghk (K s') <= gtk (K s') /\ gtk (K s') < gnb (K s').
Proof.
  intros Hi H. pose proof (IK1 _ _ Hi) as K1.
  step_cases H; auto; try (pfacts Hi); try (cfacts Hi); brk; try lia.
  - pose proof (first_lt _ Hi). lia.
  - pose proof (first_lt _ Hi). lia.
  - pose proof (next_in_seq _ Hi). lia.
Qed.

Lemma pres_K2 s a s' : Inv s -> step s a = Some s' ->
  first (M s') = bid (K s') (gfk (K s')) /\ lasth (M s') = bid (K s') (glk (K s')) /\
  hblk (M s') = bid (K s') (ghk (K s')) /\ tblk (M s') = bid (K s') (gtk (K s')).
Proof.
  intros Hi H. pose proof (IK1 _ _ Hi) as K1. pose proof (IK2 _ _ Hi) as K2. pose proof (IK5 _ _ Hi) as K5.
  step_cases H; auto; try (pfacts Hi); try (cfacts Hi); brk; repeat split; auto; upd_tac; auto; try lia.
  all: try (pose proof (first_lt _ Hi ltac:(assumption));
            match goal with E : first _ = bid _ _ |- nxt _ (first _) = _ => rewrite E; apply K5; lia end).
  all: try congruence.
Qed.

Lemma pres_K3 s a s' : Inv s -> step s a = Some s' ->
  forall j, j < gnb (K s') -> 1 <= bid (K s') j /\ bid (K s') j < nalloc (M s').
Proof.
  intros Hi H j. pose proof (IK3 _ _ Hi j) as K3.
  step_cases H; auto; try (pfacts Hi); brk; intros Hj; upd_tac; try lia.
  all: try (specialize (K3 ltac:(lia)); lia).
Qed.

Lemma pres_K4 s a s' : Inv s -> step s a = Some s' ->
  forall i j, gfk (K s') <= i -> i < j -> j < gnb (K s') -> bid (K s') i <> bid (K s') j.
Proof.
  intros Hi H i j. pose proof (IK4 _ _ Hi i j) as K4.
  step_cases H; auto; try (pfacts Hi); brk; intros G1 G2 G3; upd_tac; try (apply K4; lia).
  all: try lia.
  match goal with Hn : forall j, _ -> _ -> bid _ j <> pnew _ |- _ => apply Hn; lia end.
Qed.

Lemma pres_K5 s a s' : Inv s -> step s a = Some s' ->
  forall j, gfk (K s') <= j -> S j < gnb (K s') -> nxt (M s') (bid (K s') j) = bid (K s') (S j).
Proof.
  intros Hi H j. pose proof (IK5 _ _ Hi j) as K5. pose proof (IK1 _ _ Hi) as K1. pose proof (IK2 _ _ Hi) as K2.
  pose proof (IK4 _ _ Hi) as K4.
  step_cases H; auto; try (pfacts Hi); brk; intros G1 G2; try (apply K5; lia).
  (* tail.next.store: the link from the last block to the appended one *)
  rewrite (upd_neq (bid (K s)) (gnb (K s)) j) by lia.
  destruct (Nat.eq_dec j (gtk (K s))) as [E|E].
  - subst j. match goal with E : tblk _ = _ |- _ => rewrite <- E end. rewrite upd_eq.
    match goal with E : gnb _ = S _ |- _ => rewrite <- E end. now rewrite upd_eq.
  - rewrite upd_neq. 2:{ match goal with E : tblk _ = _ |- _ => rewrite E end. apply K4; lia. }
    rewrite upd_neq by lia. apply K5; lia.
Qed.
End S.
