(* C04 - preservation of the invariant, part 1: head word, tail, monitors. *)
From Coq Require Import List Arith Bool Lia.
Import ListNotations.
Require Import MayV.Queue.SpmcModel MayV.Queue.SpmcInv MayV.Queue.SpmcTac MayV.Queue.SpmcFacts.
Section S.
Variable B : nat. Variable reuse : bool. Hypothesis Bpos : 1 <= B.
Notation step := (step B reuse). Notation Inv := (Inv B).

Lemma pres_IHd s ac s' : Inv s -> step s ac = Some s' -> hi s' < B /\ alive (heap s' (hb s')) = true.
Proof.
  intros Hi H. destruct (IHd _ _ Hi) as [H1 H2]. pose proof (head_facts _ Bpos _ Hi) as HF. cbn in HF.
  step_cases H; simp; try (split; assumption).
  all: try (a_facts Hi a).
  all: try solve [split; auto; bools; ut; fin].
  - brk. split; auto. eapply nexti_bounds; eauto.
  - brk. unfold lock_ok in *. brk. split; fin.
  - destruct Ha as (Hli & _ & _ & (L1 & L2 & L3) & P1 & P2 & P3 & Nx & Nb). split; [lia|].
    assert (n = badr s (S (bno (heap s (lb (A s a)))))) by congruence. subst n.
    destruct HF as (F1 & F2 & F3 & F4 & F5 & _). rewrite L2 in *.
    eapply (ILv _ _ Hi) with (i := S (bno (heap s (lb (A s a)))) * B); auto; [lia|].
    apply (unrel_above _ Bpos); auto. lia.
  - brk. congruence.
  - brk. unfold lock_ok in *. brk. split; [apply mod_lt; auto | congruence].
  - destruct Ha as (Hli & _ & _ & Hc & Pp & Pe & Pt & Rs). split; auto.
    destruct (claim_facts _ Bpos _ _ _ Hi Hc) as (K1 & K2 & K3 & K4 & K5 & K6 & K7 & K8 & K9).
    destruct Hc as (C1 & C2 & C3 & C4 & C5). destruct HF as (F1 & F2 & F3 & F4 & F5 & F6 & F7 & F8).
    ut; auto. rewrite e in *. rewrite C2. cbn.
    assert (pend (A s a) - ppi (A s a) < used (heap s (lb (A s a)))).
    { apply (release_used B) with (i := HL s); auto. all: try lia. all: try (intros j Hj; apply C5; lia).
      all: try (intro Q; destruct (C5 (HL s)) as [Q1 _]; [lia|congruence]). }
    apply negb_true_iff, Nat.eqb_neq. lia.
  - destruct Ha as (Hli & _ & _ & Hc & Pp & Pe & Pt & Rs). split; auto.
    destruct (claim_facts _ Bpos _ _ _ Hi Hc) as (K1 & K2 & K3 & K4 & K5 & K6 & K7 & K8 & K9).
    destruct Hc as (C1 & C2 & C3 & C4 & C5). destruct HF as (F1 & F2 & F3 & F4 & F5 & F6 & F7 & F8).
    ut; auto. rewrite e in *. rewrite C2. cbn.
    assert (pend (A s a) - ppi (A s a) < used (heap s (lb (A s a)))).
    { apply (release_used B) with (i := HL s); auto. all: try lia. all: try (intros j Hj; apply C5; lia).
      all: try (intro Q; destruct (C5 (HL s)) as [Q1 _]; [lia|congruence]). }
    apply negb_true_iff, Nat.eqb_neq. lia.
Qed.

Definition tl_clause (s : st) : Prop :=
        1 <= nblk s /\
        let p := pc (A s 0) in
        (if match p with OB => true | _ => false end
         then 2 <= nblk s /\ tbk s = badr s (nblk s - 2) /\ lnew (A s 0) = badr s (nblk s - 1)
         else tbk s = badr s (nblk s - 1)) /\
        match p with
        | OW => length (pushed s) = tix s /\ (nblk s - 1) * B <= tix s < nblk s * B
        | ON => length (pushed s) = S (tix s) /\ S (tix s) = nblk s * B
        | OB => length (pushed s) = S (tix s) /\ S (tix s) = (nblk s - 1) * B
        | OC => length (pushed s) = S (tix s) /\ (nblk s - 1) * B <= S (tix s) < nblk s * B
        | _ => length (pushed s) = tix s /\ (nblk s - 1) * B <= tix s < nblk s * B
        end.

Lemma pres_ITl s ac s' : Inv s -> step s ac = Some s' -> tl_clause s'.
Proof.
  intros Hi H. pose proof (ITl _ _ Hi) as T. fold (tl_clause s) in T. unfold tl_clause in *.
  step_cases H; simp.
  all: try (a_facts Hi a).
  all: try (destruct (Nat.eq_dec a 0) as [->|Hne]; [ rewrite upd_eq; simp | rewrite upd_neq by auto; try assumption ]).
  all: try match goal with E : pc (A _ 0) = _ |- _ => rewrite E in T; cbn beta iota in T end.
  all: try assumption.
  all: try solve [owner_only Ha Hne].
  all: try solve [exfalso; lia].
  all: bools.
  all: try (assert (PM := pred_mul B Bpos (nblk s) (proj1 T))).
  - destruct k; cbn in *; auto; discriminate.
  - rewrite app_length; cbn. destruct T as (T1 & T2 & T3 & T4). repeat split; auto; try lia.
    apply (succ_mod_zero B Bpos (nblk s - 1)) in Ec; lia.
  - rewrite app_length; cbn. destruct T as (T1 & T2 & T3 & T4). repeat split; auto; try lia.
    assert (S (tix s) <> (nblk s - 1) * B + B). { intro Q. apply (succ_mod_zero B Bpos (nblk s - 1)) in Q; lia. } lia.
  - destruct T as (T1 & T2 & T3 & T4). replace (S (nblk s) - 2) with (nblk s - 1) by lia. replace (S (nblk s) - 1) with (nblk s) by lia.
    rewrite upd_eq. rewrite upd_neq by lia. repeat split; auto; lia.
  - destruct T as (T1 & (T2 & T3 & T4) & T5 & T6). repeat split; auto; lia.
Qed.

Lemma pres_IMn s ac s' : Inv s -> step s ac = Some s' -> bad_uaf s' = false /\ bad_under s' = false /\ bad_null s' = false.
Proof.
  intros Hi H. destruct (IMn _ _ Hi) as (M1 & M2 & M3). pose proof (head_facts _ Bpos _ Hi) as HF. cbn in HF.
  destruct (tail_facts _ Bpos _ Hi) as (TA & _).
  step_cases H; simp; auto.
  all: try (a_facts Hi a).
  all: rewrite ?M1, ?M2, ?M3, ?TA; cbn [orb negb]; auto.
  all: try (rewrite (lb_alive _ s a Hi) by (unfold holds, lockpc; rewrite Epc; destruct (lockedB B (A s a)); auto); cbn [negb]; auto).
  - brk. congruence.
  - destruct Ha as (_ & _ & _ & Hc & Pp & Pe & _). destruct (claim_facts _ Bpos _ _ _ Hi Hc) as (K1 & K2 & K3 & K4 & K5 & K6 & K7 & K8 & K9).
    destruct Hc as (C1 & C2 & C3 & C4 & C5). repeat split; auto. apply Nat.ltb_ge. rewrite Pp, Pe.
    apply (release_le B); auto; try lia. intros j Hj. apply C5; lia.
  - destruct Ha as (_ & _ & _ & Hc & Pp & Pe & _). destruct (claim_facts _ Bpos _ _ _ Hi Hc) as (K1 & K2 & K3 & K4 & K5 & K6 & K7 & K8 & K9).
    destruct Hc as (C1 & C2 & C3 & C4 & C5). repeat split; auto. apply Nat.ltb_ge. rewrite Pp, Pe.
    apply (release_le B); auto; try lia. intros j Hj. apply C5; lia.
  - exfalso. lia.
Qed.

(* the block that follows the head block: live, at the recorded address, nothing claimed in it *)
Lemma next_block s : Inv s -> S (bno (heap s (hb s))) < nblk s ->
  let n := badr s (S (bno (heap s (hb s)))) in
  alive (heap s n) = true /\ bno (heap s n) = S (bno (heap s (hb s))) /\ bstart (heap s n) = S (bno (heap s (hb s))) * B.
Proof.
  intros Hi Hn. pose proof (head_facts _ Bpos _ Hi) as HF. cbn in HF. destruct HF as (F1 & F2 & F3 & F4 & F5 & _).
  assert (Q : alive (heap s (badr s (S (bno (heap s (hb s)))))) = true /\ bno (heap s (badr s (S (bno (heap s (hb s)))))) = S (bno (heap s (hb s)))).
  { apply (ILv _ _ Hi) with (i := S (bno (heap s (hb s))) * B); auto; [lia|]. apply (unrel_above _ Bpos); auto. lia. }
  destruct Q as [Q1 Q2]. cbn. repeat split; auto. destruct (IBk _ _ Hi _ Q1) as (_ & _ & K3 & _). rewrite K3, Q2. reflexivity.
Qed.

Lemma pres_ICl s ac s' : Inv s -> step s ac = Some s' -> forall i, cl s' i <> None <-> i < HL s'.
Proof.
  intros Hi H i. pose proof (ICl _ _ Hi i) as C. pose proof (head_facts _ Bpos _ Hi) as HF. cbn in HF.
  destruct (IHd _ _ Hi) as [H1 H2].
  unfold HL in *.
  step_cases H; simp; auto.
  all: try (a_facts Hi a).
  all: try solve [ut; fin].
  - bools. ut; fin.
  - bools. destruct Ha as (Hli & _ & _ & He & Hn & _). pose proof (nexti_bounds _ Bpos _ Hli He Hn Ec0) as NB.
    rewrite <- H0, <- H3 in *. updr_all; [split; [lia|congruence] | rewrite C; lia].
  - destruct Ha as (_ & _ & _ & (L1 & L2 & L3) & _). rewrite <- L2, <- L3. exact C.
  - destruct Ha as (Hli & _ & _ & (L1 & L2 & L3) & P1 & P2 & P3 & Nx & Nb). rewrite <- L2 in *.
    assert (n = badr s (S (bno (heap s (hb s))))) by congruence. subst n.
    destruct (next_block s Hi Nb) as (N1 & N2 & N3). rewrite N3.
    destruct HF as (F1 & F2 & F3 & _). updr_all; [split; [lia|congruence] | rewrite C; lia].
  - brk. congruence.
  - destruct Ha as (Hli & _ & _ & (L1 & L2 & L3) & P1 & P2 & P3 & P4). rewrite <- L2 in *.
    destruct HF as (F1 & F2 & F3 & _).
    replace (pend (A s a)) with (bno (heap s (hb s)) * B + (pend (A s a) - bno (heap s (hb s)) * B)) at 2 by lia.
    rewrite mod_block by (auto; lia).
    updr_all; [split; [lia|congruence] | rewrite C; lia].
Qed.

End S.
