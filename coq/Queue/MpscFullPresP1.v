(* Preservation of the full mpsc invariant: push call, tail load, the reserving CAS. *)
From Coq Require Import List Arith Bool Lia.
Import ListNotations.
Require Import MayV.Queue.MpscFullModel MayV.Queue.MpscFullInv MayV.Queue.MpscFullTac MayV.Queue.MpscFullFacts.
Section S.
Variable B : nat.
Hypothesis Bpos : 1 <= B.
Notation Inv := (Inv B).
Set Default Proof Using "Bpos".
Notation active_nodrop := (active_nodrop B Bpos).
Notation live_tail := (live_tail B Bpos).
Notation nlin_le_nres := (nlin_le_nres B Bpos).
Notation nlin_cases := (nlin_cases B Bpos).


Lemma pres_p_call s p v : Inv s -> pp (P s p) = PIdle -> cdrop (C s) = false -> Inv (p_call s p v).
Proof.
  intros Hi E D. destruct Hi. unfold p_call. constructor; try (unf; sp; auto; fail).
  - intros q. pose proof (I_p q) as Pq. unfold pinv in *. sp. other_p q p; sp; auto.
  - intros q. sp. other_p q p; sp; intros N; [now left | right; apply I_act; auto].
  - intros T. specialize (I_cl T). sp. other_t (gcl (G s)) p; sp; auto. unfold closer, inflight in I_cl. rewrite E in I_cl. destruct I_cl as [[_ ?] _]. discriminate.
  - unf; sp. intros. congruence.
Qed.

Lemma pres_p_load s p : Inv s -> pp (P s p) = PLoad -> Inv (p_load s p).
Proof.
  intros Hi E. destruct Hi. unfold p_load. constructor; try (unf; sp; auto; fail).
  - intros q. pose proof (I_p q) as Pq. unfold pinv in *. sp. other_p q p; sp; auto.
  - intros q. sp. other_p q p; sp; intros N; apply I_act; congruence.
  - intros T. specialize (I_cl T). sp. other_t (gcl (G s)) p; sp; auto. unfold closer, inflight in I_cl. rewrite E in I_cl. destruct I_cl as [[_ ?] _]. discriminate.
Qed.

Lemma pres_p_cas_fail s p : Inv s -> pp (P s p) = PCas -> cas_ok s p = false -> Inv (p_cas B s p).
Proof.
  intros Hi E EC. destruct Hi. unfold p_cas. rewrite EC. constructor; try (unf; sp; auto; fail).
  - intros q. pose proof (I_p q) as Pq. unfold pinv in *. sp. other_p q p; sp; auto.
  - intros q. sp. other_p q p; sp; intros N; apply I_act; congruence.
  - intros T. specialize (I_cl T). sp. other_t (gcl (G s)) p; sp; auto. unfold closer, inflight in I_cl. rewrite E in I_cl. destruct I_cl as [[_ ?] _]. discriminate.
Qed.
Lemma pres_p_cas_open s p : Inv s -> pp (P s p) = PCas -> cas_ok s p = true -> S (li (P s p)) <? B = true -> Inv (p_cas B s p).
Proof.
  intros Hi E EC EL. pose proof (active_nodrop s p Hi ltac:(congruence)) as ND.
  pose proof (live_tail s Hi ND) as [LT LT1]. pose proof (nlin_le_nres s) as LN. pose proof (nlin_cases s) as NC.
  pose proof (fun s' => cinv_pstep B Bpos s s' Hi ND) as CF.
  unfold p_cas. rewrite EC, EL.
  assert (CL : lb (P s p) = taddr (M s) /\ li (P s p) = ti (M s) /\ tc (M s) = false /\ S (ti (M s)) < B).
  { unfold cas_ok in EC. bools. repeat split; auto; lia. }
  destruct CL as (CL1 & CL2 & TF & CL3). clear EC EL. destruct Hi.
  assert (NR : nres B s = gtk (G s) * B + ti (M s)) by (unfold nres; rewrite TF; lia).
  assert (NL : nlin B s = gtk (G s) * B + ti (M s)) by (unfold nlin; rewrite TF; cbn; lia).
  constructor.
  - unf; sp. split; [lia | discriminate].
  - unf; sp. rewrite app_length. cbn. rewrite TF in *. lia.
  - unf; sp. rewrite TF in *. tauto.
  - unf; sp; auto.
  - unf; sp; auto.
  - unf; sp; auto.
  - unf; sp; auto.
  - unf; sp. intros k i L Hi' Hn. apply I_sb; auto. rewrite TF. lia.
  - intros k i L Hi' R. destruct (I_sc k i L Hi' R) as [V Lt].
    unfold rv, nlin, blkof, blk_at in *. sp. rewrite TF in *. cbn in *. split; [|lia].
    rewrite nth_app_old; auto. rewrite I_rl. lia.
  - unf; sp; auto.
  - unf; sp; auto.
  - destruct I_hd as [H1 H2]. split; [|unf; sp; auto]. unfold nlin in *. sp. rewrite TF in *. cbn in *. lia.
  - destruct I_abs as [A1 A2]. destruct I_hd as [H1 _]. unfold nlin, rv, blkof, blk_at in *. sp. rewrite TF in *. cbn in *.
    split.
    + replace (gtk (G s) * B + S (ti (M s)) + 0 - hidx (M s)) with (S (gtk (G s) * B + ti (M s) + 0 - hidx (M s))) by lia.
      rewrite map_seq_snoc. rewrite A1. f_equal.
      * apply map_seq_ext. intros j J1 J2. rewrite nth_app_old; auto. rewrite I_rl. lia.
      * replace (hidx (M s) + (gtk (G s) * B + ti (M s) + 0 - hidx (M s))) with (length (rlog (G s))) by (rewrite I_rl; lia).
        rewrite nth_app_new. reflexivity.
    + rewrite A2. apply map_seq_ext. intros j J1 J2. rewrite nth_app_old; auto. rewrite I_rl. lia.
  - intros q. pose proof (I_p q) as Pq. unfold pinv in *. sp. other_p q p; sp.
    + (* the pusher itself: PWrite *)
      destruct I_ptr as [T1 T2]. destruct (I_sb (gtk (G s)) (ti (M s)) LT ltac:(lia) ltac:(lia)) as [SV SR].
      unfold pw_common, pslot, nres, blkof, blk_at in *. sp. rewrite CL1, CL2 in *. rewrite TF in *. repeat split; auto; try lia.
      replace (gtk (G s) * B + ti (M s)) with (length (rlog (G s))) by lia. rewrite nth_app_new. reflexivity.
    + (* another pusher *)
      destruct (pp (P s q)) eqn:Eq; auto; unfold pw_common, pc_common, pslot, nres, blkof, blk_at in *; sp; rewrite TF in *;
        brk; try discriminate.
      all: repeat split; auto; try lia.
      all: try (rewrite nth_app_old; auto; lia).
      all: try (intros HS; match goal with H : S _ = B -> _ |- _ => destruct (H HS) as (_ & ? & _); discriminate end).
  - intros q. sp. other_p q p; sp; intros N; apply I_act; congruence.
  - sp. discriminate.
  - apply CF; sp; auto; try lia.
    + rewrite app_length. lia.
    + intros j J. unfold rv. sp. rewrite nth_app_old; auto. lia.
  - unf; sp; auto.
  - unf; sp; auto.
  - unf; sp; auto.
Qed.

Lemma pres_p_cas_closing s p : Inv s -> pp (P s p) = PCas -> cas_ok s p = true -> S (li (P s p)) <? B = false -> Inv (p_cas B s p).
Proof.
  intros Hi E EC EL. pose proof (active_nodrop s p Hi ltac:(congruence)) as ND.
  pose proof (live_tail s Hi ND) as [LT LT1]. pose proof (nlin_le_nres s) as LN. pose proof (nlin_cases s) as NC.
  pose proof (fun s' => cinv_pstep B Bpos s s' Hi ND) as CF.
  unfold p_cas. rewrite EC, EL.
  assert (CL : lb (P s p) = taddr (M s) /\ li (P s p) = ti (M s) /\ tc (M s) = false /\ S (ti (M s)) = B).
  { unfold cas_ok in EC. bools. destruct (I_ti _ _ Hi). repeat split; auto; lia. }
  destruct CL as (CL1 & CL2 & TF & CL3). clear EC EL. destruct Hi.
  assert (NR : nres B s = gtk (G s) * B + ti (M s)) by (unfold nres; rewrite TF; lia).
  assert (NL : nlin B s = gtk (G s) * B + ti (M s)) by (unfold nlin; rewrite TF; cbn; lia).
  destruct (I_sb (gtk (G s)) (ti (M s)) LT ltac:(lia) ltac:(lia)) as [SV SR].
  constructor.
  - unf; sp. split; [lia | auto].
  - unf; sp. rewrite app_length. cbn. rewrite TF in *. lia.
  - unf; sp. rewrite TF in *. repeat split; try tauto; try lia; try discriminate.
  - unf; sp; auto.
  - unf; sp; auto.
  - unf; sp; auto.
  - unf; sp; auto.
  - unf; sp. intros k i L Hi' Hn. apply I_sb; auto. rewrite TF. lia.
  - intros k i L Hi' R. destruct (I_sc k i L Hi' R) as [V Lt].
    unfold rv, nlin, blkof, blk_at in *. sp. rewrite SR. rewrite TF in *. cbn in *. split; [|lia].
    rewrite nth_app_old; auto. rewrite I_rl. lia.
  - unf; sp; auto.
  - unf; sp; auto.
  - destruct I_hd as [H1 H2]. split; [|unf; sp; auto]. unfold nlin, blkof, blk_at in *. sp. rewrite SR. rewrite TF in *. cbn in *. lia.
  - destruct I_abs as [A1 A2]. destruct I_hd as [H1 _]. unfold nlin, rv, blkof, blk_at in *. sp. rewrite SR. rewrite TF in *. cbn in *.
    split.
    + rewrite A1. apply map_seq_ext. intros j J1 J2. rewrite nth_app_old; auto. rewrite I_rl. lia.
    + rewrite A2. apply map_seq_ext. intros j J1 J2. rewrite nth_app_old; auto. rewrite I_rl. lia.
  - intros q. pose proof (I_p q) as Pq. unfold pinv in *. sp. other_p q p; sp.
    + destruct I_ptr as [T1 T2]. destruct I_rng as (_&_&_&_&_&RN). specialize (RN TF).
      unfold pw_common, pslot, nres, blkof, blk_at in *. sp. rewrite CL1, CL2 in *. rewrite TF in *. repeat split; auto; try lia.
      replace (gtk (G s) * B + ti (M s)) with (length (rlog (G s))) by lia. rewrite nth_app_new. reflexivity.
    + destruct (pp (P s q)) eqn:Eq; auto; unfold pw_common, pc_common, pslot, nres, blkof, blk_at in *; sp; rewrite TF in *;
        brk; try discriminate.
      all: repeat split; auto; try lia.
      all: try (rewrite nth_app_old; auto; lia).
      all: try (intros HS; match goal with H : S _ = B -> _ |- _ => destruct (H HS) as (_ & ? & _); discriminate end).
  - intros q. sp. other_p q p; sp; intros N; apply I_act; congruence.
  - sp. intros _. rewrite upd_eq. unfold closer, inflight. sp. split; auto. split; auto. lia.
  - apply CF; sp; auto; try lia.
    intros j J. unfold rv. sp. rewrite nth_app_old; auto. lia.
  - unf; sp; auto.
  - unf; sp; auto.
  - unf; sp; auto.
Qed.
End S.
