(* C04 - lemmas about the finite-map / range / counting helpers of the spmc model, and the tactics the
   preservation proofs share. *)
From Coq Require Import List Arith Bool Lia.
Import ListNotations.
Require Import MayV.Queue.SpmcModel MayV.Queue.SpmcInv.

Lemma upd_eq {X} (f : nat -> X) i v : upd f i v i = v.
Proof. unfold upd. now rewrite Nat.eqb_refl. Qed.
Lemma upd_neq {X} (f : nat -> X) i j v : j <> i -> upd f i v j = f j.
Proof. unfold upd. intros H. destruct (Nat.eqb_spec j i); congruence. Qed.

Lemma inr_iff lo hi i : inr lo hi i = true <-> lo <= i < hi.
Proof. unfold inr. rewrite andb_true_iff, Nat.leb_le, Nat.ltb_lt. tauto. Qed.
Lemma inr_false lo hi i : inr lo hi i = false <-> ~ (lo <= i < hi).
Proof. rewrite <- inr_iff. destruct (inr lo hi i); split; congruence. Qed.
Lemma updr_in {X} (f : nat -> X) lo hi v i : lo <= i < hi -> updr f lo hi v i = v.
Proof. intros H. unfold updr. apply inr_iff in H. now rewrite H. Qed.
Lemma updr_out {X} (f : nat -> X) lo hi v i : ~ (lo <= i < hi) -> updr f lo hi v i = f i.
Proof. intros H. unfold updr. apply inr_false in H. now rewrite H. Qed.

Lemma cntu_ext f g lo n : (forall i, lo <= i < lo + n -> f i = g i) -> cntu f lo n = cntu g lo n.
Proof.
  revert lo. induction n as [|n IH]; intros lo H; cbn; [reflexivity|].
  rewrite (H lo) by lia. f_equal. apply IH. intros i Hi. apply H. lia.
Qed.
Lemma cntu_le f lo n : cntu f lo n <= n.
Proof. revert lo. induction n as [|n IH]; intros lo; cbn; [lia|]. specialize (IH (S lo)). destruct (f lo); lia. Qed.
Lemma cntu_pos f lo n i : lo <= i < lo + n -> f i = false -> 0 < cntu f lo n.
Proof.
  revert lo. induction n as [|n IH]; intros lo Hi Hf; [lia|]. cbn.
  destruct (Nat.eq_dec i lo) as [->|Hne]; [rewrite Hf; lia|].
  assert (0 < cntu f (S lo) n) by (apply IH; [lia|assumption]). lia.
Qed.
Lemma cntu_zero f lo n : cntu f lo n = 0 -> forall i, lo <= i < lo + n -> f i = true.
Proof.
  intros H i Hi. destruct (f i) eqn:E; [reflexivity|]. pose proof (cntu_pos f lo n i Hi E). lia.
Qed.
(* releasing an unreleased range inside the window *)
Lemma cntu_updr f lo n p e :
  lo <= p -> p <= e -> e <= lo + n -> (forall i, p <= i < e -> f i = false) ->
  cntu (updr f p e true) lo n + (e - p) = cntu f lo n.
Proof.
  revert lo p. induction n as [|n IH]; intros lo p H1 H2 H3 Hf; cbn.
  - lia.
  - destruct (Nat.eq_dec p e) as [->|Hpe].
    + rewrite Nat.sub_diag, Nat.add_0_r.
      rewrite (updr_out f e e true lo) by lia. f_equal.
      apply cntu_ext. intros i Hi. apply updr_out. lia.
    + destruct (Nat.eq_dec lo p) as [->|Hlp].
      * rewrite (updr_in f p e true p) by lia. rewrite (Hf p) by lia.
        rewrite (cntu_ext (updr f p e true) (updr f (S p) e true) (S p) n).
        -- rewrite <- (IH (S p) (S p)); try lia. intros i Hi. apply Hf. lia.
        -- intros i Hi. unfold updr. destruct (inr p e i) eqn:E1, (inr (S p) e i) eqn:E2; try reflexivity.
           ++ apply inr_iff in E1. apply inr_false in E2. lia.
           ++ apply inr_false in E1. apply inr_iff in E2. lia.
      * rewrite (updr_out f p e true lo) by lia. rewrite <- (IH (S lo) p); try lia. assumption.
Qed.

Lemma is_local_true k : is_local k = true -> k = KLocal.
Proof. destruct k; cbn; congruence. Qed.
Lemma is_local_false k : is_local k = false -> k <> KLocal.
Proof. destruct k; cbn; congruence. Qed.
Lemma is_bulk_local k : is_bulk k = true -> k <> KLocal.
Proof. destruct k; cbn; congruence. Qed.

(* block arithmetic *)
Lemma mod_block B k j : 1 <= B -> j < B -> (k * B + j) mod B = j.
Proof. intros HB Hj. rewrite Nat.add_comm, Nat.mod_add by lia. apply Nat.mod_small. exact Hj. Qed.
Lemma mod_block_end B k : 1 <= B -> (k * B + B) mod B = 0.
Proof. intros HB. replace (k * B + B) with (0 + S k * B) by lia. rewrite Nat.mod_add by lia. apply Nat.mod_small. lia. Qed.
Lemma mod_lt B x : 1 <= B -> x mod B < B.
Proof. intros. apply Nat.mod_upper_bound. lia. Qed.

Ltac inv_some := match goal with H : Some _ = Some _ |- _ => inversion H; subst; clear H end.

Ltac step_cases H :=
  unfold step, after_loads in H;
  repeat match type of H with
  | context [match ?ac with Call _ _ _ => _ | Step _ _ => _ | Ret _ => _ end] => destruct ac
  | context [match pc ?x with _ => _ end] => let E := fresh "Epc" in destruct (pc x) eqn:E
  | context [if ?c then _ else _] => let E := fresh "Ec" in destruct c eqn:E
  | context [match dq ?x with _ => _ end] => let E := fresh "Edq" in destruct (dq x) eqn:E
  | context [match lnx ?x with _ => _ end] => let E := fresh "Elnx" in destruct (lnx x) eqn:E
  end; try discriminate; inv_some.

Ltac bools :=
  repeat match goal with
  | H : _ && _ = true |- _ => apply andb_prop in H; destruct H
  | H : _ || _ = false |- _ => apply orb_false_elim in H; destruct H
  | H : negb _ = true |- _ => apply negb_true_iff in H
  | H : negb _ = false |- _ => apply negb_false_iff in H
  | H : (_ =? _) = true |- _ => apply Nat.eqb_eq in H
  | H : (_ =? _) = false |- _ => apply Nat.eqb_neq in H
  | H : (_ <? _) = true |- _ => apply Nat.ltb_lt in H
  | H : (_ <? _) = false |- _ => apply Nat.ltb_ge in H
  | H : (_ <=? _) = true |- _ => apply Nat.leb_le in H
  | H : (_ <=? _) = false |- _ => apply Nat.leb_gt in H
  | H : is_local _ = true |- _ => apply is_local_true in H
  | H : is_local _ = false |- _ => apply is_local_false in H
  end.

Ltac brk := repeat match goal with H : _ /\ _ |- _ => destruct H end.

(* simplify projections of the updated state *)
Ltac simp :=
  cbn [hb hi hl tix tbk heap A pushed nblk badr born cl rd rl got bad_uaf bad_under bad_null
       s_hb s_hi s_hl s_tix s_tbk s_heap s_A s_pushed s_nblk s_badr s_born s_cl s_rd s_rl s_got s_bad_uaf s_bad_under s_bad_null
       pc kd pvl lb li lpi ltb nid ppi pend lnx lnew res retry rv rb dq glo ghi
       a_pc a_kd a_pvl a_lb a_li a_lpi a_ltb a_nid a_ppi a_pend a_lnx a_lnew a_res a_retry a_rv a_rb a_dq a_glo a_ghi
       alive bstart bno used next slots b_alive b_bstart b_bno b_used b_next b_slots
       setA deref release fresh_blk] in *.

(* resolve [upd f i v j] *)
Ltac upd_tac :=
  repeat match goal with
  | |- context [upd ?f ?i ?v ?j] =>
      first [ rewrite (upd_eq f i v) | rewrite (upd_neq f i j v) by (try congruence; try lia)
            | let e := fresh "e" in let ne := fresh "ne" in
              destruct (Nat.eq_dec j i) as [e|ne];
              [ rewrite e; rewrite (upd_eq f i v) | rewrite (upd_neq f i j v ne) ] ]
  end.
