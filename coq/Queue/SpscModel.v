(* Model of may_queue::spsc::Queue (BLOCK_SIZE = B, default feature `inner_cache`).
   Definitions only.  One transition per shared access of the Rust code, in program order:

     push      slot write ; [at a block end: alloc_node = (first != last_head ? first.store#0
               : (head.block unsync_load ; last_head.store ; first != last_head ? first.store#1 : fresh block)) ;
               tail.next.store ; tail.block.store] ; tail.index.store (release, LP of push)
     pop       tail.index.load (LP of an empty answer) ; slot read ; [block end: head.next.load ;
               head.block.store] ; head.index.store (LP)
     bulk_pop  the same with end = min(push_index, block end): one slot read per value
     peek      tail.index.load ; slot read
     len       head.index.load ; tail.index.load          (is_empty = (len() == 0)); callable by the consumer
               and by the producer thread (action PLen)

   Two fixed roles: the producer (push) and the consumer (everything else).  Unsynchronised loads
   of a variable that only the loading role writes are folded into the next transition of that
   role; the one racy unsync_load (`head.block` in alloc_node, written by the consumer) and the
   slot reads are transitions of their own (they have no hook in the code: the acceptor takes
   them together with the preceding recorded event, which is where the baton scheduler runs them).

   Blocks are ids 1,2,3...; 0 is the null pointer.  A recycled block keeps its id, its stale
   `next` and its stale slot contents - exactly as in the code (`first.next` is not reset).
   A slot holds (push index, value) of the last write.

   Ghost state (never read by a transition except to set another ghost):
     absq/pushed/popped   abstract FIFO, values in LP order of push, values handed out
     bid k                the id of the k-th block of the queue's block SEQUENCE (a recycled id occurs
                          several times); gfk glk ghk gtk = sequence numbers of first, last_head,
                          head.block, tail.block; gplk of the producer's local copy of head.block;
                          gnb = blocks appended so far
     monitors             bad_fifo  a pop/bulk_pop/peek returned something else than the abstract head(s)
                          bad_none  "empty" answered while the abstract queue was not empty at the
                                    tail.index load of that call
                          bad_read  a slot was read that does not hold the value of the index read
                          bad_recyc alloc_node recycled a block of the window head.block..tail.block
                          bad_over  a slot holding a value the consumer has not yet passed was overwritten
                          bad_null  a null `next` was followed
                          bad_len   len() by the consumer outside [abstract length at call, abstract length at return]
                          bad_lenp  len() by the producer outside [abstract length at return, abstract length at call] *)
From Coq Require Import List Arith Bool.
Import ListNotations.

Section M.
Variable B : nat.
Hypothesis Bpos : 1 <= B.

Inductive ppc := PIdle | PWrite | PRec1 | PRdHead | PStLH | PRec2 | PLink | PSetT | PPub | PLenH | PLenT.
Inductive cpc := CIdle | CTail | CRead | CNext | CSetH | CCommit | CLenH | CLenT.
Inductive op := OPop | OBulk | OPeek | OLen.

Record mem := { tidx : nat; tblk : nat; hidx : nat; hblk : nat; first : nat; lasth : nat;
                nxt : nat -> nat; slot : nat -> nat -> option (nat * nat); nalloc : nat }.
Record prod := { pp : ppc; pv : nat; pnew : nat; plh : nat; plenh : nat; pres : nat }.
Record cons := { cp : cpc; cop : op; cpidx : nat; cend : nat; ck : nat; cacc : list nat;
                 cnh : nat; clh : nat; cres : nat }.
Record gq := { absq : list nat; pushed : list nat; popped : list nat; glen0 : nat; glen0p : nat }.
Record gk := { bid : nat -> nat; gfk : nat; glk : nat; gplk : nat; ghk : nat; gtk : nat; gnb : nat }.
Record gm := { bad_fifo : bool; bad_none : bool; bad_read : bool; bad_recyc : bool;
               bad_over : bool; bad_null : bool; bad_len : bool; bad_lenp : bool }.
Record st := { M : mem; P : prod; C : cons; Q : gq; K : gk; F : gm }.

Definition upd {X} (f : nat -> X) i v := fun j => if Nat.eqb j i then v else f j.
Definition upd2 {X} (f : nat -> nat -> X) b o v := fun b' o' => if Nat.eqb b' b && Nat.eqb o' o then v else f b' o'.
Definition isnil {X} (l : list X) := match l with [] => true | _ => false end.
Fixpoint list_eqb (a b : list nat) : bool :=
  match a, b with
  | [], [] => true
  | x :: a', y :: b' => Nat.eqb x y && list_eqb a' b'
  | _, _ => false
  end.

(* (start + BLOCK_SIZE) & !BLOCK_MASK *)
Definition blkend (i : nat) := (i / B + 1) * B.
Definition at_end (i : nat) : bool := Nat.eqb (i mod B) 0.

(* ---- field setters ---- *)
Definition m_tidx m v := {| tidx := v; tblk := tblk m; hidx := hidx m; hblk := hblk m; first := first m; lasth := lasth m; nxt := nxt m; slot := slot m; nalloc := nalloc m |}.
Definition m_tblk m v := {| tidx := tidx m; tblk := v; hidx := hidx m; hblk := hblk m; first := first m; lasth := lasth m; nxt := nxt m; slot := slot m; nalloc := nalloc m |}.
Definition m_hidx m v := {| tidx := tidx m; tblk := tblk m; hidx := v; hblk := hblk m; first := first m; lasth := lasth m; nxt := nxt m; slot := slot m; nalloc := nalloc m |}.
Definition m_hblk m v := {| tidx := tidx m; tblk := tblk m; hidx := hidx m; hblk := v; first := first m; lasth := lasth m; nxt := nxt m; slot := slot m; nalloc := nalloc m |}.
Definition m_first m v := {| tidx := tidx m; tblk := tblk m; hidx := hidx m; hblk := hblk m; first := v; lasth := lasth m; nxt := nxt m; slot := slot m; nalloc := nalloc m |}.
Definition m_lasth m v := {| tidx := tidx m; tblk := tblk m; hidx := hidx m; hblk := hblk m; first := first m; lasth := v; nxt := nxt m; slot := slot m; nalloc := nalloc m |}.
Definition m_nxt m v := {| tidx := tidx m; tblk := tblk m; hidx := hidx m; hblk := hblk m; first := first m; lasth := lasth m; nxt := v; slot := slot m; nalloc := nalloc m |}.
Definition m_slot m v := {| tidx := tidx m; tblk := tblk m; hidx := hidx m; hblk := hblk m; first := first m; lasth := lasth m; nxt := nxt m; slot := v; nalloc := nalloc m |}.
Definition m_nalloc m v := {| tidx := tidx m; tblk := tblk m; hidx := hidx m; hblk := hblk m; first := first m; lasth := lasth m; nxt := nxt m; slot := slot m; nalloc := v |}.

Definition p_pc p v := {| pp := v; pv := pv p; pnew := pnew p; plh := plh p; plenh := plenh p; pres := pres p |}.
Definition p_new p v := {| pp := pp p; pv := pv p; pnew := v; plh := plh p; plenh := plenh p; pres := pres p |}.
Definition p_lh p v := {| pp := pp p; pv := pv p; pnew := pnew p; plh := v; plenh := plenh p; pres := pres p |}.
Definition q_len0p q v := {| absq := absq q; pushed := pushed q; popped := popped q; glen0 := glen0 q; glen0p := v |}.

Definition c_pc c v := {| cp := v; cop := cop c; cpidx := cpidx c; cend := cend c; ck := ck c; cacc := cacc c; cnh := cnh c; clh := clh c; cres := cres c |}.

Definition k_fk k v := {| bid := bid k; gfk := v; glk := glk k; gplk := gplk k; ghk := ghk k; gtk := gtk k; gnb := gnb k |}.
Definition k_lk k v := {| bid := bid k; gfk := gfk k; glk := v; gplk := gplk k; ghk := ghk k; gtk := gtk k; gnb := gnb k |}.
Definition k_plk k v := {| bid := bid k; gfk := gfk k; glk := glk k; gplk := v; ghk := ghk k; gtk := gtk k; gnb := gnb k |}.
Definition k_hk k v := {| bid := bid k; gfk := gfk k; glk := glk k; gplk := gplk k; ghk := v; gtk := gtk k; gnb := gnb k |}.
Definition k_tk k v := {| bid := bid k; gfk := gfk k; glk := glk k; gplk := gplk k; ghk := ghk k; gtk := v; gnb := gnb k |}.
Definition k_app k b := {| bid := upd (bid k) (gnb k) b; gfk := gfk k; glk := glk k; gplk := gplk k; ghk := ghk k; gtk := gtk k; gnb := S (gnb k) |}.

Definition f_fifo f b := {| bad_fifo := bad_fifo f || b; bad_none := bad_none f; bad_read := bad_read f; bad_recyc := bad_recyc f; bad_over := bad_over f; bad_null := bad_null f; bad_len := bad_len f; bad_lenp := bad_lenp f |}.
Definition f_none f b := {| bad_fifo := bad_fifo f; bad_none := bad_none f || b; bad_read := bad_read f; bad_recyc := bad_recyc f; bad_over := bad_over f; bad_null := bad_null f; bad_len := bad_len f; bad_lenp := bad_lenp f |}.
Definition f_read f b := {| bad_fifo := bad_fifo f; bad_none := bad_none f; bad_read := bad_read f || b; bad_recyc := bad_recyc f; bad_over := bad_over f; bad_null := bad_null f; bad_len := bad_len f; bad_lenp := bad_lenp f |}.
Definition f_recyc f b := {| bad_fifo := bad_fifo f; bad_none := bad_none f; bad_read := bad_read f; bad_recyc := bad_recyc f || b; bad_over := bad_over f; bad_null := bad_null f; bad_len := bad_len f; bad_lenp := bad_lenp f |}.
Definition f_over f b := {| bad_fifo := bad_fifo f; bad_none := bad_none f; bad_read := bad_read f; bad_recyc := bad_recyc f; bad_over := bad_over f || b; bad_null := bad_null f; bad_len := bad_len f; bad_lenp := bad_lenp f |}.
Definition f_null f b := {| bad_fifo := bad_fifo f; bad_none := bad_none f; bad_read := bad_read f; bad_recyc := bad_recyc f; bad_over := bad_over f; bad_null := bad_null f || b; bad_len := bad_len f; bad_lenp := bad_lenp f |}.
Definition f_len f b := {| bad_fifo := bad_fifo f; bad_none := bad_none f; bad_read := bad_read f; bad_recyc := bad_recyc f; bad_over := bad_over f; bad_null := bad_null f; bad_len := bad_len f || b; bad_lenp := bad_lenp f |}.
Definition f_lenp f b := {| bad_fifo := bad_fifo f; bad_none := bad_none f; bad_read := bad_read f; bad_recyc := bad_recyc f; bad_over := bad_over f; bad_null := bad_null f; bad_len := bad_len f; bad_lenp := bad_lenp f || b |}.

(* ---- derived positions ---- *)
(* the consumer's read position: every index below it will not be read again *)
Definition rdpos (s : st) : nat :=
  match cp (C s) with CNext | CSetH | CCommit => cend (C s) | _ => hidx (M s) end.
(* number of slots written: tail.index, plus one while a push sits between its slot write and its publication *)
Definition written (p : ppc) : bool := match p with PIdle | PWrite | PLenH | PLenT => false | _ => true end.
Definition wpos (s : st) : nat := tidx (M s) + (if written (pp (P s)) then 1 else 0).
(* block b is one of the blocks from the consumer's head block to the last appended block *)
Definition in_window (s : st) (b : nat) : bool :=
  existsb (fun k => Nat.eqb (bid (K s) k) b) (seq (ghk (K s)) (gnb (K s) - ghk (K s))).

Inductive action := Push (v : nat) | PLen | PStep | Pop | Bulk | Peek | Len | CStep.

(* alloc_node: `first` is handed out, first := first.next *)
Definition recycle (s : st) : st :=
  let m := M s in
  {| M := m_first m (nxt m (first m));
     P := p_pc (p_new (P s) (first m)) PLink;
     C := C s; Q := Q s;
     K := k_fk (K s) (S (gfk (K s)));
     F := f_null (f_recyc (F s) (in_window s (first m))) (Nat.eqb (nxt m (first m)) 0) |}.

Definition start_call (s : st) (o : op) : option st :=
  match cp (C s) with
  | CIdle =>
      Some {| M := M s; P := P s;
              C := {| cp := match o with OLen => CLenH | _ => CTail end; cop := o; cpidx := 0; cend := 0; ck := 0;
                      cacc := []; cnh := 0; clh := 0; cres := 0 |};
              Q := {| absq := absq (Q s); pushed := pushed (Q s); popped := popped (Q s); glen0 := length (absq (Q s)); glen0p := glen0p (Q s) |};
              K := K s; F := F s |}
  | _ => None
  end.

Definition step (s : st) (a : action) : option st :=
  let m := M s in let p := P s in let c := C s in let q := Q s in let k := K s in let f := F s in
  match a with
  | Push v =>
      match pp p with
      | PIdle => Some {| M := m; P := {| pp := PWrite; pv := v; pnew := 0; plh := 0; plenh := 0; pres := 0 |}; C := c; Q := q; K := k; F := f |}
      | _ => None
      end
  | PLen =>        (* len() called by the producer thread *)
      match pp p with
      | PIdle => Some {| M := m; P := {| pp := PLenH; pv := pv p; pnew := 0; plh := 0; plenh := 0; pres := 0 |}; C := c;
                         Q := q_len0p q (length (absq q)); K := k; F := f |}
      | _ => None
      end
  | PStep =>
      match pp p with
      | PIdle => None
      | PLenH =>       (* pop_index = self.head.index.load(Relaxed) *)
          Some {| M := m; P := {| pp := PLenT; pv := pv p; pnew := 0; plh := 0; plenh := hidx m; pres := 0 |}; C := c; Q := q; K := k; F := f |}
      | PLenT =>       (* push_index = self.tail.index.load(Acquire); push_index - pop_index *)
          let r := tidx m - plenh p in
          Some {| M := m; P := {| pp := PIdle; pv := pv p; pnew := 0; plh := 0; plenh := plenh p; pres := r |}; C := c; Q := q; K := k;
                  F := f_lenp f (Nat.ltb r (length (absq q)) || Nat.ltb (glen0p q) r) |}
      | PWrite =>      (* tail.set(push_index, v) *)
          let o := tidx m mod B in
          let over := match slot m (tblk m) o with Some (i, _) => Nat.leb (rdpos s) i | None => false end in
          Some {| M := m_slot m (upd2 (slot m) (tblk m) o (Some (tidx m, pv p)));
                  P := p_pc p (if at_end (S (tidx m)) then (if Nat.eqb (first m) (lasth m) then PRdHead else PRec1) else PPub);
                  C := c; Q := q; K := k; F := f_over f over |}
      | PRec1 => Some (recycle s)      (* self.first.store(first.next) #0 *)
      | PRdHead =>     (* self.head.block.unsync_load() *)
          Some {| M := m; P := p_pc (p_lh p (hblk m)) PStLH; C := c; Q := q; K := k_plk k (ghk k); F := f |}
      | PStLH =>       (* self.last_head.store(last_head); then first != last_head ? ... : BlockNode::new() *)
          if Nat.eqb (first m) (plh p)
          then Some {| M := m_nalloc (m_lasth m (plh p)) (S (nalloc m));
                       P := p_pc (p_new p (nalloc m)) PLink; C := c; Q := q; K := k_lk k (gplk k); F := f |}
          else Some {| M := m_lasth m (plh p); P := p_pc p PRec2; C := c; Q := q; K := k_lk k (gplk k); F := f |}
      | PRec2 => Some (recycle s)      (* self.first.store(first.next) #1 *)
      | PLink =>       (* tail.next.store(new_tail) *)
          Some {| M := m_nxt m (upd (nxt m) (tblk m) (pnew p)); P := p_pc p PSetT; C := c; Q := q;
                  K := k_app k (pnew p); F := f |}
      | PSetT =>       (* self.tail.block.store(new_tail) *)
          Some {| M := m_tblk m (pnew p); P := p_pc p PPub; C := c; Q := q; K := k_tk k (S (gtk k)); F := f |}
      | PPub =>        (* self.tail.index.store(new_index, Release): LP of push *)
          Some {| M := m_tidx m (S (tidx m)); P := p_pc p PIdle; C := c;
                  Q := {| absq := absq q ++ [pv p]; pushed := pushed q ++ [pv p]; popped := popped q; glen0 := glen0 q; glen0p := glen0p q |};
                  K := k; F := f |}
      end
  | Pop => start_call s OPop
  | Bulk => start_call s OBulk
  | Peek => start_call s OPeek
  | Len => start_call s OLen
  | CStep =>
      match cp c with
      | CIdle => None
      | CTail =>       (* push_index = self.tail.index.load(Acquire); index == push_index ? *)
          if Nat.eqb (hidx m) (tidx m)
          then Some {| M := m; P := p;
                       C := {| cp := CIdle; cop := cop c; cpidx := tidx m; cend := hidx m; ck := hidx m; cacc := []; cnh := 0; clh := 0; cres := 0 |};
                       Q := q; K := k; F := f_none f (negb (isnil (absq q))) |}
          else Some {| M := m; P := p;
                       C := {| cp := CRead; cop := cop c; cpidx := tidx m;
                               cend := match cop c with OBulk => Nat.min (tidx m) (blkend (hidx m)) | _ => S (hidx m) end;
                               ck := hidx m; cacc := []; cnh := 0; clh := 0; cres := 0 |};
                       Q := q; K := k; F := f |}
      | CRead =>       (* head.get(ck & MASK) *)
          let r := match slot m (hblk m) (ck c mod B) with
                   | Some (i, v) => if Nat.eqb i (ck c) then Some v else None
                   | None => None end in
          let v := match r with Some v => v | None => 0 end in
          let bad := match r with Some _ => false | None => true end in
          let acc := cacc c ++ [v] in
          if Nat.eqb (S (ck c)) (cend c)
          then match cop c with
               | OPeek => Some {| M := m; P := p;
                                  C := {| cp := CIdle; cop := cop c; cpidx := cpidx c; cend := cend c; ck := S (ck c); cacc := acc; cnh := 0; clh := 0; cres := 0 |};
                                  Q := q; K := k;
                                  F := f_fifo (f_read f bad) (negb (list_eqb acc (firstn 1 (absq q)))) |}
               | _ => Some {| M := m; P := p;
                              C := {| cp := if at_end (cend c) then CNext else CCommit;
                                      cop := cop c; cpidx := cpidx c; cend := cend c; ck := S (ck c); cacc := acc; cnh := 0; clh := 0; cres := 0 |};
                              Q := q; K := k; F := f_read f bad |}
               end
          else Some {| M := m; P := p;
                       C := {| cp := CRead; cop := cop c; cpidx := cpidx c; cend := cend c; ck := S (ck c); cacc := acc; cnh := 0; clh := 0; cres := 0 |};
                       Q := q; K := k; F := f_read f bad |}
      | CNext =>       (* new_head = head.next.load(Relaxed) *)
          Some {| M := m; P := p;
                  C := {| cp := CSetH; cop := cop c; cpidx := cpidx c; cend := cend c; ck := ck c; cacc := cacc c; cnh := nxt m (hblk m); clh := 0; cres := 0 |};
                  Q := q; K := k; F := f_null f (Nat.eqb (nxt m (hblk m)) 0) |}
      | CSetH =>       (* self.head.block.store(new_head) *)
          Some {| M := m_hblk m (cnh c); P := p; C := c_pc c CCommit; Q := q; K := k_hk k (S (ghk k)); F := f |}
      | CCommit =>     (* self.head.index.store(new_index): LP of pop / bulk_pop *)
          let n := length (cacc c) in
          Some {| M := m_hidx m (cend c); P := p; C := c_pc c CIdle;
                  Q := {| absq := skipn n (absq q); pushed := pushed q; popped := popped q ++ cacc c; glen0 := glen0 q; glen0p := glen0p q |};
                  K := k; F := f_fifo f (negb (list_eqb (cacc c) (firstn n (absq q)))) |}
      | CLenH =>       (* pop_index = self.head.index.load(Relaxed) *)
          Some {| M := m; P := p;
                  C := {| cp := CLenT; cop := cop c; cpidx := 0; cend := 0; ck := 0; cacc := []; cnh := 0; clh := hidx m; cres := 0 |};
                  Q := q; K := k; F := f |}
      | CLenT =>       (* push_index = self.tail.index.load(Acquire); push_index - pop_index *)
          let r := tidx m - clh c in
          Some {| M := m; P := p;
                  C := {| cp := CIdle; cop := cop c; cpidx := tidx m; cend := 0; ck := 0; cacc := []; cnh := 0; clh := clh c; cres := r |};
                  Q := q; K := k;
                  F := f_len f (Nat.ltb r (glen0 q) || Nat.ltb (length (absq q)) r) |}
      end
  end.

Definition init : st :=
  {| M := {| tidx := 0; tblk := 1; hidx := 0; hblk := 1; first := 1; lasth := 1;
             nxt := fun _ => 0; slot := fun _ _ => None; nalloc := 2 |};
     P := {| pp := PIdle; pv := 0; pnew := 0; plh := 0; plenh := 0; pres := 0 |};
     C := {| cp := CIdle; cop := OPop; cpidx := 0; cend := 0; ck := 0; cacc := []; cnh := 0; clh := 0; cres := 0 |};
     Q := {| absq := []; pushed := []; popped := []; glen0 := 0; glen0p := 0 |};
     K := {| bid := fun _ => 1; gfk := 0; glk := 0; gplk := 0; ghk := 0; gtk := 0; gnb := 1 |};
     F := {| bad_fifo := false; bad_none := false; bad_read := false; bad_recyc := false;
             bad_over := false; bad_null := false; bad_len := false; bad_lenp := false |} |}.

Inductive Reach : st -> Prop :=
| R0 : Reach init
| RS s a s' : Reach s -> step s a = Some s' -> Reach s'.

Fixpoint run (s : st) (l : list action) : option st :=
  match l with
  | [] => Some s
  | a :: l' => match step s a with Some s' => run s' l' | None => None end
  end.

Definition monitors_ok (s : st) : bool :=
  let f := F s in
  negb (bad_fifo f || bad_none f || bad_read f || bad_recyc f || bad_over f || bad_null f || bad_len f || bad_lenp f).

End M.
