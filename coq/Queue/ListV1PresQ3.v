(* C19 - core invariant: Q3, the producer reads the consumer position and returns (handle, is_head);
   the three claims about the head report, (a), (c) and (d) of C19.iv, are discharged here. *)
From Coq Require Import List Arith Bool Lia.
Import ListNotations.
Require Import MayV.Queue.ListV1Model MayV.Queue.ListV1Inv.

Lemma inv_q3 s p s' : Inv s -> qp (P s p) = Q3 -> step s (PStep p) = Some s' -> Inv s'.
Proof.
  intros Hi Eq H. unfold step in H. rewrite Eq in H. inv_some.
  pfacts Hi p. cbn in Hp4.
  set (n := qn (P s p)) in *. set (a := qprev (P s p)) in *.
  destruct (G1 _ Hi) as (g1 & g2 & g3 & g4). destruct (G2 _ Hi) as (t1 & t2 & t3 & t4).
  destruct (GM _ Hi) as (m1 & m2 & m3). destruct (N8 _ Hi) as (n8a & n8b).
  (* the claims about the head report *)
  assert (Hclaims : implb (qempty (P s p) && (cons (nd s n) =? 0)) (tail s =? a) &&
                    implb (tail s =? a) ((cons (nd s n) =? 0) && inch (nd s n) && (gpred (nd s n) =? tail s)) &&
                    implb (qclk (P s p) =? kclock s) (Bool.eqb (tail s =? a) (qempty (P s p))) = true).
  { apply andb_true_intro. split; [apply andb_true_intro; split|].
    - destruct (qempty (P s p)) eqn:Ee; cbn; auto. destruct (cons (nd s n) =? 0) eqn:Ec; cbn; auto.
      apply Nat.eqb_eq in Ec. apply Nat.eqb_eq.
      destruct (inch (nd s n)) eqn:Ei.
      + assert (n <> tail s) by (intro E; rewrite E in Ec; destruct (Nat.eq_dec (tail s) 0); [lia | rewrite n8a in Ec; lia]).
        destruct (NI _ Hi n Ei H) as (a1&a2&_). destruct (G3 _ Hi _ a2). specialize (Hp5 eq_refl). specialize (Hp7 eq_refl). lia.
      + destruct (N7 _ Hi n Hp2 Ei) as (_&c1). rewrite c1 in Ec; lia.
    - destruct (tail s =? a) eqn:Et; cbn; auto. apply Nat.eqb_eq in Et.
      destruct (inch (nd s n)) eqn:Ei; [|specialize (Hp6 eq_refl); lia].
      assert (n <> tail s) by lia.
      destruct (NI _ Hi n Ei H) as (a1&a2&_&_&_&_&_&_&a9&_). destruct (G3 _ Hi _ a2). specialize (Hp5 eq_refl).
      rewrite a9. cbn. apply Nat.eqb_eq. lia.
    - destruct (qclk (P s p) =? kclock s) eqn:Ec; cbn; auto. apply Nat.eqb_eq in Ec. rewrite (Hp10 Ec).
      rewrite (Nat.eqb_sym (tail s) a). apply eqb_reflx. }
  unfold modn; cbn. fold n a. rewrite Hclaims. cbn.
  set (f := upd (nodes s) n _).
  assert (Fn : forall x, nprev (f x) = nprev (nd s x) /\ nnext (f x) = nnext (nd s x) /\ nval (f x) = nval (nd s x) /\
                         nlink (f x) = nlink (nd s x) /\ stage (f x) = stage (nd s x) /\ inch (f x) = inch (nd s x) /\
                         gpred (f x) = gpred (nd s x) /\ cons (f x) = cons (nd s x) /\
                         (x <> n -> ret (f x) = ret (nd s x)) /\ (ret (nd s x) = true -> ret (f x) = true)).
  { intro x. unfold f. destruct (Nat.eq_dec x n) as [->|ne]; [rewrite upd_eq; cbn; repeat split; auto; congruence | rewrite upd_neq by assumption; repeat split; auto]. }
  assert (Fr : ret (f n) = true) by (unfold f; rewrite upd_eq; reflexivity).
  constructor; unfold ninv, pinv, in_remove, spinning; cbv zeta; cbn; fold f.
  - auto.
  - destruct (Fn (tail s)) as (i1&_&i3&_&_&i6&_). destruct (Fn (head s)) as (_&_&_&_&_&j6&_). rewrite i1, i3, i6, j6. auto.
  - intro x. destruct (Fn x) as (_&_&_&_&_&i6&_). rewrite i6. apply (G3 _ Hi).
  - intros x Hx. unfold f. rewrite upd_neq by lia. apply (G4 _ Hi x Hx).
  - rewrite m2. auto.
  - intros b. destruct (Fn b) as (i1&i2&i3&i4&i5&i6&i7&i8&_). destruct (Fn (gpred (nd s b))) as (_&k2&_&_&_&k6&_).
    rewrite i1, i3, i4, i5, i6, i7, i8, k2, k6. intros Hb Hbt.
    destruct (NI _ Hi b Hb Hbt) as (a1&a2&a3&a4). repeat split; try tauto.
    intros x Hx. destruct (Fn x) as (_&_&_&_&_&x6&_). rewrite x6 in Hx. apply (a3 x Hx).
  - intros a0 x. destruct (Fn a0) as (_&i2&_&_&_&i6&_). destruct (Fn x) as (_&_&_&_&x5&x6&x7&_). rewrite i2, i6, x5, x6, x7. apply (N6 _ Hi).
  - intros m Hm. destruct (Fn m) as (_&_&_&i4&_&i6&_&i8&_). rewrite i4, i6, i8. apply (N7 _ Hi m Hm).
  - destruct (Fn (tail s)) as (_&_&_&_&_&_&_&i8&_). destruct (Fn 0) as (_&_&_&_&_&_&_&j8&_). rewrite i8, j8. auto.
  - intros m Hr. destruct (Fn m) as (_&_&_&_&i5&_&_&_&i9&_). rewrite i5.
    destruct (Nat.eq_dec m n) as [->|ne]; [repeat split; auto; lia | rewrite (i9 ne) in Hr; apply (NR _ Hi m Hr)].
  - intros q. destruct (Nat.eq_dec q p) as [->|nq].
    + rewrite upd_eq; cbn. discriminate.
    + rewrite upd_neq by assumption. intros Ha. pose proof (PP _ Hi q Ha) as Hq. cbv zeta in Hq.
      assert (Hqn : qn (P s q) <> n) by (apply (PU _ Hi q p nq Ha); unfold active; rewrite Eq; reflexivity).
      destruct (Fn (qn (P s q))) as (_&_&_&_&j5&j6&j7&_&j9&_). destruct (Fn (qprev (P s q))) as (_&i2&_&_&_&i6&_).
      rewrite j5, j6, j7, (j9 Hqn), i2, i6. exact Hq.
  - intros q q' Hne. destruct (Nat.eq_dec q p) as [->|nq]; destruct (Nat.eq_dec q' p) as [->|nq'];
      rewrite ?upd_eq, ?upd_neq by assumption; cbn; try congruence; try discriminate.
    apply (PU _ Hi); assumption.
  - intros Hk. destruct (K2 _ Hi Hk) as (c1&c2&c3&c4). destruct (Fn (kn s)) as (_&_&_&_&i5&i6&i7&_). rewrite i5, i6, i7. auto.
  - intros Hk. destruct (Fn (kn s)) as (_&_&_&_&_&_&_&_&_&i10). apply i10. apply (K3 _ Hi Hk).
  - intros Hk. destruct (K4 _ Hi Hk) as (c1&c2). destruct (Fn (kn s)) as (i1&_&_&i4&_). rewrite i1, i4. auto.
  - intros Hk. destruct (Fn (kn s)) as (_&i2&_). rewrite i2. apply (K5 _ Hi Hk).
  - apply (K6 _ Hi).
  - destruct (Fn (head s)) as (_&i2&_). rewrite i2. apply (GH _ Hi).
Qed.
