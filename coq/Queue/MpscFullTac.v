(* Tactics for the preservation proofs of the full mpsc invariant. *)
From Coq Require Import List Arith Bool Lia.
Import ListNotations.
Require Import MayV.Queue.MpscFullModel MayV.Queue.MpscFullInv.

Ltac sp :=
  cbn [M P C G F heap taddr ti tc hidx hblk oldb pp lb li pv pnew pnx gk
       cp cop cdrop ck cend cacc cnx chd cblk clh cres cret
       rlog absq popped saw glen0 badr nblk gtk ghk glo gcl act nalloc nfree
       bad_uaf bad_dfree bad_over bad_fifo bad_none bad_len bad_assert
       m_heap m_tail m_hidx m_hblk m_oldb x_pc x_loc x_gk x_new x_nx
       c_pc c_rd c_end c_nx c_hd c_blk c_lh c_res c_ret c_call
       g_rlog g_absq g_popped g_saw g_len0 g_newblk g_tk g_hk g_lo g_cl g_act g_nfree
       f_uaf f_dfree f_over f_fifo f_none f_len f_assert
       s_M s_P s_C s_G s_F setP bstart bnext bval brdy b_next b_val b_rdy fresh_blk dead_blk] in *.
Ltac unf :=
  unfold pinv, cinv, hpos, oldrel, live in *; unfold pw_common, pc_common, crd, dropst, popbulk, closer in *;
  unfold nres, nlin, lhi, blkof, blk_at, rv, inflight, pslot, monitors_ok in *; cbv zeta in *.
Ltac bools :=
  repeat match goal with
  | H : _ && _ = true |- _ => apply andb_prop in H; destruct H
  | H : _ || _ = false |- _ => apply orb_false_elim in H; destruct H
  | H : negb _ = true |- _ => apply negb_true_iff in H
  | H : negb _ = false |- _ => apply negb_false_iff in H
  | H : (_ =? _) = true |- _ => apply Nat.eqb_eq in H
  | H : (_ =? _) = false |- _ => apply Nat.eqb_neq in H
  | H : (_ <? _) = true |- _ => apply Nat.ltb_lt in H
  | H : (_ <? _) = false |- _ => apply Nat.ltb_ge in H
  | H : (_ <=? _) = true |- _ => apply Nat.leb_le in H
  | H : (_ <=? _) = false |- _ => apply Nat.leb_gt in H
  end.
Ltac brk := repeat match goal with H : _ /\ _ |- _ => destruct H end.
Ltac upd_tac :=
  repeat match goal with
  | |- context [upd ?f ?i ?v ?j] =>
      first [ rewrite (upd_eq f i v) | rewrite (upd_neq f i j v) by (try congruence; try lia)
            | let e := fresh "e" in let ne := fresh "ne" in
              destruct (Nat.eq_dec j i) as [e|ne];
              [ rewrite e; rewrite (upd_eq f i v) | rewrite (upd_neq f i j v ne) ] ]
  end.
(* pusher q after pusher p has moved *)
Ltac other_p q p :=
  let e := fresh "e" in let ne := fresh "ne" in
  destruct (Nat.eq_dec q p) as [e|ne]; [subst q; rewrite ?upd_eq in * | rewrite ?(upd_neq _ p q _ ne) in *].
Ltac other_t t p :=
  let e := fresh "e" in let ne := fresh "ne" in
  destruct (Nat.eq_dec t p) as [e|ne]; [rewrite ?e in *; rewrite ?upd_eq in * | rewrite ?(upd_neq _ p t _ ne) in *].
(* split conjunctions only (never introduces, never unfolds) *)
Ltac rsplit := repeat match goal with |- _ /\ _ => split end.

(* resolve [hget (upd h (badr k0) ..) (badr k)] for allocated blocks k, k0 *)
Ltac hg BK :=
  repeat (rewrite hget_mod by assumption);
  repeat match goal with
  | |- context [Nat.eqb (badr ?g ?k) (badr ?g ?k0)] =>
      let e := fresh "e" in
      destruct (Nat.eq_dec k k0) as [e|e];
      [ try (exfalso; clear - e; lia); rewrite ?e in *; rewrite Nat.eqb_refl
      | let n := fresh "n" in assert (n : badr g k <> badr g k0) by (apply BK; assumption);
        apply Nat.eqb_neq in n; rewrite n; apply Nat.eqb_neq in n ]
  end; sp; try match goal with e : ?x <> ?x |- _ => exfalso; apply e; reflexivity end.

