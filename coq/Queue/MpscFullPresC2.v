(* Preservation of the full mpsc invariant: the consumer steps that move head.index / head.block or free a block (commit, old_block.replace, head.block store, the frees of Queue::drop). *)
From Coq Require Import List Arith Bool Lia.
Import ListNotations.
Require Import MayV.Queue.MpscFullModel MayV.Queue.MpscFullInv MayV.Queue.MpscFullTac MayV.Queue.MpscFullFacts MayV.Queue.MpscFullPresC1.

(* tail word, pushers and the block sequence are what they were *)
Definition psame (s' s : st) : Prop :=
  taddr (M s') = taddr (M s) /\ ti (M s') = ti (M s) /\ tc (M s') = tc (M s) /\ P s' = P s /\
  rlog (G s') = rlog (G s) /\ badr (G s') = badr (G s) /\ nblk (G s') = nblk (G s) /\ gtk (G s') = gtk (G s) /\
  gcl (G s') = gcl (G s) /\ act (G s') = act (G s) /\ nalloc (G s') = nalloc (G s).

Section S.
Variable B : nat.
Hypothesis Bpos : 1 <= B.
Notation Inv := (Inv B).
Set Default Proof Using "Bpos".

(* the assertion of a pusher under a consumer step *)
Lemma pinv_cstep s s' p :
  pinv B s p -> psame s' s ->
  (inflight (P s p) = true -> blkof s' (gk (P s p)) = blkof s (gk (P s p)) /\ blkof s' (S (gtk (G s))) = blkof s (S (gtk (G s)))) ->
  (inflight (P s p) = true -> hidx (M s') <= pslot B (P s p) \/ S (li (P s p)) = B /\ pp (P s p) <> PWrite /\ pp (P s p) <> PReady) ->
  pinv B s' p.
Proof.
  intros Pp (E1 & E2 & E3 & E4 & E5 & E6 & E7 & E8 & E9 & E10 & E11) BO HX.
  unfold pinv, pw_common, pc_common, pslot, nres, inflight in *. rewrite E4, ?E1, ?E2, ?E3, ?E5, ?E6, ?E7, ?E8, ?E9.
  destruct (pp (P s p)) eqn:Ep; auto; destruct (BO eq_refl) as [BG BN]; rewrite ?BG, ?BN; auto.
  - destruct Pp as [(W1 & W2 & W3 & W4 & W5 & W6 & W7 & W8) PV]. destruct (HX eq_refl) as [HH | (_ & N & _)]; [|congruence]. rsplit; auto.
  - destruct Pp as [(W1 & W2 & W3 & W4 & W5 & W6 & W7 & W8) PV]. destruct (HX eq_refl) as [HH | (_ & _ & N)]; [|congruence]. rsplit; auto.
Qed.

(* a consumer step that leaves the heap alone: everything about blocks, slots, pushers is inherited *)
Lemma inv_cmove s s' :
  Inv s -> psame s' s -> heap (M s') = heap (M s) -> glo (G s') = glo (G s) -> lhi s' = lhi s ->
  (glo (G s') <= ghk (G s') /\ ghk (G s') <= S (gtk (G s')) /\ ghk (G s') <= S (glo (G s'))) ->
  hblk (M s') = badr (G s') (ghk (G s')) -> oldrel s' -> (hidx (M s') <= nlin B s /\ hpos B s') ->
  (absq (G s') = map (rv s) (seq (hidx (M s')) (nlin B s - hidx (M s'))) /\ popped (G s') = map (rv s) (seq 0 (hidx (M s')))) ->
  (forall p, inflight (P s p) = true -> hidx (M s') <= pslot B (P s p) \/ S (li (P s p)) = B /\ pp (P s p) <> PWrite /\ pp (P s p) <> PReady) ->
  cinv B s' -> (cdrop (C s') = true -> act (G s) = []) -> monitors_ok s' = true -> Inv s'.
Proof.
  intros Hi PS EH EGL ELH RNG PTR OLD HD ABS HX HC HDr HM.
  pose proof PS as (E1 & E2 & E3 & E4 & E5 & E6 & E7 & E8 & E9 & E10 & E11).
  assert (NR : nres B s' = nres B s) by (unfold nres; rewrite E2, E3, E8; reflexivity).
  assert (BO : forall k, blkof s' k = blkof s k) by (intros; unfold blkof, blk_at; rewrite EH, E6; reflexivity).
  assert (NL : nlin B s' = nlin B s) by (unfold nlin; rewrite BO, E2, E3, E8; reflexivity).
  assert (RV : forall j, rv s' j = rv s j) by (intros; unfold rv; rewrite E5; reflexivity).
  assert (LV : forall k, live s' k <-> live s k) by (intros; unfold live; rewrite ELH, EGL; tauto).
  destruct Hi. constructor.
  - rewrite E2, E3. auto.
  - rewrite E5, NR. auto.
  - destruct RNG as (R1 & R2 & R3). destruct I_rng as (O1 & O2 & O3 & O4 & O5 & O6). rewrite E3, E7, E8 in *. rewrite EGL in *. rsplit; auto.
  - intros k L. apply LV in L. rewrite BO, EH, E6. auto.
  - intros k k' L L'. apply LV in L. apply LV in L'. rewrite E6. auto.
  - intros a Ha. rewrite EH. apply I_fr. intros k L. rewrite <- E6. apply Ha. apply LV. auto.
  - intros k L Lk. apply LV in L. rewrite BO, E6. rewrite E8 in Lk. auto.
  - intros k i L Li Ln. apply LV in L. rewrite BO. rewrite NR in Ln. auto.
  - intros k i L Li R. apply LV in L. rewrite BO in *. rewrite RV, NL. auto.
  - split; [rewrite E1, E6, E8; apply I_ptr | exact PTR].
  - exact OLD.
  - rewrite NL. exact HD.
  - rewrite NL. destruct ABS as [A1 A2]. split.
    + rewrite A1. apply map_seq_ext. intros; symmetry; apply RV.
    + rewrite A2. apply map_seq_ext. intros; symmetry; apply RV.
  - intros p. apply (pinv_cstep s); auto.
  - intros p. rewrite E4, E10. auto.
  - rewrite E3, E4, E8, E9. auto.
  - exact HC.
  - intros D. rewrite E10. auto.
  - rewrite E11, E7. auto.
  - exact HM.
Qed.

Lemma crd_lt' s : Inv s -> pcls (cp (C s)) <= 2 -> crd B s -> ck (C s) <= S (ghk (G s)) * B -> ck (C s) <= nlin B s.
Proof.
  intros Hi D (K1 & K2 & K3) Hk. destruct (I_hd _ _ Hi) as [H1 _]. pose proof (hpos_bounds B Bpos s Hi) as [Hb1 Hb2].
  destruct (length (cacc (C s))) as [|n] eqn:L; [lia|].
  assert (J : hidx (M s) <= ck (C s) - 1 /\ ck (C s) - 1 < ck (C s)) by lia. destruct J as [J1 J2].
  specialize (K2 _ J1 J2).
  assert (Li : ck (C s) - 1 - ghk (G s) * B < B) by lia.
  destruct (I_sc _ _ Hi _ _ (live_head' B Bpos s Hi D) Li K2) as [_ Lt]. lia.
Qed.

(* a pusher that has reserved but not yet published its slot is at or beyond everything the consumer has read *)
Lemma writer_ahead s p : Inv s -> pcls (cp (C s)) <= 2 -> crd B s -> ck (C s) <= S (ghk (G s)) * B ->
  (pp (P s p) = PWrite \/ pp (P s p) = PReady) -> ck (C s) <= pslot B (P s p).
Proof.
  intros Hi Hp (K1 & K2 & K3) Hk PP. pose proof (hpos_bounds B Bpos s Hi) as [Hb1 Hb2].
  assert (PW : pw_common B s p (P s p)).
  { pose proof (I_p _ _ Hi p) as Pp. unfold pinv in Pp. destruct PP as [E|E]; rewrite E in Pp; tauto. }
  destruct PW as (W1 & W2 & W3 & W4 & W5 & W6 & W7 & W8). unfold pslot in *.
  destruct (le_lt_dec (ck (C s)) (gk (P s p) * B + li (P s p))) as [|LT]; auto. exfalso.
  assert (GE : gk (P s p) = ghk (G s)).
  { assert (ghk (G s) <= gk (P s p)) by (destruct (le_lt_dec (ghk (G s)) (gk (P s p))); auto; exfalso; nia).
    assert (gk (P s p) <= ghk (G s)) by (destruct (le_lt_dec (gk (P s p)) (ghk (G s))); auto; exfalso; nia). lia. }
  specialize (K2 _ W7 LT). rewrite GE in *. replace (ghk (G s) * B + li (P s p) - ghk (G s) * B) with (li (P s p)) in K2 by lia. congruence.
Qed.

Ltac cside Ecp MON :=
  match goal with
  | |- psame _ _ => unfold psame; sp; rsplit; reflexivity
  | |- lhi _ = lhi _ => unfold lhi; sp; rewrite Ecp; reflexivity
  | |- monitors_ok _ = true => unfold monitors_ok in *; sp; rewrite ?orb_false_r; exact MON
  | _ => idtac
  end.

Lemma pres_c_commit s : Inv s -> cp (C s) = CCommit -> Inv (c_commit B s).
Proof.
  intros Hi Ecp. assert (Hp : pcls (cp (C s)) <= 2) by (rewrite Ecp; cbn; lia).
  pose proof (I_c _ _ Hi) as Hc. unfold cinv in Hc. rewrite Ecp in Hc. destruct Hc as (H1 & H2 & H3 & H4).
  pose proof (crd_lt' s Hi Hp H2 H4) as CL. pose proof (fun p => writer_ahead s p Hi Hp H2 H4) as WA.
  pose proof (hpos_bounds B Bpos s Hi) as [Hb1 Hb2]. destruct (I_hd _ _ Hi) as [HL HP]. unfold hpos in HP. rewrite Ecp in HP.
  pose proof (I_mon _ _ Hi) as MON. destruct (I_abs _ _ Hi) as [AQ AP]. destruct (I_rng _ _ Hi) as (R1 & R2 & R3 & R4 & R5 & R6).
  destruct (I_ptr _ _ Hi) as [T1 T2]. pose proof (I_old _ _ Hi) as OLD. unfold oldrel in OLD. rewrite Ecp in OLD.
  destruct H2 as (K1 & K2 & K3).
  assert (FF : list_eqb (cacc (C s)) (firstn (length (cacc (C s))) (absq (G s))) = true).
  { rewrite AQ. rewrite firstn_map_seq by lia. rewrite <- K3. apply list_eqb_refl. }
  assert (HXX : forall p, inflight (P s p) = true ->
            hidx (M s) + length (cacc (C s)) <= pslot B (P s p) \/ S (li (P s p)) = B /\ pp (P s p) <> PWrite /\ pp (P s p) <> PReady).
  { intros p IF. unfold inflight in IF. pose proof (I_p _ _ Hi p) as Pp. unfold pinv in Pp.
    destruct (pp (P s p)) eqn:Ep; try discriminate.
    1,2: left; rewrite <- K1; apply WA; auto.
    all: right; destruct Pp as [(S1 & _) _]; rsplit; auto; discriminate. }
  assert (AB : skipn (length (cacc (C s))) (absq (G s)) =
               map (rv s) (seq (hidx (M s) + length (cacc (C s))) (nlin B s - (hidx (M s) + length (cacc (C s))))) /\
               popped (G s) ++ cacc (C s) = map (rv s) (seq 0 (hidx (M s) + length (cacc (C s))))).
  { split.
    - rewrite AQ. rewrite skipn_map_seq by lia. f_equal. f_equal. lia.
    - rewrite AP. rewrite K3 at 1. apply map_seq_app. }
  unfold c_commit. cbv zeta. rewrite FF. cbn [negb].
  destruct ((hidx (M s) + length (cacc (C s))) mod B =? 0) eqn:EB; bools.
  - (* block end *)
    assert (NE : hidx (M s) + length (cacc (C s)) = S (ghk (G s)) * B) by (apply (mod0_end B Bpos); auto; lia).
    clear EB. apply (inv_cmove s); auto; sp; auto; try lia; cside Ecp MON.
    + split; [lia|]. unfold hpos. sp. exact NE.
    + unfold cinv. sp. exact I.
    + apply (I_dr _ _ Hi).
  - (* inside the block *)
    assert (NE : hidx (M s) + length (cacc (C s)) < S (ghk (G s)) * B).
    { destruct (Nat.eq_dec (hidx (M s) + length (cacc (C s))) (S (ghk (G s)) * B)) as [e|n]; [|lia]. exfalso. apply EB. rewrite e. apply mod_end; auto. }
    clear EB. unfold c_fin. sp. destruct (cdrop (C s)) eqn:D.
    + apply (inv_cmove s); auto; unfold c_start, entry; sp; auto; try lia; cside Ecp MON.
      * split; [lia|]. unfold hpos. sp. lia.
      * unfold cinv, crd, popbulk. sp. rsplit; auto; try lia; try (intros; lia).
      * intros _. apply (I_dr _ _ Hi D).
    + apply (inv_cmove s); auto; sp; auto; try lia; cside Ecp MON.
      * split; [lia|]. unfold hpos. sp. lia.
      * congruence.
Qed.

(* the assertion every in-flight pusher carries about head.index, in the form inv_cmove wants *)
Lemma inflight_ahead s p : Inv s -> inflight (P s p) = true ->
  hidx (M s) <= pslot B (P s p) \/ S (li (P s p)) = B /\ pp (P s p) <> PWrite /\ pp (P s p) <> PReady.
Proof.
  intros Hi IF. unfold inflight in IF. pose proof (I_p _ _ Hi p) as Pp. unfold pinv in Pp.
  destruct (pp (P s p)) eqn:Ep; try discriminate.
  1,2: left; destruct Pp as [(_&_&_&_&_&_&W7&_) _]; exact W7.
  all: right; destruct Pp as [(S1 & _) _]; rsplit; auto; discriminate.
Qed.

Lemma pres_c_seth s : Inv s -> cp (C s) = CSetH -> Inv (c_seth true s).
Proof.
  intros Hi Ecp. assert (Hp : pcls (cp (C s)) <= 2) by (rewrite Ecp; cbn; lia).
  pose proof (I_c _ _ Hi) as Hc. unfold cinv in Hc. rewrite Ecp in Hc. destruct Hc as (H1 & H2).
  destruct (I_hd _ _ Hi) as [HL HP]. unfold hpos in HP. rewrite Ecp in HP.
  pose proof (I_mon _ _ Hi) as MON. destruct (I_abs _ _ Hi) as [AQ AP]. destruct (I_rng _ _ Hi) as (R1 & R2 & R3 & R4 & R5 & R6).
  destruct (I_ptr _ _ Hi) as [T1 T2]. pose proof (I_old _ _ Hi) as OLD. unfold oldrel in OLD. rewrite Ecp in OLD. destruct OLD as [O1 O2].
  pose proof (fun p => inflight_ahead s p Hi) as HXX.
  unfold c_seth, c_fin. sp. destruct (cdrop (C s)) eqn:D.
  - apply (inv_cmove s); auto; unfold c_start, entry; sp; auto; try lia; cside Ecp MON.
    + unfold oldrel. sp. right. split; [congruence | lia].
    + split; [lia|]. unfold hpos. sp. lia.
    + unfold cinv, crd, popbulk. sp. rsplit; auto; try lia; try (intros; lia).
    + intros _. apply (I_dr _ _ Hi D).
  - apply (inv_cmove s); auto; sp; auto; try lia; cside Ecp MON.
    + unfold oldrel. sp. right. split; [congruence | lia].
    + split; [lia|]. unfold hpos. sp. lia.
    + congruence.
Qed.

(* an in-flight pusher works on allocated blocks: its own block and the block after the tail block *)
Lemma inflight_live s p : Inv s -> inflight (P s p) = true -> live s (gk (P s p)) /\ live s (S (gtk (G s))).
Proof.
  intros Hi IF. assert (N : pp (P s p) <> PIdle) by (unfold inflight in IF; destruct (pp (P s p)); congruence).
  pose proof (active_nodrop B Bpos s p Hi N) as ND. destruct (live_tail B Bpos s Hi ND) as [LT LT1]. split; auto.
  unfold inflight in IF. pose proof (I_p _ _ Hi p) as Pp. unfold pinv in Pp.
  destruct (pp (P s p)) eqn:Ep; try discriminate.
  1,2: destruct Pp as [PW _]; apply (pw_live B Bpos s p Hi PW); congruence.
  all: destruct Pp as [(_ & _ & K & _) _]; rewrite K; exact LT.
Qed.

(* a consumer step that frees the block with logical number k0 *)
Lemma inv_cfree s s' k0 :
  Inv s -> psame s' s -> live s k0 -> heap (M s') = upd (heap (M s)) (badr (G s) k0) None ->
  (forall k, live s' k <-> (live s k /\ k <> k0)) ->
  (tc (M s) = true -> k0 <> gtk (G s)) ->
  (forall p, inflight (P s p) = true -> k0 <> gk (P s p) /\ k0 <> S (gtk (G s))) ->
  (glo (G s') <= ghk (G s') /\ glo (G s') <= gtk (G s') /\ ghk (G s') <= S (gtk (G s')) /\ ghk (G s') <= S (glo (G s'))) ->
  hblk (M s') = badr (G s') (ghk (G s')) -> oldrel s' -> (hidx (M s') <= nlin B s /\ hpos B s') ->
  (absq (G s') = map (rv s) (seq (hidx (M s')) (nlin B s - hidx (M s'))) /\ popped (G s') = map (rv s) (seq 0 (hidx (M s')))) ->
  (forall p, inflight (P s p) = true -> hidx (M s') <= pslot B (P s p) \/ S (li (P s p)) = B /\ pp (P s p) <> PWrite /\ pp (P s p) <> PReady) ->
  cinv B s' -> (cdrop (C s') = true -> act (G s) = []) -> monitors_ok s' = true -> Inv s'.
Proof.
  intros Hi PS L0 EH LV TCK HK0 RNG PTR OLD HD ABS HX HC HDr HM.
  pose proof PS as (E1 & E2 & E3 & E4 & E5 & E6 & E7 & E8 & E9 & E10 & E11).
  assert (NR : nres B s' = nres B s) by (unfold nres; rewrite E2, E3, E8; reflexivity).
  assert (BO : forall k, live s k -> k <> k0 -> blkof s' k = blkof s k).
  { intros k L N. unfold blkof, blk_at. rewrite EH, E6. apply hget_upd_neq. intros e. apply N. apply (I_inj _ _ Hi); auto. }
  assert (RV : forall j, rv s' j = rv s j) by (intros; unfold rv; rewrite E5; reflexivity).
  assert (NL : nlin B s' = nlin B s).
  { unfold nlin. rewrite E2, E3, E8. destruct (tc (M s)) eqn:T; [|reflexivity]. cbn [andb].
    destruct (I_cl _ _ Hi T) as [[_ IF] _]. destruct (inflight_live s _ Hi IF) as [_ LT1].
    assert (LT : live s (gtk (G s))) by (destruct LT1; destruct (I_rng _ _ Hi) as (?&?&?&?&?&?); split; lia).
    rewrite (BO _ LT) by (intros e; apply (TCK eq_refl); auto). reflexivity. }
  pose proof Hi as Hi'. destruct Hi. constructor.
  - rewrite E2, E3. auto.
  - rewrite E5, NR. auto.
  - destruct RNG as (R1 & R2 & R3 & R4). destruct I_rng as (O1 & O2 & O3 & O4 & O5 & O6). rewrite E3, E7, E8 in *. rsplit; auto.
  - intros k L. apply LV in L. destruct L as [L N]. rewrite (BO k L N), E6. destruct (I_al k L) as (A1 & A2 & A3). rsplit; auto.
    rewrite EH. rewrite upd_neq; auto; try (intros e; apply N; apply I_inj; auto).
  - intros k k' L L'. apply LV in L. apply LV in L'. rewrite E6. destruct L, L'. auto.
  - intros a Ha. rewrite EH. destruct (Nat.eq_dec a (badr (G s) k0)) as [->|n]; [apply upd_eq|]. rewrite upd_neq by auto.
    apply I_fr. intros k L. destruct (Nat.eq_dec k k0) as [->|nk]; [auto|]. rewrite <- E6. apply Ha. apply LV. auto.
  - intros k L Lk. apply LV in L. destruct L as [L N]. rewrite (BO k L N), E6. rewrite E8 in Lk. auto.
  - intros k i L Li Ln. apply LV in L. destruct L as [L N]. rewrite (BO k L N). rewrite NR in Ln. auto.
  - intros k i L Li R. apply LV in L. destruct L as [L N]. rewrite (BO k L N) in *. rewrite RV, NL. auto.
  - split; [rewrite E1, E6, E8; apply I_ptr | exact PTR].
  - exact OLD.
  - rewrite NL. exact HD.
  - rewrite NL. destruct ABS as [A1 A2]. split.
    + rewrite A1. apply map_seq_ext. intros; symmetry; apply RV.
    + rewrite A2. apply map_seq_ext. intros; symmetry; apply RV.
  - intros p. apply (pinv_cstep s); auto. intros IF. destruct (HK0 p IF) as [N1 N2].
    destruct (inflight_live s p Hi' IF) as [LG LS]. split; apply BO; auto.
  - intros p. rewrite E4, E10. auto.
  - rewrite E3, E4, E8, E9. auto.
  - exact HC.
  - intros D. rewrite E10. auto.
  - rewrite E11, E7. auto.
  - exact HM.
Qed.

Lemma hfree_some s a b : heap (M s) a = Some b ->
  hfree s a = s_G (s_M s (m_heap (M s) (upd (heap (M s)) a None))) (g_nfree (G s) (S (nfree (G s)))).
Proof. unfold hfree. now intros ->. Qed.

Ltac cfin Hi :=
  match goal with
  | |- oldrel _ => unfold oldrel; sp; auto
  | |- _ /\ hpos _ _ => split; [auto; try lia | unfold hpos; sp; auto; try lia]
  | |- cinv _ _ => unfold cinv, dropst; sp; auto
  | |- cdrop _ = true -> _ => sp; apply (I_dr _ _ Hi)
  | _ => idtac
  end.

Lemma pres_c_free s : Inv s -> cp (C s) = CFree -> Inv (c_free true s).
Proof.
  intros Hi Ecp. assert (Hp : pcls (cp (C s)) <= 2) by (rewrite Ecp; cbn; lia).
  destruct (I_hd _ _ Hi) as [HL HP]. unfold hpos in HP. rewrite Ecp in HP.
  pose proof (I_mon _ _ Hi) as MON. destruct (I_abs _ _ Hi) as [AQ AP]. destruct (I_rng _ _ Hi) as (R1 & R2 & R3 & R4 & R5 & R6).
  destruct (I_ptr _ _ Hi) as [T1 T2]. pose proof (I_old _ _ Hi) as OLD. unfold oldrel in OLD. rewrite Ecp in OLD.
  pose proof (fun p => inflight_ahead s p Hi) as HXX. pose proof (nlin_le_nres B Bpos s) as LN. destruct (I_ti _ _ Hi) as [TI1 TI2].
  assert (GK : ghk (G s) <= gtk (G s)).
  { destruct (nres_cases B Bpos s) as [[_ N]|[_ N]]; destruct (le_lt_dec (ghk (G s)) (gtk (G s))); auto; exfalso; nia. }
  assert (LG : live s (glo (G s))) by (unfold live; rewrite (lhi_nblk B Bpos s Hp); lia).
  destruct (I_al _ _ Hi _ LG) as (AL1 & AL2 & AL3).
  unfold c_free. sp. destruct (oldb (M s) =? 0) eqn:EO; bools.
  - (* nothing parked yet *)
    assert (GL : glo (G s) = ghk (G s)) by (destruct OLD as [[_ ?]|[? _]]; [auto | congruence]).
    apply (inv_cmove s); auto; sp; auto; try lia; cside Ecp MON; cfin Hi.
  - (* the block parked one block ago is freed *)
    destruct OLD as [[? _]|[O1 O2]]; [congruence|].
    rewrite O1. rewrite (hfree_some s _ _ (issome_hget _ _ AL1)). sp.
    apply (inv_cfree s _ (glo (G s))); auto; sp; auto; try lia; cside Ecp MON; cfin Hi.
    + intros k. unfold live, lhi. sp. rewrite Ecp. lia.
    + intros p IF. destruct (HXX p IF) as [HH | (S1 & N1 & N2)].
      * unfold pslot in HH. split; [|lia]. intros e. rewrite <- e in HH.
        pose proof (I_p _ _ Hi p) as Pp. unfold pinv, inflight in *. destruct (pp (P s p)) eqn:Ep; try discriminate.
        1,2: destruct Pp as [(W1 & _) _]; nia.
        all: destruct Pp as [(_ & _ & K & _) _]; lia.
      * pose proof (I_p _ _ Hi p) as Pp. unfold pinv, inflight in *. destruct (pp (P s p)) eqn:Ep; try discriminate; try congruence.
        all: destruct Pp as [(_ & _ & K & _) _]; lia.
Qed.

Lemma pres_d_free1 s : Inv s -> cp (C s) = DFree1 -> Inv (d_free1 s).
Proof.
  intros Hi Ecp. assert (Hp : pcls (cp (C s)) <= 2) by (rewrite Ecp; cbn; lia).
  pose proof (I_c _ _ Hi) as Hc. unfold cinv in Hc. rewrite Ecp in Hc. destruct Hc as [[D [K KH]] [H1 H2]].
  destruct (drop_idle B Bpos s Hi D) as [IDL TF].
  destruct (I_hd _ _ Hi) as [HL HP]. unfold hpos in HP. rewrite Ecp in HP.
  pose proof (I_mon _ _ Hi) as MON. destruct (I_abs _ _ Hi) as [AQ AP]. destruct (I_rng _ _ Hi) as (R1 & R2 & R3 & R4 & R5 & R6).
  destruct (I_ptr _ _ Hi) as [T1 T2]. pose proof (I_old _ _ Hi) as OLD. unfold oldrel in OLD. rewrite Ecp in OLD.
  destruct (live_tail' B Bpos s Hi Hp) as [LT LT1]. destruct (I_al _ _ Hi _ LT1) as (AL1 & AL2 & AL3).
  specialize (R6 TF).
  assert (NIF : forall p, inflight (P s p) = true -> False) by (intros p IF; unfold inflight in IF; rewrite IDL in IF; discriminate).
  unfold d_free1. cbv zeta. rewrite H2.
  rewrite (hfree_some s _ _ (issome_hget _ _ AL1)). sp.
  apply (inv_cfree s _ (S (gtk (G s)))); auto; sp; auto; try lia; cside Ecp MON; cfin Hi.
  all: try (intros k; unfold live, lhi; sp; rewrite Ecp; lia).
  all: try congruence.
  all: try (intros p IF; destruct (NIF p IF)).
Qed.

Lemma pres_d_free2 s : Inv s -> cp (C s) = DFree2 -> Inv (d_free2 s).
Proof.
  intros Hi Ecp.
  pose proof (I_c _ _ Hi) as Hc. unfold cinv in Hc. rewrite Ecp in Hc. destruct Hc as [[D [K KH]] H1].
  destruct (drop_idle B Bpos s Hi D) as [IDL TF].
  destruct (I_hd _ _ Hi) as [HL HP]. unfold hpos in HP. rewrite Ecp in HP.
  pose proof (I_mon _ _ Hi) as MON. destruct (I_abs _ _ Hi) as [AQ AP]. destruct (I_rng _ _ Hi) as (R1 & R2 & R3 & R4 & R5 & R6).
  destruct (I_ptr _ _ Hi) as [T1 T2]. pose proof (I_old _ _ Hi) as OLD. unfold oldrel in OLD. rewrite Ecp in OLD.
  assert (LT : live s (gtk (G s))) by (unfold live, lhi; rewrite Ecp; lia).
  destruct (I_al _ _ Hi _ LT) as (AL1 & AL2 & AL3).
  assert (NIF : forall p, inflight (P s p) = true -> False) by (intros p IF; unfold inflight in IF; rewrite IDL in IF; discriminate).
  unfold d_free2. cbv zeta. rewrite H1.
  rewrite (hfree_some s _ _ (issome_hget _ _ AL1)). sp.
  apply (inv_cfree s _ (gtk (G s))); auto; sp; auto; try lia; cside Ecp MON; cfin Hi.
  all: try (intros k; unfold live, lhi; sp; rewrite Ecp; lia).
  all: try congruence.
  all: try (intros p IF; destruct (NIF p IF)).
Qed.

Lemma pres_d_old s : Inv s -> cp (C s) = DOld -> Inv (d_old s).
Proof.
  intros Hi Ecp.
  pose proof (I_c _ _ Hi) as Hc. unfold cinv in Hc. rewrite Ecp in Hc. destruct Hc as [D [K KH]].
  destruct (drop_idle B Bpos s Hi D) as [IDL TF].
  destruct (I_hd _ _ Hi) as [HL HP]. unfold hpos in HP. rewrite Ecp in HP.
  pose proof (I_mon _ _ Hi) as MON. destruct (I_abs _ _ Hi) as [AQ AP]. destruct (I_rng _ _ Hi) as (R1 & R2 & R3 & R4 & R5 & R6).
  destruct (I_ptr _ _ Hi) as [T1 T2]. pose proof (I_old _ _ Hi) as OLD. unfold oldrel in OLD. rewrite Ecp in OLD.
  assert (NIF : forall p, inflight (P s p) = true -> False) by (intros p IF; unfold inflight in IF; rewrite IDL in IF; discriminate).
  unfold d_old. sp. destruct (oldb (M s) =? 0) eqn:EO; bools.
  - assert (GL : glo (G s) = ghk (G s)).
    { destruct OLD as [[_ ?]|[O1 O2]]; auto. exfalso. assert (LG : live s (glo (G s))) by (unfold live, lhi; rewrite Ecp; lia).
      destruct (I_al _ _ Hi _ LG) as (_ & _ & NZ). congruence. }
    apply (inv_cmove s); auto; sp; auto; try lia; cside Ecp MON; cfin Hi.
    + intros p IF. destruct (NIF p IF).
  - destruct OLD as [[? _]|[O1 O2]]; [congruence|].
    assert (LG : live s (glo (G s))) by (unfold live, lhi; rewrite Ecp; lia).
    destruct (I_al _ _ Hi _ LG) as (AL1 & AL2 & AL3).
    rewrite O1. rewrite (hfree_some s _ _ (issome_hget _ _ AL1)). sp.
    apply (inv_cfree s _ (glo (G s))); auto; sp; auto; try lia; cside Ecp MON; cfin Hi.
    all: try (intros k; unfold live, lhi; sp; rewrite Ecp; lia).
    all: try congruence.
    all: try (intros p IF; destruct (NIF p IF)).
Qed.
End S.
