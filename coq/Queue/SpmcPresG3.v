(* C04 - preservation of the invariant, part 3: live blocks (used counters, next pointers, slot contents) and
   the liveness of every logical block that still has an unreleased slot. *)
From Coq Require Import List Arith Bool Lia.
Import ListNotations.
Require Import MayV.Queue.SpmcModel MayV.Queue.SpmcInv MayV.Queue.SpmcTac MayV.Queue.SpmcFacts.
Section S.
Variable B : nat. Variable reuse : bool. Hypothesis Bpos : 1 <= B.
Notation step := (step B reuse). Notation Inv := (Inv B).

Definition bk_clause (s : st) (b : nat) : Prop :=
        let k := bno (heap s b) in
        k < nblk s /\ badr s k = b /\ bstart (heap s b) = k * B /\ 0 < used (heap s b) /\
        used (heap s b) = cntu (rl s) (k * B) B /\
        (S k < nblk s -> next (heap s b) = Some (badr s (S k))) /\
        (forall j, j < B -> k * B + j < length (pushed s) -> slots (heap s b) j = val_at s (k * B + j)).

Lemma pres_IBk s ac s' : Inv s -> step s ac = Some s' -> forall b, alive (heap s' b) = true -> bk_clause s' b.
Proof.
  intros Hi H b Al. pose proof (IBk _ _ Hi b) as K. fold (bk_clause s b) in K. unfold bk_clause in *.
  destruct (tail_facts _ Bpos _ Hi) as (TA & TB). destruct (ITl _ _ Hi) as (T1 & T2 & T3). cbn zeta in *.
  pose proof (pred_mul _ Bpos _ T1) as PM.
  unfold val_at in *.
  step_cases H; simp; auto.
  all: try (a_facts Hi a).
  all: try (assert (a = 0) by (destruct (Nat.eq_dec a 0) as [|Hne]; [assumption | owner_only Ha Hne]); subst a).
  all: try match goal with E : pc (A _ 0) = _ |- _ => rewrite E in *; cbn beta iota in * end.
  - (* OW, block end *)
    destruct T3 as (T3 & T4). rewrite app_length; cbn [length].
    destruct (Nat.eq_dec b (tbk s)) as [->|Hb].
    + rewrite upd_eq in *. simp. specialize (K Al). destruct K as (K1 & K2 & K3 & K4 & K5 & K6 & K7).
      repeat split; auto. intros j Hj Hlt. rewrite TB in *.
      replace (tix s) with ((nblk s - 1) * B + (tix s - (nblk s - 1) * B)) at 1 by lia. rewrite mod_block by (auto; lia).
      destruct (Nat.eq_dec j (tix s - (nblk s - 1) * B)) as [->|Hj2].
      * rewrite upd_eq. replace ((nblk s - 1) * B + (tix s - (nblk s - 1) * B)) with (length (pushed s)) by lia.
        rewrite nth_error_app2 by lia. rewrite Nat.sub_diag. reflexivity.
      * rewrite upd_neq by auto. rewrite nth_error_app1 by lia. apply K7; auto. lia.
    + rewrite upd_neq in * by auto. specialize (K Al). destruct K as (K1 & K2 & K3 & K4 & K5 & K6 & K7).
      repeat split; auto. intros j Hj Hlt.
      assert (bno (heap s b) * B + j <> tix s).
      { intro Q. apply Hb. rewrite <- K2, T2. f_equal. apply (block_uniq B Bpos _ _ (tix s)); lia. }
      rewrite nth_error_app1 by lia. apply K7; auto. lia.
  - (* OW *)
    destruct T3 as (T3 & T4). rewrite app_length; cbn [length].
    destruct (Nat.eq_dec b (tbk s)) as [->|Hb].
    + rewrite upd_eq in *. simp. specialize (K Al). destruct K as (K1 & K2 & K3 & K4 & K5 & K6 & K7).
      repeat split; auto. intros j Hj Hlt. rewrite TB in *.
      replace (tix s) with ((nblk s - 1) * B + (tix s - (nblk s - 1) * B)) at 1 by lia. rewrite mod_block by (auto; lia).
      destruct (Nat.eq_dec j (tix s - (nblk s - 1) * B)) as [->|Hj2].
      * rewrite upd_eq. replace ((nblk s - 1) * B + (tix s - (nblk s - 1) * B)) with (length (pushed s)) by lia.
        rewrite nth_error_app2 by lia. rewrite Nat.sub_diag. reflexivity.
      * rewrite upd_neq by auto. rewrite nth_error_app1 by lia. apply K7; auto. lia.
    + rewrite upd_neq in * by auto. specialize (K Al). destruct K as (K1 & K2 & K3 & K4 & K5 & K6 & K7).
      repeat split; auto. intros j Hj Hlt.
      assert (bno (heap s b) * B + j <> tix s).
      { intro Q. apply Hb. rewrite <- K2, T2. f_equal. apply (block_uniq B Bpos _ _ (tix s)); lia. }
      rewrite nth_error_app1 by lia. apply K7; auto. lia.
  - (* ON: the new block at address x, tail.next := x *)
    bools. destruct T3 as (T3 & T4).
    assert (Hx : x <> tbk s) by (intro Q; subst x; congruence).
    destruct (Nat.eq_dec b x) as [->|Hbx].
    + rewrite (upd_neq _ (tbk s) x) by auto. rewrite upd_eq. cbn [fresh_blk bno bstart used next slots alive].
      repeat split; auto; try lia.
      * rewrite upd_eq. reflexivity.
      * symmetry. apply (cntu_all_false B Bpos). intros i Hi'. apply (unrel_tix _ Bpos); auto. lia.
    + destruct (Nat.eq_dec b (tbk s)) as [->|Hbt].
      * rewrite upd_eq in *. rewrite (upd_neq _ x (tbk s)) in * by auto. simp.
        specialize (K Al). destruct K as (K1 & K2 & K3 & K4 & K5 & K6 & K7). rewrite TB in *.
        repeat split; auto; try lia.
        -- rewrite upd_neq by lia. auto.
        -- intros _. replace (S (nblk s - 1)) with (nblk s) by lia. rewrite upd_eq. reflexivity.
      * rewrite upd_neq in * by auto. rewrite upd_neq in * by auto.
        specialize (K Al). destruct K as (K1 & K2 & K3 & K4 & K5 & K6 & K7).
        assert (S (bno (heap s b)) <> nblk s).
        { intro Q. apply Hbt. rewrite <- K2, T2. f_equal. lia. }
        repeat split; auto; try lia.
        -- rewrite upd_neq by lia. auto.
        -- intros Hlt. rewrite upd_neq by lia. apply K6. lia.
  - (* XM: release *)
    destruct Ha as (_ & _ & _ & Hc & Pp & Pe & _).
    destruct (claim_facts _ Bpos _ _ _ Hi Hc) as (F1 & F2 & F3 & F4 & F5 & F6 & F7 & F8 & F9).
    destruct Hc as (C1 & C2 & C3 & C4 & C5). rewrite Pp, Pe in *.
    assert (RL : ghi (A s a) - glo (A s a) <= used (heap s (lb (A s a)))).
    { apply (release_le B); auto; try lia. intros j Hj. apply C5; lia. }
    pose proof (cntu_updr (rl s) (bno (heap s (lb (A s a))) * B) B (glo (A s a)) (ghi (A s a)) F4 ltac:(lia) F6 ltac:(intros j Hj; apply C5; lia)) as CU.
    destruct (Nat.eq_dec b (lb (A s a))) as [->|Hb].
    + rewrite upd_eq in *. simp. bools. specialize (K C2). destruct K as (K1 & K2 & K3 & K4 & K5 & K6 & K7).
      repeat split; auto; lia.
    + rewrite upd_neq in * by auto. specialize (K Al). destruct K as (K1 & K2 & K3 & K4 & K5 & K6 & K7).
      repeat split; auto. rewrite K5. apply cntu_ext. intros i Hi'. rewrite updr_out; auto.
      intro Q. apply Hb. rewrite <- K2, <- F2. f_equal. apply (block_uniq B Bpos _ _ i); lia.
  - (* XM: release *)
    destruct Ha as (_ & _ & _ & Hc & Pp & Pe & _).
    destruct (claim_facts _ Bpos _ _ _ Hi Hc) as (F1 & F2 & F3 & F4 & F5 & F6 & F7 & F8 & F9).
    destruct Hc as (C1 & C2 & C3 & C4 & C5). rewrite Pp, Pe in *.
    assert (RL : ghi (A s a) - glo (A s a) <= used (heap s (lb (A s a)))).
    { apply (release_le B); auto; try lia. intros j Hj. apply C5; lia. }
    pose proof (cntu_updr (rl s) (bno (heap s (lb (A s a))) * B) B (glo (A s a)) (ghi (A s a)) F4 ltac:(lia) F6 ltac:(intros j Hj; apply C5; lia)) as CU.
    destruct (Nat.eq_dec b (lb (A s a))) as [->|Hb].
    + rewrite upd_eq in *. simp. bools. specialize (K C2). destruct K as (K1 & K2 & K3 & K4 & K5 & K6 & K7).
      repeat split; auto; lia.
    + rewrite upd_neq in * by auto. specialize (K Al). destruct K as (K1 & K2 & K3 & K4 & K5 & K6 & K7).
      repeat split; auto. rewrite K5. apply cntu_ext. intros i Hi'. rewrite updr_out; auto.
      intro Q. apply Hb. rewrite <- K2, <- F2. f_equal. apply (block_uniq B Bpos _ _ i); lia.
  - exfalso; lia.
Qed.

Lemma pres_ILv s ac s' : Inv s -> step s ac = Some s' ->
  forall k i, k < nblk s' -> k * B <= i < k * B + B -> rl s' i = false ->
  alive (heap s' (badr s' k)) = true /\ bno (heap s' (badr s' k)) = k.
Proof.
  intros Hi H k i Hk Hi' Hr. pose proof (ILv _ _ Hi k i) as L.
  destruct (tail_facts _ Bpos _ Hi) as (TA & TB). destruct (ITl _ _ Hi) as (T1 & T2 & T3). cbn zeta in *.
  step_cases H; simp; auto.
  all: try (a_facts Hi a).
  - (* OW *) specialize (L Hk Hi' Hr). destruct L. destruct (Nat.eq_dec (badr s k) (tbk s)) as [e|ne]; [rewrite e in *; rewrite upd_eq | rewrite upd_neq by auto]; simp; auto.
  - specialize (L Hk Hi' Hr). destruct L. destruct (Nat.eq_dec (badr s k) (tbk s)) as [e|ne]; [rewrite e in *; rewrite upd_eq | rewrite upd_neq by auto]; simp; auto.
  - (* ON *) bools. assert (Hx : x <> tbk s) by (intro Q; subst x; congruence).
    destruct (Nat.eq_dec k (nblk s)) as [->|Hkn].
    + rewrite upd_eq. rewrite (upd_neq _ (tbk s) x) by auto. rewrite upd_eq. cbn. auto.
    + rewrite (upd_neq _ (nblk s) k) by auto. specialize (L ltac:(lia) Hi' Hr). destruct L as [L1 L2].
      assert (badr s k <> x) by (intro Q; rewrite Q in *; congruence).
      destruct (Nat.eq_dec (badr s k) (tbk s)) as [e|ne]; [rewrite e in *; rewrite upd_eq; rewrite upd_neq by auto | rewrite !upd_neq by auto]; simp; auto.
  - (* XM *)
    destruct Ha as (_ & _ & _ & Hc & Pp & Pe & _).
    destruct (claim_facts _ Bpos _ _ _ Hi Hc) as (F1 & F2 & F3 & F4 & F5 & F6 & F7 & F8 & F9).
    destruct Hc as (C1 & C2 & C3 & C4 & C5). rewrite Pp, Pe in *.
    updr_all; [discriminate|]. specialize (L Hk Hi' Hr). destruct L as [L1 L2].
    destruct (Nat.eq_dec (badr s k) (lb (A s a))) as [e|ne]; [rewrite e in *; rewrite upd_eq | rewrite upd_neq by auto]; simp; auto.
    split; auto. rewrite C2. cbn [andb]. apply negb_true_iff, Nat.eqb_neq.
    assert (ghi (A s a) - glo (A s a) < used (heap s (lb (A s a)))).
    { apply (release_used B) with (i := i); auto; try lia. intros j Hj. apply C5; lia. }
    lia.
  - (* XM *)
    destruct Ha as (_ & _ & _ & Hc & Pp & Pe & _).
    destruct (claim_facts _ Bpos _ _ _ Hi Hc) as (F1 & F2 & F3 & F4 & F5 & F6 & F7 & F8 & F9).
    destruct Hc as (C1 & C2 & C3 & C4 & C5). rewrite Pp, Pe in *.
    updr_all; [discriminate|]. specialize (L Hk Hi' Hr). destruct L as [L1 L2].
    destruct (Nat.eq_dec (badr s k) (lb (A s a))) as [e|ne]; [rewrite e in *; rewrite upd_eq | rewrite upd_neq by auto]; simp; auto.
    split; auto. rewrite C2. cbn [andb]. apply negb_true_iff, Nat.eqb_neq.
    assert (ghi (A s a) - glo (A s a) < used (heap s (lb (A s a)))).
    { apply (release_used B) with (i := i); auto; try lia. intros j Hj. apply C5; lia. }
    lia.
  - exfalso; lia.
Qed.
End S.
