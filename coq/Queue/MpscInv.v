From Coq Require Import List Arith Bool Lia.
Import ListNotations.
Require Import MayV.Queue.MpscCore.

Section I.
Variable B : nat.
Hypothesis Bpos : 1 <= B.
Notation step := (step B).
Notation Reach := (Reach B).

Definition res (s : st) := tk s * B + ti s + (if tc s then 1 else 0).
Definition lpb (s : st) := tk s * B + ti s + (if tc s && srdy s (tk s * B + ti s) then 1 else 0).
Definition slot (x : pst) := lk x * B + li x.
Definition inflight (x : pst) := match pp x with PWrite | PReady | PStore => true | _ => false end.

Definition pinv (s : st) (p : nat) : Prop :=
  let x := P s p in
  match pp x with
  | PIdle | PLoad | PCas => True
  | PWrite => li x < B /\ slot x < res s /\ rv s (slot x) = pv x /\ srdy s (slot x) = false /\
              (S (li x) = B -> lk x = tk s /\ li x = ti s /\ tc s = true)
  | PReady => li x < B /\ slot x < res s /\ rv s (slot x) = pv x /\ srdy s (slot x) = false /\ sval s (slot x) = Some (pv x) /\
              (S (li x) = B -> lk x = tk s /\ li x = ti s /\ tc s = true)
  | PStore => S (li x) = B /\ lk x = tk s /\ li x = ti s /\ tc s = true /\ srdy s (slot x) = true
  end.

Record Inv (s : st) : Prop := {
  IA : ti s < B /\ (tc s = true -> S (ti s) = B);
  IB : forall j, res s <= j -> sval s j = None /\ srdy s j = false;
  IC : forall j, srdy s j = true -> sval s j = Some (rv s j) /\ j < lpb s;
  ID : forall p, pinv s p;
  IU : forall p p', p <> p' -> inflight (P s p) = true -> inflight (P s p') = true -> slot (P s p) <> slot (P s p');
  IE : hidx s <= lpb s;
  IF : absq s = map (rv s) (seq (hidx s) (lpb s - hidx s));
  IG : cp s = CCommit -> srdy s (hidx s) = true /\ cv s = rv s (hidx s);
  IH : cp s = CTail -> saw s = true \/ hidx s < tk s * B + ti s;
  IM : bad_none s = false /\ bad_fifo s = false
}.

Lemma upd_eq {X} (f : nat -> X) i v : upd f i v i = v.
Proof. unfold upd. now rewrite Nat.eqb_refl. Qed.
Lemma upd_neq {X} (f : nat -> X) i j v : j <> i -> upd f i v j = f j.
Proof. unfold upd. intros H. destruct (Nat.eqb_spec j i); congruence. Qed.

Lemma uniq_rep k i k' i' : i < B -> i' < B -> k * B + i = k' * B + i' -> k = k' /\ i = i'.
Proof.
  intros Hi Hi' E.
  assert (k = k').
  { destruct (Nat.lt_trichotomy k k') as [L|[Eq|L]]; auto; exfalso; nia. }
  subst. split; auto. lia.
Qed.

Lemma inv_init : Inv (init).
Proof.
  constructor; unfold res, lpb, pinv; cbn; intros; try discriminate; try tauto; try lia; auto.
Qed.
End I.
