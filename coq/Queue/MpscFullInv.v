(* Inductive invariant of the full mpsc model (delay = true), helper lemmas, and the invariant in the initial state. *)
From Coq Require Import List Arith Bool Lia.
Import ListNotations.
Require Import MayV.Queue.MpscFullModel.

(* ---------------------------------------------------------------- lists *)
Lemma nth_app_old {X} (l : list X) x d j : j < length l -> nth j (l ++ [x]) d = nth j l d.
Proof. intros. now apply app_nth1. Qed.
Lemma nth_app_new {X} (l : list X) x d : nth (length l) (l ++ [x]) d = x.
Proof. rewrite app_nth2; [|lia]. now rewrite Nat.sub_diag. Qed.
Lemma map_seq_ext (f g : nat -> nat) a n : (forall j, a <= j -> j < a + n -> f j = g j) -> map f (seq a n) = map g (seq a n).
Proof.
  revert a. induction n as [|n IH]; intros a H; cbn; auto. f_equal; [apply H; lia|]. apply IH. intros. apply H; lia.
Qed.
Lemma firstn_map_seq (f : nat -> nat) a n m : n <= m -> firstn n (map f (seq a m)) = map f (seq a n).
Proof.
  intros. replace m with (n + (m - n)) by lia. rewrite seq_app, map_app.
  rewrite firstn_app. rewrite map_length, seq_length, Nat.sub_diag. cbn. rewrite app_nil_r.
  rewrite firstn_all2; auto. now rewrite map_length, seq_length.
Qed.
Lemma skipn_map_seq (f : nat -> nat) a n m : n <= m -> skipn n (map f (seq a m)) = map f (seq (a + n) (m - n)).
Proof.
  intros. replace m with (n + (m - n)) at 1 by lia. rewrite seq_app, map_app.
  rewrite skipn_app. rewrite map_length, seq_length, Nat.sub_diag. cbn.
  rewrite skipn_all2; [|now rewrite map_length, seq_length]. reflexivity.
Qed.
Lemma map_seq_snoc (f : nat -> nat) a n : map f (seq a (S n)) = map f (seq a n) ++ [f (a + n)].
Proof. rewrite seq_S, map_app. reflexivity. Qed.
Lemma map_seq_app (f : nat -> nat) a n m : map f (seq a n) ++ map f (seq (a + n) m) = map f (seq a (n + m)).
Proof. now rewrite seq_app, map_app. Qed.
Lemma list_eqb_refl l : list_eqb l l = true.
Proof. induction l; cbn; auto. now rewrite Nat.eqb_refl. Qed.
Lemma In_remove_nat x y l : In x l -> x <> y -> In x (remove_nat y l).
Proof.
  induction l as [|z l IH]; cbn; auto. intros [E|I] N.
  - subst. destruct (Nat.eqb_spec x y); [congruence|]. now left.
  - destruct (Nat.eqb z y); auto. right. auto.
Qed.

(* ---------------------------------------------------------------- heap *)
Lemma upd_eq {X} (f : nat -> X) i v : upd f i v i = v.
Proof. unfold upd. now rewrite Nat.eqb_refl. Qed.
Lemma upd_neq {X} (f : nat -> X) i j v : j <> i -> upd f i v j = f j.
Proof. unfold upd. intros H. destruct (Nat.eqb_spec j i); congruence. Qed.
Lemma hget_some h a b : h a = Some b -> hget h a = b.
Proof. unfold hget. now intros ->. Qed.
Lemma issome_hget h a : issome (h a) = true -> h a = Some (hget h a).
Proof. unfold hget. destruct (h a); cbn; congruence. Qed.

Lemma hget_mod_eq h a (f : blk -> blk) : issome (h a) = true -> hget (upd h a (option_map f (h a))) a = f (hget h a).
Proof. unfold hget. rewrite upd_eq. destruct (h a); cbn; congruence. Qed.
Lemma hget_upd_neq h a a' v : a' <> a -> hget (upd h a v) a' = hget h a'.
Proof. intros. unfold hget. now rewrite upd_neq. Qed.
Lemma hget_upd_same h a b : hget (upd h a (Some b)) a = b.
Proof. unfold hget. now rewrite upd_eq. Qed.
Lemma hget_mod h a (f : blk -> blk) a' : issome (h a) = true ->
  hget (upd h a (option_map f (h a))) a' = if Nat.eqb a' a then f (hget h a) else hget h a'.
Proof. intros H. destruct (Nat.eqb_spec a' a); [subst; now apply hget_mod_eq | now apply hget_upd_neq]. Qed.
Lemma issome_mod h a a' (f : blk -> blk) : issome (upd h a (option_map f (h a)) a') = issome (h a').
Proof. unfold upd. destruct (Nat.eqb_spec a' a); subst; auto. destruct (h a); reflexivity. Qed.
Lemma none_mod h a a' (f : blk -> blk) : h a' = None -> upd h a (option_map f (h a)) a' = None.
Proof. unfold upd. destruct (Nat.eqb_spec a' a); subst; auto. intros ->. reflexivity. Qed.

Section I.
Variable B : nat.
Hypothesis Bpos : 1 <= B.

(* ---------------------------------------------------------------- derived quantities *)
(* the k-th block of the chain *)
Definition blkof (s : st) (k : nat) : blk := blk_at s (badr (G s) k).
(* slots reserved so far / pushes linearised so far (they differ while the pusher of a last index has not yet published it) *)
Definition nres (s : st) : nat := gtk (G s) * B + ti (M s) + (if tc (M s) then 1 else 0).
Definition nlin (s : st) : nat :=
  gtk (G s) * B + ti (M s) + (if tc (M s) && brdy (blkof s (gtk (G s))) (ti (M s)) then 1 else 0).
(* value reserved for slot j *)
Definition rv (s : st) (j : nat) : nat := snd (nth j (rlog (G s)) (0, 0)).
(* the blocks that are allocated: logical numbers glo .. lhi-1 *)
Definition lhi (s : st) : nat :=
  match cp (C s) with DFree2 => S (gtk (G s)) | DOld | CDead => gtk (G s) | _ => nblk (G s) end.
Definition live (s : st) (k : nat) : Prop := glo (G s) <= k /\ k < lhi s.

Definition inflight (x : pst) : bool :=
  match pp x with PIdle | PLoad | PCas => false | _ => true end.
Definition pslot (x : pst) : nat := gk x * B + li x.

(* ---------------------------------------------------------------- per-pusher assertions *)
Definition pw_common (s : st) (p : nat) (x : pst) : Prop :=
  li x < B /\ lb x = badr (G s) (gk x) /\ gk x <= gtk (G s) /\ pslot x < nres s /\
  nth (pslot x) (rlog (G s)) (0, 0) = (p, pv x) /\ brdy (blkof s (gk x)) (li x) = false /\
  hidx (M s) <= pslot x /\
  (S (li x) = B -> gk x = gtk (G s) /\ tc (M s) = true /\ gcl (G s) = p /\ nblk (G s) = gtk (G s) + 2).
Definition pc_common (s : st) (p : nat) (x : pst) : Prop :=
  S (li x) = B /\ lb x = badr (G s) (gk x) /\ gk x = gtk (G s) /\ tc (M s) = true /\ gcl (G s) = p /\
  brdy (blkof s (gk x)) (li x) = true.

Definition pinv (s : st) (p : nat) : Prop :=
  let x := P s p in
  match pp x with
  | PIdle | PLoad | PCas => True
  | PWrite => pw_common s p x /\ bval (blkof s (gk x)) (li x) = None
  | PReady => pw_common s p x /\ bval (blkof s (gk x)) (li x) = Some (pv x)
  | PAlloc => pc_common s p x /\ nblk (G s) = gtk (G s) + 2
  | PNext => pc_common s p x /\ nblk (G s) = gtk (G s) + 3 /\ pnew x = badr (G s) (gtk (G s) + 2)
  | PLink => pc_common s p x /\ nblk (G s) = gtk (G s) + 3 /\ pnew x = badr (G s) (gtk (G s) + 2) /\
             pnx x = badr (G s) (S (gtk (G s)))
  | PStore => pc_common s p x /\ nblk (G s) = gtk (G s) + 3 /\ pnew x = badr (G s) (gtk (G s) + 2) /\
              pnx x = badr (G s) (S (gtk (G s))) /\
              bnext (blkof s (S (gtk (G s)))) = badr (G s) (gtk (G s) + 2)
  end.

(* ---------------------------------------------------------------- consumer assertions *)
(* what the consumer has read in this call: the slots hidx .. ck-1 of the head block, all ready *)
Definition crd (s : st) : Prop :=
  let c := C s in
  ck c = hidx (M s) + length (cacc c) /\
  (forall j, hidx (M s) <= j -> j < ck c -> brdy (blkof s (ghk (G s))) (j - ghk (G s) * B) = true) /\
  cacc c = map (rv s) (seq (hidx (M s)) (length (cacc c))).
Definition popbulk (o : op) : Prop := o = OPop \/ o = OBulk.
Definition dropst (s : st) : Prop :=
  cdrop (C s) = true /\ ghk (G s) = gtk (G s) /\ hidx (M s) = gtk (G s) * B + ti (M s).

Definition cinv (s : st) : Prop :=
  let c := C s in let m := M s in let g := G s in
  match cp c with
  | CIdle => cdrop c = false
  | CTry => popbulk (cop c) /\ crd s /\ ck c < S (ghk g) * B /\ (cop c = OPop -> cacc c = []) /\
            (cdrop c = true -> cop c = OPop)
  | CTail => cop c <> OLen /\ cacc c = [] /\ ck c = hidx m /\
             (cop c <> OPeek -> saw g = true \/ hidx m < gtk g * B + ti m) /\ (cdrop c = true -> cop c = OPop)
  | CSpin => cop c <> OLen /\ crd s /\ ck c < cend c /\ cend c <= gtk g * B + ti m /\ cend c <= S (ghk g) * B /\
             (cop c <> OBulk -> cend c = S (hidx m)) /\ (cdrop c = true -> cop c = OPop)
  | CCommit => popbulk (cop c) /\ crd s /\ 1 <= length (cacc c) /\ ck c <= S (ghk g) * B
  | CFree | CNext => True
  | CSetH => cnx c = badr g (S (ghk g)) /\ ghk g <= gtk g
  | CLenH => glen0 g <= length (absq g) /\ cdrop c = false
  | CLenT => clh c = hidx m /\ glen0 g <= length (absq g) /\ cdrop c = false
  | DHead => dropst s
  | DTail => dropst s /\ chd c = hblk m
  | DNext => dropst s /\ cblk c = taddr m
  | DFree1 => dropst s /\ cblk c = badr g (gtk g) /\ cnx c = badr g (S (gtk g))
  | DFree2 => dropst s /\ cblk c = badr g (gtk g)
  | DOld => dropst s
  | CDead => dropst s /\ glo g = ghk g
  end.

(* head position: inside the head block, or - between the commit at a block end and head.block.store - exactly at its end *)
Definition hpos (s : st) : Prop :=
  match cp (C s) with
  | CFree | CNext | CSetH => hidx (M s) = S (ghk (G s)) * B
  | _ => ghk (G s) * B <= hidx (M s) /\ hidx (M s) < S (ghk (G s)) * B
  end.
(* old_block: empty, or the block before the head block; while the consumer moves on it is the head block itself *)
Definition oldrel (s : st) : Prop :=
  match cp (C s) with
  | CNext | CSetH => oldb (M s) = hblk (M s) /\ glo (G s) = ghk (G s)
  | _ => (oldb (M s) = 0 /\ glo (G s) = ghk (G s)) \/
         (oldb (M s) = badr (G s) (glo (G s)) /\ S (glo (G s)) = ghk (G s))
  end.
Definition closer (x : pst) : Prop := S (li x) = B /\ inflight x = true.

Record Inv (s : st) : Prop := {
  I_ti : ti (M s) < B /\ (tc (M s) = true -> S (ti (M s)) = B);
  I_rl : length (rlog (G s)) = nres s;
  I_rng : glo (G s) <= ghk (G s) /\ glo (G s) <= gtk (G s) /\ ghk (G s) <= S (gtk (G s)) /\
          ghk (G s) <= S (glo (G s)) /\ gtk (G s) + 2 <= nblk (G s) /\
          (tc (M s) = false -> nblk (G s) = gtk (G s) + 2);
  I_al : forall k, live s k -> issome (heap (M s) (badr (G s) k)) = true /\ bstart (blkof s k) = k * B /\ badr (G s) k <> 0;
  I_inj : forall k k', live s k -> live s k' -> badr (G s) k = badr (G s) k' -> k = k';
  I_fr : forall a, (forall k, live s k -> badr (G s) k <> a) -> heap (M s) a = None;
  I_ch : forall k, live s k -> k <= gtk (G s) -> bnext (blkof s k) = badr (G s) (S k);
  I_sb : forall k i, live s k -> i < B -> nres s <= k * B + i -> bval (blkof s k) i = None /\ brdy (blkof s k) i = false;
  I_sc : forall k i, live s k -> i < B -> brdy (blkof s k) i = true ->
         bval (blkof s k) i = Some (rv s (k * B + i)) /\ k * B + i < nlin s;
  I_ptr : taddr (M s) = badr (G s) (gtk (G s)) /\ hblk (M s) = badr (G s) (ghk (G s));
  I_old : oldrel s;
  I_hd : hidx (M s) <= nlin s /\ hpos s;
  I_abs : absq (G s) = map (rv s) (seq (hidx (M s)) (nlin s - hidx (M s))) /\
          popped (G s) = map (rv s) (seq 0 (hidx (M s)));
  I_p : forall p, pinv s p;
  I_act : forall p, pp (P s p) <> PIdle -> In p (act (G s));
  I_cl : tc (M s) = true -> closer (P s (gcl (G s))) /\ gk (P s (gcl (G s))) = gtk (G s);
  I_c : cinv s;
  I_dr : cdrop (C s) = true -> act (G s) = [];
  I_cnt : nalloc (G s) = nblk (G s);
  I_mon : monitors_ok s = true
}.

(* ---------------------------------------------------------------- arithmetic *)
Lemma uniq_rep k i k' i' : i < B -> i' < B -> k * B + i = k' * B + i' -> k = k' /\ i = i'.
Proof.
  intros Hi Hi' E.
  assert (k = k').
  { destruct (Nat.lt_trichotomy k k') as [L|[Eq|L]]; auto; exfalso; nia. }
  subst. split; auto. lia.
Qed.
Lemma blk_of_le k k' i i' : i < B -> k * B + i <= k' * B + i' -> i' < B -> k <= k'.
Proof. intros. destruct (le_lt_dec k k'); auto. exfalso. nia. Qed.
Lemma div_blk k j : k * B <= j -> j < S k * B -> j / B = k.
Proof.
  intros H1 H2. symmetry. apply (Nat.div_unique j B k (j - k * B)); [lia|]. lia.
Qed.
Lemma mod_blk k j : k * B <= j -> j < S k * B -> j mod B = j - k * B.
Proof.
  intros H1 H2. symmetry. apply (Nat.mod_unique j B k (j - k * B)); [lia|]. lia.
Qed.
Lemma mod_end k : (S k * B) mod B = 0.
Proof. apply Nat.mod_mul. lia. Qed.
Lemma mod0_end k j : k * B < j -> j <= S k * B -> j mod B = 0 -> j = S k * B.
Proof.
  intros H1 H2 H3. destruct (Nat.eq_dec j (S k * B)); auto. exfalso.
  assert (j < S k * B) by lia. rewrite (mod_blk k j) in H3; lia.
Qed.
Lemma blkend_blk k j : k * B <= j -> j < S k * B -> blkend B j = S k * B.
Proof. intros. unfold blkend. rewrite (div_blk k j); auto. f_equal. lia. Qed.

(* ---------------------------------------------------------------- the initial state *)
Lemma inv_init : Inv (init B).
Proof.
  constructor; unfold nres, nlin, live, lhi, blkof, blk_at, rv, hpos, oldrel, cinv, pinv, closer, monitors_ok; cbn;
    intros; try discriminate; try tauto; try lia; auto.
  - destruct H as [_ H]. destruct k as [|[|k]]; cbn; try lia; repeat split; try lia; discriminate.
  - destruct a as [|[|[|a]]]; cbn; auto.
    + exfalso. apply (H 0); cbn; lia.
    + exfalso. apply (H 1); cbn; lia.
  - destruct H as [_ H]. destruct k as [|[|k]]; cbn in *; try lia; reflexivity.
  - destruct H as [_ H]. destruct k as [|[|k]]; cbn; try lia; auto.
  - destruct H as [_ H]. destruct k as [|[|k]]; cbn in *; try lia; discriminate.
Qed.
End I.
