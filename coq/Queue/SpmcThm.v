(* C04 - the invariant holds in every reachable state; the property theorems that follow from it. *)
From Coq Require Import List Arith Bool Lia.
Import ListNotations.
Require Import MayV.Queue.SpmcModel MayV.Queue.SpmcInv MayV.Queue.SpmcTac MayV.Queue.SpmcFacts
  MayV.Queue.SpmcPresG1 MayV.Queue.SpmcPresG2 MayV.Queue.SpmcPresG3 MayV.Queue.SpmcPresA1 MayV.Queue.SpmcPresA2.
Section S.
Variable B : nat. Variable reuse : bool. Hypothesis Bpos : 1 <= B.
Notation step := (step B reuse). Notation Inv := (Inv B). Notation Reach := (Reach B reuse).

Lemma inv_init : Inv (init B).
Proof.
  constructor; cbn.
  - split; [lia | reflexivity].
  - repeat split; lia.
  - intros b Hb. destruct (Nat.eqb_spec b 0); [subst; cbn | discriminate].
    repeat split; auto; try lia. symmetry. apply (cntu_all_false B Bpos). auto.
  - intros k i Hk _ _. assert (k = 0) by lia. subst. cbn. auto.
  - intros i. unfold HL. cbn. split; [congruence | lia].
  - intros i. split; discriminate.
  - discriminate.
  - intros a i v [].
  - constructor.
  - discriminate.
  - unfold lockpc. cbn. discriminate.
  - intros a. unfold ainv. cbn. repeat split; auto; try (intros [Q|Q]; discriminate); try (intros Q; discriminate).
  - auto.
Qed.

Lemma inv_step s ac s' : Inv s -> step s ac = Some s' -> Inv s'.
Proof.
  intros Hi H. constructor.
  - eapply pres_IHd; eauto.
  - eapply pres_ITl; eauto.
  - eapply pres_IBk; eauto.
  - eapply pres_ILv; eauto.
  - eapply pres_ICl; eauto.
  - eapply pres_IRd; eauto.
  - eapply pres_IPd; eauto.
  - eapply pres_IGt; eauto.
  - eapply pres_IGn; eauto.
  - eapply pres_IGr; eauto.
  - eapply pres_ILu; eauto.
  - intros a. destruct (Nat.eq_dec a (actor_of ac)) as [->|Hne].
    + eapply step_own; eauto.
    + eapply ainv_frame; eauto.
      * eapply step_other; eauto.
      * eapply step_stable; eauto.
  - eapply pres_IMn; eauto.
Qed.

Theorem inv_reach s : Reach s -> Inv s.
Proof. intros R. induction R; [apply inv_init | eapply inv_step; eauto]. Qed.

(* ---------------------------------------------------------------- (i) exactly once, only filled slots *)
(* the log of everything handed out: no logical slot twice; every entry is the value pushed at that
   logical index, which lies below tail.index (so the slot had been filled and published) *)
Theorem obtained_once_and_pushed s : Reach s ->
  NoDup (map gidx (got s)) /\
  forall a i v, In (a, i, v) (got s) -> i < tix s /\ v = nth_error (pushed s) i /\ exists w, v = Some w.
Proof.
  intros R. pose proof (inv_reach s R) as Hi. split; [exact (IGn _ _ Hi)|].
  intros a i v Hin. destruct (IGt _ _ Hi a i v Hin) as (G1 & G2 & G3 & G4). unfold val_at in G3.
  pose proof (len_pushed _ Bpos _ Hi) as LP. repeat split; auto.
  destruct (nth_error (pushed s) i) eqn:E; [exists n; congruence|]. apply nth_error_None in E. lia.
Qed.

(* the claims of two operations in flight never overlap, and a claimed slot that was not yet read is not in the log *)
Theorem claims_disjoint s a a' i : Reach s ->
  holds B (A s a) = true -> holds B (A s a') = true ->
  glo (A s a) <= i < ghi (A s a) -> glo (A s a') <= i < ghi (A s a') -> a = a'.
Proof.
  intros R H1 H2 I1 I2. pose proof (inv_reach s R) as Hi.
  destruct (holds_claim B s a Hi H1) as (_ & _ & _ & _ & C5). destruct (holds_claim B s a' Hi H2) as (_ & _ & _ & _ & D5).
  destruct (C5 i I1) as (Q1 & _). destruct (D5 i I2) as (Q2 & _). congruence.
Qed.
Theorem claimed_unread_not_obtained s a i : Reach s ->
  holds B (A s a) = true -> pc (A s a) <> XM -> glo (A s a) <= i < ghi (A s a) ->
  forall a' v, ~ In (a', i, v) (got s).
Proof.
  intros R H1 Hp I1 a' v Hin. pose proof (inv_reach s R) as Hi.
  destruct (holds_claim B s a Hi H1) as (_ & _ & _ & _ & C5). destruct (C5 i I1) as (_ & _ & Q).
  destruct (IGt _ _ Hi a' i v Hin) as (G1 & _). destruct (pc (A s a)); congruence.
Qed.
(* a claim is exactly the part of [old head, new head) it covers: everything below the head is claimed, nothing above *)
Theorem claimed_iff_below_head s i : Reach s -> (cl s i <> None <-> i < HL s).
Proof. intros R. exact (ICl _ _ (inv_reach s R) i). Qed.

(* ---------------------------------------------------------------- (ii) the values of one claim, in push order *)
(* after the slot read the values in hand are those pushed at the consecutive logical indices of the claim *)
Theorem batch_in_push_order s a : Reach s -> pc (A s a) = XM ->
  res (A s a) = map (fun i => nth_error (pushed s) i) (seq (glo (A s a)) (ghi (A s a) - glo (A s a))) /\
  glo (A s a) < ghi (A s a) <= tix s.
Proof.
  intros R E. pose proof (IAc _ _ (inv_reach s R) a) as Ha. unfold ainv in Ha. rewrite E in Ha.
  destruct Ha as (_ & _ & _ & (C1 & _) & Pp & Pe & Pt & Rs). split; [exact Rs | lia].
Qed.
(* what the call returns: pop / local_pop / bulk_pop hand out the batch as read; steal_into returns its
   last element and appends the others, in order, to the stealer's own queue *)
Theorem return_values s a x s' : Reach s -> pc (A s a) = XM -> step s (Step a x) = Some s' ->
  let batch := map (fun i => nth_error (pushed s) i) (seq (glo (A s a)) (ghi (A s a) - glo (A s a))) in
  if is_steal (kd (A s a))
  then rv (A s' a) = [nth_error (pushed s) (ghi (A s a) - 1)] /\
       dq (A s' a) = dq (A s a) ++ map (fun i => nth_error (pushed s) i) (seq (glo (A s a)) (ghi (A s a) - glo (A s a) - 1))
  else rv (A s' a) = batch.
Proof.
  intros R E H. destruct (batch_in_push_order s a R E) as (Rs & Rg). cbn zeta.
  unfold SpmcModel.step in H. rewrite E in H. destruct (is_steal (kd (A s a))) eqn:K; inversion H; subst; clear H; simp; rewrite upd_eq; simp.
  - rewrite Rs. set (n := ghi (A s a) - glo (A s a)) in *. assert (Hn : n = S (n - 1)) by lia.
    rewrite Hn at 1 2. rewrite seq_S, map_app. cbn [map]. rewrite rev_app_distr. cbn [rev app]. rewrite removelast_last.
    split; [f_equal; f_equal; lia | reflexivity].
  - exact Rs.
Qed.

(* ---------------------------------------------------------------- (iii) over-claims, unreachable branches *)
(* the "skip slot" branch of local_pop (tail.index.store(push_index + 1)) is unreachable, and so are the
   restoring store and the reload of tail.index for the owner *)
Theorem local_pop_never_skips s a : Reach s -> pc (A s a) <> LK /\ pc (A s a) <> LKr.
Proof.
  intros R. pose proof (IAc _ _ (inv_reach s R) a) as Ha. unfold ainv in Ha. split; intro E; rewrite E in Ha; tauto.
Qed.
Theorem local_pop_never_restores s a : Reach s -> kd (A s a) = KLocal -> pc (A s a) <> XR /\ pc (A s a) <> XT.
Proof.
  intros R K. pose proof (IAc _ _ (inv_reach s R) a) as Ha. unfold ainv in Ha. split; intro E; rewrite E in Ha; tauto.
Qed.
(* a claimer in the wait loop leaves it at its next load as soon as the owner has filled its range, and
   then completes in two more steps of its own, whatever the others do in between is irrelevant to
   enabledness: no step of a claimer after its CAS waits for anybody but the owner's pushes *)
Theorem claimed_completes_when_filled s a x : Reach s -> pc (A s a) = XW -> pend (A s a) <= tix s ->
  exists s1, step s (Step a x) = Some s1 /\ pc (A s1 a) = XG.
Proof.
  intros R E Hf. unfold SpmcModel.step. rewrite E. apply Nat.leb_le in Hf. rewrite Hf. eexists. split; [reflexivity|].
  simp. rewrite upd_eq. reflexivity.
Qed.
Theorem read_and_release_enabled s a x : Reach s -> (pc (A s a) = XG \/ pc (A s a) = XM) -> exists s1, step s (Step a x) = Some s1.
Proof.
  intros R [E|E]; unfold SpmcModel.step; rewrite E; [eexists; reflexivity|]. destruct (is_steal (kd (A s a))); eexists; reflexivity.
Qed.
(* while a claim reaches beyond tail.index the owner's local_pop answers None: its emptiness test holds *)
Theorem overclaim_means_owner_sees_empty s : Reach s -> tix s < HL s -> inpush (pc (A s 0)) = false ->
  hb s = tbk s /\ tix s mod B <= hi s.
Proof.
  intros R Ho Hp. pose proof (inv_reach s R) as Hi. destruct (ITl _ _ Hi) as (T1 & T2 & T3). cbn zeta in *.
  destruct (tail_facts _ Bpos _ Hi) as (TA & TB).
  destruct (Nat.eq_dec (hb s) (tbk s)) as [e|ne]; [destruct (Nat.le_gt_cases (tix s mod B) (hi s)); [auto|]|]; exfalso.
  - assert (HL s < tix s); [|lia]. destruct (pc (A s 0)); try discriminate; apply (head_below_tail B Bpos); auto; lia.
  - assert (HL s < tix s); [|lia]. destruct (pc (A s 0)); try discriminate; apply (head_below_tail B Bpos); auto; tauto.
Qed.

(* ---------------------------------------------------------------- (iv) memory *)
(* no operation of the model ever dereferences a freed block, underflows `used`, or follows a null next *)
Theorem memory_safe s : Reach s -> bad_uaf s = false /\ bad_under s = false /\ bad_null s = false.
Proof. intros R. exact (IMn _ _ (inv_reach s R)). Qed.
(* whoever owns a claim or the lock bit keeps its block alive *)
Theorem claimers_block_alive s a : Reach s -> holds B (A s a) = true \/ lockpc B (A s a) = true -> alive (heap s (lb (A s a))) = true.
Proof. intros R. apply lb_alive. exact (inv_reach s R). Qed.
(* a block is freed only by the release whose fetch_sub returned exactly the number of slots it released
   (used hits 0), and at that moment nobody else owns a claim or the lock in it *)
Theorem freed_only_when_unused s ac s' b : Reach s -> step s ac = Some s' ->
  alive (heap s b) = true -> alive (heap s' b) = false ->
  exists a x, ac = Step a x /\ pc (A s a) = XM /\ lb (A s a) = b /\ used (heap s b) = pend (A s a) - ppi (A s a) /\
  forall a', a' <> a -> holds B (A s a') = true \/ lockpc B (A s a') = true -> lb (A s a') <> b.
Proof.
  intros R H Al Dl. pose proof (inv_reach s R) as Hi.
  assert (Q : forall a', a' <> actor_of ac -> holds B (A s a') = true \/ lockpc B (A s a') = true -> lb (A s a') <> b).
  { intros a' Hne Hh E. destruct (step_stable B reuse Bpos s ac s' a' Hi H Hne) as (_ & _ & _ & S4 & _).
    destruct (S4 Hh) as (Q1 & _). congruence. }
  step_cases H; simp; try congruence.
  all: try (a_facts Hi a).
  - (* OW *) destruct (Nat.eq_dec b (tbk s)) as [->|ne]; [rewrite upd_eq in Dl | rewrite upd_neq in Dl by auto]; simp; congruence.
  - destruct (Nat.eq_dec b (tbk s)) as [->|ne]; [rewrite upd_eq in Dl | rewrite upd_neq in Dl by auto]; simp; congruence.
  - (* ON *) bools. assert (b <> x) by (intro; subst; congruence).
    destruct (Nat.eq_dec b (tbk s)) as [->|ne]; [rewrite upd_eq in Dl; rewrite upd_neq in Dl by auto | rewrite !upd_neq in Dl by auto]; simp; congruence.
  - (* XM *) destruct (Nat.eq_dec b (lb (A s a))) as [->|ne]; [rewrite upd_eq in Dl | rewrite upd_neq in Dl by auto; congruence]; simp.
    rewrite Al in Dl. cbn [andb] in Dl. apply negb_false_iff, Nat.eqb_eq in Dl. exists a, x. repeat split; auto.
  - destruct (Nat.eq_dec b (lb (A s a))) as [->|ne]; [rewrite upd_eq in Dl | rewrite upd_neq in Dl by auto; congruence]; simp.
    rewrite Al in Dl. cbn [andb] in Dl. apply negb_false_iff, Nat.eqb_eq in Dl. exists a, x. repeat split; auto.
  - exfalso; lia.
Qed.
(* the allocator only ever hands out an address that holds no live block *)
Theorem alloc_only_dead s a x s' : step s (Step a x) = Some s' -> pc (A s a) = ON -> alive (heap s x) = false.
Proof. intros H E. unfold SpmcModel.step in H. rewrite E in H. destruct (alive (heap s x)); [discriminate | reflexivity]. Qed.

(* ---------------------------------------------------------------- (v) nothing is lost *)
(* when no operation is in flight, every task pushed so far has been handed out or still lies in [head, tail) *)
Theorem quiescent_nothing_lost s : Reach s -> (forall a, pc (A s a) = Idle \/ pc (A s a) = Ext) ->
  HL s <= tix s /\ forall i, i < tix s -> (exists a v, In (a, i, v) (got s)) \/ HL s <= i.
Proof.
  intros R Q. pose proof (inv_reach s R) as Hi.
  assert (G : forall i, i < HL s -> exists a v, In (a, i, v) (got s)).
  { intros i Hl. apply (ICl _ _ Hi) in Hl. destruct (cl s i) as [a|] eqn:C; [|congruence].
    destruct (rd s i) eqn:Rd.
    - apply (IGr _ _ Hi) in Rd. apply in_map_iff in Rd. destruct Rd as ([[a' j] v] & E & Hin). unfold gidx in E; cbn in E. subst j. eauto.
    - assert (Rl : rl s i = false). { destruct (rl s i) eqn:E; auto. apply (IRd _ _ Hi) in E. congruence. }
      destruct (IPd _ _ Hi i a C Rl) as (Hh & _). unfold holds in Hh. destruct (Q a) as [E|E]; rewrite E in Hh; discriminate. }
  split.
  - destruct (Nat.le_gt_cases (HL s) (tix s)) as [L|L]; [exact L|]. exfalso.
    destruct (G (tix s) L) as (a & v & Hin). apply (IGt _ _ Hi) in Hin. lia.
  - intros i Hl. destruct (Nat.le_gt_cases (HL s) i); [right; auto | left; apply G; auto].
Qed.

(* a schedule that runs is a path of reachable states *)
Lemma run_reach l : forall s s', Reach s -> run B reuse s l = Some s' -> Reach s'.
Proof.
  induction l as [|a l IH]; cbn [run]; intros s s' R H; [inversion H; subst; exact R|].
  destruct (step s a) as [s1|] eqn:E; [|discriminate]. eapply IH; [eapply RS; eauto | exact H].
Qed.
End S.
