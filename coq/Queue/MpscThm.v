From Coq Require Import List Arith Bool Lia.
Import ListNotations.
Require Import MayV.Queue.MpscCore MayV.Queue.MpscInv MayV.Queue.MpscPres MayV.Queue.MpscPres2 MayV.Queue.MpscPres3.

Section S.
Variable B : nat.
Hypothesis Bpos : 1 <= B.
Notation step := (step B).
Notation Reach := (Reach B).
Notation Inv := (Inv B).

Lemma inv_step s a s' : Inv s -> step s a = Some s' -> Inv s'.
Proof.
  intros Hi H. constructor.
  - eapply pres_A; eauto.
  - eapply pres_B; eauto.
  - eapply pres_C; eauto.
  - eapply pres_D; eauto.
  - eapply pres_U; eauto.
  - eapply pres_E; eauto.
  - eapply pres_F; eauto.
  - eapply pres_G; eauto.
  - eapply pres_H; eauto.
  - eapply pres_M; eauto.
Qed.

Theorem inv_reach s : Reach s -> Inv s.
Proof. induction 1; eauto using (inv_init B), inv_step. Qed.

(* C03 (iii), core: with push linearised at the reserving CAS (at the `ready` store for the
   last slot of a block) every value a pop commits is the head of the abstract FIFO, and ... *)
Theorem pops_return_abstract_head s : Reach s -> bad_fifo s = false.
Proof. intros R. apply (IM _ _ (inv_reach s R)). Qed.

(* ... a pop answers "empty" only if the abstract FIFO was empty at some step of that call
   -- including while the closing bit makes push_index() under-report by one. *)
Theorem empty_answers_justified s : Reach s -> bad_none s = false.
Proof. intros R. apply (IM _ _ (inv_reach s R)). Qed.

(* the abstract FIFO is exactly the reserved values, in slot order, from the consumer position
   up to the linearisation bound: slot order is delivery order *)
Theorem abstract_queue_is_slot_order s :
  Reach s -> absq s = map (rv s) (seq (hidx s) (lpb B s - hidx s)).
Proof. intros R. apply (IF _ _ (inv_reach s R)). Qed.
End S.

