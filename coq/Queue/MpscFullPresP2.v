(* Preservation of the full mpsc invariant: slot write and ready store of a push. *)
From Coq Require Import List Arith Bool Lia.
Import ListNotations.
Require Import MayV.Queue.MpscFullModel MayV.Queue.MpscFullInv MayV.Queue.MpscFullTac MayV.Queue.MpscFullFacts.
Section S.
Variable B : nat.
Hypothesis Bpos : 1 <= B.
Notation Inv := (Inv B).
Set Default Proof Using "Bpos".
Notation active_nodrop := (active_nodrop B Bpos).
Notation live_tail := (live_tail B Bpos).
Notation nlin_le_nres := (nlin_le_nres B Bpos).
Notation nlin_cases := (nlin_cases B Bpos).
Notation pw_live := (pw_live B Bpos).
Notation pw_distinct := (pw_distinct B Bpos).

Lemma pres_p_write s p : Inv s -> pp (P s p) = PWrite -> Inv (p_write s p).
Proof.
  intros Hi E. pose proof (active_nodrop s p Hi ltac:(congruence)) as ND.
  pose proof (fun s' => cinv_pstep B Bpos s s' Hi ND) as CF.
  pose proof (I_p _ _ Hi p) as Pp. unfold pinv in Pp. rewrite E in Pp. destruct Pp as [PW PV].
  pose proof (pw_live s p Hi PW ltac:(congruence)) as LK.
  pose proof (fun q => pw_distinct s p q PW) as DIS.
  destruct PW as (W1 & W2 & W3 & W4 & W5 & W6 & W7 & W8).
  destruct (I_al _ _ Hi _ LK) as (AL1 & AL2 & AL3).
  pose proof (I_inj _ _ Hi) as INJ. pose proof (live_tail s Hi ND) as [LT LT1]. pose proof (live_head B Bpos s Hi ND) as LH.
  unfold p_write, hmod, deref, blk_at. cbv zeta. sp. rewrite W2.
  assert (BK : forall k, live s k -> k <> gk (P s p) -> badr (G s) k <> badr (G s) (gk (P s p))).
  { intros k L N e. apply N. apply INJ; auto. }
  pose proof Hi as Hi'. destruct Hi. constructor.
  - unf; sp; auto.
  - unf; sp; auto.
  - unf; sp; auto.
  - (* I_al *) intros k L. assert (L' : live s k) by exact L. destruct (I_al k L') as (A1 & A2 & A3).
    unfold blkof, blk_at in *. sp. rewrite issome_mod. split; auto. split; auto. hg BK; auto.
  - unf; sp; auto.
  - (* I_fr *) intros a Ha. sp. apply none_mod. apply I_fr; auto.
  - (* I_ch *) intros k L Lk. assert (L' : live s k) by exact L. specialize (I_ch k L' Lk). unfold blkof, blk_at in *. sp. hg BK; auto.
  - (* I_sb *) intros k i L Li Ln. assert (L' : live s k) by exact L. destruct (I_sb k i L' Li Ln) as [S1 S2].
    unfold blkof, blk_at, nres, pslot in *. sp. hg BK; auto. split; auto. rewrite upd_neq; auto. intros ->. lia.
  - (* I_sc *) intros k i L Li. assert (L' : live s k) by exact L. specialize (I_sc k i L' Li).
    unfold nlin, rv in *; unfold blkof, blk_at in *. sp. hg BK; auto.
    all: intros R; destruct (I_sc R) as [S1 S2]; split; auto; rewrite upd_neq; auto; intros ->; congruence.
  - unf; sp; auto.
  - unf; sp; auto.
  - (* I_hd *) destruct I_hd as [H1 H2]. split; [|unf; sp; auto].
    unfold nlin in *; unfold blkof, blk_at in *. sp. hg BK; auto.
  - (* I_abs *) destruct I_abs as [A1 A2]. unfold nlin, rv in *; unfold blkof, blk_at in *. sp. hg BK; auto.
  - (* I_p *) intros q. pose proof (I_p q) as Pq. unfold pinv in *. sp. other_p q p; sp.
    + unfold pw_common, pslot, nres in *; unfold blkof, blk_at in *. sp. hg BK. rewrite upd_eq. rsplit; auto; try (apply W8; assumption).
    + specialize (DIS q). destruct (pp (P s q)) eqn:Eq; auto.
      * destruct Pq as [PWq PVq]. pose proof (pw_live s q Hi' PWq ltac:(congruence)) as LQ. specialize (DIS PWq ltac:(congruence)).
        unfold pw_common, pslot, nres in *; unfold blkof, blk_at in *; sp. brk. hg BK; rsplit; auto.
        all: destruct DIS; [congruence|]; rewrite upd_neq; auto.
      * destruct Pq as [PWq PVq]. pose proof (pw_live s q Hi' PWq ltac:(congruence)) as LQ. specialize (DIS PWq ltac:(congruence)).
        unfold pw_common, pslot, nres in *; unfold blkof, blk_at in *; sp. brk. hg BK; rsplit; auto.
        all: destruct DIS; [congruence|]; rewrite upd_neq; auto.
      * unfold pc_common in *; unfold blkof, blk_at in *; sp. brk. match goal with H : gk (P s q) = gtk (G s) |- _ => rewrite H in * end. hg BK; rsplit; auto.
      * unfold pc_common in *; unfold blkof, blk_at in *; sp. brk. match goal with H : gk (P s q) = gtk (G s) |- _ => rewrite H in * end. hg BK; rsplit; auto.
      * unfold pc_common in *; unfold blkof, blk_at in *; sp. brk. match goal with H : gk (P s q) = gtk (G s) |- _ => rewrite H in * end. hg BK; rsplit; auto.
      * unfold pc_common in *; unfold blkof, blk_at in *; sp. brk. match goal with H : gk (P s q) = gtk (G s) |- _ => rewrite H in * end. hg BK; rsplit; auto.
  - intros q. sp. other_p q p; sp; intros N; apply I_act; congruence.
  - sp. intros T. specialize (I_cl T). unfold closer, inflight in *. other_t (gcl (G s)) p; sp; auto. rewrite E in *. auto.
  - apply CF; sp; auto. intros i Li. unfold blkof, blk_at. sp. hg BK; auto.
  - unf; sp; auto.
  - unf; sp; auto.
  - unfold monitors_ok in *. sp. unfold blkof, blk_at in *. rewrite AL1, PV, W6. cbn. rewrite !orb_false_r. exact I_mon.
Qed.

Lemma pres_p_ready_open s p : Inv s -> pp (P s p) = PReady -> S (li (P s p)) <? B = true -> Inv (p_ready B s p).
Proof.
  intros Hi E EL. apply Nat.ltb_lt in EL. pose proof (active_nodrop s p Hi ltac:(congruence)) as ND.
  pose proof (fun s' => cinv_pstep B Bpos s s' Hi ND) as CF.
  pose proof (I_p _ _ Hi p) as Pp. unfold pinv in Pp. rewrite E in Pp. destruct Pp as [PW PV].
  pose proof (pw_live s p Hi PW ltac:(congruence)) as LK.
  pose proof (fun q => pw_distinct s p q PW) as DIS.
  destruct PW as (W1 & W2 & W3 & W4 & W5 & W6 & W7 & W8).
  destruct (I_al _ _ Hi _ LK) as (AL1 & AL2 & AL3).
  pose proof (I_inj _ _ Hi) as INJ. pose proof (live_tail s Hi ND) as [LT LT1]. pose proof (live_head B Bpos s Hi ND) as LH.
  destruct (I_ti _ _ Hi) as [TI1 TI2].
  unfold p_ready, hmod, deref, blk_at. cbv zeta. sp. rewrite W2. apply Nat.ltb_lt in EL. rewrite EL. apply Nat.ltb_lt in EL.
  assert (BK : forall k, live s k -> k <> gk (P s p) -> badr (G s) k <> badr (G s) (gk (P s p))).
  { intros k L N e. apply N. apply INJ; auto. }
  assert (NT : tc (M s) = true -> gtk (G s) = gk (P s p) -> ti (M s) <> li (P s p)).
  { intros T _. specialize (TI2 T). lia. }
  assert (J0 : gk (P s p) * B + li (P s p) < gtk (G s) * B + ti (M s)).
  { unfold nres, pslot in W4. destruct (tc (M s)) eqn:T; [|lia]. specialize (TI2 eq_refl).
    destruct (Nat.eq_dec (gk (P s p)) (gtk (G s))) as [e|n]; [rewrite e in *; lia | nia]. }
  pose proof Hi as Hi'. destruct Hi. constructor.
  - unf; sp; auto.
  - unf; sp; auto.
  - unf; sp; auto.
  - (* I_al *) intros k L. assert (L' : live s k) by exact L. destruct (I_al k L') as (A1 & A2 & A3).
    unfold blkof, blk_at in *. sp. rewrite issome_mod. split; auto. split; auto. hg BK; auto.
  - unf; sp; auto.
  - (* I_fr *) intros a Ha. sp. apply none_mod. apply I_fr; auto.
  - (* I_ch *) intros k L Lk. assert (L' : live s k) by exact L. specialize (I_ch k L' Lk). unfold blkof, blk_at in *. sp. hg BK; auto.
  - (* I_sb *) intros k i L Li Ln. assert (L' : live s k) by exact L. destruct (I_sb k i L' Li Ln) as [S1 S2].
    unfold blkof, blk_at, nres, pslot in *. sp. hg BK; auto. split; auto. rewrite upd_neq; auto. intros ->. lia.
  - (* I_sc *) intros k i L Li. assert (L' : live s k) by exact L. specialize (I_sc k i L' Li).
    unfold nlin, rv, pslot, nres in *; unfold blkof, blk_at in *. sp. hg BK; auto.
    all: rewrite ?andb_upd_neq by (intros T; apply NT; auto); auto.
    all: destruct (Nat.eq_dec i (li (P s p))) as [->|ni]; [rewrite upd_eq; intros _; rewrite PV, W5; cbn; split; auto | rewrite upd_neq by auto; auto].
    all: lia.
  - unf; sp; auto.
  - unf; sp; auto.
  - (* I_hd *) destruct I_hd as [H1 H2]. split; [|unf; sp; auto].
    unfold nlin in *; unfold blkof, blk_at in *. sp. hg BK; auto. rewrite ?andb_upd_neq by (intros T; apply NT; auto); auto.
  - (* I_abs *) destruct I_abs as [A1 A2]. unfold nlin, rv in *; unfold blkof, blk_at in *. sp. hg BK; auto.
    rewrite ?andb_upd_neq by (intros T; apply NT; auto); auto.
  - (* I_p *) intros q. pose proof (I_p q) as Pq. unfold pinv in *. sp. other_p q p; sp; auto.
    specialize (DIS q). destruct (pp (P s q)) eqn:Eq; auto.
    + destruct Pq as [PWq PVq]. pose proof (pw_live s q Hi' PWq ltac:(congruence)) as LQ. specialize (DIS PWq ltac:(congruence)).
      unfold pw_common, pslot, nres in *; unfold blkof, blk_at in *; sp. brk. hg BK; rsplit; auto.
      all: destruct DIS; [congruence|]; rewrite upd_neq; auto.
    + destruct Pq as [PWq PVq]. pose proof (pw_live s q Hi' PWq ltac:(congruence)) as LQ. specialize (DIS PWq ltac:(congruence)).
      unfold pw_common, pslot, nres in *; unfold blkof, blk_at in *; sp. brk. hg BK; rsplit; auto.
      all: destruct DIS; [congruence|]; rewrite upd_neq; auto.
    + unfold pc_common in *; unfold blkof, blk_at in *; sp. brk. match goal with H : gk (P s q) = gtk (G s) |- _ => rewrite H in * end. hg BK; rsplit; auto.
      all: apply upd_true_mono; auto.
    + unfold pc_common in *; unfold blkof, blk_at in *; sp. brk. match goal with H : gk (P s q) = gtk (G s) |- _ => rewrite H in * end. hg BK; rsplit; auto.
      all: apply upd_true_mono; auto.
    + unfold pc_common in *; unfold blkof, blk_at in *; sp. brk. match goal with H : gk (P s q) = gtk (G s) |- _ => rewrite H in * end. hg BK; rsplit; auto.
      all: apply upd_true_mono; auto.
    + unfold pc_common in *; unfold blkof, blk_at in *; sp. brk. match goal with H : gk (P s q) = gtk (G s) |- _ => rewrite H in * end. hg BK; rsplit; auto.
      all: apply upd_true_mono; auto.
  - intros q. sp. other_p q p; sp; intros N; [congruence|]. apply In_remove_nat; auto.
  - sp. intros T. specialize (I_cl T). unfold closer, inflight in *. other_t (gcl (G s)) p; sp; auto. destruct I_cl as [[? _] _]. lia.
  - apply CF; sp; auto. intros i Li. unfold blkof, blk_at. sp. hg BK; auto. apply upd_true_mono.
  - unf; sp; auto. intros; congruence.
  - unf; sp; auto.
  - unfold monitors_ok in *. sp. unfold blkof, blk_at in *. rewrite AL1. cbn. rewrite !orb_false_r. exact I_mon.
Qed.

Lemma pres_p_ready_closing s p : Inv s -> pp (P s p) = PReady -> S (li (P s p)) <? B = false -> Inv (p_ready B s p).
Proof.
  intros Hi E EL. pose proof (active_nodrop s p Hi ltac:(congruence)) as ND.
  pose proof (fun s' => cinv_pstep B Bpos s s' Hi ND) as CF.
  pose proof (I_p _ _ Hi p) as Pp. unfold pinv in Pp. rewrite E in Pp. destruct Pp as [PW PV].
  pose proof (pw_live s p Hi PW ltac:(congruence)) as LK.
  pose proof (fun q => pw_distinct s p q PW) as DIS.
  destruct PW as (W1 & W2 & W3 & W4 & W5 & W6 & W7 & W8).
  destruct (I_al _ _ Hi _ LK) as (AL1 & AL2 & AL3).
  pose proof (I_inj _ _ Hi) as INJ. pose proof (live_tail s Hi ND) as [LT LT1]. pose proof (live_head B Bpos s Hi ND) as LH.
  destruct (I_ti _ _ Hi) as [TI1 TI2].
  unfold p_ready, hmod, deref, blk_at. cbv zeta. sp. rewrite W2. rewrite EL. apply Nat.ltb_ge in EL.
  assert (SL : S (li (P s p)) = B) by lia. destruct (W8 SL) as (K1 & K2 & K3 & K4). specialize (TI2 K2).
  assert (LT' : li (P s p) = ti (M s)) by lia.
  assert (BK : forall k, live s k -> k <> gk (P s p) -> badr (G s) k <> badr (G s) (gk (P s p))).
  { intros k L N e. apply N. apply INJ; auto. }
  pose proof Hi as Hi'. destruct Hi.
  unfold pslot in *. rewrite K1, LT' in *.
  constructor.
  - unf; sp; rewrite ?K2 in *; auto.
  - unf; sp; rewrite ?K2 in *; auto.
  - unf; sp; rewrite ?K2 in *; auto.
  - (* I_al *) intros k L. assert (L' : live s k) by exact L. destruct (I_al k L') as (A1 & A2 & A3).
    unfold blkof, blk_at in *. sp. rewrite issome_mod. split; auto. split; auto. hg BK; auto.
  - unf; sp; rewrite ?K2 in *; auto.
  - (* I_fr *) intros a Ha. sp. apply none_mod. apply I_fr; auto.
  - (* I_ch *) intros k L Lk. assert (L' : live s k) by exact L. specialize (I_ch k L' Lk). unfold blkof, blk_at in *. sp. hg BK; auto.
  - (* I_sb *) intros k i L Li Ln. assert (L' : live s k) by exact L. destruct (I_sb k i L' Li Ln) as [S1 S2].
    unfold blkof, blk_at, nres, pslot in *. sp. rewrite K2 in *. hg BK; auto. split; auto. rewrite upd_neq; auto. intros ->. lia.
  - (* I_sc *) intros k i L Li. assert (L' : live s k) by exact L. specialize (I_sc k i L' Li).
    unfold nlin, rv, pslot, nres in *; unfold blkof, blk_at in *. sp. rewrite K2 in *. hg BK; auto.
    all: rewrite ?upd_eq; rewrite ?W6 in *; cbn [andb] in *.
    + destruct (Nat.eq_dec i (ti (M s))) as [->|ni]; [rewrite upd_eq; intros _; rewrite PV, W5; cbn; split; auto; lia | rewrite upd_neq by auto].
      intros R. destruct (I_sc R); split; auto. lia.
    + intros R. destruct (I_sc R); split; auto. lia.
  - unf; sp; rewrite ?K2 in *; auto.
  - unf; sp; rewrite ?K2 in *; auto.
  - (* I_hd *) destruct I_hd as [H1 H2]. split; [|unf; sp; auto].
    unfold nlin in *; unfold blkof, blk_at in *. sp. rewrite K2 in *. hg BK; auto. rewrite upd_eq. rewrite W6 in *. cbn [andb] in *. lia.
  - (* I_abs *) destruct I_abs as [A1 A2]. destruct I_hd as [H1 _]. unfold nlin, rv in *; unfold blkof, blk_at in *. sp. rewrite K2 in *. hg BK; auto.
    rewrite upd_eq. rewrite W6 in *. cbn [andb] in *. split; auto.
    replace (gtk (G s) * B + ti (M s) + 1 - hidx (M s)) with (S (gtk (G s) * B + ti (M s) + 0 - hidx (M s))) by lia.
    rewrite map_seq_snoc. rewrite <- A1. f_equal.
    replace (hidx (M s) + (gtk (G s) * B + ti (M s) + 0 - hidx (M s))) with (gtk (G s) * B + ti (M s)) by lia.
    rewrite W5. reflexivity.
  - (* I_p *) intros q. pose proof (I_p q) as Pq. unfold pinv in *. sp. other_p q p; sp; auto.
    + unfold pc_common; unfold blkof, blk_at; sp. rewrite K1, LT', K2. hg BK. rewrite upd_eq. rsplit; auto.
    + specialize (DIS q). destruct (pp (P s q)) eqn:Eq; auto.
      * destruct Pq as [PWq PVq]. pose proof (pw_live s q Hi' PWq ltac:(congruence)) as LQ. specialize (DIS PWq ltac:(congruence)).
        unfold pw_common, pslot, nres in *; unfold blkof, blk_at in *; sp. brk. hg BK; rsplit; auto.
        all: destruct DIS; [congruence|]; rewrite upd_neq; auto; congruence.
      * destruct Pq as [PWq PVq]. pose proof (pw_live s q Hi' PWq ltac:(congruence)) as LQ. specialize (DIS PWq ltac:(congruence)).
        unfold pw_common, pslot, nres in *; unfold blkof, blk_at in *; sp. brk. hg BK; rsplit; auto.
        all: destruct DIS; [congruence|]; rewrite upd_neq; auto; congruence.
      * exfalso. destruct Pq as [(_&_&_&_&G1&_) _]. congruence.
      * exfalso. destruct Pq as [(_&_&_&_&G1&_) _]. congruence.
      * exfalso. destruct Pq as [(_&_&_&_&G1&_) _]. congruence.
      * exfalso. destruct Pq as [(_&_&_&_&G1&_) _]. congruence.
  - intros q. sp. other_p q p; sp; intros N; apply I_act; congruence.
  - sp. intros T. rewrite K3. rewrite upd_eq. unfold closer, inflight. sp. rsplit; auto; lia.
  - apply CF; sp; auto.
    + rewrite app_length. lia.
    + intros i Li. unfold blkof, blk_at. sp. hg BK; auto. apply upd_true_mono.
  - unf; sp; auto.
  - unf; sp; auto.
  - unfold monitors_ok in *. sp. unfold blkof, blk_at in *. rewrite AL1. cbn. rewrite !orb_false_r. exact I_mon.
Qed.
End S.
