(* C19 - trace acceptor for may_queue::mpsc_list_v1.
   One recorded event [code; actor; obj; val] of the real list (binding: Queue/listv1_sites.json) is matched
   against the model: the actor must be at the corresponding control point, and the value the code observed
   (a pointer, a flag, a returned tag) must be the one the model computes.  Model nodes are numbered in swap
   order; the acceptor learns, event by event, the address of each model node ([addr]), the object number of
   its `next` field ([nobj], objects are renumbered by the normaliser), and the tag of its payload ([tag]).
   A learnt address must differ from the address of every other node the model has not freed, so a node
   the code frees too early / re-uses while the model still holds it is rejected.
   The unhooked plain write `node.prev = prev` (model step Q1) is taken together with the following
   read of the consumer position (Q2) on the `tail.read` event. *)
From Coq Require Import List ZArith Bool Arith.
Import ListNotations.
Require Import MayV.Queue.ListV1Model.

Record ast := {
  ms : st;
  addr : nat -> Z;      (* node id -> address (0 = not yet seen) *)
  nobj : nat -> Z;      (* node id -> object number of its `next` field (0 = not yet seen) *)
  hobj : Z; tobj : Z;   (* object numbers of Queue.head / Queue.tail *)
  tag : nat -> Z;       (* node id -> payload tag *)
  ptag : nat -> Z;      (* producer -> tag of the push in flight *)
  pcall : nat -> bool;  (* producer is between push.call and push.ret *)
  thr : Z;              (* pop_if predicate of the call in flight: seq(tag) <= thr, seq(tag) = tag mod 100 *)
  kact : Z;             (* the consumer's actor number (0 = not yet seen) *)
  kcall : Z }.          (* API call the consumer is in (code of its .call event), 0 = none *)

Definition with_ms a s := {| ms := s; addr := addr a; nobj := nobj a; hobj := hobj a; tobj := tobj a; tag := tag a; ptag := ptag a; pcall := pcall a; thr := thr a; kact := kact a; kcall := kcall a |}.
Definition set_addr a n v := {| ms := ms a; addr := upd (addr a) n v; nobj := nobj a; hobj := hobj a; tobj := tobj a; tag := tag a; ptag := ptag a; pcall := pcall a; thr := thr a; kact := kact a; kcall := kcall a |}.
Definition set_nobj a n v := {| ms := ms a; addr := addr a; nobj := upd (nobj a) n v; hobj := hobj a; tobj := tobj a; tag := tag a; ptag := ptag a; pcall := pcall a; thr := thr a; kact := kact a; kcall := kcall a |}.
Definition set_hobj a v := {| ms := ms a; addr := addr a; nobj := nobj a; hobj := v; tobj := tobj a; tag := tag a; ptag := ptag a; pcall := pcall a; thr := thr a; kact := kact a; kcall := kcall a |}.
Definition set_tobj a v := {| ms := ms a; addr := addr a; nobj := nobj a; hobj := hobj a; tobj := v; tag := tag a; ptag := ptag a; pcall := pcall a; thr := thr a; kact := kact a; kcall := kcall a |}.
Definition set_tag a n v := {| ms := ms a; addr := addr a; nobj := nobj a; hobj := hobj a; tobj := tobj a; tag := upd (tag a) n v; ptag := ptag a; pcall := pcall a; thr := thr a; kact := kact a; kcall := kcall a |}.
Definition set_push a p v b := {| ms := ms a; addr := addr a; nobj := nobj a; hobj := hobj a; tobj := tobj a; tag := tag a; ptag := upd (ptag a) p v; pcall := upd (pcall a) p b; thr := thr a; kact := kact a; kcall := kcall a |}.
Definition set_thr a v := {| ms := ms a; addr := addr a; nobj := nobj a; hobj := hobj a; tobj := tobj a; tag := tag a; ptag := ptag a; pcall := pcall a; thr := v; kact := kact a; kcall := kcall a |}.
Definition set_kact a v := {| ms := ms a; addr := addr a; nobj := nobj a; hobj := hobj a; tobj := tobj a; tag := tag a; ptag := ptag a; pcall := pcall a; thr := thr a; kact := v; kcall := kcall a |}.
Definition set_kcall a v := {| ms := ms a; addr := addr a; nobj := nobj a; hobj := hobj a; tobj := tobj a; tag := tag a; ptag := ptag a; pcall := pcall a; thr := thr a; kact := kact a; kcall := v |}.

Definition a_init : ast :=
  {| ms := init; addr := fun _ => 0%Z; nobj := fun _ => 0%Z; hobj := 0%Z; tobj := 0%Z; tag := fun _ => 0%Z;
     ptag := fun _ => 0%Z; pcall := fun _ => false; thr := 0%Z; kact := 0%Z; kcall := 0%Z |}.

(* acceptor steps compose in the option monad *)
Definition K := ast -> option ast.
Definition kseq (f g : K) : K := fun a => match f a with Some a' => g a' | None => None end.
Definition kguard (b : ast -> bool) : K := fun a => if b a then Some a else None.
Definition kstep (act : ast -> action) : K := fun a => match step (ms a) (act a) with Some s' => Some (with_ms a s') | None => None end.
Definition kfail : K := fun _ => None.
Definition kid : K := fun a => Some a.
Infix ";;" := kseq (at level 61, right associativity).

Definition ppc_eqb (a b : ppc) : bool :=
  match a, b with QIdle, QIdle | Q0, Q0 | Q1, Q1 | Q2, Q2 | Q3, Q3 => true | _, _ => false end.
Definition kpc_eqb (a b : kpc) : bool :=
  match a, b with
  | KIdle, KIdle | KP2, KP2 | KK0, KK0 | KK1, KK1 | KE0, KE0 | KR1, KR1 | KR2, KR2 => true
  | KP0 x, KP0 y | KP1 x, KP1 y => Bool.eqb x y
  | _, _ => false end.
Definition at_q (p : nat) (q : ppc) : K := kguard (fun a => ppc_eqb (qp (P (ms a) p)) q).
Definition at_k (k : kpc) : K := kguard (fun a => kpc_eqb (kp (ms a)) k).
Definition znz (v : Z) : bool := negb (Z.eqb v 0).

(* no other node that the model has not freed carries the value [v] in the map [m] *)
Definition fresh_in (a : ast) (m : nat -> Z) (n : nat) (v : Z) : bool :=
  forallb (fun k => Nat.eqb k n || freed (nodes (ms a) k) || negb (Z.eqb (m k) v)) (seq 0 (nn (ms a))).

(* the pointer value [v] is the address of model node [node a]: learn it, or compare with what was learnt *)
Definition k_addr (node : ast -> nat) (v : Z) : K := fun a =>
  let n := node a in
  if Z.eqb v 0 then None
  else if Z.eqb (addr a n) 0 then (if fresh_in a (addr a) n v then Some (set_addr a n v) else None)
  else if Z.eqb (addr a n) v then Some a else None.
(* the object [o] is the `next` field of model node [node a] *)
Definition k_nobj (node : ast -> nat) (o : Z) : K := fun a =>
  let n := node a in
  if Z.eqb o 0 then None
  else if Z.eqb (nobj a n) 0 then (if fresh_in a (nobj a) n o then Some (set_nobj a n o) else None)
  else if Z.eqb (nobj a n) o then Some a else None.
Definition k_hobj (o : Z) : K := fun a =>
  if Z.eqb (hobj a) 0 then Some (set_hobj a o) else if Z.eqb (hobj a) o then Some a else None.
Definition k_tobj (o : Z) : K := fun a =>
  if Z.eqb (tobj a) 0 then Some (set_tobj a o) else if Z.eqb (tobj a) o then Some a else None.
(* an optional node against an observed pointer: None <-> null *)
Definition k_optaddr (node : ast -> option nat) (v : Z) : K := fun a =>
  match node a with
  | None => if Z.eqb v 0 then Some a else None
  | Some x => k_addr (fun _ => x) v a
  end.
(* all consumer events come from one actor *)
Definition k_cons (actor : Z) : K := fun a =>
  if Z.eqb (kact a) 0 then Some (set_kact a actor) else if Z.eqb (kact a) actor then Some a else None.
Definition in_call (c : Z) : K := kguard (fun a => Z.eqb (kcall a) c).
Definition find_tag (a : ast) (t : Z) : option nat :=
  find (fun n => Z.eqb (tag a n) t) (seq 1 (nn (ms a) - 1)).
(* a consumer call on the handle of the entry tagged [t] *)
Definition k_handle (t : Z) (act : nat -> action) : K := fun a =>
  match find_tag a t with Some n => kstep (fun _ => act n) a | None => None end.
(* the value returned by the last consumer call: [some] = 0 <-> nothing; else the entry tagged [t] *)
Definition k_result (some t : Z) : K := kguard (fun a =>
  match kres (ms a) with
  | None => Z.eqb some 0
  | Some x => znz some && Z.eqb (tag a x) t
  end).
Definition popif_pred (a : ast) (x : nat) : bool := Z.leb (Z.modulo (tag a x) 100) (thr a).

Local Open Scope Z_scope.

Definition accept_code (c actor obj val : Z) : K :=
  let p := Z.to_nat actor in
  (* ---- producers ---- *)
  if c =? 1 then at_q p QIdle ;; kguard (fun a => negb (pcall a p) && znz val) ;; kstep (fun _ => Push p) ;; (fun a => Some (set_push a p val true))
  else if c =? 20 then at_q p Q0 ;; k_hobj obj ;; k_addr (fun a => head (ms a)) val ;;
                       (fun a => Some (set_tag a (nn (ms a)) (ptag a p))) ;; kstep (fun _ => PStep p)
  else if c =? 34 then at_q p Q1 ;; k_addr (fun a => qprev (P (ms a) p)) val ;; kstep (fun _ => PStep p)
  else if c =? 22 then at_q p Q2 ;; k_tobj obj ;; kstep (fun _ => PStep p)
  else if c =? 21 then at_q p Q3 ;; k_nobj (fun a => qprev (P (ms a) p)) obj ;; k_addr (fun a => qn (P (ms a) p)) val ;; kstep (fun _ => PStep p)
  else if c =? 2 then at_q p QIdle ;; kguard (fun a => pcall a p && Bool.eqb (qhead (P (ms a) p)) (znz obj)) ;;
                      k_addr (fun a => qn (P (ms a) p)) val ;; (fun a => Some (set_push a p 0 false))
  (* ---- consumer: calls ---- *)
  else if c =? 3 then k_cons actor ;; in_call 0 ;; kstep (fun _ => Pop) ;; (fun a => Some (set_kcall a 3))
  else if c =? 5 then k_cons actor ;; in_call 0 ;; kstep (fun _ => PopIf) ;; (fun a => Some (set_kcall (set_thr a val) 5))
  else if c =? 7 then k_cons actor ;; in_call 0 ;; kstep (fun _ => Peek) ;; (fun a => Some (set_kcall a 7))
  else if c =? 9 then k_cons actor ;; in_call 0 ;; kstep (fun _ => IsEmpty) ;; (fun a => Some (set_kcall a 9))
  else if c =? 11 then k_cons actor ;; in_call 0 ;; k_handle val Remove ;; (fun a => Some (set_kcall a 11))
  else if c =? 13 then k_cons actor ;; in_call 0 ;; k_handle val DropH
  else if c =? 14 then k_cons actor ;; in_call 0 ;; k_handle val IsLink ;; (fun a => Some (set_kcall a 14))
  (* ---- consumer: returns ---- *)
  else if c =? 4 then k_cons actor ;; in_call 3 ;; at_k KIdle ;; k_result obj val ;; (fun a => Some (set_kcall a 0))
  else if c =? 6 then k_cons actor ;; in_call 5 ;; at_k KIdle ;; k_result obj val ;; (fun a => Some (set_kcall a 0))
  else if c =? 8 then k_cons actor ;; in_call 7 ;; at_k KIdle ;; k_result obj val ;; (fun a => Some (set_kcall a 0))
  else if c =? 10 then k_cons actor ;; in_call 9 ;; at_k KIdle ;; kguard (fun a => Bool.eqb (kbool (ms a)) (znz obj)) ;; (fun a => Some (set_kcall a 0))
  else if c =? 12 then k_cons actor ;; in_call 11 ;; at_k KIdle ;; k_result obj val ;; (fun a => Some (set_kcall a 0))
  else if c =? 15 then k_cons actor ;; in_call 14 ;; at_k KIdle ;; kguard (fun a => Bool.eqb (kbool (ms a)) (znz obj)) ;; (fun a => Some (set_kcall a 0))
  (* ---- consumer: shared accesses ---- *)
  else if c =? 23 then k_cons actor ;; in_call 9 ;; at_k KE0 ;; k_hobj obj ;; k_addr (fun a => head (ms a)) val ;; kstep (fun _ => KStep false)
  else if c =? 24 then k_cons actor ;; in_call 7 ;; at_k KK0 ;; k_hobj obj ;; k_addr (fun a => head (ms a)) val ;; kstep (fun _ => KStep false)
  else if c =? 25 then k_cons actor ;; in_call 7 ;; at_k KK1 ;; k_nobj (fun a => tail (ms a)) obj ;;
                       k_optaddr (fun a => nnext (nodes (ms a) (tail (ms a)))) val ;; kstep (fun _ => KStep false)
  else if c =? 26 then k_cons actor ;; in_call 5 ;; at_k (KP0 true) ;; k_hobj obj ;; k_addr (fun a => head (ms a)) val ;; kstep (fun _ => KStep false)
  else if c =? 27 then k_cons actor ;; in_call 5 ;; at_k (KP1 true) ;; k_nobj (fun a => tail (ms a)) obj ;;
                       k_optaddr (fun a => nnext (nodes (ms a) (tail (ms a)))) val ;;
                       kstep (fun a => KStep (match nnext (nodes (ms a) (tail (ms a))) with Some x => popif_pred a x | None => false end))
  else if c =? 28 then k_cons actor ;; in_call 5 ;; at_k KP2 ;; k_tobj obj ;; k_addr (fun a => kn (ms a)) val ;; kstep (fun _ => KStep false)
  else if c =? 29 then k_cons actor ;; in_call 3 ;; at_k (KP0 false) ;; k_hobj obj ;; k_addr (fun a => head (ms a)) val ;; kstep (fun _ => KStep false)
  else if c =? 30 then k_cons actor ;; in_call 3 ;; at_k (KP1 false) ;; k_nobj (fun a => tail (ms a)) obj ;;
                       k_optaddr (fun a => nnext (nodes (ms a) (tail (ms a)))) val ;; kstep (fun _ => KStep false)
  else if c =? 31 then k_cons actor ;; in_call 3 ;; at_k KP2 ;; k_tobj obj ;; k_addr (fun a => kn (ms a)) val ;; kstep (fun _ => KStep false)
  else if c =? 32 then k_cons actor ;; in_call 11 ;; at_k KR1 ;; k_nobj (fun a => kn (ms a)) obj ;;
                       k_optaddr (fun a => nnext (nodes (ms a) (kn (ms a)))) val ;; kstep (fun _ => KStep false)
  else if c =? 33 then k_cons actor ;; in_call 11 ;; at_k KR2 ;;
                       (fun a => match nprev (nodes (ms a) (kn (ms a))) with Some pr => k_nobj (fun _ => pr) obj a | None => None end) ;;
                       k_addr (fun a => kx (ms a)) val ;; kstep (fun _ => KStep false)
  else kfail.

Definition accept_ev (a : ast) (e : list Z) : option ast :=
  match e with
  | [c; actor; obj; val] => accept_code c actor obj val a
  | _ => None
  end.

Fixpoint accept_all (a : ast) (tr : list (list Z)) : option ast :=
  match tr with
  | [] => Some a
  | e :: l => match accept_ev a e with Some a' => accept_all a' l | None => None end
  end.

(* end of a trace: no monitor tripped, nobody is inside a call *)
Definition a_final (a : ast) : bool := monitors_ok (ms a) && Z.eqb (kcall a) 0.

(* ---- soundness: the model component of every accepted prefix is a reachable state ---- *)
Definition sound (f : K) : Prop := forall a a', Reach (ms a) -> f a = Some a' -> Reach (ms a').

Lemma sound_seq f g : sound f -> sound g -> sound (f ;; g).
Proof.
  unfold sound, kseq. intros Hf Hg a a' R H. destruct (f a) as [a1|] eqn:E; [|discriminate]. eapply Hg; [eapply Hf; eauto | exact H].
Qed.
Lemma sound_guard b : sound (kguard b).
Proof. unfold sound, kguard. intros a a' R H. destruct (b a); inversion H; subst; exact R. Qed.
Lemma sound_step act : sound (kstep act).
Proof.
  unfold sound, kstep. intros a a' R H. destruct (step (ms a) (act a)) as [s'|] eqn:E; [|discriminate].
  inversion H; subst. cbn. eapply RS; eauto.
Qed.
Lemma sound_fail : sound kfail.
Proof. unfold sound, kfail. intros; discriminate. Qed.
(* an update of the acceptor's own bookkeeping *)
Lemma sound_pure (g : ast -> ast) : (forall a, ms (g a) = ms a) -> sound (fun a => Some (g a)).
Proof. unfold sound. intros Hg a a' R H. inversion H; subst. rewrite Hg. exact R. Qed.
Lemma sound_addr node v : sound (k_addr node v).
Proof.
  unfold sound, k_addr. intros a a' R H.
  repeat match type of H with (if ?c then _ else _) = _ => destruct c end; inversion H; subst; exact R.
Qed.
Lemma sound_nobj node o : sound (k_nobj node o).
Proof.
  unfold sound, k_nobj. intros a a' R H.
  repeat match type of H with (if ?c then _ else _) = _ => destruct c end; inversion H; subst; exact R.
Qed.
Lemma sound_hobj o : sound (k_hobj o).
Proof. unfold sound, k_hobj. intros a a' R H. repeat match type of H with (if ?c then _ else _) = _ => destruct c end; inversion H; subst; exact R. Qed.
Lemma sound_tobj o : sound (k_tobj o).
Proof. unfold sound, k_tobj. intros a a' R H. repeat match type of H with (if ?c then _ else _) = _ => destruct c end; inversion H; subst; exact R. Qed.
Lemma sound_optaddr node v : sound (k_optaddr node v).
Proof.
  unfold sound, k_optaddr. intros a a' R H. destruct (node a).
  - eapply sound_addr; eauto.
  - destruct (Z.eqb v 0); inversion H; subst; exact R.
Qed.
Lemma sound_cons actor : sound (k_cons actor).
Proof. unfold sound, k_cons. intros a a' R H. repeat match type of H with (if ?c then _ else _) = _ => destruct c end; inversion H; subst; exact R. Qed.
Lemma sound_handle t act : sound (k_handle t act).
Proof. unfold sound, k_handle. intros a a' R H. destruct (find_tag a t); [|discriminate]. eapply sound_step; eauto. Qed.
Lemma sound_prevobj obj : sound (fun a => match nprev (nodes (ms a) (kn (ms a))) with Some pr => k_nobj (fun _ => pr) obj a | None => None end).
Proof. unfold sound. intros a a' R H. destruct (nprev _); [|discriminate]. eapply sound_nobj; eauto. Qed.

Ltac sound_tac :=
  repeat first [ apply sound_seq | apply sound_guard | apply sound_step | apply sound_fail | apply sound_addr | apply sound_nobj
               | apply sound_hobj | apply sound_tobj | apply sound_optaddr | apply sound_cons | apply sound_handle | apply sound_prevobj
               | (apply sound_pure; intro; reflexivity) ].

Lemma accept_code_sound c actor obj val : sound (accept_code c actor obj val).
Proof.
  unfold accept_code, at_q, at_k, in_call, k_result.
  repeat match goal with |- sound (if ?c then _ else _) => destruct c; [sound_tac|] end.
  apply sound_fail.
Qed.

Lemma accept_ev_reach a e a' : Reach (ms a) -> accept_ev a e = Some a' -> Reach (ms a').
Proof.
  unfold accept_ev. intros R H.
  destruct e as [|c [|actor [|obj [|val [|? ?]]]]]; try discriminate.
  eapply accept_code_sound; eauto.
Qed.

(* every state along a trace of the real list that the acceptor accepts is a reachable model state *)
Theorem accept_all_reach tr : forall a a', Reach (ms a) -> accept_all a tr = Some a' -> Reach (ms a').
Proof.
  induction tr as [|e l IH]; cbn [accept_all]; intros a a' R H; [inversion H; subst; exact R|].
  destruct (accept_ev a e) as [a1|] eqn:E; [|discriminate]. eapply IH; [eapply accept_ev_reach; eauto | exact H].
Qed.
