(* Every block ever allocated stays in the chain first .. tail (or is the block alloc_node has just
   returned and push is about to link): the inner cache leaks nothing, and what Queue::drop walks
   (first, first.next, ... up to tail, then head) is every block exactly once.
   Proved as an overlay on the invariant of SpscInv (no clause of Inv is touched). *)
From Coq Require Import List Arith Bool Lia.
Import ListNotations.
Require Import MayV.Queue.SpscModel MayV.Queue.SpscInv MayV.Queue.SpscPresA MayV.Queue.SpscThm.

Section S.
Variable B : nat.
Hypothesis Bpos : 1 <= B.
Set Default Proof Using "Bpos".
Notation step := (step B).
Notation Reach := (Reach B).
Notation Inv := (Inv B).

Definition all_blocks_chained (s : st) : Prop :=
  forall b, 1 <= b -> b < nalloc (M s) ->
  (exists k, gfk (K s) <= k /\ k < gnb (K s) /\ bid (K s) k = b) \/ (pp (P s) = PLink /\ pnew (P s) = b).

Lemma chained_init : all_blocks_chained init.
Proof. intros b H1 H2. cbn in *. left. exists 0. cbn. lia. Qed.

Lemma chained_step s a s' : Inv s -> all_blocks_chained s -> step s a = Some s' -> all_blocks_chained s'.
Proof.
  intros Hi Hc H b. specialize (Hc b). pose proof (IK2 _ _ Hi) as K2.
  step_cases H; intros G1 G2; try (pfacts Hi); brk.
  all: try (destruct (Hc G1 G2) as [(k & A1 & A2 & A3)|[A1 A2]]; [left; exists k; repeat split; auto; lia | first [congruence | right; split; assumption]]).
  - (* recycle #0 *)
    destruct (Hc G1 G2) as [(k & A1 & A2 & A3)|[A1 A2]]; [|congruence].
    destruct (Nat.eq_dec k (gfk (K s))) as [E|E]; [right; split; auto; congruence | left; exists k; repeat split; auto; lia].
  - (* fresh block *)
    destruct (Nat.eq_dec b (nalloc (M s))) as [E|E]; [right; split; auto|].
    destruct (Hc G1 ltac:(lia)) as [(k & A1 & A2 & A3)|[A1 A2]]; [left; exists k; repeat split; auto | congruence].
  - (* recycle #1 *)
    destruct (Hc G1 G2) as [(k & A1 & A2 & A3)|[A1 A2]]; [|congruence].
    destruct (Nat.eq_dec k (gfk (K s))) as [E|E]; [right; split; auto; congruence | left; exists k; repeat split; auto; lia].
  - (* tail.next.store *)
    destruct (Hc G1 G2) as [(k & A1 & A2 & A3)|[A1 A2]].
    + left. exists k. rewrite upd_neq by lia. repeat split; auto.
    + left. exists (gnb (K s)). rewrite upd_eq. repeat split; auto. pose proof (IK1 _ _ Hi). lia.
Qed.

Theorem all_blocks_stay_chained s : Reach s -> all_blocks_chained s.
Proof.
  intros R. induction R as [|s a s' R IH H]; [apply chained_init|].
  eapply chained_step; eauto. now apply inv_reach.
Qed.

(* what Queue::drop relies on, in a state where no call is in progress: the queue drained
   (head.index = tail.index) implies head.block = tail.block (its assert_eq!), and the walk from
   `first` along `next` up to tail.block visits pairwise different blocks that are all the blocks
   ever allocated *)
Theorem drop_view s : Reach s -> pp (P s) = PIdle -> cp (C s) = CIdle ->
  (hidx (M s) = tidx (M s) -> hblk (M s) = tblk (M s)) /\
  gnb (K s) = S (gtk (K s)) /\
  (forall b, 1 <= b -> b < nalloc (M s) -> exists k, gfk (K s) <= k /\ k <= gtk (K s) /\ bid (K s) k = b) /\
  (forall i j, gfk (K s) <= i -> i < j -> j <= gtk (K s) -> bid (K s) i <> bid (K s) j) /\
  (forall j, gfk (K s) <= j -> j < gtk (K s) -> nxt (M s) (bid (K s) j) = bid (K s) (S j)) /\
  first (M s) = bid (K s) (gfk (K s)) /\ tblk (M s) = bid (K s) (gtk (K s)).
Proof.
  intros R Epp Ecp. pose proof (inv_reach _ Bpos s R) as Hi. pose proof (all_blocks_stay_chained s R) as Hc.
  pfacts Hi. cfacts Hi. brk. destruct (IK2 _ _ Hi) as (E1 & E2 & E3 & E4).
  repeat split; auto.
  - intros E. assert (ghk (K s) = gtk (K s)) by nia. congruence.
  - intros b G1 G2. destruct (Hc b G1 G2) as [(k & A1 & A2 & A3)|[A1 A2]]; [|congruence]. exists k. repeat split; auto; lia.
  - intros i j G1 G2 G3. apply (IK4 _ _ Hi); lia.
  - intros j G1 G2. apply (IK5 _ _ Hi); lia.
Qed.
End S.
