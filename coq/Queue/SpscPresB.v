(* Preservation of the spsc invariant, part B: the control point assertions of producer and consumer. *)
From Coq Require Import List Arith Bool Lia.
Import ListNotations.
Require Import MayV.Queue.SpscModel MayV.Queue.SpscInv MayV.Queue.SpscPresA.

Section S.
Variable B : nat.
Hypothesis Bpos : 1 <= B.
Set Default Proof Using "Bpos".
Notation step := (step B).
Notation Inv := (Inv B).

Lemma pres_P s a s' : Inv s -> step s a = Some s' -> pinv B s'.
Proof.
  intros Hi H. pose proof (IK1 _ _ Hi) as K1. pose proof (IK2 _ _ Hi) as K2. pose proof (IK3 _ _ Hi) as K3.
  pose proof (IK4 _ _ Hi) as K4. pose proof (IP _ _ Hi) as Hp.
  step_cases H; unfold pinv in *; sp; auto; try (rewrite Epp in Hp); brk.
  all: try (repeat split; auto; lia).
  - (* slot write at a block end, cache exhausted *)
    pose proof (at_end_true _ Bpos (gtk (K s)) (S (tidx (M s))) ltac:(lia) ltac:(lia) Ec). repeat split; auto; lia.
  - bools. pose proof (at_end_true _ Bpos (gtk (K s)) (S (tidx (M s))) ltac:(lia) ltac:(lia) Ec). repeat split; auto; lia.
  - pose proof (at_end_false _ Bpos (gtk (K s)) (S (tidx (M s))) ltac:(lia) ltac:(lia) Ec). repeat split; auto; lia.
  - (* recycle #0 *) pose proof (first_lt _ Bpos _ Hi ltac:(assumption)) as Hlt.
    match goal with E : first _ = bid _ _ |- _ => rewrite E end.
    repeat split; auto; try (apply K3; lia). intros j G1 G2 G3. symmetry in G3. revert G3. apply K4; lia.
  - (* fresh block *) repeat split; auto; try lia.
    + pose proof (K3 (gtk (K s))). lia.
    + intros j G1 G2. pose proof (K3 j). lia.
  - bools. repeat split; auto.
  - (* recycle #1 *) pose proof (first_lt _ Bpos _ Hi ltac:(assumption)) as Hlt.
    match goal with E : first _ = bid _ _ |- _ => rewrite E end.
    repeat split; auto; try (apply K3; lia). intros j G1 G2 G3. symmetry in G3. revert G3. apply K4; lia.
  - repeat split; auto; try lia. match goal with E : gnb _ = S _ |- _ => rewrite <- E end. apply upd_eq.
  - (* producer's len: head.index.load *) pose proof (absq_len _ Bpos _ Hi). repeat split; auto; lia.
  - (* head.block.store: the producer's assertions only mention ghk as an upper bound *)
    destruct (pp (P s)); brk; repeat split; auto; lia.
  - (* head.index.store: a len() of the producer in progress sees head.index grow, the abstract queue shrink *)
    cfacts Hi. destruct (pp (P s)); brk; repeat split; auto; try lia.
    rewrite skipn_length. lia.
Qed.

Lemma pres_C s a s' : Inv s -> step s a = Some s' -> cinv B s'.
Proof.
  intros Hi H. pose proof (IK1 _ _ Hi) as K1. pose proof (IK2 _ _ Hi) as K2.
  pose proof (IK5 _ _ Hi) as K5. pose proof (IC _ _ Hi) as Hc.
  pose proof (absq_len _ Bpos _ Hi) as AL. pose proof (head_bounds _ Bpos _ Hi) as HB.
  pose proof (tail_bounds _ Bpos _ Hi) as TB.
  step_cases_r Hi H; unfold cinv in *; sp; auto; try (rewrite Ecp in Hc); brk.
  all: try (repeat split; auto; lia).
  1: { (* tail.next.store appends a block: positions below gnb keep their block *)
    destruct (cp (C s)); brk; repeat split; auto. rewrite upd_neq; auto. nia. }
  1: { (* publication: the abstract queue grows at the far end *)
    destruct (cp (C s)); brk; repeat split; auto; try lia;
      try (rewrite app_length; cbn; lia); try (rewrite firstn_app_l by lia; assumption). }
  all: bools.
  all: try rewrite Nat.sub_diag.
  all: try rewrite (blkend_loc _ Bpos (ghk (K s))) by lia.
  all: try (repeat split; auto; lia).
  all: try (pose proof (at_end_true _ Bpos (ghk (K s)) (cend (C s)) ltac:(lia) ltac:(lia) ltac:(assumption))).
  all: try (pose proof (at_end_false _ Bpos (ghk (K s)) (cend (C s)) ltac:(lia) ltac:(lia) ltac:(assumption))).
  all: try (match goal with E : S (ck _) = cend _ |- _ => rewrite <- E in * end).
  all: try (repeat split; auto; try lia; apply acc_snoc; auto; lia).
  all: try (match goal with D : _ = OBulk \/ _ |- _ => destruct D as [D|D]; [congruence | exfalso; lia] end).
  (* head.next.load *)
  repeat split; auto. match goal with E : hblk _ = _ |- _ => rewrite E end. apply K5; try lia.
  pose proof (next_in_seq _ Bpos _ Hi). lia.
Qed.
End S.
