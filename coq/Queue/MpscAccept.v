(* Trace acceptor for the mpsc linearisation core: one recorded event of the real
   may_queue::mpsc::Queue (site code, actor, observed value) is matched against exactly one
   transition of the model; the model must be at the corresponding control point and must
   compute the value the code observed.  Codes are bound to source sites in Queue/mpsc_sites.json. *)
From Coq Require Import List ZArith Bool Arith.
Import ListNotations.
Require Import MayV.Queue.MpscCore.

Section A.
Variable B : nat.

Definition zidx (w : Z) : nat := Z.to_nat (Z.modulo w (Z.of_nat B)).
Definition zclosing (w : Z) : bool := Z.testbit w 63.
Definition znz (v : Z) : bool := negb (Z.eqb v 0).

Definition ppc_eqb (a b : ppc) : bool :=
  match a, b with
  | PIdle, PIdle | PLoad, PLoad | PCas, PCas | PWrite, PWrite | PReady, PReady | PStore, PStore => true
  | _, _ => false end.
Definition cpc_eqb (a b : cpc) : bool :=
  match a, b with
  | CIdle, CIdle | CTry, CTry | CTail, CTail | CSpin, CSpin | CCommit, CCommit => true
  | _, _ => false end.

(* take model action [a] from a state whose precondition [pre] holds, then require [post] *)
Definition take (s : st) (pre : bool) (a : action) (post : st -> bool) : option st :=
  if pre then match step B s a with
              | Some s' => if post s' then Some s' else None
              | None => None end
  else None.

(* an observation that takes no model step *)
Definition observe (s : st) (ok : bool) : option st := if ok then Some s else None.

Local Open Scope Z_scope.

Definition accept_ev (s : st) (e : list Z) : option st :=
  match e with (* numerals below are in Z *)
  | [1; p; _; v] => let p := Z.to_nat p in
      take s (ppc_eqb (pp (P s p)) PIdle && Z.ltb 0 v) (Push p (Z.to_nat v)) (fun _ => true)
  | [2; p; _; w] => let p := Z.to_nat p in
      take s (ppc_eqb (pp (P s p)) PLoad && Bool.eqb (tc s) (zclosing w)) (PStep p)
           (fun s' => Nat.eqb (li (P s' p)) (zidx w))
  | [3; p; _; ok] => let p := Z.to_nat p in
      take s (ppc_eqb (pp (P s p)) PCas) (PStep p)
           (fun s' => Bool.eqb (ppc_eqb (pp (P s' p)) PWrite) (znz ok))
  | [4; p; _; i] => let p := Z.to_nat p in
      take s (ppc_eqb (pp (P s p)) PWrite && Z.eqb (Z.of_nat (li (P s p))) i) (PStep p) (fun _ => true)
  | [5; p; _; _] => let p := Z.to_nat p in
      take s (ppc_eqb (pp (P s p)) PReady) (PStep p) (fun _ => true)
  | [7; p; _; _] => let p := Z.to_nat p in
      take s (ppc_eqb (pp (P s p)) PStore) (PStep p) (fun _ => true)
  | [14; p; _; _] => observe s (ppc_eqb (pp (P s (Z.to_nat p))) PIdle)
  | [8; _; _; _] => take s (cpc_eqb (cp s) CIdle) Pop (fun _ => true)
  | [9; _; _; v] => take s (cpc_eqb (cp s) CTry) CStep (fun s' => Bool.eqb (cpc_eqb (cp s') CCommit) (znz v))
  | [10; _; _; w] => take s (cpc_eqb (cp s) CTail && Nat.eqb (ti s) (zidx w) && Bool.eqb (tc s) (zclosing w)) CStep (fun _ => true)
  | [11; _; _; v] => take s (cpc_eqb (cp s) CSpin) CStep (fun s' => Bool.eqb (cpc_eqb (cp s') CCommit) (znz v))
  | [12; _; _; v] => take s (cpc_eqb (cp s) CCommit) CStep (fun s' => Z.eqb (Z.of_nat (hidx s')) v)
  | [13; _; some; v] => observe s (cpc_eqb (cp s) CIdle && Z.eqb (Z.of_nat (cv s)) (if znz some then v else 0))
  | _ => None
  end.

Fixpoint accept_all (s : st) (tr : list (list Z)) : option st :=
  match tr with
  | [] => Some s
  | e :: l => match accept_ev s e with Some s' => accept_all s' l | None => None end
  end.

(* the ghost monitors of the final state (theorems say they can never trip on a reachable state) *)
Definition monitors_ok (s : st) : bool := negb (bad_none s) && negb (bad_fifo s).

Lemma take_reach s pre a post s' : Reach B s -> take s pre a post = Some s' -> Reach B s'.
Proof.
  unfold take. intros R H. destruct pre; [|discriminate].
  destruct (step B s a) as [s1|] eqn:E; [|discriminate].
  destruct (post s1); [|discriminate]. inversion H; subst. eapply RS; eauto.
Qed.
Lemma observe_reach s ok s' : Reach B s -> observe s ok = Some s' -> Reach B s'.
Proof. unfold observe. intros R H. destruct ok; inversion H; subst; exact R. Qed.

Lemma accept_ev_reach s e s' : Reach B s -> accept_ev s e = Some s' -> Reach B s'.
Proof.
  intros R H. unfold accept_ev in H.
  repeat match type of H with
         | match ?x with _ => _ end = Some _ => destruct x; try discriminate
         end; eauto using take_reach, observe_reach.
Qed.

(* every state along an accepted trace of the implementation is a reachable state of the model *)
Theorem accept_all_reach tr : forall s s', Reach B s -> accept_all s tr = Some s' -> Reach B s'.
Proof.
  induction tr as [|e l IH]; cbn [accept_all]; intros s s' R H; [inversion H; subst; exact R|].
  destruct (accept_ev s e) as [s1|] eqn:E; [|discriminate]. eapply IH; [eapply accept_ev_reach; eauto | exact H].
Qed.
End A.
