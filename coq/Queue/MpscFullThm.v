(* The full mpsc invariant holds in every reachable state; the C03 theorems for the full model. *)
From Coq Require Import List Arith Bool Lia.
Import ListNotations.
Require Import MayV.Queue.MpscFullModel MayV.Queue.MpscFullInv MayV.Queue.MpscFullTac MayV.Queue.MpscFullFacts
  MayV.Queue.MpscFullPresP1 MayV.Queue.MpscFullPresP2 MayV.Queue.MpscFullPresP3 MayV.Queue.MpscFullPresC1 MayV.Queue.MpscFullPresC2.

Lemma map_nth_seq (l : list (nat * nat)) n : n <= length l ->
  map (fun j => snd (nth j l (0, 0))) (seq 0 n) = map snd (firstn n l).
Proof.
  revert n. induction l as [|x l IH]; intros n Hn; cbn in Hn.
  - assert (n = 0) by lia. subst. reflexivity.
  - destruct n as [|n]; [reflexivity|]. cbn [seq map firstn nth]. f_equal.
    rewrite <- seq_shift, map_map. cbn [nth]. apply IH. lia.
Qed.

Section S.
Variable B : nat.
Hypothesis Bpos : 1 <= B.
Notation Inv := (Inv B).
Notation step := (step B true).
Notation Reach := (Reach B true).
Set Default Proof Using "Bpos".

Theorem inv_step s a s' : Inv s -> step s a = Some s' -> Inv s'.
Proof.
  intros Hi H. destruct a as [p v|p x| | | | | |]; cbn [MpscFullModel.step] in H.
  - destruct (pp (P s p)) eqn:E; try discriminate. destruct (cdrop (C s)) eqn:D; [discriminate|]. inversion H; subst.
    apply pres_p_call; auto.
  - destruct (pp (P s p)) eqn:E; try discriminate; try (inversion H; subst).
    + apply pres_p_load; auto.
    + destruct (cas_ok s p) eqn:EC; [destruct (S (li (P s p)) <? B) eqn:EL|].
      * apply pres_p_cas_open; auto.
      * apply pres_p_cas_closing; auto.
      * apply pres_p_cas_fail; auto.
    + apply pres_p_write; auto.
    + destruct (S (li (P s p)) <? B) eqn:EL; [apply pres_p_ready_open | apply pres_p_ready_closing]; auto.
    + destruct (alloc_ok s x) eqn:AO; [|discriminate]. inversion H; subst. apply pres_p_alloc; auto.
    + apply pres_p_next; auto.
    + apply pres_p_link; auto.
    + apply pres_p_store; auto.
  - destruct (api_ok s) eqn:A; [|discriminate]. inversion H; subst. apply pres_c_start; auto. discriminate.
  - destruct (api_ok s) eqn:A; [|discriminate]. inversion H; subst. apply pres_c_start; auto. discriminate.
  - destruct (api_ok s) eqn:A; [|discriminate]. inversion H; subst. apply pres_c_start; auto. discriminate.
  - destruct (api_ok s) eqn:A; [|discriminate]. inversion H; subst. apply pres_c_start; auto. discriminate.
  - destruct (api_ok s && isnil (act (G s))) eqn:A; [|discriminate]. inversion H; subst. bools.
    apply pres_c_start; auto. intros _. split; auto. destruct (act (G s)); [auto|discriminate].
  - destruct (cp (C s)) eqn:E; try discriminate; inversion H; subst.
    + apply pres_c_try; auto.
    + apply pres_c_tail; auto.
    + apply pres_c_spin; auto.
    + apply pres_c_commit; auto.
    + apply pres_c_free; auto.
    + apply pres_c_next; auto.
    + apply pres_c_seth; auto.
    + apply pres_c_lenh; auto.
    + apply pres_c_lent; auto.
    + apply pres_d_head; auto.
    + apply pres_d_tail; auto.
    + apply pres_d_next; auto.
    + apply pres_d_free1; auto.
    + apply pres_d_free2; auto.
    + apply pres_d_old; auto.
Qed.

Theorem inv_reach s : Reach s -> Inv s.
Proof. induction 1; [apply inv_init; auto | eapply inv_step; eauto]. Qed.

(* ------------------------------------------------------------------ (i) exactly once, nothing invented *)
Theorem exactly_once s : Reach s ->
  popped (G s) ++ absq (G s) = map snd (firstn (nlin B s) (rlog (G s))) /\
  length (popped (G s)) = hidx (M s) /\
  nlin B s <= length (rlog (G s)) /\ length (rlog (G s)) <= S (nlin B s) /\
  (length (rlog (G s)) = S (nlin B s) -> tc (M s) = true).
Proof.
  intros R. pose proof (inv_reach s R) as Hi. destruct (I_abs _ _ Hi) as [A1 A2]. destruct (I_hd _ _ Hi) as [H1 _].
  pose proof (I_rl _ _ Hi) as RL. pose proof (nlin_le_nres B Bpos s) as LN.
  rsplit.
  - rewrite A1, A2. replace (nlin B s) with (hidx (M s) + (nlin B s - hidx (M s))) at 2 by lia.
    rewrite <- map_nth_seq by lia. rewrite <- (map_seq_app (rv s) 0). reflexivity.
  - rewrite A2. now rewrite map_length, seq_length.
  - lia.
  - rewrite RL. unfold nres, nlin. destruct (tc (M s)); cbn; [destruct (brdy _ _)|]; lia.
  - rewrite RL. unfold nres, nlin. destruct (tc (M s)); cbn; auto. lia.
Qed.

(* every slot between CAS and ready store has exactly one owner: two pushers there work on different slots *)
Theorem reserved_slots_have_one_owner s p q : Reach s -> p <> q ->
  (pp (P s p) = PWrite \/ pp (P s p) = PReady) -> (pp (P s q) = PWrite \/ pp (P s q) = PReady) ->
  (gk (P s p), li (P s p)) <> (gk (P s q), li (P s q)) /\
  nth (pslot B (P s p)) (rlog (G s)) (0, 0) = (p, pv (P s p)).
Proof.
  intros R N Pp Pq. pose proof (inv_reach s R) as Hi.
  assert (PW : forall r, pp (P s r) = PWrite \/ pp (P s r) = PReady -> pw_common B s r (P s r)).
  { intros r Hr. pose proof (I_p _ _ Hi r) as X. unfold pinv in X. destruct Hr as [E|E]; rewrite E in X; tauto. }
  split.
  - destruct (pw_distinct B Bpos s p q (PW p Pp) (PW q Pq) N); congruence.
  - destruct (PW p Pp) as (_&_&_&_&W5&_). exact W5.
Qed.

(* ------------------------------------------------------------------ (ii) FIFO answers, justified empty answers, len *)
Theorem monitors_never_trip s : Reach s -> monitors_ok s = true.
Proof. intros R. apply (I_mon _ _ (inv_reach s R)). Qed.

Lemma mon_parts s : monitors_ok s = true ->
  bad_uaf (F s) = false /\ bad_dfree (F s) = false /\ bad_over (F s) = false /\ bad_fifo (F s) = false /\
  bad_none (F s) = false /\ bad_len (F s) = false /\ bad_assert (F s) = false.
Proof.
  unfold monitors_ok. intros H. apply negb_true_iff in H. repeat (apply orb_false_elim in H; destruct H as [H ?]). rsplit; auto.
Qed.

Theorem pops_return_fifo_heads s : Reach s -> bad_fifo (F s) = false.
Proof. intros R. apply (mon_parts s (monitors_never_trip s R)). Qed.
Theorem empty_answers_justified s : Reach s -> bad_none (F s) = false.
Proof. intros R. apply (mon_parts s (monitors_never_trip s R)). Qed.
Theorem len_bounds s : Reach s -> bad_len (F s) = false.
Proof. intros R. apply (mon_parts s (monitors_never_trip s R)). Qed.

(* what a pop / bulk_pop is about to return at its linearisation point: a non-empty prefix of the abstract FIFO,
   inside one block *)
Theorem commit_returns_prefix s : Reach s -> cp (C s) = CCommit ->
  cacc (C s) = firstn (length (cacc (C s))) (absq (G s)) /\ 1 <= length (cacc (C s)) /\
  hidx (M s) + length (cacc (C s)) <= S (ghk (G s)) * B /\ ghk (G s) * B <= hidx (M s).
Proof.
  intros R Ecp. pose proof (inv_reach s R) as Hi. assert (Hp : pcls (cp (C s)) <= 2) by (rewrite Ecp; cbn; lia).
  pose proof (I_c _ _ Hi) as Hc. unfold cinv in Hc. rewrite Ecp in Hc. destruct Hc as (H1 & H2 & H3 & H4).
  pose proof (crd_lt' B Bpos s Hi Hp H2 H4) as CL. destruct H2 as (K1 & K2 & K3).
  destruct (I_abs _ _ Hi) as [AQ _]. pose proof (hpos_bounds B Bpos s Hi) as [Hb1 Hb2].
  rsplit; auto; try lia. rewrite AQ. rewrite firstn_map_seq by lia. exact K3.
Qed.

(* the abstract FIFO is the reserved values in slot order from the consumer's position to the linearisation bound *)
Theorem abstract_queue_is_slot_order s : Reach s ->
  absq (G s) = map (rv s) (seq (hidx (M s)) (nlin B s - hidx (M s))) /\ hidx (M s) <= nlin B s.
Proof. intros R. pose proof (inv_reach s R) as Hi. split; [apply (I_abs _ _ Hi) | apply (I_hd _ _ Hi)]. Qed.

(* ------------------------------------------------------------------ (iii) memory *)
Theorem no_use_after_free s : Reach s -> bad_uaf (F s) = false.
Proof. intros R. apply (mon_parts s (monitors_never_trip s R)). Qed.
Theorem no_double_free s : Reach s -> bad_dfree (F s) = false.
Proof. intros R. apply (mon_parts s (monitors_never_trip s R)). Qed.
Theorem no_slot_overwritten s : Reach s -> bad_over (F s) = false.
Proof. intros R. apply (mon_parts s (monitors_never_trip s R)). Qed.

(* every block address a pusher holds after its successful CAS, and every address the consumer holds, is allocated *)
Theorem held_blocks_are_allocated s : Reach s ->
  (forall p, inflight (P s p) = true -> issome (heap (M s) (lb (P s p))) = true) /\
  (forall p, pp (P s p) = PLink -> issome (heap (M s) (pnx (P s p))) = true) /\
  (pcls (cp (C s)) <= 2 -> issome (heap (M s) (hblk (M s))) = true /\ issome (heap (M s) (taddr (M s))) = true /\
                            (oldb (M s) <> 0 -> issome (heap (M s) (oldb (M s))) = true)).
Proof.
  intros R. pose proof (inv_reach s R) as Hi. rsplit.
  - intros p IF. destruct (inflight_live B Bpos s p Hi IF) as [LG _]. destruct (I_al _ _ Hi _ LG) as (A & _).
    pose proof (I_p _ _ Hi p) as Pp. unfold pinv, inflight in *. destruct (pp (P s p)); try discriminate.
    1,2: destruct Pp as [(_ & W2 & _) _]; rewrite W2; exact A.
    all: destruct Pp as [(_ & W2 & _) _]; rewrite W2; exact A.
  - intros p E. assert (IF : inflight (P s p) = true) by (unfold inflight; rewrite E; reflexivity).
    destruct (inflight_live B Bpos s p Hi IF) as [_ L1]. destruct (I_al _ _ Hi _ L1) as (A & _).
    pose proof (I_p _ _ Hi p) as Pp. unfold pinv in Pp. rewrite E in Pp. destruct Pp as (_ & _ & _ & N). rewrite N. exact A.
  - intros Hp. destruct (I_ptr _ _ Hi) as [T1 T2]. destruct (live_tail' B Bpos s Hi Hp) as [LT _]. pose proof (live_head' B Bpos s Hi Hp) as LH.
    destruct (I_al _ _ Hi _ LT) as (A1 & _). destruct (I_al _ _ Hi _ LH) as (A2 & _). rewrite T1, T2. rsplit; auto.
    intros NZ. pose proof (I_old _ _ Hi) as OLD. unfold oldrel in OLD.
    assert (OO : oldb (M s) = hblk (M s) \/ (oldb (M s) = badr (G s) (glo (G s)) /\ S (glo (G s)) = ghk (G s))).
    { destruct (cp (C s)); try (destruct OLD as [[? ?]|[? ?]]; [congruence | right; auto]); left; tauto. }
    destruct OO as [-> | [-> E]]; [rewrite T2; exact A2|].
    assert (LG : live s (glo (G s))) by (unfold live in *; rewrite (lhi_nblk B Bpos s Hp) in *; lia).
    apply (I_al _ _ Hi _ LG).
Qed.

(* a CAS that succeeds - also one that succeeds only because a freed address was issued again (ABA) - names the
   block that is the tail block now: the pusher's copy (address, index) IS the current tail word *)
Theorem successful_cas_names_the_tail_block s p : Reach s -> pp (P s p) = PCas -> cas_ok s p = true ->
  lb (P s p) = badr (G s) (gtk (G s)) /\ li (P s p) = ti (M s) /\ tc (M s) = false /\ live s (gtk (G s)) /\
  issome (heap (M s) (lb (P s p))) = true /\ bstart (blk_at s (lb (P s p))) = gtk (G s) * B.
Proof.
  intros R E EC. pose proof (inv_reach s R) as Hi. pose proof (active_nodrop B Bpos s p Hi ltac:(congruence)) as ND.
  destruct (live_tail B Bpos s Hi ND) as [LT _]. destruct (I_al _ _ Hi _ LT) as (A1 & A2 & _). destruct (I_ptr _ _ Hi) as [T1 _].
  unfold cas_ok in EC. bools. rewrite H, T1. unfold blkof in A2. rsplit; auto; try (destruct (tc (M s)); [discriminate|auto]).
Qed.

(* wait_next_block never has to wait, neither in push nor in the consumer *)
Theorem wait_next_block_never_waits s : Reach s ->
  (forall p, pp (P s p) = PNext -> bnext (blk_at s (lb (P s p))) <> 0) /\
  (cp (C s) = CNext -> bnext (blk_at s (hblk (M s))) <> 0).
Proof.
  intros R. pose proof (inv_reach s R) as Hi. split.
  - intros p E. assert (IF : inflight (P s p) = true) by (unfold inflight; rewrite E; reflexivity).
    destruct (inflight_live B Bpos s p Hi IF) as [LG L1]. pose proof (I_p _ _ Hi p) as Pp. unfold pinv in Pp. rewrite E in Pp.
    destruct Pp as ((_ & W2 & K & _) & _). rewrite W2. rewrite K in *. pose proof (I_ch _ _ Hi _ LG (le_n _)) as CH.
    unfold blkof in CH. rewrite CH. apply (I_al _ _ Hi _ L1).
  - intros Ecp. assert (Hp : pcls (cp (C s)) <= 2) by (rewrite Ecp; cbn; lia).
    pose proof (pres_c_next B Bpos s Hi Ecp) as Hn. pose proof (I_c _ _ Hn) as Hc.
    unfold c_next in *. destruct (bnext (blk_at s (hblk (M s))) =? 0) eqn:EZ; bools; auto.
    exfalso. unfold cinv, deref in Hc. sp. rewrite Ecp in Hc.
    (* the invariant of the successor state is the one of CNext again; use the chain clause instead *)
    pose proof (live_head' B Bpos s Hi Hp) as LH. destruct (I_hd _ _ Hi) as [HL HP]. unfold hpos in HP. rewrite Ecp in HP.
    pose proof (nlin_le_nres B Bpos s) as LN. destruct (I_ti _ _ Hi) as [TI1 TI2]. destruct (I_rng _ _ Hi) as (R1 & R2 & R3 & R4 & R5 & R6).
    assert (GK : ghk (G s) <= gtk (G s)).
    { destruct (nres_cases B Bpos s) as [[_ N]|[_ N]]; destruct (le_lt_dec (ghk (G s)) (gtk (G s))); auto; exfalso; nia. }
    pose proof (I_ch _ _ Hi _ LH GK) as CH. destruct (I_ptr _ _ Hi) as [_ T2]. unfold blkof, blk_at in *. rewrite T2 in EZ. rewrite CH in EZ.
    assert (L1 : live s (S (ghk (G s)))) by (unfold live; rewrite (lhi_nblk B Bpos s Hp); destruct LH; lia).
    destruct (I_al _ _ Hi _ L1) as (_ & _ & NZ). congruence.
Qed.

(* ------------------------------------------------------------------ (iv) drop *)
Theorem after_drop_everything_is_handed_out_and_freed s : Reach s -> cp (C s) = CDead ->
  (forall a, heap (M s) a = None) /\ absq (G s) = [] /\ popped (G s) = map snd (rlog (G s)) /\
  (forall p, pp (P s p) = PIdle) /\ bad_dfree (F s) = false /\ bad_assert (F s) = false.
Proof.
  intros R Ecp. pose proof (inv_reach s R) as Hi. pose proof (I_c _ _ Hi) as Hc. unfold cinv in Hc. rewrite Ecp in Hc. destruct Hc as [[D [K KH]] GL].
  destruct (drop_idle B Bpos s Hi D) as [IDL TF]. destruct (exactly_once s R) as (E1 & E2 & E3 & E4 & E5).
  destruct (mon_parts s (monitors_never_trip s R)) as (_ & M2 & _ & _ & _ & _ & M7).
  pose proof (I_rl _ _ Hi) as RL. destruct (I_abs _ _ Hi) as [A1 A2].
  assert (NN : nlin B s = hidx (M s) /\ length (rlog (G s)) = hidx (M s)).
  { rewrite RL. unfold nlin, nres. rewrite TF. cbn. lia. }
  destruct NN as [N1 N2].
  rsplit; auto.
  - intros a. apply (I_fr _ _ Hi). intros k [L1 L2]. unfold lhi in L2. rewrite Ecp in L2.
    pose proof (I_old _ _ Hi) as OLD. unfold oldrel in OLD. rewrite Ecp in OLD. destruct (I_rng _ _ Hi) as (?&?&?&?&?&?).
    lia.
  - rewrite A1, N1, Nat.sub_diag. reflexivity.
  - rewrite A2. unfold rv. rewrite map_nth_seq by lia. rewrite <- N2. now rewrite firstn_all.
Qed.
End S.
