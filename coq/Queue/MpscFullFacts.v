(* Facts derived from the full mpsc invariant, and the frame lemma for the consumer's assertion under pusher steps. *)
From Coq Require Import List Arith Bool Lia.
Import ListNotations.
Require Import MayV.Queue.MpscFullModel MayV.Queue.MpscFullInv MayV.Queue.MpscFullTac.

Lemma upd_true_mono (f : nat -> bool) i j : f j = true -> upd f i true j = true.
Proof. intros H. unfold upd. destruct (Nat.eqb j i); auto. Qed.
Lemma andb_upd_neq (c : bool) (f : nat -> bool) i0 t : (c = true -> t <> i0) -> c && upd f i0 true t = c && f t.
Proof. intros H. destruct c; cbn; auto. rewrite upd_neq; auto. Qed.


Section S.
Variable B : nat.
Hypothesis Bpos : 1 <= B.
Notation Inv := (Inv B).
Set Default Proof Using "Bpos".

Lemma active_nodrop s p : Inv s -> pp (P s p) <> PIdle -> cdrop (C s) = false.
Proof.
  intros Hi N. destruct (cdrop (C s)) eqn:D; auto. exfalso.
  pose proof (I_dr _ _ Hi D) as A. pose proof (I_act _ _ Hi p N) as I. rewrite A in I. destruct I.
Qed.
Lemma nodrop_lhi s : Inv s -> cdrop (C s) = false -> lhi s = nblk (G s).
Proof.
  intros Hi D. pose proof (I_c _ _ Hi) as Hc. unfold cinv, dropst, lhi in *.
  destruct (cp (C s)); auto; destruct Hc as [[? ?] ?] || destruct Hc as [? ?]; congruence.
Qed.
Lemma nodrop_cp s : Inv s -> cdrop (C s) = false -> cp (C s) <> DFree2 /\ cp (C s) <> DOld /\ cp (C s) <> CDead.
Proof.
  intros Hi D. pose proof (I_c _ _ Hi) as Hc. unfold cinv, dropst in *.
  destruct (cp (C s)); rsplit; try discriminate; exfalso; destruct Hc as [[? ?] ?] || destruct Hc as [? ?]; congruence.
Qed.
Lemma live_tail s : Inv s -> cdrop (C s) = false -> live s (gtk (G s)) /\ live s (S (gtk (G s))).
Proof.
  intros Hi D. unfold live. rewrite (nodrop_lhi _ Hi D). destruct (I_rng _ _ Hi) as (?&?&?&?&?&?). lia.
Qed.
Lemma live_head s : Inv s -> cdrop (C s) = false -> live s (ghk (G s)).
Proof.
  intros Hi D. unfold live. rewrite (nodrop_lhi _ Hi D). destruct (I_rng _ _ Hi) as (?&?&?&?&?&?). lia.
Qed.
Lemma nlin_cases s : nlin B s = gtk (G s) * B + ti (M s) \/ (tc (M s) = true /\ nlin B s = S (gtk (G s) * B + ti (M s))).
Proof. unfold nlin. destruct (tc (M s)); cbn; [destruct (brdy _ _)|]; lia. Qed.
Lemma nlin_le_nres s : nlin B s <= nres B s.
Proof. unfold nlin, nres. destruct (tc (M s)); cbn; [destruct (brdy _ _)|]; lia. Qed.
Lemma nres_cases s : (tc (M s) = false /\ nres B s = gtk (G s) * B + ti (M s)) \/ (tc (M s) = true /\ nres B s = S (gtk (G s) * B + ti (M s))).
Proof. unfold nres. destruct (tc (M s)); cbn; [right|left]; split; auto; lia. Qed.

(* the head position is inside or at the end of the head block *)
Lemma hpos_bounds s : Inv s -> ghk (G s) * B <= hidx (M s) /\ hidx (M s) <= S (ghk (G s)) * B.
Proof.
  intros Hi. destruct (I_hd _ _ Hi) as [_ H]. unfold hpos in H. destruct (cp (C s)); lia.
Qed.

(* everything the consumer has read in this call is linearised *)
Lemma crd_lt s : Inv s -> cdrop (C s) = false -> crd B s -> ck (C s) <= S (ghk (G s)) * B -> ck (C s) <= nlin B s.
Proof.
  intros Hi D (K1 & K2 & K3) Hk. destruct (I_hd _ _ Hi) as [H1 _]. pose proof (hpos_bounds s Hi) as [Hb1 Hb2].
  destruct (length (cacc (C s))) as [|n] eqn:L; [lia|].
  assert (J : hidx (M s) <= ck (C s) - 1 /\ ck (C s) - 1 < ck (C s)) by lia. destruct J as [J1 J2].
  specialize (K2 _ J1 J2).
  assert (Li : ck (C s) - 1 - ghk (G s) * B < B) by lia.
  destruct (I_sc _ _ Hi _ _ (live_head s Hi D) Li K2) as [_ Lt]. lia.
Qed.

(* the consumer's assertion is stable under pusher steps: the consumer's own state, head.index, head.block, the
   block sequence below the tail and the reservation log are unchanged or only grow *)
Lemma cinv_pstep s s' :
  Inv s -> cdrop (C s) = false ->
  C s' = C s -> hidx (M s') = hidx (M s) -> ghk (G s') = ghk (G s) -> saw (G s') = saw (G s) -> glen0 (G s') = glen0 (G s) ->
  gtk (G s) * B + ti (M s) <= gtk (G s') * B + ti (M s') -> gtk (G s) <= gtk (G s') ->
  length (absq (G s)) <= length (absq (G s')) ->
  (forall j, j < nlin B s -> rv s' j = rv s j) ->
  (forall i, i < B -> brdy (blkof s (ghk (G s))) i = true -> brdy (blkof s' (ghk (G s))) i = true) ->
  (ghk (G s) <= gtk (G s) -> badr (G s') (S (ghk (G s))) = badr (G s) (S (ghk (G s)))) ->
  cinv B s'.
Proof.
  intros Hi D EC EH EK ES EG Mt Mk Ml Er Ey Eb.
  pose proof (I_c _ _ Hi) as Hc. pose proof (hpos_bounds s Hi) as [Hb1 Hb2].
  assert (CR : crd B s -> ck (C s) <= S (ghk (G s)) * B -> crd B s').
  { intros CRD Hk. pose proof (crd_lt s Hi D CRD Hk) as Lt. destruct CRD as (K1 & K2 & K3).
    unfold crd. rewrite EC, EH, EK. repeat split; auto.
    - intros j J1 J2. apply Ey; auto. lia.
    - rewrite K3 at 1. apply map_seq_ext. intros j J1 J2. symmetry. apply Er. lia. }
  unfold cinv, dropst in *. rewrite EC, ?EH, ?EK, ?ES, ?EG in *.
  destruct (cp (C s)) eqn:Ecp; auto.
  - (* CTry *) destruct Hc as (H1 & H2 & H3 & H4 & H5). split; [exact H1|]. split; [apply CR; auto; lia|]. split; [exact H3|]. split; [exact H4|exact H5].
  - (* CTail *) destruct Hc as (H1 & H2 & H3 & H4 & H5). repeat split; auto. intros N. destruct (H4 N); auto. right. lia.
  - (* CSpin *) destruct Hc as (H1 & H2 & H3 & H4 & H5 & H6 & H7). split; [exact H1|]. split; [apply CR; auto; lia|]. split; [exact H3|]. split; [lia|]. split; [exact H5|]. split; [exact H6|exact H7].
  - (* CCommit *) destruct Hc as (H1 & H2 & H3 & H4). split; [exact H1|]. split; [apply CR; auto|]. split; [exact H3|exact H4].
  - (* CSetH *) destruct Hc as (H1 & H2). split; [rewrite Eb; auto | lia].
  - (* CLenH *) destruct Hc as (H1 & H2). split; auto. lia.
  - (* CLenT *) destruct Hc as (H1 & H2 & H3). repeat split; auto. lia.
  - destruct Hc; congruence.
  - destruct Hc as [[? ?] ?]; congruence.
  - destruct Hc as [[? ?] ?]; congruence.
  - destruct Hc as [[? ?] ?]; congruence.
  - destruct Hc as [[? ?] ?]; congruence.
  - destruct Hc; congruence.
  - destruct Hc as [[? ?] ?]; congruence.
Qed.
(* a pusher between its CAS and its ready store works on an allocated block *)
Lemma pw_live s p : Inv s -> pw_common B s p (P s p) -> pp (P s p) <> PIdle -> live s (gk (P s p)).
Proof.
  intros Hi (W1 & W2 & W3 & W4 & W5 & W6 & W7 & W8) N.
  pose proof (active_nodrop s p Hi N) as ND. unfold live. rewrite (nodrop_lhi s Hi ND).
  destruct (I_rng _ _ Hi) as (R1 & R2 & R3 & R4 & R5 & R6). pose proof (hpos_bounds s Hi) as [Hb1 Hb2].
  unfold pslot in *. split; [|lia].
  assert (ghk (G s) <= gk (P s p)); [|lia].
  destruct (le_lt_dec (ghk (G s)) (gk (P s p))); auto. exfalso. nia.
Qed.
(* two pushers between CAS and ready store own different slots *)
Lemma pw_distinct s p q : pw_common B s p (P s p) -> pw_common B s q (P s q) -> p <> q ->
  gk (P s p) <> gk (P s q) \/ li (P s p) <> li (P s q).
Proof.
  intros (W1 & W2 & W3 & W4 & W5 & _) (V1 & V2 & V3 & V4 & V5 & _) N.
  destruct (Nat.eq_dec (gk (P s p)) (gk (P s q))) as [e|]; auto. destruct (Nat.eq_dec (li (P s p)) (li (P s q))) as [e'|]; auto.
  exfalso. unfold pslot in *. rewrite e, e' in W5. rewrite W5 in V5. congruence.
Qed.


End S.
