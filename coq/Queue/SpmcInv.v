(* C04 - the inductive invariant of the spmc model, for any block size B >= 1 and for both allocator
   disciplines (reuse = true: a freed address may be issued again, so everything an actor loaded
   before its CAS may be stale in every way; the invariant therefore says nothing about those copies
   except what the actor itself checked). *)
From Coq Require Import List Arith Bool Lia.
Import ListNotations.
Require Import MayV.Queue.SpmcModel.

(* number of unreleased logical slots in [lo, lo + n) *)
Fixpoint cntu (f : nat -> bool) (lo n : nat) : nat :=
  match n with 0 => 0 | S m => (if f lo then 0 else 1) + cntu f (S lo) m end.

Section I.
Variable B : nat.
Variable reuse : bool.
Hypothesis Bpos : 1 <= B.
Notation step := (step B reuse).
Notation Reach := (Reach B reuse).

(* logical position of the head word *)
Definition HL (s : st) : nat := bstart (heap s (hb s)) + hi s.
Definition lockedB := locked B.

(* the actor owns the claim [glo, ghi) *)
Definition holds (x : ast) : bool :=
  match pc x with XS => negb (lockedB x) | XW | XG | XM | LK | LKr => true | _ => false end.
(* the actor owns the lock bit of the head word *)
Definition lockpc (x : ast) : bool :=
  match pc x with XS => lockedB x | XT | XR | XN | XH | XH2 => true | _ => false end.
Definition inpush (p : pcT) : bool := match p with OW | ON | OB | OC => true | _ => false end.

Definition val_at (s : st) (i : nat) : option nat := nth_error (pushed s) i.

(* what a claim owner knows *)
Definition claim_ok (s : st) (a : nat) (x : ast) : Prop :=
  glo x < ghi x /\ alive (heap s (lb x)) = true /\
  glo x = bstart (heap s (lb x)) + li x /\ ghi x <= bstart (heap s (lb x)) + B /\
  (forall i, glo x <= i < ghi x -> cl s i = Some a /\ rl s i = false /\ rd s i = match pc x with XM => true | _ => false end).
Definition lock_ok (s : st) (x : ast) : Prop := hl s = true /\ hb s = lb x /\ hi s = li x.
(* the owner's copies of its own words *)
Definition local_ok (s : st) (x : ast) : Prop := kd x = KLocal -> lpi x = tix s /\ ltb x = tbk s.

Definition ainv (s : st) (a : nat) : Prop :=
  let x := A s a in
  li x < B /\
  (kd x = KLocal \/ kd x = KPush -> a = 0) /\
  (inpush (pc x) = true -> kd x = KPush) /\
  match pc x with
  | Idle | Ext | OW | ON | OB | OC | X0 | E0 | E1 | E2 => True
  | X1 | X2 => kd x <> KLocal
  | XC => emptyck B x = false /\ nid x = newid B x /\ local_ok s x
  | XS => nid x < B /\ local_ok s x /\
          if lockedB x then lock_ok s x /\ (kd x = KLocal -> S (bstart (heap s (lb x)) + li x) <= tix s)
          else claim_ok s a x /\ ghi x = bstart (heap s (lb x)) + nexti x /\ (kd x = KLocal -> ghi x <= tix s)
  | XT => lock_ok s x /\ kd x <> KLocal /\ ppi x = bstart (heap s (lb x)) + li x /\ lockedB x = true
  | XR => lock_ok s x /\ kd x <> KLocal
  | XN => lock_ok s x /\ ppi x = bstart (heap s (lb x)) + li x /\ pend x = bstart (heap s (lb x)) + B /\ pend x <= tix s
  | XH => lock_ok s x /\ ppi x = bstart (heap s (lb x)) + li x /\ pend x = bstart (heap s (lb x)) + B /\ pend x <= tix s /\
          lnx x = Some (badr s (S (bno (heap s (lb x))))) /\ S (bno (heap s (lb x))) < nblk s
  | XH2 => lock_ok s x /\ ppi x = bstart (heap s (lb x)) + li x /\ ppi x < pend x /\ pend x < bstart (heap s (lb x)) + B /\ pend x <= tix s
  | XW => claim_ok s a x /\ ppi x = glo x /\ pend x = ghi x
  | XG => claim_ok s a x /\ ppi x = glo x /\ pend x = ghi x /\ pend x <= tix s
  | XM => claim_ok s a x /\ ppi x = glo x /\ pend x = ghi x /\ pend x <= tix s /\
          res x = map (val_at s) (seq (glo x) (ghi x - glo x))
  | LK | LKr => False
  end.

Record Inv (s : st) : Prop := {
  IHd : hi s < B /\ alive (heap s (hb s)) = true;
  (* tail: the newest block, tail.block, tail.index, the push in progress *)
  ITl : 1 <= nblk s /\
        let p := pc (A s 0) in
        (if match p with OB => true | _ => false end
         then 2 <= nblk s /\ tbk s = badr s (nblk s - 2) /\ lnew (A s 0) = badr s (nblk s - 1)
         else tbk s = badr s (nblk s - 1)) /\
        match p with
        | OW => length (pushed s) = tix s /\ (nblk s - 1) * B <= tix s < nblk s * B
        | ON => length (pushed s) = S (tix s) /\ S (tix s) = nblk s * B
        | OB => length (pushed s) = S (tix s) /\ S (tix s) = (nblk s - 1) * B
        | OC => length (pushed s) = S (tix s) /\ (nblk s - 1) * B <= S (tix s) < nblk s * B
        | _ => length (pushed s) = tix s /\ (nblk s - 1) * B <= tix s < nblk s * B
        end;
  (* live blocks *)
  IBk : forall b, alive (heap s b) = true ->
        let k := bno (heap s b) in
        k < nblk s /\ badr s k = b /\ bstart (heap s b) = k * B /\ 0 < used (heap s b) /\
        used (heap s b) = cntu (rl s) (k * B) B /\
        (S k < nblk s -> next (heap s b) = Some (badr s (S k))) /\
        (forall j, j < B -> k * B + j < length (pushed s) -> slots (heap s b) j = val_at s (k * B + j));
  (* a logical block with an unreleased slot is live at its recorded address *)
  ILv : forall k i, k < nblk s -> k * B <= i < k * B + B -> rl s i = false ->
        alive (heap s (badr s k)) = true /\ bno (heap s (badr s k)) = k;
  (* claims are exactly the indices below the head *)
  ICl : forall i, cl s i <> None <-> i < HL s;
  IRd : forall i, (rl s i = true -> rd s i = true) /\ (rd s i = true -> cl s i <> None);
  (* an unreleased claimed slot belongs to a pending operation *)
  IPd : forall i a, cl s i = Some a -> rl s i = false -> holds (A s a) = true /\ glo (A s a) <= i < ghi (A s a);
  (* the log of values handed out *)
  IGt : forall a i v, In (a, i, v) (got s) -> rd s i = true /\ cl s i = Some a /\ v = val_at s i /\ i < tix s;
  IGn : NoDup (map (fun g => snd (fst g)) (got s));
  IGr : forall i, rd s i = true -> In i (map (fun g => snd (fst g)) (got s));
  (* the lock bit has one owner (what the owner knows is part of [ainv]) *)
  ILu : forall a a', lockpc (A s a) = true -> lockpc (A s a') = true -> a = a';
  IAc : forall a, ainv s a;
  IMn : bad_uaf s = false /\ bad_under s = false /\ bad_null s = false
}.

End I.
