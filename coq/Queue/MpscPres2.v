From Coq Require Import List Arith Bool Lia.
Import ListNotations.
Require Import MayV.Queue.MpscCore MayV.Queue.MpscInv MayV.Queue.MpscPres.

Section S.
Variable B : nat.
Hypothesis Bpos : 1 <= B.
Notation step := (step B).
Notation Inv := (Inv B).

Lemma pres_E s a s' : Inv s -> step s a = Some s' -> hidx s' <= lpb B s'.
Proof.
  intros Hi H. pose proof (IE _ _ Hi) as E. pose proof (lpb_mono B Bpos _ _ _ Hi H) as Hm.
  pose proof (IG _ _ Hi) as G. pose proof (IC _ _ Hi (hidx s)) as C.
  step_cases H; cbn [hidx] in *; try lia.
  (* commit: hidx+1 <= lpb because the committed slot is ready, hence below the LP bound *)
  specialize (G eq_refl). destruct G as [G1 G2]. specialize (C G1). destruct C as [_ C].
  unfold lpb in *. cbn [tk ti tc srdy] in *. lia.
Qed.

Lemma pres_G s a s' : Inv s -> step s a = Some s' -> cp s' = CCommit -> srdy s' (hidx s') = true /\ cv s' = rv s' (hidx s').
Proof.
  intros Hi H. pose proof (IG _ _ Hi) as G. pose proof (IC _ _ Hi (hidx s)) as C. pose proof (IE _ _ Hi) as E.
  pose proof (lpb_le_res B Bpos s) as Hlr.
  step_cases H; cbn [tk ti tc sval srdy hidx P cp cv saw rv absq bad_none bad_fifo] in *; try discriminate; auto; bools.
  all: try (intros Hc; specialize (G Hc); destruct G as [G1 G2]; split; upd_tac; auto; try congruence).
  all: try assumption.
  all: try (intros _; match goal with Er : srdy _ (hidx _) = true |- _ => specialize (C Er); destruct C as [C1 C2]; rewrite C1; split; auto end).
  all: try (specialize (C G1); destruct C as [C1 C2]; unfold lpb, res in *; cbn [tk ti tc srdy] in *; exfalso; crush; splitb; crush).
  all: try (intros _; destruct (C eq_refl) as [C1 C2]; rewrite C1; split; auto).
  all: try (intros Hc; congruence).
Qed.

Lemma pres_H s a s' : Inv s -> step s a = Some s' -> cp s' = CTail -> saw s' = true \/ hidx s' < tk s' * B + ti s'.
Proof.
  intros Hi H. pose proof (IH _ _ Hi) as Hh. pose proof (IE _ _ Hi) as E. pose proof (IF _ _ Hi) as F.
  destruct (IA _ _ Hi) as [A1 A2].
  step_cases H; cbn [tk ti tc sval srdy hidx P cp cv saw rv absq bad_none bad_fifo] in *; try discriminate; auto; bools.
  all: try (intros Hc; specialize (Hh Hc); destruct Hh as [Hh|Hh]; [left; assumption | right; try lia]).
  all: try (intros Hc; congruence).
  - (* store: the tail index only grows *)
    p_facts Hi p. crush.
  - (* try_get saw an unpublished slot: either the abstract queue is empty now, or the slot is already reserved *)
    intros _. unfold lpb in *.
    destruct (Nat.eq_dec (tk s * B + ti s + (if tc s && srdy s (tk s * B + ti s) then 1 else 0)) (hidx s)) as [e|ne].
    + left. rewrite F, e, Nat.sub_diag. cbn. apply orb_true_r.
    + destruct (tc s && srdy s (tk s * B + ti s)) eqn:Eb; [|right; lia].
      apply andb_prop in Eb. destruct Eb as [_ Eb].
      destruct (Nat.eq_dec (hidx s) (tk s * B + ti s)) as [e2|ne2]; [rewrite <- e2 in Eb; congruence | right; lia].
Qed.

Lemma pres_M s a s' : Inv s -> step s a = Some s' -> bad_none s' = false /\ bad_fifo s' = false.
Proof.
  intros Hi H. destruct (IM _ _ Hi) as [M1 M2]. pose proof (IH _ _ Hi) as Hh. pose proof (IF _ _ Hi) as F.
  pose proof (IG _ _ Hi) as G. pose proof (IC _ _ Hi (hidx s)) as C.
  step_cases H; cbn [tk ti tc sval srdy hidx P cp cv saw rv absq bad_none bad_fifo] in *; auto; bools.
  - (* None returned: justified because the consumer saw the abstract queue empty *)
    split; auto. rewrite M1. cbn. destruct (Hh eq_refl) as [Hs|Hs]; [rewrite Hs; reflexivity | lia].
  - (* commit: the value read is the abstract head *)
    split; auto. rewrite M2. cbn. destruct (G eq_refl) as [G1 G2]. destruct (C G1) as [_ C2].
    rewrite F. destruct (lpb B s - hidx s) eqn:El; [lia|]. cbn. rewrite G2, Nat.eqb_refl. reflexivity.
Qed.
End S.
