(* C04 - (iii) without address reuse no claimer ever waits: a second overlay on the invariant, for the allocator that
   never issues an address twice.  The copies an actor loads before its CAS are then justified by monotonicity
   (head and tail only move forward, a block header is never overwritten), so every claim ends at or below tail.index. *)
From Coq Require Import List Arith Bool Lia.
Import ListNotations.
Require Import MayV.Queue.SpmcModel MayV.Queue.SpmcInv MayV.Queue.SpmcTac MayV.Queue.SpmcFacts MayV.Queue.SpmcPresG1 MayV.Queue.SpmcPresA1 MayV.Queue.SpmcPresA2 MayV.Queue.SpmcThm.
Ltac cas_ok Ec :=
  let E1 := fresh "E" in
  apply andb_prop in Ec; destruct Ec as [E1 Hhl]; apply andb_prop in E1; destruct E1 as [Hhb Hhi];
  apply Nat.eqb_eq in Hhb; apply Nat.eqb_eq in Hhi; apply negb_true_iff in Hhl.
Section S.
Variable B : nat. Hypothesis Bpos : 1 <= B.
Notation step := (step B false). Notation Inv := (Inv B). Notation Reach := (Reach B false).

(* logical start of the block at address b (meaningful for every address ever issued: without reuse its
   header is never overwritten) *)
Definition bs (s : st) (b : nat) : nat := bno (heap s b) * B.

Definition nw (s : st) (a : nat) : Prop :=
  let x := A s a in
  match pc x with
  | X1 => born s (lb x) = true /\ bs s (lb x) + li x <= HL s
  | X2 => born s (lb x) = true /\ bs s (lb x) + li x <= HL s /\ bs s (lb x) + li x <= lpi x <= tix s
  | XC => kd x <> KLocal ->
          born s (lb x) = true /\ bs s (lb x) + li x <= HL s /\ bs s (lb x) + li x <= lpi x <= tix s /\
          (ltb x = lb x -> lpi x < bs s (lb x) + B) /\ (ltb x <> lb x -> bs s (lb x) + B <= S (tix s))
  | _ => True
  end.

Record Inv3 (s : st) : Prop := {
  NB : forall b, born s b = true -> bno (heap s b) < nblk s /\ badr s (bno (heap s b)) = b /\ bstart (heap s b) = bs s b;
  NA : forall b, alive (heap s b) = true -> born s b = true;
  NH : HL s <= tix s;
  NW : forall a, nw s a
}.

Lemma HL_eq s : Inv s -> HL s = bs s (hb s) + hi s.
Proof. intros Hi. destruct (head_facts _ Bpos _ Hi) as (_ & _ & _ & F4 & _). exact F4. Qed.

(* the head never moves backwards *)
Lemma HL_mono s ac s' : Inv s -> step s ac = Some s' -> HL s <= HL s'.
Proof.
  intros Hi H. assert (Hi' : Inv s') by (eapply inv_step; eauto).
  destruct (Nat.le_gt_cases (HL s) (HL s')) as [L|L]; [exact L|exfalso].
  (* the slot just below the old head is claimed, and claims are never withdrawn *)
  assert (C : cl s (HL s') <> None) by (apply (ICl _ _ Hi); lia).
  assert (C' : cl s' (HL s') = None) by (apply (unrel_above _ Bpos s' _ Hi'); lia).
  apply C. clear L.
  step_cases H; simp; auto.
  all: simp; unfold HL in *; simp.
  all: try exact C'.
  all: revert C'; updr_all; congruence.
Qed.

Lemma pres_NB s ac s' : Inv s -> Inv3 s -> step s ac = Some s' ->
  forall b, born s' b = true -> bno (heap s' b) < nblk s' /\ badr s' (bno (heap s' b)) = b /\ bstart (heap s' b) = bs s' b.
Proof.
  intros Hi H3 H b Hb. pose proof (NB _ H3 b) as N. destruct (tail_facts _ Bpos _ Hi) as (TA & TB).
  destruct (ITl _ _ Hi) as (T1 & T2 & T3). cbn zeta in *. unfold bs in *.
  step_cases H; simp; auto.
  all: try (a_facts Hi a).
  - (* OW *) destruct (Nat.eq_dec b (tbk s)) as [->|ne]; [rewrite upd_eq | rewrite upd_neq by auto]; simp; auto.
  - destruct (Nat.eq_dec b (tbk s)) as [->|ne]; [rewrite upd_eq | rewrite upd_neq by auto]; simp; auto.
  - (* ON *) bools. cbn [orb] in *. bools.
    assert (Hx : x <> tbk s) by (intro Q; subst x; congruence).
    destruct (Nat.eq_dec b x) as [->|nx].
    + rewrite (upd_neq _ (tbk s) x) by auto. rewrite upd_eq. cbn [fresh_blk bno bstart]. rewrite upd_eq.
      assert (a = 0) by (destruct (Nat.eq_dec a 0) as [|Hne]; [assumption | owner_only Ha Hne]). subst a. rewrite Epc in *. cbn beta iota in *.
      repeat split; lia.
    + rewrite upd_neq in Hb by auto. specialize (N Hb). destruct N as (N1 & N2 & N3).
      destruct (Nat.eq_dec b (tbk s)) as [->|nt]; [rewrite upd_eq; rewrite upd_neq by auto | rewrite !upd_neq by auto]; simp.
      all: repeat split; auto; try lia; rewrite upd_neq by lia; auto.
  - (* XM *) destruct (Nat.eq_dec b (lb (A s a))) as [->|ne]; [rewrite upd_eq | rewrite upd_neq by auto]; simp; auto.
  - destruct (Nat.eq_dec b (lb (A s a))) as [->|ne]; [rewrite upd_eq | rewrite upd_neq by auto]; simp; auto.
  - exfalso; lia.
Qed.

Lemma pres_NA s ac s' : Inv s -> Inv3 s -> step s ac = Some s' -> forall b, alive (heap s' b) = true -> born s' b = true.
Proof.
  intros Hi H3 H b Hb. pose proof (NA _ H3 b) as N.
  step_cases H; simp; auto.
  all: try (a_facts Hi a).
  - destruct (Nat.eq_dec b (tbk s)) as [->|ne]; [rewrite upd_eq in Hb | rewrite upd_neq in Hb by auto]; simp; auto.
  - destruct (Nat.eq_dec b (tbk s)) as [->|ne]; [rewrite upd_eq in Hb | rewrite upd_neq in Hb by auto]; simp; auto.
  - destruct (Nat.eq_dec b x) as [->|nx]; [rewrite upd_eq; reflexivity | rewrite upd_neq by auto].
    destruct (Nat.eq_dec b (tbk s)) as [->|nt]; [rewrite upd_eq in Hb; rewrite upd_neq in Hb by auto | rewrite !upd_neq in Hb by auto]; simp; auto.
  - destruct (Nat.eq_dec b (lb (A s a))) as [->|ne]; [rewrite upd_eq in Hb | rewrite upd_neq in Hb by auto]; simp; auto.
    apply andb_prop in Hb. tauto.
  - destruct (Nat.eq_dec b (lb (A s a))) as [->|ne]; [rewrite upd_eq in Hb | rewrite upd_neq in Hb by auto]; simp; auto.
    apply andb_prop in Hb. tauto.
  - exfalso; lia.
Qed.

Lemma mod_in_block k t : k * B <= t < k * B + B -> t mod B = t - k * B.
Proof. intros H. replace t with (k * B + (t - k * B)) at 1 by lia. apply mod_block; auto. lia. Qed.

Lemma pres_NH s ac s' : Inv s -> Inv3 s -> step s ac = Some s' -> HL s' <= tix s'.
Proof.
  intros Hi H3 H. pose proof (NH _ H3) as N.
  pose proof (head_facts _ Bpos _ Hi) as HF. cbn zeta in HF. destruct HF as (F1 & F2 & F3 & F4 & F5 & _).
  destruct (IHd _ _ Hi) as (_ & HD2).
  pose proof (NW _ H3 (actor_of ac)) as Nw. unfold nw in Nw.
  destruct (tail_facts _ Bpos _ Hi) as (TA & TB). destruct (ITl _ _ Hi) as (T1 & T2 & T3). cbn zeta in *.
  unfold HL in *.
  step_cases H; cbn [actor_of] in *; simp; auto.
  all: try (a_facts Hi a).
  all: try solve [ut; fin].
  - (* ON *) bools. ut; fin.
  - (* XC claim *) cas_ok Ec. rewrite Epc in Nw. destruct Ha as (Hli & Hk & _ & He & Hn & Hl).
    pose proof (nexti_bounds _ Bpos _ Hli He Hn Ec0) as NBd. unfold nexti, locked, emptyck, newid, local_ok in *.
    destruct (kd (A s a)) eqn:K; cbn [is_bulk] in *.
    2:{ (* the owner: its tail.index is exact *)
        assert (a = 0) by auto. subst a. destruct (Hl eq_refl) as (Q1 & Q2). rewrite Epc in *. cbn beta iota in *.
        assert (HL s < tix s).
        { apply (head_below_tail B Bpos); auto; [tauto|]. intros (R1 & R2). rewrite <- Hhb, <- Hhi, Q1, Q2 in *.
          rewrite R1, Nat.eqb_refl in He. cbn [andb] in He. apply Nat.leb_gt in He. lia. }
        unfold HL in *. lia. }
    all: specialize (Nw ltac:(discriminate)); destruct Nw as (W1 & W2 & W3 & W4 & W5); unfold bs in *; rewrite <- Hhb, <- Hhi in *.
    all: destruct (hb s =? ltb (A s a)) eqn:Eq; [apply Nat.eqb_eq in Eq; symmetry in Eq; specialize (W4 Eq); cbn [andb] in He
                                                   | apply Nat.eqb_neq in Eq; assert (Eq' : ltb (A s a) <> hb s) by congruence; specialize (W5 Eq') ].
    all: try (rewrite (mod_in_block (bno (heap s (hb s)))) in * by lia).
    all: try (apply Nat.leb_gt in He).
    all: try (apply Nat.eqb_neq in Ec0).
    all: try lia.
  - (* XR *) destruct Ha as (_ & _ & _ & (L1 & L2 & L3) & _). rewrite <- L2, <- L3. exact N.
  - (* XH *) destruct Ha as (Hli & _ & _ & (L1 & L2 & L3) & P1 & P2 & P3 & Nx & Nb). rewrite <- L2 in *.
    assert (n = badr s (S (bno (heap s (hb s))))) by congruence. subst n.
    destruct (next_block B Bpos s Hi Nb) as (N1 & N2 & N3). rewrite N3. lia.
  - destruct Ha as (_ & _ & _ & _ & _ & _ & _ & Nx & _). congruence.
  - (* XH2 *) destruct Ha as (Hli & _ & _ & (L1 & L2 & L3) & P1 & P2 & P3 & P4). rewrite <- L2 in *.
    rewrite (mod_in_block (bno (heap s (hb s)))) by lia. lia.
Qed.


Lemma tix_mono s ac s' : Inv s -> step s ac = Some s' -> tix s <= tix s'.
Proof. intros Hi H. step_cases H; simp; auto. all: a_facts Hi a; exfalso; lia. Qed.

(* without reuse the header of an address that was ever issued is never overwritten *)
Lemma born_persist s ac s' b : Inv s -> Inv3 s -> step s ac = Some s' -> born s b = true ->
  born s' b = true /\ bno (heap s' b) = bno (heap s b).
Proof.
  intros Hi H3 H Hb.
  step_cases H; simp; auto.
  all: try (a_facts Hi a).
  - destruct (Nat.eq_dec b (tbk s)) as [->|ne]; [rewrite upd_eq | rewrite upd_neq by auto]; simp; auto.
  - destruct (Nat.eq_dec b (tbk s)) as [->|ne]; [rewrite upd_eq | rewrite upd_neq by auto]; simp; auto.
  - bools. cbn [orb] in *. bools. assert (b <> x) by (intro; subst; congruence). rewrite (upd_neq _ x b) by auto. split; auto.
    destruct (Nat.eq_dec b (tbk s)) as [->|nt]; [rewrite upd_eq; rewrite upd_neq by auto | rewrite !upd_neq by auto]; simp; auto.
  - destruct (Nat.eq_dec b (lb (A s a))) as [->|ne]; [rewrite upd_eq | rewrite upd_neq by auto]; simp; auto.
  - destruct (Nat.eq_dec b (lb (A s a))) as [->|ne]; [rewrite upd_eq | rewrite upd_neq by auto]; simp; auto.
  - exfalso; lia.
Qed.

Lemma nw_other s ac s' a' : Inv s -> Inv3 s -> step s ac = Some s' -> a' <> actor_of ac -> nw s' a'.
Proof.
  intros Hi H3 H Hne. pose proof (NW _ H3 a') as N. unfold nw in *.
  rewrite (step_other B false s ac s' a' H Hne). pose proof (HL_mono s ac s' Hi H) as HM. pose proof (tix_mono s ac s' Hi H) as TM.
  assert (BP : born s (lb (A s a')) = true -> born s' (lb (A s a')) = true /\ bs s' (lb (A s a')) = bs s (lb (A s a'))).
  { intros Q. destruct (born_persist s ac s' _ Hi H3 H Q) as (Q1 & Q2). unfold bs. rewrite Q2. auto. }
  destruct (pc (A s a')); auto.
  - destruct N as (N1 & N2). destruct (BP N1) as (-> & ->). split; auto; lia.
  - destruct N as (N1 & N2 & N3). destruct (BP N1) as (-> & ->). repeat split; auto; lia.
  - intros K. destruct (N K) as (N1 & N2 & N3 & N4 & N5). destruct (BP N1) as (-> & ->). repeat split; auto; try lia.
Qed.

Lemma blk_le k i k' j : k * B + i <= k' * B + j -> j < B -> k <= k'.
Proof.
  intros H Hj. destruct (Nat.le_gt_cases k k') as [L|L]; [exact L|exfalso].
  assert (S k' * B <= k * B) by (apply Nat.mul_le_mono_r; lia). lia.
Qed.

(* tail.index lies in the block tail.block points to, or is the last index before it *)
Lemma tix_in_tail s : Inv s -> bno (heap s (tbk s)) * B <= S (tix s) /\ tix s < bno (heap s (tbk s)) * B + B.
Proof.
  intros Hi. destruct (tail_facts _ Bpos _ Hi) as (TA & TB). destruct (ITl _ _ Hi) as (T1 & T2 & T3). cbn zeta in *.
  pose proof (pred_mul _ Bpos _ T1) as PM. rewrite TB.
  destruct (pc (A s 0)); try lia.
  destruct T2 as (T2 & _). pose proof (pred_mul _ Bpos (nblk s - 1) ltac:(lia)) as PM2.
  replace (nblk s - 1 - 1) with (nblk s - 2) in PM2 by lia. lia.
Qed.

Lemma nw_own s ac s' : Inv s -> Inv3 s -> step s ac = Some s' -> nw s' (actor_of ac).
Proof.
  intros Hi H3 H. pose proof (NW _ H3 (actor_of ac)) as N. pose proof (NH _ H3) as NHd.
  pose proof (HL_eq s Hi) as HE. destruct (IHd _ _ Hi) as (HD1 & HD2). pose proof (NA _ H3 _ HD2) as BH.
  destruct (tail_facts _ Bpos _ Hi) as (TA & TB). destruct (ITl _ _ Hi) as (T1 & T2 & T3). cbn zeta in *.
  pose proof (pred_mul _ Bpos _ T1) as PM. pose proof (NA _ H3 _ TA) as BT.
  destruct (NB _ H3 _ BT) as (BT1 & BT2 & BT3). destruct (NB _ H3 _ BH) as (BH1 & BH2 & BH3).
  unfold nw in *.
  step_cases H; cbn [actor_of] in *; simp; rewrite ?upd_eq; simp; auto.
  all: try exact N.
  all: rewrite Epc in N.
  all: try (destruct k; cbn [entry]; exact I).
  all: unfold HL, bs in *; simp.
  - intros K. match goal with E : is_local _ = true |- _ => apply is_local_true in E end. congruence.
  - split; auto. lia.
  - destruct N as (N1 & N2). repeat split; auto; lia.
  - intros K. destruct N as (N1 & N2 & N3). destruct (NB _ H3 _ N1) as (L1 & L2 & L3). destruct (tix_in_tail s Hi) as (TT1 & TT2).
    assert (LE1 : bno (heap s (lb (A s a))) <= bno (heap s (hb s))) by (apply (blk_le _ (li (A s a)) _ (hi s)); [lia | exact HD1]).
    assert (LE2 : bno (heap s (hb s)) <= bno (heap s (tbk s))) by (eapply (blk_le _ (hi s) _ (tix s - bno (heap s (tbk s)) * B)); lia).
    repeat split; auto; try lia.
    + intros Q. rewrite Q in *. lia.
    + intros Q. assert (bno (heap s (lb (A s a))) <> bno (heap s (tbk s))) by (intro E; apply Q; rewrite <- BT2, <- L2, E; reflexivity).
      assert (S (bno (heap s (lb (A s a)))) * B <= bno (heap s (tbk s)) * B) by (apply Nat.mul_le_mono_r; lia). lia.
  - intros K. match goal with E : is_local _ = true |- _ => apply is_local_true in E end. congruence.
  - split; auto. lia.
Qed.

Lemma inv3_step s ac s' : Inv s -> Inv3 s -> step s ac = Some s' -> Inv3 s'.
Proof.
  intros Hi H3 H. constructor.
  - eapply pres_NB; eauto.
  - eapply pres_NA; eauto.
  - eapply pres_NH; eauto.
  - intros a. destruct (Nat.eq_dec a (actor_of ac)) as [->|Hne]; [eapply nw_own; eauto | eapply nw_other; eauto].
Qed.

Lemma inv3_init : Inv3 (init B).
Proof.
  constructor; cbn.
  - intros b Hb. apply Nat.eqb_eq in Hb. subst. cbn. unfold bs. cbn. repeat split; lia.
  - intros b Hb. destruct (Nat.eqb_spec b 0); [reflexivity | discriminate].
  - unfold HL. cbn. lia.
  - intros a. unfold nw. cbn. exact I.
Qed.

Theorem inv3_reach s : Reach s -> Inv3 s.
Proof.
  intros R. induction R; [apply inv3_init|]. eapply inv3_step; eauto. apply (inv_reach B false Bpos). assumption.
Qed.

(* (iii) Without address reuse no claim ever reaches beyond tail.index: the head never passes the tail, and a
   claimer that arrives at the wait loop finds its whole range filled - the 10 ms sleep is never entered.
   Waiting for the owner's next push is therefore exactly the ABA phenomenon. *)
Theorem head_never_passes_tail s : Reach s -> HL s <= tix s.
Proof. intros R. exact (NH _ (inv3_reach s R)). Qed.

Theorem no_wait_without_reuse s a : Reach s -> pc (A s a) = XW -> pend (A s a) <= tix s.
Proof.
  intros R E. pose proof (inv_reach B false Bpos s R) as Hi. pose proof (NH _ (inv3_reach s R)) as N.
  pose proof (IAc _ _ Hi a) as Ha. unfold ainv in Ha. rewrite E in Ha. destruct Ha as (_ & _ & _ & Hc & Pp & Pe).
  destruct (claim_facts _ Bpos _ _ _ Hi Hc) as (_ & _ & _ & _ & _ & _ & K7 & _). lia.
Qed.
End S.
