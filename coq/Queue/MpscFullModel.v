(* C03 - full model of may_queue::mpsc::Queue (/repo/may_queue/src/mpsc.rs), block size B.
   Definitions only.  One transition per shared access of the Rust code, in program order:

     push      tail.load | tail.CAS (reserve; the last index of a block sets the closing bit instead of
               advancing) | slot write | ready.store | for the last index of a block: new_box(block.start + 2B)
               (reads block.start) | block.next.load (wait_next_block, a loop) | next_block.next.store |
               tail.store(next_block)
     pop       try_get = ready.load (+ value read) | push_index() = tail.load (+ read of tail_block.start) |
               get = ready.load loop | head.index.store (LP) | at a block end: old_block.replace(head) (frees
               the block retired one block earlier) | head.next.load (wait_next_block) | head.block.store
     bulk_pop  fast path: one try_get per slot up to the block end or the first slot that is not ready |
               slow path: push_index(), end = min(push_index, block end), one get per slot | head.index.store |
               block end as in pop
     peek      push_index() | ready.load loop (+ value read)
     len       head.index.load | push_index()                      (is_empty = (len() == 0))
     drop      pop until None | head.block.load | tail.load (assert_eq) | block.next.load (assert non-null) |
               free(next_block) | free(block) (locals are dropped in reverse order of declaration) |
               the field old_block is dropped (freed if Some)

   Blocks live in a heap [addr -> option blk]; the allocator action chooses ANY free non-null address
   (argument x of PStep), so a freed address may be issued again: ABA on the tail word, which packs the
   block ADDRESS, the index and the closing bit, is in scope.  Pushers are unbounded (nat -> pst); there
   is one consumer.  Unsynchronised loads of head.index / head.block by the consumer (the only writer)
   are folded into the next transition; the value read of a slot is folded into the ready.load that saw 1
   (monitor bad_over: a slot write never hits a slot that is ready or already written).
   [delay = true] is the code as it is: the block the consumer leaves is parked in old_block and freed one
   block later.  [delay = false] is the variant without that delay (the retired block is freed right after
   head.block.store); it only exists for the refutation witness.

   Ghost state G (never read by a transition except to compute other ghost values / monitors):
     rlog      reservation log: (pusher, value) in slot order, appended by the successful CAS
     absq      abstract FIFO; LP(push) = the reserving CAS, for the last index of a block the ready.store;
               LP(pop / bulk_pop) = the head.index.store
     popped    values handed out so far (pop, bulk_pop, and the pops of drop)
     saw       the abstract queue was empty at some transition of the current pop / bulk_pop
     glen0     abstract length when the current len() was called
     badr k    address of the k-th block of the chain (logical block number k), nblk = blocks allocated,
               gtk / ghk = logical numbers of the tail block / head block, glo = the oldest block not yet freed,
               gcl = the pusher that set the closing bit last, act = pushers inside a push,
               nalloc / nfree = allocations / successful frees
   Monitors F:
     bad_uaf    a transition dereferenced an address that is not allocated
     bad_dfree  free of an address that is not allocated (double free / wild free)
     bad_over   a slot write hit a slot that was already written or ready
     bad_fifo   pop / bulk_pop / peek returned something else than the head(s) of the abstract FIFO
     bad_none   pop / bulk_pop answered "empty" although the abstract queue was never empty during the call;
                peek answered None although the abstract queue held more than the one value of a push that
                is still inside its last-index protocol (closing bit set: push_index() under-reports by one)
     bad_len    len() outside [abstract length at call - (1 if such a push is pending at the tail load),
                               abstract length at return]
     bad_assert one of the two assertions of Queue::drop would fail *)
From Coq Require Import List Arith Bool.
Import ListNotations.

Inductive ppc := PIdle | PLoad | PCas | PWrite | PReady | PAlloc | PNext | PLink | PStore.
Inductive cpc := CIdle | CTry | CTail | CSpin | CCommit | CFree | CNext | CSetH | CLenH | CLenT
               | DHead | DTail | DNext | DFree1 | DFree2 | DOld | CDead.
Inductive op := OPop | OBulk | OPeek | OLen.

Record blk := { bstart : nat; bnext : nat; bval : nat -> option nat; brdy : nat -> bool }.
Record pst := { pp : ppc; lb : nat; li : nat; pv : nat; pnew : nat; pnx : nat; gk : nat }.
Record mem := { heap : nat -> option blk; taddr : nat; ti : nat; tc : bool; hidx : nat; hblk : nat; oldb : nat }.
Record cons := { cp : cpc; cop : op; cdrop : bool; ck : nat; cend : nat; cacc : list nat; cnx : nat;
                 chd : nat; cblk : nat; clh : nat; cres : nat; cret : list nat }.
Record gst := { rlog : list (nat * nat); absq : list nat; popped : list nat; saw : bool; glen0 : nat;
                badr : nat -> nat; nblk : nat; gtk : nat; ghk : nat; glo : nat; gcl : nat; act : list nat;
                nalloc : nat; nfree : nat }.
Record mon := { bad_uaf : bool; bad_dfree : bool; bad_over : bool; bad_fifo : bool; bad_none : bool;
                bad_len : bool; bad_assert : bool }.
Record st := { M : mem; P : nat -> pst; C : cons; G : gst; F : mon }.

Definition upd {X} (f : nat -> X) i v := fun j => if Nat.eqb j i then v else f j.
Definition isnil {X} (l : list X) := match l with [] => true | _ => false end.
Fixpoint list_eqb (a b : list nat) : bool :=
  match a, b with
  | [], [] => true
  | x :: a', y :: b' => Nat.eqb x y && list_eqb a' b'
  | _, _ => false
  end.
Fixpoint remove_nat (x : nat) (l : list nat) : list nat :=
  match l with [] => [] | y :: r => if Nat.eqb y x then remove_nat x r else y :: remove_nat x r end.
Definition valof (o : option nat) : nat := match o with Some v => v | None => 0 end.
Definition issome {X} (o : option X) : bool := match o with Some _ => true | None => false end.

Definition dead_blk : blk := {| bstart := 0; bnext := 0; bval := fun _ => None; brdy := fun _ => false |}.
Definition fresh_blk (start : nat) : blk := {| bstart := start; bnext := 0; bval := fun _ => None; brdy := fun _ => false |}.
Definition hget (h : nat -> option blk) (a : nat) : blk := match h a with Some b => b | None => dead_blk end.

Definition b_next (b : blk) (n : nat) : blk := {| bstart := bstart b; bnext := n; bval := bval b; brdy := brdy b |}.
Definition b_val (b : blk) (i v : nat) : blk := {| bstart := bstart b; bnext := bnext b; bval := upd (bval b) i (Some v); brdy := brdy b |}.
Definition b_rdy (b : blk) (i : nat) : blk := {| bstart := bstart b; bnext := bnext b; bval := bval b; brdy := upd (brdy b) i true |}.

(* ---- field setters ---- *)
Definition m_heap m v := {| heap := v; taddr := taddr m; ti := ti m; tc := tc m; hidx := hidx m; hblk := hblk m; oldb := oldb m |}.
Definition m_tail m a i c := {| heap := heap m; taddr := a; ti := i; tc := c; hidx := hidx m; hblk := hblk m; oldb := oldb m |}.
Definition m_hidx m v := {| heap := heap m; taddr := taddr m; ti := ti m; tc := tc m; hidx := v; hblk := hblk m; oldb := oldb m |}.
Definition m_hblk m v := {| heap := heap m; taddr := taddr m; ti := ti m; tc := tc m; hidx := hidx m; hblk := v; oldb := oldb m |}.
Definition m_oldb m v := {| heap := heap m; taddr := taddr m; ti := ti m; tc := tc m; hidx := hidx m; hblk := hblk m; oldb := v |}.

Definition x_pc x v := {| pp := v; lb := lb x; li := li x; pv := pv x; pnew := pnew x; pnx := pnx x; gk := gk x |}.
Definition x_loc x b i := {| pp := PCas; lb := b; li := i; pv := pv x; pnew := pnew x; pnx := pnx x; gk := gk x |}.
Definition x_gk x v := {| pp := pp x; lb := lb x; li := li x; pv := pv x; pnew := pnew x; pnx := pnx x; gk := v |}.
Definition x_new x v := {| pp := pp x; lb := lb x; li := li x; pv := pv x; pnew := v; pnx := pnx x; gk := gk x |}.
Definition x_nx x v := {| pp := pp x; lb := lb x; li := li x; pv := pv x; pnew := pnew x; pnx := v; gk := gk x |}.

Definition c_pc c v := {| cp := v; cop := cop c; cdrop := cdrop c; ck := ck c; cend := cend c; cacc := cacc c; cnx := cnx c; chd := chd c; cblk := cblk c; clh := clh c; cres := cres c; cret := cret c |}.
Definition c_rd c k a := {| cp := cp c; cop := cop c; cdrop := cdrop c; ck := k; cend := cend c; cacc := a; cnx := cnx c; chd := chd c; cblk := cblk c; clh := clh c; cres := cres c; cret := cret c |}.
Definition c_end c v := {| cp := cp c; cop := cop c; cdrop := cdrop c; ck := ck c; cend := v; cacc := cacc c; cnx := cnx c; chd := chd c; cblk := cblk c; clh := clh c; cres := cres c; cret := cret c |}.
Definition c_nx c v := {| cp := cp c; cop := cop c; cdrop := cdrop c; ck := ck c; cend := cend c; cacc := cacc c; cnx := v; chd := chd c; cblk := cblk c; clh := clh c; cres := cres c; cret := cret c |}.
Definition c_hd c v := {| cp := cp c; cop := cop c; cdrop := cdrop c; ck := ck c; cend := cend c; cacc := cacc c; cnx := cnx c; chd := v; cblk := cblk c; clh := clh c; cres := cres c; cret := cret c |}.
Definition c_blk c v := {| cp := cp c; cop := cop c; cdrop := cdrop c; ck := ck c; cend := cend c; cacc := cacc c; cnx := cnx c; chd := chd c; cblk := v; clh := clh c; cres := cres c; cret := cret c |}.
Definition c_lh c v := {| cp := cp c; cop := cop c; cdrop := cdrop c; ck := ck c; cend := cend c; cacc := cacc c; cnx := cnx c; chd := chd c; cblk := cblk c; clh := v; cres := cres c; cret := cret c |}.
Definition c_res c v := {| cp := cp c; cop := cop c; cdrop := cdrop c; ck := ck c; cend := cend c; cacc := cacc c; cnx := cnx c; chd := chd c; cblk := cblk c; clh := clh c; cres := v; cret := cret c |}.
Definition c_ret c v := {| cp := cp c; cop := cop c; cdrop := cdrop c; ck := ck c; cend := cend c; cacc := cacc c; cnx := cnx c; chd := chd c; cblk := cblk c; clh := clh c; cres := cres c; cret := v |}.
(* a new call: op o, entry point e, reading position = head.index *)
Definition c_call (c : cons) (e : cpc) (o : op) (d : bool) (h : nat) : cons :=
  {| cp := e; cop := o; cdrop := d; ck := h; cend := h; cacc := []; cnx := 0; chd := 0; cblk := 0; clh := 0; cres := 0; cret := cret c |}.

Definition g_rlog g v := {| rlog := v; absq := absq g; popped := popped g; saw := saw g; glen0 := glen0 g; badr := badr g; nblk := nblk g; gtk := gtk g; ghk := ghk g; glo := glo g; gcl := gcl g; act := act g; nalloc := nalloc g; nfree := nfree g |}.
Definition g_absq g v := {| rlog := rlog g; absq := v; popped := popped g; saw := saw g; glen0 := glen0 g; badr := badr g; nblk := nblk g; gtk := gtk g; ghk := ghk g; glo := glo g; gcl := gcl g; act := act g; nalloc := nalloc g; nfree := nfree g |}.
Definition g_popped g v := {| rlog := rlog g; absq := absq g; popped := v; saw := saw g; glen0 := glen0 g; badr := badr g; nblk := nblk g; gtk := gtk g; ghk := ghk g; glo := glo g; gcl := gcl g; act := act g; nalloc := nalloc g; nfree := nfree g |}.
Definition g_saw g v := {| rlog := rlog g; absq := absq g; popped := popped g; saw := v; glen0 := glen0 g; badr := badr g; nblk := nblk g; gtk := gtk g; ghk := ghk g; glo := glo g; gcl := gcl g; act := act g; nalloc := nalloc g; nfree := nfree g |}.
Definition g_len0 g v := {| rlog := rlog g; absq := absq g; popped := popped g; saw := saw g; glen0 := v; badr := badr g; nblk := nblk g; gtk := gtk g; ghk := ghk g; glo := glo g; gcl := gcl g; act := act g; nalloc := nalloc g; nfree := nfree g |}.
Definition g_newblk g x := {| rlog := rlog g; absq := absq g; popped := popped g; saw := saw g; glen0 := glen0 g; badr := upd (badr g) (nblk g) x; nblk := S (nblk g); gtk := gtk g; ghk := ghk g; glo := glo g; gcl := gcl g; act := act g; nalloc := S (nalloc g); nfree := nfree g |}.
Definition g_tk g v := {| rlog := rlog g; absq := absq g; popped := popped g; saw := saw g; glen0 := glen0 g; badr := badr g; nblk := nblk g; gtk := v; ghk := ghk g; glo := glo g; gcl := gcl g; act := act g; nalloc := nalloc g; nfree := nfree g |}.
Definition g_hk g v := {| rlog := rlog g; absq := absq g; popped := popped g; saw := saw g; glen0 := glen0 g; badr := badr g; nblk := nblk g; gtk := gtk g; ghk := v; glo := glo g; gcl := gcl g; act := act g; nalloc := nalloc g; nfree := nfree g |}.
Definition g_lo g v := {| rlog := rlog g; absq := absq g; popped := popped g; saw := saw g; glen0 := glen0 g; badr := badr g; nblk := nblk g; gtk := gtk g; ghk := ghk g; glo := v; gcl := gcl g; act := act g; nalloc := nalloc g; nfree := nfree g |}.
Definition g_cl g v := {| rlog := rlog g; absq := absq g; popped := popped g; saw := saw g; glen0 := glen0 g; badr := badr g; nblk := nblk g; gtk := gtk g; ghk := ghk g; glo := glo g; gcl := v; act := act g; nalloc := nalloc g; nfree := nfree g |}.
Definition g_act g v := {| rlog := rlog g; absq := absq g; popped := popped g; saw := saw g; glen0 := glen0 g; badr := badr g; nblk := nblk g; gtk := gtk g; ghk := ghk g; glo := glo g; gcl := gcl g; act := v; nalloc := nalloc g; nfree := nfree g |}.
Definition g_nfree g v := {| rlog := rlog g; absq := absq g; popped := popped g; saw := saw g; glen0 := glen0 g; badr := badr g; nblk := nblk g; gtk := gtk g; ghk := ghk g; glo := glo g; gcl := gcl g; act := act g; nalloc := nalloc g; nfree := v |}.

Definition f_uaf f b := {| bad_uaf := bad_uaf f || b; bad_dfree := bad_dfree f; bad_over := bad_over f; bad_fifo := bad_fifo f; bad_none := bad_none f; bad_len := bad_len f; bad_assert := bad_assert f |}.
Definition f_dfree f b := {| bad_uaf := bad_uaf f; bad_dfree := bad_dfree f || b; bad_over := bad_over f; bad_fifo := bad_fifo f; bad_none := bad_none f; bad_len := bad_len f; bad_assert := bad_assert f |}.
Definition f_over f b := {| bad_uaf := bad_uaf f; bad_dfree := bad_dfree f; bad_over := bad_over f || b; bad_fifo := bad_fifo f; bad_none := bad_none f; bad_len := bad_len f; bad_assert := bad_assert f |}.
Definition f_fifo f b := {| bad_uaf := bad_uaf f; bad_dfree := bad_dfree f; bad_over := bad_over f; bad_fifo := bad_fifo f || b; bad_none := bad_none f; bad_len := bad_len f; bad_assert := bad_assert f |}.
Definition f_none f b := {| bad_uaf := bad_uaf f; bad_dfree := bad_dfree f; bad_over := bad_over f; bad_fifo := bad_fifo f; bad_none := bad_none f || b; bad_len := bad_len f; bad_assert := bad_assert f |}.
Definition f_len f b := {| bad_uaf := bad_uaf f; bad_dfree := bad_dfree f; bad_over := bad_over f; bad_fifo := bad_fifo f; bad_none := bad_none f; bad_len := bad_len f || b; bad_assert := bad_assert f |}.
Definition f_assert f b := {| bad_uaf := bad_uaf f; bad_dfree := bad_dfree f; bad_over := bad_over f; bad_fifo := bad_fifo f; bad_none := bad_none f; bad_len := bad_len f; bad_assert := bad_assert f || b |}.

Definition s_M s v := {| M := v; P := P s; C := C s; G := G s; F := F s |}.
Definition s_P s v := {| M := M s; P := v; C := C s; G := G s; F := F s |}.
Definition s_C s v := {| M := M s; P := P s; C := v; G := G s; F := F s |}.
Definition s_G s v := {| M := M s; P := P s; C := C s; G := v; F := F s |}.
Definition s_F s v := {| M := M s; P := P s; C := C s; G := G s; F := v |}.
Definition setP (s : st) (p : nat) (x : pst) : st := s_P s (upd (P s) p x).

(* ---- memory primitives ---- *)
(* the access of address a by the code: flagged when a is not allocated *)
Definition deref (s : st) (a : nat) : st := s_F s (f_uaf (F s) (negb (issome (heap (M s) a)))).
(* update of the block at address a (lost when a is not allocated) *)
Definition hmod (s : st) (a : nat) (f : blk -> blk) : st :=
  s_M s (m_heap (M s) (upd (heap (M s)) a (option_map f (heap (M s) a)))).
Definition halloc (s : st) (x start : nat) : st :=
  s_G (s_M s (m_heap (M s) (upd (heap (M s)) x (Some (fresh_blk start))))) (g_newblk (G s) x).
Definition hfree (s : st) (a : nat) : st :=
  match heap (M s) a with
  | Some _ => s_G (s_M s (m_heap (M s) (upd (heap (M s)) a None))) (g_nfree (G s) (S (nfree (G s))))
  | None => s_F s (f_dfree (F s) true)
  end.
Definition blk_at (s : st) (a : nat) : blk := hget (heap (M s)) a.

Inductive action := Push (p v : nat) | PStep (p x : nat) | Pop | Bulk | Peek | Len | Drop | CStep.

Section M.
Variable B : nat.          (* block size *)
Variable delay : bool.     (* the old_block delay of the code (true) *)

(* (start + BLOCK_SIZE) & !BLOCK_MASK *)
Definition blkend (i : nat) := (i / B + 1) * B.
(* the closing pusher has published the last slot: push_index() under-reports by one *)
Definition pendv (s : st) : nat := if tc (M s) && brdy (blk_at s (taddr (M s))) (ti (M s)) then 1 else 0.

(* ---------------------------------------------------------------- pushers *)
Definition p_call (s : st) (p v : nat) : st :=
  s_G (setP s p {| pp := PLoad; lb := 0; li := 0; pv := v; pnew := 0; pnx := 0; gk := 0 |})
      (g_act (G s) (p :: act (G s))).
(* tail = self.tail.0.load(Acquire); closing bit stripped *)
Definition p_load (s : st) (p : nat) : st := setP s p (x_loc (P s p) (taddr (M s)) (ti (M s))).
(* self.tail.0.compare_exchange_weak(tail, new_tail) *)
Definition cas_ok (s : st) (p : nat) : bool :=
  Nat.eqb (lb (P s p)) (taddr (M s)) && Nat.eqb (li (P s p)) (ti (M s)) && negb (tc (M s)).
Definition p_cas (s : st) (p : nat) : st :=
  let x := P s p in let m := M s in let g := G s in
  if cas_ok s p then
    if Nat.ltb (S (li x)) B
    then s_G (s_M (setP s p (x_gk (x_pc x PWrite) (gtk g))) (m_tail m (taddr m) (S (ti m)) false))
             (g_absq (g_rlog g (rlog g ++ [(p, pv x)])) (absq g ++ [pv x]))
    else s_G (s_M (setP s p (x_gk (x_pc x PWrite) (gtk g))) (m_tail m (taddr m) (ti m) true))
             (g_cl (g_rlog g (rlog g ++ [(p, pv x)])) p)
  else setP s p (x_loc x (taddr m) (ti m)).
(* block.set(id, v): the slot write *)
Definition p_write (s : st) (p : nat) : st :=
  let x := P s p in
  let s1 := deref s (lb x) in
  let b := blk_at s (lb x) in
  let s2 := s_F s1 (f_over (F s1) (issome (bval b (li x)) || brdy b (li x))) in
  setP (hmod s2 (lb x) (fun b => b_val b (li x) (pv x))) p (x_pc x PReady).
(* data.ready.store(1, Release); LP of the push that took the last index of its block *)
Definition p_ready (s : st) (p : nat) : st :=
  let x := P s p in
  let s1 := hmod (deref s (lb x)) (lb x) (fun b => b_rdy b (li x)) in
  if Nat.ltb (S (li x)) B
  then s_G (setP s1 p (x_pc x PIdle)) (g_act (G s1) (remove_nat p (act (G s1))))
  else s_G (setP s1 p (x_pc x PAlloc)) (g_absq (G s1) (absq (G s1) ++ [pv x])).
(* BlockNode::new_box(block.start + BLOCK_SIZE * 2) at the address x the allocator chose *)
Definition alloc_ok (s : st) (x : nat) : bool := negb (Nat.eqb x 0) && negb (issome (heap (M s) x)).
Definition p_alloc (s : st) (p x : nat) : st :=
  let me := P s p in
  let s1 := deref s (lb me) in
  setP (halloc s1 x (bstart (blk_at s (lb me)) + 2 * B)) p (x_new (x_pc me PNext) x).
(* block.wait_next_block(): self.next.load(Acquire) until non-null *)
Definition p_next (s : st) (p : nat) : st :=
  let me := P s p in
  let s1 := deref s (lb me) in
  let n := bnext (blk_at s (lb me)) in
  if Nat.eqb n 0 then s1 else setP s1 p (x_nx (x_pc me PLink) n).
(* next_block.next.store(new_block, Release) *)
Definition p_link (s : st) (p : nat) : st :=
  let me := P s p in
  setP (hmod (deref s (pnx me)) (pnx me) (fun b => b_next b (pnew me))) p (x_pc me PStore).
(* self.tail.0.store(next_block, Release) *)
Definition p_store (s : st) (p : nat) : st :=
  let me := P s p in
  s_G (s_M (setP s p (x_pc me PIdle)) (m_tail (M s) (pnx me) 0 false))
      (g_act (g_tk (G s) (S (gtk (G s)))) (remove_nat p (act (G s)))).

(* ---------------------------------------------------------------- consumer *)
Definition entry (o : op) : cpc := match o with OPop | OBulk => CTry | OPeek => CTail | OLen => CLenH end.
Definition c_start (s : st) (o : op) (d : bool) : st :=
  s_G (s_C s (c_call (C s) (entry o) o d (hidx (M s))))
      (g_len0 (g_saw (G s) false) (length (absq (G s)))).
(* a call that handed out values has finished: inside Queue::drop the next pop starts at once *)
Definition c_fin (s : st) : st :=
  if cdrop (C s) then c_start s OPop true else s_C s (c_pc (C s) CIdle).
(* a call that answered "empty" has finished: Queue::drop goes on with its tear-down *)
Definition c_fin_empty (s : st) : st :=
  s_C s (c_pc (c_ret (C s) []) (if cdrop (C s) then DHead else CIdle)).

(* head.try_get(id) of pop and of the fast path of bulk_pop *)
Definition c_try (s : st) : st :=
  let c := C s in let m := M s in
  let s1 := deref s (hblk m) in
  let b := blk_at s (hblk m) in
  let i := ck c mod B in
  if brdy b i then
    let acc := cacc c ++ [valof (bval b i)] in
    let stop := match cop c with OBulk => Nat.eqb (S (ck c) mod B) 0 | _ => true end in
    s_C s1 (c_pc (c_rd c (S (ck c)) acc) (if stop then CCommit else CTry))
  else if isnil (cacc c)
       then s_G (s_C s1 (c_pc c CTail)) (g_saw (G s1) (saw (G s1) || isnil (absq (G s1))))
       else s_C s1 (c_pc c CCommit).
(* push_index(): tail load, tail_block.start + id; pop_index >= push_index answers "empty" *)
Definition push_index (s : st) : nat := bstart (blk_at s (taddr (M s))) + ti (M s).
Definition c_tail (s : st) : st :=
  let c := C s in let m := M s in let g := G s in
  let s1 := deref s (taddr m) in
  let pidx := push_index s in
  if Nat.leb pidx (hidx m) then
    let unjust := match cop c with
                  | OPeek => negb (Nat.leb (length (absq g)) (pendv s))
                  | _ => negb (saw g || isnil (absq g)) end in
    c_fin_empty (s_F s1 (f_none (F s1) unjust))
  else
    let e := match cop c with OBulk => Nat.min pidx (blkend (hidx m)) | _ => S (hidx m) end in
    s_C s1 (c_pc (c_end c e) CSpin).
(* head.get(id) / head.peek(id): data.ready.load(Acquire) until non-zero, then the value *)
Definition c_spin (s : st) : st :=
  let c := C s in let m := M s in
  let s1 := deref s (hblk m) in
  let b := blk_at s (hblk m) in
  let i := ck c mod B in
  if brdy b i then
    let acc := cacc c ++ [valof (bval b i)] in
    if Nat.eqb (S (ck c)) (cend c) then
      match cop c with
      | OPeek => s_F (s_C s1 (c_pc (c_ret (c_rd c (S (ck c)) acc) acc) CIdle))
                     (f_fifo (F s1) (negb (list_eqb acc (firstn 1 (absq (G s1))))))
      | _ => s_C s1 (c_pc (c_rd c (S (ck c)) acc) CCommit)
      end
    else s_C s1 (c_rd c (S (ck c)) acc)
  else s1.
(* self.head.index.store(new_index, Relaxed): LP of pop / bulk_pop *)
Definition c_commit (s : st) : st :=
  let c := C s in let m := M s in let g := G s in
  let n := length (cacc c) in
  let ni := hidx m + n in
  let s1 := s_F (s_G (s_M s (m_hidx m ni)) (g_popped (g_absq g (skipn n (absq g))) (popped g ++ cacc c)))
                (f_fifo (F s) (negb (list_eqb (cacc c) (firstn n (absq g))))) in
  let s2 := s_C s1 (c_ret (C s1) (cacc c)) in
  if Nat.eqb (ni mod B) 0 then s_C s2 (c_pc (C s2) CFree) else c_fin s2.
(* old_block.replace(Box::from_raw(head)): frees the block parked one block ago *)
Definition c_free (s : st) : st :=
  let s1 := if delay
            then let s0 := if Nat.eqb (oldb (M s)) 0 then s else hfree s (oldb (M s)) in
                 s_G (s_M s0 (m_oldb (M s0) (hblk (M s0)))) (g_lo (G s0) (ghk (G s0)))
            else s in
  s_C s1 (c_pc (C s1) CNext).
(* head.wait_next_block() *)
Definition c_next (s : st) : st :=
  let s1 := deref s (hblk (M s)) in
  let n := bnext (blk_at s (hblk (M s))) in
  if Nat.eqb n 0 then s1 else s_C s1 (c_pc (c_nx (C s1) n) CSetH).
(* self.head.block.store(next_block, Relaxed) *)
Definition c_seth (s : st) : st :=
  let old := hblk (M s) in
  let s1 := s_G (s_M s (m_hblk (M s) (cnx (C s)))) (g_hk (G s) (S (ghk (G s)))) in
  let s2 := if delay then s1 else let s0 := hfree s1 old in s_G s0 (g_lo (G s0) (ghk (G s0))) in
  c_fin s2.
(* len(): self.head.index.load(Acquire) *)
Definition c_lenh (s : st) : st := s_C s (c_pc (c_lh (C s) (hidx (M s))) CLenT).
(* len(): push_index(); pop_index >= push_index ? 0 : push_index - pop_index *)
Definition c_lent (s : st) : st :=
  let s1 := deref s (taddr (M s)) in
  let r := push_index s - clh (C s) in
  s_F (s_C s1 (c_pc (c_res (C s1) r) CIdle))
      (f_len (F s1) (Nat.ltb (r + pendv s) (glen0 (G s)) || Nat.ltb (length (absq (G s))) r)).
(* Queue::drop after the pops: head = self.head.block.load(Acquire) *)
Definition d_head (s : st) : st := s_C s (c_pc (c_hd (C s) (hblk (M s))) DTail).
(* tail = self.tail.0.load(Acquire); (block, _) = unpack(tail); assert_eq!(block, head) *)
Definition d_tail (s : st) : st :=
  s_F (s_C s (c_pc (c_blk (C s) (taddr (M s))) DNext))
      (f_assert (F s) (negb (Nat.eqb (taddr (M s)) (chd (C s))) || tc (M s))).
(* next_block = block.next.load(Acquire); assert!(!next_block.is_null()) *)
Definition d_next (s : st) : st :=
  let s1 := deref s (cblk (C s)) in
  let n := bnext (blk_at s (cblk (C s))) in
  s_F (s_C s1 (c_pc (c_nx (C s1) n) DFree1)) (f_assert (F s1) (Nat.eqb n 0)).
Definition d_free1 (s : st) : st := let s1 := hfree s (cnx (C s)) in s_C s1 (c_pc (C s1) DFree2).
Definition d_free2 (s : st) : st := let s1 := hfree s (cblk (C s)) in s_C s1 (c_pc (C s1) DOld).
Definition d_old (s : st) : st :=
  let s0 := if Nat.eqb (oldb (M s)) 0 then s else hfree s (oldb (M s)) in
  s_G (s_C (s_M s0 (m_oldb (M s0) 0)) (c_pc (C s0) CDead)) (g_lo (G s0) (ghk (G s0))).

Definition api_ok (s : st) : bool :=
  match cp (C s) with CIdle => negb (cdrop (C s)) | _ => false end.

Definition step (s : st) (a : action) : option st :=
  match a with
  | Push p v =>
      match pp (P s p) with
      | PIdle => if cdrop (C s) then None else Some (p_call s p v)
      | _ => None
      end
  | PStep p x =>
      match pp (P s p) with
      | PIdle => None
      | PLoad => Some (p_load s p)
      | PCas => Some (p_cas s p)
      | PWrite => Some (p_write s p)
      | PReady => Some (p_ready s p)
      | PAlloc => if alloc_ok s x then Some (p_alloc s p x) else None
      | PNext => Some (p_next s p)
      | PLink => Some (p_link s p)
      | PStore => Some (p_store s p)
      end
  | Pop => if api_ok s then Some (c_start s OPop false) else None
  | Bulk => if api_ok s then Some (c_start s OBulk false) else None
  | Peek => if api_ok s then Some (c_start s OPeek false) else None
  | Len => if api_ok s then Some (c_start s OLen false) else None
  | Drop =>      (* &mut self: nobody is inside a push, nobody will start one *)
      if api_ok s && isnil (act (G s)) then Some (c_start s OPop true) else None
  | CStep =>
      match cp (C s) with
      | CIdle | CDead => None
      | CTry => Some (c_try s)
      | CTail => Some (c_tail s)
      | CSpin => Some (c_spin s)
      | CCommit => Some (c_commit s)
      | CFree => Some (c_free s)
      | CNext => Some (c_next s)
      | CSetH => Some (c_seth s)
      | CLenH => Some (c_lenh s)
      | CLenT => Some (c_lent s)
      | DHead => Some (d_head s)
      | DTail => Some (d_tail s)
      | DNext => Some (d_next s)
      | DFree1 => Some (d_free1 s)
      | DFree2 => Some (d_free2 s)
      | DOld => Some (d_old s)
      end
  end.

(* Queue::new(): init_block at address 1 with start 0, next_block at address 2 with start B *)
Definition init : st :=
  {| M := {| heap := fun a => if Nat.eqb a 1 then Some (b_next (fresh_blk 0) 2)
                              else if Nat.eqb a 2 then Some (fresh_blk B) else None;
             taddr := 1; ti := 0; tc := false; hidx := 0; hblk := 1; oldb := 0 |};
     P := fun _ => {| pp := PIdle; lb := 0; li := 0; pv := 0; pnew := 0; pnx := 0; gk := 0 |};
     C := {| cp := CIdle; cop := OPop; cdrop := false; ck := 0; cend := 0; cacc := []; cnx := 0; chd := 0; cblk := 0;
             clh := 0; cres := 0; cret := [] |};
     G := {| rlog := []; absq := []; popped := []; saw := false; glen0 := 0;
             badr := fun k => S k; nblk := 2; gtk := 0; ghk := 0; glo := 0; gcl := 0; act := [];
             nalloc := 2; nfree := 0 |};
     F := {| bad_uaf := false; bad_dfree := false; bad_over := false; bad_fifo := false; bad_none := false;
             bad_len := false; bad_assert := false |} |}.

Inductive Reach : st -> Prop :=
| R0 : Reach init
| RS s a s' : Reach s -> step s a = Some s' -> Reach s'.

Fixpoint run (s : st) (l : list action) : option st :=
  match l with
  | [] => Some s
  | a :: l' => match step s a with Some s' => run s' l' | None => None end
  end.

Definition monitors_ok (s : st) : bool :=
  let f := F s in
  negb (bad_uaf f || bad_dfree f || bad_over f || bad_fifo f || bad_none f || bad_len f || bad_assert f).

End M.
