(* C04 - model of may_queue::spmc::Queue (work-stealing run queue) with the Local / Steal handles.

   One transition per shared-memory access of /repo/may_queue/src/spmc.rs, in program order:
     push        : slot write | [block end: allocate + tail.next store | tail.block store] | tail.index store
     pop         : head load | tail.index load | tail.block load | head CAS | block.start load |
                   [lock path: tail.index load | head store (restore) / block.next load, head store] |
                   [else: tail.index load (10 ms wait loop)] | slot read | used.fetch_sub (+ free)
     bulk_pop    : the same skeleton; new head = lock bit if the head block is not the tail block copy,
                   else (block, push_index & MASK); lock path computes end = min(start + B, tail.index)
     local_pop   : the owner's variant: its tail.index / tail.block are exact, no reloads, the
                   "skip slot" branch (tail.index store, fetch_sub)
     steal_into  : bulk_pop, return the last element, push_back the others into the stealer's own
                   queue (abstracted as the list [dq]: another instance of this very queue)
     is_empty    : three loads
   Blocks live at addresses chosen by the allocator action among the dead ones; with [reuse = true]
   a freed address may be issued again (ABA on the head word is in scope), with [reuse = false] every
   block gets a never used address.  Actor 0 is the owner, all others are stealers (unbounded).
   Ghost state (never read by the transitions): pushed values in push order, logical block number of
   every block, claim map / read / released flags per logical slot index, the log [got] of every
   value handed out (who, logical index, what the slot read returned), three memory monitors.
   Definitions only. *)
From Coq Require Import List Arith Bool.
Import ListNotations.

Inductive opk := KPush | KLocal | KPop | KBulk | KSteal | KEmpty | KOwn.
Inductive pcT := Idle | Ext | OW | ON | OB | OC
               | X0 | X1 | X2 | XC | XS | XT | XR | XN | XH | XH2 | XW | XG | XM | LK | LKr
               | E0 | E1 | E2.

Record blk := { alive : bool; bstart : nat; bno : nat; used : nat; next : option nat; slots : nat -> option nat }.

Record ast := {
  pc : pcT; kd : opk; pvl : nat;
  lb : nat; li : nat;            (* copy of the head word: block address, index (lock bit stripped) *)
  lpi : nat; ltb : nat;          (* copies of tail.index, tail.block *)
  nid : nat;                     (* bulk_pop: new_id *)
  ppi : nat; pend : nat;         (* pop_index, end *)
  lnx : option nat; lnew : nat;  (* block.next as loaded; push: the new block *)
  res : list (option nat);       (* values read from the slots *)
  retry : bool;                  (* the last CAS failed: the loads are the re-loads in the Err arm *)
  rv : list (option nat); rb : bool;   (* result of the finished call *)
  dq : list (option nat);        (* the stealer's own queue (abstract FIFO) *)
  glo : nat; ghi : nat           (* ghost: the claimed range of logical indices *)
}.

Record st := {
  hb : nat; hi : nat; hl : bool;           (* head word: block address | index | lock bit *)
  tix : nat; tbk : nat;                    (* tail.index, tail.block *)
  heap : nat -> blk;
  A : nat -> ast;
  pushed : list nat;                       (* ghost: values in push order (appended at the slot write) *)
  nblk : nat; badr : nat -> nat;           (* ghost: number of blocks allocated so far, address of logical block k *)
  born : nat -> bool;                      (* ghost: address was allocated at least once *)
  cl : nat -> option nat;                  (* ghost: who claimed logical index i *)
  rd : nat -> bool; rl : nat -> bool;      (* ghost: slot i was read / released (counted in used) *)
  got : list (nat * nat * option nat);     (* ghost: (actor, logical index, value read) in read order *)
  bad_uaf : bool; bad_under : bool; bad_null : bool   (* monitors: dead block dereferenced, used underflow, null next followed *)
}.

Definition b_alive (x : blk) (v : bool) : blk :=
  {| alive := v; bstart := bstart x; bno := bno x; used := used x; next := next x; slots := slots x |}.
Definition b_bstart (x : blk) (v : nat) : blk :=
  {| alive := alive x; bstart := v; bno := bno x; used := used x; next := next x; slots := slots x |}.
Definition b_bno (x : blk) (v : nat) : blk :=
  {| alive := alive x; bstart := bstart x; bno := v; used := used x; next := next x; slots := slots x |}.
Definition b_used (x : blk) (v : nat) : blk :=
  {| alive := alive x; bstart := bstart x; bno := bno x; used := v; next := next x; slots := slots x |}.
Definition b_next (x : blk) (v : option nat) : blk :=
  {| alive := alive x; bstart := bstart x; bno := bno x; used := used x; next := v; slots := slots x |}.
Definition b_slots (x : blk) (v : nat -> option nat) : blk :=
  {| alive := alive x; bstart := bstart x; bno := bno x; used := used x; next := next x; slots := v |}.
Definition a_pc (x : ast) (v : pcT) : ast :=
  {| pc := v; kd := kd x; pvl := pvl x; lb := lb x; li := li x; lpi := lpi x; ltb := ltb x; nid := nid x; ppi := ppi x; pend := pend x; lnx := lnx x; lnew := lnew x; res := res x; retry := retry x; rv := rv x; rb := rb x; dq := dq x; glo := glo x; ghi := ghi x |}.
Definition a_kd (x : ast) (v : opk) : ast :=
  {| pc := pc x; kd := v; pvl := pvl x; lb := lb x; li := li x; lpi := lpi x; ltb := ltb x; nid := nid x; ppi := ppi x; pend := pend x; lnx := lnx x; lnew := lnew x; res := res x; retry := retry x; rv := rv x; rb := rb x; dq := dq x; glo := glo x; ghi := ghi x |}.
Definition a_pvl (x : ast) (v : nat) : ast :=
  {| pc := pc x; kd := kd x; pvl := v; lb := lb x; li := li x; lpi := lpi x; ltb := ltb x; nid := nid x; ppi := ppi x; pend := pend x; lnx := lnx x; lnew := lnew x; res := res x; retry := retry x; rv := rv x; rb := rb x; dq := dq x; glo := glo x; ghi := ghi x |}.
Definition a_lb (x : ast) (v : nat) : ast :=
  {| pc := pc x; kd := kd x; pvl := pvl x; lb := v; li := li x; lpi := lpi x; ltb := ltb x; nid := nid x; ppi := ppi x; pend := pend x; lnx := lnx x; lnew := lnew x; res := res x; retry := retry x; rv := rv x; rb := rb x; dq := dq x; glo := glo x; ghi := ghi x |}.
Definition a_li (x : ast) (v : nat) : ast :=
  {| pc := pc x; kd := kd x; pvl := pvl x; lb := lb x; li := v; lpi := lpi x; ltb := ltb x; nid := nid x; ppi := ppi x; pend := pend x; lnx := lnx x; lnew := lnew x; res := res x; retry := retry x; rv := rv x; rb := rb x; dq := dq x; glo := glo x; ghi := ghi x |}.
Definition a_lpi (x : ast) (v : nat) : ast :=
  {| pc := pc x; kd := kd x; pvl := pvl x; lb := lb x; li := li x; lpi := v; ltb := ltb x; nid := nid x; ppi := ppi x; pend := pend x; lnx := lnx x; lnew := lnew x; res := res x; retry := retry x; rv := rv x; rb := rb x; dq := dq x; glo := glo x; ghi := ghi x |}.
Definition a_ltb (x : ast) (v : nat) : ast :=
  {| pc := pc x; kd := kd x; pvl := pvl x; lb := lb x; li := li x; lpi := lpi x; ltb := v; nid := nid x; ppi := ppi x; pend := pend x; lnx := lnx x; lnew := lnew x; res := res x; retry := retry x; rv := rv x; rb := rb x; dq := dq x; glo := glo x; ghi := ghi x |}.
Definition a_nid (x : ast) (v : nat) : ast :=
  {| pc := pc x; kd := kd x; pvl := pvl x; lb := lb x; li := li x; lpi := lpi x; ltb := ltb x; nid := v; ppi := ppi x; pend := pend x; lnx := lnx x; lnew := lnew x; res := res x; retry := retry x; rv := rv x; rb := rb x; dq := dq x; glo := glo x; ghi := ghi x |}.
Definition a_ppi (x : ast) (v : nat) : ast :=
  {| pc := pc x; kd := kd x; pvl := pvl x; lb := lb x; li := li x; lpi := lpi x; ltb := ltb x; nid := nid x; ppi := v; pend := pend x; lnx := lnx x; lnew := lnew x; res := res x; retry := retry x; rv := rv x; rb := rb x; dq := dq x; glo := glo x; ghi := ghi x |}.
Definition a_pend (x : ast) (v : nat) : ast :=
  {| pc := pc x; kd := kd x; pvl := pvl x; lb := lb x; li := li x; lpi := lpi x; ltb := ltb x; nid := nid x; ppi := ppi x; pend := v; lnx := lnx x; lnew := lnew x; res := res x; retry := retry x; rv := rv x; rb := rb x; dq := dq x; glo := glo x; ghi := ghi x |}.
Definition a_lnx (x : ast) (v : option nat) : ast :=
  {| pc := pc x; kd := kd x; pvl := pvl x; lb := lb x; li := li x; lpi := lpi x; ltb := ltb x; nid := nid x; ppi := ppi x; pend := pend x; lnx := v; lnew := lnew x; res := res x; retry := retry x; rv := rv x; rb := rb x; dq := dq x; glo := glo x; ghi := ghi x |}.
Definition a_lnew (x : ast) (v : nat) : ast :=
  {| pc := pc x; kd := kd x; pvl := pvl x; lb := lb x; li := li x; lpi := lpi x; ltb := ltb x; nid := nid x; ppi := ppi x; pend := pend x; lnx := lnx x; lnew := v; res := res x; retry := retry x; rv := rv x; rb := rb x; dq := dq x; glo := glo x; ghi := ghi x |}.
Definition a_res (x : ast) (v : list (option nat)) : ast :=
  {| pc := pc x; kd := kd x; pvl := pvl x; lb := lb x; li := li x; lpi := lpi x; ltb := ltb x; nid := nid x; ppi := ppi x; pend := pend x; lnx := lnx x; lnew := lnew x; res := v; retry := retry x; rv := rv x; rb := rb x; dq := dq x; glo := glo x; ghi := ghi x |}.
Definition a_retry (x : ast) (v : bool) : ast :=
  {| pc := pc x; kd := kd x; pvl := pvl x; lb := lb x; li := li x; lpi := lpi x; ltb := ltb x; nid := nid x; ppi := ppi x; pend := pend x; lnx := lnx x; lnew := lnew x; res := res x; retry := v; rv := rv x; rb := rb x; dq := dq x; glo := glo x; ghi := ghi x |}.
Definition a_rv (x : ast) (v : list (option nat)) : ast :=
  {| pc := pc x; kd := kd x; pvl := pvl x; lb := lb x; li := li x; lpi := lpi x; ltb := ltb x; nid := nid x; ppi := ppi x; pend := pend x; lnx := lnx x; lnew := lnew x; res := res x; retry := retry x; rv := v; rb := rb x; dq := dq x; glo := glo x; ghi := ghi x |}.
Definition a_rb (x : ast) (v : bool) : ast :=
  {| pc := pc x; kd := kd x; pvl := pvl x; lb := lb x; li := li x; lpi := lpi x; ltb := ltb x; nid := nid x; ppi := ppi x; pend := pend x; lnx := lnx x; lnew := lnew x; res := res x; retry := retry x; rv := rv x; rb := v; dq := dq x; glo := glo x; ghi := ghi x |}.
Definition a_dq (x : ast) (v : list (option nat)) : ast :=
  {| pc := pc x; kd := kd x; pvl := pvl x; lb := lb x; li := li x; lpi := lpi x; ltb := ltb x; nid := nid x; ppi := ppi x; pend := pend x; lnx := lnx x; lnew := lnew x; res := res x; retry := retry x; rv := rv x; rb := rb x; dq := v; glo := glo x; ghi := ghi x |}.
Definition a_glo (x : ast) (v : nat) : ast :=
  {| pc := pc x; kd := kd x; pvl := pvl x; lb := lb x; li := li x; lpi := lpi x; ltb := ltb x; nid := nid x; ppi := ppi x; pend := pend x; lnx := lnx x; lnew := lnew x; res := res x; retry := retry x; rv := rv x; rb := rb x; dq := dq x; glo := v; ghi := ghi x |}.
Definition a_ghi (x : ast) (v : nat) : ast :=
  {| pc := pc x; kd := kd x; pvl := pvl x; lb := lb x; li := li x; lpi := lpi x; ltb := ltb x; nid := nid x; ppi := ppi x; pend := pend x; lnx := lnx x; lnew := lnew x; res := res x; retry := retry x; rv := rv x; rb := rb x; dq := dq x; glo := glo x; ghi := v |}.
Definition s_hb (x : st) (v : nat) : st :=
  {| hb := v; hi := hi x; hl := hl x; tix := tix x; tbk := tbk x; heap := heap x; A := A x; pushed := pushed x; nblk := nblk x; badr := badr x; born := born x; cl := cl x; rd := rd x; rl := rl x; got := got x; bad_uaf := bad_uaf x; bad_under := bad_under x; bad_null := bad_null x |}.
Definition s_hi (x : st) (v : nat) : st :=
  {| hb := hb x; hi := v; hl := hl x; tix := tix x; tbk := tbk x; heap := heap x; A := A x; pushed := pushed x; nblk := nblk x; badr := badr x; born := born x; cl := cl x; rd := rd x; rl := rl x; got := got x; bad_uaf := bad_uaf x; bad_under := bad_under x; bad_null := bad_null x |}.
Definition s_hl (x : st) (v : bool) : st :=
  {| hb := hb x; hi := hi x; hl := v; tix := tix x; tbk := tbk x; heap := heap x; A := A x; pushed := pushed x; nblk := nblk x; badr := badr x; born := born x; cl := cl x; rd := rd x; rl := rl x; got := got x; bad_uaf := bad_uaf x; bad_under := bad_under x; bad_null := bad_null x |}.
Definition s_tix (x : st) (v : nat) : st :=
  {| hb := hb x; hi := hi x; hl := hl x; tix := v; tbk := tbk x; heap := heap x; A := A x; pushed := pushed x; nblk := nblk x; badr := badr x; born := born x; cl := cl x; rd := rd x; rl := rl x; got := got x; bad_uaf := bad_uaf x; bad_under := bad_under x; bad_null := bad_null x |}.
Definition s_tbk (x : st) (v : nat) : st :=
  {| hb := hb x; hi := hi x; hl := hl x; tix := tix x; tbk := v; heap := heap x; A := A x; pushed := pushed x; nblk := nblk x; badr := badr x; born := born x; cl := cl x; rd := rd x; rl := rl x; got := got x; bad_uaf := bad_uaf x; bad_under := bad_under x; bad_null := bad_null x |}.
Definition s_heap (x : st) (v : nat -> blk) : st :=
  {| hb := hb x; hi := hi x; hl := hl x; tix := tix x; tbk := tbk x; heap := v; A := A x; pushed := pushed x; nblk := nblk x; badr := badr x; born := born x; cl := cl x; rd := rd x; rl := rl x; got := got x; bad_uaf := bad_uaf x; bad_under := bad_under x; bad_null := bad_null x |}.
Definition s_A (x : st) (v : nat -> ast) : st :=
  {| hb := hb x; hi := hi x; hl := hl x; tix := tix x; tbk := tbk x; heap := heap x; A := v; pushed := pushed x; nblk := nblk x; badr := badr x; born := born x; cl := cl x; rd := rd x; rl := rl x; got := got x; bad_uaf := bad_uaf x; bad_under := bad_under x; bad_null := bad_null x |}.
Definition s_pushed (x : st) (v : list nat) : st :=
  {| hb := hb x; hi := hi x; hl := hl x; tix := tix x; tbk := tbk x; heap := heap x; A := A x; pushed := v; nblk := nblk x; badr := badr x; born := born x; cl := cl x; rd := rd x; rl := rl x; got := got x; bad_uaf := bad_uaf x; bad_under := bad_under x; bad_null := bad_null x |}.
Definition s_nblk (x : st) (v : nat) : st :=
  {| hb := hb x; hi := hi x; hl := hl x; tix := tix x; tbk := tbk x; heap := heap x; A := A x; pushed := pushed x; nblk := v; badr := badr x; born := born x; cl := cl x; rd := rd x; rl := rl x; got := got x; bad_uaf := bad_uaf x; bad_under := bad_under x; bad_null := bad_null x |}.
Definition s_badr (x : st) (v : nat -> nat) : st :=
  {| hb := hb x; hi := hi x; hl := hl x; tix := tix x; tbk := tbk x; heap := heap x; A := A x; pushed := pushed x; nblk := nblk x; badr := v; born := born x; cl := cl x; rd := rd x; rl := rl x; got := got x; bad_uaf := bad_uaf x; bad_under := bad_under x; bad_null := bad_null x |}.
Definition s_born (x : st) (v : nat -> bool) : st :=
  {| hb := hb x; hi := hi x; hl := hl x; tix := tix x; tbk := tbk x; heap := heap x; A := A x; pushed := pushed x; nblk := nblk x; badr := badr x; born := v; cl := cl x; rd := rd x; rl := rl x; got := got x; bad_uaf := bad_uaf x; bad_under := bad_under x; bad_null := bad_null x |}.
Definition s_cl (x : st) (v : nat -> option nat) : st :=
  {| hb := hb x; hi := hi x; hl := hl x; tix := tix x; tbk := tbk x; heap := heap x; A := A x; pushed := pushed x; nblk := nblk x; badr := badr x; born := born x; cl := v; rd := rd x; rl := rl x; got := got x; bad_uaf := bad_uaf x; bad_under := bad_under x; bad_null := bad_null x |}.
Definition s_rd (x : st) (v : nat -> bool) : st :=
  {| hb := hb x; hi := hi x; hl := hl x; tix := tix x; tbk := tbk x; heap := heap x; A := A x; pushed := pushed x; nblk := nblk x; badr := badr x; born := born x; cl := cl x; rd := v; rl := rl x; got := got x; bad_uaf := bad_uaf x; bad_under := bad_under x; bad_null := bad_null x |}.
Definition s_rl (x : st) (v : nat -> bool) : st :=
  {| hb := hb x; hi := hi x; hl := hl x; tix := tix x; tbk := tbk x; heap := heap x; A := A x; pushed := pushed x; nblk := nblk x; badr := badr x; born := born x; cl := cl x; rd := rd x; rl := v; got := got x; bad_uaf := bad_uaf x; bad_under := bad_under x; bad_null := bad_null x |}.
Definition s_got (x : st) (v : list (nat * nat * option nat)) : st :=
  {| hb := hb x; hi := hi x; hl := hl x; tix := tix x; tbk := tbk x; heap := heap x; A := A x; pushed := pushed x; nblk := nblk x; badr := badr x; born := born x; cl := cl x; rd := rd x; rl := rl x; got := v; bad_uaf := bad_uaf x; bad_under := bad_under x; bad_null := bad_null x |}.
Definition s_bad_uaf (x : st) (v : bool) : st :=
  {| hb := hb x; hi := hi x; hl := hl x; tix := tix x; tbk := tbk x; heap := heap x; A := A x; pushed := pushed x; nblk := nblk x; badr := badr x; born := born x; cl := cl x; rd := rd x; rl := rl x; got := got x; bad_uaf := v; bad_under := bad_under x; bad_null := bad_null x |}.
Definition s_bad_under (x : st) (v : bool) : st :=
  {| hb := hb x; hi := hi x; hl := hl x; tix := tix x; tbk := tbk x; heap := heap x; A := A x; pushed := pushed x; nblk := nblk x; badr := badr x; born := born x; cl := cl x; rd := rd x; rl := rl x; got := got x; bad_uaf := bad_uaf x; bad_under := v; bad_null := bad_null x |}.
Definition s_bad_null (x : st) (v : bool) : st :=
  {| hb := hb x; hi := hi x; hl := hl x; tix := tix x; tbk := tbk x; heap := heap x; A := A x; pushed := pushed x; nblk := nblk x; badr := badr x; born := born x; cl := cl x; rd := rd x; rl := rl x; got := got x; bad_uaf := bad_uaf x; bad_under := bad_under x; bad_null := v |}.

Definition upd {X} (f : nat -> X) i v := fun j => if Nat.eqb j i then v else f j.
Definition inr (lo hi i : nat) : bool := Nat.leb lo i && Nat.ltb i hi.
Definition updr {X} (f : nat -> X) lo hi v := fun j => if inr lo hi j then v else f j.

Inductive action := Call (a : nat) (k : opk) (v : nat) | Step (a : nat) (x : nat) | Ret (a : nat).

Section M.
Variable B : nat.        (* block size *)
Variable reuse : bool.   (* may the allocator issue a freed address again? *)

Definition is_bulk (k : opk) := match k with KBulk | KSteal => true | _ => false end.
Definition is_local (k : opk) := match k with KLocal => true | _ => false end.
Definition is_steal (k : opk) := match k with KSteal => true | _ => false end.
Definition is_own (k : opk) := match k with KOwn => true | _ => false end.
Definition call_ok (a : nat) (k : opk) : bool :=
  match k with KPush | KLocal => Nat.eqb a 0 | KEmpty => true | _ => negb (Nat.eqb a 0) end.
Definition entry (k : opk) : pcT := match k with KPush => OW | KEmpty => E0 | KOwn => Ext | _ => X0 end.

(* `block == tail_block && id >= push_index & MASK` *)
Definition emptyck (x : ast) : bool := Nat.eqb (lb x) (ltb x) && Nat.leb (lpi x mod B) (li x).
(* bulk_pop: new_id *)
Definition newid (x : ast) : nat := if is_bulk (kd x) then (if Nat.eqb (lb x) (ltb x) then lpi x mod B else 0) else 0.
(* the CAS installs the lock bit *)
Definition locked (x : ast) : bool := if is_bulk (kd x) then Nat.eqb (nid x) 0 else Nat.eqb (S (li x)) B.
(* first index after the claim, relative to the block, on the path without lock *)
Definition nexti (x : ast) : nat := if is_bulk (kd x) then nid x else S (li x).

Definition setA (s : st) (a : nat) (x : ast) : st := s_A s (upd (A s) a x).
Definition deref (s : st) (b : nat) : st := s_bad_uaf s (bad_uaf s || negb (alive (heap s b))).
Definition fresh_blk (start k : nat) : blk :=
  {| alive := true; bstart := start; bno := k; used := B; next := None; slots := fun _ => None |}.

(* after the loads: return "empty" or go to the CAS *)
Definition after_loads (s : st) (a : nat) (x : ast) : st :=
  if emptyck x then setA s a (a_pc x Idle) else setA s a (a_pc (a_nid x (newid x)) XC).

(* used.fetch_sub(n) on block b, freeing it when the old value was n *)
Definition release (s : st) (b n : nat) : st :=
  let k := heap s b in
  let old := used k in
  let s1 := deref s b in
  let s2 := s_bad_under s1 (bad_under s1 || Nat.ltb old n) in
  s_heap s2 (upd (heap s2) b (b_alive (b_used k (old - n)) (alive k && negb (Nat.eqb old n)))).

Definition step (s : st) (ac : action) : option st :=
  match ac with
  | Call a k v =>
      let me := A s a in
      match pc me with
      | Idle => if call_ok a k
                then Some (setA s a (a_rb (a_rv (a_res (a_retry (a_pvl (a_kd (a_pc me (entry k)) k) v) false) []) []) false))
                else None
      | _ => None
      end
  | Ret a =>
      let me := A s a in
      match pc me with
      | Ext => if is_own (kd me)
               then match dq me with
                    | [] => Some (setA s a (a_pc me Idle))
                    | v :: r => Some (setA s a (a_pc (a_dq (a_rv me [v]) r) Idle))
                    end
               else Some (setA s a (a_pc me Idle))
      | _ => None
      end
  | Step a x =>
      let me := A s a in
      match pc me with
      | Idle | Ext => None
      (* ---------------------------------------------------------------- push *)
      | OW => (* tail.set(push_index, v) *)
          let s1 := deref s (tbk s) in
          let k := heap s1 (tbk s1) in
          let s2 := s_heap s1 (upd (heap s1) (tbk s1) (b_slots k (upd (slots k) (tix s1 mod B) (Some (pvl me))))) in
          let s3 := s_pushed s2 (pushed s2 ++ [pvl me]) in
          Some (setA s3 a (a_pc me (if Nat.eqb (S (tix s) mod B) 0 then ON else OC)))
      | ON => (* BlockNode::new(new_index) at the address x the allocator chose; tail.next.store(new_tail) *)
          if negb (alive (heap s x)) && (reuse || negb (born s x)) then
            let s1 := deref s (tbk s) in
            let h1 := upd (heap s1) x (fresh_blk (S (tix s1)) (nblk s1)) in
            let h2 := upd h1 (tbk s1) (b_next (h1 (tbk s1)) (Some x)) in
            let s2 := s_heap s1 h2 in
            let s3 := s_born (s_badr (s_nblk s2 (S (nblk s2))) (upd (badr s2) (nblk s2) x)) (upd (born s2) x true) in
            Some (setA s3 a (a_pc (a_lnew me x) OB))
          else None
      | OB => (* tail.block.store(new_tail) *)
          Some (setA (s_tbk s (lnew me)) a (a_pc me OC))
      | OC => (* tail.index.store(new_index) *)
          Some (setA (s_tix s (S (tix s))) a (a_pc me Idle))
      (* ---------------------------------------------------------------- pop / bulk_pop / local_pop / steal_into *)
      | X0 => (* head.load; the lock bit is masked off *)
          let me1 := a_li (a_lb me (hb s)) (hi s) in
          if is_local (kd me)
          then Some (after_loads s a (a_ltb (a_lpi me1 (tix s)) (tbk s)))      (* unsync loads of the owner's own words *)
          else Some (setA s a (a_pc me1 X1))
      | X1 => (* tail.index.load *)
          Some (setA s a (a_pc (a_lpi me (tix s)) X2))
      | X2 => (* tail.block.load *)
          Some (after_loads s a (a_ltb me (tbk s)))
      | XC => (* head.compare_exchange_weak(head, new_head) *)
          if Nat.eqb (hb s) (lb me) && Nat.eqb (hi s) (li me) && negb (hl s) then
            if locked me
            then Some (setA (s_hl s true) a (a_pc me XS))
            else let lo := bstart (heap s (hb s)) + li me in
                 let hi' := bstart (heap s (hb s)) + nexti me in
                 let s1 := s_hi s (nexti me) in
                 let s2 := s_cl s1 (updr (cl s1) lo hi' (Some a)) in
                 Some (setA s2 a (a_pc (a_ghi (a_glo me lo) hi') XS))
          else
            let me1 := a_li (a_lb me (hb s)) (hi s) in
            if is_local (kd me)
            then Some (after_loads s a me1)
            else Some (setA s a (a_pc (a_retry me1 true) X1))
      | XS => (* block.start.load *)
          let s1 := deref s (lb me) in
          let bs := bstart (heap s (lb me)) in
          let me1 := a_ppi me (bs + li me) in
          if locked me then
            if is_local (kd me)
            then Some (setA s1 a (a_pc (a_pend me1 (S (bs + li me))) (if Nat.leb (lpi me) (bs + li me) then XR else XN)))
            else Some (setA s1 a (a_pc me1 XT))
          else
            if is_local (kd me)
            then (if Nat.leb (lpi me) (bs + li me)
                  then Some (setA s1 a (a_pc (a_pend me1 (S (bs + li me))) LK))
                  else Some (setA s1 a (a_pc (a_pend me1 (S (bs + li me))) XG)))
            else Some (setA s1 a (a_pc (a_pend me1 (bs + nexti me)) XW))
      | XT => (* lock held: tail.index.load *)
          if Nat.leb (tix s) (ppi me)
          then Some (setA s a (a_pc me XR))
          else if is_bulk (kd me)
               then let e := Nat.min (ppi me - li me + B) (tix s) in
                    Some (setA s a (a_pc (a_pend me e) (if Nat.eqb (e mod B) 0 then XN else XH2)))
               else Some (setA s a (a_pc (a_pend me (S (ppi me))) XN))
      | XR => (* head.store(head): give the lock back, nothing claimed *)
          Some (setA (s_hl (s_hi (s_hb s (lb me)) (li me)) false) a (a_pc me Idle))
      | XN => (* block.next.load *)
          let s1 := deref s (lb me) in
          Some (setA s1 a (a_pc (a_lnx me (next (heap s (lb me)))) XH))
      | XH => (* head.store(next) *)
          let s1 := match lnx me with
                    | Some n => s_hl (s_hi (s_hb s n) 0) false
                    | None => s_bad_null (s_hl (s_hi (s_hb s 0) 0) false) true
                    end in
          let s2 := s_cl s1 (updr (cl s1) (ppi me) (pend me) (Some a)) in
          Some (setA s2 a (a_pc (a_ghi (a_glo me (ppi me)) (pend me)) XG))
      | XH2 => (* head.store(pack(block, end & MASK)) *)
          let s1 := s_hl (s_hi (s_hb s (lb me)) (pend me mod B)) false in
          let s2 := s_cl s1 (updr (cl s1) (ppi me) (pend me) (Some a)) in
          Some (setA s2 a (a_pc (a_ghi (a_glo me (ppi me)) (pend me)) XG))
      | XW => (* tail.index.load in the wait loop (virtual 10 ms sleep between two loads) *)
          if Nat.leb (pend me) (tix s) then Some (setA s a (a_pc me XG)) else Some s
      | XG => (* block.get(id) / copy_to_bulk *)
          let s1 := deref s (lb me) in
          let n := pend me - ppi me in
          let k := heap s (lb me) in
          let vals := map (fun j => slots k (li me + j)) (seq 0 n) in
          let s2 := s_got s1 (got s1 ++ map (fun j => (a, ppi me + j, slots k (li me + j))) (seq 0 n)) in
          let s3 := s_rd s2 (updr (rd s2) (ppi me) (pend me) true) in
          Some (setA s3 a (a_pc (a_res me vals) XM))
      | XM => (* block.mark_slots_read(end - pop_index); free the block if that was the rest *)
          let s1 := release s (lb me) (pend me - ppi me) in
          let s2 := s_rl s1 (updr (rl s1) (ppi me) (pend me) true) in
          if is_steal (kd me)
          then Some (setA s2 a (a_pc (a_dq (a_rv me (match rev (res me) with v :: _ => [v] | [] => [] end))
                                           (dq me ++ removelast (res me))) Ext))
          else Some (setA s2 a (a_pc (a_rv me (res me)) Idle))
      | LK => (* local_pop, unreachable: tail.index.store(push_index + 1) *)
          Some (setA (s_tix s (S (lpi me))) a (a_pc me LKr))
      | LKr => (* local_pop, unreachable: mark_slots_read(1) of the skipped slot *)
          let s1 := release s (lb me) 1 in
          let s2 := s_rl s1 (updr (rl s1) (ppi me) (pend me) true) in
          Some (setA s2 a (a_pc me Idle))
      (* ---------------------------------------------------------------- is_empty *)
      | E0 => Some (setA s a (a_pc (a_li (a_lb me (hb s)) (hi s)) E1))
      | E1 => Some (setA s a (a_pc (a_lpi me (tix s)) E2))
      | E2 => let me1 := a_ltb me (tbk s) in
              Some (setA s a (a_pc (a_rb me1 (Nat.eqb (lb me1) (ltb me1) && Nat.eqb (li me1) (lpi me1 mod B))) Idle))
      end
  end.

Definition ast0 : ast :=
  {| pc := Idle; kd := KEmpty; pvl := 0; lb := 0; li := 0; lpi := 0; ltb := 0; nid := 0; ppi := 0; pend := 0;
     lnx := None; lnew := 0; res := []; retry := false; rv := []; rb := false; dq := []; glo := 0; ghi := 0 |}.
Definition dead_blk : blk := {| alive := false; bstart := 0; bno := 0; used := 0; next := None; slots := fun _ => None |}.

Definition init : st :=
  {| hb := 0; hi := 0; hl := false; tix := 0; tbk := 0;
     heap := fun a => if Nat.eqb a 0 then fresh_blk 0 0 else dead_blk;
     A := fun _ => ast0;
     pushed := []; nblk := 1; badr := fun _ => 0; born := fun a => Nat.eqb a 0;
     cl := fun _ => None; rd := fun _ => false; rl := fun _ => false; got := [];
     bad_uaf := false; bad_under := false; bad_null := false |}.

Inductive Reach : st -> Prop :=
| R0 : Reach init
| RS s a s' : Reach s -> step s a = Some s' -> Reach s'.

Fixpoint run (s : st) (l : list action) : option st :=
  match l with
  | [] => Some s
  | a :: l' => match step s a with Some s' => run s' l' | None => None end
  end.

End M.
