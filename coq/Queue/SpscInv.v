(* Inductive invariant of the spsc model, arithmetic and list lemmas, tactics. *)
From Coq Require Import List Arith Bool Lia.
Import ListNotations.
Require Import MayV.Queue.SpscModel.

(* ---- lists ---- *)
Lemma firstn_snoc {X} (l : list X) n d : n < length l -> firstn (S n) l = firstn n l ++ [nth n l d].
Proof.
  revert n. induction l as [|x l IH]; intros n H; cbn in H; [lia|].
  destruct n; cbn; [reflexivity|]. f_equal. apply IH. lia.
Qed.
Lemma firstn_app_l {X} (l r : list X) n : n <= length l -> firstn n (l ++ r) = firstn n l.
Proof. intros H. rewrite firstn_app. replace (n - length l) with 0 by lia. cbn. now rewrite app_nil_r. Qed.
Lemma acc_snoc (l acc : list nat) k h : acc = firstn (k - h) l -> h <= k -> k - h < length l ->
  acc ++ [nth (k - h) l 0] = firstn (S k - h) l.
Proof. intros -> H1 H2. replace (S k - h) with (S (k - h)) by lia. symmetry. now apply firstn_snoc. Qed.
Lemma list_eqb_refl l : list_eqb l l = true.
Proof. induction l; cbn; [reflexivity|]. now rewrite Nat.eqb_refl. Qed.
Lemma nth_snoc_lt {X} (l : list X) x i d : i < length l -> nth i (l ++ [x]) d = nth i l d.
Proof. intros H. now rewrite app_nth1. Qed.
Lemma nth_snoc_eq {X} (l : list X) x d : nth (length l) (l ++ [x]) d = x.
Proof. rewrite app_nth2; [|lia]. now rewrite Nat.sub_diag. Qed.

Lemma upd_eq {X} (f : nat -> X) i v : upd f i v i = v.
Proof. unfold upd. now rewrite Nat.eqb_refl. Qed.
Lemma upd_neq {X} (f : nat -> X) i j v : j <> i -> upd f i v j = f j.
Proof. unfold upd. intros H. destruct (Nat.eqb_spec j i); congruence. Qed.
Lemma upd2_eq {X} (f : nat -> nat -> X) b o v : upd2 f b o v b o = v.
Proof. unfold upd2. now rewrite !Nat.eqb_refl. Qed.
Lemma upd2_neq {X} (f : nat -> nat -> X) b o v b' o' : b' <> b \/ o' <> o -> upd2 f b o v b' o' = f b' o'.
Proof.
  unfold upd2. intros H. destruct (Nat.eqb_spec b' b); destruct (Nat.eqb_spec o' o); cbn; auto. lia.
Qed.


Section I.
Variable B : nat.
Hypothesis Bpos : 1 <= B.
Set Default Proof Using "Bpos".
Notation step := (step B).
Notation Reach := (Reach B).
Notation init := (init).

(* value pushed with index i: the published values, then the one in flight *)
Definition valat (s : st) (i : nat) : nat := nth i (pushed (Q s) ++ [pv (P s)]) 0.

(* producer: control point against tail position and the block sequence *)
Definition pinv (s : st) : Prop :=
  let m := M s in let k := K s in let p := P s in
  match pp p with
  | PIdle | PWrite => gtk k * B <= tidx m /\ tidx m < (gtk k + 1) * B /\ gnb k = S (gtk k)
  | PPub => gtk k * B <= S (tidx m) /\ S (tidx m) < (gtk k + 1) * B /\ gnb k = S (gtk k)
  | PRec1 | PRec2 => S (tidx m) = (gtk k + 1) * B /\ gnb k = S (gtk k) /\ first m <> lasth m
  | PRdHead => S (tidx m) = (gtk k + 1) * B /\ gnb k = S (gtk k)
  | PStLH => S (tidx m) = (gtk k + 1) * B /\ gnb k = S (gtk k) /\
             plh p = bid k (gplk k) /\ glk k <= gplk k /\ gplk k <= ghk k
  | PLink => S (tidx m) = (gtk k + 1) * B /\ gnb k = S (gtk k) /\
             1 <= pnew p /\ pnew p < nalloc m /\ (forall j, gfk k <= j -> j < gnb k -> bid k j <> pnew p)
  | PSetT => S (tidx m) = (gtk k + 1) * B /\ gnb k = S (S (gtk k)) /\ bid k (S (gtk k)) = pnew p
  | PLenH => gtk k * B <= tidx m /\ tidx m < (gtk k + 1) * B /\ gnb k = S (gtk k) /\
             length (absq (Q s)) <= glen0p (Q s)
  | PLenT => gtk k * B <= tidx m /\ tidx m < (gtk k + 1) * B /\ gnb k = S (gtk k) /\
             plenh p <= hidx m /\ tidx m - plenh p <= glen0p (Q s)
  end.

(* consumer: control point against head position, the values collected so far *)
Definition cinv (s : st) : Prop :=
  let m := M s in let k := K s in let c := C s in let q := Q s in
  match cp c with
  | CIdle | CTail => ghk k * B <= hidx m /\ hidx m < (ghk k + 1) * B
  | CLenH => ghk k * B <= hidx m /\ hidx m < (ghk k + 1) * B /\ glen0 q <= length (absq q)
  | CLenT => ghk k * B <= hidx m /\ hidx m < (ghk k + 1) * B /\ glen0 q <= length (absq q) /\ clh c = hidx m
  | CRead => ghk k * B <= hidx m /\ hidx m < (ghk k + 1) * B /\
             hidx m <= ck c /\ ck c < cend c /\ cend c <= tidx m /\ cend c <= (ghk k + 1) * B /\
             cacc c = firstn (ck c - hidx m) (absq q) /\ (cop c = OBulk \/ cend c = S (hidx m))
  | CNext => ghk k * B <= hidx m /\ hidx m < (ghk k + 1) * B /\
             cend c = (ghk k + 1) * B /\ cend c <= tidx m /\ cacc c = firstn (cend c - hidx m) (absq q)
  | CSetH => ghk k * B <= hidx m /\ hidx m < (ghk k + 1) * B /\
             cend c = (ghk k + 1) * B /\ cend c <= tidx m /\ cacc c = firstn (cend c - hidx m) (absq q) /\
             cnh c = bid k (S (ghk k))
  | CCommit => ghk k * B <= cend c /\ cend c < (ghk k + 1) * B /\ hidx m < cend c /\ cend c <= tidx m /\
               cacc c = firstn (cend c - hidx m) (absq q) /\ cend c <= hidx m + B
  end.

Definition flags_ok (f : gm) : Prop :=
  bad_fifo f = false /\ bad_none f = false /\ bad_read f = false /\ bad_recyc f = false /\
  bad_over f = false /\ bad_null f = false /\ bad_len f = false /\ bad_lenp f = false.

Record Inv (s : st) : Prop := {
  (* refinement *)
  IR1 : length (pushed (Q s)) = tidx (M s);
  IR2 : length (popped (Q s)) = hidx (M s);
  IR3 : pushed (Q s) = popped (Q s) ++ absq (Q s);
  (* block sequence *)
  IK1 : gfk (K s) <= glk (K s) /\ glk (K s) <= ghk (K s) /\ ghk (K s) <= gtk (K s) /\ gtk (K s) < gnb (K s);
  IK2 : first (M s) = bid (K s) (gfk (K s)) /\ lasth (M s) = bid (K s) (glk (K s)) /\
        hblk (M s) = bid (K s) (ghk (K s)) /\ tblk (M s) = bid (K s) (gtk (K s));
  IK3 : forall j, j < gnb (K s) -> 1 <= bid (K s) j /\ bid (K s) j < nalloc (M s);
  IK4 : forall i j, gfk (K s) <= i -> i < j -> j < gnb (K s) -> bid (K s) i <> bid (K s) j;
  IK5 : forall j, gfk (K s) <= j -> S j < gnb (K s) -> nxt (M s) (bid (K s) j) = bid (K s) (S j);
  (* control points *)
  IP : pinv s;
  IC : cinv s;
  (* slots *)
  IS1 : forall j o, o < B -> rdpos s <= j * B + o -> j * B + o < wpos s ->
        slot (M s) (bid (K s) j) o = Some (j * B + o, valat s (j * B + o));
  IS2 : forall b o i v, slot (M s) b o = Some (i, v) ->
        i < wpos s /\ (rdpos s <= i -> b = bid (K s) (i / B) /\ o = i mod B);
  (* monitors *)
  IM : flags_ok (F s)
}.

(* ---- arithmetic ---- *)
Lemma div_loc g t : g * B <= t -> t < (g + 1) * B -> t / B = g.
Proof. intros H1 H2. symmetry. apply (Nat.div_unique t B g (t - g * B)); nia. Qed.
Lemma mod_loc g t : g * B <= t -> t < (g + 1) * B -> t mod B = t - g * B.
Proof. intros H1 H2. symmetry. apply (Nat.mod_unique t B g (t - g * B)); nia. Qed.
Lemma mod_off j o : o < B -> (j * B + o) mod B = o.
Proof. intros H. rewrite (mod_loc j); nia. Qed.
Lemma div_off j o : o < B -> (j * B + o) / B = j.
Proof. intros H. apply div_loc; nia. Qed.
Lemma end_iff g c : g * B < c -> c <= (g + 1) * B -> (c mod B = 0 <-> c = (g + 1) * B).
Proof.
  intros H1 H2. split.
  - intros Hm. assert (Hb : B <> 0) by lia.
    pose proof (Nat.div_exact c B Hb) as [_ E]. specialize (E Hm).
    assert (c / B = g + 1) by nia. nia.
  - intros ->. apply Nat.mod_mul. lia.
Qed.
Lemma at_end_true g c : g * B < c -> c <= (g + 1) * B -> at_end B c = true -> c = (g + 1) * B.
Proof. unfold at_end. intros H1 H2 H. apply Nat.eqb_eq in H. now apply (end_iff g c). Qed.
Lemma at_end_false g c : g * B < c -> c <= (g + 1) * B -> at_end B c = false -> c < (g + 1) * B.
Proof.
  unfold at_end. intros H1 H2 H. apply Nat.eqb_neq in H.
  destruct (Nat.eq_dec c ((g + 1) * B)) as [E|E]; [|lia]. exfalso. apply H. now apply (end_iff g c).
Qed.
Lemma blkend_loc g h : g * B <= h -> h < (g + 1) * B -> blkend B h = (g + 1) * B.
Proof. intros H1 H2. unfold blkend. now rewrite (div_loc g h). Qed.

Lemma inv_init : Inv init.
Proof.
  constructor; unfold pinv, cinv, flags_ok, rdpos, wpos, valat; cbn; intros; try discriminate; try tauto; try lia.
  all: try (repeat split; lia).
Qed.

(* ---- facts used all over the preservation proofs ---- *)
Lemma tail_bounds s : Inv s ->
  gtk (K s) * B <= wpos s /\ wpos s <= (gtk (K s) + 1) * B /\ tidx (M s) < (gtk (K s) + 1) * B /\
  tidx (M s) <= wpos s /\ wpos s <= S (tidx (M s)).
Proof.
  intros Hi. pose proof (IP _ Hi) as Hp. unfold pinv in Hp. unfold wpos.
  destruct (pp (P s)); cbn; lia.
Qed.
Lemma head_bounds s : Inv s ->
  ghk (K s) * B <= rdpos s /\ hidx (M s) <= rdpos s /\ rdpos s <= tidx (M s) /\ hidx (M s) <= tidx (M s).
Proof.
  intros Hi. pose proof (IC _ Hi) as Hc. unfold cinv in Hc. unfold rdpos.
  pose proof (IR1 _ Hi). pose proof (IR2 _ Hi). pose proof (IR3 _ Hi) as E.
  apply (f_equal (@length nat)) in E. rewrite app_length in E.
  destruct (cp (C s)); cbn; lia.
Qed.
Lemma absq_len s : Inv s -> length (absq (Q s)) = tidx (M s) - hidx (M s).
Proof.
  intros Hi. pose proof (IR1 _ Hi). pose proof (IR2 _ Hi). pose proof (IR3 _ Hi) as E.
  apply (f_equal (@length nat)) in E. rewrite app_length in E. lia.
Qed.

(* what the consumer finds in the slot it reads *)
Lemma read_ok s : Inv s -> cp (C s) = CRead ->
  slot (M s) (hblk (M s)) (ck (C s) mod B) = Some (ck (C s), nth (ck (C s) - hidx (M s)) (absq (Q s)) 0).
Proof.
  intros Hi Ecp. pose proof (IC _ Hi) as Hc. unfold cinv in Hc. rewrite Ecp in Hc.
  destruct Hc as (C1 & C2 & C3 & C4 & C5 & C6 & _).
  destruct (IK2 _ Hi) as (_ & _ & E3 & _). pose proof (tail_bounds _ Hi) as TB.
  pose proof (IR1 _ Hi) as R1. pose proof (IR2 _ Hi) as R2. pose proof (IR3 _ Hi) as R3.
  rewrite (mod_loc (ghk (K s))) by lia. rewrite E3.
  pose proof (IS1 _ Hi (ghk (K s)) (ck (C s) - ghk (K s) * B)) as S1.
  replace (ghk (K s) * B + (ck (C s) - ghk (K s) * B)) with (ck (C s)) in S1 by lia.
  rewrite S1; [| nia | unfold rdpos; rewrite Ecp; lia | lia].
  f_equal. f_equal. unfold valat. rewrite nth_snoc_lt by lia. rewrite R3.
  rewrite app_nth2 by lia. now rewrite R2.
Qed.
End I.
