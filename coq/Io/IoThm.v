(* IoModel: the C17 theorems.
   (i)  the byte stream / message stream is preserved (given the kernel object K1-K2)
   (ii) no missed readiness edge: in a quiescent state nobody is suspended whose wake condition holds;
        the wake token of a suspended caller exists exactly once *)
From Coq Require Import List Arith Bool Lia.
Import ListNotations.
Require Import MayV.Io.IoModel MayV.Io.IoTac MayV.Io.IoInv MayV.Io.IoPres.

Section Thm.
Variable cap : nat.
Variable peer : nat -> nat.
Variable selof : nat -> nat.
Variable fixB fixD calm : bool.
Hypothesis peer_inv : forall f, peer (peer f) = f.
Notation step := (step cap peer selof fixB fixD calm).
Notation Reach := (Reach cap peer selof fixB fixD calm).
Notation Inv := (Inv cap peer selof).

(* ---- (i) stream integrity ---------------------------------------------------------------------------------- *)
Record Fifo (s : st) : Prop := {
  FA : forall p, sent (P s p) = rcvd (P s p) ++ buf (P s p);
  FB : forall p, eof (P s p) = true -> wshut (P s p) = true /\ buf (P s p) = [];
  FC : forall f, kest (Kn s f) = kacc (Kn s f) ++ kq (Kn s f)
}.

Ltac opn := unfold finish, die, wake, wake_to, set_pend, disarm in *; simp.
Ltac dm := repeat match goal with
  | |- context [match ?x with Some _ => _ | None => _ end] => destruct x eqn:?
  end; simp.

(* what a finished syscall did to its pipe *)
Lemma sys_done_fifo s x m r p' ev :
  syscall cap peer s x m = SysDone r p' ev ->
  let q := P s (pipe_of peer (akind x) (afd x)) in
  sent q = rcvd q ++ buf q -> (eof q = true -> wshut q = true /\ buf q = []) ->
  sent p' = rcvd p' ++ buf p' /\ (eof p' = true -> wshut p' = true /\ buf p' = []).
Proof.
  intros Hs q HA HB. pose proof (sys_done_kind _ _ _ _ _ _ _ _ Hs) as D.
  unfold syscall in Hs. fold q in Hs. destruct (akind x); [| |destruct D; discriminate|destruct D; discriminate].
  - destruct (buf q) as [|b bs] eqn:Eb.
    + destruct (wshut q) eqn:W; [|discriminate]. injection Hs as <- <- <-. cbn. rewrite HA. split; auto.
    + rewrite <- Eb in *. destruct (_ && _) eqn:G; [|discriminate]. injection Hs as <- <- <-. cbn. split.
      * rewrite HA, <- app_assoc, firstn_skipn. reflexivity.
      * intros E. destruct (HB E) as [_ Z]. rewrite Z in Eb. discriminate.
  - destruct (wshut q) eqn:W.
    + injection Hs as <- <- <-. split; [exact HA|]. intros E. destruct (HB E). auto.
    + destruct (cap <=? length (buf q)); [discriminate|]. destruct (_ && _); [|discriminate].
      injection Hs as <- <- <-. cbn. split.
      * rewrite HA, app_assoc. reflexivity.
      * intros E. destruct (HB E). congruence.
Qed.

(* what a connection entering a backlog does to the accounting of the listeners *)
Lemma enqueue_fifo kn l c : (forall f, kest (kn f) = kacc (kn f) ++ kq (kn f)) ->
  forall f, kest (enqueue kn l c f) = kacc (enqueue kn l c f) ++ kq (enqueue kn l c f).
Proof.
  intros H f. unfold enqueue. destruct (Nat.eq_dec f l) as [->|N]; [rewrite upd_eq | rewrite upd_neq by exact N; apply H].
  cbn. rewrite H, app_assoc. reflexivity.
Qed.
Lemma kupd_fifo kn g k' : (forall f, kest (kn f) = kacc (kn f) ++ kq (kn f)) ->
  kest k' = kacc k' ++ kq k' -> forall f, kest (upd kn g k' f) = kacc (upd kn g k' f) ++ kq (upd kn g k' f).
Proof. intros H H' f. destruct (Nat.eq_dec f g) as [->|N]; [rewrite upd_eq; exact H' | rewrite upd_neq by exact N; apply H]. Qed.

(* what a finished accept / connect did to the backlogs *)
Lemma sysk_fifo s x m r kn' ev :
  syscall cap peer s x m = SysK r kn' ev ->
  (forall f, kest (Kn s f) = kacc (Kn s f) ++ kq (Kn s f)) -> forall f, kest (kn' f) = kacc (kn' f) ++ kq (kn' f).
Proof.
  intros Hs H. pose proof (sysk_kind _ _ _ _ _ _ _ _ Hs) as D.
  unfold syscall in Hs. destruct (akind x); [destruct D; discriminate|destruct D; discriminate| |].
  - destruct (kq (Kn s (afd x))) as [|c q'] eqn:E; [discriminate|]. inversion Hs; subst. apply kupd_fifo; [exact H|].
    cbn. rewrite H, E, <- app_assoc. reflexivity.
  - destruct (kst (Kn s (afd x))); [destruct m as [|[|e]]| | | |]; try discriminate; inversion Hs; subst; try exact H.
    + apply enqueue_fifo. apply kupd_fifo; [exact H|]. cbn. apply H.
    + apply kupd_fifo; [exact H|]. cbn. apply H.
    + apply kupd_fifo; [exact H|]. cbn. apply H.
Qed.
Lemma sysagaink_fifo s x m kn' :
  syscall cap peer s x m = SysAgainK kn' ->
  (forall f, kest (Kn s f) = kacc (Kn s f) ++ kq (Kn s f)) -> forall f, kest (kn' f) = kacc (kn' f) ++ kq (kn' f).
Proof.
  intros Hs H. destruct (sys_againk _ _ _ _ _ _ Hs) as [_ ->]. apply kupd_fifo; [exact H|]. cbn. apply H.
Qed.

Lemma fifo_init : Fifo init.
Proof. constructor; cbn; intros; [reflexivity | discriminate | reflexivity]. Qed.

Lemma fifo_step s ac s' : Fifo s -> step s ac = Some s' -> Fifo s'.
Proof.
  intros [iA iB iC] H.
  step_cases H; opn; dm.
  all: try (constructor; simp; assumption).
  all: try (match goal with Es : syscall _ _ ?s ?x ?m = SysDone _ _ _ |- _ =>
              destruct (sys_done_fifo s x m _ _ _ Es (iA _) (iB _)) as [X1 X2] end;
            constructor; simp; auto; intros p0; upds; auto).
  all: try (match goal with Es : syscall _ _ ?s ?x ?m = SysK _ _ _ |- _ =>
              pose proof (sysk_fifo s x m _ _ _ Es iC) as X1 end; constructor; simp; auto).
  all: try (match goal with Es : syscall _ _ ?s ?x ?m = SysAgainK _ |- _ =>
              pose proof (sysagaink_fifo s x m _ Es iC) as X1 end; constructor; simp; auto).
  all: try (constructor; simp; auto; apply kupd_fifo; [exact iC | cbn; apply iC]).
  all: try (constructor; simp; auto; apply enqueue_fifo; apply kupd_fifo; [exact iC | cbn; apply iC]).
  - (* Shutdown *) constructor; simp; auto; intros p0; upds; auto.
    intros E. destruct (iB _ E). auto.
Qed.

Theorem fifo_reach s : Reach s -> Fifo s.
Proof. induction 1; [apply fifo_init | eapply fifo_step; eauto]. Qed.

(* C17 (i): everything the readers got so far, followed by what the kernel still holds, is exactly what the
   writers' calls were told was written: nothing lost, duplicated or reordered, for every split into writes and reads *)
Theorem stream_preserved s p : Reach s -> sent (P s p) = rcvd (P s p) ++ buf (P s p).
Proof. intros R. apply (FA _ (fifo_reach _ R)). Qed.

(* a read returned 0 (end of stream) only after the writer shut its direction down, with nothing left in the
   kernel: all that was ever sent has been received *)
Theorem eof_only_at_end s p : Reach s -> eof (P s p) = true -> wshut (P s p) = true /\ rcvd (P s p) = sent (P s p).
Proof.
  intros R E. destruct (FB _ (fifo_reach _ R) _ E) as [W B]. split; [exact W|].
  rewrite (stream_preserved s p R), B, app_nil_r. reflexivity.
Qed.

(* what one syscall hands to the caller: a read returns a non-empty prefix of the kernel's queue, at most the
   requested size (datagram sockets / listeners: one element per call, so element boundaries are message boundaries);
   0 is returned only on an empty queue after shutdown; a write reports the length of the prefix it queued *)
Theorem syscall_results s x m r p' ev :
  syscall cap peer s x m = SysDone r p' ev ->
  let q := P s (pipe_of peer (akind x) (afd x)) in
  match r with
  | ROk l => akind x = Rd /\ l = firstn m (buf q) /\ 1 <= length l <= an x /\ buf q = l ++ buf p' /\ rcvd p' = rcvd q ++ l
  | REof => akind x = Rd /\ buf q = [] /\ wshut q = true
  | RWrote n => akind x = Wr /\ n = m /\ 1 <= n <= length (adat x) /\ buf p' = buf q ++ firstn n (adat x) /\
                length (buf p') <= cap /\ wshut q = false
  | RPipe => akind x = Wr /\ wshut q = true /\ p' = q
  | _ => False
  end.
Proof.
  intros Hs q. pose proof (sys_done_kind _ _ _ _ _ _ _ _ Hs) as D.
  unfold syscall in Hs. fold q in Hs. destruct (akind x); [| |destruct D; discriminate|destruct D; discriminate].
  - destruct (buf q) as [|b bs] eqn:Eb.
    + destruct (wshut q) eqn:W; [|discriminate]. injection Hs as <- <- <-. auto.
    + rewrite <- Eb in *. destruct (_ && _) eqn:G; [|discriminate]. injection Hs as <- <- <-. cbn.
      apply andb_prop in G. destruct G as [G G3]. apply andb_prop in G. destruct G as [G1 G2].
      apply Nat.leb_le in G1, G2, G3.
      repeat split; auto.
      * rewrite firstn_length. lia.
      * rewrite firstn_length. lia.
      * rewrite firstn_skipn. reflexivity.
  - destruct (wshut q) eqn:W.
    + injection Hs as <- <- <-. auto.
    + destruct (cap <=? length (buf q)) eqn:C; [discriminate|]. destruct (_ && _) eqn:G; [|discriminate].
      injection Hs as <- <- <-. cbn.
      apply andb_prop in G. destruct G as [G G3]. apply andb_prop in G. destruct G as [G1 G2].
      apply Nat.leb_le in G1, G2, G3.
      repeat split; auto. rewrite app_length, firstn_length. lia.
Qed.

(* accept hands over exactly the head of the backlog and removes it; connect reports success only when the kernel has
   established the connection (at once, or CEst / CConn after an attempt in progress) and an error only when the kernel
   failed the attempt with that error (at once, or the pending error CRef e of an attempt in progress) *)
Theorem syscall_results_k s x m r kn' ev :
  syscall cap peer s x m = SysK r kn' ev ->
  let f := afd x in
  match r with
  | RAcc c => akind x = Ac /\ kq (Kn s f) = c :: kq (kn' f) /\ kacc (kn' f) = kacc (Kn s f) ++ [c] /\ ev = None
  | RConn => akind x = Co /\ kst (kn' f) = CConn /\
             (kst (Kn s f) = CEst \/ kst (Kn s f) = CConn \/
              (kst (Kn s f) = CNone /\ m = 1 /\ kq (kn' (an x)) = kq (Kn s (an x)) ++ [f] /\ (kq (Kn s (an x)) = [] -> ev = Some (an x))))
  | RErr e => akind x = Co /\ (kst (Kn s f) = CRef e \/ (kst (Kn s f) = CNone /\ m = S (S e)))
  | _ => False
  end.
Proof.
  intros Hs f. subst f. pose proof (sysk_kind _ _ _ _ _ _ _ _ Hs) as D.
  unfold syscall in Hs. destruct (akind x); [destruct D; discriminate|destruct D; discriminate| |].
  - destruct (kq (Kn s (afd x))) as [|c q'] eqn:E; [discriminate|]. inversion Hs; subst. rewrite upd_eq. cbn. auto.
  - destruct (kst (Kn s (afd x))) eqn:E; [destruct m as [|[|e]]| | | |]; try discriminate; inversion Hs; subst; clear Hs.
    + split; [reflexivity|]. split; [rewrite kst_enqueue, upd_eq; reflexivity|]. right; right.
      split; [reflexivity|]. split; [reflexivity|]. unfold enqueue, q_edge. rewrite upd_eq. cbn.
      assert (Q : kq (upd (Kn s) (afd x) (k_start (Kn s (afd x)) CConn (an x) true) (an x)) = kq (Kn s (an x))).
      { destruct (Nat.eq_dec (an x) (afd x)) as [Z|N]; [rewrite Z, upd_eq; reflexivity | rewrite upd_neq by exact N; reflexivity]. }
      rewrite Q. split; [reflexivity|]. intros ->. reflexivity.
    + auto.
    + rewrite upd_eq. cbn. auto.
    + auto.
    + rewrite E. auto.
Qed.

(* every connection that entered the backlog of a listener was accepted or is still in it, in the order of arrival *)
Theorem backlog_fifo s f : Reach s -> kest (Kn s f) = kacc (Kn s f) ++ kq (Kn s f).
Proof. intros R. apply (FC _ (fifo_reach _ R)). Qed.

(* ---- (ii) no missed edge ------------------------------------------------------------------------------------ *)

(* C17 (ii): when nobody has an internal step left (no pending event, selectors idle, no kernel half running, nobody
   scheduled), no caller is suspended while the kernel has data (or end of stream) for it as a reader or space for it
   as a writer.  Holds for every interleaving, with timers, cancellation, spurious events and stale kernel halves. *)
Theorem no_missed_edge s a :
  Reach s -> Quiescent s -> apc (A s a) = Susp -> ~ avail cap peer s (A s a).
Proof.
  intros R (Qa & Qs & Qg & Qp & Qc) Hs Hav.
  pose proof (inv_reach cap peer selof fixB fixD calm peer_inv s R) as I.
  destruct (ahome (A s a)) as [|k|f|g|k|b|k|] eqn:Hh.
  - apply (H1 _ _ _ _ I) in Hs. congruence.
  - destruct (H2 _ _ _ _ I _ _ Hh) as (L & _ & _ & [E|E]); rewrite (Qs _ L) in E; discriminate.
  - destruct (H4 _ _ _ _ I _ _ Hh) as [Hc Hf].
    destruct (J _ _ _ _ I a) as [Fl|Pe]; [rewrite Hs; reflexivity | exact Hav | | rewrite Qp in Pe; discriminate].
    rewrite Hf in Fl. destruct (K _ _ _ _ I _ _ Hc Fl) as [X|[(e & X)|(k & L & _ & X)]].
    + rewrite Qg in X. discriminate.
    + rewrite Qg in X. discriminate.
    + rewrite (Qs _ L) in X. destruct X as [X|X]; discriminate.
  - destruct (H6 _ _ _ _ I _ _ Hh) as [f X]. rewrite Qg in X. discriminate.
  - destruct (H8 _ _ _ _ I _ _ Hh) as (L & X); rewrite (Qs _ L) in X; discriminate.
  - destruct (H11 _ _ _ _ I _ _ Hh) as [f X]. rewrite Qc in X. discriminate.
  - destruct (H13 _ _ _ _ I _ _ Hh) as (L & f & X); rewrite (Qs _ L) in X; discriminate.
  - apply (H10 _ _ _ _ I) in Hh. destruct (Qa a) as [_ W]. congruence.
Qed.

(* ... spelled out for the two operations the property names besides read and write: in a quiescent state no acceptor is
   suspended while the backlog of its listener is non-empty, and no connector is suspended after the kernel has
   established or failed its connection attempt *)
Corollary no_missed_accept s a :
  Reach s -> Quiescent s -> apc (A s a) = Susp -> akind (A s a) = Ac -> kq (Kn s (afd (A s a))) = [].
Proof.
  intros R Q Hs Hk. pose proof (no_missed_edge s a R Q Hs) as N. unfold avail in N. rewrite Hk in N.
  destruct (kq (Kn s (afd (A s a)))); [reflexivity | exfalso; apply N; discriminate].
Qed.
Corollary no_missed_connect s a :
  Reach s -> Quiescent s -> apc (A s a) = Susp -> akind (A s a) = Co ->
  kst (Kn s (afd (A s a))) <> CEst /\ forall e, kst (Kn s (afd (A s a))) <> CRef e.
Proof.
  intros R Q Hs Hk. pose proof (no_missed_edge s a R Q Hs) as N. unfold avail in N. rewrite Hk in N.
  split; [intros E; apply N; left; exact E | intros e E; apply N; right; exists e; exact E].
Qed.

(* the wake token of a suspended caller is in exactly one place (`ahome` names it); in particular a coroutine is in at
   most one `co` slot, is never both published and scheduled, and is only ever scheduled while it is suspended: every
   suspension is ended by exactly one resumption *)
Theorem wake_token_unique s a :
  Reach s ->
  (apc (A s a) = Susp <-> ahome (A s a) <> HNone) /\
  (forall f, co s f = Some a <-> ahome (A s a) = HSlot f) /\
  (aawake (A s a) = true <-> ahome (A s a) = HAwake) /\
  (forall g f, Sel s g = SEvT f a -> ahome (A s a) = HSel g) /\
  (forall k, k < nexts s -> spc_ (Sb s k) = SFastT a -> ahome (A s a) = HFast k) /\
  (forall k, k < nexts s -> sa (Sb s k) = a -> spc_ (Sb s k) = SArm \/ spc_ (Sb s k) = SStore -> ahome (A s a) = HSub k).
Proof.
  intros R. pose proof (inv_reach cap peer selof fixB fixD calm peer_inv s R) as I.
  split; [apply (H1 _ _ _ _ I)|]. split; [|split; [|split; [|split]]].
  - intros f. split; [apply (H5 _ _ _ _ I) | intros E; apply (H4 _ _ _ _ I) in E; tauto].
  - split; apply (H10 _ _ _ _ I).
  - intros g f. apply (H7 _ _ _ _ I).
  - intros k. apply (H9 _ _ _ _ I).
  - intros k L E X. rewrite <- E. apply (H3 _ _ _ _ I); assumption.
Qed.

(* ... including the two places a cancel holds it between taking the coroutine and scheduling it *)
Theorem wake_token_in_cancel s c :
  Reach s ->
  (forall a f, Cn s a = Cn3 f c -> ahome (A s c) = HCan a) /\
  (forall k f, k < nexts s -> spc_ (Sb s k) = SCan4 f c -> ahome (A s c) = HKCan k).
Proof.
  intros R. pose proof (inv_reach cap peer selof fixB fixD calm peer_inv s R) as I.
  split; [intros a f; apply (H12 _ _ _ _ I) | intros k f; apply (H14 _ _ _ _ I)].
Qed.

Corollary resumed_only_when_suspended s a : Reach s -> aawake (A s a) = true -> apc (A s a) = Susp /\ forall f, co s f <> Some a.
Proof.
  intros R W. pose proof (inv_reach cap peer selof fixB fixD calm peer_inv s R) as I.
  destruct (awake_facts cap peer selof s I a W) as (_ & X & Y & _). auto.
Qed.
End Thm.
