(* C09 on IoModel (socket read / write / accept / connect: src/io/sys/unix/*, the I/O leg of cancellation).
   The model has the cancel bit of the caller [acanc] (CancelSet = Cancel::cancel's fetch_or), the io slot of its Cancel
   (set_io / CancelIo / CancelTake) and `die` = the cancel panic raised by check_cancel after the resume (or at the call).
   Proved here for EVERY variant and interleaving of the model: (iii) no spurious cancel.  (i) is NOT a theorem on this
   model: see C09_io_cancel_lost_refuted in Properties/C09.v (re-exported from C18). *)
From Coq Require Import List Arith Bool Lia.
Import ListNotations.
Require Import MayV.Io.IoModel MayV.Io.IoTac.

Section S.
Variable cap : nat.
Variable peer selof : nat -> nat.
Variable fixB fixD calm : bool.
Notation step := (step cap peer selof fixB fixD calm).

(* a caller of a socket operation ends with Canceled (the cancel panic) only if its cancel bit is set *)
Theorem io_canceled_needs_cancel s ac s' a : step s ac = Some s' -> apc (A s a) <> Dead -> apc (A s' a) = Dead ->
  acanc (A s a) = true.
Proof.
  intros H N E. revert E.
  step_cases H; unfold finish, die, wake, wake_to, set_pend, disarm in *; simp;
  repeat match goal with |- context [match ?x with Some _ => _ | None => _ end] => destruct x end; simp; upds;
  try congruence; try discriminate.
Qed.

(* and its last result is then Canceled, nothing else is ever reported to it afterwards *)
Theorem io_cancel_panic_reports_canceled s ac s' a : step s ac = Some s' -> apc (A s a) <> Dead -> apc (A s' a) = Dead ->
  alast (A s' a) = Some RCanceled.
Proof.
  intros H N E. revert E.
  step_cases H; unfold finish, die, wake, wake_to, set_pend, disarm in *; simp;
  repeat match goal with |- context [match ?x with Some _ => _ | None => _ end] => destruct x end; simp; upds;
  try congruence; try discriminate.
Qed.
End S.
