(* Life of a socket's selector registration (C17 / C18: "resumed when the socket becomes ready" needs the
   registration to be there for the whole life of the socket).

   Code: a `may` socket (TcpStream / TcpListener / UdpSocket / CoIo<T>) is a struct whose FIRST field is the
   IoData (Drop = del_socket -> Selector::del_fd -> EPOLL_CTL_DEL by descriptor NUMBER) and whose second
   field is the std socket (Drop = close).  Rust drops fields in declaration order, so the code's order is
   deregister, then close (`ord = true`).  The other order (`ord = false`) is the seeded changes C17-5 / C18-6.

   Kernel object assumed (K7, stated in DESIGN.md section 8):
   * a descriptor number is handed out only while it is free (any free number: the lowest-free rule of the
     kernel is one such choice);
   * the interest list of an epoll instance is keyed by descriptor number; EPOLL_CTL_ADD / EPOLL_CTL_DEL act on
     the socket that currently owns the number (EBADF = no effect when nobody does);
   * closing a descriptor removes its own registration.
   All sockets of one selector are modelled (the selector of a socket is a function of its number, so a
   recycled number comes back to the same selector). Each action is one system call = one atomic step; any
   number of threads, any interleaving: the actions of different sockets are enabled independently. *)
From Coq Require Import List Arith Bool Lia.
Import ListNotations.

Inductive phase :=
| SFree                (* no such socket (yet) *)
| SNew (fd : nat)      (* socket() / accept() returned, not yet registered *)
| SLive (fd : nat)     (* add_socket done: in use by readers / writers *)
| SHalf (fd : nat)     (* the drop has done its first half *)
| SDead.

Record state := { fdt : nat -> option nat;   (* descriptor number -> owning socket *)
                  reg : nat -> option nat;   (* interest list: descriptor number -> registered socket *)
                  ph : nat -> phase;
                  next : nat }.

Definition init : state := {| fdt := fun _ => None; reg := fun _ => None; ph := fun _ => SFree; next := 0 |}.

Definition upd {A} (f : nat -> A) (k : nat) (v : A) : nat -> A := fun x => if Nat.eqb x k then v else f x.

Inductive act :=
| Create (fd : nat)        (* socket(): the kernel picks the free number fd *)
| Register (id : nat)      (* add_socket: EPOLL_CTL_ADD *)
| Drop1 (id : nat)         (* first field's destructor *)
| Drop2 (id : nat).        (* second field's destructor *)

Definition is_some {A} (o : option A) : bool := match o with Some _ => true | None => false end.
Definition owns (o : option nat) (id : nat) : bool := match o with Some x => Nat.eqb x id | None => false end.

(* EPOLL_CTL_DEL by number: acts on whoever owns the number now *)
Definition ctl_del (s : state) (fd : nat) : nat -> option nat :=
  if is_some (fdt s fd) then upd (reg s) fd None else reg s.
(* close: the number becomes free; the socket's own registration goes with it *)
Definition close_reg (s : state) (fd id : nat) : nat -> option nat :=
  if owns (reg s fd) id then upd (reg s) fd None else reg s.

Definition step (ord : bool) (s : state) (a : act) : option state :=
  match a with
  | Create fd =>
      if is_some (fdt s fd) then None
      else Some {| fdt := upd (fdt s) fd (Some (next s)); reg := reg s;
                   ph := upd (ph s) (next s) (SNew fd); next := S (next s) |}
  | Register id =>
      match ph s id with
      | SNew fd => Some {| fdt := fdt s; reg := upd (reg s) fd (Some id); ph := upd (ph s) id (SLive fd); next := next s |}
      | _ => None
      end
  | Drop1 id =>
      match ph s id with
      | SLive fd =>
          if ord then Some {| fdt := fdt s; reg := ctl_del s fd; ph := upd (ph s) id (SHalf fd); next := next s |}
          else Some {| fdt := upd (fdt s) fd None; reg := close_reg s fd id; ph := upd (ph s) id (SHalf fd); next := next s |}
      | _ => None
      end
  | Drop2 id =>
      match ph s id with
      | SHalf fd =>
          if ord then Some {| fdt := upd (fdt s) fd None; reg := close_reg s fd id; ph := upd (ph s) id SDead; next := next s |}
          else Some {| fdt := fdt s; reg := ctl_del s fd; ph := upd (ph s) id SDead; next := next s |}
      | _ => None
      end
  end.

Fixpoint run (ord : bool) (s : state) (l : list act) : option state :=
  match l with
  | [] => Some s
  | a :: l' => match step ord s a with Some s' => run ord s' l' | None => None end
  end.

Definition Reach (ord : bool) (s : state) : Prop := exists l, run ord init l = Some s.
