(* tactics shared by the IoModel proofs: case analysis of `step`, simplification of the record updates *)
From Coq Require Import List Arith Bool Lia.
Import ListNotations.
Require Import MayV.Io.IoModel.

Lemma upd_eq {X} (f : nat -> X) i v : upd f i v i = v.
Proof. unfold upd. now rewrite Nat.eqb_refl. Qed.
Lemma upd_neq {X} (f : nat -> X) i j v : j <> i -> upd f i v j = f j.
Proof. unfold upd. intros H. destruct (Nat.eqb_spec j i); congruence. Qed.

Ltac inv_some :=
  repeat match goal with
  | H : Some _ = Some _ |- _ => inversion H; subst; clear H
  | H : None = Some _ |- _ => discriminate H
  | H : Some _ = None |- _ => discriminate H
  end.

(* all projections and update functions of the state: never unfolds `upd`, `syscall`, `step` *)
Ltac simp :=
  cbn [now P pend flag co tmr busy closed A Sb nexts T nextt Sel Cn Kn
       mk wnow wP wpend wflag wco wtmr wbusy wclosed wA wS wnexts wT wnextt wSel wCn wKn
       kq kst ktgt kdeliv kest kacc k_st k_start k_deliv k_push k_pop
       apc afd akind acn ato adat an apara acanc acio aawake atcall ahome alast
       mkA a_pc a_ret a_dead a_susp a_home a_wake a_wake_to a_resume a_canc a_cio a_cio_pc
       spc_ sa sfd sto scn s_pc tstate tdl tev tmin t_null t_pop
       buf wshut sent rcvd eof] in *.

(* one leaf per way a step can be taken.  `syscall` stays folded: its three outcomes are handled by lemmas *)
Ltac step_cases H :=
  unfold step in H;
  repeat match type of H with
  | context [match ?ac with Start _ _ _ _ _ _ _ => _ | _ => _ end] => destruct ac
  | context [match apc ?x with _ => _ end] => let E := fresh "Epc" in destruct (apc x) eqn:E
  | context [match busy ?s ?f with _ => _ end] => let E := fresh "Ebusy" in destruct (busy s f) eqn:E
  | context [match syscall ?c ?p ?s ?x ?m with _ => _ end] => let E := fresh "Esys" in destruct (syscall c p s x m) eqn:E
  | context [match spc_ ?y with _ => _ end] => let E := fresh "Espc" in destruct (spc_ y) eqn:E
  | context [match sto ?y with _ => _ end] => let E := fresh "Esto" in destruct (sto y) eqn:E
  | context [match co ?s ?f with _ => _ end] => let E := fresh "Eco" in destruct (co s f) eqn:E
  | context [match acio ?x with _ => _ end] => let E := fresh "Ecio" in destruct (acio x) eqn:E
  | context [match Sel ?s ?g with _ => _ end] => let E := fresh "Esel" in destruct (Sel s g) eqn:E
  | context [match Cn ?s ?a with _ => _ end] => let E := fresh "Ecn" in destruct (Cn s a) eqn:E
  | context [match tstate ?t with _ => _ end] => let E := fresh "Ets" in destruct (tstate t) eqn:E
  | context [match tev ?t with _ => _ end] => let E := fresh "Etev" in destruct (tev t) eqn:E
  | context [match kst ?k with _ => _ end] => let E := fresh "Ekst" in destruct (kst k) eqn:E
  | context [match ?k with Rd => _ | _ => _ end] => is_var k; destruct k
  | context [if ?c then _ else _] => let E := fresh "Ec" in destruct c eqn:E
  end; try discriminate; inv_some.

Ltac no_upd t := lazymatch t with context [upd _ _ _ _] => fail | _ => idtac end.
(* resolve every `upd f i v j` whose indices are already simplified; innermost first by construction *)
Ltac upd_step :=
  match goal with
  | |- context [upd ?f ?i ?v ?j] =>
      no_upd i; no_upd j;
      first [ rewrite (upd_eq f i v) | rewrite (upd_neq f i j v) by congruence
            | let e := fresh "e" in let ne := fresh "ne" in
              destruct (Nat.eq_dec j i) as [e|ne];
              [ try (rewrite e in * ); rewrite (upd_eq f i v) | rewrite (upd_neq f i j v ne) ] ]
  | H : context [upd ?f ?i ?v ?j] |- _ =>
      no_upd i; no_upd j;
      first [ rewrite (upd_eq f i v) in H | rewrite (upd_neq f i j v) in H by congruence
            | let e := fresh "e" in let ne := fresh "ne" in
              destruct (Nat.eq_dec j i) as [e|ne];
              [ try (rewrite e in * ); rewrite (upd_eq f i v) in H | rewrite (upd_neq f i j v ne) in H ] ]
  end.
Ltac upds := repeat (upd_step; simp).

Ltac bools :=
  repeat match goal with
  | H : (_ && _) = true |- _ => apply andb_prop in H; destruct H
  | H : (_ || _) = false |- _ => apply orb_false_elim in H; destruct H
  | H : (_ =? _) = true |- _ => apply Nat.eqb_eq in H
  | H : (_ =? _) = false |- _ => apply Nat.eqb_neq in H
  | H : (_ <=? _) = true |- _ => apply Nat.leb_le in H
  | H : (_ <=? _) = false |- _ => apply Nat.leb_gt in H
  | H : (_ <? _) = true |- _ => apply Nat.ltb_lt in H
  | H : (_ <? _) = false |- _ => apply Nat.ltb_ge in H
  end.
