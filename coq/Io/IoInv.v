(* IoModel: the inductive invariant behind C17 (ii) "no missed readiness edge" and the exactly-once resumption of a
   suspended caller.  Owicki-Gries style: structure (busy), the ghost `home` of every suspended caller (where its
   one wake token is), and the two edge assertions
     J  a caller that has seen EAGAIN and whose wake condition holds has io_flag set or an event pending
     K  a coroutine published in `co` while io_flag is set is about to be taken: the selector is between fetch_or and
        take, or a subscriber is between co.store and its io_flag re-check / fast_schedule *)
From Coq Require Import List Arith Bool Lia.
Import ListNotations.
Require Import MayV.Io.IoModel MayV.Io.IoTac.

Section Inv.
Variable cap : nat.
Variable peer : nat -> nat.
Variable selof : nat -> nat.
Variable fixB fixD calm : bool.
Hypothesis peer_inv : forall f, peer (peer f) = f.

Notation step := (step cap peer selof fixB fixD calm).
Notation Reach := (Reach cap peer selof fixB fixD calm).
Notation avail := (avail cap peer).
Notation syscall := (syscall cap peer).

(* control points after a failed syscall, up to (excluding) the next clearing of io_flag *)
Definition inJ (p : pc) : bool :=
  match p with PYield | Susp | RBack | RClr | LRes | LClr | LChk => true | _ => false end.
Definition inflight (p : pc) : bool := match p with Idle | Dead => false | _ => true end.

Record Inv (s : st) : Prop := {
  B1 : forall a, inflight (apc (A s a)) = true -> busy s (afd (A s a)) = Some a;
  B2 : forall f a, busy s f = Some a -> afd (A s a) = f /\ inflight (apc (A s a)) = true;
  F1 : forall k, nexts s <= k -> spc_ (Sb s k) = SDone;
  S1 : forall g f e, Sel s g = THnd f e \/ Sel s g = THnd2 f e -> selof f = g;
  H1 : forall a, apc (A s a) = Susp <-> ahome (A s a) <> HNone;
  H2 : forall a k, ahome (A s a) = HSub k ->
         k < nexts s /\ sa (Sb s k) = a /\ sfd (Sb s k) = afd (A s a) /\ (spc_ (Sb s k) = SArm \/ spc_ (Sb s k) = SStore);
  H3 : forall k, k < nexts s -> spc_ (Sb s k) = SArm \/ spc_ (Sb s k) = SStore -> ahome (A s (sa (Sb s k))) = HSub k;
  H4 : forall a f, ahome (A s a) = HSlot f -> co s f = Some a /\ afd (A s a) = f;
  H5 : forall f a, co s f = Some a -> ahome (A s a) = HSlot f;
  H6 : forall a g, ahome (A s a) = HSel g -> exists f, Sel s g = SEvT f a;
  H7 : forall g f a, Sel s g = SEvT f a -> ahome (A s a) = HSel g;
  H8 : forall a k, ahome (A s a) = HFast k -> k < nexts s /\ spc_ (Sb s k) = SFastT a;
  H9 : forall k a, k < nexts s -> spc_ (Sb s k) = SFastT a -> ahome (A s a) = HFast k;
  H10 : forall a, ahome (A s a) = HAwake <-> aawake (A s a) = true;
  H11 : forall c a, ahome (A s c) = HCan a -> exists f, Cn s a = Cn3 f c;
  H12 : forall a f c, Cn s a = Cn3 f c -> ahome (A s c) = HCan a;
  H13 : forall c k, ahome (A s c) = HKCan k -> k < nexts s /\ exists f, spc_ (Sb s k) = SCan4 f c;
  H14 : forall k f c, k < nexts s -> spc_ (Sb s k) = SCan4 f c -> ahome (A s c) = HKCan k;
  HC : forall a f c, Cn s a = Cn3 f c -> afd (A s c) = f;
  HK4 : forall k f c, k < nexts s -> spc_ (Sb s k) = SCan4 f c -> afd (A s c) = f;
  HF : forall k c, k < nexts s -> spc_ (Sb s k) = SFastT c -> afd (A s c) = sfd (Sb s k);
  HS : forall g f c, Sel s g = SEvT f c -> afd (A s c) = f;
  J : forall a, inJ (apc (A s a)) = true -> avail s (A s a) ->
        flag s (afd (A s a)) = true \/ pend s (afd (A s a)) = true;
  K : forall f a, co s f = Some a -> flag s f = true ->
        Sel s (selof f) = SEv f \/ (exists e, Sel s (selof f) = THnd2 f e) \/
        exists k, k < nexts s /\ sfd (Sb s k) = f /\ (spc_ (Sb s k) = SChk \/ spc_ (Sb s k) = SFast)
}.

Lemma inv_init : Inv (init).
Proof.
  constructor; cbn; intros; try discriminate; try lia; try tauto.
  - destruct H; discriminate.
  - split; [discriminate | congruence].
  - split; discriminate.
Qed.

(* ---- the syscall ------------------------------------------------------------------------------------------ *)
Lemma sys_done_kind s x m r p' ev : syscall s x m = SysDone r p' ev -> akind x = Rd \/ akind x = Wr.
Proof.
  unfold IoModel.syscall. destruct (akind x); auto; intros H; exfalso.
  - destruct (kq _); discriminate.
  - destruct (kst _); try discriminate. destruct m as [|[|e]]; discriminate.
Qed.
Lemma sysk_kind s x m r kn' ev : syscall s x m = SysK r kn' ev -> akind x = Ac \/ akind x = Co.
Proof.
  unfold IoModel.syscall. destruct (akind x); auto; intros H; exfalso.
  - destruct (buf _); [destruct (wshut _)|destruct (_ && _)]; discriminate.
  - destruct (wshut _); [discriminate|]. destruct (cap <=? _); [discriminate|]. destruct (_ && _); discriminate.
Qed.

Lemma sys_again s x m : syscall s x m = SysAgain -> ~ avail s x.
Proof.
  unfold IoModel.syscall, IoModel.avail. destruct (akind x).
  - destruct (buf (P s (pipe_of peer Rd (afd x)))) eqn:E.
    + destruct (wshut _) eqn:W; [discriminate|]. intros _ [H|H]; congruence.
    + destruct (_ && _); discriminate.
  - destruct (wshut _) eqn:W; [discriminate|].
    destruct (cap <=? _) eqn:C; [|destruct (_ && _); discriminate].
    intros _ H. apply Nat.leb_le in C. lia.
  - destruct (kq _) eqn:E; [|discriminate]. intros _ H. congruence.
  - destruct (kst _) eqn:E; try discriminate.
    + destruct m as [|[|e]]; discriminate.
    + intros _ [H|[e H]]; discriminate.
Qed.

(* connect answered EINPROGRESS: the attempt is in progress, the wake condition of the caller does not hold yet *)
Lemma sys_againk s x m kn' : syscall s x m = SysAgainK kn' ->
  akind x = Co /\ kn' = upd (Kn s) (afd x) (k_start (Kn s (afd x)) CProg (an x) false).
Proof.
  unfold IoModel.syscall. destruct (akind x).
  - destruct (buf _); [destruct (wshut _)|destruct (_ && _)]; discriminate.
  - destruct (wshut _); [discriminate|]. destruct (cap <=? _); [discriminate|]. destruct (_ && _); discriminate.
  - destruct (kq _); discriminate.
  - destruct (kst _); try discriminate. destruct m as [|[|e]]; try discriminate. intros H. inversion H. auto.
Qed.
Lemma againk_not_avail s x m kn' s1 x' : syscall s x m = SysAgainK kn' -> Kn s1 = kn' ->
  akind x' = akind x -> afd x' = afd x -> ~ avail s1 x'.
Proof.
  intros H HK Ek Ef. destruct (sys_againk _ _ _ _ H) as [K ->]. unfold IoModel.avail. rewrite Ek, K, Ef, HK, upd_eq. cbn.
  intros [X|[e X]]; discriminate.
Qed.

Lemma inJ_inflight p : inJ p = true -> inflight p = true.
Proof. destruct p; cbn; congruence. Qed.

(* `avail` looks at the kernel object only *)
Lemma avail_ext s1 s2 y : P s1 = P s2 -> Kn s1 = Kn s2 -> avail s1 y -> avail s2 y.
Proof. unfold IoModel.avail. intros -> ->. auto. Qed.
(* ... of a listener / connecting socket: at its own descriptor only *)
Lemma avail_kupd s s1 f k' y : P s1 = P s -> Kn s1 = upd (Kn s) f k' -> afd y <> f -> avail s1 y -> avail s y.
Proof. unfold IoModel.avail. intros -> -> N. rewrite upd_neq by exact N. auto. Qed.

Lemma kst_enqueue kn l c g : kst (enqueue kn l c g) = kst (kn g).
Proof. unfold enqueue. destruct (Nat.eq_dec g l) as [->|N]; [rewrite upd_eq; reflexivity | rewrite upd_neq by exact N; reflexivity]. Qed.
Lemma kq_enqueue kn l c g : kq (enqueue kn l c g) <> [] -> kq (kn g) <> [] \/ q_edge kn l = Some g.
Proof.
  unfold enqueue, q_edge. destruct (Nat.eq_dec g l) as [->|N]; [|rewrite upd_neq by exact N; auto].
  rewrite upd_eq. cbn. destruct (kq (kn l)); [right; reflexivity | left; discriminate].
Qed.

(* K3: a transfer changes the wake condition of another caller only together with an event for its descriptor *)
Lemma avail_sys s x m r p' ev s1 y :
  syscall s x m = SysDone r p' ev -> P s1 = upd (P s) (pipe_of peer (akind x) (afd x)) p' -> Kn s1 = Kn s ->
  avail s1 y -> avail s y \/ ev = Some (afd y).
Proof.
  intros Hs HP HK Hav.
  assert (D : (akind y = Ac \/ akind y = Co) \/ (akind y = Rd \/ akind y = Wr)) by (destruct (akind y); auto).
  destruct D as [D|D].
  { left. unfold IoModel.avail in *. rewrite HK in Hav. destruct D as [D|D]; rewrite D in *; exact Hav. }
  pose proof (sys_done_kind _ _ _ _ _ _ Hs) as Dx.
  unfold IoModel.avail in *. rewrite HP in Hav.
  set (p := pipe_of peer (akind x) (afd x)) in *.
  destruct (Nat.eq_dec (pipe_of peer (akind y) (afd y)) p) as [E|N];
    [|rewrite upd_neq in Hav by exact N; left; destruct D as [D|D]; rewrite D in *; exact Hav].
  rewrite E in *. rewrite upd_eq in Hav.
  unfold IoModel.syscall in Hs. fold p in Hs.
  destruct (akind x) eqn:Kx; [| |destruct Dx; discriminate|destruct Dx; discriminate].
  - (* x reads pipe p *)
    destruct (buf (P s p)) as [|b bs] eqn:Eb.
    + destruct (wshut (P s p)) eqn:W; [|discriminate]. inversion Hs; subst. cbn in Hav.
      destruct D as [D|D]; rewrite D in *; [left; right; reflexivity | left; exact Hav].
    + rewrite <- Eb in Hs.
      destruct ((1 <=? m) && (m <=? an x) && (m <=? length (buf (P s p)))) eqn:G; [|discriminate].
      injection Hs as <- <- <-. cbn [buf wshut] in Hav.
      apply andb_prop in G. destruct G as [G G3]. apply andb_prop in G. destruct G as [G1 G2].
      apply Nat.leb_le in G1, G2, G3.
      destruct D as [Ky|Ky]; rewrite Ky in *.
      * left. destruct Hav as [Hav|Hav]; [left|right; exact Hav]. try rewrite Eb. discriminate.
      * rewrite skipn_length in Hav.
        destruct (cap <=? length (buf (P s p))) eqn:C.
        -- right. cbn [andb]. replace (length (buf (P s p)) - m <? cap) with true by (symmetry; apply Nat.ltb_lt; exact Hav).
           f_equal. unfold pipe_of in E. symmetry. exact E.
        -- left. apply Nat.leb_gt in C. rewrite Eb in C. exact C.
  - (* x writes pipe p *)
    destruct (wshut (P s p)) eqn:W.
    + injection Hs as <- <- <-. left. destruct D as [D|D]; rewrite D in *; [right; reflexivity | exact Hav].
    + destruct (cap <=? length (buf (P s p))) eqn:C; [discriminate|].
      destruct (_ && _) eqn:G; [|discriminate]. inversion Hs; subst. clear Hs. cbn in Hav.
      destruct D as [Ky|Ky]; rewrite Ky in *.
      * destruct (buf (P s p)) as [|b bs] eqn:Eb.
        -- right. f_equal. unfold pipe_of in E. rewrite <- E. apply peer_inv.
        -- left. left. discriminate.
      * left. rewrite app_length in Hav. subst p. cbn [pipe_of] in *. lia.
Qed.

(* K5 / K6: an accept or connect call changes the wake condition of a caller on ANOTHER descriptor only together with
   an event for that descriptor (connect completing at once: the listener's backlog) *)
Lemma avail_sysk s x m r kn' ev s1 y :
  syscall s x m = SysK r kn' ev -> P s1 = P s -> Kn s1 = kn' -> afd y <> afd x ->
  avail s1 y -> avail s y \/ ev = Some (afd y).
Proof.
  intros Hs HP HK N Hav. unfold IoModel.avail in *. rewrite HP, HK in Hav. clear HK HP.
  destruct (akind y) eqn:Ky; [left; exact Hav | left; exact Hav | |].
  - (* y accepts on afd y *)
    unfold IoModel.syscall in Hs. destruct (akind x).
    + destruct (buf _); [destruct (wshut _)|destruct (_ && _)]; discriminate.
    + destruct (wshut _); [discriminate|]. destruct (cap <=? _); [discriminate|]. destruct (_ && _); discriminate.
    + destruct (kq (Kn s (afd x))); [discriminate|]. inversion Hs; subst. rewrite upd_neq in Hav by exact N. left; exact Hav.
    + destruct (kst (Kn s (afd x))); [destruct m as [|[|e]]| | | |]; try discriminate; inversion Hs; subst; clear Hs;
        try (rewrite upd_neq in Hav by exact N); try (left; exact Hav).
      apply kq_enqueue in Hav. destruct Hav as [Hav|Hav]; [left|right; exact Hav]. rewrite upd_neq in Hav by exact N. exact Hav.
  - (* y connects through afd y *)
    unfold IoModel.syscall in Hs. destruct (akind x).
    + destruct (buf _); [destruct (wshut _)|destruct (_ && _)]; discriminate.
    + destruct (wshut _); [discriminate|]. destruct (cap <=? _); [discriminate|]. destruct (_ && _); discriminate.
    + destruct (kq (Kn s (afd x))); [discriminate|]. inversion Hs; subst. rewrite upd_neq in Hav by exact N. left; exact Hav.
    + destruct (kst (Kn s (afd x))); [destruct m as [|[|e]]| | | |]; try discriminate; inversion Hs; subst; clear Hs;
        try rewrite kst_enqueue in Hav; try (rewrite upd_neq in Hav by exact N); left; exact Hav.
Qed.

(* K3: shutdown of the writing direction of pipe f *)
Lemma avail_shut s f s1 y :
  P s1 = upd (P s) f {| buf := buf (P s f); wshut := true; sent := sent (P s f); rcvd := rcvd (P s f); eof := eof (P s f) |} ->
  Kn s1 = Kn s -> avail s1 y -> avail s y \/ afd y = peer f.
Proof.
  intros HP HK Hav. unfold IoModel.avail in *. rewrite HP, HK in Hav.
  destruct (akind y) eqn:Ky; [| |left; exact Hav|left; exact Hav].
  all: destruct (Nat.eq_dec (pipe_of peer (akind y) (afd y)) f) as [E|N]; rewrite Ky in *;
    [|rewrite upd_neq in Hav by exact N; left; exact Hav].
  all: rewrite E in *; rewrite upd_eq in Hav; cbn in Hav.
  - right; unfold pipe_of in E; rewrite <- E; symmetry; apply peer_inv.
  - left; exact Hav.
Qed.

(* K6: the outcome of a connection attempt comes with an event for the connecting descriptor *)
Lemma avail_kst s s1 f c y : P s1 = P s -> Kn s1 = upd (Kn s) f (k_st (Kn s f) c) -> avail s1 y -> avail s y \/ afd y = f.
Proof.
  intros HP HK Hav. destruct (Nat.eq_dec (afd y) f) as [E|N]; [right; exact E | left].
  eapply avail_kupd; eauto.
Qed.
(* K5: a connection entering a backlog comes with an event for the listener if the backlog was empty *)
Lemma avail_deliver s s1 f y :
  P s1 = P s -> Kn s1 = enqueue (upd (Kn s) f (k_deliv (Kn s f))) (ktgt (Kn s f)) f -> avail s1 y ->
  avail s y \/ q_edge (upd (Kn s) f (k_deliv (Kn s f))) (ktgt (Kn s f)) = Some (afd y).
Proof.
  intros HP HK Hav. unfold IoModel.avail in *. rewrite HP, HK in Hav.
  assert (Q : forall g, kq (upd (Kn s) f (k_deliv (Kn s f)) g) = kq (Kn s g)).
  { intros g. destruct (Nat.eq_dec g f) as [->|N]; [rewrite upd_eq | rewrite upd_neq by exact N]; reflexivity. }
  assert (S : forall g, kst (upd (Kn s) f (k_deliv (Kn s f)) g) = kst (Kn s g)).
  { intros g. destruct (Nat.eq_dec g f) as [->|N]; [rewrite upd_eq | rewrite upd_neq by exact N]; reflexivity. }
  destruct (akind y); [left; exact Hav | left; exact Hav | |].
  - apply kq_enqueue in Hav. rewrite Q in Hav. exact Hav.
  - rewrite kst_enqueue, S in Hav. left; exact Hav.
Qed.

(* ---- consequences of the invariant in the form the preservation proofs use them ------------------------------- *)
Section Facts.
Variable s : st.
Hypothesis I : Inv s.

Lemma home_none a : apc (A s a) <> Susp -> ahome (A s a) = HNone.
Proof.
  intros N. destruct (ahome (A s a)) eqn:E; try reflexivity; exfalso; apply N; apply (H1 _ I); rewrite E; discriminate.
Qed.
Lemma home_susp a : ahome (A s a) <> HNone -> apc (A s a) = Susp.
Proof. apply (H1 _ I). Qed.
Lemma susp_busy a : apc (A s a) = Susp -> busy s (afd (A s a)) = Some a.
Proof. intros E. apply (B1 _ I). rewrite E. reflexivity. Qed.
Lemma flight_busy a p : apc (A s a) = p -> inflight p = true -> busy s (afd (A s a)) = Some a.
Proof. intros E F. apply (B1 _ I). rewrite E. exact F. Qed.

(* a coroutine found in a slot *)
Lemma slot_facts f c : co s f = Some c ->
  ahome (A s c) = HSlot f /\ afd (A s c) = f /\ apc (A s c) = Susp /\ busy s f = Some c /\ aawake (A s c) = false.
Proof.
  intros E. pose proof (H5 _ I _ _ E) as Hh. destruct (H4 _ I _ _ Hh) as [_ Hf].
  assert (Hs : apc (A s c) = Susp) by (apply home_susp; rewrite Hh; discriminate).
  repeat split; auto.
  - rewrite <- Hf. apply susp_busy. exact Hs.
  - destruct (aawake (A s c)) eqn:W; [|reflexivity]. apply (H10 _ I) in W. congruence.
Qed.
(* a coroutine in the hands of the selector *)
Lemma sel_facts g f c : Sel s g = SEvT f c ->
  ahome (A s c) = HSel g /\ apc (A s c) = Susp /\ aawake (A s c) = false /\ (forall f', co s f' <> Some c) /\
  busy s (afd (A s c)) = Some c /\ afd (A s c) = f.
Proof.
  intros E. pose proof (H7 _ I _ _ _ E) as Hh. pose proof (HS _ I _ _ _ E) as Hfd.
  assert (Hs : apc (A s c) = Susp) by (apply home_susp; rewrite Hh; discriminate).
  repeat split; auto; try (apply susp_busy; exact Hs).
  - destruct (aawake (A s c)) eqn:W; [|reflexivity]. apply (H10 _ I) in W. congruence.
  - intros f' E'. apply (H5 _ I) in E'. congruence.
Qed.
(* a coroutine in the hands of fast_schedule *)
Lemma fast_facts k c : k < nexts s -> spc_ (Sb s k) = SFastT c ->
  ahome (A s c) = HFast k /\ apc (A s c) = Susp /\ aawake (A s c) = false /\ (forall f', co s f' <> Some c) /\
  busy s (afd (A s c)) = Some c /\ afd (A s c) = sfd (Sb s k).
Proof.
  intros L E. pose proof (H9 _ I _ _ L E) as Hh. pose proof (HF _ I _ _ L E) as Hfd.
  assert (Hs : apc (A s c) = Susp) by (apply home_susp; rewrite Hh; discriminate).
  repeat split; auto; try (apply susp_busy; exact Hs).
  - destruct (aawake (A s c)) eqn:W; [|reflexivity]. apply (H10 _ I) in W. congruence.
  - intros f' E'. apply (H5 _ I) in E'. congruence.
Qed.
(* a coroutine in the hands of a canceller, between its take and the disarm + schedule *)
Lemma can_facts a f c : Cn s a = Cn3 f c ->
  ahome (A s c) = HCan a /\ apc (A s c) = Susp /\ aawake (A s c) = false /\ (forall f', co s f' <> Some c) /\
  busy s (afd (A s c)) = Some c /\ afd (A s c) = f.
Proof.
  intros E. pose proof (H12 _ I _ _ _ E) as Hh. pose proof (HC _ I _ _ _ E) as Hfd.
  assert (Hs : apc (A s c) = Susp) by (apply home_susp; rewrite Hh; discriminate).
  repeat split; auto; try (apply susp_busy; exact Hs).
  - destruct (aawake (A s c)) eqn:W; [|reflexivity]. apply (H10 _ I) in W. congruence.
  - intros f' E'. apply (H5 _ I) in E'. congruence.
Qed.
Lemma kcan_facts k f c : k < nexts s -> spc_ (Sb s k) = SCan4 f c ->
  ahome (A s c) = HKCan k /\ apc (A s c) = Susp /\ aawake (A s c) = false /\ (forall f', co s f' <> Some c) /\
  busy s (afd (A s c)) = Some c /\ afd (A s c) = f.
Proof.
  intros L E. pose proof (H14 _ I _ _ _ L E) as Hh. pose proof (HK4 _ I _ _ _ L E) as Hfd.
  assert (Hs : apc (A s c) = Susp) by (apply home_susp; rewrite Hh; discriminate).
  repeat split; auto; try (apply susp_busy; exact Hs).
  - destruct (aawake (A s c)) eqn:W; [|reflexivity]. apply (H10 _ I) in W. congruence.
  - intros f' E'. apply (H5 _ I) in E'. congruence.
Qed.
(* the coroutine of a subscriber that has not published it yet *)
Lemma sub_facts k : k < nexts s -> spc_ (Sb s k) = SArm \/ spc_ (Sb s k) = SStore ->
  ahome (A s (sa (Sb s k))) = HSub k /\ afd (A s (sa (Sb s k))) = sfd (Sb s k) /\ apc (A s (sa (Sb s k))) = Susp /\
  busy s (sfd (Sb s k)) = Some (sa (Sb s k)) /\ aawake (A s (sa (Sb s k))) = false /\ (forall f', co s f' <> Some (sa (Sb s k))) /\
  co s (sfd (Sb s k)) = None.
Proof.
  intros L E. pose proof (H3 _ I _ L E) as Hh. destruct (H2 _ I _ _ Hh) as (_ & _ & Hf & _).
  assert (Hs : apc (A s (sa (Sb s k))) = Susp) by (apply home_susp; rewrite Hh; discriminate).
  assert (Hn : forall f', co s f' <> Some (sa (Sb s k))) by (intros f' E'; apply (H5 _ I) in E'; congruence).
  repeat split; auto.
  - rewrite Hf. apply susp_busy. exact Hs.
  - destruct (aawake (A s (sa (Sb s k)))) eqn:W; [|reflexivity]. apply (H10 _ I) in W. congruence.
  - destruct (co s (sfd (Sb s k))) as [b|] eqn:Eb; [|reflexivity]. exfalso.
    destruct (slot_facts _ _ Eb) as (_ & _ & _ & Bb & _).
    assert (Ba : busy s (sfd (Sb s k)) = Some (sa (Sb s k))) by (rewrite Hf; apply susp_busy; exact Hs).
    apply (Hn (sfd (Sb s k))). congruence.
Qed.
(* an awake (scheduled) coroutine *)
Lemma awake_facts a : aawake (A s a) = true ->
  ahome (A s a) = HAwake /\ apc (A s a) = Susp /\ (forall f', co s f' <> Some a) /\ busy s (afd (A s a)) = Some a.
Proof.
  intros W. pose proof (proj2 (H10 _ I a) W) as Hh.
  assert (Hs : apc (A s a) = Susp) by (apply home_susp; rewrite Hh; discriminate).
  repeat split; auto; try (apply susp_busy; exact Hs).
  - intros f' E'. apply (H5 _ I) in E'. congruence.
Qed.
(* two callers in flight use different descriptors *)
Lemma flight_distinct a b : inflight (apc (A s a)) = true -> inflight (apc (A s b)) = true -> afd (A s a) = afd (A s b) -> a = b.
Proof. intros Fa Fb E. pose proof (B1 _ I _ Fa). pose proof (B1 _ I _ Fb). congruence. Qed.
End Facts.

End Inv.

(* ---- tactics of the preservation proofs (IoPres.v, IoPres2.v) ------------------------------------------------- *)
Ltac opn := unfold finish, die, wake, wake_to, set_pend, disarm in *; simp.
Ltac brk := repeat match goal with
  | H : _ /\ _ |- _ => destruct H
  | H : exists _, _ |- _ => destruct H
  end.
Ltac dm := repeat match goal with
  | |- context [match ?x with Some _ => _ | None => _ end] => destruct x eqn:?
  end; simp.
Ltac pose_new H := let T := type of H in lazymatch goal with | _ : T |- _ => fail | _ => pose proof H end.

(* what the guards of the step tell about the pre-state, through the invariant *)
Ltac facts_gen cap peer selof I :=
  bools;
  repeat match goal with
  | E : co ?s ?f = Some ?c |- _ => pose_new (slot_facts cap peer selof s I f c E)
  | E : Sel ?s ?g = SEvT ?f ?c |- _ => pose_new (sel_facts cap peer selof s I g f c E)
  | L : ?k < nexts ?s, E : spc_ (Sb ?s ?k) = SFastT ?c |- _ => pose_new (fast_facts cap peer selof s I k c L E)
  | E : Cn ?s ?a = Cn3 ?f ?c |- _ => pose_new (can_facts cap peer selof s I a f c E)
  | L : ?k < nexts ?s, E : spc_ (Sb ?s ?k) = SCan4 ?f ?c |- _ => pose_new (kcan_facts cap peer selof s I k f c L E)
  | L : ?k < nexts ?s, E : spc_ (Sb ?s ?k) = SArm |- _ => pose_new (sub_facts cap peer selof s I k L (or_introl E))
  | L : ?k < nexts ?s, E : spc_ (Sb ?s ?k) = SStore |- _ => pose_new (sub_facts cap peer selof s I k L (or_intror E))
  | E : aawake (A ?s ?a) = true |- _ => pose_new (awake_facts cap peer selof s I a E)
  | E : apc (A ?s ?a) = ?p |- _ =>
      lazymatch p with Susp => fail | _ => pose_new (home_none cap peer selof s I a ltac:(rewrite E; discriminate)) end
  | E : apc (A ?s ?a) = ?p |- _ =>
      lazymatch p with Idle => fail | Dead => fail | _ => pose_new (flight_busy cap peer selof s I a p E eq_refl) end
  end; brk.

Ltac rw_pc := repeat match goal with
  | E : apc ?x = ?p, H : context [apc ?x] |- _ => lazymatch H with E => fail | _ => rewrite E in H end
  end.
Ltac rw_goal := repeat match goal with
  | E : apc ?x = ?p |- context [apc ?x] => rewrite E
  end; cbn [inflight inJ].
Ltac fin := rw_pc; cbn [inflight inJ] in *; try discriminate; try congruence; try tauto; try lia; eauto.

Ltac dj := repeat match goal with H : _ \/ _ |- _ => destruct H end; try discriminate; try congruence.

