(* may network I/O on unix (epoll) - model of the CURRENT code of /repo (after the repairs
   "an expired I/O timer leaves a mark in io_flag before it takes the coroutine" + "timeout_handler removes the timer
   the socket has when it delivers the timeout" (fixB) and "cancelling a coroutine blocked in socket I/O disarms the
   timer of that operation" (fixD); the two Section booleans switch each repair off, which gives the code before it -
   used for the `_refuted` witnesses):
     src/io/sys/unix/mod.rs       EventData { io_flag, co, timer }, IoData::reset, schedule / fast_schedule,
                                  timeout_handler, co_io_result
     src/io/sys/unix/epoll.rs     Selector::select (per event: io_flag.fetch_or, co.take, disarm the timer by nulling
                                  `event_data` + remove, schedule; then the per-selector timer list), add_io_timer, del_fd
     src/io/sys/unix/net/*.rs     the caller loop `done()` and the kernel half `subscribe` (socket_read / socket_write and
                                  the accept / connect / datagram variants, which have the same shape)
     src/io/sys/unix/cancel.rs    CancelIoImpl::{set, clear, cancel};  src/cancel.rs  CancelImpl::{cancel, check_cancel}
     src/yield_now.rs             yield_with (cancel short cut, context switch, yield_back, cancel.clear)
   One transition = one shared-memory access, in program order.  Unbounded actors, descriptors, subscribers, timers.
   Definitions only.

   The KERNEL is an abstract object (assumptions K1-K4, recorded in props/C17.json):
     K1  per direction of a connection a bounded FIFO of elements (stream: bytes; datagram socket, listener backlog:
         whole messages / connections, written and read one element at a time), capacity `cap`; the pipe written
         through descriptor f is `P f`, it is read through descriptor `peer f`
     K2  non-blocking read:  empty and not shut down -> EAGAIN;  empty and shut down -> 0;  else some non-empty prefix
         of at most the requested size.   non-blocking write:  shut down -> EPIPE;  full -> EAGAIN;  else some non-empty
         prefix of the offered data that fits.   (how much: chosen by the action, i.e. arbitrary)
     K3  edge-triggered readiness: an event for the reader's descriptor on every empty -> non-empty transition and on
         shutdown, an event for the writer's descriptor on every full -> non-full transition; events stay pending until
         the selector of the descriptor collects them
     K4  the kernel may report additional (spurious) events at any time (action `Spurious`)
     K5  a LISTENER f has a backlog `kq (Kn f)`: a FIFO of connections (named by the connecting descriptor) that are
         established and not yet accepted.  Non-blocking accept: empty -> EAGAIN, else the head is removed and returned.
         A readable event for f on every empty -> non-empty transition of the backlog.
     K6  a CONNECTING socket f has a state `kst (Kn f)`: CNone (fresh) | CProg (in progress) | CEst (established, not
         yet reported) | CRef e (failed with error e, not yet reported) | CConn (connected).  Non-blocking connect(f, L):
           CNone: the kernel chooses (parameter m of the step): EINPROGRESS -> CProg | completes at once (unix sockets:
                  the connection is in the backlog of L when the call returns; event for L if it was empty) -> CConn |
                  fails at once with an error e (ECONNREFUSED; EAGAIN of a unix socket whose listener's backlog is full)
           CProg: EALREADY;   CEst: 0 -> CConn;   CRef e: e (the pending SO_ERROR, cleared) -> CNone;   CConn: EISCONN
         Environment: `Establish f` (CProg -> CEst) and `Refuse f e` (CProg -> CRef e), each with a writable / error event
         for f; `Deliver f` (the server side of an established connection enters the backlog of its listener; event for
         the listener if the backlog was empty).  may reads the outcome by calling connect again (EISCONN / 0 / the
         error), not through getsockopt(SO_ERROR): the answers are the same.

   Caller (actor a), control point = the access its next step executes:
     Idle    outside; `Start` begins read/receive/peek (Rd), write/send (Wr), accept (Ac: {Tcp,Unix}Listener::accept +
             net/{tcp,unix}_listener_accept.rs) or connect (Co: {Tcp,Unix}Stream::connect + net/{tcp,unix}_stream_connect.rs;
             `n` = the listener's descriptor) on descriptor f with an optional timeout (already rounded by
             AtomicDuration, C08; accept never arms one, UnixStream::connect always 2 s, TcpStream::connect_timeout the
             given one); `cn` = the event source registers cancel data (read, receive, accept, connect, peek do; write
             and send do not); one operation at a time per descriptor (`busy`; for streams enforced by `&mut self`)
     PReset  IoData::reset: io_flag.swap(0)            (not for connect: `check_connected` is called on the fresh
                                                        registration, the operation starts at PTry)
     PTry    first non-blocking syscall                 done -> Idle | EAGAIN -> PYield
     PYield  yield_with: cancel bit set -> Cancel panic (Dead) | context switch: Susp, a fresh kernel half (subscriber)
     Susp    suspended until `Resume` (needs the wake token `aawake`)
     RBack   yield_back: check_cancel                  cancel bit set -> Cancel panic (Dead) | -> RClr
     RClr    cancel.clear(): CancelIoImpl slot := none
     LRes    co_io_result: a TimedOut parameter -> return Err(TimedOut) | -> LClr
     LClr    io_flag.store(0)
     LSys    non-blocking syscall                       done -> Idle | EAGAIN -> LChk
     LChk    io_flag.load                               != 0 -> LRes | == 0 -> PYield
     Dead    ended by the Cancel panic
   Kernel half (subscriber k of actor a on descriptor f), executed by the worker after the context switch:
     SArm    add_io_timer (only with a timeout): new timer entry (deadline now + d, event_data = f), timer cell := handle
     SStore  io_data.co.store(co)
     SChk    io_flag.load                               != 0 -> SFast | == 0 -> SSetIo (cn) / done (SocketWrite & co.
                                                        register no cancel data)
     SFast   fast_schedule: co.take                     none -> done | c -> SFastT c
     SFastT  timer cell take, null event_data, remove; run_coroutine(c)
     SSetIo  cancel.set_io(io_data)
     SCan    cancel.is_canceled                         false -> done | true -> SCan2
     SCan2   cancel.cancel(): CancelIoImpl slot take    none -> done | f' -> SCan3 f'
     SCan3   f'.co.take                                 none -> done | c -> SCan4 f' c
     SCan4   timer cell take, null event_data (fixD); schedule c
   Selector g (one per worker; descriptor f is served by `selof f`):
     SelEvent  a pending event of f: io_flag.fetch_or(events)                      -> SEv f
     SelTake   co.take                                  none -> idle | c -> SEvT f c
     SelDisarm timer cell take, null event_data, remove (may or may not unlink: `unl`); schedule c
     SelFire   pops a due entry of its own timer list; event_data null -> nothing | f -> THnd f
                 (before the repair fixB: the handler empties the timer cell here and goes on to SelHnd without a mark)
     SelMark   timeout_handler: io_flag.fetch_or(TIMER_MARK)                       -> THnd2 f
     SelHnd    timeout_handler: co.take                 none -> nothing | c: timer cell take, null event_data, remove (fixB);
                                                        set the TimedOut parameter, run_coroutine(c)
   Canceller of actor a (Cancel::cancel, any thread): CancelSet (state.fetch_or(1)), CancelIo (slot take), CancelTake (co.take),
             CancelNull (timer cell take, null event_data of the armed timer (fixD), schedule): two steps, the selector
             thread's timeout handler can read event_data in between
   `calm` (a Section boolean) adds a guard to the context switch in PYield: the caller does not suspend on descriptor f
   while a kernel half of an earlier suspension of itself or on f is still running, or while the timeout handler is
   between its two accesses for f - i.e. no worker is preempted inside the few instructions that follow `co.store` /
   `timer.take()` for longer than a whole coroutine round trip.  calm = false is the unrestricted interleaving.
   Environment: Tick (time), Shutdown (writer closes its direction), Spurious (K4), Close (del_fd: nulls the armed timer)

   Not separate steps (recorded as assumptions): the plain accesses to `EventData.timer` (a RefCell shared between the
   subscribing worker, the selector and del_fd) are folded into the neighbouring step - there is no hook between them;
   scheduling a taken coroutine (`schedule`, `run_coroutine`) is the flag `aawake`, consumed by `Resume`.
   Ghost state (never read by `step`): sent/rcvd/eof of a pipe, atcall/ahome/alast of an actor, the entry id in THnd,
   tmin of a timer entry. *)
From Coq Require Import List Arith Bool Lia.
Import ListNotations.

Inductive kind := Rd | Wr | Ac | Co.
Inductive pc := Idle | PReset | PTry | PYield | Susp | RBack | RClr | LRes | LClr | LSys | LChk | Dead.
Inductive spc := SArm | SStore | SChk | SFast | SFastT (c : nat) | SSetIo | SCan | SCan2 | SCan3 (f : nat) | SCan4 (f c : nat) | SDone.
Inductive selst := SIdle | SEv (f : nat) | SEvT (f c : nat) | THnd (f e : nat) | THnd2 (f e : nat).
Inductive cnst := CnIdle | Cn1 | Cn2 (f : nat) | Cn3 (f c : nat).
Inductive tst := TFree | TArmed | TGone.
Inductive home := HNone | HSub (k : nat) | HSlot (f : nat) | HSel (g : nat) | HFast (k : nat) | HCan (a : nat) | HKCan (k : nat) | HAwake.
Inductive res := ROk (l : list nat) | RWrote (n : nat) | REof | RPipe | RTimedOut | RCanceled
               | RAcc (c : nat) | RConn | RErr (e : nat).
Inductive cstate := CNone | CProg | CEst | CRef (e : nat) | CConn.

Record actor := { apc : pc; afd : nat; akind : kind; acn : bool; ato : option nat; adat : list nat; an : nat;
                  apara : bool; acanc : bool; acio : option nat; aawake : bool;
                  atcall : nat; ahome : home; alast : option res }.
Record sub := { spc_ : spc; sa : nat; sfd : nat; sto : option nat; scn : bool }.
Record tent := { tstate : tst; tdl : nat; tev : option nat; tmin : nat }.
Record pipe := { buf : list nat; wshut : bool; sent : list nat; rcvd : list nat; eof : bool }.
(* K5 / K6: what the kernel holds for descriptor f as a listener (kq; ghost: kest = every connection that ever entered the
   backlog, kacc = every connection accept returned) and as a connecting socket (kst, ktgt = the listener, kdeliv =
   the server side is in the listener's backlog or was accepted) *)
Record ksock := { kq : list nat; kst : cstate; ktgt : nat; kdeliv : bool; kest : list nat; kacc : list nat }.

Record st := { now : nat; P : nat -> pipe; pend : nat -> bool; flag : nat -> bool; co : nat -> option nat;
               tmr : nat -> option nat; busy : nat -> option nat; closed : nat -> bool;
               A : nat -> actor; Sb : nat -> sub; nexts : nat; T : nat -> tent; nextt : nat;
               Sel : nat -> selst; Cn : nat -> cnst; Kn : nat -> ksock }.

Definition upd {X} (f : nat -> X) i v := fun j => if Nat.eqb j i then v else f j.

Inductive action :=
| Start (a f : nat) (k : kind) (cn : bool) (to : option nat) (l : list nat) (n : nat)
| Step (a : nat) (m : nat)        (* the actor's next access; m = how many elements the kernel transfers in a syscall *)
| Resume (a : nat)
| Sub (k : nat) (unl : bool)      (* the subscriber's next access; unl = Entry::remove really unlinks *)
| SelEvent (g f : nat)
| SelTake (g : nat)
| SelDisarm (g : nat) (unl : bool)
| SelFire (g e : nat)
| SelMark (g : nat)
| SelHnd (g : nat)
| CancelSet (a : nat)
| CancelIo (a : nat)
| CancelTake (a : nat)
| CancelNull (a : nat)
| Tick (d : nat)
| Shutdown (f : nat)
| Spurious (f : nat)
| Close (f : nat)
| Establish (f : nat)             (* K6: the connection attempt of f succeeded (writable event) *)
| Refuse (f e : nat)              (* K6: it failed with error e (error event) *)
| Deliver (f : nat).              (* K5: the server side of f's connection enters the backlog of its listener *)

(* ---- record updates ------------------------------------------------------------------------------------- *)
Definition mkA pc' fd' k' cn' to' d' n' pa' ca' ci' aw' tc' h' l' :=
  {| apc := pc'; afd := fd'; akind := k'; acn := cn'; ato := to'; adat := d'; an := n'; apara := pa'; acanc := ca'; acio := ci';
     aawake := aw'; atcall := tc'; ahome := h'; alast := l' |}.
Definition a_pc (x : actor) p := mkA p (afd x) (akind x) (acn x) (ato x) (adat x) (an x) (apara x) (acanc x) (acio x) (aawake x) (atcall x) (ahome x) (alast x).
Definition a_ret (x : actor) r := mkA Idle (afd x) (akind x) (acn x) (ato x) (adat x) (an x) false (acanc x) (acio x) (aawake x) (atcall x) (ahome x) (Some r).
Definition a_dead (x : actor) := mkA Dead (afd x) (akind x) (acn x) (ato x) (adat x) (an x) (apara x) (acanc x) (acio x) (aawake x) (atcall x) (ahome x) (Some RCanceled).
Definition a_susp (x : actor) k := mkA Susp (afd x) (akind x) (acn x) (ato x) (adat x) (an x) (apara x) (acanc x) (acio x) (aawake x) (atcall x) (HSub k) (alast x).
Definition a_home (x : actor) h := mkA (apc x) (afd x) (akind x) (acn x) (ato x) (adat x) (an x) (apara x) (acanc x) (acio x) (aawake x) (atcall x) h (alast x).
Definition a_wake (x : actor) := mkA (apc x) (afd x) (akind x) (acn x) (ato x) (adat x) (an x) (apara x) (acanc x) (acio x) true (atcall x) HAwake (alast x).
Definition a_wake_to (x : actor) := mkA (apc x) (afd x) (akind x) (acn x) (ato x) (adat x) (an x) true (acanc x) (acio x) true (atcall x) HAwake (alast x).
Definition a_resume (x : actor) := mkA RBack (afd x) (akind x) (acn x) (ato x) (adat x) (an x) (apara x) (acanc x) (acio x) false (atcall x) HNone (alast x).
Definition a_canc (x : actor) := mkA (apc x) (afd x) (akind x) (acn x) (ato x) (adat x) (an x) (apara x) true (acio x) (aawake x) (atcall x) (ahome x) (alast x).
Definition a_cio (x : actor) c := mkA (apc x) (afd x) (akind x) (acn x) (ato x) (adat x) (an x) (apara x) (acanc x) c (aawake x) (atcall x) (ahome x) (alast x).
Definition a_cio_pc (x : actor) c p := mkA p (afd x) (akind x) (acn x) (ato x) (adat x) (an x) (apara x) (acanc x) c (aawake x) (atcall x) (ahome x) (alast x).

Definition s_pc (x : sub) p := {| spc_ := p; sa := sa x; sfd := sfd x; sto := sto x; scn := scn x |}.
Definition t_null (x : tent) (unl : bool) :=
  {| tstate := if unl then TGone else tstate x; tdl := tdl x; tev := None; tmin := tmin x |}.
Definition k_st (x : ksock) (c : cstate) := {| kq := kq x; kst := c; ktgt := ktgt x; kdeliv := kdeliv x; kest := kest x; kacc := kacc x |}.
Definition k_start (x : ksock) (c : cstate) (l : nat) (d : bool) :=
  {| kq := kq x; kst := c; ktgt := l; kdeliv := d; kest := kest x; kacc := kacc x |}.
Definition k_deliv (x : ksock) := {| kq := kq x; kst := kst x; ktgt := ktgt x; kdeliv := true; kest := kest x; kacc := kacc x |}.
Definition k_push (x : ksock) (c : nat) :=
  {| kq := kq x ++ [c]; kst := kst x; ktgt := ktgt x; kdeliv := kdeliv x; kest := kest x ++ [c]; kacc := kacc x |}.
Definition k_pop (x : ksock) (c : nat) (q : list nat) :=
  {| kq := q; kst := kst x; ktgt := ktgt x; kdeliv := kdeliv x; kest := kest x; kacc := kacc x ++ [c] |}.
Definition t_pop (x : tent) := {| tstate := TGone; tdl := tdl x; tev := tev x; tmin := tmin x |}.

Definition mk n p pe fl c tm bu cl a s ns t nt se cn kn :=
  {| now := n; P := p; pend := pe; flag := fl; co := c; tmr := tm; busy := bu; closed := cl; A := a; Sb := s; nexts := ns;
     T := t; nextt := nt; Sel := se; Cn := cn; Kn := kn |}.
Definition wnow s v := mk v (P s) (pend s) (flag s) (co s) (tmr s) (busy s) (closed s) (A s) (Sb s) (nexts s) (T s) (nextt s) (Sel s) (Cn s) (Kn s).
Definition wP s v := mk (now s) v (pend s) (flag s) (co s) (tmr s) (busy s) (closed s) (A s) (Sb s) (nexts s) (T s) (nextt s) (Sel s) (Cn s) (Kn s).
Definition wpend s v := mk (now s) (P s) v (flag s) (co s) (tmr s) (busy s) (closed s) (A s) (Sb s) (nexts s) (T s) (nextt s) (Sel s) (Cn s) (Kn s).
Definition wflag s v := mk (now s) (P s) (pend s) v (co s) (tmr s) (busy s) (closed s) (A s) (Sb s) (nexts s) (T s) (nextt s) (Sel s) (Cn s) (Kn s).
Definition wco s v := mk (now s) (P s) (pend s) (flag s) v (tmr s) (busy s) (closed s) (A s) (Sb s) (nexts s) (T s) (nextt s) (Sel s) (Cn s) (Kn s).
Definition wtmr s v := mk (now s) (P s) (pend s) (flag s) (co s) v (busy s) (closed s) (A s) (Sb s) (nexts s) (T s) (nextt s) (Sel s) (Cn s) (Kn s).
Definition wbusy s v := mk (now s) (P s) (pend s) (flag s) (co s) (tmr s) v (closed s) (A s) (Sb s) (nexts s) (T s) (nextt s) (Sel s) (Cn s) (Kn s).
Definition wclosed s v := mk (now s) (P s) (pend s) (flag s) (co s) (tmr s) (busy s) v (A s) (Sb s) (nexts s) (T s) (nextt s) (Sel s) (Cn s) (Kn s).
Definition wA s v := mk (now s) (P s) (pend s) (flag s) (co s) (tmr s) (busy s) (closed s) v (Sb s) (nexts s) (T s) (nextt s) (Sel s) (Cn s) (Kn s).
Definition wS s v := mk (now s) (P s) (pend s) (flag s) (co s) (tmr s) (busy s) (closed s) (A s) v (nexts s) (T s) (nextt s) (Sel s) (Cn s) (Kn s).
Definition wnexts s v := mk (now s) (P s) (pend s) (flag s) (co s) (tmr s) (busy s) (closed s) (A s) (Sb s) v (T s) (nextt s) (Sel s) (Cn s) (Kn s).
Definition wT s v := mk (now s) (P s) (pend s) (flag s) (co s) (tmr s) (busy s) (closed s) (A s) (Sb s) (nexts s) v (nextt s) (Sel s) (Cn s) (Kn s).
Definition wnextt s v := mk (now s) (P s) (pend s) (flag s) (co s) (tmr s) (busy s) (closed s) (A s) (Sb s) (nexts s) (T s) v (Sel s) (Cn s) (Kn s).
Definition wSel s v := mk (now s) (P s) (pend s) (flag s) (co s) (tmr s) (busy s) (closed s) (A s) (Sb s) (nexts s) (T s) (nextt s) v (Cn s) (Kn s).
Definition wCn s v := mk (now s) (P s) (pend s) (flag s) (co s) (tmr s) (busy s) (closed s) (A s) (Sb s) (nexts s) (T s) (nextt s) (Sel s) v (Kn s).
Definition wKn s v := mk (now s) (P s) (pend s) (flag s) (co s) (tmr s) (busy s) (closed s) (A s) (Sb s) (nexts s) (T s) (nextt s) (Sel s) (Cn s) v.

Section Model.
Variable cap : nat.             (* K1: capacity of every pipe (elements) *)
Variable peer : nat -> nat.     (* K1: the pipe written through f is read through peer f *)
Variable selof : nat -> nat.    (* descriptor -> selector (fd % workers) *)
Variable fixB fixD : bool.      (* the two repairs (true = the current code) *)
Variable calm : bool.           (* true = no long preemption inside the tails of subscribe / timeout_handler *)

Definition idle_actor := mkA Idle 0 Rd false None [] 0 false false None false 0 HNone None.
Definition init : st :=
  mk 0 (fun _ => {| buf := []; wshut := false; sent := []; rcvd := []; eof := false |})
     (fun _ => false) (fun _ => false) (fun _ => None) (fun _ => None) (fun _ => None) (fun _ => false)
     (fun _ => idle_actor) (fun _ => {| spc_ := SDone; sa := 0; sfd := 0; sto := None; scn := false |}) 0
     (fun _ => {| tstate := TFree; tdl := 0; tev := None; tmin := 0 |}) 0 (fun _ => SIdle) (fun _ => CnIdle)
     (fun _ => {| kq := []; kst := CNone; ktgt := 0; kdeliv := false; kest := []; kacc := [] |}).

(* the pipe an operation of kind k on descriptor f works on, and the descriptor of its other end *)
Definition pipe_of (k : kind) (f : nat) := match k with Rd => peer f | _ => f end.

(* K5: a connection of the connecting descriptor c enters the backlog of listener l; the readable edge *)
Definition enqueue (kn : nat -> ksock) (l c : nat) := upd kn l (k_push (kn l) c).
Definition q_edge (kn : nat -> ksock) (l : nat) : option nat := match kq (kn l) with [] => Some l | _ => None end.

(* K2/K3: the non-blocking syscall of actor x (m = amount transferred).  None = EAGAIN *)
Inductive sysres := SysDone (r : res) (p' : pipe) (ev : option nat) | SysAgain | SysBad
                  | SysK (r : res) (kn' : nat -> ksock) (ev : option nat)       (* accept / connect: done *)
                  | SysAgainK (kn' : nat -> ksock).                             (* connect: EINPROGRESS, now in progress *)
Definition syscall (s : st) (x : actor) (m : nat) : sysres :=
  let p := pipe_of (akind x) (afd x) in let q := P s p in
  match akind x with
  | Rd =>
      match buf q with
      | [] => if wshut q then SysDone REof {| buf := []; wshut := true; sent := sent q; rcvd := rcvd q; eof := true |} None
              else SysAgain
      | _ => if (1 <=? m) && (m <=? an x) && (m <=? length (buf q)) then
               SysDone (ROk (firstn m (buf q)))
                 {| buf := skipn m (buf q); wshut := wshut q; sent := sent q; rcvd := rcvd q ++ firstn m (buf q); eof := eof q |}
                 (if (cap <=? length (buf q)) && (length (buf q) - m <? cap) then Some p else None)
             else SysBad
      end
  | Wr =>
      if wshut q then SysDone RPipe q None
      else if cap <=? length (buf q) then SysAgain
      else if (1 <=? m) && (m <=? length (adat x)) && (length (buf q) + m <=? cap) then
             SysDone (RWrote m)
               {| buf := buf q ++ firstn m (adat x); wshut := false; sent := sent q ++ firstn m (adat x); rcvd := rcvd q; eof := eof q |}
               (match buf q with [] => Some (peer p) | _ => None end)
           else SysBad
  | Ac =>
      match kq (Kn s (afd x)) with
      | [] => SysAgain
      | c :: q' => SysK (RAcc c) (upd (Kn s) (afd x) (k_pop (Kn s (afd x)) c q')) None
      end
  | Co =>
      let f := afd x in let k := Kn s f in
      match kst k with
      | CNone =>
          match m with
          | 0 => SysAgainK (upd (Kn s) f (k_start k CProg (an x) false))
          | 1 => let kn1 := upd (Kn s) f (k_start k CConn (an x) true) in
                 SysK RConn (enqueue kn1 (an x) f) (q_edge kn1 (an x))
          | S (S e) => SysK (RErr e) (Kn s) None
          end
      | CProg => SysAgain
      | CEst => SysK RConn (upd (Kn s) f (k_st k CConn)) None
      | CRef e => SysK (RErr e) (upd (Kn s) f (k_st k CNone)) None
      | CConn => SysK RConn (Kn s) None
      end
  end.

Definition set_pend (s : st) (ev : option nat) := match ev with Some f => wpend s (upd (pend s) f true) | None => s end.

(* return from the operation with result r *)
Definition finish (s : st) (a : nat) (r : res) :=
  let x := A s a in wbusy (wA s (upd (A s) a (a_ret x r))) (upd (busy s) (afd x) None).
Definition die (s : st) (a : nat) :=
  let x := A s a in wbusy (wA s (upd (A s) a (a_dead x))) (upd (busy s) (afd x) None).

(* disarm the timer of descriptor f the way schedule / fast_schedule / select do *)
Definition disarm (s : st) (f : nat) (unl : bool) :=
  match tmr s f with
  | Some e => wtmr (wT s (upd (T s) e (t_null (T s e) unl))) (upd (tmr s) f None)
  | None => s
  end.
Definition wake (s : st) (c : nat) := wA s (upd (A s) c (a_wake (A s c))).

Definition is_done (p : spc) := match p with SDone => true | _ => false end.
Definition not_thnd (x : selst) (f : nat) := match x with THnd f' _ | THnd2 f' _ => negb (f' =? f) | _ => true end.
Definition calm_ok (s : st) (a f : nat) : bool :=
  negb calm ||
  (forallb (fun k => negb ((sfd (Sb s k) =? f) || (sa (Sb s k) =? a)) || is_done (spc_ (Sb s k))) (seq 0 (nexts s))
   && not_thnd (Sel s (selof f)) f).
Definition wake_to (s : st) (c : nat) := wA s (upd (A s) c (a_wake_to (A s c))).

Definition step (s : st) (ac : action) : option st :=
  match ac with
  | Start a f k cn to l n =>
      let x := A s a in
      match apc x, busy s f with
      | Idle, None =>
          if closed s f || (match k with Rd => n =? 0 | Wr => match l with [] => true | _ => false end | _ => false end) then None
          else Some (wbusy (wA s (upd (A s) a (mkA (match k with Co => PTry | _ => PReset end) f k cn to l n (apara x) (acanc x) (acio x) (aawake x) (now s) (ahome x) (alast x))))
                           (upd (busy s) f (Some a)))
      | _, _ => None
      end
  | Step a m =>
      let x := A s a in
      match apc x with
      | PReset => Some (wflag (wA s (upd (A s) a (a_pc x PTry))) (upd (flag s) (afd x) false))
      | PTry =>
          match syscall s x m with
          | SysDone r p' ev => Some (set_pend (wP (finish s a r) (upd (P s) (pipe_of (akind x) (afd x)) p')) ev)
          | SysAgain => Some (wA s (upd (A s) a (a_pc x PYield)))
          | SysK r kn' ev => Some (set_pend (wKn (finish s a r) kn') ev)
          | SysAgainK kn' => Some (wKn (wA s (upd (A s) a (a_pc x PYield))) kn')
          | SysBad => None
          end
      | PYield =>
          if acanc x then Some (die s a)
          else if negb (calm_ok s a (afd x)) then None
          else Some (wnexts (wS (wA s (upd (A s) a (a_susp x (nexts s))))
                                (upd (Sb s) (nexts s) {| spc_ := match ato x with Some _ => SArm | None => SStore end;
                                                        sa := a; sfd := afd x; sto := ato x; scn := acn x |}))
                            (S (nexts s)))
      | RBack => if acanc x then Some (die s a) else Some (wA s (upd (A s) a (a_pc x RClr)))
      | RClr => Some (wA s (upd (A s) a (a_cio_pc x None LRes)))
      | LRes => if apara x then Some (finish s a RTimedOut) else Some (wA s (upd (A s) a (a_pc x LClr)))
      | LClr => Some (wflag (wA s (upd (A s) a (a_pc x LSys))) (upd (flag s) (afd x) false))
      | LSys =>
          match syscall s x m with
          | SysDone r p' ev => Some (set_pend (wP (finish s a r) (upd (P s) (pipe_of (akind x) (afd x)) p')) ev)
          | SysAgain => Some (wA s (upd (A s) a (a_pc x LChk)))
          | SysK r kn' ev => Some (set_pend (wKn (finish s a r) kn') ev)
          | SysAgainK kn' => Some (wKn (wA s (upd (A s) a (a_pc x LChk))) kn')
          | SysBad => None
          end
      | LChk => Some (wA s (upd (A s) a (a_pc x (if flag s (afd x) then LRes else PYield))))
      | _ => None
      end
  | Resume a =>
      let x := A s a in
      match apc x with
      | Susp => if aawake x then Some (wA s (upd (A s) a (a_resume x))) else None
      | _ => None
      end
  | Sub k unl =>
      if k <? nexts s then
        let y := Sb s k in let f := sfd y in let a := sa y in
        match spc_ y with
        | SArm =>
            match sto y with
            | Some d =>
                Some (wnextt (wtmr (wT (wS s (upd (Sb s) k (s_pc y SStore)))
                                       (upd (T s) (nextt s) {| tstate := TArmed; tdl := now s + d; tev := Some f;
                                                               tmin := atcall (A s a) + d |}))
                                   (upd (tmr s) f (Some (nextt s))))
                             (S (nextt s)))
            | None => None
            end
        | SStore =>
            Some (wA (wco (wS s (upd (Sb s) k (s_pc y SChk))) (upd (co s) f (Some a)))
                     (upd (A s) a (a_home (A s a) (HSlot f))))
        | SChk =>
            Some (wS s (upd (Sb s) k (s_pc y (if flag s f then SFast else if scn y then SSetIo else SDone))))
        | SFast =>
            match co s f with
            | None => Some (wS s (upd (Sb s) k (s_pc y SDone)))
            | Some c => Some (wA (wco (wS s (upd (Sb s) k (s_pc y (SFastT c)))) (upd (co s) f None))
                                 (upd (A s) c (a_home (A s c) (HFast k))))
            end
        | SFastT c => Some (wake (disarm (wS s (upd (Sb s) k (s_pc y SDone))) f unl) c)
        | SSetIo => Some (wA (wS s (upd (Sb s) k (s_pc y SCan))) (upd (A s) a (a_cio (A s a) (Some f))))
        | SCan => Some (wS s (upd (Sb s) k (s_pc y (if acanc (A s a) then SCan2 else SDone))))
        | SCan2 =>
            match acio (A s a) with
            | None => Some (wS s (upd (Sb s) k (s_pc y SDone)))
            | Some f' => Some (wA (wS s (upd (Sb s) k (s_pc y (SCan3 f')))) (upd (A s) a (a_cio (A s a) None)))
            end
        | SCan3 f' =>
            match co s f' with
            | None => Some (wS s (upd (Sb s) k (s_pc y SDone)))
            | Some c => Some (wA (wco (wS s (upd (Sb s) k (s_pc y (SCan4 f' c)))) (upd (co s) f' None))
                                 (upd (A s) c (a_home (A s c) (HKCan k))))
            end
        | SCan4 f' c => Some (wake ((if fixD then fun s0 => disarm s0 f' false else fun s0 => s0)
                                      (wS s (upd (Sb s) k (s_pc y SDone)))) c)
        | SDone => None
        end
      else None
  | SelEvent g f =>
      match Sel s g with
      | SIdle => if pend s f && (selof f =? g) then
                   Some (wSel (wflag (wpend s (upd (pend s) f false)) (upd (flag s) f true)) (upd (Sel s) g (SEv f)))
                 else None
      | _ => None
      end
  | SelTake g =>
      match Sel s g with
      | SEv f =>
          match co s f with
          | None => Some (wSel s (upd (Sel s) g SIdle))
          | Some c => Some (wA (wco (wSel s (upd (Sel s) g (SEvT f c))) (upd (co s) f None))
                               (upd (A s) c (a_home (A s c) (HSel g))))
          end
      | _ => None
      end
  | SelDisarm g unl =>
      match Sel s g with
      | SEvT f c => Some (wake (disarm (wSel s (upd (Sel s) g SIdle)) f unl) c)
      | _ => None
      end
  | SelFire g e =>
      match Sel s g with
      | SIdle =>
          let t := T s e in
          match tstate t with
          | TArmed =>
              if tdl t <=? now s then
                match tev t with
                | None => Some (wT s (upd (T s) e (t_pop t)))
                | Some f => if selof f =? g then
                              if fixB then Some (wSel (wT s (upd (T s) e (t_pop t))) (upd (Sel s) g (THnd f e)))
                              else Some (wSel (wtmr (wT s (upd (T s) e (t_pop t))) (upd (tmr s) f None)) (upd (Sel s) g (THnd2 f e)))
                            else None
                end
              else None
          | _ => None
          end
      | _ => None
      end
  | SelMark g =>
      match Sel s g with
      | THnd f e => Some (wSel (wflag s (upd (flag s) f true)) (upd (Sel s) g (THnd2 f e)))
      | _ => None
      end
  | SelHnd g =>
      match Sel s g with
      | THnd2 f e =>
          match co s f with
          | None => Some (wSel s (upd (Sel s) g SIdle))
          | Some c => Some (wake_to ((if fixB then fun s0 => disarm s0 f true else fun s0 => s0)
                                       (wco (wSel s (upd (Sel s) g SIdle)) (upd (co s) f None))) c)
          end
      | _ => None
      end
  | CancelSet a =>
      match Cn s a with
      | CnIdle => Some (wCn (wA s (upd (A s) a (a_canc (A s a)))) (upd (Cn s) a Cn1))
      | _ => None
      end
  | CancelIo a =>
      match Cn s a with
      | Cn1 =>
          match acio (A s a) with
          | None => Some (wCn s (upd (Cn s) a CnIdle))
          | Some f => Some (wCn (wA s (upd (A s) a (a_cio (A s a) None))) (upd (Cn s) a (Cn2 f)))
          end
      | _ => None
      end
  | CancelTake a =>
      match Cn s a with
      | Cn2 f =>
          match co s f with
          | None => Some (wCn s (upd (Cn s) a CnIdle))
          | Some c => Some (wA (wco (wCn s (upd (Cn s) a (Cn3 f c))) (upd (co s) f None))
                               (upd (A s) c (a_home (A s c) (HCan a))))
          end
      | _ => None
      end
  | CancelNull a =>
      match Cn s a with
      | Cn3 f c => Some (wake ((if fixD then fun s0 => disarm s0 f false else fun s0 => s0) (wCn s (upd (Cn s) a CnIdle))) c)
      | _ => None
      end
  | Tick d => Some (wnow s (now s + d))
  | Shutdown f =>
      let q := P s f in
      Some (wpend (wP s (upd (P s) f {| buf := buf q; wshut := true; sent := sent q; rcvd := rcvd q; eof := eof q |}))
                  (upd (pend s) (peer f) true))
  | Spurious f => Some (wpend s (upd (pend s) f true))
  | Close f =>
      match busy s f with
      | None => if closed s f then None else Some (wclosed (disarm s f false) (upd (closed s) f true))
      | Some _ => None
      end
  | Establish f =>
      match kst (Kn s f) with
      | CProg => Some (wpend (wKn s (upd (Kn s) f (k_st (Kn s f) CEst))) (upd (pend s) f true))
      | _ => None
      end
  | Refuse f e =>
      match kst (Kn s f) with
      | CProg => Some (wpend (wKn s (upd (Kn s) f (k_st (Kn s f) (CRef e)))) (upd (pend s) f true))
      | _ => None
      end
  | Deliver f =>
      if negb (kdeliv (Kn s f)) && (match kst (Kn s f) with CEst | CConn => true | _ => false end) then
        let kn1 := upd (Kn s) f (k_deliv (Kn s f)) in
        Some (set_pend (wKn s (enqueue kn1 (ktgt (Kn s f)) f)) (q_edge kn1 (ktgt (Kn s f))))
      else None
  end.

Inductive Reach : st -> Prop :=
| R0 : Reach init
| RS s a s' : Reach s -> step s a = Some s' -> Reach s'.

Fixpoint run (s : st) (l : list action) : option st :=
  match l with [] => Some s | a :: r => match step s a with Some s' => run s' r | None => None end end.

(* ---- notions used by the theorems ------------------------------------------------------------------------ *)

(* the wake condition of a caller: the kernel has data (or end of stream) for a reader, space for a writer, a connection
   in the backlog for an acceptor, the outcome of the attempt (established / failed) for a connector *)
Definition avail (s : st) (x : actor) : Prop :=
  let q := P s (pipe_of (akind x) (afd x)) in
  match akind x with
  | Rd => buf q <> [] \/ wshut q = true
  | Wr => length (buf q) < cap
  | Ac => kq (Kn s (afd x)) <> []
  | Co => kst (Kn s (afd x)) = CEst \/ exists e, kst (Kn s (afd x)) = CRef e
  end.

(* nobody has an enabled internal step: everyone is outside an operation or suspended *)
Definition Quiescent (s : st) : Prop :=
  (forall a, (apc (A s a) = Idle \/ apc (A s a) = Susp \/ apc (A s a) = Dead) /\ aawake (A s a) = false) /\
  (forall k, k < nexts s -> spc_ (Sb s k) = SDone) /\
  (forall g, Sel s g = SIdle) /\
  (forall f, pend s f = false) /\
  (forall a, Cn s a = CnIdle).

End Model.
