(* IoModel: counter-examples (checked by vm_compute) for the variants of the model that the C18 theorems exclude.
   W1  the code before the repair of the timeout handler (fixB = false): a timeout is lost when the kernel half is
       held up between arming the timer and storing the coroutine (finding F8b)
   W2  the code before the repair of the cancel path (fixD = false): the timer of a cancelled operation fires into the
       next operation on a socket that outlived the coroutine (finding F18)
   W3  the repaired code, unrestricted interleaving (calm = false): the timeout handler, held up between its mark and
       its take, delivers the timeout of operation k to operation k+1 (known residual F23)
   W4  the repaired code, unrestricted interleaving: a kernel half of an earlier suspension, held up before
       `cancel.set_io`, overwrites the cancel registration of the next suspension; the cancel is lost *)
From Coq Require Import List Arith Bool Lia.
Import ListNotations.
Require Import MayV.Io.IoModel.

Definition peer2 (f : nat) := if Nat.even f then S f else pred f.
Definition sel2 (f : nat) := f mod 2.
Definition runp (fixB fixD calm : bool) := run 4 peer2 sel2 fixB fixD calm init.

Ltac case4 x := destruct x as [|[|[|[|x]]]]; cbn; auto; try lia.
Ltac quiescent := unfold Quiescent; cbn; repeat split;
  try (match goal with |- forall x : nat, _ < _ -> _ => let k := fresh "k" in let L := fresh "L" in intros k L; case4 k end);
  try (match goal with |- forall x : nat, _ => let a := fresh "a" in intros a; case4 a end);
  try (match goal with a : nat |- _ => case4 a end).

Definition due (s : st) (c : nat) : Prop := exists d, ato (A s c) = Some d /\ atcall (A s c) + d <= now s.

(* a reader with timeout 5 on descriptor 1; its kernel half arms the timer and is then held up *)
Definition w1 :=
  [Start 0 1 Rd true (Some 5) [] 4; Step 0 0; Step 0 0; Step 0 0; Sub 0 false;      (* timer armed, deadline 5 *)
   Tick 5; SelFire 1 0; SelHnd 1;                                                     (* fires: no coroutine *)
   Sub 0 false; Sub 0 false; Sub 0 false; Sub 0 false].                               (* store, re-check: nothing *)

Lemma timeout_lost_refuted :
  exists s, runp false true true w1 = Some s /\ Quiescent s /\ apc (A s 0) = Susp /\ co s 1 = Some 0 /\ due s 0 /\
            nextt s = 1 /\ tstate (T s 0) = TGone.
Proof.
  eexists. split; [vm_compute; reflexivity|]. split; [|repeat split; try reflexivity].
  - quiescent.
  - exists 5. cbn. split; [reflexivity | lia].
Qed.

(* the same schedule on the repaired code: the handler marks io_flag first, the re-check after the store sees it *)
Definition w1_fixed :=
  [Start 0 1 Rd true (Some 5) [] 4; Step 0 0; Step 0 0; Step 0 0; Sub 0 false;
   Tick 5; SelFire 1 0; SelMark 1; SelHnd 1;
   Sub 0 false; Sub 0 false; Sub 0 false; Sub 0 false; Resume 0].
Example timeout_not_lost_after_repair :
  match runp true true true w1_fixed with Some s => apc (A s 0) = RBack /\ flag s 1 = true | None => False end.
Proof. vm_compute. split; reflexivity. Qed.

(* actor 0 blocks with timeout 10 and is cancelled; the socket stays; actor 1 blocks on it at time 2 with timeout 10 *)
Definition w2 :=
  [Start 0 1 Rd true (Some 10) [] 4; Step 0 0; Step 0 0; Step 0 0; Sub 0 false; Sub 0 false; Sub 0 false; Sub 0 false; Sub 0 false;
   CancelSet 0; CancelIo 0; CancelTake 0; CancelNull 0; Resume 0; Step 0 0;           (* actor 0 ends with Canceled *)
   Tick 2;
   Start 1 1 Rd true (Some 10) [] 4; Step 1 0; Step 1 0; Step 1 0; Sub 1 false; Sub 1 false; Sub 1 false; Sub 1 false; Sub 1 false;
   Tick 8; SelFire 1 0; SelMark 1; SelHnd 1].                                         (* the old entry fires at 10 *)

Lemma stale_timer_after_cancel_refuted :
  exists s, runp true false true w2 = Some s /\ alast (A s 0) = Some RCanceled /\
            apara (A s 1) = true /\ ato (A s 1) = Some 10 /\ now s < atcall (A s 1) + 10.
Proof. eexists. split; [vm_compute; reflexivity|]. cbn. repeat split. lia. Qed.

(* with the repair the cancel disarms the timer: the old entry is ignored *)
Example cancel_disarms_after_repair :
  match runp true true true (firstn 27 w2) with      (* ... up to and including the expiry of the old entry *)
  | Some s => tev (T s 0) = None /\ tmr s 1 = Some 1 /\ Sel s 1 = SIdle /\ apara (A s 1) = false /\ co s 1 = Some 1
  | None => False end.
Proof. vm_compute. repeat split. Qed.

(* repaired code, unrestricted: the handler is held up between its mark and its take *)
Definition w3 :=
  [Start 0 1 Rd true (Some 5) [] 4; Step 0 0; Step 0 0; Step 0 0; Sub 0 false; Sub 0 false;   (* armed, stored *)
   Tick 5; SelFire 1 0; SelMark 1;                                                            (* handler: mark ... *)
   Sub 0 false; Sub 0 false; Sub 0 false; Resume 0; Step 0 0; Step 0 0; Step 0 0; Step 0 0;   (* re-check sees the mark *)
   Start 1 0 Wr false None [7] 0; Step 1 0; Step 1 1;                                         (* data arrives *)
   Step 0 1;                                                                                  (* read returns it *)
   Tick 1;
   Start 0 1 Rd true (Some 5) [] 4; Step 0 0; Step 0 0; Step 0 0; Sub 1 false; Sub 1 false;   (* next read, stored *)
   SelHnd 1].                                                                                 (* ... take *)

Lemma handler_hits_next_operation_refuted :
  exists s, runp true true false w3 = Some s /\
            apara (A s 0) = true /\ ato (A s 0) = Some 5 /\ now s < atcall (A s 0) + 5.
Proof. eexists. split; [vm_compute; reflexivity|]. cbn. repeat split. lia. Qed.
(* the restricted interleaving excludes exactly the second context switch *)
Example w3_blocked_when_calm : runp true true true w3 = None.
Proof. vm_compute. reflexivity. Qed.

(* repaired code, unrestricted: a stale kernel half overwrites the cancel registration *)
Definition w4 :=
  [Start 0 1 Rd true None [] 4; Step 0 0; Step 0 0; Step 0 0; Sub 0 false; Sub 0 false;       (* stored, re-checked *)
   Start 1 0 Wr false None [7] 0; Step 1 0; Step 1 1; SelEvent 1 1; SelTake 1; SelDisarm 1 false;
   Resume 0; Step 0 0; Step 0 0; Step 0 0; Step 0 0; Step 0 1;                                 (* read done *)
   Start 0 3 Rd true None [] 4; Step 0 0; Step 0 0; Step 0 0;                                  (* read on another socket *)
   Sub 1 false; Sub 1 false; Sub 1 false; Sub 1 false;                                         (* its kernel half, complete *)
   Sub 0 false; Sub 0 false;                                                                   (* the stale one: set_io(1) *)
   CancelSet 0; CancelIo 0; CancelTake 0].

Lemma cancel_lost_refuted :
  exists s, runp true true false w4 = Some s /\ Quiescent s /\ apc (A s 0) = Susp /\ acanc (A s 0) = true /\
            acn (A s 0) = true /\ co s 3 = Some 0.
Proof.
  eexists. split; [vm_compute; reflexivity|]. split; [|repeat split; reflexivity].
  quiescent.
Qed.
Example w4_blocked_when_calm : runp true true true w4 = None.
Proof. vm_compute. reflexivity. Qed.
