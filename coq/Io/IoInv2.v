(* IoModel, repaired code (fixB = fixD = true), restricted interleaving (calm = true): the invariant behind C18 (iii)/(iv)
   - no armed timer entry without the timer cell pointing to it (no orphans), the cell is non-empty only while the
     owner of the descriptor is suspended and not yet scheduled, the entry in the cell belongs to the operation in flight;
   - a timeout handler in flight only ever meets a coroutine whose own deadline has passed;
   - a TimedOut parameter is only ever held by a caller whose own deadline has passed. *)
From Coq Require Import List Arith Bool Lia.
Import ListNotations.
Require Import MayV.Io.IoModel MayV.Io.IoTac MayV.Io.IoInv MayV.Io.IoPres.

Section Inv2.
Variable cap : nat.
Variable peer : nat -> nat.
Variable selof : nat -> nat.
Hypothesis peer_inv : forall f, peer (peer f) = f.
Notation step := (step cap peer selof true true true).
Notation Reach := (Reach cap peer selof true true true).
Notation Inv := (Inv cap peer selof).

(* the deadline of the caller's own operation has passed *)
Definition due (s : st) (c : nat) : Prop := exists d, ato (A s c) = Some d /\ atcall (A s c) + d <= now s.

(* where the wake token of the owner may be while the timer cell of its descriptor is non-empty *)
Definition inW (s : st) (f : nat) (h : home) : Prop :=
  match h with
  | HSlot f' => f' = f
  | HSel _ => True
  | HFast _ => True
  | HCan _ => True
  | HKCan _ => True
  | HSub k => spc_ (Sb s k) = SStore
  | _ => False
  end.

Record Inv2 (s : st) : Prop := {
  T0 : forall a, inflight (apc (A s a)) = true -> atcall (A s a) <= now s;
  TE : forall e, nextt s <= e -> tstate (T s e) = TFree;
  TE2 : forall e, e < nextt s -> tstate (T s e) <> TFree;
  TM : forall e, tstate (T s e) <> TFree -> tmin (T s e) <= tdl (T s e);
  TS : forall k, k < nexts s -> spc_ (Sb s k) = SArm \/ spc_ (Sb s k) = SStore -> sto (Sb s k) = ato (A s (sa (Sb s k)));
  TA : forall e f, tstate (T s e) = TArmed -> tev (T s e) = Some f -> tmr s f = Some e;
  TC : forall f e, tmr s f = Some e ->
         e < nextt s /\ exists a d, busy s f = Some a /\ ato (A s a) = Some d /\ tmin (T s e) = atcall (A s a) + d /\
                                    apc (A s a) = Susp /\ inW s f (ahome (A s a));
  TH : forall g f e, Sel s g = THnd f e \/ Sel s g = THnd2 f e ->
         (forall c, co s f = Some c -> due s c) /\
         (forall k, k < nexts s -> sfd (Sb s k) = f -> spc_ (Sb s k) <> SArm /\ (spc_ (Sb s k) = SStore -> due s (sa (Sb s k))));
  TP : forall c, apara (A s c) = true -> apc (A s c) <> Idle /\ (apc (A s c) <> Dead -> due s c)
}.

Lemma inv2_init : Inv2 init.
Proof.
  constructor; cbn; intros; try discriminate; try lia; try tauto.
  destruct H; discriminate.
Qed.

(* the guard of the context switch *)
Lemma calm_ok_true s a f :
  calm_ok selof true s a f = true ->
  (forall k, k < nexts s -> sfd (Sb s k) = f \/ sa (Sb s k) = a -> spc_ (Sb s k) = SDone) /\
  (forall e, Sel s (selof f) <> THnd f e /\ Sel s (selof f) <> THnd2 f e).
Proof.
  unfold calm_ok. cbn [negb orb]. intros H. apply andb_prop in H. destruct H as [H1 H2]. split.
  - intros k L X. rewrite forallb_forall in H1. specialize (H1 k). rewrite in_seq in H1.
    assert (Y : negb ((sfd (Sb s k) =? f) || (sa (Sb s k) =? a)) || is_done (spc_ (Sb s k)) = true) by (apply H1; lia).
    destruct X as [X|X]; rewrite X, Nat.eqb_refl in Y; cbn in Y; [|rewrite orb_true_r in Y; cbn in Y];
      destruct (spc_ (Sb s k)); cbn in Y; congruence.
  - intros e. unfold not_thnd in H2. destruct (Sel s (selof f)) eqn:E; split; try discriminate;
      intros X; inversion X; subst; rewrite Nat.eqb_refl in H2; discriminate.
Qed.
End Inv2.
