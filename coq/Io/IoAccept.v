(* Trace acceptor for IoModel (C17 / C18): the tie between the model and the code as it runs.

   Every recorded event `[code; thread; obj; val]` of the REAL code (scenarios s_io / s_iotimeout on real sockets under
   the baton scheduler; binding Io/io_sites.json) is mapped to a short list of IoModel actions - usually exactly one:
   the transition that stands for this shared access - after checking the control point of the acting caller /
   kernel half / selector / canceller and the observed value, and followed by a check of the resulting model state.
   `accept_all_reach`: every model state along an accepted trace is Reach-able, so every theorem of C17 / C18 about
   reachable states (for the interleaving the acceptor was instantiated with) holds in it.

   Actors of the trace are OS THREADS (binding: actor_by_coroutine = false).  Which coroutine a thread runs, and
   whether it executes the kernel half (`subscribe`) of a coroutine, is followed through the pure events of
   `run_coroutine` (co.resume / co.yield / co.subscribed / co.panic, obj = the coroutine's identity): an old kernel
   half that is still in its tail on one worker while the coroutine already runs (or suspends again) on another one is
   thereby told apart from the new one - the situation the Section boolean `calm` of the model is about.

   Inputs of the model that are the KERNEL's, taken from the trace and checked to be ENABLED in the abstract kernel:
     * the result of every non-blocking read / write on a tracked socket (`io.sys`, logged at the system call by the
       scenario's interposed libc entry points): n bytes needs n elements in the model FIFO (a datagram: one element),
       EAGAIN needs an empty FIFO that is not shut down (writes: a full one), 0 needs an empty FIFO after shutdown;
       close / shutdown(Write) of a tracked descriptor are the model's Shutdown / Close
     * a readiness report (the selector's `io_flag.fetch_or`) needs a pending event of the model kernel: the edge of K3
       if there is one, otherwise the acceptor plays `Spurious` first (K4 allows it at any time)
     * accept on a tracked LISTENER (op 5): EAGAIN needs an empty model backlog (K5), success carries the connecting
       descriptor whose connection is handed over (the tap keeps the order in which connects were issued towards the
       listener) and must be the head of the model backlog - if that connection has not entered it yet (TCP: the
       handshake completes asynchronously) the acceptor plays `Establish` / `Deliver` first;
       connect on a tracked socket (op 6): 0 / EISCONN need an attempt that has not failed (played: completes at once
       from CNone, else `Establish` first), EINPROGRESS a fresh socket, EALREADY an attempt in progress, any other
       errno e a fresh socket (fails at once) or an attempt in progress (`Refuse e` first): K6
   connect has no `IoData::reset`: the io_flag word of a connecting descriptor is learnt at the re-check of its first
   kernel half (24) or when the selector takes its coroutine (41); a readiness report that came before that is replayed
   then (`dang`: its SelTake follows as soon as the slot is empty again).
   THREAD callers (src/io/thread.rs, yield_with_io with is_coroutine = false): the thread hands its subscriber to its
   thread-local proxy coroutine over a channel and parks; the proxy yields with that subscriber (the kernel half runs as
   for a coroutine, with the proxy as the coroutine that is stored / taken / scheduled), is resumed by the wake-up,
   stores the result and unparks the thread, which goes on in `done()` with co_io_result (`io_ret.take`).  In the model
   the caller is ONE actor (the thread's): its PYield step is played at the thread's `send` (50: InnerQueue::send's first
   access; a thread caller does not look at a cancel bit), the proxy coroutine's identity is mapped to the caller's actor
   at the proxy's first yield (it must be the only thread caller that has sent and whose kernel half has not started:
   the tapped scenario variants have one thread caller), Resume is the proxy's resumption, RBack / RClr (a thread caller
   has no cancel bit: the steps are no-ops of the model) are played with `io_ret.take` (33), whose value is compared with
   the TimedOut parameter of the model.  The proxy's other yields (it waits on its channel) are not I/O.
   Time: the scenario logs the virtual clock (unit: 10 us) with its API events only (normalize.py drops the `now`
   column of the hooked records), so the model clock is a LOWER BOUND of the virtual clock, exact at every logged
   value: a timer that the code treats as due raises it to the deadline (`Tick`), a logged value below the model clock
   rejects the trace (the code fired a timer before its deadline).

   Steps of the model that leave no record in the bound files are executed with a neighbouring event:
     SArm (add_io_timer: the timer list is C08's) at the `co.yield` that starts the kernel half, LRes (co_io_result) with the
     `io_flag.store(0)` / the TimedOut return that follows it, SFastT (fast_schedule's disarm + run_coroutine) at the
     `co.resume` it produces, SelFire with the handler's first access, SelDisarm (select: disarm + schedule) lazily -
     before the selector thread's next bound event or the resumption of the coroutine, whichever comes first (the
     step commutes with everything other threads can do until then: the coroutine slot is already empty, the
     operation is still in flight, so nobody else reads the timer cell); likewise the second half of a cancel
     (CancelNull / SCan4: null the timer entry, schedule) before the resumption of the coroutine or, for the kernel
     half, at its `co.subscribed` - as late as possible: a timeout handler that read `event_data` before the null and
     leaves its mark after the take is then followed by SelFire / SelMark / SelHnd in that order.

   Bookkeeping that is not part of the model (`aux`): thread modes, coroutine identities, the normalised object ids
   of io_flag words and coroutine slots (bound to a descriptor at first sight and compared ever after; the binding of a
   closed descriptor may be replaced: the allocator may reuse the address, while a late event or timer of the closed
   descriptor still finds its data, which the selector frees), which thread serves a descriptor (events and
   timers of one descriptor must come from one thread), cancel targets announced by the scenario. *)
From Coq Require Import List ZArith Bool Arith.
Import ListNotations.
Require Import MayV.Io.IoModel.

(* the instance of the Section parameters the traces are checked against *)
Definition peerv (f : nat) : nat := if Nat.even f then S f else pred f.       (* connection c = descriptors 2c, 2c+1 *)
Definition selv (f : nat) : nat := f.                  (* one model selector per descriptor; `selthr` ties them to threads *)

Inductive tmode := MNone | MRun (a : nat) | MKer (k : nat) | MKerX | MProxy (a : nat) | MProxyP | MRunP (a : nat).

Record aux := {
  tm : nat -> tmode;             (* thread -> what it executes *)
  cmap : list (Z * nat);         (* coroutine identity -> model actor *)
  nco : nat;                     (* coroutines seen *)
  oflag : list (Z * nat);        (* object id of an io_flag word -> descriptor *)
  oco : list (Z * nat);          (* object id of a coroutine slot -> descriptor *)
  preflag : list Z;              (* io_flag words that got an event before their descriptor was known *)
  selthr : nat -> option nat;    (* descriptor -> the thread that serves it *)
  selcur : nat -> option nat;    (* thread -> descriptor whose event / timer it is handling *)
  selpre : nat -> option Z;      (* thread -> unknown io_flag word it reported an event on and has not yet looked into the slot of *)
  fds : list nat;                (* descriptors in use *)
  dgr : nat -> bool;             (* descriptor is a datagram socket *)
  amap : nat -> option nat;      (* scenario index -> model actor (io.actor) *)
  cpend : nat -> option nat;     (* thread -> scenario index announced by io.cancel *)
  ctgt : nat -> option nat;      (* thread -> model actor it is cancelling *)
  precan : list nat;             (* scenario indices cancelled before they announced themselves *)
  cnull : nat -> option nat;     (* descriptor -> the timer entry a cancel has nulled (second half of the cancel played) *)
  seen : list nat;               (* model actors that started an operation *)
  dang : list nat;               (* descriptors whose replayed readiness report still lacks its SelTake *)
  tsent : list nat;              (* thread callers that handed their subscriber to their proxy coroutine (src/io/thread.rs), kernel half not started *)
  prox : list nat                (* thread callers whose proxy coroutine is known (its identity maps to the caller's actor) *)
}.
(* `acap`: the capacity K1 of the kernel object the trace is checked against.  The scenario may announce it with its
   FIRST event (io.cap: a writer-blocking scenario measures it on a probe connection: how many of its fixed-size
   writes the socket buffer takes); `fresh` = no event has been accepted yet, the model is still in `init` *)
Record ast := { ms : st; ax : aux; acap : nat; fresh : bool }.

Definition aux0 : aux :=
  {| tm := fun _ => MNone; cmap := []; nco := 0; oflag := []; oco := []; preflag := []; selthr := fun _ => None;
     selcur := fun _ => None; selpre := fun _ => None; fds := []; dgr := fun _ => false; amap := fun _ => None; cpend := fun _ => None;
     ctgt := fun _ => None; precan := []; cnull := fun _ => None; seen := []; dang := []; tsent := []; prox := [] |}.
Definition capv : nat := 100 * 1000.                   (* default: no tracked write ever finds the buffer full (small transfers) *)
Definition ainit : ast := {| ms := init; ax := aux0; acap := capv; fresh := true |}.

Definition set_tm x v := {| tm := v; cmap := cmap x; nco := nco x; oflag := oflag x; oco := oco x; preflag := preflag x; selthr := selthr x; selcur := selcur x; selpre := selpre x; fds := fds x; dgr := dgr x; amap := amap x; cpend := cpend x; ctgt := ctgt x; precan := precan x; cnull := cnull x; seen := seen x; dang := dang x; tsent := tsent x; prox := prox x |}.
Definition set_cmap x v n := {| tm := tm x; cmap := v; nco := n; oflag := oflag x; oco := oco x; preflag := preflag x; selthr := selthr x; selcur := selcur x; selpre := selpre x; fds := fds x; dgr := dgr x; amap := amap x; cpend := cpend x; ctgt := ctgt x; precan := precan x; cnull := cnull x; seen := seen x; dang := dang x; tsent := tsent x; prox := prox x |}.
Definition set_oflag x v p := {| tm := tm x; cmap := cmap x; nco := nco x; oflag := v; oco := oco x; preflag := p; selthr := selthr x; selcur := selcur x; selpre := selpre x; fds := fds x; dgr := dgr x; amap := amap x; cpend := cpend x; ctgt := ctgt x; precan := precan x; cnull := cnull x; seen := seen x; dang := dang x; tsent := tsent x; prox := prox x |}.
Definition set_oco x v := {| tm := tm x; cmap := cmap x; nco := nco x; oflag := oflag x; oco := v; preflag := preflag x; selthr := selthr x; selcur := selcur x; selpre := selpre x; fds := fds x; dgr := dgr x; amap := amap x; cpend := cpend x; ctgt := ctgt x; precan := precan x; cnull := cnull x; seen := seen x; dang := dang x; tsent := tsent x; prox := prox x |}.
Definition set_sel x v c p := {| tm := tm x; cmap := cmap x; nco := nco x; oflag := oflag x; oco := oco x; preflag := preflag x; selthr := v; selcur := c; selpre := p; fds := fds x; dgr := dgr x; amap := amap x; cpend := cpend x; ctgt := ctgt x; precan := precan x; cnull := cnull x; seen := seen x; dang := dang x; tsent := tsent x; prox := prox x |}.
Definition set_fds x v d s := {| tm := tm x; cmap := cmap x; nco := nco x; oflag := oflag x; oco := oco x; preflag := preflag x; selthr := selthr x; selcur := selcur x; selpre := selpre x; fds := v; dgr := d; amap := amap x; cpend := cpend x; ctgt := ctgt x; precan := precan x; cnull := cnull x; seen := s; dang := dang x; tsent := tsent x; prox := prox x |}.
Definition set_cnull x v := {| tm := tm x; cmap := cmap x; nco := nco x; oflag := oflag x; oco := oco x; preflag := preflag x; selthr := selthr x; selcur := selcur x; selpre := selpre x; fds := fds x; dgr := dgr x; amap := amap x; cpend := cpend x; ctgt := ctgt x; precan := precan x; cnull := v; seen := seen x; dang := dang x; tsent := tsent x; prox := prox x |}.
Definition set_dang x v := {| tm := tm x; cmap := cmap x; nco := nco x; oflag := oflag x; oco := oco x; preflag := preflag x; selthr := selthr x; selcur := selcur x; selpre := selpre x; fds := fds x; dgr := dgr x; amap := amap x; cpend := cpend x; ctgt := ctgt x; precan := precan x; cnull := cnull x; seen := seen x; dang := v; tsent := tsent x; prox := prox x |}.
Definition set_thr x ts pr := {| tm := tm x; cmap := cmap x; nco := nco x; oflag := oflag x; oco := oco x; preflag := preflag x; selthr := selthr x; selcur := selcur x; selpre := selpre x; fds := fds x; dgr := dgr x; amap := amap x; cpend := cpend x; ctgt := ctgt x; precan := precan x; cnull := cnull x; seen := seen x; dang := dang x; tsent := ts; prox := pr |}.
Definition set_can x am cp ct pc := {| tm := tm x; cmap := cmap x; nco := nco x; oflag := oflag x; oco := oco x; preflag := preflag x; selthr := selthr x; selcur := selcur x; selpre := selpre x; fds := fds x; dgr := dgr x; amap := am; cpend := cp; ctgt := ct; precan := pc; cnull := cnull x; seen := seen x; dang := dang x; tsent := tsent x; prox := prox x |}.

(* ---- small helpers ---------------------------------------------------------------------------------------- *)
Definition pcn (p : pc) : nat :=
  match p with Idle => 0 | PReset => 1 | PTry => 2 | PYield => 3 | Susp => 4 | RBack => 5 | RClr => 6 | LRes => 7
             | LClr => 8 | LSys => 9 | LChk => 10 | Dead => 11 end.
Definition pc_eqb (p q : pc) : bool := Nat.eqb (pcn p) (pcn q).
Definition outside (p : pc) : bool := match p with Idle | Dead => true | _ => false end.
Definition znz (v : Z) : bool := negb (Z.eqb v 0).
Definition is_some {X} (o : option X) : bool := match o with Some _ => true | None => false end.
Definition kind_eqb (a b : kind) : bool := match a, b with Rd, Rd | Wr, Wr | Ac, Ac | Co, Co => true | _, _ => false end.
Fixpoint zassoc (l : list (Z * nat)) (k : Z) : option nat :=
  match l with [] => None | (k', v) :: r => if Z.eqb k k' then Some v else zassoc r k end.
Definition zmem (l : list Z) (k : Z) : bool := existsb (Z.eqb k) l.
Definition nmem (l : list nat) (k : nat) : bool := existsb (Nat.eqb k) l.
Fixpoint list_eqb (a b : list nat) : bool :=
  match a, b with
  | [], [] => true
  | x :: a', y :: b' => Nat.eqb x y && list_eqb a' b'
  | _, _ => false
  end.
Definition res_ok (o : option res) (l : list nat) : bool :=
  match o with Some (ROk l') => list_eqb l l' | _ => false end.

(* bind the descriptor of an object at first sight, compare afterwards *)
Definition bindo (dead : nat -> bool) (m : list (Z * nat)) (o : Z) (f : nat) : option (list (Z * nat)) :=
  match zassoc m o with
  | None => Some ((o, f) :: m)
  | Some f' => if Nat.eqb f f' then Some m
               else if dead f' then Some ((o, f) :: m)     (* the allocator reused the address of a closed descriptor's data *)
               else None
  end.
Definition unbind (m : list (Z * nat)) (f : nat) : list (Z * nat) := filter (fun p => negb (Nat.eqb (snd p) f)) m.
(* the word is not bound to a descriptor in use *)
Definition unbound (dead : nat -> bool) (m : list (Z * nat)) (o : Z) : bool :=
  match zassoc m o with None => true | Some g => dead g end.
Definition bindthr (m : nat -> option nat) (f t : nat) : option (nat -> option nat) :=
  match m f with
  | None => Some (upd m f (Some t))
  | Some t' => if Nat.eqb t t' then Some m else None
  end.

(* a plan: model actions to execute, a check of the resulting model state, the new bookkeeping *)
Definition plan := option (list action * (st -> bool) * aux).
Definition ok (x : aux) : plan := Some ([], fun _ => true, x).
Definition acts (x : aux) (l : list action) : plan := Some (l, fun _ => true, x).
Definition actsp (x : aux) (l : list action) (p : st -> bool) : plan := Some (l, p, x).
Definition obs (x : aux) (b : bool) : plan := if b then ok x else None.
Definition chk (b : bool) (p : plan) : plan := if b then p else None.

(* the model actor a thread stands for: the coroutine it runs, else itself *)
Definition cur (x : aux) (t : nat) : nat := match tm x t with MRun a | MRunP a => a | _ => 2 * t end.

(* select(): disarm + schedule of the coroutines this thread took out of their slots and has not passed on yet *)
Definition flush (m : st) (x : aux) (t : nat) : list action :=
  flat_map (fun f => match selthr x f, Sel m f with
                     | Some t', SEvT _ _ => if Nat.eqb t t' then [SelDisarm f false] else []
                     | _, _ => [] end) (fds x).
Definition flush_for (m : st) (a : nat) : list action :=
  match ahome (A m a) with
  | HSel g => match Sel m g with SEvT _ c => if Nat.eqb c a then [SelDisarm g false] else [] | _ => [] end
  | HCan b => match Cn m b with Cn3 _ c => if Nat.eqb c a then [CancelNull b] else [] | _ => [] end
  | HKCan k => match spc_ (Sb m k) with SCan4 _ c => if Nat.eqb c a then [Sub k false] else [] | _ => [] end
  | _ => []
  end.

(* the armed entry of descriptor f with the earliest deadline *)
Fixpoint pick_timer (m : st) (f : nat) (n : nat) (best : option nat) : option nat :=
  match n with
  | O => best
  | S n' =>
      let t := T m n' in
      let best' :=
        match tstate t, tev t with
        | TArmed, Some f' =>
            if Nat.eqb f f' then
              match best with
              | Some b => if tdl t <=? tdl (T m b) then Some n' else best
              | None => Some n'
              end
            else best
        | _, _ => best
        end in
      pick_timer m f n' best'
  end.

(* a replayed readiness report whose SelTake is still due: played as soon as the slot is empty (the real take found nothing) *)
Definition undang (m : st) (x : aux) (f : nat) : list action :=
  if nmem (dang x) f then match Sel m f, co m f with SEv _, None => [SelTake f] | _, _ => [] end else [].
Definition undang_x (m : st) (x : aux) (f : nat) : aux :=
  if nmem (dang x) f then match Sel m f, co m f with SEv _, None => set_dang x (filter (fun g => negb (Nat.eqb g f)) (dang x)) | _, _ => x end else x.

(* K5 / K6: the connection of connecting descriptor c enters the backlog of its listener (if it has not yet) *)
Definition deliver (m : st) (c : nat) : list action :=
  if kdeliv (Kn m c) then [] else (match kst (Kn m c) with CProg => [Establish c] | _ => [] end) ++ [Deliver c].

Local Open Scope Z_scope.

Definition EINPROGRESS_ : Z := 4294967296 + 115.
Definition EALREADY_ : Z := 4294967296 + 114.
Definition EISCONN_ : Z := 4294967296 + 106.
Definition EAGAIN_ : Z := 4294967296 + 11.
Definition is_err (v : Z) : bool := 4294967296 <=? v.

Section Acc.
Variable calm : bool.
Definition mstep (cap : nat) := step cap peerv selv true true calm.

Definition mkplan (s : ast) (e : list Z) : plan :=
  let m := ms s in let x := ax s in
  match e with
  | [code; zt; obj; v] =>
    let t := Z.to_nat zt in
    let a := cur x t in
    let r := A m a in
    let p := apc r in
    let f := afd r in
    let at_ q := pc_eqb p q in
    match code with
    (* ---- run_coroutine ---- *)
    | 1 => (* co.resume c *)
        let '(c, x1) := match zassoc (cmap x) obj with
                        | Some c => (c, x)
                        | None => let c := (2 * nco x + 1)%nat in (c, set_cmap x ((obj, c) :: cmap x) (S (nco x))) end in
        (* the body of a proxy coroutine is not its thread caller: what it does (it waits on its channel) is nobody's I/O *)
        let x2 := set_tm x1 (upd (tm x1) t (if nmem (prox x1) c then MProxy c else MRun c)) in
        match tm x t with
        | MKer k =>
            match spc_ (Sb m k) with
            | SFastT c' => if Nat.eqb c c' then acts x2 [Sub k false; Resume c] else None
            | _ => None
            end
        | _ =>
            if pc_eqb (apc (A m c)) Susp && match ahome (A m c) with HSub _ => true | _ => false end then
              (* the proxy coroutine of a thread caller is resumed by its channel (the thread's send): not an I/O wake-up *)
              obs x2 (nmem (prox x) c)
            else if pc_eqb (apc (A m c)) Susp then
              acts (match ahome (A m c) with
                    | HCan _ | HKCan _ => set_cnull x2 (upd (cnull x2) (afd (A m c)) (tmr m (afd (A m c))))
                    | _ => x2 end)
                   (flush_for m c ++ [Resume c])
            else obs x2 (outside (apc (A m c)) || nmem (prox x) c)
        end
    | 2 => (* co.yield c: the thread now runs the kernel half *)
        match (match tm x t with MProxy c => Some c | MRun c => Some c | _ => None end) with
        | None => (* a yield through yield_with (park, sleep, join ...: it looked at the cancel bit first): not an I/O subscription *)
            match tm x t with
            | MProxyP => ok (set_tm x (upd (tm x) t MKerX))
            | MRunP c => obs (set_tm x (upd (tm x) t MKerX)) (outside (apc (A m c)) || nmem (prox x) c)
            | _ => None
            end
        | Some c0 =>
            (* a coroutine that never did I/O itself yields while exactly one thread caller has sent its subscriber: it is
               that thread's proxy, from now on its identity stands for the caller's actor *)
            let cand := filter (fun a0 => pc_eqb (apc (A m a0)) Susp && match ahome (A m a0) with HSub _ => true | _ => false end) (tsent x) in
            let '(c, x) := if negb (nmem (seen x) c0) && pc_eqb (apc (A m c0)) Idle && negb (nmem (prox x) c0) then
                             match cand, find (fun p => Nat.eqb (snd p) c0) (cmap x) with
                             | [a0], Some (o, _) => (a0, set_thr (set_cmap x ((o, a0) :: cmap x) (nco x)) (tsent x) (a0 :: prox x))
                             | _, _ => (c0, x)
                             end
                           else (c0, x) in
            let x := set_thr x (filter (fun a0 => negb (Nat.eqb a0 c)) (tsent x)) (prox x) in
            let md := match apc (A m c), ahome (A m c) with
                      | Susp, HSub k => MKer k
                      | _, _ => MKerX end in
            (* add_io_timer is the first thing the kernel half of a timed operation does, and it leaves no record in
               the bound files: SArm is played here (the deadline computed from the model clock is then a lower bound
               of the real one, whatever holds the worker up before the store) *)
            match md with
            | MKer k => acts (set_tm x (upd (tm x) t md)) (match spc_ (Sb m k) with SArm => [Sub k false] | _ => [] end)
            | _ => obs (set_tm x (upd (tm x) t md)) (outside (apc (A m c)) || nmem (prox x) c)
            end
        end
    | 3 => (* co.subscribed *)
        let x' := set_tm x (upd (tm x) t MNone) in
        match tm x t with
        | MKer k => actsp (match spc_ (Sb m k) with SCan4 f' _ => set_cnull x' (upd (cnull x') f' (tmr m f')) | _ => x' end)
                          (match spc_ (Sb m k) with SCan4 _ _ => [Sub k false] | _ => [] end)
                          (fun m' => is_done (spc_ (Sb m' k)))
        | _ => ok x'
        end
    | 4 => (* co.panic: the coroutine is gone, the thread is a plain worker again *)
        obs (set_tm x (upd (tm x) t MNone)) (outside p)
    (* ---- API level events logged by the scenario ---- *)
    | 5 => (* io.now v (unit 10 us); whoever logs it is a coroutine / thread of the scenario (not a proxy coroutine) *)
        let n := Z.to_nat v in
        let x := set_fds x (fds x) (dgr x) (if nmem (seen x) a then seen x else a :: seen x) in
        if (now m <? n)%nat then acts x [Tick (n - now m)] else obs x (Nat.eqb (now m) n)
    | 12 => (* co.body_end: the coroutine's closure returned; the yield that follows is its last, not an I/O subscription *)
        match tm x t with
        | MRun c => ok (set_tm x (upd (tm x) t (MRunP c)))
        | _ => ok x
        end
    | 6 => (* io.call: obj = f + 256 kind + 512 cn + 1024 dgram, val = (timeout + 1) * 2^36 + off * 2^16 + n *)
        let f' := Z.to_nat (obj mod 256) in
        let k := if Z.eqb ((obj / 2048) mod 2) 1 then Ac else if Z.eqb ((obj / 4096) mod 2) 1 then Co
                 else if Z.eqb ((obj / 256) mod 2) 0 then Rd else Wr in
        let cn := Z.eqb ((obj / 512) mod 2) 1 in
        let dg := Z.eqb ((obj / 1024) mod 2) 1 in
        let to := let z := v / 68719476736 in if Z.eqb z 0 then None else Some (Z.to_nat (z - 1)) in
        let off := Z.to_nat ((v / 65536) mod 1048576) in
        let n := Z.to_nat (v mod 65536) in
        let l := match k with Wr => if dg then [off] else seq off n | _ => [] end in
        let n' := match k with Rd => if dg then 1%nat else n | Wr | Ac => 0%nat | Co => n end in
        acts (set_fds x (if nmem (fds x) f' then fds x else f' :: fds x) (upd (dgr x) f' dg)
                        (if nmem (seen x) a then seen x else a :: seen x))
             [Start a f' k cn to l n']
    | 7 => (* io.sys: obj = f + 256 op, val = n | 2^32 + errno *)
        let f' := Z.to_nat (obj mod 256) in
        let op := (obj / 256) mod 256 in
        let dg := dgr x f' in
        match op with
        | 0 => (* read / recv *)
            if (at_ PTry || at_ LSys) && Nat.eqb f f' && kind_eqb (akind r) Rd then
              if Z.eqb v EAGAIN_ then actsp x [Step a 0] (fun m' => pc_eqb (apc (A m' a)) PYield || pc_eqb (apc (A m' a)) LChk)
              else if is_err v then actsp x [Step a 0] (fun m' => match alast (A m' a) with Some REof => outside (apc (A m' a)) | _ => false end)
              else if dg then actsp x [Step a 1] (fun m' => match alast (A m' a) with Some (ROk [_]) => outside (apc (A m' a)) | _ => false end)
              else if Z.eqb v 0 then actsp x [Step a 0] (fun m' => match alast (A m' a) with Some REof => outside (apc (A m' a)) | _ => false end)
              else actsp x [Step a (Z.to_nat v)]
                         (fun m' => match alast (A m' a) with Some (ROk l) => Nat.eqb (length l) (Z.to_nat v) && outside (apc (A m' a)) | _ => false end)
            else None
        | 1 => (* write / send *)
            if (at_ PTry || at_ LSys) && Nat.eqb f f' && kind_eqb (akind r) Wr then
              if Z.eqb v EAGAIN_ then actsp x [Step a 0] (fun m' => pc_eqb (apc (A m' a)) PYield || pc_eqb (apc (A m' a)) LChk)
              else if is_err v then
                actsp x ((if wshut (P m f') then [] else [Shutdown f']) ++ [Step a 0])
                      (fun m' => match alast (A m' a) with Some RPipe => closed m' (peerv f') && outside (apc (A m' a)) | _ => false end)
              else actsp x [Step a (if dg then 1%nat else Z.to_nat v)]
                         (fun m' => match alast (A m' a) with
                                    | Some (RWrote n) => Nat.eqb n (if dg then 1%nat else Z.to_nat v) && outside (apc (A m' a)) | _ => false end)
            else None
        | 2 | 4 => (* close (2: stream, the peer sees the end of the stream; 4: datagram socket) *)
            acts x ((if Z.eqb op 2 && negb (wshut (P m f')) then [Shutdown f'] else []) ++
                     (if closed m f' || is_some (busy m f') then [] else [Close f']))
        | 3 => (* shutdown(Write) *)
            acts x (if wshut (P m f') then [] else [Shutdown f'])
        | 5 => (* accept on listener f': v = the connecting descriptor whose connection is handed over | error *)
            if (at_ PTry || at_ LSys) && Nat.eqb f f' && kind_eqb (akind r) Ac then
              if Z.eqb v EAGAIN_ then actsp x [Step a 0] (fun m' => pc_eqb (apc (A m' a)) PYield || pc_eqb (apc (A m' a)) LChk)
              else if is_err v then None
              else let c := Z.to_nat v in
                   chk (Nat.eqb (ktgt (Kn m c)) f' || negb (kdeliv (Kn m c)))
                       (actsp x (deliver m c ++ [Step a 0])
                              (fun m' => match alast (A m' a) with Some (RAcc c') => Nat.eqb c c' && outside (apc (A m' a)) | _ => false end))
            else None
        | 6 => (* connect of f' *)
            if (at_ PTry || at_ LSys) && Nat.eqb f f' && kind_eqb (akind r) Co then
              let conn := fun m' => match alast (A m' a) with Some RConn => outside (apc (A m' a)) | _ => false end in
              let again := fun m' => (pc_eqb (apc (A m' a)) PYield || pc_eqb (apc (A m' a)) LChk) &&
                                     match kst (Kn m' f') with CProg => true | _ => false end in
              match kst (Kn m f') with
              | CNone =>
                  if Z.eqb v 0 then actsp x [Step a 1] conn
                  else if Z.eqb v EINPROGRESS_ then actsp x [Step a 0] again
                  else if is_err v && negb (Z.eqb v EALREADY_) && negb (Z.eqb v EISCONN_) then
                    let e := Z.to_nat (v - 4294967296) in
                    actsp x [Step a (S (S e))] (fun m' => match alast (A m' a) with Some (RErr e') => Nat.eqb e e' && outside (apc (A m' a)) | _ => false end)
                  else None
              | CProg =>
                  if Z.eqb v EALREADY_ then actsp x [Step a 0] again
                  else if Z.eqb v 0 || Z.eqb v EISCONN_ then actsp x [Establish f'; Step a 0] conn
                  else if is_err v && negb (Z.eqb v EINPROGRESS_) then
                    let e := Z.to_nat (v - 4294967296) in
                    actsp x [Refuse f' e; Step a 0] (fun m' => match alast (A m' a) with Some (RErr e') => Nat.eqb e e' && outside (apc (A m' a)) | _ => false end)
                  else None
              | CEst | CConn => if Z.eqb v 0 || Z.eqb v EISCONN_ then actsp x [Step a 0] conn else None
              | CRef e => if Z.eqb v (4294967296 + Z.of_nat e) then
                            actsp x [Step a 0] (fun m' => match alast (A m' a) with Some (RErr e') => Nat.eqb e e' && outside (apc (A m' a)) | _ => false end)
                          else None
              end
            else None
        | 7 => (* close of a listener *)
            acts x (if closed m f' || is_some (busy m f') then [] else [Close f'])
        | _ => None
        end
    | 8 => (* io.ret: obj = f + 256 status (0 ok, 1 timed out, 2 other error), val = off * 2^16 + n *)
        let f' := Z.to_nat (obj mod 256) in
        let st_ := (obj / 256) mod 256 in
        let off := Z.to_nat (v / 65536) in
        let n := Z.to_nat (v mod 65536) in
        let dg := dgr x f' in
        if negb (Nat.eqb f f') then None else
        match st_ with
        | 0 =>
            if at_ Idle then
              match akind r with
              | Rd => obs x (if dg then res_ok (alast r) [off]
                             else if Nat.eqb n 0 then match alast r with Some REof => true | _ => false end
                             else res_ok (alast r) (seq off n))
              | Wr => obs x (match alast r with Some (RWrote n') => Nat.eqb n' (if dg then 1%nat else n) | _ => false end)
              | Ac => obs x (match alast r with Some (RAcc c) => Nat.eqb c n | _ => false end)
              | Co => obs x (match alast r with Some RConn => true | _ => false end)
              end
            else None
        | 1 => if at_ LRes then actsp x [Step a 0] (fun m' => match alast (A m' a) with Some RTimedOut => pc_eqb (apc (A m' a)) Idle | _ => false end)
               else None
        | _ => obs x (at_ Idle && match alast r with Some RPipe | Some REof | Some (RErr _) => true | _ => false end)
        end
    | 9 => (* io.actor k *)
        let k := Z.to_nat obj in
        let x' := set_can x (upd (amap x) k (Some a)) (cpend x) (ctgt x) (precan x) in
        if nmem (precan x) k then acts x' [CancelSet a; CancelIo a] else ok x'
    | 10 => (* io.cancel k *)
        ok (set_can x (amap x) (upd (cpend x) t (Some (Z.to_nat obj))) (ctgt x) (precan x))
    (* ---- the caller: IoData::reset, done() ---- *)
    | 20 => (* IoData::reset: io_flag.swap(0) -> old *)
        if at_ PReset then
          match bindo (closed m) (oflag x) obj f with
          | Some ofl =>
              (* an event was reported on this word before the descriptor was known: it is played now; the selector
                 thread that reported it may still be on its way to the coroutine slot (`selpre`) *)
              let pre := zmem (preflag x) obj && unbound (closed m) (oflag x) obj && znz v in
              let x1 := set_oflag x ofl (if pre then filter (fun o => negb (Z.eqb o obj)) (preflag x) else preflag x) in
              let late := find (fun t' => match selpre x t' with Some o => Z.eqb o obj | None => false end) (seq 0 64) in
              let x' := match pre, late with
                        | true, Some t' => set_sel x1 (upd (selthr x1) f (Some t')) (upd (selcur x1) t' (Some f)) (upd (selpre x1) t' None)
                        | _, _ => x1 end in
              chk (Bool.eqb (znz v) (flag m f || pre))
                  (acts x' ((if pre then [Spurious f; SelEvent f f] ++ (match late with Some _ => [] | None => [SelTake f] end) else [])
                            ++ [Step a 0]))
          | None => None
          end
        else None
    | 21 => (* done: io_flag.store(0), after co_io_result found nothing *)
        if at_ LRes then actsp x [Step a 0; Step a 0] (fun m' => pc_eqb (apc (A m' a)) LSys) else None
    | 22 => (* done: io_flag.load -> v *)
        if at_ LChk then chk (Bool.eqb (znz v) (flag m f)) (acts x [Step a 0]) else None
    (* ---- the kernel half: subscribe ---- *)
    | 23 => (* co.store(co) *)
        match tm x t with
        | MKer k =>
            match bindo (closed m) (oco x) obj (sfd (Sb m k)) with
            | Some oc =>
                match spc_ (Sb m k) with
                | SStore => acts (set_oco x oc) [Sub k false]
                | _ => None
                end
            | None => None
            end
        | _ => None
        end
    | 24 => (* io_flag.load -> v: the re-check after the store.  The first access to the io_flag word of a connecting
               descriptor that tells whose it is (connect has no IoData::reset): a readiness report on this word that
               came before is played now; its take found the slot empty (it came before the store, else 41 had bound the
               word): the SelTake follows with the selector thread's own take if that is still to come, else when the slot is
               empty again (`dang`) *)
        match tm x t with
        | MKer k => match spc_ (Sb m k) with
                    | SChk =>
                        let f' := sfd (Sb m k) in
                        match bindo (closed m) (oflag x) obj f' with
                        | Some ofl =>
                            let pre := zmem (preflag x) obj && unbound (closed m) (oflag x) obj && znz v
                                       && match Sel m f' with SIdle => true | _ => false end in
                            let x1 := set_oflag x ofl (if pre then filter (fun o => negb (Z.eqb o obj)) (preflag x) else preflag x) in
                            (* the selector thread that reported it may still be on its way to the slot: its take (41) follows *)
                            let late := find (fun t' => match selpre x t' with Some o => Z.eqb o obj | None => false end) (seq 0 64) in
                            let x' := match pre, late with
                                      | true, Some t' => set_sel x1 (upd (selthr x1) f' (Some t')) (upd (selcur x1) t' (Some f')) (upd (selpre x1) t' None)
                                      | true, None => set_dang x1 (f' :: dang x1)
                                      | false, _ => x1 end in
                            chk (Bool.eqb (znz v) (flag m f' || pre))
                                (acts x' ((if pre then [Spurious f'; SelEvent f' f'] else []) ++ [Sub k false]))
                        | None => None
                        end
                    | _ => None end
        | _ => None
        end
    | 25 => (* fast_schedule: co.take() -> some *)
        match tm x t with
        | MKer k => match spc_ (Sb m k) with
                    | SFast =>
                        let f' := sfd (Sb m k) in
                        let dg := nmem (dang x) f' && match Sel m f' with SEv _ => true | _ => false end in
                        chk (Bool.eqb (znz v) (is_some (co m f')))
                            (acts (if dg then set_dang x (filter (fun g => negb (Nat.eqb g f')) (dang x)) else x)
                                  ([Sub k false] ++ (if dg then [SelTake f'] else [])))
                    | _ => None end
        | _ => None
        end
    | 26 => (* cancel.set_io: CancelIoImpl slot store *)
        match tm x t with
        | MKer k => match spc_ (Sb m k) with SSetIo => acts x [Sub k false] | _ => None end
        | _ => None
        end
    (* ---- src/cancel.rs, src/io/sys/unix/cancel.rs ---- *)
    | 27 => (* is_canceled: state.load -> v *)
        match tm x t with
        | MKer k => match spc_ (Sb m k) with
                    | SCan => chk (Bool.eqb (Z.eqb v 1) (acanc (A m (sa (Sb m k))))) (acts x [Sub k false])
                    | _ => None end
        | MKerX => ok x
        | MProxy _ | MProxyP => ok (set_tm x (upd (tm x) t MProxyP))
        | MRun c => if at_ PYield then chk (Bool.eqb (Z.eqb v 1) (acanc r)) (acts x [Step a 0])
                    else obs (set_tm x (upd (tm x) t (MRunP c))) (outside p)
        | _ => if at_ PYield then chk (Bool.eqb (Z.eqb v 1) (acanc r)) (acts x [Step a 0]) else obs x (outside p)
        end
    | 28 => (* check_cancel: state.load -> v *)
        match tm x t with
        | MKer _ | MKerX => ok x
        | _ => if at_ RBack then chk (Bool.eqb (Z.eqb v 1) (acanc r)) (acts x [Step a 0]) else obs x (outside p)
        end
    | 29 => (* cancel.clear(): CancelIoImpl slot take -> some *)
        match tm x t with
        | MKer _ | MKerX => ok x
        | _ => if at_ RClr then chk (Bool.eqb (znz v) (is_some (acio r))) (acts x [Step a 0]) else obs x (outside p)
        end
    | 30 => (* Cancel::cancel: state.fetch_or(1) *)
        match tm x t with
        | MKer k => obs x (match spc_ (Sb m k) with SCan2 => true | _ => false end)
        | _ =>
            match cpend x t with
            | Some k =>
                match amap x k with
                | Some c => acts (set_can x (amap x) (upd (cpend x) t None) (upd (ctgt x) t (Some c)) (precan x)) [CancelSet c]
                | None => ok (set_can x (amap x) (upd (cpend x) t None) (upd (ctgt x) t None) (k :: precan x))
                end
            | None => ok (set_can x (amap x) (cpend x) (upd (ctgt x) t None) (precan x))
            end
        end
    | 31 => (* CancelIoImpl::cancel: slot take -> some *)
        match tm x t with
        | MKer k => match spc_ (Sb m k) with
                    | SCan2 => chk (Bool.eqb (znz v) (is_some (acio (A m (sa (Sb m k)))))) (acts x [Sub k false])
                    | _ => None end
        | _ =>
            match ctgt x t with
            | Some c => match Cn m c with
                        | Cn1 => chk (Bool.eqb (znz v) (is_some (acio (A m c)))) (acts x [CancelIo c])
                        | _ => None end
            | None => ok x
            end
        end
    | 32 => (* CancelIoImpl::cancel: e.co.take() -> some *)
        match tm x t with
        | MKer k => match spc_ (Sb m k) with
                    | SCan3 f' => chk (Bool.eqb (znz v) (is_some (co m f'))) (acts x [Sub k false])
                    | _ => None end
        | _ =>
            match ctgt x t with
            | Some c => match Cn m c with
                        | Cn2 f' => chk (Bool.eqb (znz v) (is_some (co m f'))) (acts x [CancelTake c])
                        | _ => None end
            | None => ok x
            end
        end
    (* ---- a plain thread as caller: src/io/thread.rs ---- *)
    | 33 => (* co_io_result(false): io_ret.take() -> some = the TimedOut result the proxy stored *)
        match tm x t with
        | MNone => if at_ RBack then chk (Bool.eqb (znz v) (apara r) && negb (acanc r)) (acts x [Step a 0; Step a 0]) else None
        | _ => None
        end
    | 50 => (* InnerQueue::send (first access): a plain thread in yield_with_io hands its subscriber to its proxy *)
        match tm x t with
        | MNone => if at_ PYield then chk (negb (acanc r)) (acts (set_thr x (a :: tsent x) (prox x)) [Step a 0]) else ok x
        | _ => ok x
        end
    (* ---- the selector thread: Selector::select, timeout_handler ---- *)
    | 40 => (* select: io_flag.fetch_or(events) -> old *)
        match (match zassoc (oflag x) obj with Some f' => if closed m f' then None else Some f' | None => None end) with
        | None => (* the word of a descriptor that is not in use (not yet, or closed while its event was in the batch), or of
                     a new descriptor whose data the allocator placed where those of a closed one were *)
            ok (set_sel (set_oflag x (oflag x) (if zmem (preflag x) obj then preflag x else obj :: preflag x))
                        (selthr x) (upd (selcur x) t None) (upd (selpre x) t (Some obj)))
        | Some f' =>
            match bindthr (selthr x) f' t with
            | Some sth =>
                chk (Bool.eqb (znz v) (flag m f'))
                    (acts (set_sel (undang_x m x f') sth (upd (selcur x) t (Some f')) (upd (selpre x) t None))
                          (undang m x f' ++ flush m x t ++ (if pend m f' then [] else [Spurious f']) ++ [SelEvent f' f']))
            | None => None
            end
        end
    | 41 => (* select: co.take() -> some *)
        match selcur x t with
        | Some f' =>
            match Sel m f', bindo (closed m) (oco x) obj f' with
            | SEv _, Some oc => chk (Bool.eqb (znz v) (is_some (co m f'))) (acts (set_oco x oc) [SelTake f'])
            | SIdle, _ => ok x       (* an event on a word that was not bound yet: nothing to take *)
            | _, _ => None
            end
        | None =>
            match selpre x t, zassoc (oco x) obj with
            | Some w, Some f' =>
                (* the selector reported an event on a word not yet bound (a connecting descriptor: no IoData::reset) and
                   now looks into a slot that is: the word is this descriptor's; report and take are played together *)
                if closed m f' then ok (set_sel x (selthr x) (selcur x) (upd (selpre x) t None)) else
                match bindo (closed m) (oflag x) w f', bindthr (selthr x) f' t, Sel m f' with
                | Some ofl, Some sth, SIdle =>
                    chk (Bool.eqb (znz v) (is_some (co m f')))
                        (acts (set_sel (set_oflag x ofl (filter (fun o => negb (Z.eqb o w)) (preflag x)))
                                       sth (upd (selcur x) t (Some f')) (upd (selpre x) t None))
                              (flush m x t ++ (if pend m f' then [] else [Spurious f']) ++ [SelEvent f' f'; SelTake f']))
                | _, _, _ => None
                end
            | _, _ => ok (set_sel x (selthr x) (selcur x) (upd (selpre x) t None))    (* the slot of a descriptor that is not in use *)
            end
        end
    | 42 => (* timeout_handler: io_flag.fetch_or(TIMER_MARK) -> old; the entry was popped because it is due *)
        (* the io_flag word of a connecting descriptor is not known before the re-check of its first kernel half; a timer
           that expires while that kernel half is held up before the store tells it: the descriptor in use with an
           armed timer and no known word *)
        match (match (match zassoc (oflag x) obj with Some f' => if closed m f' then None else Some f' | None => None end) with
               | Some f' => Some (f', x)
               | None =>
                   match find (fun f' => negb (closed m f') && negb (existsb (fun p => Nat.eqb (snd p) f') (oflag x)) &&
                                         is_some (pick_timer m f' (nextt m) None)) (fds x) with
                   | Some f' => match bindo (closed m) (oflag x) obj f' with
                                | Some ofl => Some (f', set_oflag x ofl (filter (fun o => negb (Z.eqb o obj)) (preflag x)))
                                | None => None end
                   | None => None
                   end
               end) with
        | None => None
        | Some (f', x) =>
            match bindthr (selthr x) f' t, pick_timer m f' (nextt m) None with
            | Some sth, Some e =>
                chk (Bool.eqb (znz v) (flag m f'))
                    (acts (set_sel x sth (upd (selcur x) t (Some f')) (upd (selpre x) t None))
                          (flush m x t ++ (if (now m <? tdl (T m e))%nat then [Tick (tdl (T m e) - now m)] else []) ++
                           [SelFire f' e; SelMark f']))
            | Some sth, None =>
                (* The handler read `event_data` of a due entry before a cancel nulled it, and leaves its mark only after
                   the cancelled coroutine has been resumed (the selector thread was held up inside the handler for that
                   long).  The model run is SelFire - CancelNull - Resume - ... - SelMark - SelHnd, but the acceptor had
                   to play CancelNull for the Resume before it could know of the SelFire.  It catches up with steps that
                   end in the same model state: the silent pop of the nulled entry at its deadline, and a readiness report
                   (io_flag set, nothing taken, the kernel's pending event as before).  In between the selector state and
                   the entry differ from that run (SIdle / armed-nulled instead of THnd / popped); nobody but the selector
                   thread reads them - except the guard of the restricted interleaving, for which this is rejected *)
                match cnull x f' with
                | Some e =>
                    match tstate (T m e), tev (T m e) with
                    | TArmed, None =>
                        chk (Bool.eqb (znz v) (flag m f') && negb calm)
                            (acts (set_cnull (set_sel x sth (upd (selcur x) t (Some f')) (upd (selpre x) t None)) (upd (cnull x) f' None))
                                  (flush m x t ++ (if (now m <? tdl (T m e))%nat then [Tick (tdl (T m e) - now m)] else []) ++
                                   [SelFire f' e; Spurious f'; SelEvent f' f'] ++ (if pend m f' then [Spurious f'] else [])))
                    | _, _ => None
                    end
                | None => None
                end
            | _, _ => None
            end
        end
    | 43 => (* timeout_handler: co.take() -> some *)
        match selcur x t with
        | Some f' =>
            match Sel m f', bindo (closed m) (oco x) obj f' with
            | THnd2 _ _, Some oc => chk (Bool.eqb (znz v) (is_some (co m f'))) (acts (set_oco x oc) [SelHnd f'])
            | SEv _, Some oc => chk (negb (znz v) && negb (is_some (co m f'))) (acts (set_oco x oc) [SelTake f'])   (* see 42 *)
            | _, _ => None
            end
        | None => None
        end
    | _ => None
    end
  | _ => None
  end.

Fixpoint exec (cap : nat) (m : st) (l : list action) : option st :=
  match l with
  | [] => Some m
  | a :: r => match mstep cap m a with Some m' => exec cap m' r | None => None end
  end.

Definition is_cap (e : list Z) : option nat :=
  match e with [11; _; n; _] => Some (Z.to_nat n) | _ => None end.

Definition accept_ev (s : ast) (e : list Z) : option ast :=
  match is_cap e with
  | Some n => (* io.cap n: only as the first event *)
      if fresh s then Some {| ms := init; ax := ax s; acap := n; fresh := true |} else None
  | None =>
      match mkplan s e with
      | Some (al, post, x') =>
          match exec (acap s) (ms s) al with
          | Some m' => if post m' then Some {| ms := m'; ax := x'; acap := acap s; fresh := false |} else None
          | None => None
          end
      | None => None
      end
  end.

Fixpoint accept_all (s : ast) (tr : list (list Z)) : option ast :=
  match tr with
  | [] => Some s
  | e :: l => match accept_ev s e with Some s' => accept_all s' l | None => None end
  end.

Notation MReach c := (Reach c peerv selv true true calm).

Lemma exec_reach c l : forall m m', MReach c m -> exec c m l = Some m' -> MReach c m'.
Proof.
  induction l as [|a l IH]; cbn [exec]; intros m m' R H.
  - inversion H; subst; exact R.
  - destruct (mstep c m a) as [m1|] eqn:E; [|discriminate]. eapply IH; [eapply RS; eauto | exact H].
Qed.

(* the model state of an acceptor state is reachable for the capacity the acceptor state carries *)
Definition Good (s : ast) : Prop := MReach (acap s) (ms s).

Lemma accept_ev_good s e s' : Good s -> accept_ev s e = Some s' -> Good s'.
Proof.
  unfold accept_ev, Good. intros R H.
  destruct (is_cap e) as [n|].
  - destruct (fresh s); [|discriminate]. inversion H; subst; cbn [ms acap]. apply R0.
  - destruct (mkplan s e) as [[[al post] x']|]; [|discriminate].
    destruct (exec (acap s) (ms s) al) as [m'|] eqn:E; [|discriminate].
    destruct (post m'); [|discriminate]. inversion H; subst; cbn [ms acap]. eapply exec_reach; eauto.
Qed.

Lemma accept_ev_cap s e s' : accept_ev s e = Some s' -> fresh s = false -> acap s' = acap s /\ fresh s' = false.
Proof.
  unfold accept_ev. intros H F. rewrite F in H.
  destruct (is_cap e); [discriminate|].
  destruct (mkplan s e) as [[[al post] x']|]; [|discriminate].
  destruct (exec (acap s) (ms s) al) as [m'|]; [|discriminate].
  destruct (post m'); [|discriminate]. inversion H; subst; cbn. auto.
Qed.

(* every state along an accepted trace of the implementation is a reachable state of the model *)
Theorem accept_all_reach tr : forall s s', Good s -> accept_all s tr = Some s' -> Good s'.
Proof.
  induction tr as [|e l IH]; cbn [accept_all]; intros s s' R H; [inversion H; subst; exact R|].
  destruct (accept_ev s e) as [s1|] eqn:E; [|discriminate]. eapply IH; [eapply accept_ev_good; eauto | exact H].
Qed.

Lemma ainit_good : Good ainit.
Proof. apply R0. Qed.

(* ... of the model instance with the capacity the trace announced (the default if it announced none) *)
Corollary accepted_trace_reach tr s' : accept_all ainit tr = Some s' -> MReach (acap s') (ms s').
Proof. apply accept_all_reach, ainit_good. Qed.

End Acc.

(* end of a complete run: every caller that started an operation is outside again (returned, or ended by Cancel) *)
Definition final_ok (s : ast) : bool := forallb (fun a => outside (apc (A (ms s) a))) (seen (ax s)).

(* the unrestricted interleaving (C17) and the restricted one (C18's `_partial` theorems) *)
Definition accept_ev_any := accept_ev false.
Definition accept_all_any := accept_all false.
Definition accept_ev_calm := accept_ev true.
Definition accept_all_calm := accept_all true.

(* the instance satisfies the premise of the C17 / C18 theorems *)
Lemma peerv_inv : forall f, peerv (peerv f) = f.
Proof.
  intros f. unfold peerv. destruct (Nat.even f) eqn:E.
  - rewrite Nat.even_succ, <- Nat.negb_even, E. reflexivity.
  - destruct f; [discriminate|]. cbn [pred]. rewrite Nat.even_succ, <- Nat.negb_even in E.
    destruct (Nat.even f) eqn:E2; [reflexivity | discriminate].
Qed.
