(* IoModel: every step preserves the invariant of IoInv.v (one lemma per clause) *)
From Coq Require Import List Arith Bool Lia.
Import ListNotations.
Require Import MayV.Io.IoModel MayV.Io.IoTac MayV.Io.IoInv.

Section P.
Variable cap : nat.
Variable peer : nat -> nat.
Variable selof : nat -> nat.
Variable fixB fixD calm : bool.
Hypothesis peer_inv : forall f, peer (peer f) = f.
Notation step := (step cap peer selof fixB fixD calm).
Notation Inv := (Inv cap peer selof).

Ltac facts I := facts_gen cap peer selof I.

Lemma pres_B1 s ac s' : Inv s -> step s ac = Some s' ->
  forall a, inflight (apc (A s' a)) = true -> busy s' (afd (A s' a)) = Some a.
Proof.
  intros I H. pose proof (B1 _ _ _ _ I) as iB1.
  step_cases H; facts I; opn; dm; intros a0 Ha0; simp; upds; fin.
  all: try (pose proof (iB1 a0 Ha0); congruence).
Qed.

Lemma pres_B2 s ac s' : Inv s -> step s ac = Some s' ->
  forall f a, busy s' f = Some a -> afd (A s' a) = f /\ inflight (apc (A s' a)) = true.
Proof.
  intros I H. pose proof (B2 _ _ _ _ I) as iB2.
  step_cases H; facts I; opn; dm; intros f0 a0 Ha0; simp; upds; fin.
  all: try (destruct (iB2 _ _ Ha0); split; fin).
Qed.

Lemma pres_F1 s ac s' : Inv s -> step s ac = Some s' ->
  forall k, nexts s' <= k -> spc_ (Sb s' k) = SDone.
Proof.
  intros I H. pose proof (F1 _ _ _ _ I) as iF1.
  step_cases H; facts I; opn; dm; intros k0 Hk0; simp; upds; fin.
  all: try (apply iF1; lia).
Qed.

Lemma pres_S1 s ac s' : Inv s -> step s ac = Some s' ->
  forall g f e, Sel s' g = THnd f e \/ Sel s' g = THnd2 f e -> selof f = g.
Proof.
  intros I H. pose proof (S1 _ _ _ _ I) as iS1.
  step_cases H; facts I; opn; dm; intros g0 f0 e0 Hs; simp; upds; fin.
  all: try (destruct Hs as [Hs|Hs]; try discriminate; inversion Hs; subst; fin).
  all: try (eapply iS1; eauto).
  all: try (eapply iS1; rewrite ?Esel; eauto).
Qed.

Lemma pres_H1 s ac s' : Inv s -> step s ac = Some s' ->
  forall a, apc (A s' a) = Susp <-> ahome (A s' a) <> HNone.
Proof.
  intros I H. pose proof (H1 _ _ _ _ I) as iH1.
  step_cases H; facts I; opn; dm; intros a0; simp; upds; fin.
  all: try (split; [intros; discriminate | intros; try congruence]).
  all: try (split; [discriminate | intro N; exfalso; apply N; fin]).
Qed.

Lemma pres_H2 s ac s' : Inv s -> step s ac = Some s' ->
  forall a k, ahome (A s' a) = HSub k ->
    k < nexts s' /\ sa (Sb s' k) = a /\ sfd (Sb s' k) = afd (A s' a) /\ (spc_ (Sb s' k) = SArm \/ spc_ (Sb s' k) = SStore).
Proof.
  intros I H. pose proof (H2 _ _ _ _ I) as iH2. pose proof (F1 _ _ _ _ I) as iF1.
  step_cases H; facts I; opn; dm; intros a0 k0 Hh; simp; upds; fin.
  all: try (repeat split; auto; lia).
  all: try (destruct (iH2 _ _ Hh) as (? & ? & ? & ?); repeat split; fin; intuition congruence).
Qed.

Lemma pres_H3 s ac s' : Inv s -> step s ac = Some s' ->
  forall k, k < nexts s' -> spc_ (Sb s' k) = SArm \/ spc_ (Sb s' k) = SStore -> ahome (A s' (sa (Sb s' k))) = HSub k.
Proof.
  intros I H. pose proof (H3 _ _ _ _ I) as iH3. pose proof (F1 _ _ _ _ I) as iF1.
  step_cases H; facts I; opn; dm; intros k0 Lk Hk; simp; upds; fin.
  all: try (apply iH3; fin; lia).
  all: try (assert (Lk' : k0 < nexts s) by lia; pose proof (iH3 k0 Lk' Hk); congruence).
  all: try solve [dj].
Qed.

Lemma pres_H4 s ac s' : Inv s -> step s ac = Some s' ->
  forall a f, ahome (A s' a) = HSlot f -> co s' f = Some a /\ afd (A s' a) = f.
Proof.
  intros I H. pose proof (H4 _ _ _ _ I) as iH4.
  step_cases H; facts I; opn; dm; intros a0 f0 Hh; simp; upds; fin.
  all: try (destruct (iH4 _ _ Hh); split; fin).
Qed.

Lemma pres_H5 s ac s' : Inv s -> step s ac = Some s' ->
  forall f a, co s' f = Some a -> ahome (A s' a) = HSlot f.
Proof.
  intros I H. pose proof (H5 _ _ _ _ I) as iH5.
  step_cases H; facts I; opn; dm; intros f0 a0 Hc; simp; upds; fin.
  all: try (pose proof (iH5 _ _ Hc); fin).
Qed.

Lemma pres_H6 s ac s' : Inv s -> step s ac = Some s' ->
  forall a g, ahome (A s' a) = HSel g -> exists f, Sel s' g = SEvT f a.
Proof.
  intros I H. pose proof (H6 _ _ _ _ I) as iH6.
  step_cases H; facts I; opn; dm; intros a0 g0 Hh; simp; upds; fin.
  all: try (destruct (iH6 _ _ Hh) as [f' Hf']; exists f'; fin).
Qed.

Lemma pres_H7 s ac s' : Inv s -> step s ac = Some s' ->
  forall g f a, Sel s' g = SEvT f a -> ahome (A s' a) = HSel g.
Proof.
  intros I H. pose proof (H7 _ _ _ _ I) as iH7.
  step_cases H; facts I; opn; dm; intros g0 f0 a0 Hs; simp; upds; fin.
  all: try (pose proof (iH7 _ _ _ Hs); fin).
Qed.

Lemma pres_H8 s ac s' : Inv s -> step s ac = Some s' ->
  forall a k, ahome (A s' a) = HFast k -> k < nexts s' /\ spc_ (Sb s' k) = SFastT a.
Proof.
  intros I H. pose proof (H8 _ _ _ _ I) as iH8.
  step_cases H; facts I; opn; dm; intros a0 k0 Hh; simp; upds; fin.
  all: try (destruct (iH8 _ _ Hh) as (? & ?); split; fin; try lia; dj).
Qed.

Lemma pres_H9 s ac s' : Inv s -> step s ac = Some s' ->
  forall k a, k < nexts s' -> spc_ (Sb s' k) = SFastT a -> ahome (A s' a) = HFast k.
Proof.
  intros I H. pose proof (H9 _ _ _ _ I) as iH9. pose proof (F1 _ _ _ _ I) as iF1.
  step_cases H; facts I; opn; dm; intros k0 a0 Lk Hk; simp; upds; fin.
  all: try (assert (Lk' : k0 < nexts s) by lia; pose proof (iH9 k0 _ Lk' Hk); fin).
  all: try solve [dj].
Qed.

Lemma pres_H10 s ac s' : Inv s -> step s ac = Some s' ->
  forall a, ahome (A s' a) = HAwake <-> aawake (A s' a) = true.
Proof.
  intros I H. pose proof (H10 _ _ _ _ I) as iH10.
  step_cases H; facts I; opn; dm; intros a0; simp; upds; fin.
  all: try (split; intros; fin).
  all: try (exfalso; match goal with W : aawake (A ?s ?a) = true |- _ => apply iH10 in W; congruence end).
Qed.

Lemma pres_H11 s ac s' : Inv s -> step s ac = Some s' ->
  forall c a, ahome (A s' c) = HCan a -> exists f, Cn s' a = Cn3 f c.
Proof.
  intros I H. pose proof (H11 _ _ _ _ I) as iH11.
  step_cases H; facts I; opn; dm; intros c0 a0 Hh; simp; upds; fin.
  all: try (destruct (iH11 _ _ Hh) as [f' Hf']; exists f'; fin).
Qed.

Lemma pres_H12 s ac s' : Inv s -> step s ac = Some s' ->
  forall a f c, Cn s' a = Cn3 f c -> ahome (A s' c) = HCan a.
Proof.
  intros I H. pose proof (H12 _ _ _ _ I) as iH12.
  step_cases H; facts I; opn; dm; intros a0 f0 c0 Hs; simp; upds; fin.
  all: try (pose proof (iH12 _ _ _ Hs); fin).
Qed.

Lemma pres_H13 s ac s' : Inv s -> step s ac = Some s' ->
  forall c k, ahome (A s' c) = HKCan k -> k < nexts s' /\ exists f, spc_ (Sb s' k) = SCan4 f c.
Proof.
  intros I H. pose proof (H13 _ _ _ _ I) as iH13.
  step_cases H; facts I; opn; dm; intros c0 k0 Hh; simp; upds; fin.
  all: try (destruct (iH13 _ _ Hh) as (? & f' & ?); split; [lia|]; exists f'; fin; dj).
Qed.

Lemma pres_H14 s ac s' : Inv s -> step s ac = Some s' ->
  forall k f c, k < nexts s' -> spc_ (Sb s' k) = SCan4 f c -> ahome (A s' c) = HKCan k.
Proof.
  intros I H. pose proof (H14 _ _ _ _ I) as iH14. pose proof (F1 _ _ _ _ I) as iF1.
  step_cases H; facts I; opn; dm; intros k0 f0 c0 Lk Hk; simp; upds; fin.
  all: try (assert (Lk' : k0 < nexts s) by lia; pose proof (iH14 k0 _ _ Lk' Hk); fin).
  all: try solve [dj].
Qed.

Lemma pres_HC s ac s' : Inv s -> step s ac = Some s' ->
  forall a f c, Cn s' a = Cn3 f c -> afd (A s' c) = f.
Proof.
  intros I H. pose proof (HC _ _ _ _ I) as iHC.
  step_cases H; facts I; opn; dm; intros a0 f0 c0 Hs; simp; upds; fin.
  all: try (exfalso; pose proof (H12 _ _ _ _ I _ _ _ Hs); fin; congruence).
  all: try (pose proof (iHC _ _ _ Hs); fin).
Qed.

Lemma pres_HK4 s ac s' : Inv s -> step s ac = Some s' ->
  forall k f c, k < nexts s' -> spc_ (Sb s' k) = SCan4 f c -> afd (A s' c) = f.
Proof.
  intros I H. pose proof (HK4 _ _ _ _ I) as iHK. pose proof (F1 _ _ _ _ I) as iF1.
  step_cases H; facts I; opn; dm; intros k0 f0 c0 Lk Hk; simp; upds; fin.
  all: try (exfalso; assert (Lk' : k0 < nexts s) by lia; pose proof (H14 _ _ _ _ I k0 _ _ Lk' Hk); fin; congruence).
  all: try (assert (Lk' : k0 < nexts s) by lia; pose proof (iHK k0 _ _ Lk' Hk); fin).
Qed.

Lemma pres_HF s ac s' : Inv s -> step s ac = Some s' ->
  forall k c, k < nexts s' -> spc_ (Sb s' k) = SFastT c -> afd (A s' c) = sfd (Sb s' k).
Proof.
  intros I H. pose proof (HF _ _ _ _ I) as iHF. pose proof (F1 _ _ _ _ I) as iF1.
  step_cases H; facts I; opn; dm; intros k0 c0 Lk Hk; simp; upds; fin.
  all: try (exfalso; assert (Lk' : k0 < nexts s) by lia; pose proof (H9 _ _ _ _ I k0 _ Lk' Hk); fin; congruence).
  all: try (assert (Lk' : k0 < nexts s) by lia; pose proof (iHF k0 _ Lk' Hk); fin).
Qed.

Lemma pres_HS s ac s' : Inv s -> step s ac = Some s' ->
  forall g f c, Sel s' g = SEvT f c -> afd (A s' c) = f.
Proof.
  intros I H. pose proof (HS _ _ _ _ I) as iHS.
  step_cases H; facts I; opn; dm; intros g0 f0 c0 Hs; simp; upds; fin.
  all: try (exfalso; pose proof (H7 _ _ _ _ I _ _ _ Hs); fin; congruence).
  all: try (pose proof (iHS _ _ _ Hs); fin).
Qed.

(* J: a caller past a failed syscall whose wake condition holds has io_flag set or an event pending *)
Lemma pres_J s ac s' : Inv s -> step s ac = Some s' ->
  forall a, inJ (apc (A s' a)) = true -> avail cap peer s' (A s' a) ->
    flag s' (afd (A s' a)) = true \/ pend s' (afd (A s' a)) = true.
Proof.
  intros I H. pose proof (J _ _ _ _ I) as iJ. pose proof (B1 _ _ _ _ I) as iB1.
  step_cases H; facts I; opn; dm; intros a0 Hj Hav; simp.
  (* the syscall outcomes first: they need the kernel lemmas *)
  all: try match goal with
    | Es : syscall _ _ ?s ?x ?m = SysDone ?r ?p' ?ev |- _ =>
        let X := fresh "X" in
        assert (X : avail cap peer s (A s a0) \/ ev = Some (afd (A s a0)) \/ a0 = a);
        [ destruct (Nat.eq_dec a0 a) as [->|Na]; [right; right; reflexivity|];
          rewrite upd_neq in Hav by exact Na;
          match type of Hav with avail _ _ ?s1 _ =>
            destruct (avail_sys cap peer peer_inv s x m r p' ev s1 (A s a0) Es eq_refl eq_refl Hav); [left|right; left]; assumption end | ]
    | Es : syscall _ _ ?s ?x ?m = SysK ?r ?kn' ?ev |- _ =>
        let X := fresh "X" in
        assert (X : avail cap peer s (A s a0) \/ ev = Some (afd (A s a0)) \/ a0 = a);
        [ destruct (Nat.eq_dec a0 a) as [->|Na]; [right; right; reflexivity|];
          rewrite upd_neq in Hav by exact Na; rewrite upd_neq in Hj by exact Na;
          assert (Nf : afd (A s a0) <> afd (A s a))
            by (intro E; apply Na; apply (flight_distinct cap peer selof s I a0 a);
                [apply inJ_inflight; exact Hj | rw_goal; reflexivity | exact E]);
          match type of Hav with avail _ _ ?s1 _ =>
            destruct (avail_sysk cap peer s x m r kn' ev s1 (A s a0) Es eq_refl eq_refl Nf Hav); [left|right; left]; assumption end | ]
    | Es : syscall _ _ ?s ?x ?m = SysAgainK ?kn' |- _ =>
        destruct (Nat.eq_dec a0 a) as [->|Na];
        [ exfalso; rewrite upd_eq in Hav; simp;
          match type of Hav with avail _ _ ?s1 ?x1 =>
            exact (againk_not_avail cap peer s x m kn' s1 x1 Es eq_refl eq_refl eq_refl Hav) end
        | rewrite upd_neq in Hav by exact Na; rewrite upd_neq in Hj by exact Na;
          assert (Nf : afd (A s a0) <> afd (A s a))
            by (intro E; apply Na; apply (flight_distinct cap peer selof s I a0 a);
                [apply inJ_inflight; exact Hj | rw_goal; reflexivity | exact E]);
          let Ek := fresh "Ek" in
          destruct (sys_againk cap peer s x m kn' Es) as [_ Ek];
          match type of Hav with avail _ _ ?s1 _ =>
            apply (avail_kupd cap peer s s1 _ _ (A s a0) eq_refl Ek Nf) in Hav end ]
    | Es : syscall _ _ ?s ?x ?m = SysAgain |- _ => pose proof (sys_again cap peer s x m Es)
    end.
  (* the outcome of a connection attempt, a connection entering a backlog *)
  all: try match type of Hav with avail _ _ ?s1 ?y =>
         match s1 with wpend (wKn ?s (upd (Kn ?s) ?f (k_st _ ?c))) _ =>
         let X := fresh "X" in
         destruct (avail_kst cap peer s s1 f c y eq_refl eq_refl Hav) as [X|X];
         [ clear Hav; rename X into Hav | right; rewrite X; apply upd_eq ] end end.
  all: try match type of Hav with avail _ _ ?s1 ?y =>
         match s1 with context [enqueue (upd (Kn ?s) ?f (k_deliv _))] =>
           let X := fresh "X" in
           destruct (avail_deliver cap peer s s1 f y eq_refl eq_refl Hav) as [X|X];
           [ clear Hav; rename X into Hav | try congruence; right; replace (afd y) with n by congruence; apply upd_eq ] end end.
  all: try (apply (avail_ext cap peer _ s) in Hav; [|reflexivity|reflexivity]).
  all: upds; fin.
  all: try (exfalso; match goal with
            | Na : ?a0 <> ?a, E : afd (A ?s ?a0) = afd (A ?s ?a) |- _ =>
                apply Na; apply (flight_distinct cap peer selof s I a0 a); [apply inJ_inflight; assumption | rw_goal; reflexivity | exact E]
            end).
  all: try (apply iJ; fin; rw_goal; reflexivity).
  all: try (match goal with X : avail _ _ _ _ \/ _ \/ _ |- _ =>
              destruct X as [X|[X|X]]; [apply iJ; assumption | try discriminate; inversion X; congruence | congruence] end).
  all: try (match type of Hav with avail _ _ ?s1 _ =>
              destruct (avail_shut cap peer peer_inv s _ s1 _ eq_refl eq_refl Hav) as [X|X]; [apply iJ; assumption | congruence] end).
Qed.

(* K: a coroutine published while io_flag is set is about to be taken *)
Definition Kw (s : st) (f : nat) : Prop :=
  Sel s (selof f) = SEv f \/ (exists e, Sel s (selof f) = THnd2 f e) \/
  exists k, k < nexts s /\ sfd (Sb s k) = f /\ (spc_ (Sb s k) = SChk \/ spc_ (Sb s k) = SFast).

Lemma pres_K s ac s' : Inv s -> step s ac = Some s' ->
  forall f a, co s' f = Some a -> flag s' f = true -> Kw s' f.
Proof.
  intros I H. pose proof (K _ _ _ _ I) as iK. fold (Kw s) in iK. pose proof (F1 _ _ _ _ I) as iF1.
  step_cases H; facts I; opn; dm; intros f0 a0 Hc Hf; unfold Kw; simp; upds; fin.
  all: try (destruct (iK _ _ Hc Hf) as [X|[(e1 & X)|(k1 & L1 & F1' & P1)]];
            [left; upds; fin | right; left; exists e1; upds; fin | right; right; exists k1; upds; fin; repeat split; fin; try lia; dj; auto 6]).
  all: try (match goal with Ec : ?k < nexts ?s |- _ => right; right; exists k; upds; repeat split; fin; auto 6 end).
  all: try (right; left; eexists; upds; fin; reflexivity).
  all: try (exfalso; match goal with Es : Sel ?s ?g = THnd ?f ?e, N : selof ?f <> ?g |- _ =>
              apply N; apply (S1 _ _ _ _ I g f e); left; exact Es end).
Qed.

Theorem inv_step s ac s' : Inv s -> step s ac = Some s' -> Inv s'.
Proof.
  intros I H. constructor.
  - exact (pres_B1 _ _ _ I H).
  - exact (pres_B2 _ _ _ I H).
  - exact (pres_F1 _ _ _ I H).
  - exact (pres_S1 _ _ _ I H).
  - exact (pres_H1 _ _ _ I H).
  - exact (pres_H2 _ _ _ I H).
  - exact (pres_H3 _ _ _ I H).
  - exact (pres_H4 _ _ _ I H).
  - exact (pres_H5 _ _ _ I H).
  - exact (pres_H6 _ _ _ I H).
  - exact (pres_H7 _ _ _ I H).
  - exact (pres_H8 _ _ _ I H).
  - exact (pres_H9 _ _ _ I H).
  - exact (pres_H10 _ _ _ I H).
  - exact (pres_H11 _ _ _ I H).
  - exact (pres_H12 _ _ _ I H).
  - exact (pres_H13 _ _ _ I H).
  - exact (pres_H14 _ _ _ I H).
  - exact (pres_HC _ _ _ I H).
  - exact (pres_HK4 _ _ _ I H).
  - exact (pres_HF _ _ _ I H).
  - exact (pres_HS _ _ _ I H).
  - exact (pres_J _ _ _ I H).
  - exact (pres_K _ _ _ I H).
Qed.

Theorem inv_reach s : Reach cap peer selof fixB fixD calm s -> Inv s.
Proof. induction 1; [apply inv_init | eapply inv_step; eauto]. Qed.
End P.
