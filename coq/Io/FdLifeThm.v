(* Proofs about Io/FdLife.v: with the code's drop order (deregister, then close) a live socket owns its
   descriptor number and its registration in every reachable state, whatever numbers the kernel recycles;
   with the other order it does not. *)
From Coq Require Import List Arith Bool Lia.
Import ListNotations.
Require Import MayV.Io.FdLife.

Definition holds (p : phase) (fd : nat) : Prop := p = SNew fd \/ p = SLive fd \/ p = SHalf fd.

Record Inv (s : state) : Prop := {
  i_own : forall id fd, holds (ph s id) fd -> fdt s fd = Some id;
  i_reg : forall id fd, ph s id = SLive fd -> reg s fd = Some id;
  i_back : forall fd id, reg s fd = Some id -> ph s id = SLive fd;
  i_fresh : forall id, next s <= id -> ph s id = SFree }.

Lemma upd_eq {A} (f : nat -> A) k v : upd f k v k = v.
Proof. unfold upd. now rewrite Nat.eqb_refl. Qed.

Lemma upd_neq {A} (f : nat -> A) k v x : x <> k -> upd f k v x = f x.
Proof. unfold upd. intros H. destruct (Nat.eqb_spec x k); [contradiction | reflexivity]. Qed.

Lemma inv_init : Inv init.
Proof.
  split; cbn; intros.
  - destruct H as [H | [H | H]]; discriminate.
  - discriminate.
  - discriminate.
  - reflexivity.
Qed.

Lemma holds_inj p a b : holds p a -> holds p b -> a = b.
Proof.
  intros [H | [H | H]] [K | [K | K]]; rewrite H in K; try discriminate; now inversion K.
Qed.

(* two sockets that hold the same number are the same socket *)
Lemma own_unique s a b fd : Inv s -> holds (ph s a) fd -> holds (ph s b) fd -> a = b.
Proof.
  intros I Ha Hb. pose proof (i_own s I a fd Ha) as E1. pose proof (i_own s I b fd Hb) as E2.
  rewrite E1 in E2. now inversion E2.
Qed.

Lemma is_some_false {A} (o : option A) : is_some o = false -> o = None.
Proof. destruct o; [discriminate | reflexivity]. Qed.

Lemma step_create s fd s' : Inv s -> step true s (Create fd) = Some s' -> Inv s'.
Proof.
  intros I H. cbn in H. destruct (is_some (fdt s fd)) eqn:F; [discriminate |].
  apply is_some_false in F. inversion H; subst s'; clear H.
  assert (Hn : ph s (next s) = SFree) by (apply (i_fresh s I); lia).
  split; cbn.
  - intros id fd0 Hh. destruct (Nat.eq_dec id (next s)) as [-> | Ne].
    + rewrite upd_eq in Hh. assert (fd0 = fd) as ->.
      { destruct Hh as [K | [K | K]]; inversion K; reflexivity. }
      now rewrite upd_eq.
    + rewrite upd_neq in Hh by exact Ne. pose proof (i_own s I id fd0 Hh) as E.
      rewrite upd_neq; [exact E |]. intros ->. rewrite F in E. discriminate.
  - intros id fd0 Hl. destruct (Nat.eq_dec id (next s)) as [-> | Ne].
    + rewrite upd_eq in Hl. discriminate.
    + rewrite upd_neq in Hl by exact Ne. exact (i_reg s I id fd0 Hl).
  - intros fd0 id Hr. pose proof (i_back s I fd0 id Hr) as Hl.
    rewrite upd_neq; [exact Hl |]. intros ->. rewrite Hn in Hl. discriminate.
  - intros id Hle. rewrite upd_neq by lia. apply (i_fresh s I). lia.
Qed.

Lemma step_register s id s' : Inv s -> step true s (Register id) = Some s' -> Inv s'.
Proof.
  intros I H. cbn in H. destruct (ph s id) eqn:P; try discriminate.
  inversion H; subst s'; clear H.
  assert (Ho : fdt s fd = Some id) by (apply (i_own s I); left; exact P).
  split; cbn.
  - intros id0 fd0 Hh. destruct (Nat.eq_dec id0 id) as [-> | Ne].
    + rewrite upd_eq in Hh. assert (fd0 = fd) as ->.
      { destruct Hh as [K | [K | K]]; inversion K; reflexivity. }
      exact Ho.
    + rewrite upd_neq in Hh by exact Ne. exact (i_own s I id0 fd0 Hh).
  - intros id0 fd0 Hl. destruct (Nat.eq_dec id0 id) as [-> | Ne].
    + rewrite upd_eq in Hl. inversion Hl; subst fd0. now rewrite upd_eq.
    + rewrite upd_neq in Hl by exact Ne.
      rewrite upd_neq; [exact (i_reg s I id0 fd0 Hl) |].
      intros ->. apply Ne. apply (own_unique s id0 id fd I); [right; left; exact Hl | left; exact P].
  - intros fd0 id0 Hr. destruct (Nat.eq_dec fd0 fd) as [-> | Nf].
    + rewrite upd_eq in Hr. inversion Hr; subst id0. now rewrite upd_eq.
    + rewrite upd_neq in Hr by exact Nf. pose proof (i_back s I fd0 id0 Hr) as Hl.
      rewrite upd_neq; [exact Hl |]. intros ->. rewrite P in Hl. discriminate.
  - intros id0 Hle. pose proof (i_fresh s I id0 Hle) as Hf.
    rewrite upd_neq; [exact Hf |]. intros ->. rewrite P in Hf. discriminate.
Qed.

Lemma step_drop1 s id s' : Inv s -> step true s (Drop1 id) = Some s' -> Inv s'.
Proof.
  intros I H. cbn in H. destruct (ph s id) eqn:P; try discriminate.
  inversion H; subst s'; clear H.
  assert (Ho : fdt s fd = Some id) by (apply (i_own s I); right; left; exact P).
  assert (Hc : ctl_del s fd = upd (reg s) fd None) by (unfold ctl_del; now rewrite Ho).
  split; cbn; rewrite ?Hc.
  - intros id0 fd0 Hh. destruct (Nat.eq_dec id0 id) as [-> | Ne].
    + rewrite upd_eq in Hh. assert (fd0 = fd) as ->.
      { destruct Hh as [K | [K | K]]; inversion K; reflexivity. }
      exact Ho.
    + rewrite upd_neq in Hh by exact Ne. exact (i_own s I id0 fd0 Hh).
  - intros id0 fd0 Hl. destruct (Nat.eq_dec id0 id) as [-> | Ne].
    + rewrite upd_eq in Hl. discriminate.
    + rewrite upd_neq in Hl by exact Ne.
      rewrite upd_neq; [exact (i_reg s I id0 fd0 Hl) |].
      intros ->. apply Ne. apply (own_unique s id0 id fd I); right; left; assumption.
  - intros fd0 id0 Hr. destruct (Nat.eq_dec fd0 fd) as [-> | Nf].
    + rewrite upd_eq in Hr. discriminate.
    + rewrite upd_neq in Hr by exact Nf. pose proof (i_back s I fd0 id0 Hr) as Hl.
      rewrite upd_neq; [exact Hl |]. intros ->. rewrite P in Hl. congruence.
  - intros id0 Hle. pose proof (i_fresh s I id0 Hle) as Hf.
    rewrite upd_neq; [exact Hf |]. intros ->. rewrite P in Hf. discriminate.
Qed.

Lemma step_drop2 s id s' : Inv s -> step true s (Drop2 id) = Some s' -> Inv s'.
Proof.
  intros I H. cbn in H. destruct (ph s id) eqn:P; try discriminate.
  inversion H; subst s'; clear H.
  assert (Ho : fdt s fd = Some id) by (apply (i_own s I); right; right; exact P).
  (* the registration of the number is already gone: only a Live socket is registered *)
  assert (Hr0 : reg s fd = None).
  { destruct (reg s fd) as [x |] eqn:R; [| reflexivity].
    pose proof (i_back s I fd x R) as Hl.
    assert (x = id) as -> by (apply (own_unique s x id fd I); [right; left; exact Hl | right; right; exact P]).
    rewrite P in Hl. discriminate. }
  assert (Hc : close_reg s fd id = reg s) by (unfold close_reg; now rewrite Hr0).
  split; cbn; rewrite ?Hc.
  - intros id0 fd0 Hh. destruct (Nat.eq_dec id0 id) as [-> | Ne].
    + rewrite upd_eq in Hh. destruct Hh as [K | [K | K]]; discriminate.
    + rewrite upd_neq in Hh by exact Ne.
      rewrite upd_neq; [exact (i_own s I id0 fd0 Hh) |].
      intros ->. apply Ne. apply (own_unique s id0 id fd I); [exact Hh | right; right; exact P].
  - intros id0 fd0 Hl. destruct (Nat.eq_dec id0 id) as [-> | Ne].
    + rewrite upd_eq in Hl. discriminate.
    + rewrite upd_neq in Hl by exact Ne. exact (i_reg s I id0 fd0 Hl).
  - intros fd0 id0 Hr. pose proof (i_back s I fd0 id0 Hr) as Hl.
    rewrite upd_neq; [exact Hl |]. intros ->. rewrite P in Hl. discriminate.
  - intros id0 Hle. pose proof (i_fresh s I id0 Hle) as Hf.
    rewrite upd_neq; [exact Hf |]. intros ->. rewrite P in Hf. discriminate.
Qed.

Lemma step_inv s a s' : Inv s -> step true s a = Some s' -> Inv s'.
Proof.
  destruct a; intros I H.
  - eapply step_create; eassumption.
  - eapply step_register; eassumption.
  - eapply step_drop1; eassumption.
  - eapply step_drop2; eassumption.
Qed.

Lemma run_inv l : forall s s', Inv s -> run true s l = Some s' -> Inv s'.
Proof.
  induction l as [| a l IH]; cbn; intros s s' I H.
  - inversion H; subst; exact I.
  - destruct (step true s a) as [s1 |] eqn:S; [| discriminate].
    eapply IH; [eapply step_inv; eassumption | exact H].
Qed.

Lemma reach_inv s : Reach true s -> Inv s.
Proof. intros [l H]. eapply run_inv; [exact inv_init | exact H]. Qed.

(* ---- the statements used by Properties/C17_fdlife.v ---- *)

Lemma registration_for_life s id fd :
  Reach true s -> ph s id = SLive fd -> fdt s fd = Some id /\ reg s fd = Some id.
Proof.
  intros R P. pose proof (reach_inv s R) as I. split.
  - apply (i_own s I). right; left; exact P.
  - exact (i_reg s I id fd P).
Qed.

Lemma number_has_one_owner s a b fd :
  Reach true s -> holds (ph s a) fd -> holds (ph s b) fd -> a = b.
Proof. intros R. apply own_unique. exact (reach_inv s R). Qed.

Lemma events_reach_a_live_socket s fd id :
  Reach true s -> reg s fd = Some id -> ph s id = SLive fd /\ fdt s fd = Some id.
Proof.
  intros R H. pose proof (reach_inv s R) as I. pose proof (i_back s I fd id H) as P. split; [exact P |].
  apply (i_own s I). right; left; exact P.
Qed.

Lemma free_number_not_registered s fd : Reach true s -> fdt s fd = None -> reg s fd = None.
Proof.
  intros R F. destruct (reg s fd) as [x |] eqn:E; [| reflexivity].
  destruct (events_reach_a_live_socket s fd x R E) as [_ K]. rewrite F in K. discriminate.
Qed.

(* the drop of a live socket is always enabled and so is its second half: nobody else's action disables it *)
Lemma drop_enabled s id fd : ph s id = SLive fd -> exists s', step true s (Drop1 id) = Some s' /\ ph s' id = SHalf fd.
Proof. intros P. cbn. rewrite P. eexists; split; [reflexivity |]. cbn. apply upd_eq. Qed.

(* the other order: a live, registered socket loses its registration to the late EPOLL_CTL_DEL of a socket that
   was closed first and whose number it got *)
Definition witness_wrong_order : list act := [Create 5; Register 0; Drop1 0; Create 5; Register 1; Drop2 0].

Lemma close_first_refuted :
  exists s id fd, Reach false s /\ ph s id = SLive fd /\ fdt s fd = Some id /\ reg s fd = None.
Proof.
  destruct (run false init witness_wrong_order) as [s |] eqn:E; [| vm_compute in E; discriminate].
  exists s, 1, 5. split; [exists witness_wrong_order; exact E |].
  vm_compute in E. inversion E; subst s. vm_compute. repeat split.
Qed.

(* non-vacuity for the code's order: a recycled number with a live, registered new owner is reachable *)
Definition witness_recycle : list act := [Create 5; Register 0; Drop1 0; Drop2 0; Create 5; Register 1].

Lemma recycle_reachable :
  exists s, Reach true s /\ ph s 1 = SLive 5 /\ ph s 0 = SDead /\ reg s 5 = Some 1.
Proof.
  destruct (run true init witness_recycle) as [s |] eqn:E; [| vm_compute in E; discriminate].
  exists s. split; [exists witness_recycle; exact E |].
  vm_compute in E. inversion E; subst s. vm_compute. repeat split.
Qed.

(* the same interleaving as the refutation, in the code's order: the new owner cannot even be created before the
   old one has finished its drop *)
Lemma no_recycle_inside_the_drop s id fd fd' :
  Reach true s -> ph s id = SHalf fd -> step true s (Create fd') <> None -> fd' <> fd.
Proof.
  intros R P H ->. apply H. cbn.
  assert (E : fdt s fd = Some id) by (apply (i_own s (reach_inv s R)); right; right; exact P).
  now rewrite E.
Qed.
