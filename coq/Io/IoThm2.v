(* IoModel: the C18 theorems for the repaired code under the restricted interleaving (calm = true); the
   counter-examples for the excluded variants are in IoRefute.v *)
From Coq Require Import List Arith Bool Lia.
Import ListNotations.
Require Import MayV.Io.IoModel MayV.Io.IoTac MayV.Io.IoInv MayV.Io.IoPres MayV.Io.IoInv2 MayV.Io.IoPres2.

Section Thm2.
Variable cap : nat.
Variable peer : nat -> nat.
Variable selof : nat -> nat.
Hypothesis peer_inv : forall f, peer (peer f) = f.
Notation step := (step cap peer selof true true true).
Notation Reach := (Reach cap peer selof true true true).

(* (iii) never early: whoever holds a TimedOut parameter (and will return Err(TimedOut) at its next `co_io_result`)
   has a timeout d and the clock has reached its own call time + d *)
Theorem timeout_never_early_partial s c :
  Reach s -> apara (A s c) = true -> apc (A s c) <> Dead -> due s c.
Proof. intros R Hp Hd. destruct (inv2_reach cap peer selof peer_inv s R) as [_ I2]. exact (proj2 (TP _ I2 c Hp) Hd). Qed.

(* ... in particular at the one place that reports Err(TimedOut) (LRes = co_io_result; `finish _ _ RTimedOut` occurs
   nowhere else in `step`) *)
Corollary timedout_reported_only_when_due_partial s a :
  Reach s -> apc (A s a) = LRes -> apara (A s a) = true -> due s a.
Proof. intros R E Hp. apply timeout_never_early_partial; auto. rewrite E. discriminate. Qed.

(* (iv) a timer armed for one operation never outlives it: when no operation is in flight on a descriptor its timer cell is
   empty and no armed entry refers to it ... *)
Theorem no_timer_left_behind_partial s f :
  Reach s -> busy s f = None -> tmr s f = None /\ forall e, tstate (T s e) = TArmed -> tev (T s e) <> Some f.
Proof.
  intros R B. destruct (inv2_reach cap peer selof peer_inv s R) as [I I2].
  assert (C : tmr s f = None).
  { destruct (tmr s f) as [e|] eqn:E; [|reflexivity]. destruct (TC _ I2 _ _ E) as (_ & a & d & Bz & _). congruence. }
  split; [exact C|]. intros e Ha Hv. pose proof (TA _ I2 _ _ Ha Hv). congruence.
Qed.

(* ... and an entry that can still fire for a descriptor was armed by the operation now in flight on it, for that
   operation's own deadline or later *)
Theorem armed_timer_belongs_to_operation_partial s e f :
  Reach s -> tstate (T s e) = TArmed -> tev (T s e) = Some f ->
  exists a d, busy s f = Some a /\ ato (A s a) = Some d /\ atcall (A s a) + d <= tdl (T s e).
Proof.
  intros R Ha Hv. destruct (inv2_reach cap peer selof peer_inv s R) as [I I2].
  pose proof (TA _ I2 _ _ Ha Hv) as C. destruct (TC _ I2 _ _ C) as (L & a & d & Bz & Az & Mz & _).
  exists a, d. repeat split; auto. rewrite <- Mz. apply (TM _ I2). apply (TE2 _ I2). exact L.
Qed.

(* a timeout handler in flight can only meet a coroutine whose own deadline has passed *)
Theorem handler_meets_only_due_partial s g f e c :
  Reach s -> Sel s g = THnd f e \/ Sel s g = THnd2 f e -> co s f = Some c -> due s c.
Proof.
  intros R Hs Hc. destruct (inv2_reach cap peer selof peer_inv s R) as [I I2].
  exact (proj1 (TH _ I2 _ _ _ Hs) _ Hc).
Qed.
End Thm2.

(* ---- (v) cancellation: what holds for every variant and interleaving ------------------------------------------------ *)
Section Cancel.
Variable cap : nat.
Variable peer : nat -> nat.
Variable selof : nat -> nat.
Variable fixB fixD calm : bool.
Hypothesis peer_inv : forall f, peer (peer f) = f.
Notation step := (step cap peer selof fixB fixD calm).
Notation Reach := (Reach cap peer selof fixB fixD calm).

(* a caller ends with Canceled only through the cancel bit; it then never runs again *)
Lemma dead_is_final s ac s' a : step s ac = Some s' -> apc (A s a) = Dead -> apc (A s' a) = Dead.
Proof.
  intros H E. step_cases H; unfold finish, die, wake, wake_to, set_pend, disarm in *; simp;
  repeat match goal with |- context [match ?x with Some _ => _ | None => _ end] => destruct x end; simp; upds; congruence.
Qed.

(* closing a descriptor (del_fd) touches nothing of any other descriptor: flag, coroutine slot, timer cell, pending events *)
Theorem close_is_local s f s' g :
  step s (Close f) = Some s' -> g <> f ->
  flag s' g = flag s g /\ co s' g = co s g /\ tmr s' g = tmr s g /\ pend s' g = pend s g /\ busy s' g = busy s g /\ closed s' g = closed s g.
Proof.
  intros H N. cbn [IoModel.step] in H. destruct (busy s f); [discriminate|]. destruct (closed s f); [discriminate|].
  inversion H; subst; clear H. unfold disarm. destruct (tmr s f); simp; rewrite ?upd_neq by exact N; repeat split; reflexivity.
Qed.
End Cancel.
