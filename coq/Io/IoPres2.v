(* IoModel, repaired code, restricted interleaving: every step preserves Inv2 (given Inv) *)
From Coq Require Import List Arith Bool Lia.
Import ListNotations.
Require Import MayV.Io.IoModel MayV.Io.IoTac MayV.Io.IoInv MayV.Io.IoPres MayV.Io.IoInv2.

Section P2.
Variable cap : nat.
Variable peer : nat -> nat.
Variable selof : nat -> nat.
Hypothesis peer_inv : forall f, peer (peer f) = f.
Notation step := (step cap peer selof true true true).
Notation Inv := (Inv cap peer selof).
Ltac facts I := facts_gen cap peer selof I.

Lemma pres_T0 s ac s' : Inv s -> Inv2 s -> step s ac = Some s' ->
  forall a, inflight (apc (A s' a)) = true -> atcall (A s' a) <= now s'.
Proof.
  intros I I2 H. pose proof (T0 _ I2) as iT0.
  step_cases H; facts I; opn; dm; intros a0 Ha0; simp; upds; fin.
  all: try (pose proof (iT0 a0 Ha0); lia).
  all: try (match goal with E : apc (A ?s ?a) = _ |- _ => let X := fresh in pose proof (iT0 a) as X; rewrite E in X; specialize (X eq_refl); lia end).
Qed.

Lemma pres_TE s ac s' : Inv s -> Inv2 s -> step s ac = Some s' ->
  forall e, nextt s' <= e -> tstate (T s' e) = TFree.
Proof.
  intros I I2 H. pose proof (TE _ I2) as iTE. pose proof (TC _ I2) as iTC.
  step_cases H; facts I; opn; dm; intros e0 He0; simp; upds; fin.
  all: try (apply iTE; lia).
  all: try (exfalso; match goal with X : tmr ?s ?f = Some ?n |- _ => destruct (iTC _ _ X) as (L & _); lia end).
  all: try (exfalso; match goal with X : tstate (T ?s ?e) = TArmed |- _ => rewrite iTE in X by lia; discriminate end).
Qed.

Lemma pres_TE2 s ac s' : Inv s -> Inv2 s -> step s ac = Some s' ->
  forall e, e < nextt s' -> tstate (T s' e) <> TFree.
Proof.
  intros I I2 H. pose proof (TE2 _ I2) as iTE2.
  step_cases H; facts I; opn; dm; intros e0 He0; simp; upds; fin.
  all: try (apply iTE2; lia).
  all: try (destruct unl; fin; apply iTE2; lia).
Qed.

Lemma pres_TM s ac s' : Inv s -> Inv2 s -> step s ac = Some s' ->
  forall e, tstate (T s' e) <> TFree -> tmin (T s' e) <= tdl (T s' e).
Proof.
  intros I I2 H. pose proof (TM _ I2) as iTM. pose proof (T0 _ I2) as iT0. pose proof (TC _ I2) as iTC. pose proof (TE2 _ I2) as iTE2.
  step_cases H; facts I; opn; dm; intros e0 He0; simp; upds; fin.
  all: try (apply iTM; fin; destruct unl; fin; congruence).
  all: try (match goal with Hs : apc (A ?s ?a) = Susp |- atcall (A ?s ?a) + _ <= _ =>
              let X := fresh in pose proof (iT0 a) as X; rewrite Hs in X; specialize (X eq_refl); lia end).
  all: try (match goal with X : tmr ?s ?f = Some ?n |- tmin (T ?s ?n) <= _ => destruct (iTC _ _ X) as (L & _); apply iTM; apply iTE2; exact L end).
Qed.

Lemma pres_TS s ac s' : Inv s -> Inv2 s -> step s ac = Some s' ->
  forall k, k < nexts s' -> spc_ (Sb s' k) = SArm \/ spc_ (Sb s' k) = SStore -> sto (Sb s' k) = ato (A s' (sa (Sb s' k))).
Proof.
  intros I I2 H. pose proof (TS _ I2) as iTS. pose proof (H3 _ _ _ _ I) as iH3.
  step_cases H; facts I; opn; dm; intros k0 Lk Hk; simp; upds; fin.
  all: try (apply iTS; fin; lia).
  all: try solve [dj].
  all: try (exfalso; assert (Lk' : k0 < nexts s) by lia; pose proof (iH3 k0 Lk' Hk); fin; congruence).
  all: try (assert (Lk' : k0 < nexts s) by lia; pose proof (iTS k0 Lk' Hk); congruence).
Qed.

Ltac rw_home := repeat match goal with
  | E : ahome ?x = ?h, W : context [ahome ?x] |- _ => lazymatch type of W with ahome x = _ => fail | _ => rewrite E in W end
  end.

Ltac rw_goal_home := repeat match goal with
  | E : ahome ?x = ?h |- context [ahome ?x] => rewrite E
  end.

(* the content of a non-empty timer cell *)
Definition TCw (s : st) (f e : nat) : Prop :=
  e < nextt s /\ exists a d, busy s f = Some a /\ ato (A s a) = Some d /\ tmin (T s e) = atcall (A s a) + d /\
                             apc (A s a) = Susp /\ inW s f (ahome (A s a)).

Lemma pres_TC s ac s' : Inv s -> Inv2 s -> step s ac = Some s' ->
  forall f e, tmr s' f = Some e -> TCw s' f e.
Proof.
  intros I I2 H. pose proof (TC _ I2) as iTC. fold (TCw s) in iTC. pose proof (TS _ I2) as iTS.
  pose proof (B2 _ _ _ _ I) as iB2.
  step_cases H; facts I; opn; dm; intros f0 e0 Hc; unfold TCw; simp; upds; fin.
  (* a new cell *)
  all: try solve [match goal with L : ?k < nexts ?s, E : spc_ (Sb ?s ?k) = SArm, Es : sto (Sb ?s ?k) = Some ?n |- _ =>
              split; [lia|]; exists (sa (Sb s k)), n; unfold inW; simp; rw_goal_home; upds; simp;
              pose proof (iTS k L (or_introl E)); repeat split; fin; congruence end].
  (* steps that leave the cell alone: the old owner *)
  all: try (destruct (iTC _ _ Hc) as (L & a1 & d1 & Bz & Az & Mz & Pz & Wz); split; [lia|];
            exists a1, d1; unfold inW in *; upds; simp; rw_home; simp; repeat split; fin).
  all: try solve [match goal with Bz : busy _ _ = Some _ |- _ => destruct (iB2 _ _ Bz); congruence end].
  all: try (match goal with |- context [match ahome ?x with _ => _ end] => destruct (ahome x) eqn:? end; fin; upds; simp; fin).
  all: try solve [exfalso; match goal with Hh : ahome (A ?s ?a1) = HSub ?k |- _ => destruct (IoInv.H2 _ _ _ _ I _ _ Hh) as (_ & X & _ & Y); dj end].
  all: try solve [match goal with Hh : ahome (A ?s ?a1) = HSub ?k |- _ => destruct (IoInv.H2 _ _ _ _ I _ _ Hh) as (_ & X & _ & Y); dj end].
  all: try solve [exfalso; match goal with Hh : ahome (A ?s ?a1) = HSub (nexts ?s) |- _ => destruct (IoInv.H2 _ _ _ _ I _ _ Hh) as (X & _); lia end].
Qed.

Lemma pres_TA s ac s' : Inv s -> Inv2 s -> step s ac = Some s' ->
  forall e f, tstate (T s' e) = TArmed -> tev (T s' e) = Some f -> tmr s' f = Some e.
Proof.
  intros I I2 H. pose proof (TA _ I2) as iTA. pose proof (TC _ I2) as iTC. pose proof (TE _ I2) as iTE.
  step_cases H; facts I; opn; dm; intros e0 f0 Ha Hv; simp; upds; fin.
  all: try solve [apply iTA; fin].
  all: try solve [destruct unl; fin; pose proof (iTA _ _ Ha Hv); congruence].
  all: try solve [pose proof (iTA _ _ Ha Hv); congruence].
  all: try solve [exfalso; pose proof (iTA _ _ Ha Hv) as X; destruct (iTC _ _ X) as (_ & a1 & d1 & Bz & _ & _ & _ & Wz);
                  match goal with B1 : busy ?s ?f = Some ?x, B2 : busy ?s ?f = Some ?y |- _ =>
                    lazymatch x with y => fail | _ => assert (x = y) by congruence; subst x end end;
                  unfold inW in Wz; rw_home; congruence].
Qed.

Definition THw (s : st) (f : nat) : Prop :=
  (forall c, co s f = Some c -> due s c) /\
  (forall k, k < nexts s -> sfd (Sb s k) = f -> spc_ (Sb s k) <> SArm /\ (spc_ (Sb s k) = SStore -> due s (sa (Sb s k)))).

Lemma due_mono s s' c : ato (A s' c) = ato (A s c) -> atcall (A s' c) = atcall (A s c) -> now s <= now s' -> due s c -> due s' c.
Proof. unfold due. intros E1 E2 L (d & X & Y). exists d. rewrite E1, E2. split; [exact X | lia]. Qed.

Lemma pres_TH s ac s' : Inv s -> Inv2 s -> step s ac = Some s' ->
  forall g f e, Sel s' g = THnd f e \/ Sel s' g = THnd2 f e -> THw s' f.
Proof.
  intros I I2 H. pose proof (TH _ I2) as iTH. fold (THw s) in iTH.
  pose proof (TA _ I2) as iTA. pose proof (TC _ I2) as iTC. pose proof (TM _ I2) as iTM. pose proof (TE2 _ I2) as iTE2.
  pose proof (S1 _ _ _ _ I) as iS1.
  step_cases H; facts I; opn; dm; intros g0 f0 e0 Hs; simp; upds; fin.
  all: try solve [destruct Hs; discriminate].
  (* steps of other parties: the old assertion carries over *)
  all: try (assert (Q : THw s f0) by (eapply iTH; try eassumption; first [exact Hs | rewrite ?Esel; eauto]); destruct Q as [Q1 Q2];
            unfold THw, due; simp; split;
            [ intros c0 Hc0; upds; fin; try (destruct (Q1 _ Hc0) as (d0 & X0 & Y0); exists d0; upds; simp; split; fin; lia)
            | intros k0 Lk0 Hk0; upds; fin;
              try (assert (Lk0' : k0 < nexts s) by lia; destruct (Q2 _ Lk0' Hk0) as [N0 D0]; split; [fin|];
                   intros S0; upds; fin; try (destruct (D0 S0) as (d0 & X0 & Y0); exists d0; upds; simp; split; fin; lia)) ]).
  all: try solve [exfalso; match goal with Hc : co ?s ?f = Some ?c |- _ => pose proof (slot_facts cap peer selof s I _ _ Hc); brk; rw_pc; congruence end].
  all: try solve [exfalso; match goal with L : ?k < nexts ?s, Sx : spc_ (Sb ?s ?k) = SStore |- _ =>
                    pose proof (sub_facts cap peer selof s I k L (or_intror Sx)); brk; rw_pc; congruence end].
  all: try solve [split; [discriminate | intros; discriminate]].
  all: try solve [exfalso; match goal with G : negb (calm_ok _ true ?s ?a ?f) = false |- _ =>
                    apply negb_false_iff in G; destruct (calm_ok_true selof s a f G) as [_ N]; destruct (N e0) as [N1 N2];
                    pose proof (iS1 _ _ _ Hs); destruct Hs; subst; congruence end].
  all: try solve [match goal with L : ?k < nexts ?s, E : spc_ (Sb ?s ?k) = _ |- _ =>
                    destruct (Q2 k L ltac:(congruence)) as [N0 D0]; first [congruence | split; [discriminate|]; intros _; apply D0; assumption | apply D0; assumption] end].
  - (* SelFire: the popped entry was the one in the cell; its owner's deadline has passed *)
    assert (f0 = n /\ e0 = e) as [-> ->] by (destruct Hs as [Hs|Hs]; inversion Hs; auto). clear Hs.
    pose proof (iTA _ _ Ets Etev) as Xc. destruct (iTC _ _ Xc) as (Le & a1 & d1 & Bz & Az & Mz & Pz & Wz).
    assert (Dz : due s a1).
    { exists d1. split; [exact Az|]. assert (tmin (T s e) <= tdl (T s e)) by (apply iTM; apply iTE2; exact Le). lia. }
    unfold THw, due in *. simp. split.
    + intros c0 Hc0. destruct (slot_facts cap peer selof s I _ _ Hc0) as (_ & _ & _ & Bc & _).
      assert (c0 = a1) by congruence. subst. exact Dz.
    + intros k0 Lk0 Hk0. split.
      * intros Sx. destruct (sub_facts cap peer selof s I k0 Lk0 (or_introl Sx)) as (Hh & _ & _ & Bk & _).
        rewrite Hk0 in Bk. assert (sa (Sb s k0) = a1) by congruence. subst a1.
        unfold inW in Wz. rewrite Hh in Wz. congruence.
      * intros Sx. destruct (sub_facts cap peer selof s I k0 Lk0 (or_intror Sx)) as (_ & _ & _ & Bk & _).
        rewrite Hk0 in Bk. assert (sa (Sb s k0) = a1) by congruence. subst a1. exact Dz.
  - (* SelMark *)
    assert (f0 = f /\ e0 = e) as [-> ->] by (destruct Hs as [Hs|Hs]; inversion Hs; auto).
    destruct (iTH g f e (or_introl Esel)) as [Q1 Q2]. unfold THw, due in *. simp. split; assumption.
Qed.

Lemma pres_TP s ac s' : Inv s -> Inv2 s -> step s ac = Some s' ->
  forall c, apara (A s' c) = true -> apc (A s' c) <> Idle /\ (apc (A s' c) <> Dead -> due s' c).
Proof.
  intros I I2 H. pose proof (TP _ I2) as iTP. pose proof (TH _ I2) as iTH.
  step_cases H; facts I; opn; dm; intros c0 Hp; unfold due in *; simp; upds; fin.
  all: try solve [destruct (iTP _ Hp) as [N0 D0]; rw_pc; split; [fin; congruence | intros ND; fin; try (destruct (D0 ltac:(congruence)) as (d0 & X0 & Y0); exists d0; split; fin; lia)]].
  all: try solve [match goal with Es : Sel ?s ?g = THnd2 ?f ?e, Hc : co ?s ?f = Some ?c |- _ =>
                    destruct (iTH g f e (or_intror Es)) as [Q1 _]; split; [rw_goal; discriminate | intros _; exact (Q1 _ Hc)] end].
Qed.

Theorem inv2_step s ac s' : Inv s -> Inv2 s -> step s ac = Some s' -> Inv2 s'.
Proof.
  intros I I2 H. constructor.
  - exact (pres_T0 _ _ _ I I2 H).
  - exact (pres_TE _ _ _ I I2 H).
  - exact (pres_TE2 _ _ _ I I2 H).
  - exact (pres_TM _ _ _ I I2 H).
  - exact (pres_TS _ _ _ I I2 H).
  - exact (pres_TA _ _ _ I I2 H).
  - exact (pres_TC _ _ _ I I2 H).
  - exact (pres_TH _ _ _ I I2 H).
  - exact (pres_TP _ _ _ I I2 H).
Qed.

Theorem inv2_reach s : Reach cap peer selof true true true s -> Inv s /\ Inv2 s.
Proof.
  induction 1 as [|s a s' R [I I2] H].
  - split; [exact (inv_init cap peer selof) | exact (inv2_init cap peer)].
  - split; [exact (inv_step cap peer selof true true true peer_inv _ _ _ I H) | exact (inv2_step _ _ _ I I2 H)].
Qed.
End P2.
