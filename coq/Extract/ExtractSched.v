From Coq Require Import List ZArith Extraction ExtrOcamlBasic.
Require Import MayV.Rt.SchedModel MayV.Rt.SchedAccept.
Definition m_init := SchedAccept.m_init.
Definition m_accept := SchedAccept.accept_ev.
Definition m_final := SchedAccept.final_ok.
Extraction "../ocaml/gen/sched_model.ml" m_init m_accept m_final.
