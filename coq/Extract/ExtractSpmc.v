From Coq Require Import List ZArith Extraction ExtrOcamlBasic.
Require Import MayV.Queue.SpmcModel MayV.Queue.SpmcAccept.
Definition m_init := (init 32, aux0).
Definition m_accept := accept_ev 32.
Definition m_final := monitors_ok.
Extraction "../ocaml/gen/spmc_model.ml" m_init m_accept m_final.
