From Coq Require Import List ZArith Extraction ExtrOcamlBasic.
Require Import MayV.Rt.SchedModel MayV.Rt.SchedLoopModel MayV.Rt.SchedLoopAccept.
Definition m_init := SchedLoopAccept.m_init.
Definition m_accept := SchedLoopAccept.accept_ev.
Definition m_final := SchedLoopAccept.final_ok.
Extraction "../ocaml/gen/schedloop_model.ml" m_init m_accept m_final.
