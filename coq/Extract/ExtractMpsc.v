From Coq Require Import List ZArith Extraction ExtrOcamlBasic.
Require Import MayV.Queue.MpscCore MayV.Queue.MpscAccept.
Definition m_init := init.
Definition m_accept := accept_ev 64.
Definition m_final := monitors_ok.
Extraction "../ocaml/gen/mpsc_model.ml" m_init m_accept m_final.
