From Coq Require Import List ZArith Extraction ExtrOcamlBasic.
Require Import MayV.Sync.SemModel MayV.Sync.SemAccept.
Definition m_init := SemAccept.m_init.
Definition m_accept := SemAccept.accept_ev.
Definition m_final := SemAccept.monitors_ok.
Extraction "../ocaml/gen/sem_model.ml" m_init m_accept m_final.
