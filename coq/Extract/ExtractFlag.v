From Coq Require Import List ZArith Extraction ExtrOcamlBasic.
Require Import MayV.Sync.FlagModel MayV.Sync.FlagAccept.
Definition m_init := FlagAccept.m_init.
Definition m_accept := FlagAccept.accept_ev.
Definition m_final := FlagAccept.monitors_ok.
Extraction "../ocaml/gen/flag_model.ml" m_init m_accept m_final.
