From Coq Require Import List ZArith Extraction ExtrOcamlBasic.
Require Import MayV.Io.IoModel MayV.Io.IoAccept.
(* the acceptor of the unrestricted interleaving (calm = false): every legitimate trace of the code must be accepted *)
Definition m_init := ainit.
Definition m_accept := accept_ev_any.
Definition m_final := final_ok.
Extraction "../ocaml/gen/io_model.ml" m_init m_accept m_final.
