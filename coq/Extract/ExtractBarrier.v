From Coq Require Import List ZArith Extraction ExtrOcamlBasic.
Require Import MayV.Sync.CondvarModel MayV.Sync.CondvarAccept MayV.Sync.BarrierModel MayV.Sync.WaitGroupModel MayV.Sync.BarrierAccept.
Definition m_init := BarrierAccept.p_init.
Definition m_accept := BarrierAccept.paccept_ev.
Definition m_final := BarrierAccept.pmonitors_ok.
Extraction "../ocaml/gen/barrier_model.ml" m_init m_accept m_final.
