From Coq Require Import List ZArith Extraction ExtrOcamlBasic.
Require Import MayV.Sync.ChanSpscModel MayV.Sync.ChanSpscAccept.
Definition m_init := ChanSpscAccept.a_init.
Definition m_accept := ChanSpscAccept.accept_ev.
Definition m_final := ChanSpscAccept.monitors_ok.
Extraction "../ocaml/gen/chan_spsc_model.ml" m_init m_accept m_final.
