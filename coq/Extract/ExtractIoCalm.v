From Coq Require Import List ZArith Extraction ExtrOcamlBasic.
Require Import MayV.Io.IoModel MayV.Io.IoAccept.
(* the acceptor of the restricted interleaving (calm = true) the `_partial` theorems of C18 are proved for: a trace is
   accepted only if no caller suspends while an older kernel half of itself / on its descriptor, or a timeout handler
   for its descriptor, is still between two accesses.  Used for the single-worker variants, where that always holds. *)
Definition m_init := ainit.
Definition m_accept := accept_ev_calm.
Definition m_final := final_ok.
Extraction "../ocaml/gen/io_calm_model.ml" m_init m_accept m_final.
