From Coq Require Import List ZArith Extraction ExtrOcamlBasic.
Require Import MayV.Sync.RwLockModel MayV.Sync.RwLockAccept.
(* the scenario creates the lock clean *)
Definition m_init := ainit false.
Definition m_accept := accept_ev.
Definition m_final := final_ok.
Extraction "../ocaml/gen/rwlock_model.ml" m_init m_accept m_final.
