From Coq Require Import List ZArith Extraction ExtrOcamlBasic.
Require Import MayV.Rt.TimerThread MayV.Rt.TimerThreadAccept.
Definition m_init := ainit.
Definition m_accept := accept_ev.
Definition m_final := monitors_ok.
Extraction "../ocaml/gen/timerthread_model.ml" m_init m_accept m_final.
