From Coq Require Import List ZArith Extraction ExtrOcamlBasic.
Require Import MayV.Sync.MutexModel MayV.Sync.MutexAccept.
Definition m_init := ainit.
Definition m_accept := accept_ev.
Definition m_final := final_ok.
Extraction "../ocaml/gen/mutex_model.ml" m_init m_accept m_final.
