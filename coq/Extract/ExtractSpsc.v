From Coq Require Import List ZArith Extraction ExtrOcamlBasic.
Require Import MayV.Queue.SpscModel MayV.Queue.SpscAccept.
Definition m_init := a_init.
Definition m_accept := accept_ev 32.
Definition m_final := a_final.
Extraction "../ocaml/gen/spsc_model.ml" m_init m_accept m_final.
