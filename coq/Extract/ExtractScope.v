From Coq Require Import List ZArith Extraction ExtrOcamlBasic.
Require Import MayV.Rt.ScopeModel MayV.Rt.ScopeAccept.
Definition m_init := ScopeAccept.m_init.
Definition m_accept := ScopeAccept.accept_ev.
Definition m_final := ScopeAccept.monitors_ok.
Extraction "../ocaml/gen/scope_model.ml" m_init m_accept m_final.
