From Coq Require Import List ZArith Extraction ExtrOcamlBasic.
Require Import MayV.Queue.ListV1Model MayV.Queue.ListV1Accept.
Definition m_init := a_init.
Definition m_accept := accept_ev.
Definition m_final := a_final.
Extraction "../ocaml/gen/listv1_model.ml" m_init m_accept m_final.
