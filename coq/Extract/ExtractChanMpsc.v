From Coq Require Import List ZArith Extraction ExtrOcamlBasic.
Require Import MayV.Sync.ChanMpscModel MayV.Sync.ChanMpscAccept.
Definition m_init := ChanMpscAccept.m_init.
Definition m_accept := ChanMpscAccept.accept_ev.
Definition m_final := ChanMpscAccept.monitors_ok.
Extraction "../ocaml/gen/chan_mpsc_model.ml" m_init m_accept m_final.
