From Coq Require Import List ZArith Extraction ExtrOcamlBasic.
Require Import MayV.Sync.ChanMpscModel MayV.Sync.ChanMpscAccept MayV.Sync.ChanMpscTime MayV.Sync.ChanMpscTimeAccept.
(* the acceptor of the timed overlay: follows recv_timeout traces with the scenario's clock *)
Definition m_init := ChanMpscTimeAccept.tm_initm.
Definition m_accept := ChanMpscTimeAccept.taccept_evm.
Definition m_final := ChanMpscTimeAccept.tmonitors_okm.
Extraction "../ocaml/gen/chan_mpsc_model.ml" m_init m_accept m_final.
