From Coq Require Import List ZArith Extraction ExtrOcamlBasic.
Require Import MayV.Sync.ChanMpscModel MayV.Sync.ChanMpscAccept.
Definition m_init := ChanMpscAccept.m_initm.
Definition m_accept := ChanMpscAccept.accept_evm.
Definition m_final := ChanMpscAccept.monitors_okm.
Extraction "../ocaml/gen/chan_mpsc_model.ml" m_init m_accept m_final.
