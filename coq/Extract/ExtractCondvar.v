From Coq Require Import List ZArith Extraction ExtrOcamlBasic.
Require Import MayV.Sync.CondvarModel MayV.Sync.CondvarAccept.
Definition m_init := CondvarAccept.m_init.
Definition m_accept := CondvarAccept.accept_ev.
Definition m_final := CondvarAccept.monitors_ok.
Extraction "../ocaml/gen/condvar_model.ml" m_init m_accept m_final.
