From Coq Require Import List ZArith Extraction ExtrOcamlBasic.
Require Import MayV.Sync.ChanMpmcModel MayV.Sync.ChanMpmcAccept.
Definition m_init := ChanMpmcAccept.a_init.
Definition m_accept := ChanMpmcAccept.accept_ev.
Definition m_final := ChanMpmcAccept.monitors_ok.
Extraction "../ocaml/gen/chan_mpmc_model.ml" m_init m_accept m_final.
