From Coq Require Import List ZArith Extraction ExtrOcamlBasic.
Require Import MayV.Queue.MpscFullModel MayV.Queue.MpscFullAccept.
Definition m_init := a_init 64.
Definition m_accept := accept_ev 64.
Definition m_final := a_final.
Extraction "../ocaml/gen/mpsc_full_model.ml" m_init m_accept m_final.
