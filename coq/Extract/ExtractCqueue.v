From Coq Require Import List ZArith Extraction ExtrOcamlBasic.
Require Import MayV.Rt.CqueueModel MayV.Rt.CqueueAccept.
Definition m_init := CqueueAccept.m_init.
Definition m_accept := CqueueAccept.accept_ev.
Definition m_final := CqueueAccept.monitors_ok.
Extraction "../ocaml/gen/cqueue_model.ml" m_init m_accept m_final.
