(* C12 - the safety invariant of the RwLock model, Owicki-Gries style: one assertion per control point
   of an actor (ainv), one per blocker (binv), one global (ginv); plus the tactics shared by the
   preservation proofs (adapted from notes/proto/mutex_coq, the skeleton RwLock's global lock shares). *)
From Coq Require Import List Arith ZArith Bool Lia.
Import ListNotations.
Require Import MayV.Sync.RwLockModel.

(* control points of lock() / unlock() *)
Definition lockpath (p : pc) : bool :=
  match p with T0 | T1 | L1 | L2 | H1 | H2 | H3 | H4 | U0 | PK | C1 | C2 | C3 | C4 => true | _ => false end.
(* the actor holds rlock *)
Definition hasrl (x : act) : bool :=
  match apc x with
  | RG | RUh | RUi | RUx => true
  | T0 | T1 | L1 | L2 | H1 | H2 | H3 | H4 | U0 | PK | C1 | C2 | C3 | C4 => is_read (aop x)
  | _ => false end.
(* registered waiter: its entry is (about to be) counted and it does not own the lock yet *)
Definition waiting (x : act) : bool :=
  match apc x with
  | L2 | PK | C1 | C2 => true
  | H1 | H2 | H3 | H4 | U0 => isRPark (actx x)
  | _ => false end.
(* cancelled waiter past the point where it may still take the lock itself *)
Definition halfgone (x : act) : bool := match apc x with C3 | C4 | Exit | RUx => true | _ => false end.

Definition opctx (x : act) : Prop :=
  (actx x = RDoneR -> is_read (aop x) = true) /\ (actx x = RDoneW -> is_read (aop x) = false).

Definition ainv (s : st) (a : nat) : Prop :=
  let x := A s a in
  ab x < nextb s /\ aw x < nextb s /\ (ab x = 0 \/ owner (Bk s (ab x)) = a) /\
  (hasrl x = true -> rl s = Some a) /\ (hasrl x = false -> rl s <> Some a) /\
  (rguard (apc x) = true -> In a (rdl s)) /\ (rguard (apc x) = false -> ~ In a (rdl s)) /\
  (lockpath (apc x) = true -> is_read (aop x) = true -> r s = 0%Z) /\
  (holder s = HA a -> In None (ent s) -> apc x = U0 /\ afor x = None) /\
  match apc x with
  | Exit | RUx => True
  | Idle | T0 | T1 | L1 => ~ In (Some a) (ent s)
  | RL => ~ In (Some a) (ent s) /\ is_read (aop x) = true
  | RUh | RUi | HoldR | DR0 => ~ In (Some a) (ent s) /\ is_read (aop x) = true
  | L2 => 1 <= ab x /\ ~ In (Some a) (ent s)
  | PK | C1 | C2 => In (Some a) (ent s) /\ 1 <= ab x
  | C3 => 1 <= ab x
  | C4 => 1 <= ab x /\ unp (Bk s (ab x)) = true
  | GW | HoldW | DWP => holder s = HA a /\ In (Some a) (ent s) /\ is_read (aop x) = false
  | RG => is_read (aop x) = true /\
          (r s = 0%Z -> holder s = HA a /\ In (Some a) (ent s)) /\ (r s <> 0%Z -> ~ In (Some a) (ent s))
  | H1 | H2 => holder s = HA a /\ (isRPark (actx x) = true -> In (Some a) (ent s) /\ 1 <= ab x) /\
               (isRPark (actx x) = false -> ~ In (Some a) (ent s)) /\ opctx x
  | H3 | H4 => unp (Bk s (aw x)) = true /\ (isRPark (actx x) = true -> In (Some a) (ent s) /\ 1 <= ab x) /\
               (isRPark (actx x) = false -> ~ In (Some a) (ent s)) /\ opctx x
  | U0 => holder s = HA a /\ In (afor x) (ent s) /\
          (isRPark (actx x) = true -> In (Some a) (ent s) /\ 1 <= ab x /\ afor x <> Some a) /\
          (isRPark (actx x) = false -> afor x <> Some a -> ~ In (Some a) (ent s)) /\
          (forall y, afor x = Some y -> y <> a ->
             halfgone (A s y) = true /\ 1 <= ab (A s y) /\ rel (Bk s (ab (A s y))) = false) /\
          (afor x = None -> actx x = RDoneR) /\ opctx x
  end.

Definition binv (s : st) (b : nat) : Prop :=
  let k := Bk s b in let o := A s (owner k) in
  (tok k = true -> unp k = true) /\
  (rel k = true -> ab o = b /\ 1 <= b /\ halfgone o = true /\ In (Some (owner k)) (ent s)) /\
  (unp k = true -> ab o = b ->
     (waiting o = true -> holder s = HB b) /\
     (halfgone o = true -> rel k = true -> holder s = HB b)) /\
  (nextb s <= b -> unp k = false /\ rel k = false /\ tok k = false).

Definition ginv (s : st) : Prop :=
  cnt s = length (ent s) /\ NoDup (ent s) /\ 1 <= nextb s /\ (forall b, In b (q s) -> b < nextb s) /\
  (holder s <> HNone -> ent s <> []) /\
  (holder s = HG -> rdl s <> [] /\ In None (ent s)) /\ (rdl s <> [] -> holder s = HG) /\
  (In None (ent s) -> match holder s with HG | HA _ => True | _ => False end) /\
  NoDup (rdl s) /\ r s = Z.of_nat (length (rdl s)) /\ (r s < Wd)%Z.

Record Inv (s : st) : Prop := { IA : forall a, ainv s a; IB : forall b, binv s b; IG : ginv s }.

Lemma upd_eq {X} (f : nat -> X) i v : upd f i v i = v.
Proof. unfold upd. now rewrite Nat.eqb_refl. Qed.
Lemma upd_neq {X} (f : nat -> X) i j v : j <> i -> upd f i v j = f j.
Proof. unfold upd. intros H. destruct (Nat.eqb_spec j i); congruence. Qed.

Lemma Wd_pos : (1 < Wd)%Z.
Proof. unfold Wd. lia. Qed.
Global Opaque Wd.

Lemma inv_init p : Inv (init p).
Proof.
  constructor.
  - intro a. unfold ainv; cbn. repeat split; auto; try lia; try discriminate; intros; try tauto; try discriminate.
  - intro b. unfold binv; cbn. repeat split; intros; try discriminate; auto.
  - unfold ginv; cbn. pose proof Wd_pos.
    repeat split; auto; try lia; try constructor; try congruence; try tauto.
Qed.

(* ---- list lemmas ---- *)
Lemma remove_len {X} (dec : forall x y : X, {x = y} + {x <> y}) (x : X) l :
  NoDup l -> In x l -> length (remove dec x l) = length l - 1.
Proof.
  induction l as [|y l IH]; cbn; intros N I; [tauto|].
  inversion N; subst. destruct (dec x y).
  - subst. rewrite notin_remove by assumption. lia.
  - destruct I as [->|I]; [congruence|]. cbn. rewrite IH by assumption.
    destruct l; [destruct I | cbn; lia].
Qed.
Lemma nodup_remove {X} (dec : forall x y : X, {x = y} + {x <> y}) (x : X) l : NoDup l -> NoDup (remove dec x l).
Proof.
  induction l as [|y l IH]; cbn; intros N; [constructor|]. inversion N; subst.
  destruct (dec x y); auto. constructor; auto. intro I. apply in_remove in I. tauto.
Qed.
Lemma in_remove_neq {X} (dec : forall x y : X, {x = y} + {x <> y}) (x y : X) l : In y l -> y <> x -> In y (remove dec x l).
Proof. intros. apply in_in_remove; auto. Qed.
Lemma notin_remove' {X} (dec : forall x y : X, {x = y} + {x <> y}) (x y : X) l : ~ In y l -> ~ In y (remove dec x l).
Proof. intros N I. apply in_remove in I. tauto. Qed.
Lemma notin_remove_self {X} (dec : forall x y : X, {x = y} + {x <> y}) (x : X) l : ~ In x (remove dec x l).
Proof. apply remove_In. Qed.
Lemma remove_nil_len {X} (dec : forall x y : X, {x = y} + {x <> y}) (x : X) l :
  NoDup l -> In x l -> length l <= 1 -> remove dec x l = [].
Proof.
  intros N I L. apply length_zero_iff_nil. rewrite remove_len by assumption. lia.
Qed.

(* ---- tactics ---- *)
Ltac inv_some :=
  match goal with H : Some _ = Some _ |- _ => inversion H; subst; clear H end.

Ltac step_cases H :=
  unfold RwLockModel.step in H;
  repeat match type of H with
  | context [match ?ac with Call _ _ => _ | Step _ => _ | Busy _ => _ | Abort _ => _ | Drop _ => _ | Panic _ => _ end] => destruct ac
  | context [match apc ?x with _ => _ end] => let E := fresh "Epc" in destruct (apc x) eqn:E
  | context [match aop ?x with _ => _ end] => let E := fresh "Eop" in destruct (aop x) eqn:E
  | context [match rl ?s with _ => _ end] => let E := fresh "Erl" in destruct (rl s) eqn:E
  | context [match q ?s with _ => _ end] => let E := fresh "Eq" in destruct (q s) eqn:E
  | context [if ?c then _ else _] => let E := fresh "Ec" in destruct c eqn:E
  end; try discriminate; inv_some.

Ltac num :=
  repeat match goal with
  | H : (?n =? 0) = true |- _ => apply Nat.eqb_eq in H
  | H : (?n =? 0) = false |- _ => apply Nat.eqb_neq in H
  | H : (1 <? ?n) = true |- _ => apply Nat.ltb_lt in H
  | H : (1 <? ?n) = false |- _ => apply Nat.ltb_ge in H
  | H : (?n =? ?m)%Z = true |- _ => apply Z.eqb_eq in H
  | H : (?n =? ?m)%Z = false |- _ => apply Z.eqb_neq in H
  | H : (_ || _)%bool = false |- _ => apply orb_false_iff in H; destruct H
  end.

Ltac upd_tac :=
  repeat match goal with
  | |- context [upd ?f ?i ?v ?j] =>
      first [ rewrite (upd_eq f i v) | rewrite (upd_neq f i j v) by congruence
            | let e := fresh "e" in let ne := fresh "ne" in
              destruct (Nat.eq_dec j i) as [e|ne];
              [ rewrite e; rewrite (upd_eq f i v) | rewrite (upd_neq f i j v ne) ] ]
  end.

Ltac brk := repeat match goal with
  | H : _ /\ _ |- _ => destruct H
  | H : ?a = ?a -> _ |- _ => specialize (H eq_refl)
  | H : ?P -> _, H' : ?P |- _ => match type of P with Prop => specialize (H H') end
  | H : true = false -> _ |- _ => clear H
  | H : false = true -> _ |- _ => clear H
  | E : actx ?x = _, H : context [actx ?x] |- _ => rewrite E in H; cbn in H
  | E : apc ?x = _, H : context [apc ?x] |- _ => rewrite E in H; cbn in H
  | E : aop ?x = _, H : context [aop ?x] |- _ => rewrite E in H; cbn in H
  | E : owner (Bk ?s ?b) = ?a, H : context [A ?s (owner (Bk ?s ?b))] |- _ => rewrite E in H; cbn in H
  | E : owner (Bk ?s ?b) = ?a, H : In (Some (owner (Bk ?s ?b))) _ |- _ => rewrite E in H
  | H : ?x = 0 \/ _, H' : 1 <= ?x |- _ => destruct H as [H|H]; [exfalso; lia|]
  end.

Ltac fin0 := try discriminate; try congruence; try tauto; try lia; auto;
  try solve [right; congruence]; try solve [left; congruence].
Ltac fin :=
  fin0;
  repeat match goal with |- _ /\ _ => split end; fin0;
  try solve [apply notin_remove'; fin0];
  try solve [apply in_remove_neq; fin0];
  try (match goal with e : _ = ?a |- ~ In ?a (remove _ _ _) => rewrite e; apply notin_remove_self end);
  try (match goal with |- ~ In ?a (remove _ ?a _) => apply notin_remove_self end).

Ltac a_facts Hi a :=
  let Ha := fresh "Ha" in
  pose proof (IA _ Hi a) as Ha; unfold ainv, hasrl, waiting, halfgone, opctx in Ha;
  match goal with E : apc (A _ a) = _ |- _ => rewrite E in Ha end;
  try match goal with E : actx (A _ a) = _ |- _ => rewrite E in Ha end;
  try match goal with E : aop (A _ a) = _ |- _ => rewrite E in Ha end;
  cbn in Ha; brk.
Ltac b_facts Hi b :=
  let Hb := fresh "Hb" in
  pose proof (IB _ Hi b) as Hb; unfold binv, waiting, halfgone in Hb; cbn in Hb; brk.
