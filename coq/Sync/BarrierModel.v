(* may::sync::Barrier (src/sync/barrier.rs) as a client program of CondvarModel: the barrier owns a private mutex
   (the abstract C05 mutex of CondvarModel, protecting `count` and `generation_id`) and a private Condvar.

     wait()   BIdle   --BArrive-->  lock.lock()                                  (cs: Lock a)
              BIn     local_gen = generation_id; count += 1; count < n ?        (data under the mutex, one transition)
                        yes: BLoop                      no: count = 0; generation_id += 1; cvar.notify_all()  -> BNotify
              BLoop   wait_while: local_gen == generation_id ?  yes: cvar.wait(guard) -> BWait   no: BExit
              BWait   inside Condvar::wait: the transitions of CondvarModel (Step / Resume / Choose of this actor);
                      when the call has returned -> BLoop; a cancelled coroutine dies there -> BGone
              BNotify inside Condvar::notify_all (Step of this actor); when it has returned -> BExitL
              BExit / BExitL   the guard is dropped (cs: Unlock a), BarrierWaitResult(false / true) is returned

   The accesses to count / generation_id of one critical section are folded into one transition; that this is sound is
   itself a theorem: the ghost flag `viol` is raised if such a transition ever executes while the actor does not hold
   the mutex, and it is proved never to be raised (it needs C11.ii: Condvar::wait returns holding the mutex).
   generation_id.wrapping_add(1) is modelled on unbounded numbers (2^64 generations are out of reach).
   The model parameter n (num_threads) is a Section variable.

   Ghost state: arr g (arrivals that joined generation g), ldr g (leader decisions of g), ret g (non-leader returns from g),
   lret g (leader returns from g),
   inl (actors inside wait() as non-leaders: registered for a generation, not yet returned). *)
From Coq Require Import List Arith ZArith Bool Lia.
Import ListNotations.
Require Import MayV.Sync.CondvarModel.

Inductive bpcT := BIdle | BIn | BLoop | BWait | BNotify | BExit | BExitL | BGone.

Record bst := { cs : st; cnt : nat; gen : nat; bpc : nat -> bpcT; lgen : nat -> nat; bco : nat -> bool;
                arr : nat -> nat; ldr : nat -> nat; ret : nat -> nat; lret : nat -> nat; inl : list nat; viol : bool }.

Inductive baction :=
  | BArrive (a : nat) (co : bool)       (* a thread (co = false) or coroutine calls Barrier::wait *)
  | BStep (a : nat)                      (* the barrier's own code *)
  | BInner (a : nat) (c : action)        (* a transition of the Condvar call in progress *)
  | BEnv (c : action).                   (* environment: Cancel / Tick *)

Definition bupd {X} (f : nat -> X) i v := fun j => if Nat.eqb j i then v else f j.
Definition holds (c : st) (a : nat) : bool := match mx c with Some h => Nat.eqb h a | None => false end.
Definition inner_ok (a : nat) (c : action) : bool :=
  match c with
  | Step x | Resume x | Choose x _ => Nat.eqb x a
  | _ => false end.
Definition env_ok (c : action) : bool := match c with Cancel _ | Tick _ => true | _ => false end.
Definition pc_idle (p : pc) : bool := match p with Idle => true | _ => false end.
Definition pc_dead (p : pc) : bool := match p with Dead => true | _ => false end.

Section Barrier.
Variable n : nat.

Definition set_cs (s : bst) c := {| cs := c; cnt := cnt s; gen := gen s; bpc := bpc s; lgen := lgen s; bco := bco s; arr := arr s; ldr := ldr s; ret := ret s; lret := lret s; inl := inl s; viol := viol s |}.
Definition set_bpc (s : bst) a p := {| cs := cs s; cnt := cnt s; gen := gen s; bpc := bupd (bpc s) a p; lgen := lgen s; bco := bco s; arr := arr s; ldr := ldr s; ret := ret s; lret := lret s; inl := inl s; viol := viol s |}.

Definition bstep (s : bst) (ac : baction) : option bst :=
  match ac with
  | BArrive a co =>
      match bpc s a with
      | BIdle => match step (cs s) (Lock a) with
                 | Some c => Some {| cs := c; cnt := cnt s; gen := gen s; bpc := bupd (bpc s) a BIn; lgen := lgen s; bco := bupd (bco s) a co;
                                     arr := arr s; ldr := ldr s; ret := ret s; lret := lret s; inl := inl s; viol := viol s |}
                 | None => None end
      | _ => None end
  | BStep a =>
      let v := viol s || negb (holds (cs s) a) in
      match bpc s a with
      | BIn => if Nat.ltb (S (cnt s)) n
               then Some {| cs := cs s; cnt := S (cnt s); gen := gen s; bpc := bupd (bpc s) a BLoop; lgen := bupd (lgen s) a (gen s); bco := bco s;
                            arr := bupd (arr s) (gen s) (S (arr s (gen s))); ldr := ldr s; ret := ret s; lret := lret s; inl := a :: inl s; viol := v |}
               else match step (cs s) (NotifyAll a) with
                    | Some c => Some {| cs := c; cnt := O; gen := S (gen s); bpc := bupd (bpc s) a BNotify; lgen := bupd (lgen s) a (gen s); bco := bco s;
                                        arr := bupd (arr s) (gen s) (S (arr s (gen s))); ldr := bupd (ldr s) (gen s) (S (ldr s (gen s))); ret := ret s; lret := lret s;
                                        inl := inl s; viol := v |}
                    | None => None end
      | BLoop => if Nat.eqb (lgen s a) (gen s)
                 then match step (cs s) (Wait a (bco s a) None) with
                      | Some c => Some {| cs := c; cnt := cnt s; gen := gen s; bpc := bupd (bpc s) a BWait; lgen := lgen s; bco := bco s;
                                          arr := arr s; ldr := ldr s; ret := ret s; lret := lret s; inl := inl s; viol := v |}
                      | None => None end
                 else Some {| cs := cs s; cnt := cnt s; gen := gen s; bpc := bupd (bpc s) a BExit; lgen := lgen s; bco := bco s;
                              arr := arr s; ldr := ldr s; ret := ret s; lret := lret s; inl := inl s; viol := v |}
      | BExit => match step (cs s) (Unlock a false) with
                 | Some c => Some {| cs := c; cnt := cnt s; gen := gen s; bpc := bupd (bpc s) a BIdle; lgen := lgen s; bco := bco s;
                                     arr := arr s; ldr := ldr s; ret := bupd (ret s) (lgen s a) (S (ret s (lgen s a))); lret := lret s; inl := rm a (inl s); viol := viol s |}
                 | None => None end
      | BExitL => match step (cs s) (Unlock a false) with
                  | Some c => Some {| cs := c; cnt := cnt s; gen := gen s; bpc := bupd (bpc s) a BIdle; lgen := lgen s; bco := bco s;
                                      arr := arr s; ldr := ldr s; ret := ret s; lret := bupd (lret s) (lgen s a) (S (lret s (lgen s a))); inl := inl s; viol := viol s |}
                  | None => None end
      | _ => None end
  | BInner a c =>
      if inner_ok a c
      then match bpc s a with
           | BWait => match step (cs s) c with
                      | Some c' => Some (set_bpc (set_cs s c') a (if pc_idle (apc (A c' a)) then BLoop else if pc_dead (apc (A c' a)) then BGone else BWait))
                      | None => None end
           | BNotify => match step (cs s) c with
                        | Some c' => Some (set_bpc (set_cs s c') a (if pc_idle (apc (A c' a)) then BExitL else BNotify))
                        | None => None end
           | _ => None end
      else None
  | BEnv c => if env_ok c then match step (cs s) c with Some c' => Some (set_cs s c') | None => None end else None
  end.

Definition binit : bst :=
  {| cs := init; cnt := O; gen := O; bpc := fun _ => BIdle; lgen := fun _ => O; bco := fun _ => false;
     arr := fun _ => O; ldr := fun _ => O; ret := fun _ => O; lret := fun _ => O; inl := []; viol := false |}.
Inductive BReach : bst -> Prop :=
| BR0 : BReach binit
| BRS s a s' : BReach s -> bstep s a = Some s' -> BReach s'.
Fixpoint brun (s : bst) (l : list baction) : option bst :=
  match l with [] => Some s | a :: l' => match bstep s a with Some s' => brun s' l' | None => None end end.
End Barrier.
