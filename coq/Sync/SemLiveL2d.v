(* Preservation of the overlay invariant of SemLive.v, clause L2 (flagged registered blockers are attached or held by their agent): the cases K2, K3
   (env = the actions other than Step).  Script in SemLiveTac.v; assembled in SemLiveC.v. *)
From Coq Require Import List Arith ZArith Bool Lia.
Import ListNotations.
Require Import MayV.Sync.SemModel MayV.Sync.SemInv MayV.Sync.SemTac MayV.Sync.SemCase MayV.Sync.SemLive MayV.Sync.SemLiveTac.
Open Scope Z_scope.

Lemma pres_L2_K2 s o a s' : Inv s -> LInv s o -> apc (A s a) = K2 -> step s (Step a) = Some s' -> L2 s' (lstep s o (Step a)).
Proof. intros Hi HL Epc H. l2_pre HL. lsetup_at Hi H Epc. all: l2_script Hi s o a P1 P2 P3. Qed.

Lemma pres_L2_K3 s o a s' : Inv s -> LInv s o -> apc (A s a) = K3 -> step s (Step a) = Some s' -> L2 s' (lstep s o (Step a)).
Proof. intros Hi HL Epc H. l2_pre HL. lsetup_at Hi H Epc. all: l2_script Hi s o a P1 P2 P3. Qed.
