(* Case analysis of SemModel.step by control point.  The preservation lemmas of SemInv.Inv and of the
   overlay invariants are proved per control point of the stepping actor, a few control points per file,
   so that the files build in parallel; the assembling lemma splits on the action and on `apc (A s a)`
   explicitly and applies one per-pc lemma in each case. *)
From Coq Require Import List Arith ZArith Bool Lia.
Import ListNotations.
Require Import MayV.Sync.SemModel MayV.Sync.SemInv MayV.Sync.SemTac.
Open Scope Z_scope.

Definition is_step (ac : action) : bool := match ac with Step _ => true | _ => false end.
Definition actor (ac : action) := match ac with Wait x _ | TryWait x | Post x | GetValue x | Step x | Fire x => x end.

(* step_cases for a Step whose control point is known, E : apc (A s a) = <pc>: only the branches
   of that control point are generated *)
Ltac step_at H E :=
  unfold step in H; cbv zeta in H; rewrite E in H; cbv beta iota in H; step_cases H.
(* step_cases for the actions other than Step; Hn : is_step ac = false *)
Ltac step_env H Hn ac :=
  destruct ac; cbn [is_step] in Hn; try discriminate Hn; step_cases H.

Lemma step_idle s a : apc (A s a) = Idle -> step s (Step a) = None.
Proof. intro E. unfold step. cbv zeta. rewrite E. reflexivity. Qed.
