(* preservation of InvM (abstract mutex, cancel bracket, park reasons) *)
From Coq Require Import List Arith ZArith Bool Lia.
Import ListNotations.
Require Import MayV.Sync.CondvarModel MayV.Sync.CondvarInv MayV.Sync.CondvarTac.
Open Scope Z_scope.

Lemma frame_A s ac s' a' : step s ac = Some s' -> actor_of ac <> Some a' -> A s' a' = A s a'.
Proof.
  intros H Hx. destruct ac; cbn [actor_of] in Hx; step_cases H; simp_st; try reflexivity.
  all: rewrite upd_neq by congruence; reflexivity.
Qed.

Lemma now_mono s ac s' : step s ac = Some s' -> now s <= now s'.
Proof. intros H. destruct ac; step_cases H; simp_st; num; lia. Qed.

Lemma due_mono dl t t' : t <= t' -> due dl t = true -> due dl t' = true.
Proof. destruct dl as [d|]; cbn; [|auto]. intros L H. apply Z.leb_le in H. apply Z.leb_le. lia. Qed.

Lemma pres_M_self s ac s' a : InvM s -> step s ac = Some s' -> actor_of ac = Some a -> minv s' a.
Proof.
  intros Hm H Hx. pose proof (now_mono _ _ _ H) as Hn.
  destruct ac; cbn [actor_of] in Hx; try discriminate; injection Hx as ->.
  all: step_cases H; m_facts Hm a.
  all: unfold minv, has_mx, in_wait, dis, post_park, post_choice; simp_st; upd_tac; simp_act; simp_st_in Hn.
  all: try (destruct (aco (A s a)) eqn:Eco); cbn [andb] in *; rewrite ?andb_false_r, ?andb_true_r in *.
  all: repeat split; intros; brk; numd.
  all: try solve [intuition (try discriminate; try congruence; auto; try lia)].
  all: try (eapply due_mono; eauto; fail).
Qed.

(* the mutex word changes only in three ways, and a release is always by the holder *)
Lemma mx_change s ac s' : InvM s -> step s ac = Some s' ->
  mx s' = mx s \/ (exists a, actor_of ac = Some a /\ ((mx s = None /\ mx s' = Some a) \/ (mx s = Some a /\ mx s' = None))).
Proof.
  intros Hm H. destruct ac; step_cases H; simp_st; auto; right; eexists; (split; [reflexivity|]); numd; subst; auto.
  all: match goal with E : apc (A _ ?a) = _ |- _ => m_facts Hm a end; auto.
Qed.

Lemma pres_M_other s ac s' a' : InvM s -> step s ac = Some s' -> actor_of ac <> Some a' -> minv s' a'.
Proof.
  intros Hm H Hx. pose proof (Hm a') as M. pose proof (frame_A _ _ _ a' H Hx) as FA.
  pose proof (now_mono _ _ _ H) as Hn. pose proof (mx_change _ _ _ Hm H) as Hc.
  unfold minv in *. cbn zeta in *. rewrite FA.
  destruct M as (M1 & M2 & M3 & M4 & M5 & M6 & M7 & M8). repeat split; auto.
  - intro Hh. specialize (M1 Hh). destruct Hc as [->|(a & Ea & [[E1 E2]|[E1 E2]])]; [exact M1 | congruence |].
    rewrite M1 in E1. injection E1 as ->. congruence.
  - intro R. eapply due_mono; [exact Hn|]. apply M3; assumption.
  - apply M3; assumption.
  - apply M3; assumption.
  - apply M6; assumption.
  - apply M6; assumption.
Qed.

Lemma invM_step s ac s' : InvM s -> step s ac = Some s' -> InvM s'.
Proof.
  intros Hm H a. destruct (actor_of ac) as [x|] eqn:E.
  - destruct (Nat.eq_dec x a) as [->|ne]; [eapply pres_M_self; eauto | eapply pres_M_other; eauto; congruence].
  - eapply pres_M_other; eauto. congruence.
Qed.

Lemma invM_reach s : Reach s -> InvM s.
Proof. intro R. induction R; [apply invM_init | eapply invM_step; eauto]. Qed.
