(* C11.iv: WaitGroup as a client of CondvarModel *)
From Coq Require Import List Arith ZArith Bool Lia.
Import ListNotations.
Require Import MayV.Sync.CondvarModel MayV.Sync.CondvarInv MayV.Sync.CondvarTac MayV.Sync.CondvarPresM MayV.Sync.CondvarThm
               MayV.Sync.BarrierModel MayV.Sync.BarrierThm MayV.Sync.WaitGroupModel.
Close Scope Z_scope.
Open Scope nat_scope.

Ltac wcases H :=
  unfold wstep in H;
  repeat match type of H with
  | context [match wpc ?s ?a with _ => _ end] => let E := fresh "Eb" in destruct (wpc s a) eqn:E
  | context [match step ?c ?x with _ => _ end] => let E := fresh "Es" in destruct (step c x) eqn:E
  | context [match wk ?s ?a with _ => _ end] => let E := fresh "Ek" in destruct (wk s a) eqn:E
  | context [if ?c then _ else _] => let E := fresh "Ec" in destruct c eqn:E
  end; try discriminate; inv_some.
Ltac wsimp := unfold w_data, w_call, w_pc, w_cs; cbn [wcs wcnt wpc wk wco hl wviol early].
Ltac wupd_tac :=
  repeat match goal with
  | |- context [bupd ?f ?i ?v ?j] =>
      first [ rewrite (bupd_eq f i v) | rewrite (bupd_neq f i j v) by congruence
            | let e := fresh "e" in let ne := fresh "ne" in
              destruct (Nat.eq_dec j i) as [e|ne];
              [ rewrite e; rewrite (bupd_eq f i v) | rewrite (bupd_neq f i j v ne) ] ]
  end.
Ltac wnum :=
  repeat match goal with
  | H : (_ <? _) = true |- _ => apply Nat.ltb_lt in H
  | H : (_ <? _) = false |- _ => apply Nat.ltb_ge in H
  | H : (_ =? _) = true |- _ => apply Nat.eqb_eq in H
  | H : (_ =? _) = false |- _ => apply Nat.eqb_neq in H
  end.
Ltac wfin := repeat match goal with e : ?v = _ |- _ => is_var v; subst v end; try match goal with E : hl _ = _ |- _ => rewrite E in * end; cbn [In] in *; try solve [intuition (auto; try discriminate; try congruence; try lia)].

Lemma wreach_reach s : WReach s -> Reach (wcs s).
Proof.
  intro R. induction R as [|s ac s' R IH H]; [constructor|].
  destruct ac; wcases H; wsimp; try assumption; eapply RS; eauto.
Qed.

Lemma has_in a l : has a l = true <-> In a l.
Proof.
  unfold has. rewrite existsb_exists. split.
  - intros [x [I E]]. apply Nat.eqb_eq in E. subst. exact I.
  - intro I. exists a. split; [exact I | apply Nat.eqb_refl].
Qed.
Lemma remove_one_len a l : In a l -> length (remove_one a l) = pred (length l).
Proof.
  induction l as [|x l IH]; cbn; [tauto|]. intros [->|I]; [rewrite Nat.eqb_refl; reflexivity|].
  destruct (Nat.eqb x a); [reflexivity|]. cbn. rewrite IH by assumption. destruct l; [destruct I | reflexivity].
Qed.
Lemma remove_one_in a b l : b <> a -> (In b (remove_one a l) <-> In b l).
Proof.
  intro ne. induction l as [|x l IH]; cbn; [tauto|]. destruct (Nat.eqb_spec x a); cbn; [subst; intuition congruence | rewrite IH; tauto].
Qed.

Lemma single_in (a : nat) (l : list nat) : length l = 1 -> In a l -> l = [a].
Proof. destruct l as [|h [|h2 t]]; cbn; try discriminate; intros _ [->|[]]; reflexivity. Qed.

(* the control points at which the handle being released / cloned from is still counted *)
Definition keeps (p : wpcT) : bool := match p with WC1 | WD1 | WW1 | WW2 | WD0 => true | _ => false end.
(* ... after which the caller has seen (or made) the count zero *)
Definition zero_seen (p : wpcT) (k : wcont) : bool :=
  match p, k with
  | WLx, _ | WRet, _ => true
  | WDN, KFast | WD2, KFast => true
  | _, _ => false end.
Definition fast_pending (p : wpcT) (k : wcont) : bool :=
  match p, k with WW2, KFast | WD0, KFast | WD1, KFast => true | _, _ => false end.
(* WD0 is only reached from wait (continuation KFast / KSlow), WRet only from the two ends of wait *)
Record WInvC (s : wst) : Prop := {
  V_cnt : wcnt s = length (hl s);
  V_keep : forall a, keeps (wpc s a) = true -> In a (hl s);
  V_fast : forall a, fast_pending (wpc s a) (wk s a) = true -> hl s = [a];
  V_zero : forall a, zero_seen (wpc s a) (wk s a) = true -> hl s = [];
  V_early : early s = false }.

Lemma winvc_init : WInvC winit.
Proof. constructor; cbn; intros; try discriminate; auto. Qed.

Lemma wc_cnt s ac s' : WInvC s -> wstep s ac = Some s' -> wcnt s' = length (hl s').
Proof.
  intros Hi H. pose proof (V_cnt _ Hi) as C.
  destruct ac; wcases H; wsimp; auto; cbn [length]; try lia.
  all: try (pose proof (V_keep _ Hi a) as K; rewrite Eb in K; specialize (K eq_refl)).
  all: try (rewrite has_in in *).
  all: rewrite ?remove_one_len by assumption; try lia.
  all: destruct (hl s); cbn in *; try tauto; lia.
Qed.

Ltac wstart s ac Hi H :=
  destruct ac; wcases H; wsimp; wnum; rewrite ?has_in in *.

Ltac afacts Hi a :=
  pose proof (V_keep _ Hi a) as Ka; pose proof (V_fast _ Hi a) as Fa; pose proof (V_zero _ Hi a) as Za;
  match goal with Eb : wpc _ a = _ |- _ => rewrite Eb in Ka, Fa, Za end; cbn [keeps zero_seen fast_pending] in Ka, Fa, Za.
Ltac xfacts Hi x :=
  pose proof (V_keep _ Hi x) as Kx; pose proof (V_fast _ Hi x) as Fx; pose proof (V_zero _ Hi x) as Zx.
Ltac ifs := repeat match goal with |- context [if ?c then _ else _] => destruct c | |- context [match wk ?s ?a with _ => _ end] => destruct (wk s a) end; cbn [keeps zero_seen fast_pending].

Lemma wc_keep s ac s' : WInvC s -> wstep s ac = Some s' -> forall x, keeps (wpc s' x) = true -> In x (hl s').
Proof.
  intros Hi H. wstart s ac Hi H; try exact (V_keep _ Hi).
  all: intros x; xfacts Hi x; afacts Hi a.
  all: wupd_tac; cbn [keeps In]; wfin.
  all: try (destruct (Nat.eq_dec x a) as [->|nxa]; [rewrite Eb in *; cbn [keeps] in *; wfin | rewrite remove_one_in by assumption; wfin]).
  all: ifs; wfin.
Qed.

Lemma wc_fast s ac s' : WInvC s -> wstep s ac = Some s' -> forall x, fast_pending (wpc s' x) (wk s' x) = true -> hl s' = [x].
Proof.
  intros Hi H. pose proof (V_cnt _ Hi) as C. wstart s ac Hi H; try exact (V_fast _ Hi).
  all: intros x; xfacts Hi x; afacts Hi a.
  all: wupd_tac; cbn [fast_pending]; wfin.
  all: try (destruct (Nat.eq_dec x a) as [->|nxa]; [rewrite Eb in *; cbn [fast_pending] in *; wfin | ]).
  all: ifs; wfin.
  all: try (intro Fp; specialize (Fx Fp); wfin).
  all: try (intros _; apply single_in; [congruence | tauto]).
Qed.

Lemma wc_zero s ac s' : WInvC s -> wstep s ac = Some s' -> forall x, zero_seen (wpc s' x) (wk s' x) = true -> hl s' = [].
Proof.
  intros Hi H. pose proof (V_cnt _ Hi) as C. wstart s ac Hi H; try exact (V_zero _ Hi).
  all: intros x; xfacts Hi x; afacts Hi a.
  all: wupd_tac; cbn [zero_seen]; wfin.
  all: try (destruct (Nat.eq_dec x a) as [->|nxa]; [rewrite Eb in *; cbn [zero_seen] in *; wfin | ]).
  all: ifs; wfin.
  all: try (intro Fp; specialize (Zx Fp); wfin).
  all: try (intros _; rewrite (Fa eq_refl); cbn; rewrite Nat.eqb_refl; reflexivity).
  all: try (intros _; destruct (hl s); [reflexivity | cbn in *; lia]).
  all: try (intros _; apply Za; rewrite Ek; reflexivity).
Qed.

Lemma wc_early s ac s' : WInvC s -> wstep s ac = Some s' -> early s' = false.
Proof.
  intros Hi H. pose proof (V_early _ Hi) as E. wstart s ac Hi H; try exact E.
  all: rewrite E; cbn; try reflexivity.
  all: afacts Hi a; specialize (Za eq_refl); congruence.
Qed.

Lemma winvc_step s ac s' : WInvC s -> wstep s ac = Some s' -> WInvC s'.
Proof.
  intros Hi H. constructor.
  - eapply wc_cnt; eauto.
  - eapply wc_keep; eauto.
  - eapply wc_fast; eauto.
  - eapply wc_zero; eauto.
  - eapply wc_early; eauto.
Qed.
Lemma winvc_reach s : WReach s -> WInvC s.
Proof. intro R. induction R; [apply winvc_init | eapply winvc_step; eauto]. Qed.

(* ---------------------------------------------------------------------------------------- the count is accessed under the mutex *)
(* which of the Barrier's holding classes (BarrierThm.jcl) a control point of the wait group belongs to *)
Definition wkind (p : wpcT) : bpcT :=
  match p with
  | WIdle | WD0 | WL0 | WRet => BIdle          (* outside: idle in the Condvar model, not holding the mutex *)
  | WC1 | WC2 | WD1 | WD2 | WW1 | WW2 | WL | WLx => BIn   (* idle in the Condvar model, holding the mutex *)
  | WDN => BNotify
  | WLw => BWait
  | WGone => BGone
  end.
Record WInvJ (s : wst) : Prop := { WJ_a : forall a, jcl (wkind (wpc s a)) (wcs s) a; WJ_v : wviol s = false }.

Lemma winvj_init : WInvJ winit.
Proof. constructor; cbn; auto. intro a. split; [reflexivity | discriminate]. Qed.

Lemma winvj_step s ac s' : WReach s -> WInvJ s -> wstep s ac = Some s' -> WInvJ s'.
Proof.
  intros R [Ja Jv] H. pose proof (invM_reach _ (wreach_reach _ R)) as Hm.
  destruct ac; wcases H; constructor; wsimp; auto.
  all: try (intro a'; pose proof (Ja a') as Ja'; pose proof (Ja a) as Jaa; rewrite Eb in Jaa; cbn [jcl wkind] in Jaa; wupd_tac; cbn [wkind]).
  (* the other actors *)
  all: try match goal with ne : _ <> _ |- jcl _ (wcs _) _ => exact Ja' end.
  all: try match goal with ne : _ <> _, Es : step _ ?x = Some _, Ok : inner_ok _ ?x = true |- jcl _ _ _ =>
         eapply jcl_other; [exact Hm | exact Es | rewrite (inner_actor _ _ Ok); congruence | exact Ja'] end.
  all: try match goal with ne : _ <> _, Es : step _ _ = Some _ |- jcl _ _ _ =>
         eapply jcl_other; [exact Hm | exact Es | cbn; congruence | exact Ja'] end.
  all: try match goal with Ok : env_ok _ = true |- forall a, jcl _ _ _ => intro a'; eapply env_actor; eauto end.
  (* the ghost flag *)
  all: try match goal with |- (_ || negb (holds _ _))%bool = false => pose proof (Ja a) as Jaa; rewrite Eb in Jaa; destruct Jaa as [_ M]; unfold holds; rewrite Jv, M, Nat.eqb_refl; reflexivity end.
  (* the stepping actor *)
  all: try match goal with e : _ = _ |- jcl _ (wcs _) _ => exact Jaa end.
  all: try (match goal with Es : step _ (Lock _) = _ |- _ => idtac | Es : step _ (Unlock _ _) = _ |- _ => idtac
                          | Es : step _ (Wait _ _ _) = _ |- _ => idtac | Es : step _ (NotifyAll _) = _ |- _ => idtac end;
            destruct Jaa as [P M]; unfold step in Es; rewrite P in Es; try rewrite M in Es; try rewrite Nat.eqb_refl in Es;
            try (destruct (mx (wcs s)) eqn:Em; try discriminate); inversion Es; subst; unfold jcl, in_wait; simp_st; upd_tac; simp_act;
            repeat split; auto; try discriminate; try congruence; fail).
  all: try (match goal with Ok : inner_ok _ _ = true, Es : step _ _ = Some _ |- _ =>
              destruct (inner_wait _ _ _ _ Hm Jaa Ok Es) as [[P M]|[P|[W [N1 N2]]]] end;
            unfold jcl; try rewrite P in *; cbn [pc_idle pc_dead wkind] in *; try discriminate; auto;
            destruct (apc (A s0 a)); cbn [pc_idle pc_dead wkind] in *; try discriminate; congruence).
  all: try (match goal with Ok : inner_ok _ _ = true, Es : step _ _ = Some _ |- _ =>
              destruct (inner_notify _ _ _ _ (proj1 Jaa) Ok Es) as [P M] end;
            unfold jcl; rewrite M; destruct Jaa as [_ Jm]; split; [|exact Jm];
            destruct (apc (A s0 a)); cbn [pc_idle pc_dead wkind] in *; try discriminate; intuition congruence).
Qed.
Lemma winvj_reach s : WReach s -> WInvJ s.
Proof. intro R. induction R; [apply winvj_init | eapply winvj_step; eauto]. Qed.

(* ---------------------------------------------------------------------------------------- C11.iv *)

(* `count` is the number of live handles (clones not yet dropped / waited on) *)
Theorem wg_count_is_live_handles s : WReach s -> wcnt s = length (hl s).
Proof. intro R. apply (V_cnt _ (winvc_reach _ R)). Qed.
(* wait() returns only when every handle has been dropped: at its return point no handle is alive and count = 0 *)
Theorem wg_wait_returns_only_when_all_dropped s a : WReach s -> wpc s a = WRet -> hl s = [] /\ wcnt s = 0.
Proof.
  intros R E. pose proof (winvc_reach _ R) as C. assert (Z : hl s = []) by (apply (V_zero _ C a); rewrite E; reflexivity).
  split; [exact Z | rewrite (V_cnt _ C), Z; reflexivity].
Qed.
Theorem wg_never_returns_early s : WReach s -> early s = false.
Proof. intro R. apply (V_early _ (winvc_reach _ R)). Qed.
(* the fast path (`count == 1`) is taken only by the holder of the last handle, and the count cannot change before its drop *)
Theorem wg_fast_path_is_last_handle s a : WReach s -> fast_pending (wpc s a) (wk s a) = true -> hl s = [a].
Proof. intros R E. apply (V_fast _ (winvc_reach _ R)). exact E. Qed.
(* zero is final: with no live handle nobody can clone, drop, wait or hand over a handle, so the count never rises again *)
Theorem wg_zero_is_final s a : hl s = [] ->
  wstep s (WClone a) = None /\ wstep s (WDrop a) = None /\ (forall co, wstep s (WWait a co) = None) /\ (forall a', wstep s (WGive a a') = None).
Proof. intro Z. unfold wstep. rewrite Z. cbn. destruct (wpc s a); auto. Qed.
(* count is only touched by the holder of the mutex *)
Theorem wg_race_free s : WReach s -> wviol s = false.
Proof. intro R. apply (WJ_v _ (winvj_reach _ R)). Qed.
Theorem wg_code_holds_mutex s a : WReach s -> wkind (wpc s a) = BIn -> mx (wcs s) = Some a.
Proof. intros R H. pose proof (WJ_a _ (winvj_reach _ R) a) as J. rewrite H in J. apply J. Qed.

(* non-vacuity: the creator (actor 0) clones a handle for actor 1 and waits; actor 1 drops its handle; the wait returns *)
Lemma wreach_wrun l : forall s s', WReach s -> wrun s l = Some s' -> WReach s'.
Proof.
  induction l as [|a l IH]; cbn [wrun]; intros s s' R H; [inversion H; subst; exact R|].
  destruct (wstep s a) eqn:E; [|discriminate]. eapply IH; [eapply WRS; eauto | exact H].
Qed.
Definition wsched : list waction :=
  [WClone 0; WStep 0; WStep 0; WGive 0 1] ++
  (* actor 0: wait(): count = 2: slow path: drop self, lock, count = 1 > 0: cvar.wait *)
  [WWait 0 false; WStep 0; WStep 0; WStep 0; WStep 0; WStep 0; WStep 0; WStep 0] ++ repeat (WInner 0 (Step 0)) 4 ++
  (* actor 1 drops the last handle: count = 0: notify_all *)
  [WDrop 1; WStep 1] ++ repeat (WInner 1 (Step 1)) 4 ++ [WStep 1] ++
  (* actor 0 wakes up, re-acquires the mutex, sees count = 0, returns *)
  [WInner 0 (Resume 0); WInner 0 (Step 0); WInner 0 (Choose 0 false); WInner 0 (Step 0); WInner 0 (Step 0); WStep 0; WStep 0].
Example wg_wait_returns_somewhere : exists s, wrun winit wsched = Some s /\ WReach s /\
  wpc s 0 = WRet /\ hl s = [] /\ wcnt s = 0 /\ wviol s = false /\ early s = false /\ mx (wcs s) = None /\ wpc s 1 = WIdle.
Proof.
  destruct (wrun winit wsched) as [s|] eqn:E; [|vm_compute in E; discriminate].
  exists s. split; [reflexivity|]. split; [eapply wreach_wrun; [constructor | exact E]|].
  vm_compute in E. inversion E; subst; clear E. cbn. repeat split; reflexivity.
Qed.
