(* Preservation of the overlay invariant of SemLive.v, clause L5 (a delivered token is seen by the owner): the cases E4, P0, K1, K2, K3, K4, Y0, Y0c, G0
   (env = the actions other than Step).  Script in SemLiveTac.v; assembled in SemLiveD.v. *)
From Coq Require Import List Arith ZArith Bool Lia.
Import ListNotations.
Require Import MayV.Sync.SemModel MayV.Sync.SemInv MayV.Sync.SemTac MayV.Sync.SemCase MayV.Sync.SemLive MayV.Sync.SemLiveTac.
Open Scope Z_scope.

Lemma pres_L5_E4 s o a s' : Inv s -> LInv s o -> apc (A s a) = E4 -> step s (Step a) = Some s' -> L5 s' (lstep s o (Step a)).
Proof. intros Hi HL Epc H. l5_pre HL. lsetup_at Hi H Epc. all: l5_script Hi s a P5 P6 P7. Qed.

Lemma pres_L5_P0 s o a s' : Inv s -> LInv s o -> apc (A s a) = P0 -> step s (Step a) = Some s' -> L5 s' (lstep s o (Step a)).
Proof. intros Hi HL Epc H. l5_pre HL. lsetup_at Hi H Epc. all: l5_script Hi s a P5 P6 P7. Qed.

Lemma pres_L5_K1 s o a s' : Inv s -> LInv s o -> apc (A s a) = K1 -> step s (Step a) = Some s' -> L5 s' (lstep s o (Step a)).
Proof. intros Hi HL Epc H. l5_pre HL. lsetup_at Hi H Epc. all: l5_script Hi s a P5 P6 P7. Qed.

Lemma pres_L5_K2 s o a s' : Inv s -> LInv s o -> apc (A s a) = K2 -> step s (Step a) = Some s' -> L5 s' (lstep s o (Step a)).
Proof. intros Hi HL Epc H. l5_pre HL. lsetup_at Hi H Epc. all: l5_script Hi s a P5 P6 P7. Qed.

Lemma pres_L5_K3 s o a s' : Inv s -> LInv s o -> apc (A s a) = K3 -> step s (Step a) = Some s' -> L5 s' (lstep s o (Step a)).
Proof. intros Hi HL Epc H. l5_pre HL. lsetup_at Hi H Epc. all: l5_script Hi s a P5 P6 P7. Qed.

Lemma pres_L5_K4 s o a s' : Inv s -> LInv s o -> apc (A s a) = K4 -> step s (Step a) = Some s' -> L5 s' (lstep s o (Step a)).
Proof. intros Hi HL Epc H. l5_pre HL. lsetup_at Hi H Epc. all: l5_script Hi s a P5 P6 P7. Qed.

Lemma pres_L5_Y0 s o a s' : Inv s -> LInv s o -> apc (A s a) = Y0 -> step s (Step a) = Some s' -> L5 s' (lstep s o (Step a)).
Proof. intros Hi HL Epc H. l5_pre HL. lsetup_at Hi H Epc. all: l5_script Hi s a P5 P6 P7. Qed.

Lemma pres_L5_Y0c s o a s' : Inv s -> LInv s o -> apc (A s a) = Y0c -> step s (Step a) = Some s' -> L5 s' (lstep s o (Step a)).
Proof. intros Hi HL Epc H. l5_pre HL. lsetup_at Hi H Epc. all: l5_script Hi s a P5 P6 P7. Qed.

Lemma pres_L5_G0 s o a s' : Inv s -> LInv s o -> apc (A s a) = G0 -> step s (Step a) = Some s' -> L5 s' (lstep s o (Step a)).
Proof. intros Hi HL Epc H. l5_pre HL. lsetup_at Hi H Epc. all: l5_script Hi s a P5 P6 P7. Qed.
