(* C05 (iii), remaining clause: the waiter queue is never popped empty (the `expect("got null blocker!")`
   of Mutex::lock / Mutex::unlock is unreachable).  Third invariant, on top of Inv (safety) and Inv2 (progress):
     R1  a registered waiter whose blocker is not yet flagged is still in the queue, or in the hands of the
         owner of the lock that has just popped it (H2)
     R2  a cancelled waiter that has left (C3, C4, Exit) and is still counted in `cnt` has its `release`
         flag set, or the owner of the lock is unlocking on its behalf right now (U0 with afor = it)
   From these: whenever an actor is about to pop (H1) every counted actor is a registered, unflagged waiter,
   and there is at least one (cnt >= 1 while the lock is owned), so the queue is not empty. *)
From Coq Require Import List Arith Bool Lia.
Import ListNotations.
Require Import MayV.Sync.MutexModel MayV.Sync.MutexInv MayV.Sync.MutexPresA MayV.Sync.MutexME MayV.Sync.MutexLiveInv MayV.Sync.MutexLive7.

Definition fwd (s : st) (x : nat) : Prop :=
  match holder s with HA h => apc (A s h) = U0 /\ afor (A s h) = x | _ => False end.

Definition popped (s : st) (b : nat) : Prop :=
  match holder s with HA y => apc (A s y) = H2 /\ aw (A s y) = b | _ => False end.

Definition regw (s : st) (x : nat) : Prop :=
  1 <= ab (A s x) /\ (waiting (A s x) = true \/ (halfgone (A s x) = true /\ rel (Bk s (ab (A s x))) = true)).

Record Inv3 (s : st) : Prop := {
  R1 : forall x, regw s x -> unp (Bk s (ab (A s x))) = false -> In (ab (A s x)) (q s) \/ popped s (ab (A s x));
  R2 : forall x, halfgone (A s x) = true -> In x (ent s) -> rel (Bk s (ab (A s x))) = true \/ fwd s x
}.

Section S.
Variable isco : nat -> bool.
Notation step := (step isco).

Lemma pres3_R2_other s ac s' x : Inv s -> Inv2 s -> Inv3 s -> step s ac = Some s' -> x <> actor_of ac ->
  halfgone (A s' x) = true -> In x (ent s') -> rel (Bk s' (ab (A s' x))) = true \/ fwd s' x.
Proof.
  intros Hi Hj Hk H Hne. destruct (IG _ Hi) as (G1 & G2 & G3 & G4 & G5 & G6).
  pose proof (R2 _ Hk x) as Hr. unfold fwd, halfgone in Hr.
  step_cases H; cbn [actor_of] in Hne; unfold fwd, set_pc, fresh, halfgone; cbn; rewrite ?(upd_neq (A s) a x) by auto; intros Hhg Hin; num.
  all: try (assert (E0 : ent s = []) by (apply length_zero_iff_nil; lia); rewrite E0 in *; cbn in Hin).
  all: try (apply in_remove in Hin; destruct Hin as [Hin Hnf]).
  all: try (destruct Hin as [<-|Hin]).
  all: try solve [destruct Hin]; try congruence.
  all: specialize (Hr Hhg Hin).
  all: try assumption.
  all: try solve [destruct Hr as [Hr|Hr]; [left; upd_tac; cbn; try assumption; try congruence | right; destruct (holder s) as [|h|hb] eqn:Eh; try (destruct Hr; fail); upd_tac; cbn in *; try rewrite Epc in *; try assumption; try (destruct Hr; congruence)]].
  all: try a_facts Hi a.
  all: pose proof (IA _ Hi x) as Hx; unfold ainv in Hx; destruct Hx as (Hx1 & Hx2 & Hx3 & Hx4).
  all: destruct (apc (A s x)) eqn:Epx; try discriminate Hhg; cbn in Hx4.
  all: try (b_facts Hi (ab (A s a))); try (b_facts Hi (aw (A s a))).
  all: try (b_facts Hi (ab (A s x))).
  all: try solve [exfalso; fin0].
  all: try solve [right; split; [reflexivity | congruence]].
  all: try solve [destruct Hr as [Hr|Hr]; [left; upd_tac; cbn; fin0 | right; destruct (holder s) as [|h|hb] eqn:Eh; try (destruct Hr; fail); upd_tac; cbn in *; try rewrite Epc in *; brk; fin0]].
  all: upd_tac; cbn in *.
  all: try (destruct Hx3 as [Hx3|Hx3]; [exfalso; lia|]).
  all: try solve [right; split; [reflexivity | congruence]].
  all: try solve [exfalso; fin0].
  all: try solve [destruct Hr as [Hr|Hr]; [left; exact Hr | exfalso; repeat match goal with E : holder _ = _ |- _ => rewrite E in Hr end; exact Hr]].
  all: try solve [destruct Hr as [Hr|Hr]; [left; exact Hr | right; destruct (holder s) as [|h|hb] eqn:Eh; try (destruct Hr; fail); upd_tac; cbn in *; brk; fin]].
Qed.

Lemma pres3_R2_self s ac s' : Inv s -> Inv2 s -> Inv3 s -> step s ac = Some s' ->
  halfgone (A s' (actor_of ac)) = true -> In (actor_of ac) (ent s') ->
  rel (Bk s' (ab (A s' (actor_of ac)))) = true \/ fwd s' (actor_of ac).
Proof.
  intros Hi Hj Hk H. destruct (IG _ Hi) as (G1 & G2 & G3 & G4 & G5 & G6).
  pose proof (R2 _ Hk (actor_of ac)) as Hr. unfold fwd, halfgone in Hr.
  step_cases H; cbn [actor_of] in *; unfold fwd, set_pc, fresh, halfgone; cbn; rewrite ?upd_eq; cbn; try destruct (actx (A s a)) eqn:Ectx; cbn; intros Hhg Hin; try discriminate Hhg; num.
  all: try (rewrite Epc in Hr; cbn in Hr).
  all: try (apply in_remove in Hin; destruct Hin as [Hin Hnf]).
  all: try (left; reflexivity).
  all: try a_facts Hi a.
  all: try solve [exfalso; fin0].
  all: try specialize (Hr eq_refl); try specialize (Hr Hhg); try specialize (Hr Hin).
  all: try solve [destruct Hr as [Hr|Hr]; [left; upd_tac; cbn; fin0 | right; destruct (holder s) as [|h|hb] eqn:Eh; try (destruct Hr; fail); upd_tac; cbn in *; brk; fin]].
  all: try solve [exfalso; intuition congruence].
Qed.

Lemma pres3_R1_other s ac s' x : Inv s -> Inv2 s -> Inv3 s -> step s ac = Some s' -> x <> actor_of ac ->
  regw s' x -> unp (Bk s' (ab (A s' x))) = false -> In (ab (A s' x)) (q s') \/ popped s' (ab (A s' x)).
Proof.
  intros Hi Hj Hk H Hne. destruct (IG _ Hi) as (G1 & G2 & G3 & G4 & G5 & G6).
  pose proof (R1 _ Hk x) as Hr. unfold regw, popped in Hr.
  pose proof (IA _ Hi x) as Hx; unfold ainv in Hx; destruct Hx as (Hx1 & Hx2 & Hx3 & _).
  step_cases H; cbn [actor_of] in Hne; unfold regw, popped, set_pc, fresh; cbn; rewrite ?(upd_neq (A s) a x) by auto; intros (Hge & Hw); unfold waiting, halfgone; cbn; rewrite ?(upd_neq (A s) a x) by auto; revert Hw; upd_tac; cbn; intros Hw Hu.
  all: destruct Hx3 as [Hx3|Hx3]; [exfalso; lia|].
  all: try solve [apply Hr; [split; assumption | assumption]].
  all: try a_facts Hi a.
  all: try (b_facts Hi (ab (A s a))); try (b_facts Hi (aw (A s a))).
  all: try solve [exfalso; fin0].
  all: try (assert (Hr' := Hr (conj Hge Hw) Hu); clear Hr).
  all: try solve [destruct Hr' as [Hr'|Hr']; [left; fin0; try (apply in_or_app; left; assumption) | right; destruct (holder s) as [|h|hb] eqn:Eh; try (destruct Hr'; fail); upd_tac; cbn in *; brk; fin]].
  all: num.
  all: try solve [destruct Hr' as [Hr'|Hr']; [left; assumption | exfalso; destruct (holder s) eqn:Eh; try contradiction; apply G5; [congruence | apply length_zero_iff_nil; lia]]].
  all: try solve [match goal with E : holder _ = HA _ |- _ => rewrite E in * end; rewrite ?upd_eq; cbn;
                  destruct Hr' as [[Hr'|Hr']|Hr']; [right; split; [reflexivity|assumption] | left; assumption | exfalso; destruct Hr'; congruence]].
Qed.

Lemma pres3_R1_self s ac s' : Inv s -> Inv2 s -> Inv3 s -> step s ac = Some s' ->
  regw s' (actor_of ac) -> unp (Bk s' (ab (A s' (actor_of ac)))) = false ->
  In (ab (A s' (actor_of ac))) (q s') \/ popped s' (ab (A s' (actor_of ac))).
Proof.
  intros Hi Hj Hk H. destruct (IG _ Hi) as (G1 & G2 & G3 & G4 & G5 & G6).
  pose proof (R1 _ Hk (actor_of ac)) as Hr. unfold regw, popped, waiting, halfgone in Hr.
  step_cases H; cbn [actor_of] in *; unfold regw, popped, waiting, halfgone, set_pc, fresh; cbn; rewrite ?upd_eq; cbn;
    try destruct (actx (A s a)) eqn:Ectx; cbn; rewrite ?upd_eq; cbn; intros (Hge & Hw) Hu; revert Hw Hu; upd_tac; cbn; intros Hw Hu; try discriminate Hu.
  all: try solve [destruct Hw as [Hw|[Hw _]]; discriminate].
  all: try (rewrite Epc in Hr; cbn in Hr); try (rewrite Ectx in Hr; cbn in Hr).
  all: try solve [left; apply in_or_app; right; left; reflexivity].
  all: try a_facts Hi a.
  all: try (b_facts Hi (ab (A s a))); try (b_facts Hi (aw (A s a))).
  all: try solve [exfalso; fin0].
  all: try (match type of Hr with ?PA -> _ => let PP := fresh "PP" in assert (PP : PA) by (split; [assumption | first [left; reflexivity | tauto]]); specialize (Hr PP Hu); clear PP; rename Hr into Hr' end).
  all: try assumption.
  all: try solve [destruct Hr' as [Hr'|Hr']; [left; assumption | right; destruct (holder s) as [|h|hb] eqn:Eh; try (destruct Hr'; fail); upd_tac; cbn in *; brk; fin]].
  all: num.
  all: try solve [destruct Hr' as [Hr'|Hr']; [left; assumption | exfalso; destruct (holder s) eqn:Eh; try contradiction; apply G5; [congruence | apply length_zero_iff_nil; lia]]].
  all: try solve [match goal with E : holder _ = HA _ |- _ => rewrite E in * end; rewrite ?upd_eq; cbn;
                  destruct Hr' as [[Hr'|Hr']|Hr']; [right; split; [reflexivity|assumption] | left; assumption | exfalso; destruct Hr'; congruence]].
  all: try solve [destruct Hr' as [Hr'|Hr']; [left; assumption | exfalso; repeat match goal with E : holder _ = _ |- _ => rewrite E in Hr' end; destruct Hr'; congruence]].
Qed.

Lemma inv3_init : Inv3 init.
Proof.
  constructor; unfold regw, popped, fwd, init; cbn.
  - intros x (H1 & _). lia.
  - intros x H. discriminate.
Qed.

Lemma inv3_step s ac s' : Inv s -> Inv2 s -> Inv3 s -> step s ac = Some s' -> Inv3 s'.
Proof.
  intros Hi Hj Hk H. constructor; intro x; destruct (Nat.eq_dec x (actor_of ac)) as [->|ne].
  - eapply pres3_R1_self; eauto.
  - eapply pres3_R1_other; eauto.
  - eapply pres3_R2_self; eauto.
  - eapply pres3_R2_other; eauto.
Qed.

Notation Reach := (Reach isco).
Theorem inv123_reach s : Reach s -> Inv s /\ Inv2 s /\ Inv3 s.
Proof.
  induction 1 as [|s a s' R (Hi & Hj & Hk) H].
  - split; [apply inv_init | split; [apply inv2_init | apply inv3_init]].
  - split; [eapply inv_step; eauto | split; [eapply inv2_step; eauto | eapply inv3_step; eauto]].
Qed.

(* every counted actor is a registered waiter whenever the owner of the lock is about to pop *)
Lemma counted_is_registered s h x : Inv s -> Inv3 s -> apc (A s h) = H1 -> In x (ent s) -> regw s x.
Proof.
  intros Hi Hk Hh Hin.
  pose proof (IA _ Hi h) as Ih. unfold ainv in Ih. rewrite Hh in Ih. destruct Ih as (_ & _ & _ & Hhold & _).
  pose proof (IA _ Hi x) as Ix. unfold ainv in Ix. destruct Ix as (_ & _ & Hown & Ix).
  pose proof (R2 _ Hk x) as H2x. unfold fwd, halfgone in H2x. rewrite Hhold in H2x.
  unfold regw, waiting, halfgone.
  destruct (apc (A s x)) eqn:Ex; cbn in *;
    try (exfalso; tauto);
    try (destruct (actx (A s x)); cbn in *; intuition (try congruence; try lia); fail);
    try (intuition (try congruence; try lia); fail).
  all: try (destruct (H2x eq_refl Hin) as [Hrel|[Hu0 _]]; [|congruence];
            pose proof (IB _ Hi (ab (A s x))) as Hb; unfold binv in Hb; destruct Hb as (_ & _ & B3 & _);
            destruct (B3 Hrel) as (_ & Hge & _); split; [exact Hge | right; split; [reflexivity | exact Hrel]]).
Qed.

(* C05 (iii), last clause: `to_wake.pop()` in Mutex::lock / Mutex::unlock never finds the queue empty *)
Theorem pop_never_empty s h : Reach s -> apc (A s h) = H1 -> q s <> [].
Proof.
  intros R Hh. destruct (inv123_reach s R) as (Hi & Hj & Hk).
  destruct (IG _ Hi) as (G1 & G2 & G3 & G4 & G5 & G6).
  pose proof (IA _ Hi h) as Ih. unfold ainv in Ih. rewrite Hh in Ih. destruct Ih as (_ & _ & _ & Hhold & _).
  assert (Hne : ent s <> []) by (apply G5; congruence).
  destruct (ent s) as [|x l] eqn:Ee; [congruence|].
  assert (Hin : In x (ent s)) by (rewrite Ee; left; reflexivity).
  pose proof (counted_is_registered s h x Hi Hk Hh Hin) as Hreg.
  pose proof (IA _ Hi x) as Ix. unfold ainv in Ix. destruct Ix as (_ & _ & Hown & _).
  destruct Hreg as (Hge & Hw). destruct Hown as [Hown|Hown]; [lia|].
  assert (Hu : unp (Bk s (ab (A s x))) = false).
  { destruct (unp (Bk s (ab (A s x)))) eqn:Eu; [exfalso|reflexivity].
    pose proof (IB _ Hi (ab (A s x))) as Hb. unfold binv in Hb. destruct Hb as (_ & _ & _ & B4 & _).
    rewrite Hown in B4. destruct (B4 Eu eq_refl) as (Bw & Bh).
    destruct Hw as [Hw|[Hw Hr]]; [specialize (Bw Hw) | specialize (Bh Hw Hr)]; congruence. }
  destruct (R1 _ Hk x (conj Hge Hw) Hu) as [Hq|Hp].
  - intro E. rewrite E in Hq. destruct Hq.
  - unfold popped in Hp. rewrite Hhold in Hp. destruct Hp as (Hp & _). congruence.
Qed.

(* hence the step of an actor at H1 is always enabled *)
Lemma enabled_H1 s h : Reach s -> apc (A s h) = H1 -> step s (Step h) <> None.
Proof.
  intros R Hh. pose proof (pop_never_empty s h R Hh) as Hq.
  unfold MutexModel.step. rewrite Hh. destruct (q s); [congruence | discriminate].
Qed.

(* C05 (iii) in full: in a quiescent state in which nobody holds the guard, nobody is parked in lock() *)
Theorem no_stranded_waiter s :
  Reach s -> Stable isco s -> (forall a, in_cs (apc (A s a)) = false) -> forall a, apc (A s a) <> W.
Proof.
  intros R St NoCS. apply (no_stranded_waiter_partial isco s R St NoCS).
  intros h Hh. destruct (St h) as [[C|N] _].
  - rewrite Hh in C. discriminate.
  - exact (enabled_H1 s h R Hh N).
Qed.
End S.
