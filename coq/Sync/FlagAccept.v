(* Trace acceptor for the SyncFlag model (same scheme as SemAccept.v): one recorded event
   `[code; actor; obj; val]` of the real may::sync::SyncFlag / SyncBlocker / Park / ThreadPark is matched
   against one transition of FlagModel (a park that returns Timeout/Canceled takes the environment
   action `Tmo` and the resume together).  Codes are bound to source sites in Sync/flag_sites.json.

     0 flag.new   1 wait.call(flags,dur)  2 wait.ret(res)  3 isf.call  4 isf.ret(res)  5 fire.call  6 fire.ret
     9 tpark.enter  10 tpark.leave(woken)  11 tpark.unpark
    20 is_fired cnt.load   22 to_wake.push   23 cnt.fetch_sub(old)   24 fire cnt.store(MAX)   25 wakeup_all to_wake.pop(some)
    30 SyncBlocker::unpark unparked.store   31 is_unparked load   32 set_release store   33 take_release swap(old)
    40 Park::check_park state.load   41 check_park state.store   42 check_park state.swap(old)
    43 Park::unpark_impl state.swap(old) *)
From Coq Require Import List ZArith Bool Arith Lia.
Import ListNotations.
Require Import MayV.Sync.FlagModel.
Open Scope Z_scope.

Record aux := { started : bool;
                ph : nat -> nat;      (* 0 outside park; 1 thread suspended; 8 thread token taken at enter;
                                         5 check_park#1 load saw false; 3 check_park#1 load saw true (store pending);
                                         2 coroutine suspended; 6 / 7 check_park#2 load saw true / false; 4 check_park#2 done, verdict pending *)
                op : nat -> nat;      (* API call in progress: 0 none, 1 wait, 2 is_fired, 3 fire *)
                kind : nat -> nat;    (* 0 unknown, 1 thread, 2 coroutine *)
                ou : nat -> Z; orl : nat -> Z; opk : nat -> Z }.
Definition ast := (st * aux)%type.

Definition aux0 := {| started := false; ph := fun _ => O; op := fun _ => O; kind := fun _ => O;
                      ou := fun _ => 0; orl := fun _ => 0; opk := fun _ => 0 |}.
Definition MAX : Z := 9223372036854775807.
Notation step := (FlagModel.step MAX).
Notation Reach := (FlagModel.Reach MAX).
Definition m_init : ast := (init, aux0).

Definition pc_eqb (x y : pc) : bool :=
  match x, y with
  | Idle, Idle | W0, W0 | W1, W1 | W2, W2 | WP, WP | WW, WW | E1, E1 | E2, E2 | E3, E3 | E4, E4
  | F0, F0 | A1, A1 | A2, A2 | A3, A3 | A4, A4 | Q0, Q0 => true
  | _, _ => false end.

Definition sgn (w : Z) : Z := if Z.ltb w 9223372036854775808 then w else w - 18446744073709551616.
Definition zb (v : Z) : bool := negb (Z.eqb v 0).

Definition set_ph (x : aux) a p := {| started := started x; ph := upd (ph x) a p; op := op x; kind := kind x; ou := ou x; orl := orl x; opk := opk x |}.
Definition set_op (x : aux) a o := {| started := started x; ph := ph x; op := upd (op x) a o; kind := kind x; ou := ou x; orl := orl x; opk := opk x |}.
Definition set_kind (x : aux) a k := {| started := started x; ph := ph x; op := op x; kind := upd (kind x) a k; ou := ou x; orl := orl x; opk := opk x |}.
Definition set_ou (x : aux) m := {| started := started x; ph := ph x; op := op x; kind := kind x; ou := m; orl := orl x; opk := opk x |}.
Definition set_orl (x : aux) m := {| started := started x; ph := ph x; op := op x; kind := kind x; ou := ou x; orl := m; opk := opk x |}.
Definition set_opk (x : aux) m := {| started := started x; ph := ph x; op := op x; kind := kind x; ou := ou x; orl := orl x; opk := m |}.

(* the object recorded for blocker b: bound at the first observation, compared afterwards *)
Definition bind_obj (m : nat -> Z) (b : nat) (o : Z) : option (nat -> Z) :=
  if Z.eqb (m b) 0 then Some (upd m b o) else if Z.eqb (m b) o then Some m else None.

(* what one event does: model actions to take (all must be enabled), a check of the resulting
   model state, and the acceptor's own bookkeeping as a function of that state *)
Record plan := { acts : list action; post : st -> bool; nxt : st -> aux }.

Fixpoint steps (s : st) (l : list action) : option st :=
  match l with
  | [] => Some s
  | a :: l' => match step s a with Some s' => steps s' l' | None => None end
  end.

Definition guard (b : bool) (p : option plan) : option plan := if b then p else None.
Definition pcof (s : st) (a : nat) := apc (A s a).
Definition at_pc (s : st) a p := pc_eqb (pcof s a) p.
Definition phis (x : aux) a n := Nat.eqb (ph x a) n.

Definition plan_ev (s : st) (x : aux) (e : list Z) : option plan :=
  match e with
  | [code; za; o; v] =>
    let a := Z.to_nat za in
    let me := A s a in
    let b := ab me in let w := aw me in
    match code with
    (* ---- API level (logged by the scenario) ---- *)
    | 1 => let co := Z.testbit o 1 in
           guard (at_pc s a Idle && phis x a 0 && Nat.eqb (op x a) 0 && (Nat.eqb (kind x a) 0 || Nat.eqb (kind x a) (if co then 2 else 1))%nat)
             (Some {| acts := [Wait a (Z.testbit o 0 || co)]; post := fun _ => true;
                      nxt := fun _ => set_kind (set_op x a 1%nat) a (if co then 2%nat else 1%nat) |})
    | 2 => guard (Nat.eqb (op x a) 1)
             (if at_pc s a WW
              then guard (phis x a 4 && zb v)
                     (Some {| acts := [Step a]; post := fun s' => at_pc s' a Idle && Bool.eqb (ares (A s' a)) true;
                              nxt := fun _ => set_op (set_ph x a 0%nat) a 0%nat |})
              else guard (phis x a 0 && at_pc s a Idle && Bool.eqb (ares me) (zb v))
                     (Some {| acts := []; post := fun _ => true; nxt := fun _ => set_op x a 0%nat |}))
    | 3 => guard (at_pc s a Idle && phis x a 0 && Nat.eqb (op x a) 0)
             (Some {| acts := [IsFired a]; post := fun _ => true; nxt := fun _ => set_op x a 2%nat |})
    | 4 => guard (Nat.eqb (op x a) 2 && at_pc s a Idle && Bool.eqb (ares me) (zb v))
             (Some {| acts := []; post := fun _ => true; nxt := fun _ => set_op x a 0%nat |})
    | 5 => guard (at_pc s a Idle && phis x a 0 && Nat.eqb (op x a) 0)
             (Some {| acts := [Fire a]; post := fun _ => true; nxt := fun _ => set_op x a 3%nat |})
    | 6 => guard (Nat.eqb (op x a) 3 && at_pc s a Idle)
             (Some {| acts := []; post := fun _ => true; nxt := fun _ => set_op x a 0%nat |})
    (* ---- ThreadPark (virtual): token check at enter, resumption at leave ---- *)
    | 9 => guard (at_pc s a WP && phis x a 0 && Nat.eqb (kind x a) 1)
             (match bind_obj (opk x) b o with
              | Some m => Some {| acts := [Step a]; post := fun _ => true;
                                  nxt := fun s' => set_ph (set_opk x m) a (if at_pc s' a Idle then 8%nat else 1%nat) |}
              | None => None end)
    | 10 => if phis x a 8
            then guard (zb v && Z.eqb (opk x b) o) (Some {| acts := []; post := fun _ => true; nxt := fun _ => set_ph x a 0%nat |})
            else guard (phis x a 1 && at_pc s a WW && Z.eqb (opk x b) o)
                   (if zb v
                    then Some {| acts := [Step a]; post := fun s' => at_pc s' a Idle; nxt := fun _ => set_ph x a 0%nat |}
                    else Some {| acts := [Tmo a; Step a]; post := fun s' => at_pc s' a E1; nxt := fun _ => set_ph x a 0%nat |})
    | 11 => guard (at_pc s a A3 && Nat.eqb (kind x (owner (Bk s w))) 1)
              (match bind_obj (opk x) w o with
               | Some m => Some {| acts := [Step a]; post := fun _ => true; nxt := fun _ => set_opk x m |}
               | None => None end)
    (* ---- src/sync/sync_flag.rs ---- *)
    | 20 => guard ((at_pc s a W0 || at_pc s a Q0) && Z.eqb (cnt s) (sgn v))
              (Some {| acts := [Step a]; post := fun _ => true; nxt := fun _ => x |})
    | 22 => guard (at_pc s a W1) (Some {| acts := [Step a]; post := fun _ => true; nxt := fun _ => x |})
    | 23 => guard (at_pc s a W2 && Z.eqb (cnt s) (sgn v))
              (Some {| acts := [Step a]; post := fun _ => true; nxt := fun _ => x |})
    | 24 => guard (at_pc s a F0 && Z.eqb v MAX)
              (Some {| acts := [Step a]; post := fun _ => true; nxt := fun _ => x |})
    | 25 => guard (at_pc s a A1 && Bool.eqb (match q s with [] => false | _ => true end) (zb v))
              (Some {| acts := [Step a]; post := fun _ => true; nxt := fun _ => x |})
    (* ---- SyncBlocker (src/sync/blocking.rs) ---- *)
    | 30 => guard (at_pc s a A2 && zb v)
              (match bind_obj (ou x) w o with
               | Some m => Some {| acts := [Step a]; post := fun _ => true; nxt := fun _ => set_ou x m |}
               | None => None end)
    | 31 => match bind_obj (ou x) b o with
            | None => None
            | Some m =>
              guard (Bool.eqb (unp (Bk s b)) (zb v))
                (if at_pc s a E1 || at_pc s a E3
                 then Some {| acts := [Step a]; post := fun _ => true; nxt := fun _ => set_ou x m |}
                 else (* a coroutine's park returned Timeout / Canceled: revealed by the error path's first access *)
                   guard (at_pc s a WW && phis x a 4)
                     (Some {| acts := [Tmo a; Step a; Step a]; post := fun _ => true; nxt := fun _ => set_ph (set_ou x m) a 0%nat |}))
            end
    | 32 => guard (at_pc s a E2 && zb v)
              (match bind_obj (orl x) b o with
               | Some m => Some {| acts := [Step a]; post := fun _ => true; nxt := fun _ => set_orl x m |}
               | None => None end)
    | 33 => if at_pc s a A4
            then guard (Bool.eqb (rel (Bk s w)) (zb v))
                   (match bind_obj (orl x) w o with
                    | Some m => Some {| acts := [Step a]; post := fun _ => true; nxt := fun _ => set_orl x m |}
                    | None => None end)
            else guard (at_pc s a E4 && Bool.eqb (rel (Bk s b)) (zb v))
                   (match bind_obj (orl x) b o with
                    | Some m => Some {| acts := [Step a]; post := fun _ => true; nxt := fun _ => set_orl x m |}
                    | None => None end)
    (* ---- Park (src/park.rs): the token word of a coroutine's blocker ---- *)
    | 40 => match bind_obj (opk x) b o with
            | None => None
            | Some m =>
              guard (Nat.eqb (kind x a) 2 && Bool.eqb (tok (Bk s b)) (zb v))
                (if phis x a 0
                 then guard (at_pc s a WP)
                        (if zb v
                         then Some {| acts := [Step a]; post := fun s' => at_pc s' a Idle; nxt := fun _ => set_ph (set_opk x m) a 3%nat |}
                         else Some {| acts := []; post := fun _ => true; nxt := fun _ => set_ph (set_opk x m) a 5%nat |})
                 else guard (phis x a 2 && at_pc s a WW)
                        (Some {| acts := []; post := fun _ => true; nxt := fun _ => set_ph x a (if zb v then 6%nat else 7%nat) |}))
            end
    | 41 => guard (negb (zb v) && Z.eqb (opk x b) o)
              (if phis x a 3 then Some {| acts := []; post := fun _ => true; nxt := fun _ => set_ph x a 0%nat |}
               else guard (phis x a 6) (Some {| acts := []; post := fun _ => true; nxt := fun _ => set_ph x a 4%nat |}))
    | 42 => guard (Z.eqb (opk x b) o && Bool.eqb (tok (Bk s b)) (zb v))
              (if phis x a 5
               then guard (at_pc s a WP)
                      (Some {| acts := [Step a]; post := fun s' => if zb v then at_pc s' a Idle else at_pc s' a WW;
                               nxt := fun _ => set_ph x a (if zb v then 0%nat else 2%nat) |})
               else guard (phis x a 7 && at_pc s a WW)
                      (Some {| acts := []; post := fun _ => true; nxt := fun _ => set_ph x a 4%nat |}))
    | 43 => let o' := owner (Bk s w) in
            guard (at_pc s a A3 && Nat.eqb (kind x o') 2
                   && (if zb v then tok (Bk s w) else negb (tok (Bk s w)) || (Nat.eqb (ab (A s o')) w && phis x o' 4)))
              (match bind_obj (opk x) w o with
               | Some m => Some {| acts := [Step a]; post := fun _ => true; nxt := fun _ => set_opk x m |}
               | None => None end)
    | _ => None
    end
  | _ => None
  end.

Definition accept_ev (sx : ast) (e : list Z) : option ast :=
  let (s, x) := sx in
  if started x
  then match plan_ev s x e with
       | Some p => match steps s (acts p) with
                   | Some s' => if post p s' then Some (s', nxt p s') else None
                   | None => None end
       | None => None end
  else match e with
       | [0; _; _; _] => Some (init, {| started := true; ph := ph x; op := op x; kind := kind x; ou := ou x; orl := orl x; opk := opk x |})
       | _ => None end.

Fixpoint accept_all (sx : ast) (tr : list (list Z)) : option ast :=
  match tr with
  | [] => Some sx
  | e :: l => match accept_ev sx e with Some sx' => accept_all sx' l | None => None end
  end.

(* ghost monitors of the final state; the theorems say they can never trip on a reachable state *)
Definition monitors_ok (sx : ast) : bool :=
  let s := fst sx in
  (if Z.ltb 0 (cnt s) then ufired s else true) && (if ufired s && Z.ltb (fbound s) MAX then Z.ltb 0 (cnt s) else true).

(* ------------------------------------------------------------------------------------------ *)
(* soundness: every state along an accepted trace is a reachable state of the model            *)

Definition AOK (sx : ast) : Prop := Reach (fst sx).

Lemma steps_reach l : forall s s', Reach s -> steps s l = Some s' -> Reach s'.
Proof.
  induction l as [|a l IH]; cbn [steps]; intros s s' R H; [inversion H; subst; exact R|].
  destruct (step s a) as [s1|] eqn:E; [|discriminate]. eapply IH; [eapply RS; eauto | exact H].
Qed.

Lemma accept_ev_ok sx e sx' : AOK sx -> accept_ev sx e = Some sx' -> AOK sx'.
Proof.
  unfold AOK. intros R H. destruct sx as [s x]. unfold accept_ev in H. cbn [fst] in R.
  destruct (started x).
  - destruct (plan_ev s x e) as [p|]; [|discriminate].
    destruct (steps s (acts p)) as [s1|] eqn:E; [|discriminate].
    destruct (post p s1); [|discriminate]. inversion H; subst. cbn [fst]. eapply steps_reach; eauto.
  - repeat match type of H with
           | match ?t with _ => _ end = Some _ => destruct t eqn:?; try discriminate
           end.
    inversion H; subst. cbn [fst]. constructor.
Qed.

Theorem accept_all_reach tr : forall sx sx', AOK sx -> accept_all sx tr = Some sx' -> AOK sx'.
Proof.
  induction tr as [|e l IH]; cbn [accept_all]; intros sx sx' R H; [inversion H; subst; exact R|].
  destruct (accept_ev sx e) as [s1|] eqn:E; [|discriminate]. eapply IH; [eapply accept_ev_ok; eauto | exact H].
Qed.

Lemma m_init_ok : AOK m_init.
Proof. constructor. Qed.

Corollary accepted_trace_reaches tr sx : accept_all m_init tr = Some sx -> Reach (fst sx).
Proof. intro H. exact (accept_all_reach tr _ _ m_init_ok H). Qed.
