(* Upper-layer model of may::sync::spsc (src/sync/spsc.rs).  Definitions only.
   Promoted from notes/proto/SpscRecv.v: both receiver kinds (OS thread and coroutine), payloads,
   ghost logs, drop_port, and the Section parameter `fixed`:
     fixed = true   the CURRENT code: Park::subscribe re-checks `!queue.is_empty() || channels == 0`
     fixed = false  the code before commit 7fc6074 (defect F6): only `!queue.is_empty()`.

   The may_queue::spsc queue is an atomic FIFO `q` (C03).  The thread receiver's blocker is the OS
   thread's park token `ttok` (thread::park returns when the token is set and clears it; unpark sets
   it); the coroutine receiver's "blocker" is the coroutine itself, stored in `wait_co` by the kernel
   half (Park::subscribe, run by the worker after the context switch) - whoever takes it out of the
   slot must resume it: the sender schedules it (`runq`), the kernel half runs it directly.
   One transition per shared access, in program order:

     Sender::send         SChk port_dropped.load -> SPush queue.push -> STake wait_co.take() -> SUnpark co.unpark()
     Sender::drop         SDrop channels.store(0) -> STake -> SUnpark
     try_recv             RPop1 queue.pop() -> RChk channels.load -> RPop2 queue.pop()
     recv (thread)        try_recv (CFirst); RStore wait_co.store(thread blocker); try_recv (CReg);
                          RClear wait_co.clear() | RPark thread::park(); try_recv (CFin)
     recv (coroutine)     try_recv (CFirst); yield_with: KStore wait_co.store(co); KEmpty queue.is_empty();
                          KChans channels.load (only if fixed); KTake wait_co.take() -> KRun run_coroutine | RSusp suspended;
                          resumed (KRun, or by the `Worker` action once scheduled): try_recv (CFin)
     Receiver::recv       loop over recv while it answers Empty
     Receiver::drop       RPd0 port_dropped.store(true); RPd1 queue.pop() until None

   The resumed coroutine first waits (Park::drop spins on wait_kernel) until its kernel half has
   finished, so the kernel half and the continuation are sequential: `Worker` resumes only from RSusp.
   Environment actions on the receiver:
     Spur   std::thread::park() returns although nobody unparked this thread (the documentation allows it; an
            unpark meant for something else on that thread looks the same): RPark -> try_recv (CFin) WITHOUT
            consuming the token; the blocker stays in wait_co (a later take finds it: a stale unpark) or is
            replaced by the next round's store.
     RCan   a cancel request is found by the coroutine receiver at one of its cancellation points - all inside
            yield_with: before it enters the kernel (KStore: `cancel.is_canceled()`, nothing registered), or in
            yield_back when it is resumed (by the worker after a sender scheduled it, or by its own kernel half:
            KRun): the call is left by the Cancel panic (RCancel), nothing has been popped.  spsc's Park does
            not register the coroutine with its cancel data, so cancel() itself never resumes it (see the
            finding in props/C07.json): the model has no transition that resumes a suspended receiver on cancel.
   Payloads are 0, 1, 2, ... in send order.  Ghost: sent / rcvd / drpd, rdead / sdead as in ChanMpscModel. *)
From Coq Require Import List Arith Bool Lia.
Import ListNotations.

Inductive wk := WT | WC.
Inductive rpc := RIdle | RPop1 | RChk | RPop2 | RStore | RClear | RPark | KStore | KEmpty | KChans | KTake | KRun | RSusp | RPd0 | RPd1.
Inductive tctx := CTry | CFirst | CReg | CFin.
Inductive api := ATry | ARecv | ADrop.
Inductive res := RNone | ROk (v : nat) | REmpty | RDisc | RCancel.
Inductive spc := SIdle | SChk | SPush | STake | SUnpark | SDrop.

Record rcvr := { rp : rpc; rc : tctx; rapi : api; rco : bool; rres : res; rdata : res; ralive : bool; rdead : bool }.
Record sndr := { sp : spc; sw : wk; salive : bool; sres : bool; sdead : bool; sn : nat }.
Record st := { q : list nat; slot : option wk; chans : nat; pdrop : bool; ttok : bool; runq : bool;
               R : rcvr; Sn : sndr; sent : list nat; rcvd : list nat; drpd : list nat; freed : bool }.

Definition mk q' sl c p t rq r s' se rv dr fr :=
  {| q := q'; slot := sl; chans := c; pdrop := p; ttok := t; runq := rq; R := r; Sn := s'; sent := se; rcvd := rv; drpd := dr; freed := fr |}.

Definition r_set (x : rcvr) p c := {| rp := p; rc := c; rapi := rapi x; rco := rco x; rres := rres x; rdata := rdata x; ralive := ralive x; rdead := rdead x |}.
Definition r_ret (x : rcvr) r := {| rp := RIdle; rc := rc x; rapi := rapi x; rco := rco x; rres := r; rdata := rdata x; ralive := ralive x; rdead := rdead x |}.
Definition r_data (x : rcvr) d :=
  match rc x with
  | CReg => {| rp := RClear; rc := rc x; rapi := rapi x; rco := rco x; rres := rres x; rdata := d; ralive := ralive x; rdead := rdead x |}
  | _ => r_ret x d
  end.
Definition r_empty (x : rcvr) :=
  match rc x with
  | CTry => r_ret x REmpty
  | CFirst => if rco x then r_set x KStore CFirst else r_set x RStore CFirst
  | CReg => r_set x RPark CReg
  | CFin => r_set x RPop1 CFirst            (* Receiver::recv loops: the next round starts with try_recv *)
  end.
Definition r_start (x : rcvr) ap co p c d := {| rp := p; rc := c; rapi := ap; rco := co; rres := RNone; rdata := RNone; ralive := ralive x; rdead := d |}.
Definition r_gone (x : rcvr) := {| rp := RIdle; rc := rc x; rapi := rapi x; rco := rco x; rres := RNone; rdata := rdata x; ralive := false; rdead := false |}.

Definition s_pc (y : sndr) p := {| sp := p; sw := sw y; salive := salive y; sres := sres y; sdead := sdead y; sn := sn y |}.
Definition s_call (y : sndr) p d := {| sp := p; sw := sw y; salive := salive y; sres := sres y; sdead := d; sn := sn y |}.
Definition s_res (y : sndr) p r := {| sp := p; sw := sw y; salive := salive y; sres := r; sdead := sdead y; sn := sn y |}.
Definition s_pushed (y : sndr) := {| sp := STake; sw := sw y; salive := salive y; sres := true; sdead := sdead y; sn := S (sn y) |}.
Definition s_took (y : sndr) w := {| sp := SUnpark; sw := w; salive := salive y; sres := sres y; sdead := sdead y; sn := sn y |}.
Definition s_dead (y : sndr) := {| sp := STake; sw := sw y; salive := false; sres := sres y; sdead := sdead y; sn := sn y |}.

Inductive action := TryRecv | Recv (co : bool) | DropPort | RStep | Worker | Spur | RCan | Send | DropChan | SStep | Free.

Definition is_idle (x : rcvr) : bool := match rp x with RIdle => ralive x | _ => false end.
Definition s_ready (y : sndr) : bool := match sp y with SIdle => salive y | _ => false end.
Definition is0 (n : nat) := Nat.eqb n 0.

Section M.
Variable fixed : bool.

Definition step (s : st) (ac : action) : option st :=
  let x := R s in let y := Sn s in
  match ac with
  | TryRecv => if is_idle x
      then Some (mk (q s) (slot s) (chans s) (pdrop s) (ttok s) (runq s) (r_start x ATry false RPop1 CTry (is0 (chans s))) y (sent s) (rcvd s) (drpd s) (freed s))
      else None
  | Recv co => if is_idle x
      then Some (mk (q s) (slot s) (chans s) (pdrop s) (ttok s) (runq s) (r_start x ARecv co RPop1 CFirst (is0 (chans s))) y (sent s) (rcvd s) (drpd s) (freed s))
      else None
  | DropPort => if is_idle x
      then Some (mk (q s) (slot s) (chans s) (pdrop s) (ttok s) (runq s) (r_start x ADrop false RPd0 CTry false) y (sent s) (rcvd s) (drpd s) (freed s))
      else None
  | Worker => match rp x with
      | RSusp => if runq s
                 then Some (mk (q s) (slot s) (chans s) (pdrop s) (ttok s) false (r_set x RPop1 CFin) y (sent s) (rcvd s) (drpd s) (freed s))
                 else None
      | _ => None end
  | Spur => match rp x with
      | RPark => Some (mk (q s) (slot s) (chans s) (pdrop s) (ttok s) (runq s) (r_set x RPop1 CFin) y (sent s) (rcvd s) (drpd s) (freed s))
      | _ => None end
  | RCan => match rp x with
      | KStore => Some (mk (q s) (slot s) (chans s) (pdrop s) (ttok s) (runq s) (r_ret x RCancel) y (sent s) (rcvd s) (drpd s) (freed s))
      | RSusp => if runq s
                 then Some (mk (q s) (slot s) (chans s) (pdrop s) (ttok s) false (r_ret x RCancel) y (sent s) (rcvd s) (drpd s) (freed s))
                 else None
      | KRun => Some (mk (q s) (slot s) (chans s) (pdrop s) (ttok s) (runq s) (r_ret x RCancel) y (sent s) (rcvd s) (drpd s) (freed s))
      | _ => None end
  | RStep =>
      match rp x with
      | RIdle | RSusp => None
      | RPop1 => match q s with
          | v :: q' => Some (mk q' (slot s) (chans s) (pdrop s) (ttok s) (runq s) (r_data x (ROk v)) y (sent s) (rcvd s ++ [v]) (drpd s) (freed s))
          | [] => Some (mk (q s) (slot s) (chans s) (pdrop s) (ttok s) (runq s) (r_set x RChk (rc x)) y (sent s) (rcvd s) (drpd s) (freed s))
          end
      | RChk => if is0 (chans s)
          then Some (mk (q s) (slot s) (chans s) (pdrop s) (ttok s) (runq s) (r_set x RPop2 (rc x)) y (sent s) (rcvd s) (drpd s) (freed s))
          else Some (mk (q s) (slot s) (chans s) (pdrop s) (ttok s) (runq s) (r_empty x) y (sent s) (rcvd s) (drpd s) (freed s))
      | RPop2 => match q s with
          | v :: q' => Some (mk q' (slot s) (chans s) (pdrop s) (ttok s) (runq s) (r_data x (ROk v)) y (sent s) (rcvd s ++ [v]) (drpd s) (freed s))
          | [] => Some (mk (q s) (slot s) (chans s) (pdrop s) (ttok s) (runq s) (r_data x RDisc) y (sent s) (rcvd s) (drpd s) (freed s))
          end
      | RStore => Some (mk (q s) (Some WT) (chans s) (pdrop s) (ttok s) (runq s) (r_set x RPop1 CReg) y (sent s) (rcvd s) (drpd s) (freed s))
      | RClear => Some (mk (q s) None (chans s) (pdrop s) (ttok s) (runq s) (r_ret x (rdata x)) y (sent s) (rcvd s) (drpd s) (freed s))
      | RPark => if ttok s
          then Some (mk (q s) (slot s) (chans s) (pdrop s) false (runq s) (r_set x RPop1 CFin) y (sent s) (rcvd s) (drpd s) (freed s))
          else None
      | KStore => Some (mk (q s) (Some WC) (chans s) (pdrop s) (ttok s) (runq s) (r_set x KEmpty (rc x)) y (sent s) (rcvd s) (drpd s) (freed s))
      | KEmpty => match q s with
          | [] => Some (mk (q s) (slot s) (chans s) (pdrop s) (ttok s) (runq s) (r_set x (if fixed then KChans else RSusp) (rc x)) y (sent s) (rcvd s) (drpd s) (freed s))
          | _ :: _ => Some (mk (q s) (slot s) (chans s) (pdrop s) (ttok s) (runq s) (r_set x KTake (rc x)) y (sent s) (rcvd s) (drpd s) (freed s))
          end
      | KChans => if is0 (chans s)
          then Some (mk (q s) (slot s) (chans s) (pdrop s) (ttok s) (runq s) (r_set x KTake (rc x)) y (sent s) (rcvd s) (drpd s) (freed s))
          else Some (mk (q s) (slot s) (chans s) (pdrop s) (ttok s) (runq s) (r_set x RSusp (rc x)) y (sent s) (rcvd s) (drpd s) (freed s))
      | KTake => match slot s with
          | Some WC => Some (mk (q s) None (chans s) (pdrop s) (ttok s) (runq s) (r_set x KRun (rc x)) y (sent s) (rcvd s) (drpd s) (freed s))
          | Some WT => None
          | None => Some (mk (q s) (slot s) (chans s) (pdrop s) (ttok s) (runq s) (r_set x RSusp (rc x)) y (sent s) (rcvd s) (drpd s) (freed s))
          end
      | KRun => Some (mk (q s) (slot s) (chans s) (pdrop s) (ttok s) (runq s) (r_set x RPop1 CFin) y (sent s) (rcvd s) (drpd s) (freed s))
      | RPd0 => Some (mk (q s) (slot s) (chans s) true (ttok s) (runq s) (r_set x RPd1 (rc x)) y (sent s) (rcvd s) (drpd s) (freed s))
      | RPd1 => match q s with
          | v :: q' => Some (mk q' (slot s) (chans s) (pdrop s) (ttok s) (runq s) x y (sent s) (rcvd s) (drpd s ++ [v]) (freed s))
          | [] => Some (mk (q s) (slot s) (chans s) (pdrop s) (ttok s) (runq s) (r_gone x) y (sent s) (rcvd s) (drpd s) (freed s))
          end
      end
  | Send => if s_ready y
      then Some (mk (q s) (slot s) (chans s) (pdrop s) (ttok s) (runq s) x (s_call y SChk (pdrop s)) (sent s) (rcvd s) (drpd s) (freed s))
      else None
  | DropChan => if s_ready y
      then Some (mk (q s) (slot s) (chans s) (pdrop s) (ttok s) (runq s) x (s_call y SDrop false) (sent s) (rcvd s) (drpd s) (freed s))
      else None
  | SStep =>
      match sp y with
      | SIdle => None
      | SChk => if pdrop s
          then Some (mk (q s) (slot s) (chans s) (pdrop s) (ttok s) (runq s) x (s_res y SIdle false) (sent s) (rcvd s) (drpd s) (freed s))
          else Some (mk (q s) (slot s) (chans s) (pdrop s) (ttok s) (runq s) x (s_pc y SPush) (sent s) (rcvd s) (drpd s) (freed s))
      | SPush => Some (mk (q s ++ [sn y]) (slot s) (chans s) (pdrop s) (ttok s) (runq s) x (s_pushed y) (sent s ++ [sn y]) (rcvd s) (drpd s) (freed s))
      | STake => match slot s with
          | Some w => Some (mk (q s) None (chans s) (pdrop s) (ttok s) (runq s) x (s_took y w) (sent s) (rcvd s) (drpd s) (freed s))
          | None => Some (mk (q s) (slot s) (chans s) (pdrop s) (ttok s) (runq s) x (s_pc y SIdle) (sent s) (rcvd s) (drpd s) (freed s))
          end
      | SUnpark => match sw y with
          | WT => Some (mk (q s) (slot s) (chans s) (pdrop s) true (runq s) x (s_pc y SIdle) (sent s) (rcvd s) (drpd s) (freed s))
          | WC => Some (mk (q s) (slot s) (chans s) (pdrop s) (ttok s) true x (s_pc y SIdle) (sent s) (rcvd s) (drpd s) (freed s))
          end
      | SDrop => Some (mk (q s) (slot s) 0 (pdrop s) (ttok s) (runq s) x (s_dead y) (sent s) (rcvd s) (drpd s) (freed s))
      end
  | Free => if is0 (chans s) && negb (ralive x) && negb (freed s) && match rp x with RIdle => true | _ => false end
      then Some (mk [] (slot s) (chans s) (pdrop s) (ttok s) (runq s) x y (sent s) (rcvd s) (drpd s ++ q s) true)
      else None
  end.

Definition rcv0 := {| rp := RIdle; rc := CTry; rapi := ATry; rco := false; rres := RNone; rdata := RNone; ralive := true; rdead := false |}.
Definition snd0 := {| sp := SIdle; sw := WT; salive := true; sres := false; sdead := false; sn := 0 |}.
Definition init : st := mk [] None 1 false false false rcv0 snd0 [] [] [] false.

Inductive Reach : st -> Prop :=
| R0 : Reach init
| RS s a s' : Reach s -> step s a = Some s' -> Reach s'.

Fixpoint run (s : st) (l : list action) : st :=
  match l with [] => s | a :: l' => match step s a with Some s' => run s' l' | None => run s l' end end.

End M.
