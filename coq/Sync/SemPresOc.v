(* Preservation of SemInv.Inv, ainv of an actor other than the stepping one: the cases K2, K4, Y0, Y0c, G0 (env = the actions other than Step).
   Script in SemPresTac.v; assembled in SemPresO.v. *)
From Coq Require Import List Arith ZArith Bool Lia.
Import ListNotations.
Require Import MayV.Sync.SemModel MayV.Sync.SemInv MayV.Sync.SemTac MayV.Sync.SemCase MayV.Sync.SemPresTac.
Open Scope Z_scope.

Lemma pres_A_other_K2 s a s' a' : Inv s -> apc (A s a) = K2 -> step s (Step a) = Some s' -> a <> a' -> ainv s' a'.
Proof. intros Hi Epc H Hx. g_facts Hi. step_at H Epc. all: ao_script Hi s a a' Hx. Qed.

Lemma pres_A_other_K4 s a s' a' : Inv s -> apc (A s a) = K4 -> step s (Step a) = Some s' -> a <> a' -> ainv s' a'.
Proof. intros Hi Epc H Hx. g_facts Hi. step_at H Epc. all: ao_script Hi s a a' Hx. Qed.

Lemma pres_A_other_Y0 s a s' a' : Inv s -> apc (A s a) = Y0 -> step s (Step a) = Some s' -> a <> a' -> ainv s' a'.
Proof. intros Hi Epc H Hx. g_facts Hi. step_at H Epc. all: ao_script Hi s a a' Hx. Qed.

Lemma pres_A_other_Y0c s a s' a' : Inv s -> apc (A s a) = Y0c -> step s (Step a) = Some s' -> a <> a' -> ainv s' a'.
Proof. intros Hi Epc H Hx. g_facts Hi. step_at H Epc. all: ao_script Hi s a a' Hx. Qed.

Lemma pres_A_other_G0 s a s' a' : Inv s -> apc (A s a) = G0 -> step s (Step a) = Some s' -> a <> a' -> ainv s' a'.
Proof. intros Hi Epc H Hx. g_facts Hi. step_at H Epc. all: ao_script Hi s a a' Hx. Qed.
