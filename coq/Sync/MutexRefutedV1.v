(* Half repair of F1 (MutexModelV1: no `release` with the cancel disabled, but still token before flag in
   SyncBlocker::unpark): a waiter is stranded.  This is why the fix: commit also swaps the two lines of
   SyncBlocker::unpark. *)
From Coq Require Import List Arith Bool.
Import ListNotations.
Require Import MayV.Sync.MutexModelV1.

Definition isco (a : nat) := negb (Nat.eqb a 1).
Definition Stable (s : st) : Prop :=
  forall a, (apc (A s a) = CS \/ step isco s (Step a) = None) /\ step isco s (Kick a) = None.

(* 1 locks and unlocks while coroutine 0 (cancel disabled) is between push and fetch_add; coroutine 2
   takes the free lock; 0 counts itself and suspends; cancel(0) takes it out of the park; 2 unlocks: pops
   0 and sets its token -- 0's resume (Canceled) clears that token, sees `unparked` still false and
   suspends again; only then does 2 store `unparked`.  Nobody will ever wake 0: stranded with cnt = 1. *)
Definition witness : list action :=
  [Start 1 false; Step 1; Start 0 true; Step 0; Step 0; Step 1; Step 1;
   Start 2 false; Step 2; Step 0; Step 0; Step 0; Cancel 0; CKick 0;
   Step 2; Step 2; Step 2; Step 2; Step 2; Step 0; Step 0; Step 0; Step 0; Step 2; Step 2].

Theorem no_stranded_waiter_refuted_half_fix :
  exists s, Reach isco s /\ Stable s /\ (forall a, apc (A s a) <> CS) /\ (forall a, apc (A s a) <> H1) /\
            apc (A s 0) = W /\ cnt s = 1.
Proof.
  exists (run isco init witness). split; [apply run_reach, R0|].
  repeat split.
  - destruct a as [|[|[|a]]]; vm_compute; auto.
  - destruct a as [|[|[|a]]]; vm_compute; auto.
  - intros [|[|[|a]]]; vm_compute; discriminate.
  - intros [|[|[|a]]]; vm_compute; discriminate.
Qed.
