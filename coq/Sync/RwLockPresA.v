(* C12 - preservation of the stepping actor's own assertion *)
From Coq Require Import List Arith ZArith Bool Lia.
Import ListNotations.
Require Import MayV.Sync.RwLockModel MayV.Sync.RwLockInv MayV.Sync.RwLockPresG.

Ltac dpc :=
  repeat match goal with
  | |- context [fail_pc ?o] => let E := fresh "Eop" in destruct o eqn:E; cbn [fail_pc]
  | |- context [got_pc ?o] => let E := fresh "Eop" in destruct o eqn:E; cbn [got_pc is_read]
  | |- context [exit_pc ?o] => let E := fresh "Eop" in destruct o eqn:E; cbn [exit_pc is_read]
  | |- context [ret_pc ?c ?o] => let E := fresh "Ectx" in destruct c eqn:E; cbn [ret_pc]
  end.
Ltac dor := repeat match goal with
  | H : _ \/ _ |- _ => destruct H
  | H : In _ (_ :: _) |- _ => cbn [In] in H
  | H : In _ (remove _ _ _) |- _ => apply in_remove in H; destruct H
  end.
Ltac hrew := repeat match goal with
  | E : holder ?s = _, H : context [match holder ?s with _ => _ end] |- _ => rewrite E in H; cbn in H
  | E : ab (A ?s ?a) = aw (A ?s ?a) |- _ => rewrite <- E in *; clear E
  end.

Lemma pres_A_self s a s' : Inv s -> step s (Step a) = Some s' -> ovf s' = false -> ainv s' a.
Proof.
  intros Hi H Ho. destruct (IG _ Hi) as (G1 & G2 & G3 & G4 & G5 & G6 & G7 & G8 & G9 & G10 & G11).
  step_cases H; a_facts Hi a; b_facts Hi (ab (A s a)); b_facts Hi (aw (A s a));
    unfold ainv, set_pc, set_pcx, hasrl, waiting, halfgone, opctx; cbn -[Z.of_nat] in Ho |- *; upd_tac; cbn -[Z.of_nat]; dpc; cbn -[Z.of_nat] in *; num;
    try (assert (Ee : ent s = []) by (apply len0; lia); rewrite Ee in *; cbn in * );
    repeat match goal with |- _ /\ _ => split end; intros; brk; fin.
  all: try solve [dor; brk; fin].
  all: try solve [hrew; brk; fin].
  all: try solve [hrew; dor; hrew; brk; fin].
  all: try solve [destruct (oeq_dec (afor (A s a)) (Some a)) as [e1|ne1]; [rewrite e1; apply notin_remove_self | apply notin_remove'; brk; fin0]].
  all: try solve [match goal with H : Some _ = Some ?y |- _ => injection H as <- end;
                  rewrite ?(upd_neq (A s)) by congruence;
                  repeat match goal with E : ab (A _ (owner _)) = _ |- _ => rewrite E end;
                  rewrite ?upd_eq; cbn; brk; fin].
  all: try solve [intros [E|I]; [discriminate | apply remove_In in I; exact I]].
  all: try solve [apply G6; apply G7; intro E0; rewrite E0 in *; cbn in *; tauto].
Qed.

Lemma pres_A_self_call s a o s' : Inv s -> step s (Call a o) = Some s' -> ainv s' a.
Proof.
  intros Hi H. step_cases H; a_facts Hi a; unfold ainv, hasrl; cbn; upd_tac; cbn in *;
    repeat match goal with |- _ /\ _ => split end; intros; brk; fin.
Qed.

Lemma pres_A_self_env s a s' : Inv s ->
  (step s (Busy a) = Some s' \/ step s (Abort a) = Some s' \/ step s (Drop a) = Some s' \/ step s (Panic a) = Some s') -> ainv s' a.
Proof.
  intros Hi [H|[H|[H|H]]]; step_cases H; a_facts Hi a; try b_facts Hi (ab (A s a));
    unfold ainv, hasrl, set_pc, set_pcx, opctx; cbn; upd_tac; cbn in *;
    repeat match goal with |- _ /\ _ => split end; intros; brk; fin.
Qed.
