(* mpmc channel model: the receiver-dropped direction (C07 iv / C06 i).  Every Ok-sent value is handed
   to exactly one receiver call exactly once XOR dropped exactly once.  The drop transitions are X1
   (drop_rx of the LAST Receiver - the fetch_sub that brings rx_ports to 0 - runs
   `while self.queue.pop().is_some() {}`, whether or not a Sender is still alive: seeded change C07-6)
   and Free (the last Arc is gone: SegQueue::drop drops what a send that raced with that drop left behind). *)
From Coq Require Import List Arith Bool Lia.
Import ListNotations.
Require Import MayV.Sync.ChanMpmcModel MayV.Sync.ChanMpmcInv MayV.Sync.ChanMpmcTac MayV.Sync.ChanMpmcThm.

Definition val_dec : forall x y : val, {x = y} + {x <> y}.
Proof. decide equality; apply Nat.eq_dec. Defined.
Definition cnt (v : val) (l : list val) : nat := count_occ val_dec l v.

Lemma nodup_three (v : val) (a b c : list val) : NoDup (a ++ b ++ c) ->
  (In v (a ++ b ++ c) -> cnt v a + cnt v b + cnt v c = 1) /\
  (~ In v (a ++ b ++ c) -> cnt v a + cnt v b + cnt v c = 0).
Proof.
  intro N. rewrite (NoDup_count_occ val_dec) in N. specialize (N v).
  rewrite !count_occ_app in N. unfold cnt. split; intro I.
  - apply (count_occ_In val_dec) in I. rewrite !count_occ_app in I. lia.
  - apply (count_occ_not_In val_dec) in I. rewrite !count_occ_app in I. lia.
Qed.

(* rlog has one entry (receiver, value) per value handed out *)
Definition recvd (s : st) : list val := map snd (rlog s).

Theorem mpmc_received_xor_dropped c s v : Reach true true c s ->
  (In v (sent s) -> cnt v (recvd s) + cnt v (drpd s) + cnt v (q s) = 1) /\
  (~ In v (sent s) -> cnt v (recvd s) + cnt v (drpd s) + cnt v (q s) = 0).
Proof.
  intro H. destruct (mpmc_exactly_once c s H) as [N _]. rewrite (mpmc_accounting c s H).
  apply nodup_three. exact N.
Qed.

Definition finv (s : st) : Prop := freed s = true -> q s = [] /\ txp s = 0 /\ rxp s = 0.

Lemma finv_step c s ac s' : Inv s -> finv s -> step true true c s ac = Some s' -> finv s'.
Proof.
  intros Hi F H. unfold finv in *.
  step_cases H; boolh; unf; prj; auto.
  all: rfacts Hi; sfacts Hi.
  all: try match goal with E : sst (Sd ?s0 ?a) = Alive |- _ => pose proof (alive_tx _ _ Hi E) end.
  all: try match goal with E : rst (Rv ?s0 ?r) = Alive |- _ => pose proof (alive_rx _ _ Hi E) end.
  all: try (intro X; destruct (F X) as (F1 & F2 & F3); repeat split; auto; try congruence; try lia).
  all: try (rewrite Eq in F1; discriminate).
  all: try (intros _; repeat split; auto; congruence).
Qed.

Lemma finv_reach c s : Reach true true c s -> finv s.
Proof.
  induction 1 as [|s a s' Hr IH Hs]; [intro X; discriminate|].
  eapply finv_step; eauto. eapply inv_reach; eauto.
Qed.

Theorem mpmc_freed_received_xor_dropped c s v : Reach true true c s -> freed s = true ->
  q s = [] /\ sent s = recvd s ++ drpd s /\
  (In v (sent s) -> (cnt v (recvd s) = 1 /\ cnt v (drpd s) = 0) \/ (cnt v (recvd s) = 0 /\ cnt v (drpd s) = 1)).
Proof.
  intros H F. destruct (finv_reach c s H F) as (Q & _ & _).
  pose proof (mpmc_accounting c s H) as A. rewrite Q, app_nil_r in A.
  split; [exact Q|]. split; [exact A|]. intro I.
  destruct (mpmc_received_xor_dropped c s v H) as [X _]. specialize (X I). rewrite Q in X. cbn in X. lia.
Qed.

Theorem mpmc_drop_sites f g c s ac s' : step f g c s ac = Some s' ->
  drpd s' = drpd s \/
  (exists r, ac = RStep r /\ rp (Rv s r) = X1 /\ exists v, q s = v :: q s' /\ drpd s' = drpd s ++ [v]) \/
  (ac = Free /\ drpd s' = drpd s ++ q s /\ q s' = [] /\ freed s' = true).
Proof.
  intro H. step_cases H; unf; prj; auto.
  all: try (right; left; eexists; repeat split; eauto; fail).
  all: right; right; auto.
Qed.

(* nothing is dropped while a Receiver handle is counted in rx_ports *)
Theorem mpmc_no_drop_while_a_receiver_is_counted c s : Reach true true c s -> rxp s <> 0 -> drpd s = [].
Proof. intros H. exact (I_drpd _ (inv_reach c _ H)). Qed.

(* the drop_rx that brings rx_ports to 0 enters the pop loop - whatever tx_ports is - ... *)
Theorem mpmc_last_receiver_drop_enters_the_drain f g c s r s' : step f g c s (RStep r) = Some s' ->
  rp (Rv s r) = X0 -> rxp s' = 0 -> rp (Rv s' r) = X1.
Proof.
  intros H P Z. unfold step in H. rewrite P in H. destruct (rxp s) as [|n] eqn:E; [discriminate|].
  inversion H; subst; unf; prj. cbn [rxp] in Z. subst n. rewrite upd_eq. reflexivity.
Qed.

(* ... which only the last receiver runs, and which returns only with the queue empty: everything queued up
   to that instant has been received or dropped *)
Theorem mpmc_last_receiver_drop_returns_drained c s r s' : Reach true true c s -> step true true c s (RStep r) = Some s' ->
  rp (Rv s r) = X1 -> rp (Rv s' r) = YIdle -> rxp s' = 0 /\ q s' = [] /\ sent s' = recvd s' ++ drpd s'.
Proof.
  intros Hr H P A.
  assert (Hr' : Reach true true c s') by (eapply RS; eauto).
  pose proof (mpmc_accounting c s' Hr') as Acc.
  pose proof (I_R _ (inv_reach c _ Hr) r) as Q. unfold rinv in Q. rewrite P in Q.
  assert (Z : rxp s = 0) by tauto.
  unfold step in H. rewrite P in H. destruct (q s) eqn:Eq; inversion H; subst; unf; prj.
  - cbn [q] in Acc. rewrite app_nil_r in Acc. auto.
  - congruence.
Qed.

Theorem mpmc_freed_is_final c s ac s' : Reach true true c s -> freed s = true -> step true true c s ac = Some s' ->
  sent s' = sent s /\ rlog s' = rlog s /\ drpd s' = drpd s /\ q s' = [] /\ freed s' = true.
Proof.
  intros Hr F H. pose proof (inv_reach c _ Hr) as Hi. destruct (finv_reach c s Hr F) as (Q & C & A).
  step_cases H; boolh; unf; prj; auto; try (rewrite Eq in Q; discriminate); try congruence.
  all: rfacts Hi; sfacts Hi.
  all: try match goal with E : sst (Sd ?s0 ?a) = Alive |- _ => pose proof (alive_tx _ _ Hi E) end.
  all: try match goal with E : rst (Rv ?s0 ?r) = Alive |- _ => pose proof (alive_rx _ _ Hi E) end.
  all: try congruence; try lia.
Qed.

(* non-vacuity: the last Receiver is dropped with a value queued and a Sender alive: the value is dropped by
   that drop; a send that read rx_ports = 1 before pushes afterwards: its value goes with the channel *)
Definition sch_rxdrop : list action :=
  [Send 0; SStep 0; SStep 0; SStep 0;            (* (0,0) queued, posted *)
   Send 0; SStep 0;                               (* second send: rx_ports.load = 1 *)
   DropRx 0; RStep 0; RStep 0; RStep 0;           (* fetch_sub 1 -> 0; pop (0,0); pop None *)
   SStep 0; SStep 0].                             (* push (0,1); post *)
Example last_receiver_drop_drains :
  let s := run true true true init sch_rxdrop in
  Reach true true true s /\ rxp s = 0 /\ txp s = 1 /\ drpd s = [(0, 0)] /\ q s = [(0, 1)] /\ sres (Sd s 0) = true.
Proof. split; [apply reach_run; constructor | vm_compute; auto 10]. Qed.
Example late_push_dropped_at_free :
  let s := run true true true init (sch_rxdrop ++ [DropTx 0; SStep 0; SStep 0; SStep 0; SStep 0; Free]) in
  Reach true true true s /\ freed s = true /\ q s = [] /\ rlog s = [] /\ drpd s = [(0, 0); (0, 1)] /\ sent s = [(0, 0); (0, 1)].
Proof. split; [apply reach_run; constructor | vm_compute; auto 10]. Qed.
