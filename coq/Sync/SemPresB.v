(* Preservation of SemInv.Inv: binv of every blocker.  Assembled from one lemma per control point
   (SemPresBc.v; proof script b_script in SemPresTac.v). *)
From Coq Require Import List Arith ZArith Bool Lia.
Import ListNotations.
Require Import MayV.Sync.SemModel MayV.Sync.SemInv MayV.Sync.SemTac.
Require Export MayV.Sync.SemCase.
Require Import MayV.Sync.SemPresBc.
Open Scope Z_scope.

Lemma pres_B s ac s' b' : Inv s -> step s ac = Some s' -> binv s' b'.
Proof.
  intros Hi H. destruct (is_step ac) eqn:Hn; [|eapply pres_B_env; eassumption].
  destruct ac as [a t|a|a|a|a|a]; try discriminate Hn. destruct (apc (A s a)) eqn:Epc.
  - rewrite (step_idle s a Epc) in H. discriminate H.
  - eapply pres_B_W0; eassumption.
  - eapply pres_B_W0c; eassumption.
  - eapply pres_B_W1; eassumption.
  - eapply pres_B_W2; eassumption.
  - eapply pres_B_WP; eassumption.
  - eapply pres_B_WW; eassumption.
  - eapply pres_B_E1; eassumption.
  - eapply pres_B_E2; eassumption.
  - eapply pres_B_E3; eassumption.
  - eapply pres_B_E4; eassumption.
  - eapply pres_B_P0; eassumption.
  - eapply pres_B_K1; eassumption.
  - eapply pres_B_K2; eassumption.
  - eapply pres_B_K3; eassumption.
  - eapply pres_B_K4; eassumption.
  - eapply pres_B_Y0; eassumption.
  - eapply pres_B_Y0c; eassumption.
  - eapply pres_B_G0; eassumption.
Qed.
