From Coq Require Import List Arith ZArith Bool Lia.
Import ListNotations.
Require Import MayV.Sync.SemModel MayV.Sync.SemInv MayV.Sync.SemTac.
Open Scope Z_scope.

Lemma pres_B s ac s' b' : Inv s -> step s ac = Some s' -> binv s' b'.
Proof.
  intros Hi H. g_facts Hi. pose proof (IB _ Hi b') as Hb'. unfold binv in Hb'. cbn zeta in Hb'.
  step_cases H; unfold binv, mk; cbn [cnt q nextb A Bk ini uposts succ ung giv pre hand owe]; try exact Hb'.
  all: a_facts Hi a; b_facts Hi (ab (A s a)); b_facts Hi (aw (A s a)).
  all: upd_tac; cbn [tok parked reason unp rel owner fresh] in *; lists.
  all: repeat match goal with e : ?v = _ |- _ => is_var v; subst v end.
  all: repeat match goal with e : owner _ = _ |- _ => progress (rewrite e in * ) end.
  all: brk; repeat match goal with |- _ /\ _ => split end; intros; brk; ap; brk; try mem.
  all: try match goal with H : (nextb ?s <= ?b)%nat -> _ |- unp (Bk ?s ?b) = false /\ _ => apply H; lia end.
  all: try (destruct (unp (Bk s (ab (A s a)))); brk; auto; fail).
Qed.
