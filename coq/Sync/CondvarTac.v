From Coq Require Import List Arith ZArith Bool Lia.
Import ListNotations.
Require Import MayV.Sync.CondvarModel MayV.Sync.CondvarInv.
Open Scope Z_scope.

Definition actor_of (ac : action) : option nat :=
  match ac with
  | Lock a | Unlock a _ | Wait a _ _ | NotifyOne a | NotifyAll a | Step a | Resume a | Choose a _ | Cancel a => Some a
  | Tick _ => None end.

Ltac inv_some :=
  match goal with H : Some _ = Some _ |- _ => inversion H; subst; clear H end.
(* case analysis of one step: H : step s ac = Some s' with ac already destructed *)
Ltac step_cases H :=
  unfold step, forward, ret_pc, after_unlock, after_park, leave_err in H;
  repeat match type of H with
  | context [match apc ?x with _ => _ end] => let E := fresh "Epc" in destruct (apc x) eqn:E
  | context [match mx ?s with _ => _ end] => let E := fresh "Emx" in destruct (mx s) eqn:E
  | context [match q ?s with _ => _ end] => let E := fresh "Eq" in destruct (q s) eqn:E
  | context [match actx ?x with _ => _ end] => let E := fresh "Ectx" in destruct (actx x) eqn:E
  | context [match adur ?x with _ => _ end] => let E := fresh "Edur" in destruct (adur x) eqn:E
  | context [if ?c then _ else _] => let E := fresh "Ec" in destruct c eqn:E
  end; try discriminate; cbv beta iota in H; inv_some.

Ltac num :=
  repeat match goal with
  | H : (_ <? _) = true |- _ => apply Z.ltb_lt in H
  | H : (_ <? _) = false |- _ => apply Z.ltb_ge in H
  | H : (_ <=? _) = true |- _ => apply Z.leb_le in H
  | H : (_ <=? _) = false |- _ => apply Z.leb_gt in H
  | H : (_ =? _)%nat = true |- _ => apply Nat.eqb_eq in H
  | H : (_ =? _)%nat = false |- _ => apply Nat.eqb_neq in H
  | H : (_ || _)%bool = true |- _ => apply orb_true_iff in H
  | H : (_ || _)%bool = false |- _ => apply orb_false_iff in H
  | H : (_ && _)%bool = true |- _ => apply andb_true_iff in H
  | H : (_ && _)%bool = false |- _ => apply andb_false_iff in H
  end.

Ltac numd := repeat (num; repeat match goal with H : _ \/ _ |- _ => destruct H | H : _ /\ _ |- _ => destruct H end).

Ltac simp_st :=
  unfold sN, sG, sq, sB, sA, smx, sbound, snow;
  cbn [mx pois bound q nextb now A Bk giv hand held owe flg nuser nall nret fnone].
Ltac simp_st_in H :=
  unfold sN, sG, sq, sB, sA, smx, sbound, snow in H;
  cbn [mx pois bound q nextb now A Bk giv hand held owe flg nuser nall nret fnone] in H.
Ltac simp_act :=
  unfold set_pc, set_call, set_ctx, set_ab, set_aw, set_dl, set_rsn, set_err, set_res, set_dis, set_can, b_tok, b_flag, b_rel, b_settle, fresh;
  cbn [apc ab aw actx aco adur adl acomp rtok rtmo rcan aerr ares ccan cdis cdis0 tok unp rel owner bset bagent tokd].
Ltac simp_act_all :=
  unfold set_pc, set_call, set_ctx, set_ab, set_aw, set_dl, set_rsn, set_err, set_res, set_dis, set_can, b_tok, b_flag, b_rel, b_settle, fresh in *;
  cbn [apc ab aw actx aco adur adl acomp rtok rtmo rcan aerr ares ccan cdis cdis0 tok unp rel owner bset bagent tokd] in *.

Ltac upd_tac :=
  repeat match goal with
  | |- context [upd ?f ?i ?v ?j] =>
      first [ rewrite (upd_eq f i v) | rewrite (upd_neq f i j v) by congruence
            | let e := fresh "e" in let ne := fresh "ne" in
              destruct (Nat.eq_dec j i) as [e|ne];
              [ rewrite e; rewrite (upd_eq f i v) | rewrite (upd_neq f i j v ne) ] ]
  end.
Ltac brk := repeat match goal with
  | H : _ /\ _ |- _ => destruct H
  | H : ?a = ?a -> _ |- _ => specialize (H eq_refl)
  | H : ?P -> _, H' : ?P |- _ => match type of P with Prop => specialize (H H') end
  | H : true = false -> _ |- _ => clear H
  | H : false = true -> _ |- _ => clear H
  | H : (?n <= ?n)%nat -> _ |- _ => specialize (H (le_n _))
  | E : actx ?x = _, H : context [actx ?x] |- _ => rewrite E in H; cbn in H
  | E : apc ?x = _, H : context [apc ?x] |- _ => rewrite E in H; cbn in H
  end.
Ltac lists := rewrite ?nl_cons, ?in_rm, ?in_app_iff in *; cbn [In] in *.
Ltac mem := solve [ assumption | intuition (auto; try congruence; try discriminate; try lia) ].
Ltac nd := repeat match goal with
  | |- NoDup (_ :: _) => constructor
  | |- NoDup (rm _ _) => apply nodup_rm
  | |- NoDup (_ ++ [_]) => apply nodup_snoc
  end; auto.
Ltac rmfix := repeat match goal with
  | |- context [nl (rm ?x ?l)] =>
      first [ rewrite (nl_rm x l) by mem | rewrite (nl_rm_notin x l) by mem ]
  | |- context [nl (_ :: _)] => rewrite nl_cons
  end.
Ltac ap := repeat match goal with
  | H : (1 <= ?b < ?n)%nat -> _ |- _ =>
      let P := fresh "P" in assert (P : (1 <= b < n)%nat) by lia; specialize (H P); clear P
  end.

Ltac m_facts Hm a :=
  let Hx := fresh "Hm" in
  pose proof (Hm a) as Hx; unfold minv, has_mx, in_wait, dis, post_park, post_choice in Hx; cbn zeta in Hx;
  try match goal with E : apc (A _ a) = _ |- _ => rewrite E in Hx end;
  try match goal with E : actx (A _ a) = _ |- _ => rewrite E in Hx end;
  cbn iota in Hx; brk.

(* case analysis that keeps the computed control points (after_unlock ...) folded *)
Ltac step_cases0 H :=
  unfold step, forward in H;
  repeat match type of H with
  | context [match apc ?x with _ => _ end] => let E := fresh "Epc" in destruct (apc x) eqn:E
  | context [match mx ?s with _ => _ end] => let E := fresh "Emx" in destruct (mx s) eqn:E
  | context [match q ?s with _ => _ end] => let E := fresh "Eq" in destruct (q s) eqn:E
  | context [match adur ?x with _ => _ end] => let E := fresh "Edur" in destruct (adur x) eqn:E
  | context [if ?c then _ else _] => let E := fresh "Ec" in destruct c eqn:E
  end; try discriminate; cbv beta iota in H; inv_some.

Lemma cls_after_unlock x : cls_of (after_unlock x) = COwn.
Proof. unfold after_unlock. destruct (aco x); reflexivity. Qed.
Lemma cls_after_park x : cls_of (after_park x) = CRes.
Proof. unfold after_park. destruct (aco x); reflexivity. Qed.
Lemma cls_leave_err x : cls_of (leave_err x) = CNone.
Proof. unfold leave_err. destruct (aco x); reflexivity. Qed.
Lemma cls_ret_pc x : cls_of (ret_pc x) = CNone.
Proof. unfold ret_pc, leave_err. destruct (actx x), (aco x); reflexivity. Qed.
Ltac clsr := rewrite ?cls_after_unlock, ?cls_after_park, ?cls_leave_err, ?cls_ret_pc in *.
