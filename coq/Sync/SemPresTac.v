(* Proof scripts of the preservation lemmas of SemInv.Inv (ainv of the stepping actor, ainv of another
   actor, binv), one Ltac each.  The lemmas are proved per control point of the stepping actor
   (SemCase.step_at), a few control points per file (SemPresAa.., SemPresOa.., SemPresBc.v), so that the
   files build in parallel; SemPresA.v / SemPresO.v / SemPresB.v assemble them by an explicit case split. *)
From Coq Require Import List Arith ZArith Bool Lia.
Import ListNotations.
Require Import MayV.Sync.SemModel MayV.Sync.SemInv MayV.Sync.SemTac MayV.Sync.SemCase.
Open Scope Z_scope.

Ltac prjs := cbn [cnt q nextb A Bk ini uposts succ ung giv pre hand owe].
Ltac flds := cbn [apc ab aw actx atimed acomp av ares tok parked reason unp rel owner fresh].
Ltac flds_all := cbn [apc ab aw actx atimed acomp av ares tok parked reason unp rel owner fresh] in *.

(* ainv of the stepping actor; goal: ainv s' a, one goal per branch of the step.
   The return context is split only where the step returns through ret_pc. *)
Ltac as_script Hi s a :=
  unfold ainv, sorted_into, mk, set_pc, set_ctx, set_res, set_av; prjs;
  try match goal with |- context [ret_pc _] => destruct (actx (A s a)) eqn:Ectx; cbn [ret_pc] end;
  a_facts Hi a; b_facts Hi (ab (A s a)); b_facts Hi (aw (A s a)); b_facts Hi (nextb s);
  try match goal with E : NoDup (?n :: _) |- _ => b_facts Hi n; inversion E; subst end;
  try match goal with E : q _ = _ :: _ |- _ => rewrite E in * end;
  upd_tac; unfold inpark; flds; lists;
  cbn [apc ab aw actx atimed acomp av ares] in *;
  try match goal with e : ab (A ?s0 ?a0) = aw (A ?s0 ?a0) |- _ => rewrite e in * end;
  try match goal with e : aw (A ?s0 ?a0) = ab (A ?s0 ?a0) |- _ => rewrite e in * end;
  repeat match goal with E : apc _ = _ |- _ => rewrite E end;
  try match goal with Ec : actx _ = _ |- _ => rewrite Ec end;
  brk; repeat match goal with |- _ /\ _ => split end; intros; brk; ap; brk; try mem;
  try match goal with Q : forall b, ?n = b \/ _ -> (1 <= b < _)%nat |- _ => specialize (Q n (or_introl eq_refl)); lia end.

(* ainv of another actor a'; Hx : a <> a'; the goal is ainv s' a' *)
Ltac ao_script Hi s a a' Hx :=
  let Ha' := fresh "Ha'" in let L1 := fresh "L1" in let L2 := fresh "L2" in let L3 := fresh "L3" in
  let L4 := fresh "L4" in let L5 := fresh "L5" in let L6 := fresh "L6" in let Hp := fresh "Hp" in
  pose proof (IA _ Hi a') as Ha';
  unfold ainv, sorted_into, mk, set_pc, set_ctx, set_res, set_av in *; cbn [cnt q nextb A Bk ini uposts succ ung giv pre hand owe] in *;
  rewrite ?(upd_neq (A s) a a') by congruence;
  try exact Ha';
  destruct Ha' as (L1 & L2 & L3 & L4 & L5 & L6);
  pose proof (KD _ Hi a a' Hx) as HKD;
  a_facts Hi a; b_facts Hi (ab (A s a)); b_facts Hi (aw (A s a));
  try match goal with E : NoDup (?n :: _) |- _ => b_facts Hi n; inversion E; subst end;
  try match goal with E : q _ = _ :: _ |- _ => rewrite E in * end;
  (split; [lia|split;[lia|split;[lists; mem|split;[lists; mem|split;
        [intro Hp; specialize (L5 Hp); clear L6 | clear L5; destruct (apc (A s a')) eqn:Epc'; try exact I]]]]]);
  upd_tac; flds_all; lists;
  repeat match goal with e : ab (A _ _) = _ |- _ => progress (rewrite e in * ) | e : aw (A _ _) = _ |- _ => progress (rewrite e in * ) end;
  brk; repeat match goal with |- _ /\ _ => split end; intros; brk; try mem.

(* binv of a blocker b'; Hb' : binv s b' unfolded; the goal is binv s' b' *)
Ltac b_script Hi s a Hb' :=
  unfold binv, mk; prjs; try exact Hb';
  a_facts Hi a;
  upd_tac; cbn [tok parked reason unp rel owner fresh] in *; lists;
  repeat match goal with e : ?v = _ |- _ => is_var v; subst v end;
  repeat match goal with e : owner _ = _ |- _ => progress (rewrite e in * ) end;
  brk; repeat match goal with |- _ /\ _ => split end; intros; brk; ap; brk; try mem;
  try match goal with H : (nextb ?s0 <= ?b)%nat -> _ |- unp (Bk ?s0 ?b) = false /\ _ => apply H; lia end;
  try (destruct (unp (Bk s (ab (A s a)))); brk; auto; fail).
