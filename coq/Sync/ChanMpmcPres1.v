(* mpmc channel invariant, preservation part 1: the receiver lists (hold / waiters / rep) follow the control points. *)
From Coq Require Import List Arith Bool Lia.
Import ListNotations.
Require Import MayV.Sync.ChanMpmcModel MayV.Sync.ChanMpmcInv.
Require Import MayV.Sync.ChanMpmcTac.
Definition rlinks (s : st) (r : nat) : Prop :=
  let x := Rv s r in
  (In r (hold s) <-> rp x = Y2 \/ (rp x = WB /\ rgr x = true)) /\
  (In r (wq s) <-> rp x = WB /\ rgr x = false) /\
  (In r (rep s) <-> inrep (rp x) = true).

Lemma rinv_links s r : rinv s r -> rlinks s r.
Proof. unfold rinv, rlinks. tauto. Qed.


Lemma pres_links c s ac s' : Inv s -> step true true c s ac = Some s' -> forall r, rlinks s' r.
Proof.
  intros Hi H r0. pose proof (rinv_links _ _ (I_R _ Hi r0)) as P. unfold rlinks in *.
  destruct (I_nd _ Hi) as (N1 & N2 & N3 & _).
  step_cases H; boolh; unf; prj.
  all: try match goal with E : rp (Rv ?s0 ?r) = _ |- _ => let Q := fresh "Q" in pose proof (rinv_links _ _ (I_R _ Hi r)) as Q; unfold rlinks in Q; rewrite E in Q; cbn [inrep] in Q end.
  all: try (match goal with |- context [post_wq _] => idtac end; post_cases s; [| let W := fresh "W" in pose proof (rinv_links _ _ (I_R _ Hi w)) as W; unfold rlinks in W; rewrite Ewq in *; inversion N2; subst]).
  all: upd_tac; prj; cbn [inrep]; lists.
  all: repeat match goal with E : rp _ = _ |- _ => rewrite E in * end; cbn [inrep] in *.
  all: fin.
  all: try (lists; fin).
  all: match goal with Est : rst (Rv ?s0 ?t) = Unborn |- _ => let U := fresh "U" in pose proof (I_R _ Hi t) as U; unfold rinv in U; rewrite Est in U; boolh; spec end.
  all: repeat match goal with E : rp _ = _ |- _ => rewrite E in * end; cbn [inrep] in *; fin.
Qed.
