(* C05 - preservation of the per-blocker assertion binv *)
From Coq Require Import List Arith Bool Lia.
Import ListNotations.
Require Import MayV.Sync.MutexModel MayV.Sync.MutexInv.

Section S.
Variable isco : nat -> bool.
Notation step := (step isco).

Lemma pres_B s ac s' b : Inv s -> step s ac = Some s' -> binv s' b.
Proof.
  intros Hi H. destruct (IG _ Hi) as (G1 & G2 & G3 & G4 & G5 & G6).
  pose proof (IB _ Hi b) as Hb0. unfold binv, waiting, halfgone in Hb0.
  step_cases H; try destruct (actx (A s a)) eqn:Ectx.
  all: unfold binv, set_pc, waiting, halfgone, fresh; cbn.
  all: upd_tac; cbn.
  all: try a_facts Hi a.
  all: try (b_facts Hi (ab (A s a)); b_facts Hi (aw (A s a))).
  all: cbn in *; repeat match goal with H : _ && _ = true |- _ => apply andb_prop in H; destruct H end; brk; num.
  all: repeat match goal with |- _ /\ _ => split end; intros; brk; fin.
  all: try (assert (nextb s <= b) by lia; brk; fin).
  all: try rewrite Ectx in *; try rewrite Epc in *; cbn in *; brk; fin.
  all: try (intros; brk; fin).
  all: try (destruct (Nat.eq_dec (owner (Bk s b)) (afor (A s a))) as [eo|neo]; [rewrite eo in *; brk; fin | fin]).
  all: try (exfalso; apply G5; [congruence | apply length_zero_iff_nil; lia]).
  all: try (match goal with H : match apc ?x with _ => _ end = true |- _ => destruct (apc x); cbn in *; try discriminate end; fin).
Qed.
End S.
