(* Inductive invariant of the spsc channel model (ChanSpscModel) for the current code (fixed = true)
   and its preservation. *)
From Coq Require Import List Arith Bool Lia.
Import ListNotations.
Require Import MayV.Sync.ChanSpscModel.

Lemma reach_run f l : forall s, Reach f s -> Reach f (run f s l).
Proof.
  induction l as [|a l IH]; cbn [run]; intros s Hr; [exact Hr|].
  destruct (step f s a) eqn:E; [apply IH; eapply RS; eauto | apply IH; exact Hr].
Qed.

(* regions of the receiver *)
Definition treg (x : rcvr) : bool :=     (* thread receiver: between wait_co.store and the return of recv *)
  match rp x, rc x with
  | (RPop1 | RChk | RPop2), CReg => true
  | (RClear | RPark), _ => true
  | _, _ => false end.
Definition t5reg (x : rcvr) : bool :=
  match rp x, rc x with
  | (RPop1 | RChk | RPop2), CReg => true
  | RPark, _ => true
  | _, _ => false end.
Definition t6reg (x : rcvr) : bool :=
  match rp x, rc x with
  | RChk, CReg => true
  | RPark, _ => true
  | _, _ => false end.
Definition kreg (x : rcvr) : bool :=     (* coroutine receiver: the coroutine is in the slot, with the sender or in the run queue *)
  match rp x with KEmpty | KChans | KTake | RSusp => true | _ => false end.
Definition holdsC (y : sndr) : bool := match sp y, sw y with SUnpark, WC => true | _, _ => false end.
Definition holdsT (y : sndr) : bool := match sp y, sw y with SUnpark, WT => true | _, _ => false end.
Definition slotC (s : st) : bool := match slot s with Some WC => true | _ => false end.

Record Inv (s : st) : Prop := {
  I_rc : match rp (R s) with RClear | RPark => rc (R s) = CReg | _ => True end;
  I_rdata : rp (R s) = RClear -> match rdata (R s) with ROk _ | RDisc => True | _ => False end;
  I_tslot : treg (R s) = true -> slot s = Some WT \/ slot s = None;
  I_kslot : kreg (R s) = true -> slot s = Some WC \/ slot s = None;
  (* the suspended coroutine is in exactly one place *)
  I_c1 : slotC s = true -> kreg (R s) = true /\ runq s = false /\ holdsC (Sn s) = false;
  I_c2 : holdsC (Sn s) = true -> kreg (R s) = true /\ runq s = false;
  I_c3 : runq s = true -> kreg (R s) = true;
  I_c4 : kreg (R s) = true -> slotC s = true \/ holdsC (Sn s) = true \/ runq s = true;
  (* sender *)
  I_s1 : match sp (Sn s) with SChk | SPush | SDrop => salive (Sn s) = true | _ => True end;
  I_s2 : (salive (Sn s) = true -> chans s = 1) /\ (salive (Sn s) = false -> chans s = 0);
  I_s6 : sdead (Sn s) = true -> pdrop s = true /\ (sp (Sn s) = SChk \/ (sp (Sn s) = SIdle /\ sres (Sn s) = false));
  (* accounting *)
  I_acc : sent s = rcvd s ++ drpd s ++ q s;
  I_drpd : ralive (R s) = true -> rp (R s) <> RPd1 -> drpd s = [];
  I_alive : ralive (R s) = false -> rp (R s) = RIdle;
  I_pd : ralive (R s) = false \/ rp (R s) = RPd1 -> pdrop s = true;
  I_ord : sent s = seq 0 (sn (Sn s));
  (* no lost wake-up, thread receiver *)
  I_t5 : t5reg (R s) = true -> slot s = None -> ttok s = true \/ holdsT (Sn s) = true;
  I_t6 : t6reg (R s) = true -> slot s <> None -> q s <> [] -> sp (Sn s) = STake;
  I_t7 : rp (R s) = RPark -> slot s <> None -> chans s = 0 -> sp (Sn s) = STake;
  (* no lost wake-up, coroutine receiver *)
  I_c6 : rp (R s) = KChans \/ rp (R s) = RSusp -> slotC s = true -> q s <> [] -> sp (Sn s) = STake;
  I_c7 : rp (R s) = RSusp -> slotC s = true -> chans s = 0 -> sp (Sn s) = STake;
  (* disconnect *)
  I_d1 : rp (R s) = RPop2 -> chans s = 0;
  I_d2 : (rp (R s) = RClear /\ rdata (R s) = RDisc) \/ (rp (R s) = RIdle /\ rres (R s) = RDisc) -> chans s = 0 /\ q s = [];
  I_r1 : rdead (R s) = true -> chans s = 0;
  I_r2 : rdead (R s) = true -> match rp (R s) with RPark | RSusp | KStore | KEmpty | KChans | KTake | KRun | RStore => False | _ => True end;
  I_r3 : rdead (R s) = true -> rp (R s) = RIdle -> match rres (R s) with REmpty => False | _ => True end
}.

Lemma is0_true n : is0 n = true -> n = 0.
Proof. unfold is0. apply Nat.eqb_eq. Qed.
Lemma is0_false n : is0 n = false -> n <> 0.
Proof. unfold is0. apply Nat.eqb_neq. Qed.
Lemma is_idle_true x : is_idle x = true -> rp x = RIdle /\ ralive x = true.
Proof. unfold is_idle. destruct (rp x); try discriminate. auto. Qed.
Lemma s_ready_true y : s_ready y = true -> sp y = SIdle /\ salive y = true.
Proof. unfold s_ready. destruct (sp y); try discriminate. auto. Qed.

Ltac inv_some := match goal with H : Some _ = Some _ |- _ => inversion H; subst; clear H end.
Ltac step_cases H :=
  unfold step in H;
  repeat match type of H with
  | context [match ?ac with TryRecv => _ | Recv _ => _ | DropPort => _ | RStep => _ | Worker => _ | Spur => _ | RCan => _ | Send => _ | DropChan => _ | SStep => _ | Free => _ end] => destruct ac
  | context [is_idle ?x] => let E := fresh "Eid" in destruct (is_idle x) eqn:E
  | context [s_ready ?y] => let E := fresh "Erd" in destruct (s_ready y) eqn:E
  | context [match rp ?x with _ => _ end] => let E := fresh "Erp" in destruct (rp x) eqn:E
  | context [match sp ?y with _ => _ end] => let E := fresh "Esp" in destruct (sp y) eqn:E
  | context [match sw ?y with _ => _ end] => let E := fresh "Esw" in destruct (sw y) eqn:E
  | context [match q ?s with _ => _ end] => let E := fresh "Eq" in destruct (q s) eqn:E
  | context [match slot ?s with _ => _ end] => let E := fresh "Esl" in destruct (slot s) as [[|]|] eqn:E
  | context [if ?c then _ else _] => let E := fresh "Ec" in destruct c eqn:E
  end; try discriminate; cbv beta iota in H; inv_some.
Ltac unf := unfold mk, r_data, r_empty, r_set, r_ret, r_start, r_gone, s_pc, s_call, s_res, s_pushed, s_took, s_dead in *.
Ltac prj := cbn [q slot chans pdrop ttok runq R Sn sent rcvd drpd freed rp rc rapi rco rres rdata ralive rdead sp sw salive sres sdead sn] in *.
Ltac boolh :=
  repeat match goal with
  | H : _ && _ = true |- _ => apply andb_prop in H; destruct H
  | H : negb _ = true |- _ => apply negb_true_iff in H
  | H : is0 _ = true |- _ => apply is0_true in H
  | H : is0 _ = false |- _ => apply is0_false in H
  | H : _ /\ _ |- _ => destruct H
  | H : is_idle _ = true |- _ => apply is_idle_true in H; destruct H
  | H : s_ready _ = true |- _ => apply s_ready_true in H; destruct H
  end.
Ltac rw :=
  repeat match goal with
  | E : rp (R ?s) = _ |- _ => progress (rewrite E in * )
  | E : rc (R ?s) = _ |- _ => progress (rewrite E in * )
  | E : rco (R ?s) = _ |- _ => progress (rewrite E in * )
  | E : sp (Sn ?s) = _ |- _ => progress (rewrite E in * )
  | E : sw (Sn ?s) = _ |- _ => progress (rewrite E in * )
  | E : q ?s = _ |- _ => progress (rewrite E in * )
  | E : slot ?s = _ |- _ => progress (rewrite E in * )
  | E : ttok ?s = _ |- _ => progress (rewrite E in * )
  | E : runq ?s = _ |- _ => progress (rewrite E in * )
  end.
Ltac rdes := repeat match goal with
  | |- context [match rc (R ?s) with _ => _ end] => let E := fresh "Erc" in destruct (rc (R s)) eqn:E
  | |- context [if rco (R ?s) then _ else _] => let E := fresh "Erco" in destruct (rco (R s)) eqn:E
  | |- context [match rp (R ?s) with _ => _ end] => let E := fresh "Erp" in destruct (rp (R s)) eqn:E
  | |- context [match sp (Sn ?s) with _ => _ end] => let E := fresh "Esp" in destruct (sp (Sn s)) eqn:E
  | |- context [match sw (Sn ?s) with _ => _ end] => let E := fresh "Esw" in destruct (sw (Sn s)) eqn:E
  | |- context [match slot ?s with _ => _ end] => let E := fresh "Esl" in destruct (slot s) as [[|]|] eqn:E
  end.
Ltac cb := cbn [treg t5reg t6reg kreg holdsC holdsT slotC
                q slot chans pdrop ttok runq R Sn sent rcvd drpd freed rp rc rapi rco rres rdata ralive rdead sp sw salive sres sdead sn] in *.
Ltac go H := step_cases H; boolh; unf;
  try (match goal with E : rp (R _) = _ |- _ => unfold treg, t5reg, t6reg, kreg in * end);
  try (match goal with E : sp (Sn _) = _ |- _ => unfold holdsC, holdsT in * end);
  try (match goal with E : slot _ = _ |- _ => unfold slotC in * end);
  cb; rw; rdes; cb; rw.
Ltac bcase := match goal with
  | |- ?b = false => destruct b eqn:?; [exfalso | reflexivity]
  | |- ?b = true => destruct b eqn:?; [reflexivity | exfalso]
  end.
Lemma t5_treg x : t5reg x = true -> treg x = true.
Proof. unfold t5reg, treg. destruct (rp x), (rc x); auto. Qed.
Lemma t6_t5 x : t6reg x = true -> t5reg x = true.
Proof. unfold t5reg, t6reg. destruct (rp x), (rc x); auto. Qed.
Lemma treg_kreg x : treg x = true -> kreg x = true -> False.
Proof. unfold kreg, treg. destruct (rp x), (rc x); discriminate. Qed.
Ltac regfacts := repeat match goal with
  | H : t6reg ?x = true |- _ => lazymatch goal with _ : t5reg x = true |- _ => fail | _ => pose proof (t6_t5 x H) end
  | H : t5reg ?x = true |- _ => lazymatch goal with _ : treg x = true |- _ => fail | _ => pose proof (t5_treg x H) end
  | H : treg ?x = true, K : kreg ?x = true |- _ => exfalso; exact (treg_kreg x H K)
  end.
Ltac fin0 := try solve [ tauto | congruence | lia | discriminate | intuition (try congruence; try lia; try discriminate) ].
Ltac fin := intros; boolh; repeat match goal with |- _ /\ _ => split end; fin0; try (regfacts; fin0); try (bcase; fin0).

Lemma inv_init : Inv init.
Proof.
  constructor; cbn; try tauto; try discriminate; try (intros; discriminate); auto.
  - split; intros; congruence.
  - intros [?|?]; discriminate.
  - intros [[? ?]|[? ?]]; discriminate.
Qed.
