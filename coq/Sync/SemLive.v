(* Second ghost overlay on SemModel (the first one is in SemPop.v): who popped a blocker, whether the
   wake-up token was delivered, and how each registered blocker was settled.  The overlay is stepped
   alongside the model (`lstep`), never read by it; `ReachL` projects onto and lifts from `Reach`.

     ag b   the agent that popped b (wakeup_one's pop)
     dl b   the token of b has been set (K3 executed on b)
     rp b   number of decisions to re-post the permit handed to b (owner at E1 / E4, agent at K4)
     sc b   number of successful returns of b's owner from its park
     fl b   b's owner came back from the park with Timeout / Canceled

   Definitions and the overlay invariant only; preservation is in SemLive{A,B,C,D}.v, theorems in SemLiveThm.v. *)
From Coq Require Import List Arith ZArith Bool Lia.
Import ListNotations.
Require Import MayV.Sync.SemModel MayV.Sync.SemInv.
Open Scope Z_scope.

Record lv := { ag : nat -> nat; dl : nat -> bool; rp : nat -> nat; sc : nat -> nat; fl : nat -> bool }.
Definition lv0 : lv := {| ag := fun _ => O; dl := fun _ => false; rp := fun _ => O; sc := fun _ => O; fl := fun _ => false |}.

Definition set_ag (o : lv) f := {| ag := f; dl := dl o; rp := rp o; sc := sc o; fl := fl o |}.
Definition set_dl (o : lv) f := {| ag := ag o; dl := f; rp := rp o; sc := sc o; fl := fl o |}.
Definition set_rp (o : lv) f := {| ag := ag o; dl := dl o; rp := f; sc := sc o; fl := fl o |}.
Definition set_sc (o : lv) f := {| ag := ag o; dl := dl o; rp := rp o; sc := f; fl := fl o |}.
Definition set_fl (o : lv) f := {| ag := ag o; dl := dl o; rp := rp o; sc := sc o; fl := f |}.

Definition lstep (s : st) (o : lv) (ac : action) : lv :=
  match ac with
  | Step a =>
      let x := A s a in let b := ab x in let w := aw x in
      match apc x with
      | K1 => match q s with v :: _ => set_ag o (upd (ag o) v a) | [] => o end
      | K3 => set_dl o (upd (dl o) w true)
      | K4 => if rel (Bk s w) then set_rp o (upd (rp o) w (S (rp o w))) else o
      | E1 => if unp (Bk s b) then set_rp o (upd (rp o) b (S (rp o b))) else o
      | E4 => if rel (Bk s b) then set_rp o (upd (rp o) b (S (rp o b))) else o
      | WP => if tok (Bk s b) then set_sc o (upd (sc o) b (S (sc o b))) else o
      | WW => match reason (Bk s b) with
              | Some RU => set_sc o (upd (sc o) b (S (sc o b)))
              | Some RT => set_fl o (upd (fl o) b true)
              | None => o end
      | _ => o
      end
  | _ => o
  end.

Inductive ReachL (i : Z) : st -> lv -> Prop :=
| RL0 : ReachL i (init i) lv0
| RLS s o a s' : ReachL i s o -> step s a = Some s' -> ReachL i s' (lstep s o a).

Lemma reachL_reach i s o : ReachL i s o -> Reach i s.
Proof. induction 1; [constructor | econstructor; eauto]. Qed.
Lemma reach_reachL i s : Reach i s -> exists o, ReachL i s o.
Proof. induction 1 as [|s a s' R [o IH] H]; [eexists; constructor | eexists; econstructor; eauto]. Qed.

(* the owner of b, and where it is with respect to its park on b *)
Definition own (s : st) (b : nat) : nat := owner (Bk s b).
Definition prepark (x : act) : bool := match apc x with W2 | WP => true | _ => inpark x end.
Definition attpc (x : act) : bool := match apc x with WP | WW | E1 | E2 | E3 | E4 => true | _ => inpark x end.
(* b's owner is still inside the wait that registered b *)
Definition att (s : st) (b : nat) : Prop := ab (A s (own s b)) = b /\ attpc (A s (own s b)) = true.
(* the agent that popped b still holds it *)
Definition holds3 (s : st) (o : lv) (b : nat) : Prop := aw (A s (ag o b)) = b /\ apc (A s (ag o b)) = K3.
Definition holds34 (s : st) (o : lv) (b : nat) : Prop :=
  aw (A s (ag o b)) = b /\ (apc (A s (ag o b)) = K3 \/ apc (A s (ag o b)) = K4).

Definition agentpc (p : pc) : bool := match p with K2 | K3 | K4 => true | _ => false end.

Definition L1 (s : st) (o : lv) : Prop := forall a, agentpc (apc (A s a)) = true ->
  ag o (aw (A s a)) = a /\ ~ In (aw (A s a)) (q s) /\ (1 <= aw (A s a) < nextb s)%nat.
Definition L2 (s : st) (o : lv) : Prop := forall b, In b (giv s) -> att s b \/ (rel (Bk s b) = true /\ holds34 s o b).
Definition L3 (s : st) (o : lv) : Prop := forall b, In b (ung s) -> att s b \/ rel (Bk s b) = true.
Definition L4 (s : st) (o : lv) : Prop := forall b, unp (Bk s b) = true -> dl o b = true \/ holds3 s o b.
Definition L5 (s : st) (o : lv) : Prop := forall b, dl o b = true -> ab (A s (own s b)) = b ->
  (apc (A s (own s b)) = WW -> reason (Bk s b) <> None) /\ (prepark (A s (own s b)) = true -> tok (Bk s b) = true).
Definition L6 (s : st) (o : lv) : Prop := forall a, apc (A s a) = WW -> parked (Bk s (ab (A s a))) = true.
Definition L7 (s : st) (o : lv) : Prop := forall b, (nextb s <= b)%nat ->
  dl o b = false /\ rp o b = O /\ sc o b = O /\ fl o b = false.
Definition L8 (s : st) (o : lv) : Prop := forall b,
  (rp o b + sc o b <= 1)%nat /\
  ((rp o b + sc o b = 1)%nat -> ~ In b (giv s) /\ ~ In b (ung s) /\ ~ In b (pre s) /\ unp (Bk s b) = true /\
                                ~ (apc (A s (own s b)) = W2 /\ ab (A s (own s b)) = b)) /\
  (unp (Bk s b) = true -> ~ In b (giv s) -> ~ In b (pre s) -> (rp o b + sc o b = 1)%nat).
Definition L9 (s : st) (o : lv) : Prop := forall b,
  ((sc o b = 1%nat \/ fl o b = true) -> ab (A s (own s b)) = b -> prepark (A s (own s b)) = false /\ apc (A s (own s b)) <> WW) /\
  (fl o b = true -> sc o b = O).

Record LInv (s : st) (o : lv) : Prop := {
  IL1 : L1 s o; IL2 : L2 s o; IL3 : L3 s o; IL4 : L4 s o; IL5 : L5 s o; IL6 : L6 s o; IL7 : L7 s o; IL8 : L8 s o; IL9 : L9 s o }.

Lemma linv_init i : LInv (init i) lv0.
Proof.
  constructor; unfold L1, L2, L3, L4, L5, L6, L7, L8, L9; cbn; intros; try discriminate; try tauto;
    repeat split; intros; try discriminate; try tauto; try lia; auto.
  all: try (destruct H; discriminate).
Qed.
