(* C11.iii: Barrier(n) as a client of CondvarModel *)
From Coq Require Import List Arith ZArith Bool Lia.
Import ListNotations.
Require Import MayV.Sync.CondvarModel MayV.Sync.CondvarInv MayV.Sync.CondvarTac MayV.Sync.CondvarPresM MayV.Sync.CondvarThm MayV.Sync.BarrierModel.

Close Scope Z_scope.
Open Scope nat_scope.

Section BarrierProofs.
Variable n : nat.
Hypothesis n_pos : 1 <= n.

Lemma bupd_eq {X} (f : nat -> X) i v : bupd f i v i = v.
Proof. unfold bupd. now rewrite Nat.eqb_refl. Qed.
Lemma bupd_neq {X} (f : nat -> X) i j v : j <> i -> bupd f i v j = f j.
Proof. unfold bupd. intros H. destruct (Nat.eqb_spec j i); congruence. Qed.

Ltac bcases H :=
  unfold bstep in H;
  repeat match type of H with
  | context [match bpc ?s ?a with _ => _ end] => let E := fresh "Eb" in destruct (bpc s a) eqn:E
  | context [match step ?c ?x with _ => _ end] => let E := fresh "Es" in destruct (step c x) eqn:E
  | context [if ?c then _ else _] => let E := fresh "Ec" in destruct c eqn:E
  end; try discriminate; inv_some.
Ltac bsimp := unfold set_bpc, set_cs; cbn [cs cnt gen bpc lgen bco arr ldr ret lret inl viol].
Ltac bupd_tac :=
  repeat match goal with
  | |- context [bupd ?f ?i ?v ?j] =>
      first [ rewrite (bupd_eq f i v) | rewrite (bupd_neq f i j v) by congruence
            | let e := fresh "e" in let ne := fresh "ne" in
              destruct (Nat.eq_dec j i) as [e|ne];
              [ rewrite e; rewrite (bupd_eq f i v) | rewrite (bupd_neq f i j v ne) ] ]
  end.

(* every state of the barrier program sits on a reachable state of the Condvar model *)
Lemma breach_reach s : BReach n s -> Reach (cs s).
Proof.
  intro R. induction R as [|s ac s' R IH H]; [constructor|].
  destruct ac; bcases H; bsimp; try assumption; eapply RS; eauto.
Qed.

(* ---------------------------------------------------------------------------------------- counting *)
Definition cntl (g : nat) (lg : nat -> nat) (l : list nat) : nat := length (filter (fun a => Nat.eqb (lg a) g) l).

Lemma cntl_bupd_notin g lg a v l : ~ In a l -> cntl g (bupd lg a v) l = cntl g lg l.
Proof.
  unfold cntl. induction l as [|x l IH]; cbn; intro N; [reflexivity|].
  rewrite bupd_neq by tauto. destruct (Nat.eqb (lg x) g); cbn; rewrite IH by tauto; reflexivity.
Qed.
Lemma cntl_cons g lg a l : cntl g lg (a :: l) = (if Nat.eqb (lg a) g then 1 else 0) + cntl g lg l.
Proof. unfold cntl. cbn. destruct (Nat.eqb (lg a) g); reflexivity. Qed.
Lemma cntl_rm g lg a l : NoDup l -> In a l -> cntl g lg l = (if Nat.eqb (lg a) g then 1 else 0) + cntl g lg (rm a l).
Proof.
  unfold cntl, rm. induction l as [|x l IH]; cbn; intros N I; [tauto|]. inversion N; subst.
  destruct (Nat.eq_dec a x) as [->|ne].
  - rewrite notin_remove by assumption. destruct (Nat.eqb (lg x) g); reflexivity.
  - destruct I as [->|I]; [congruence|]. cbn. specialize (IH H2 I).
    destruct (Nat.eqb (lg x) g); cbn; rewrite IH; destruct (Nat.eqb (lg a) g); lia.
Qed.

Record BInvC (s : bst) : Prop := {
  C_cnt : cnt s < n /\ arr s (gen s) = cnt s;
  C_past : forall g, g < gen s -> arr s g = n;
  C_fut : forall g, gen s < g -> arr s g = 0;
  C_ldr : forall g, ldr s g = if Nat.ltb g (gen s) then 1 else 0;
  C_acc : forall g, arr s g = ret s g + ldr s g + cntl g (lgen s) (inl s);
  C_exit : forall a, bpc s a = BExit -> lgen s a < gen s;
  C_ret : forall g, 0 < ret s g -> g < gen s;
  C_inl : forall a, In a (inl s) <-> (bpc s a = BLoop \/ bpc s a = BWait \/ bpc s a = BExit \/ bpc s a = BGone);
  C_nd : NoDup (inl s);
  C_lg : forall a, In a (inl s) -> lgen s a <= gen s }.

Lemma binvc_init : BInvC (binit).
Proof. constructor; cbn; intros; try lia; try tauto; try constructor; try (intuition discriminate). Qed.

Ltac bnum :=
  repeat match goal with
  | H : (_ <? _) = true |- _ => apply Nat.ltb_lt in H
  | H : (_ <? _) = false |- _ => apply Nat.ltb_ge in H
  | H : (_ =? _) = true |- _ => apply Nat.eqb_eq in H
  | H : (_ =? _) = false |- _ => apply Nat.eqb_neq in H
  end.
Ltac ltb_cases := repeat (match goal with
  | |- context [?x <? ?y] => let E := fresh "El" in destruct (x <? y) eqn:E
  | H : context [if ?x <? ?y then _ else _] |- _ => let E := fresh "El" in destruct (x <? y) eqn:E
  | |- context [?x =? ?y] => let E := fresh "Ee" in destruct (x =? y) eqn:E
  | H : context [if ?x =? ?y then _ else _] |- _ => let E := fresh "Ee" in destruct (x =? y) eqn:E
  end; bnum).
Ltac bfin := repeat match goal with e : ?v = _ |- _ => is_var v; subst v end; try solve [intuition (auto; try discriminate; try congruence; try lia)].

(* one lemma per clause; the common preamble *)
Ltac bstart s ac Hi H :=
  destruct ac; bcases H; bsimp; bnum;
  try match goal with Eb : bpc _ ?a = _ |- _ =>
    pose proof (C_inl _ Hi a) as Cia; rewrite Eb in Cia;
    try (assert (Na : ~ In a (inl s)) by (let K := fresh "K" in intro K; apply Cia in K; intuition discriminate));
    try (assert (Ia : In a (inl s)) by (apply Cia; auto)) end.

Lemma bc_cnt s ac s' : BInvC s -> bstep n s ac = Some s' -> cnt s' < n /\ arr s' (gen s') = cnt s'.
Proof.
  intros Hi H. pose proof (C_cnt _ Hi) as [Cc Ca]. pose proof (C_fut _ Hi (S (gen s))) as Cf.
  bstart s ac Hi H; bupd_tac; bfin.
Qed.
Lemma bc_past s ac s' : BInvC s -> bstep n s ac = Some s' -> forall g, g < gen s' -> arr s' g = n.
Proof.
  intros Hi H. pose proof (C_cnt _ Hi) as [Cc Ca].
  bstart s ac Hi H; try exact (C_past _ Hi); intros g Hg; pose proof (C_past _ Hi g) as Cp; bupd_tac; bfin.
Qed.
Lemma bc_fut s ac s' : BInvC s -> bstep n s ac = Some s' -> forall g, gen s' < g -> arr s' g = 0.
Proof.
  intros Hi H.
  bstart s ac Hi H; try exact (C_fut _ Hi); intros g Hg; pose proof (C_fut _ Hi g) as Cp; bupd_tac; bfin.
Qed.
Lemma bc_ldr s ac s' : BInvC s -> bstep n s ac = Some s' -> forall g, ldr s' g = if Nat.ltb g (gen s') then 1 else 0.
Proof.
  intros Hi H.
  bstart s ac Hi H; try exact (C_ldr _ Hi); intros g; pose proof (C_ldr _ Hi g) as Cp; bupd_tac; ltb_cases; bfin.
Qed.
Lemma bc_acc s ac s' : BInvC s -> bstep n s ac = Some s' -> forall g, arr s' g = ret s' g + ldr s' g + cntl g (lgen s') (inl s').
Proof.
  intros Hi H. pose proof (C_nd _ Hi) as Cn.
  bstart s ac Hi H; try exact (C_acc _ Hi); intros g; pose proof (C_acc _ Hi g) as Cp.
  all: rewrite ?cntl_cons; bupd_tac; try rewrite cntl_bupd_notin by assumption.
  all: repeat match goal with e : ?v = _ |- _ => is_var v; subst v end.
  all: try match goal with |- context [cntl ?g _ (rm ?x _)] => rewrite (cntl_rm g (lgen s) x (inl s) Cn Ia) in Cp end.
  all: rewrite ?Nat.eqb_refl in *; ltb_cases; bfin.
Qed.
Lemma bc_exit s ac s' : BInvC s -> bstep n s ac = Some s' -> forall x, bpc s' x = BExit -> lgen s' x < gen s'.
Proof.
  intros Hi H. 
  bstart s ac Hi H; try exact (C_exit _ Hi); intros x; pose proof (C_exit _ Hi x) as Cp; pose proof (C_lg _ Hi x) as Cl; pose proof (C_inl _ Hi x) as Cix; bupd_tac; bfin.
  all: repeat match goal with |- context [if ?c then _ else _] => destruct c end; bfin.
Qed.
Lemma bc_ret s ac s' : BInvC s -> bstep n s ac = Some s' -> forall g, 0 < ret s' g -> g < gen s'.
Proof.
  intros Hi H.
  bstart s ac Hi H; try exact (C_ret _ Hi); intros g; pose proof (C_ret _ Hi g) as Cp; try pose proof (C_exit _ Hi a) as Ce; bupd_tac; bfin.
Qed.
Lemma bc_inl s ac s' : BInvC s -> bstep n s ac = Some s' ->
  forall x, In x (inl s') <-> (bpc s' x = BLoop \/ bpc s' x = BWait \/ bpc s' x = BExit \/ bpc s' x = BGone).
Proof.
  intros Hi H.
  bstart s ac Hi H; try exact (C_inl _ Hi); intros x; pose proof (C_inl _ Hi x) as Cp; bupd_tac; cbn [In]; rewrite ?in_rm; bfin.
  all: repeat match goal with |- context [if ?c then _ else _] => destruct c end; bfin.
Qed.
Lemma bc_nd s ac s' : BInvC s -> bstep n s ac = Some s' -> NoDup (inl s').
Proof.
  intros Hi H. pose proof (C_nd _ Hi) as Cn.
  bstart s ac Hi H; try assumption; try (apply nodup_rm; assumption); constructor; assumption.
Qed.
Lemma bc_lg s ac s' : BInvC s -> bstep n s ac = Some s' -> forall x, In x (inl s') -> lgen s' x <= gen s'.
Proof.
  intros Hi H.
  bstart s ac Hi H; try exact (C_lg _ Hi); intros x; pose proof (C_lg _ Hi x) as Cp; bupd_tac; cbn [In]; rewrite ?in_rm; bfin.
Qed.

Lemma binvc_step s ac s' : BInvC s -> bstep n s ac = Some s' -> BInvC s'.
Proof.
  intros Hi H. constructor.
  - eapply bc_cnt; eauto.
  - eapply bc_past; eauto.
  - eapply bc_fut; eauto.
  - eapply bc_ldr; eauto.
  - eapply bc_acc; eauto.
  - eapply bc_exit; eauto.
  - eapply bc_ret; eauto.
  - eapply bc_inl; eauto.
  - eapply bc_nd; eauto.
  - eapply bc_lg; eauto.
Qed.
Lemma binvc_reach s : BReach n s -> BInvC s.
Proof. intro R. induction R; [apply binvc_init | eapply binvc_step; eauto]. Qed.

(* ---------------------------------------------------------------------------------------- the data is accessed under the mutex *)
Definition jcl (p : bpcT) (c : st) (a : nat) : Prop :=
  let x := A c a in
  match p with
  | BIdle => apc x = Idle /\ mx c <> Some a
  | BIn | BLoop | BExit | BExitL => apc x = Idle /\ mx c = Some a
  | BNotify => (apc x = A1 \/ apc x = A2 \/ apc x = A3) /\ mx c = Some a
  | BWait => in_wait x = true
  | BGone => apc x = Dead
  end.
Record BInvJ (s : bst) : Prop := { J_a : forall a, jcl (bpc s a) (cs s) a; J_v : viol s = false }.

Lemma jcl_other p c x c' a' : InvM c -> step c x = Some c' -> actor_of x <> Some a' -> jcl p c a' -> jcl p c' a'.
Proof.
  intros Hm H Hx J. pose proof (frame_A _ _ _ a' H Hx) as FA. pose proof (mx_change _ _ _ Hm H) as Hc.
  unfold jcl in *. cbn zeta in *. rewrite FA.
  destruct p; try exact J; destruct J as [J1 J2]; (split; [exact J1|]).
  all: destruct Hc as [->|(a & Ea & [[E1 E2]|[E1 E2]])]; try assumption; try congruence.
Qed.
Lemma jcl_cancel p c c' a a' : step c (Cancel a) = Some c' -> jcl p c a' -> jcl p c' a'.
Proof.
  intros H J. cbn in H. inversion H; subst; clear H. unfold jcl, in_wait in *. simp_st.
  destruct (Nat.eq_dec a' a) as [->|ne]; [rewrite upd_eq | rewrite upd_neq by assumption]; simp_act; exact J.
Qed.
(* a transition inside Condvar::wait keeps the actor inside, or the call returns holding the mutex, or a cancelled coroutine dies *)
Lemma inner_wait c x c' a : InvM c -> in_wait (A c a) = true -> inner_ok a x = true -> step c x = Some c' ->
  (apc (A c' a) = Idle /\ mx c' = Some a) \/ apc (A c' a) = Dead \/ (in_wait (A c' a) = true /\ apc (A c' a) <> Idle /\ apc (A c' a) <> Dead).
Proof.
  intros Hm W Ok H. destruct x; cbn in Ok; try discriminate; apply Nat.eqb_eq in Ok; subst.
  all: unfold in_wait in W; step_cases H; try discriminate; m_facts Hm a.
  all: unfold in_wait; simp_st; upd_tac; simp_act; try rewrite Ectx; auto.
  all: try (destruct (actx (A c a)) eqn:Ectx'; try discriminate).
  all: try solve [right; right; repeat split; (reflexivity || discriminate || assumption)].
  all: try solve [left; split; [reflexivity | assumption]].
  all: try solve [right; left; reflexivity].
Qed.
(* a transition inside Condvar::notify_all keeps the actor inside or returns; the mutex is not touched *)
Lemma inner_notify c x c' a : (apc (A c a) = A1 \/ apc (A c a) = A2 \/ apc (A c a) = A3) -> inner_ok a x = true -> step c x = Some c' ->
  (apc (A c' a) = Idle \/ apc (A c' a) = A1 \/ apc (A c' a) = A2 \/ apc (A c' a) = A3) /\ mx c' = mx c.
Proof.
  intros W Ok H. destruct x; cbn in Ok; try discriminate; apply Nat.eqb_eq in Ok; subst.
  all: step_cases H; try (destruct W as [W|[W|W]]; discriminate).
  all: simp_st; upd_tac; simp_act; auto 6.
Qed.

Lemma binvj_init : BInvJ binit.
Proof. constructor; cbn; auto. intro a. split; [reflexivity | discriminate]. Qed.

Lemma env_actor c x c' a' : env_ok x = true -> step c x = Some c' -> InvM c -> forall p, jcl p c a' -> jcl p c' a'.
Proof.
  intros Ok H Hm p J. destruct x; cbn in Ok; try discriminate.
  - eapply jcl_cancel; eauto.
  - eapply jcl_other; eauto. cbn. discriminate.
Qed.

Lemma inner_actor a x : inner_ok a x = true -> actor_of x = Some a.
Proof. destruct x; cbn; try discriminate; intro E; apply Nat.eqb_eq in E; congruence. Qed.

Lemma binvj_step s ac s' : BReach n s -> BInvJ s -> bstep n s ac = Some s' -> BInvJ s'.
Proof.
  intros R [Ja Jv] H. pose proof (invM_reach _ (breach_reach _ R)) as Hm.
  destruct ac; bcases H; constructor; bsimp; auto.
  all: try (intro a'; pose proof (Ja a') as Ja'; pose proof (Ja a) as Jaa; rewrite Eb in Jaa; cbn [jcl] in Jaa; bupd_tac).
  (* the other actors *)
  all: try match goal with ne : _ <> _ |- jcl _ (cs _) _ => exact Ja' end.
  all: try match goal with ne : _ <> _, Es : step _ ?x = Some _, Ok : inner_ok _ ?x = true |- jcl _ _ _ =>
         eapply jcl_other; [exact Hm | exact Es | rewrite (inner_actor _ _ Ok); congruence | exact Ja'] end.
  all: try match goal with ne : _ <> _, Es : step _ _ = Some _ |- jcl _ _ _ =>
         eapply jcl_other; [exact Hm | exact Es | cbn; congruence | exact Ja'] end.
  all: try match goal with Ok : env_ok _ = true |- forall a, jcl _ _ _ => intro a'; eapply env_actor; eauto end.
  (* the ghost flag *)
  all: try match goal with |- (_ || negb (holds _ _))%bool = false => pose proof (Ja a) as Jaa; rewrite Eb in Jaa; destruct Jaa as [_ M]; unfold holds; rewrite Jv, M, Nat.eqb_refl; reflexivity end.
  (* the stepping actor *)
  all: try match goal with e : _ = _ |- jcl _ (cs _) _ => exact Jaa end.
  (* ... calls lock / unlock / wait / notify_all from its idle point *)
  all: try (match goal with Es : step _ (Lock _) = _ |- _ => idtac | Es : step _ (Unlock _ _) = _ |- _ => idtac
                          | Es : step _ (Wait _ _ _) = _ |- _ => idtac | Es : step _ (NotifyAll _) = _ |- _ => idtac end;
            destruct Jaa as [P M]; unfold step in Es; rewrite P in Es; try rewrite M in Es; try rewrite Nat.eqb_refl in Es;
            try (destruct (mx (cs s)) eqn:Em; try discriminate); inversion Es; subst; unfold jcl, in_wait; simp_st; upd_tac; simp_act;
            repeat split; auto; try discriminate; try congruence; fail).
  (* ... makes a transition inside Condvar::wait *)
  all: try (match goal with Ok : inner_ok _ _ = true, Es : step _ _ = Some _ |- _ =>
              destruct (inner_wait _ _ _ _ Hm Jaa Ok Es) as [[P M]|[P|[W [N1 N2]]]] end;
            unfold jcl; try rewrite P in *; cbn [pc_idle pc_dead] in *; try discriminate; auto;
            destruct (apc (A s0 a)); cbn [pc_idle pc_dead] in *; try discriminate; congruence).
  (* ... or inside Condvar::notify_all *)
  all: try (match goal with Ok : inner_ok _ _ = true, Es : step _ _ = Some _ |- _ =>
              destruct (inner_notify _ _ _ _ (proj1 Jaa) Ok Es) as [P M] end;
            unfold jcl; rewrite M; destruct Jaa as [_ Jm]; split; [|exact Jm];
            destruct (apc (A s0 a)); cbn [pc_idle pc_dead] in *; try discriminate; intuition congruence).
Qed.
Lemma binvj_reach s : BReach n s -> BInvJ s.
Proof. intro R. induction R; [apply binvj_init | eapply binvj_step; eauto]. Qed.

(* ---------------------------------------------------------------------------------------- C11.iii *)

(* a completed generation had exactly n arrivals and exactly one leader *)
Theorem barrier_generation_complete s g : BReach n s -> g < gen s -> arr s g = n /\ ldr s g = 1.
Proof.
  intros R Hg. pose proof (binvc_reach _ R) as C. split; [apply (C_past _ C); exact Hg|].
  rewrite (C_ldr _ C). apply Nat.ltb_lt in Hg. rewrite Hg. reflexivity.
Qed.
(* the generation in progress has fewer than n arrivals and no leader yet; later generations have not begun:
   generation g + 1 cannot complete, not even start, before generation g has completed *)
Theorem barrier_generations_in_order s g : BReach n s -> gen s <= g ->
  arr s g < n /\ ldr s g = 0 /\ ret s g = 0 /\ (gen s < g -> arr s g = 0).
Proof.
  intros R Hg. pose proof (binvc_reach _ R) as C. destruct (C_cnt _ C) as [Cc Ca].
  assert (L : ldr s g = 0) by (rewrite (C_ldr _ C); apply Nat.ltb_ge in Hg; rewrite Hg; reflexivity).
  assert (Rt : ret s g = 0) by (destruct (ret s g) eqn:E; [reflexivity|]; pose proof (C_ret _ C g); lia).
  repeat split; auto; [|apply (C_fut _ C)].
  destruct (Nat.eq_dec g (gen s)) as [->|ne]; [lia|]. rewrite (C_fut _ C g) by lia. lia.
Qed.
(* nobody passes the barrier for generation g before all n parties of g have arrived *)
Theorem barrier_no_early_pass s g : BReach n s -> 0 < ret s g -> arr s g = n /\ ldr s g = 1.
Proof. intros R Hr. apply barrier_generation_complete; [exact R|]. apply (C_ret _ (binvc_reach _ R)). exact Hr. Qed.
Theorem barrier_exit_only_after_completion s a : BReach n s -> bpc s a = BExit -> lgen s a < gen s.
Proof. intros R E. apply (C_exit _ (binvc_reach _ R)). exact E. Qed.
(* every arrival is accounted for: it returned as the leader or as a follower, or it is still inside wait() (possibly a
   cancelled coroutine that died there) *)
Theorem barrier_arrivals_accounted s g : BReach n s -> arr s g = ret s g + ldr s g + cntl g (lgen s) (inl s).
Proof. intros R. apply (C_acc _ (binvc_reach _ R)). Qed.
Corollary barrier_at_most_n_return s g : BReach n s -> ret s g + ldr s g <= n.
Proof.
  intros R. pose proof (barrier_arrivals_accounted s g R) as Ac. pose proof (binvc_reach _ R) as C. destruct (C_cnt _ C) as [Cc Ca].
  destruct (lt_eq_lt_dec g (gen s)) as [[L|E]|G].
  - rewrite (C_past _ C g L) in Ac. lia.
  - subst. lia.
  - rewrite (C_fut _ C g G) in Ac. lia.
Qed.
(* count / generation_id are only touched by the holder of the barrier's mutex (so folding each critical section
   into one transition is sound); this is where C11.ii - wait returns holding the mutex - is used *)
Theorem barrier_race_free s : BReach n s -> viol s = false.
Proof. intro R. apply (J_v _ (binvj_reach _ R)). Qed.
Theorem barrier_code_holds_mutex s a : BReach n s ->
  (bpc s a = BIn \/ bpc s a = BLoop \/ bpc s a = BExit \/ bpc s a = BExitL \/ bpc s a = BNotify) -> mx (cs s) = Some a.
Proof.
  intros R H. pose proof (J_a _ (binvj_reach _ R) a) as J. destruct H as [E|[E|[E|[E|E]]]]; rewrite E in J; apply J.
Qed.
End BarrierProofs.

(* non-vacuity: Barrier(2), two parties, two generations with the roles swapped: the barrier is reusable *)
Definition bgen (w l : nat) : list baction :=
  [BArrive w false; BStep w; BStep w] ++ repeat (BInner w (Step w)) 4 ++
  [BArrive l false; BStep l] ++ repeat (BInner l (Step l)) 4 ++ [BStep l] ++
  [BInner w (Resume w); BInner w (Step w); BInner w (Choose w false); BInner w (Step w); BInner w (Step w); BStep w; BStep w].
Lemma breach_brun n l : forall s s', BReach n s -> brun n s l = Some s' -> BReach n s'.
Proof.
  induction l as [|a l IH]; cbn [brun]; intros s s' R H; [inversion H; subst; exact R|].
  destruct (bstep n s a) eqn:E; [|discriminate]. eapply IH; [eapply BRS; eauto | exact H].
Qed.
Example barrier_two_generations : exists s, brun 2 binit (bgen 0 1 ++ bgen 1 0) = Some s /\ BReach 2 s /\
  gen s = 2 /\ arr s 0 = 2 /\ arr s 1 = 2 /\ ldr s 0 = 1 /\ ldr s 1 = 1 /\ ret s 0 = 1 /\ ret s 1 = 1 /\ cnt s = 0 /\ inl s = [] /\ viol s = false /\
  bpc s 0 = BIdle /\ bpc s 1 = BIdle /\ mx (cs s) = None.
Proof.
  destruct (brun 2 binit (bgen 0 1 ++ bgen 1 0)) as [s|] eqn:E; [|vm_compute in E; discriminate].
  exists s. split; [reflexivity|]. split; [eapply breach_brun; [constructor | exact E]|].
  vm_compute in E. inversion E; subst; clear E. cbn. repeat split; reflexivity.
Qed.
