(* C12 - interference freedom: shared tactics (one lemma per control point of the stepping actor) *)
From Coq Require Import List Arith ZArith Bool Lia.
Import ListNotations.
Require Import MayV.Sync.RwLockModel MayV.Sync.RwLockInv MayV.Sync.RwLockPresG MayV.Sync.RwLockPresA.

Ltac step_at H EP :=
  unfold RwLockModel.step in H; rewrite EP in H;
  repeat match type of H with
  | context [match aop ?x with _ => _ end] => let E := fresh "Eop" in destruct (aop x) eqn:E
  | context [match rl ?s with _ => _ end] => let E := fresh "Erl" in destruct (rl s) eqn:E
  | context [match q ?s with _ => _ end] => let E := fresh "Eq" in destruct (q s) eqn:E
  | context [if ?c then _ else _] => let E := fresh "Ec" in destruct c eqn:E
  end; try discriminate; inv_some.

Ltac other_tac Hi H EP a a' :=
  let Ho := fresh "Ho" in
  pose proof (IA _ Hi a') as Ho; unfold ainv, hasrl, waiting, halfgone, opctx in Ho;
  step_at H EP;
  unfold ainv, set_pc, set_pcx, hasrl, waiting, halfgone, opctx;
  try match goal with Hov : ovf _ = false |- _ => cbn -[Z.of_nat] in Hov end;
  cbn -[Z.of_nat]; rewrite ?(upd_neq (A _) a a') by auto;
  destruct (apc (A _ a')) eqn:Eo; cbn -[Z.of_nat] in Ho |- *;
  a_facts Hi a; brk; num;
  repeat match goal with |- _ /\ _ => split end;
  try assumption; try (intros; assumption); intros; brk; try assumption; fin.

(* the entry of a' survives the removal of the entry a is unlocking for *)
Ltac keep_entry a' :=
  apply in_remove_neq; [assumption|]; let E := fresh "E" in intro E; symmetry in E;
  match goal with Hy : forall y, afor _ = Some y -> _ |- _ =>
    let Hh := fresh "Hh" in destruct (Hy a' E) as (Hh & _); [congruence|];
    match goal with Eo : apc (A _ a') = _ |- _ => rewrite Eo in Hh end; discriminate end.

Ltac dpc :=
  repeat match goal with
  | |- context [fail_pc ?o] => let E := fresh "Eop" in destruct o eqn:E; cbn [fail_pc]
  | |- context [got_pc ?o] => let E := fresh "Eop" in destruct o eqn:E; cbn [got_pc is_read]
  | |- context [exit_pc ?o] => let E := fresh "Eop" in destruct o eqn:E; cbn [exit_pc is_read]
  | |- context [ret_pc ?c ?o] => let E := fresh "Ectx" in destruct c eqn:E; cbn [ret_pc]
  end.

(* the clause of an unlocking a' about the actor y it unlocks for, when somebody else (a) steps *)
Ltac yclause_base a :=
  match goal with
  | Hy : forall y, afor ?x = Some y -> y <> ?a' -> _, E1 : afor ?x = Some ?y, N1 : ?y <> ?a' |- _ =>
      let Hh1 := fresh "Hh" in let Hh2 := fresh "Hh" in let Hh3 := fresh "Hh" in
      destruct (Hy y E1 N1) as (Hh1 & Hh2 & Hh3);
      let ey := fresh "ey" in let ney := fresh "ney" in
      destruct (Nat.eq_dec y a) as [ey|ney];
      [ subst y; rewrite ?upd_eq;
        first [ match goal with EP : apc (A _ a) = _ |- _ => rewrite EP in Hh1; discriminate Hh1 end
              | cbn; dpc; cbn; upd_tac; cbn; fin ]
      | rewrite ?(upd_neq (A _) a y) by assumption; cbn; upd_tac; cbn; fin ]
  end.

Ltac ent_nil := try (match goal with Hc : cnt ?s = 0, G1 : cnt ?s = length (ent ?s) |- _ =>
                       let Ee := fresh "Ee" in assert (Ee : ent s = []) by (apply len0; lia); rewrite Ee in *; cbn [In] in * end).
Ltac hrew := repeat match goal with
  | E : holder ?s = _, H : context [match holder ?s with _ => _ end] |- _ => rewrite E in H; cbn in H
  | E : holder ?s = _, H : holder ?s = _ -> _ |- _ => rewrite E in H
  end.
Ltac dor := repeat match goal with
  | H : _ \/ _ |- _ => destruct H
  | H : In _ (_ :: _) |- _ => cbn [In] in H
  | H : In _ (remove _ _ _) |- _ => apply in_remove in H; destruct H
  end.
Ltac other_fin :=
  try solve [dor; brk; fin];
  try solve [intros [?|?]; [discriminate | dor; tauto]];
  try solve [right; apply in_remove_neq; [assumption|congruence]];
  try solve [exfalso; match goal with G7 : rdl ?s <> [] -> holder ?s = HG |- _ =>
               assert (holder s = HG) by (apply G7; let E0 := fresh "E0" in intro E0; rewrite E0 in *; cbn in *; tauto) end; congruence];
  try solve [intros [?|?]; fin0];
  try solve [ent_nil; brk; fin0];
  try solve [ent_nil; exfalso; match goal with G : holder _ <> HNone -> [] <> [] |- _ => apply G; [congruence|reflexivity] end];
  try solve [upd_tac; cbn -[Z.of_nat] in *; unfold fresh in *; cbn -[Z.of_nat] in *; brk; fin];
  try solve [hrew; brk; fin].

(* same, with the facts of y's own assertion (needed when the step writes a blocker flag) *)
Ltac yclause Hi a :=
  first [ solve [yclause_base a] |
  match goal with
  | Hy : forall y, afor ?x = Some y -> y <> ?a' -> _, E1 : afor ?x = Some ?y, N1 : ?y <> ?a' |- _ =>
      let Hh1 := fresh "Hh" in let Hh2 := fresh "Hh" in let Hh3 := fresh "Hh" in
      destruct (Hy y E1 N1) as (Hh1 & Hh2 & Hh3);
      let ey := fresh "ey" in let ney := fresh "ney" in
      destruct (Nat.eq_dec y a) as [ey|ney];
      [ subst y; rewrite ?upd_eq;
        first [ match goal with EP : apc (A _ a) = _ |- _ => rewrite EP in Hh1; discriminate Hh1 end
              | cbn; dpc; cbn; upd_tac; cbn; brk; fin ]
      | let Iy := fresh "Iy" in pose proof (IA _ Hi y) as Iy; unfold ainv in Iy; destruct Iy as (_ & _ & Iy & _);
        rewrite ?(upd_neq (A _) a y) by assumption; cbn;
        repeat match goal with
        | |- context [upd ?f ?i ?v ?j] =>
            let e := fresh "e" in let ne := fresh "ne" in
            destruct (Nat.eq_dec j i) as [e|ne];
            [ exfalso; destruct Iy as [Iy|Iy]; [lia | rewrite e in Iy; brk; congruence]
            | rewrite (upd_neq f i j v ne) ]
        end; cbn; brk; fin ]
  end ].
