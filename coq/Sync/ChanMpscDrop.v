(* mpsc channel model: the receiver-dropped direction (C07 iv / C06 i).
   Every value whose send returned Ok (= was pushed: `sent`) is handed to the receiver exactly once XOR
   dropped exactly once - never both, and, once the channel has been freed, never neither.  The drop
   transitions of the model are RPd1 (Receiver::drop -> drop_port: `while self.queue.pop().is_some() {}`)
   and Free (the last Arc is gone: may_queue::mpsc::Queue::drop pops what a send that raced with
   drop_port left behind). *)
From Coq Require Import List Arith Bool Lia.
Import ListNotations.
Require Import MayV.Sync.ChanMpscModel MayV.Sync.ChanMpscInv MayV.Sync.ChanMpscPres1 MayV.Sync.ChanMpscPres2 MayV.Sync.ChanMpscThm.

Definition val_dec : forall x y : val, {x = y} + {x <> y}.
Proof. decide equality; apply Nat.eq_dec. Defined.
Definition cnt (v : val) (l : list val) : nat := count_occ val_dec l v.

Lemma cnt_app v l1 l2 : cnt v (l1 ++ l2) = cnt v l1 + cnt v l2.
Proof. unfold cnt. apply count_occ_app. Qed.

(* generic: in a duplicate-free list split in three, a member sits in exactly one part, once *)
Lemma nodup_three (v : val) (a b c : list val) : NoDup (a ++ b ++ c) ->
  (In v (a ++ b ++ c) -> cnt v a + cnt v b + cnt v c = 1) /\
  (~ In v (a ++ b ++ c) -> cnt v a + cnt v b + cnt v c = 0).
Proof.
  intro N. rewrite (NoDup_count_occ val_dec) in N. specialize (N v).
  rewrite !count_occ_app in N. unfold cnt. split; intro I.
  - apply (count_occ_In val_dec) in I. rewrite !count_occ_app in I. lia.
  - apply (count_occ_not_In val_dec) in I. rewrite !count_occ_app in I. lia.
Qed.

(* (1) exactly once, never both: an Ok-sent value occurs once in received ++ dropped ++ still queued;
       a value that was not sent occurs nowhere (nothing invented, nothing dropped that was not sent) *)
Theorem mpsc_received_xor_dropped s v : Reach s ->
  (In v (sent s) -> cnt v (rcvd s) + cnt v (drpd s) + cnt v (q s) = 1) /\
  (~ In v (sent s) -> cnt v (rcvd s) + cnt v (drpd s) + cnt v (q s) = 0).
Proof.
  intro H. destruct (mpsc_exactly_once s H) as [N _]. rewrite (mpsc_accounting s H).
  apply nodup_three. exact N.
Qed.

(* (2) the freed channel: nothing is queued any more, no endpoint is left *)
Definition finv (s : st) : Prop := freed s = true -> q s = [] /\ chans s = 0 /\ ralive (R s) = false.

Lemma finv_step s ac s' : Inv s -> finv s -> step s ac = Some s' -> finv s'.
Proof.
  intros Hi F H. unfold finv in *.
  go H; auto.
  all: try (intro X; destruct (F X) as (F1 & F2 & F3); repeat split; auto; try congruence).
  all: try (busy; congruence).
  all: try (rewrite Eq in F1; discriminate).
  all: try match goal with E : sst (Sd ?s0 ?a) = Alive |- _ => exfalso; apply (live_pos s0 a Hi E); congruence end.
  all: try (intros _; repeat split; auto; congruence).
Qed.

Lemma finv_reach s : Reach s -> finv s.
Proof.
  induction 1 as [|s a s' Hr IH Hs]; [intro X; discriminate|].
  eapply finv_step; eauto. apply inv_reach; auto.
Qed.

(* never neither: once the channel is freed every Ok-sent value has been received exactly once XOR
   dropped exactly once *)
Theorem mpsc_freed_received_xor_dropped s v : Reach s -> freed s = true ->
  q s = [] /\ sent s = rcvd s ++ drpd s /\
  (In v (sent s) -> (cnt v (rcvd s) = 1 /\ cnt v (drpd s) = 0) \/ (cnt v (rcvd s) = 0 /\ cnt v (drpd s) = 1)).
Proof.
  intros H F. destruct (finv_reach s H F) as (Q & _ & _).
  pose proof (mpsc_accounting s H) as A. rewrite Q, app_nil_r in A.
  split; [exact Q|]. split; [exact A|]. intro I.
  destruct (mpsc_received_xor_dropped s v H) as [X _]. specialize (X I). rewrite Q in X. cbn in X. lia.
Qed.

(* (3) where values are dropped: only by drop_port's pop loop and by the final free; one at a time /
       all that is left *)
Theorem mpsc_drop_sites s ac s' : step s ac = Some s' ->
  drpd s' = drpd s \/
  (ac = RStep /\ rp (R s) = RPd1 /\ exists v, q s = v :: q s' /\ drpd s' = drpd s ++ [v]) \/
  (ac = Free /\ drpd s' = drpd s ++ q s /\ q s' = [] /\ freed s' = true).
Proof.
  intro H. step_cases H; unf; prj; auto.
  all: try (right; left; repeat split; auto; eexists; split; eauto; fail).
  all: right; right; auto.
Qed.

(* nothing is dropped while the Receiver is alive and not inside its drop *)
Theorem mpsc_no_drop_while_receiver_alive s : Reach s -> ralive (R s) = true -> rp (R s) <> RPd1 -> drpd s = [].
Proof. intros H. exact (I_drpd _ (inv_reach _ H)). Qed.

(* Receiver::drop returns only with the queue empty: what was queued up to that instant is in drpd
   (or was received before); the flag is set, so later sends fail (mpsc_send_after_port_drop) *)
Theorem mpsc_port_drop_returns_drained s s' : Reach s -> step s RStep = Some s' ->
  rp (R s) = RPd1 -> ralive (R s') = false -> q s' = [] /\ sent s' = rcvd s' ++ drpd s' /\ pdrop s' = true.
Proof.
  intros Hr H P A.
  assert (Hr' : Reach s') by (eapply RS; eauto).
  pose proof (mpsc_accounting s' Hr') as Acc. pose proof (mpsc_port_dropped_flag s' Hr' A) as Fl.
  pose proof (I_alive _ (inv_reach _ Hr)) as X.
  unfold step in H. rewrite P in H. destruct (q s) eqn:Eq; inversion H; subst; unf; prj.
  - cbn [q] in Acc. rewrite app_nil_r in Acc. auto.
  - rewrite A in X. specialize (X eq_refl). congruence.
Qed.

(* after the free nothing moves any more: no value is pushed, received or dropped *)
Theorem mpsc_freed_is_final s ac s' : Reach s -> freed s = true -> step s ac = Some s' ->
  sent s' = sent s /\ rcvd s' = rcvd s /\ drpd s' = drpd s /\ q s' = [] /\ freed s' = true.
Proof.
  intros Hr F H. pose proof (inv_reach _ Hr) as Hi. destruct (finv_reach s Hr F) as (Q & C & A).
  go H; auto; try (rewrite Eq in Q; discriminate); try (busy; congruence); try congruence.
Qed.

(* ------------------------------------------------------------------------------------------ *)
(* non-vacuity: a send that read port_dropped = false before the receiver's drop pushes after the drain;
   its value is neither received nor dropped by drop_port - the free of the channel drops it (once) *)
Definition sch_late_push : list action :=
  [Send 0; SStep 0;                       (* port_dropped.load = false *)
   DropPort; RStep; RStep;                (* store true; pop None: the receiver is gone *)
   SStep 0; SStep 0;                      (* push (0,0); to_wake.take = None: send returns Ok *)
   DropChan 0; SStep 0; SStep 0].         (* the last sender goes: channels = 0 *)
Example late_push_left_in_queue :
  let s := run init sch_late_push in
  Reach s /\ ralive (R s) = false /\ sres (Sd s 0) = true /\ q s = [(0, 0)] /\ drpd s = [] /\ chans s = 0 /\ freed s = false.
Proof. split; [apply reach_run; constructor | vm_compute; auto 10]. Qed.
Example late_push_dropped_at_free :
  let s := run init (sch_late_push ++ [Free]) in
  Reach s /\ freed s = true /\ q s = [] /\ rcvd s = [] /\ drpd s = [(0, 0)] /\ sent s = [(0, 0)].
Proof. split; [apply reach_run; constructor | vm_compute; auto 10]. Qed.
