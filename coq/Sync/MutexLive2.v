(* C05 - preservation of Inv2: QN, PK *)
From Coq Require Import List Arith Bool Lia.
Import ListNotations.
Require Import MayV.Sync.MutexModel MayV.Sync.MutexInv MayV.Sync.MutexLiveInv.

Section S.
Variable isco : nat -> bool.
Notation step := (step isco).

Lemma nodup_snoc (l : list nat) x : NoDup l -> ~ In x l -> NoDup (l ++ [x]).
Proof.
  induction l as [|y l IH]; cbn; intros N I; [constructor; [tauto|constructor]|].
  inversion N; subst. constructor.
  - intro J. apply in_app_or in J. destruct J as [J|[J|[]]]; [tauto|subst; tauto].
  - apply IH; tauto.
Qed.

Lemma pres2_QN s ac s' : Inv s -> Inv2 s -> step s ac = Some s' -> NoDup (q s').
Proof.
  intros Hi Hj H. destruct (IG _ Hi) as (G1 & G2 & G3 & G4 & G5 & G6). pose proof (QN _ Hj) as HQ.
  step_cases H; cbn; auto.
  - apply nodup_snoc; auto. intro J. apply G4 in J. lia.
  - inversion HQ; auto.
Qed.

Lemma pres2_PK s ac s' : Inv s -> Inv2 s -> step s ac = Some s' ->
  forall a', apc (A s' a') = W -> parked (Bk s' (ab (A s' a'))) = true.
Proof.
  intros Hi Hj H a'.
  step_cases H; cbn; try destruct (actx (A s a)) eqn:Ectx; try a_facts Hi a; unfold set_pc, fresh; upd_tac; cbn in *;
    intros Hw; try discriminate;
    try (pose proof (PK _ Hj a' Hw) as Hp; pose proof (IA _ Hi a') as Ho; unfold ainv in Ho; rewrite Hw in Ho; cbn in Ho);
    try (pose proof (PK _ Hj a Epc)); brk; upd_tac; cbn in *; brk; fin0.
  all: try (apply (PK _ Hj); assumption).
Qed.
End S.
