(* Trace acceptor for CondvarModel: one recorded event `[code; actor; obj; val]` of the real
   may::sync::Condvar / SyncBlocker / Park / ThreadPark / Mutex is matched against the transitions of the
   model it stands for (mostly exactly one; the places where the code reveals a decision only through its
   control flow take the environment / choice action together with the step that reveals it).  The model must
   be at the corresponding control point and must compute the value the code observed.  Codes are bound to
   source sites in Sync/condvar_sites.json.

     0 cv.new   1 actor(k, kind: 1 thread 2 coroutine)   2 wait.call(flags bit0 = timed, dur ns)
     3 wait.ret(result 0 notified 1 timed out, now)      4 cancel(k)   5 dead (a cancelled coroutine unwinds)
     9 tpark.enter  10 tpark.leave(woken)  11 tpark.unpark                       (ThreadPark, virtual)
    20 Condvar::verify mutex.cas(ok)   22 wait_impl to_wake.push   25 notify_one to_wake.pop(some)   26 notify_all to_wake.pop(some)
    30 SyncBlocker::unpark unparked.store   31 is_unparked load   32 set_release store   33 take_release swap(old)
    40 Park::check_park state.load   41 check_park state.store   42 check_park state.swap(old)   43 Park::unpark_impl state.swap(old)
    50 Mutex::unlock cnt.fetch_sub     51 poison Flag::get failed.load    52 poison Flag::done failed.store
    60 CancelImpl::disable_cancel state.fetch_add(old)   61 CancelImpl::enable_cancel state.fetch_sub(old)
    70 any scenario-level record the model does not interpret (barrier / wait-group bookkeeping)

   The mutex is abstract in the model, so its events are read at call level: an acquisition is the
   `Flag::get` load of MutexGuard::new (the first access after lock() has the lock), a release is the
   `fetch_sub` of Mutex::unlock by the holder; every other access the mutex makes to blockers, parks and the
   cancel word - while an actor is outside the condvar (pc Idle), inside the re-lock of wait_impl (pc L), in the
   tail of an unlock_mutex call, or dying - belongs to the C05 model and is skipped here.

   Besides the model state the acceptor keeps, per actor: the kind, the phase inside Blocker::park (the model has
   one transition for the token check and one for the resumption; the code has the two check_park calls /
   tpark.enter + leave), a thread's park verdict, the pending wait.call, the nesting of cancel-disable brackets that
   are not wait_impl's own (Park's wait-for-kernel loops), whether it is in the tail of an unlock_mutex call; and per
   model blocker the objects (addresses as numbered by the normaliser) of its `unparked`, `release` and park words:
   the flag store of a notifier must hit the blocker the model says was popped (FIFO). *)
From Coq Require Import List ZArith Bool Arith Lia.
Import ListNotations.
Require Import MayV.Sync.CondvarModel.
Open Scope Z_scope.

Record aux := { started : bool;
                kind : nat -> nat;    (* 0 unknown, 1 thread, 2 coroutine *)
                byk : nat -> nat;     (* scenario index -> actor + 1 *)
                ph : nat -> nat;      (* 0 outside park; 1 thread suspended; 8 thread token taken at enter;
                                         5 check_park#1 load saw false; 3 check_park#1 load saw true (store pending);
                                         2 coroutine suspended; 6 / 7 check_park#2 load saw true / false *)
                verd : nat -> bool;   (* thread: park returned Timeout *)
                pend : nat -> option (option Z);   (* wait.call seen: the duration *)
                kdis : nat -> nat;    (* open cancel-disable brackets that are not wait_impl's *)
                tail : nat -> bool;   (* inside the tail of unlock_mutex (hand-off to the next owner of the mutex) *)
                pzn : nat -> bool;    (* the guard is being dropped by a panicking holder *)
                gone : nat -> bool;   (* dead *)
                prec : nat -> bool;   (* scenario index cancelled before its actor appeared *)
                ou : nat -> Z; orl : nat -> Z; opk : nat -> Z }.
Definition ast := (st * aux)%type.

Definition aux0 := {| started := false; kind := fun _ => O; byk := fun _ => O; ph := fun _ => O; verd := fun _ => false;
                      pend := fun _ => None; kdis := fun _ => O; tail := fun _ => false; pzn := fun _ => false; gone := fun _ => false; prec := fun _ => false;
                      ou := fun _ => 0; orl := fun _ => 0; opk := fun _ => 0 |}.
Definition m_init : ast := (init, aux0).

Definition pc_eqb (x y : pc) : bool :=
  match x, y with
  | Idle, Idle | V0, V0 | D0, D0 | W1, W1 | W2, W2 | N1, N1 | WP, WP | WW, WW | D2, D2 | L, L | R1, R1
  | E1, E1 | E2, E2 | E3, E3 | E4, E4 | K1, K1 | K2, K2 | K3, K3 | K4, K4
  | N3, N3 | R2, R2 | P1, P1 | C1, C1 | Dead, Dead | A1, A1 | A2, A2 | A3, A3 => true
  | _, _ => false end.
Definition zb (v : Z) : bool := negb (Z.eqb v 0).

Definition set_started (x : aux) := {| started := true; kind := kind x; byk := byk x; ph := ph x; verd := verd x; pend := pend x; kdis := kdis x; tail := tail x; pzn := pzn x; gone := gone x; prec := prec x; ou := ou x; orl := orl x; opk := opk x |}.
Definition set_kind (x : aux) a k i := {| started := started x; kind := upd (kind x) a k; byk := upd (byk x) i (S a); ph := ph x; verd := verd x; pend := pend x; kdis := kdis x; tail := tail x; pzn := pzn x; gone := gone x; prec := prec x; ou := ou x; orl := orl x; opk := opk x |}.
Definition set_ph (x : aux) a p := {| started := started x; kind := kind x; byk := byk x; ph := upd (ph x) a p; verd := verd x; pend := pend x; kdis := kdis x; tail := upd (tail x) a false; pzn := pzn x; gone := gone x; prec := prec x; ou := ou x; orl := orl x; opk := opk x |}.
Definition set_verd (x : aux) a p v := {| started := started x; kind := kind x; byk := byk x; ph := upd (ph x) a p; verd := upd (verd x) a v; pend := pend x; kdis := kdis x; tail := tail x; pzn := pzn x; gone := gone x; prec := prec x; ou := ou x; orl := orl x; opk := opk x |}.
Definition set_pend (x : aux) a p := {| started := started x; kind := kind x; byk := byk x; ph := ph x; verd := verd x; pend := upd (pend x) a p; kdis := kdis x; tail := tail x; pzn := pzn x; gone := gone x; prec := prec x; ou := ou x; orl := orl x; opk := opk x |}.
Definition set_kdis (x : aux) a n := {| started := started x; kind := kind x; byk := byk x; ph := ph x; verd := verd x; pend := pend x; kdis := upd (kdis x) a n; tail := tail x; pzn := pzn x; gone := gone x; prec := prec x; ou := ou x; orl := orl x; opk := opk x |}.
Definition set_tail (x : aux) a t := {| started := started x; kind := kind x; byk := byk x; ph := ph x; verd := verd x; pend := pend x; kdis := kdis x; tail := upd (tail x) a t; pzn := pzn x; gone := gone x; prec := prec x; ou := ou x; orl := orl x; opk := opk x |}.
Definition set_pzn (x : aux) a t := {| started := started x; kind := kind x; byk := byk x; ph := ph x; verd := verd x; pend := pend x; kdis := kdis x; tail := tail x; pzn := upd (pzn x) a t; gone := gone x; prec := prec x; ou := ou x; orl := orl x; opk := opk x |}.
Definition set_gone (x : aux) a := {| started := started x; kind := kind x; byk := byk x; ph := ph x; verd := verd x; pend := pend x; kdis := kdis x; tail := tail x; pzn := pzn x; gone := upd (gone x) a true; prec := prec x; ou := ou x; orl := orl x; opk := opk x |}.
Definition set_prec (x : aux) k := {| started := started x; kind := kind x; byk := byk x; ph := ph x; verd := verd x; pend := pend x; kdis := kdis x; tail := tail x; pzn := pzn x; gone := gone x; prec := upd (prec x) k true; ou := ou x; orl := orl x; opk := opk x |}.
Definition set_ou (x : aux) m := {| started := started x; kind := kind x; byk := byk x; ph := ph x; verd := verd x; pend := pend x; kdis := kdis x; tail := tail x; pzn := pzn x; gone := gone x; prec := prec x; ou := m; orl := orl x; opk := opk x |}.
Definition set_orl (x : aux) m := {| started := started x; kind := kind x; byk := byk x; ph := ph x; verd := verd x; pend := pend x; kdis := kdis x; tail := tail x; pzn := pzn x; gone := gone x; prec := prec x; ou := ou x; orl := m; opk := opk x |}.
Definition set_opk (x : aux) m := {| started := started x; kind := kind x; byk := byk x; ph := ph x; verd := verd x; pend := pend x; kdis := kdis x; tail := tail x; pzn := pzn x; gone := gone x; prec := prec x; ou := ou x; orl := orl x; opk := m |}.

(* the object recorded for blocker b: bound at the first observation, compared afterwards *)
Definition bind_obj (m : nat -> Z) (b : nat) (o : Z) : option (nat -> Z) :=
  if Z.eqb (m b) 0 then Some (upd m b o) else if Z.eqb (m b) o then Some m else None.

(* what one event does: model actions to take (all must be enabled), a check of the resulting
   model state, and the acceptor's own bookkeeping as a function of that state *)
Record plan := { acts : list action; post : st -> bool; nxt : st -> aux }.

Fixpoint steps (s : st) (l : list action) : option st :=
  match l with
  | [] => Some s
  | a :: l' => match step s a with Some s' => steps s' l' | None => None end
  end.

Definition guard (b : bool) (p : option plan) : option plan := if b then p else None.
Definition pcof (s : st) (a : nat) := apc (A s a).
Definition at_pc (s : st) a p := pc_eqb (pcof s a) p.
Definition phis (x : aux) a n := Nat.eqb (ph x a) n.
Definition holds (s : st) (a : nat) : bool := match mx s with Some h => Nat.eqb h a | None => false end.
Definition ok (x : aux) : option plan := Some {| acts := []; post := fun _ => true; nxt := fun _ => x |}.
Definition go (l : list action) (x : aux) : option plan := Some {| acts := l; post := fun _ => true; nxt := fun _ => x |}.

(* the accesses of the mutex (C05) made by actor a are not this model's: outside the condvar, inside the re-lock,
   while dying; in the tail of unlock_mutex the hand-off accesses (flag store, wake-up, take_release, a further unlock) *)
Definition outside (s : st) (x : aux) (a : nat) : bool :=
  (at_pc s a Idle || at_pc s a L || at_pc s a Dead || gone x a) && phis x a 0.
Definition in_tail (s : st) (x : aux) (a : nat) : bool := tail x a && (at_pc s a N1 || at_pc s a WP).

(* time: the acceptor sees no clock; when a timed park returns it lets the model's clock reach the deadline
   (the code's clock is at or past it whenever the verdict is Timeout; for the other verdicts the model only
   learns that a timeout would have been possible too, which no later check depends on) *)
Definition tick_to (s : st) (a : nat) : list action :=
  match adl (A s a) with
  | Some dl => if Z.ltb (now s) dl then [Tick dl] else []
  | None => [] end.

Definition plan_ev (s : st) (x : aux) (e : list Z) : option plan :=
  match e with
  | [code; za; o; v] =>
    let a := Z.to_nat za in
    let me := A s a in
    let b := ab me in let w := aw me in
    let co := Nat.eqb (kind x a) 2 in
    match code with
    (* ---- scenario level ---- *)
    | 1 => guard (at_pc s a Idle && Nat.eqb (kind x a) 0 && (Z.eqb v 1 || Z.eqb v 2))
             (Some {| acts := if prec x (Z.to_nat o) then [Cancel a] else []; post := fun _ => true; nxt := fun _ => set_kind x a (Z.to_nat v) (Z.to_nat o) |})
    | 2 => guard (at_pc s a Idle && holds s a)
             (Some {| acts := []; post := fun _ => true; nxt := fun _ => set_pend x a (Some (if Z.testbit o 0 then Some v else None)) |})
    | 3 => guard (at_pc s a Idle && holds s a && phis x a 0 && Z.eqb (Z.of_nat (ares me)) o) (ok x)
    | 4 => match byk x (Z.to_nat o) with
           | S t => go [Cancel t] x
           | O => ok (set_prec x (Z.to_nat o)) end
    | 5 => guard ((at_pc s a Dead || (at_pc s a Idle && negb (holds s a))) && co) (ok (set_gone x a))
    | 70 => ok x
    (* ---- ThreadPark (virtual): token check at enter, resumption at leave ---- *)
    | 9 => if outside s x a then ok x
           else guard (at_pc s a WP && phis x a 0 && Nat.eqb (kind x a) 1)
             (match bind_obj (opk x) b o with
              | Some m => Some {| acts := [Step a]; post := fun s' => at_pc s' a WW || at_pc s' a L;
                                  nxt := fun s' => set_ph (set_opk x m) a (if at_pc s' a WW then 1%nat else 8%nat) |}
              | None => None end)
    | 10 => if phis x a 8
            then guard (zb v && Z.eqb (opk x b) o) (ok (set_verd x a 0%nat false))
            else if phis x a 1
            then guard (at_pc s a WW && Z.eqb (opk x b) o)
                   (if zb v
                    then Some {| acts := [Resume a]; post := fun s' => at_pc s' a L && rtok (A s' a); nxt := fun _ => set_verd x a 0%nat false |}
                    else Some {| acts := tick_to s a ++ [Resume a]; post := fun s' => at_pc s' a L && rtmo (A s' a); nxt := fun _ => set_verd x a 0%nat true |})
            else guard (outside s x a) (ok x)
    | 11 => if outside s x a || in_tail s x a then ok x
            else guard ((at_pc s a K3 || at_pc s a A3) && Nat.eqb (kind x (owner (Bk s w))) 1)
              (match bind_obj (opk x) w o with
               | Some m => go [Step a] (set_opk x m)
               | None => None end)
    (* ---- src/sync/condvar.rs ---- *)
    | 20 => guard (at_pc s a Idle && holds s a && phis x a 0 && negb (Nat.eqb (kind x a) 0) && Bool.eqb (negb (bound s)) (zb v))
              (go [Wait a co (match pend x a with Some d => d | None => None end); Step a] (set_pend x a None))
    | 22 => guard (at_pc s a W1) (go [Step a] x)
    | 25 => if at_pc s a Idle
            then guard (phis x a 0 && Bool.eqb (match q s with [] => false | _ => true end) (zb v)) (go [NotifyOne a; Step a] x)
            else guard (at_pc s a K1 && Bool.eqb (match q s with [] => false | _ => true end) (zb v)) (go [Step a] x)
    | 26 => if at_pc s a Idle
            then guard (phis x a 0 && Bool.eqb (match q s with [] => false | _ => true end) (zb v)) (go [NotifyAll a; Step a] x)
            else guard (at_pc s a A1 && Bool.eqb (match q s with [] => false | _ => true end) (zb v)) (go [Step a] x)
    (* ---- SyncBlocker (src/sync/blocking.rs) ---- *)
    | 30 => if outside s x a || in_tail s x a then ok x
            else guard ((at_pc s a K2 || at_pc s a A2) && zb v)
              (match bind_obj (ou x) w o with
               | Some m => go [Step a] (set_ou x m)
               | None => None end)
    | 31 => if outside s x a then ok x
            else match bind_obj (ou x) b o with
            | None => None
            | Some m =>
              guard (Bool.eqb (unp (Bk s b)) (zb v))
                (if at_pc s a E1 || at_pc s a E3 then go [Step a] (set_ou x m)
                 else (* a coroutine's park verdict was an error: revealed by the error path's first access *)
                   guard (at_pc s a R1 && co && Nat.eqb (kdis x a) 0) (go [Choose a true; Step a] (set_ou x m)))
            end
    | 32 => if outside s x a then ok x
            else guard (at_pc s a E2 && zb v)
              (match bind_obj (orl x) b o with
               | Some m => go [Step a] (set_orl x m)
               | None => None end)
    | 33 => if outside s x a || in_tail s x a then ok x
            else if at_pc s a K4
            then guard (Bool.eqb (rel (Bk s w)) (zb v))
                   (match bind_obj (orl x) w o with
                    | Some m => go [Step a] (set_orl x m)
                    | None => None end)
            else guard (at_pc s a E4 && Bool.eqb (rel (Bk s b)) (zb v))
                   (match bind_obj (orl x) b o with
                    | Some m => go [Step a] (set_orl x m)
                    | None => None end)
    (* ---- Park (src/park.rs): the token word of a coroutine's blocker ---- *)
    | 40 => if outside s x a then ok x
            else match bind_obj (opk x) b o with
            | None => None
            | Some m =>
              guard (co && Bool.eqb (tok (Bk s b)) (zb v))
                (if phis x a 0
                 then guard (at_pc s a WP)
                        (if zb v
                         then Some {| acts := [Step a]; post := fun s' => at_pc s' a D2; nxt := fun _ => set_ph (set_opk x m) a 3%nat |}
                         else Some {| acts := []; post := fun _ => true; nxt := fun _ => set_ph (set_opk x m) a 5%nat |})
                 else guard (phis x a 2 && at_pc s a WW)
                        (Some {| acts := []; post := fun _ => true; nxt := fun _ => set_ph x a (if zb v then 6%nat else 7%nat) |}))
            end
    | 41 => if outside s x a then ok x
            else guard (negb (zb v) && Z.eqb (opk x b) o)
              (if phis x a 3 then ok (set_ph x a 0%nat)
               else guard (phis x a 6 && at_pc s a WW)
                      (Some {| acts := tick_to s a ++ [Resume a]; post := fun s' => at_pc s' a D2; nxt := fun _ => set_ph x a 0%nat |}))
    | 42 => if outside s x a then ok x
            else guard (Z.eqb (opk x b) o && Bool.eqb (tok (Bk s b)) (zb v))
              (if phis x a 5
               then guard (at_pc s a WP)
                      (Some {| acts := [Step a]; post := fun s' => if zb v then at_pc s' a D2 else at_pc s' a WW;
                               nxt := fun _ => set_ph x a (if zb v then 0%nat else 2%nat) |})
               else guard (phis x a 7 && at_pc s a WW)
                      (Some {| acts := tick_to s a ++ [Resume a]; post := fun s' => at_pc s' a D2; nxt := fun _ => set_ph x a 0%nat |}))
    | 43 => if outside s x a || in_tail s x a then ok x
            else guard ((at_pc s a K3 || at_pc s a A3) && Nat.eqb (kind x (owner (Bk s w))) 2 && Bool.eqb (tok (Bk s w)) (zb v))
              (match bind_obj (opk x) w o with
               | Some m => go [Step a] (set_opk x m)
               | None => None end)
    (* ---- the abstract mutex: src/sync/mutex.rs, src/sync/poison.rs ---- *)
    | 50 => if at_pc s a W2 then go [Step a] (set_tail x a true)
            else if at_pc s a C1 then go [Step a] x
            else if at_pc s a R2 && aerr me && co && Nat.eqb (kdis x a) 0
            then (* the verdict was Canceled: wait() releases the mutex before it unwinds *)
                 go [Choose a true; Step a] x
            else if at_pc s a Idle && holds s a && phis x a 0 then go [Unlock a (pzn x a)] (set_pzn x a false)
            else guard (outside s x a || in_tail s x a) (ok x)
    | 51 => if at_pc s a L
            then (* the re-lock has the mutex; a thread's verdict is known already *)
                 guard (phis x a 0 && Bool.eqb (pois s) (zb v))
                   (if co then go [Step a] x else go [Step a; Choose a (verd x a)] x)
            else if at_pc s a P1 then guard (Bool.eqb (pois s) (zb v)) (go [Step a] x)
            else if at_pc s a R2
            then guard (Bool.eqb (pois s) (zb v) && Nat.eqb (kdis x a) 0)
                   (if aerr me then go [Choose a false; Step a] x else go [Step a; Step a] x)
            else guard (at_pc s a Idle && phis x a 0 && negb (gone x a) && Bool.eqb (pois s) (zb v)) (go [Lock a] x)
    | 52 => guard (at_pc s a Idle && holds s a) (ok (set_pzn x a true))
    (* ---- src/cancel.rs: the disable / enable bracket ---- *)
    | 60 => if outside s x a then ok x
            else if (at_pc s a D0 || at_pc s a D2) && Nat.eqb (kdis x a) 0
            then guard (Z.eqb (Z.shiftr v 1) (Z.of_nat (cdis me))) (go [Step a] x)
            else ok (set_kdis x a (S (kdis x a)))
    | 61 => if outside s x a then ok x
            else match kdis x a with
            | S n => ok (set_kdis x a n)
            | O => if at_pc s a N1 then guard (Z.eqb (Z.shiftr v 1) (Z.of_nat (cdis me))) (go [Step a] (set_tail x a false))
                   else if at_pc s a N3 then guard (Z.eqb (Z.shiftr v 1) (Z.of_nat (cdis me))) (go [Step a] x)
                   else (* a coroutine's park verdict was Ok: revealed by leaving wait_impl without the error path *)
                     guard (at_pc s a R1 && co && Z.eqb (Z.shiftr v 1) (Z.of_nat (cdis me))) (go [Choose a false; Step a] x)
            end
    | _ => None
    end
  | _ => None
  end.

Definition accept_ev (sx : ast) (e : list Z) : option ast :=
  let (s, x) := sx in
  if started x
  then match plan_ev s x e with
       | Some p => match steps s (acts p) with
                   | Some s' => if post p s' then Some (s', nxt p s') else None
                   | None => None end
       | None => None end
  else match e with
       | [0; _; _; _] => Some (s, set_started x)
       | _ => None end.

Fixpoint accept_all (sx : ast) (tr : list (list Z)) : option ast :=
  match tr with
  | [] => Some sx
  | e :: l => match accept_ev sx e with Some sx' => accept_all sx' l | None => None end
  end.

(* ghost monitor of the final state: the accounting identity of C11.i; the theorem says it can never trip on a
   reachable state *)
Definition monitors_ok (sx : ast) : bool :=
  let s := fst sx in
  Z.eqb (nuser s + nall s)
        (nret s + Z.of_nat (length (hand s)) + Z.of_nat (length (giv s)) + Z.of_nat (length (owe s)) + fnone s).

(* ------------------------------------------------------------------------------------------ *)
(* soundness: every state along an accepted trace is a reachable state of the model            *)

Lemma steps_reach l : forall s s', Reach s -> steps s l = Some s' -> Reach s'.
Proof.
  induction l as [|a l IH]; cbn [steps]; intros s s' R H; [inversion H; subst; exact R|].
  destruct (step s a) as [s1|] eqn:E; [|discriminate]. eapply IH; [eapply RS; eauto | exact H].
Qed.

Lemma accept_ev_ok sx e sx' : Reach (fst sx) -> accept_ev sx e = Some sx' -> Reach (fst sx').
Proof.
  intros R H. destruct sx as [s x]. unfold accept_ev in H. cbn [fst] in R.
  destruct (started x).
  - destruct (plan_ev s x e) as [p|]; [|discriminate].
    destruct (steps s (acts p)) as [s1|] eqn:E; [|discriminate].
    destruct (post p s1); [|discriminate]. inversion H; subst. cbn [fst]. eapply steps_reach; eauto.
  - repeat match type of H with
           | match ?t with _ => _ end = Some _ => destruct t eqn:?; try discriminate
           end.
    inversion H; subst. exact R.
Qed.

Theorem accept_all_reach tr : forall sx sx', Reach (fst sx) -> accept_all sx tr = Some sx' -> Reach (fst sx').
Proof.
  induction tr as [|e l IH]; cbn [accept_all]; intros sx sx' R H; [inversion H; subst; exact R|].
  destruct (accept_ev sx e) as [s1|] eqn:E; [|discriminate]. eapply IH; [eapply accept_ev_ok; eauto | exact H].
Qed.

Corollary accepted_trace_reaches tr sx : accept_all m_init tr = Some sx -> Reach (fst sx).
Proof. intro H. apply (accept_all_reach tr m_init sx); [exact R0 | exact H]. Qed.
