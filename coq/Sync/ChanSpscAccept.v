(* Trace acceptor for the spsc channel model (current code: fixed = true).  One recorded event
   `[code; actor; obj; val]` of the real may::sync::spsc over the real may_queue::spsc queue is matched
   against the transitions of ChanSpscModel it stands for.  Codes are bound in Sync/chan_spsc_sites.json.

   API level (scenario):  1 chan.new   2 send.call(h, seq)  3 send.ret(h, ok)   6 dropc.call  7 dropc.ret
                          8 try.call   9 try.ret(k, v)     10 recv.call(co)    11 recv.ret(k, v)   14 dropp.call  15 dropp.ret
   src/sync/spsc.rs:     20 send port_dropped.load   21 send wait_co.take       22 recv wait_co.store (thread blocker)
                         23 recv wait_co.clear       24 try_recv channels.load  26 drop_chan channels.store(0)
                         27 drop_chan wait_co.take   28 drop_port port_dropped.store
                         34 Park::subscribe wait_co.store(co)   35 Park::subscribe channels.load   37 Park::subscribe wait_co.take
   may_queue::spsc:      31 Queue::push tail.index.store    32 Queue::pop head.index.store (a value was popped)
                         33 Queue::pop tail.index.load      36 Queue::len tail.index.load (is_empty of the re-check)

   Not recorded by the hooks, hence taken together with the neighbouring event:
   * the sender's `co.unpark()` (thread: the virtual Thread::unpark; coroutine: scheduler.schedule) has no
     record of its own and follows the successful take without a schedule point in between: the
     model's SUnpark step is taken with the take;
   * the receiver's return from thread::park() and the worker's resumption of the scheduled coroutine
     show as the receiver's next queue access: the model's RPark / Worker / KRun step is taken there; a
     return from park with no token in the model (nobody of the channel unparked the thread: the scenario's
     noise thread did, MAYV_SPUR) is the model's spurious return `Spur`;
   * recv.ret with k = 5 is logged by the scenario when the Cancel panic unwinds out of recv(): the model
     takes RCan at the cancellation point it is at (KStore / RSusp scheduled / KRun). *)
From Coq Require Import List ZArith Bool Arith Lia.
Import ListNotations.
Require Import MayV.Sync.ChanSpscModel.
Open Scope Z_scope.

Record aux := { started : bool; ract : nat; sact : nat; qt : Z; qh : Z }.
Definition aux0 := {| started := false; ract := O; sact := O; qt := 0; qh := 0 |}.
Definition ast := (st * aux)%type.
Definition a_init : ast := (init, aux0).

Definition set_ract (x : aux) a := {| started := started x; ract := a; sact := sact x; qt := qt x; qh := qh x |}.
Definition set_sact (x : aux) a := {| started := started x; ract := ract x; sact := a; qt := qt x; qh := qh x |}.
Definition set_qt (x : aux) o := {| started := started x; ract := ract x; sact := sact x; qt := o; qh := qh x |}.
Definition set_qh (x : aux) o := {| started := started x; ract := ract x; sact := sact x; qt := qt x; qh := o |}.

Definition rpc_eqb (x y : rpc) : bool :=
  match x, y with
  | RIdle, RIdle | RPop1, RPop1 | RChk, RChk | RPop2, RPop2 | RStore, RStore | RClear, RClear | RPark, RPark
  | KStore, KStore | KEmpty, KEmpty | KChans, KChans | KTake, KTake | KRun, KRun | RSusp, RSusp | RPd0, RPd0 | RPd1, RPd1 => true
  | _, _ => false end.
Definition spc_eqb (x y : spc) : bool :=
  match x, y with
  | SIdle, SIdle | SChk, SChk | SPush, SPush | STake, STake | SUnpark, SUnpark | SDrop, SDrop => true
  | _, _ => false end.
Definition zb (v : Z) : bool := negb (Z.eqb v 0).
Definition isnone {X} (o : option X) : bool := match o with None => true | Some _ => false end.
Definition isnil {X} (l : list X) : bool := match l with [] => true | _ => false end.
Definition res_is (r : res) (k v : Z) : bool :=
  match r with
  | ROk i => Z.eqb k 0 && Z.eqb v (Z.of_nat i)
  | REmpty => Z.eqb k 1
  | RDisc => Z.eqb k 2
  | _ => false end.

Record plan := { acts : list action; post : st -> bool; nxt : st -> aux }.
Fixpoint steps (s : st) (l : list action) : option st :=
  match l with
  | [] => Some s
  | a :: l' => match step true s a with Some s' => steps s' l' | None => None end
  end.
Definition guard (b : bool) (p : option plan) : option plan := if b then p else None.
Definition ok (l : list action) (x : aux) : option plan := Some {| acts := l; post := fun _ => true; nxt := fun _ => x |}.
Definition skip (x : aux) : option plan := ok [] x.

Definition at_r (s : st) p := rpc_eqb (rp (R s)) p.
Definition at_s (s : st) p := spc_eqb (sp (Sn s)) p.
Definition is_r (x : aux) (a : nat) := negb (Nat.eqb a 0) && Nat.eqb (ract x) a.
Definition is_s (x : aux) (a : nat) := negb (Nat.eqb a 0) && Nat.eqb (sact x) a.
(* the receiver's own continuation that the hooks do not record: return from thread::park / resumption by a worker *)
Definition wake (s : st) : list action :=
  match rp (R s) with
  | RPark => if ttok s then [RStep] else [Spur]     (* no token in the model: nobody of the channel unparked it - a spurious return *)
  | RSusp => [Worker]
  | KRun => [RStep]
  | _ => [] end.
(* the Cancel panic left the call (recv.ret with k = 5): the cancellation points of the coroutine receiver *)
Definition cancel_acts (s : st) : option (list action) :=
  match rp (R s) with
  | KStore | KRun => Some [RCan]
  | RSusp => if runq s then Some [RCan] else None
  | _ => None end.
Definition in_pop (s : st) : bool :=
  match steps s (wake s) with
  | Some s' => at_r s' RPop1 || at_r s' RPop2 || at_r s' RPd1
  | None => false end.
Definition qnil_after_wake (s : st) : bool :=
  match steps s (wake s) with Some s' => isnil (q s') | None => false end.
(* the take of the sender with the unpark / schedule that follows it *)
Definition take_acts (s : st) : list action := if isnone (slot s) then [SStep] else [SStep; SStep].

Definition plan_ev (s : st) (x : aux) (e : list Z) : option plan :=
  match e with
  | [code; za; o; v] =>
    let a := Z.to_nat za in
    match code with
    | 2 => guard (Nat.eqb (sact x) 0 && negb (is_r x a) && Nat.eqb (sn (Sn s)) (Z.to_nat v)) (ok [Send] (set_sact x a))
    | 3 => guard (is_s x a && at_s s SIdle && Bool.eqb (sres (Sn s)) (zb v)) (skip (set_sact x O))
    | 6 => guard (Nat.eqb (sact x) 0 && negb (is_r x a)) (ok [DropChan] (set_sact x a))
    | 7 => guard (is_s x a && at_s s SIdle && negb (salive (Sn s))) (skip (set_sact x O))
    | 8 => guard (Nat.eqb (ract x) 0 && negb (is_s x a)) (ok [TryRecv] (set_ract x a))
    | 10 => guard (Nat.eqb (ract x) 0 && negb (is_s x a)) (ok [Recv (zb o)] (set_ract x a))
    | 9 => guard (is_r x a && at_r s RIdle && res_is (rres (R s)) o v) (skip (set_ract x O))
    | 11 => if Z.eqb o 5
            then guard (is_r x a) (match cancel_acts s with
                                   | Some l => Some {| acts := l; post := fun s' => at_r s' RIdle; nxt := fun _ => set_ract x O |}
                                   | None => None end)
            else guard (is_r x a && at_r s RIdle && res_is (rres (R s)) o v) (skip (set_ract x O))
    | 14 => guard (Nat.eqb (ract x) 0 && negb (is_s x a)) (ok [DropPort] (set_ract x a))
    | 15 => guard (is_r x a && at_r s RIdle && negb (ralive (R s))) (skip (set_ract x O))
    (* ---- src/sync/spsc.rs ---- *)
    | 20 => guard (is_s x a && at_s s SChk && Bool.eqb (pdrop s) (zb v)) (ok [SStep] x)
    | 21 | 27 => guard (is_s x a && at_s s STake && Bool.eqb (negb (isnone (slot s))) (zb v)) (ok (take_acts s) x)
    | 22 => guard (is_r x a && at_r s RStore) (ok [RStep] x)
    | 23 => guard (is_r x a && at_r s RClear) (ok [RStep] x)
    | 24 => guard (is_r x a && at_r s RChk && Z.eqb (Z.of_nat (chans s)) v) (ok [RStep] x)
    | 26 => guard (is_s x a && at_s s SDrop && Z.eqb v 0) (ok [SStep] x)
    | 28 => guard (is_r x a && at_r s RPd0) (ok [RStep] x)
    | 34 => guard (is_r x a && at_r s KStore) (ok [RStep] x)
    | 35 => guard (is_r x a && at_r s KChans && Z.eqb (Z.of_nat (chans s)) v) (ok [RStep] x)
    | 37 => guard (is_r x a && at_r s KTake && Bool.eqb (negb (isnone (slot s))) (zb v)) (ok [RStep] x)
    (* ---- the channel's queue ---- *)
    | 31 => if is_s x a && at_s s SPush && (Z.eqb (qt x) 0 || Z.eqb (qt x) o)
            then ok [SStep] (set_qt x o)
            else guard (negb (Z.eqb (qt x) o)) (skip x)
    | 33 => if freed s then skip x
            else if is_r x a && in_pop s && (Z.eqb (qt x) 0 || Z.eqb (qt x) o)
            then (if qnil_after_wake s then ok (wake s ++ [RStep]) (set_qt x o) else ok (wake s) (set_qt x o))
            else guard (negb (Z.eqb (qt x) o)) (skip x)
    | 32 => if freed s then skip x
            else if is_r x a && in_pop s && (Z.eqb (qh x) 0 || Z.eqb (qh x) o)
            then guard (negb (qnil_after_wake s)) (ok (wake s ++ [RStep]) (set_qh x o))
            else guard (negb (Z.eqb (qh x) o)) (skip x)
    | 36 => if is_r x a && at_r s KEmpty && (Z.eqb (qt x) 0 || Z.eqb (qt x) o)
            then ok [RStep] (set_qt x o)
            else guard (negb (Z.eqb (qt x) o)) (skip x)
    | _ => None
    end
  | _ => None
  end.

Definition accept_ev (sx : ast) (e : list Z) : option ast :=
  let (s, x) := sx in
  if started x
  then match plan_ev s x e with
       | Some p => match steps s (acts p) with
                   | Some s' => if post p s' then Some (s', nxt p s') else None
                   | None => None end
       | None => None end
  else match e with
       | [1; _; _; _] => Some (s, {| started := true; ract := ract x; sact := sact x; qt := qt x; qh := qh x |})
       | _ => Some sx end.

Fixpoint accept_all (sx : ast) (tr : list (list Z)) : option ast :=
  match tr with
  | [] => Some sx
  | e :: l => match accept_ev sx e with Some sx' => accept_all sx' l | None => None end
  end.

Fixpoint nats_eqb (l1 l2 : list nat) : bool :=
  match l1, l2 with
  | [], [] => true
  | a :: t1, b :: t2 => Nat.eqb a b && nats_eqb t1 t2
  | _, _ => false end.
Definition monitors_ok (sx : ast) : bool :=
  let s := fst sx in nats_eqb (sent s) (rcvd s ++ drpd s ++ q s).

(* soundness *)
Lemma steps_reach l : forall s s', Reach true s -> steps s l = Some s' -> Reach true s'.
Proof.
  induction l as [|a l IH]; cbn [steps]; intros s s' Hr H; [inversion H; subst; exact Hr|].
  destruct (step true s a) as [s1|] eqn:E; [|discriminate]. eapply IH; [eapply RS; eauto | exact H].
Qed.
Lemma accept_ev_ok sx e sx' : Reach true (fst sx) -> accept_ev sx e = Some sx' -> Reach true (fst sx').
Proof.
  intros Hr H. destruct sx as [s x]. unfold accept_ev in H. cbn [fst] in Hr.
  destruct (started x).
  - destruct (plan_ev s x e) as [p|]; [|discriminate].
    destruct (steps s (acts p)) as [s1|] eqn:E; [|discriminate].
    destruct (post p s1); [|discriminate]. inversion H; subst. cbn [fst]. eapply steps_reach; eauto.
  - repeat match type of H with
           | match ?t with _ => _ end = Some _ => destruct t eqn:?; try discriminate
           end; inversion H; subst; exact Hr.
Qed.
Theorem accept_all_reach tr : forall sx sx', Reach true (fst sx) -> accept_all sx tr = Some sx' -> Reach true (fst sx').
Proof.
  induction tr as [|e l IH]; cbn [accept_all]; intros sx sx' Hr H; [inversion H; subst; exact Hr|].
  destruct (accept_ev sx e) as [s1|] eqn:E; [|discriminate]. eapply IH; [eapply accept_ev_ok; eauto | exact H].
Qed.
Corollary accepted_trace_reaches tr sx : accept_all a_init tr = Some sx -> Reach true (fst sx).
Proof. intro H. apply (accept_all_reach tr a_init sx); [constructor | exact H]. Qed.
