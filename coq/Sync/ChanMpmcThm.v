(* Theorems about the mpmc channel model: C06 / C07 statements for the mpmc instance on the current
   code (fix7 = fix7b = true), and the refutations of C07 (iii) for the two earlier versions. *)
From Coq Require Import List Arith Bool Lia Sorted.
Import ListNotations.
Require Import MayV.Sync.ChanMpmcModel MayV.Sync.ChanMpmcInv MayV.Sync.ChanMpmcTac.
Require Import MayV.Sync.ChanMpmcPres1 MayV.Sync.ChanMpmcPres2 MayV.Sync.ChanMpmcPres3 MayV.Sync.ChanMpmcPres4 MayV.Sync.ChanMpmcPres5.

Lemma inv_step c s ac s' : Inv s -> step true true c s ac = Some s' -> Inv s'.
Proof.
  intros Hi H. constructor.
  - intro r. destruct (pres_links _ _ _ _ Hi H r) as (L1 & L2 & L3).
    destruct (pres_rrest _ _ _ _ Hi H r) as (A1 & A2 & A3 & A4 & A5 & A6 & A7).
    destruct (pres_r78 _ _ _ _ Hi H r) as (B1 & B2). unfold rinv. tauto.
  - intro a. destruct (pres_slinks _ _ _ _ Hi H a) as (L1 & L2 & L3 & L4 & L5).
    pose proof (pres_sdead _ _ _ _ Hi H a) as D. unfold sinv. tauto.
  - eapply pres_nd; eauto.
  - eapply pres_cnt; eauto.
  - eapply pres_sem; eauto.
  - eapply pres_drop; eauto.
  - eapply pres_e1; eauto.
  - eapply pres_j1; eauto.
  - eapply pres_j2; eauto.
  - eapply pres_acc; eauto.
  - eapply pres_drpd; eauto.
  - eapply pres_ord; eauto.
Qed.

(* for the current code (fix7c = false) and for the code with the re-check of try_recv (fix7c = true) *)
Theorem inv_reach c s : Reach true true c s -> Inv s.
Proof. induction 1; [apply inv_init | eapply inv_step; eauto]. Qed.

(* ------------------------------------------------------------------------------------------ *)
(* list facts *)
Lemma nodup_map_pair (a : nat) (l : list nat) : NoDup l -> NoDup (map (pair a) l).
Proof.
  induction 1 as [|x l N _ IH]; cbn; constructor; auto.
  intro I. apply in_map_iff in I. destruct I as [y [E I]]. inversion E; subst. contradiction.
Qed.
Lemma nodup_by_filter (l : list val) : (forall a, NoDup (filter (from a) l)) -> NoDup l.
Proof.
  induction l as [|x l IH]; intros H; constructor.
  - intro I. specialize (H (fst x)). cbn in H. unfold from at 1 in H. rewrite Nat.eqb_refl in H.
    inversion H; subst. apply H2. apply filter_In. split; auto. unfold from. apply Nat.eqb_refl.
  - apply IH. intro a. specialize (H a). cbn in H. destruct (from a x); auto. now inversion H.
Qed.
Lemma prefix_of_seq (f : nat -> val) l1 : forall l2 s n, l1 ++ l2 = map f (seq s n) -> l1 = map f (seq s (length l1)) /\ length l1 <= n.
Proof.
  induction l1 as [|x l1 IH]; intros l2 s n E; cbn; [split; [reflexivity | lia]|].
  destruct n as [|n]; cbn in E; [discriminate|]. inversion E; subst.
  destruct (IH _ _ _ H1) as [E1 L]. split; [f_equal; exact E1 | lia].
Qed.
Lemma filter_map_swap {X Y} (g : X -> Y) (p : Y -> bool) l : filter p (map g l) = map g (filter (fun x => p (g x)) l).
Proof. induction l as [|x l IH]; cbn; auto. destruct (p (g x)); cbn; rewrite IH; reflexivity. Qed.
Lemma sorted_seq s n : StronglySorted lt (seq s n).
Proof.
  revert s. induction n as [|n IH]; intro s; cbn; constructor; auto.
  apply Forall_forall. intros x I. apply in_seq in I. lia.
Qed.
Lemma sorted_filter_map {X} (g : X -> nat) (p : X -> bool) l : StronglySorted lt (map g l) -> StronglySorted lt (map g (filter p l)).
Proof.
  induction l as [|x l IH]; cbn; intro S; [constructor|]. apply StronglySorted_inv in S. destruct S as [S F].
  destruct (p x); cbn; auto. constructor; auto.
  rewrite Forall_forall in *. intros y I. apply F. apply in_map_iff in I. destruct I as [z [E I]]. apply filter_In in I.
  apply in_map_iff. exists z. tauto.
Qed.

(* ------------------------------------------------------------------------------------------ *)
(* C06 (i) *)
Theorem mpmc_accounting c s : Reach true true c s -> sent s = map snd (rlog s) ++ drpd s ++ q s.
Proof. intro H. exact (I_acc _ (inv_reach _ _ H)). Qed.

Theorem mpmc_sender_sequence c s a : Reach true true c s -> filter (from a) (sent s) = map (pair a) (seq 0 (sn (Sd s a))).
Proof. intro H. exact (I_ord _ (inv_reach _ _ H) a). Qed.

Theorem mpmc_sent_distinct c s : Reach true true c s -> NoDup (sent s).
Proof.
  intro H. apply nodup_by_filter. intro a. rewrite (mpmc_sender_sequence c s a H). apply nodup_map_pair, seq_NoDup.
Qed.

(* every value pushed by a successful send is in exactly one of: handed to exactly one receiver call
   (one entry of rlog), dropped by the last drop_rx / the final free, still queued; nothing else is *)
Theorem mpmc_exactly_once c s : Reach true true c s ->
  NoDup (map snd (rlog s) ++ drpd s ++ q s) /\
  (forall v, In v (sent s) <-> In v (map snd (rlog s)) \/ In v (drpd s) \/ In v (q s)).
Proof.
  intro H. pose proof (mpmc_accounting c s H) as E. split.
  - rewrite <- E. apply mpmc_sent_distinct with (c := c); auto.
  - intro v. rewrite E, !in_app_iff. tauto.
Qed.

(* per receiver, per sender: the sequence numbers a receiver got from one sender strictly increase *)
Definition got (s : st) (r a : nat) : list nat :=
  map (fun e => snd (snd e)) (filter (fun e => Nat.eqb (fst e) r) (filter (fun e => from a (snd e)) (rlog s))).

Theorem mpmc_per_receiver_order c s r a : Reach true true c s -> StronglySorted lt (got s r a).
Proof.
  intro H. unfold got. apply sorted_filter_map.
  pose proof (mpmc_sender_sequence c s a H) as E. rewrite (mpmc_accounting c s H), filter_app, filter_map_swap in E.
  destruct (prefix_of_seq _ _ _ _ _ E) as [E1 _].
  replace (map (fun e : nat * (nat * nat) => snd (snd e)) (filter (fun e => from a (snd e)) (rlog s)))
    with (map snd (map snd (filter (fun e => from a (snd e)) (rlog s)))) by (rewrite map_map; reflexivity).
  rewrite E1, map_map. cbn [snd]. rewrite map_id. apply sorted_seq.
Qed.

(* ------------------------------------------------------------------------------------------ *)
(* C06 (ii): while a sender exists the permits never exceed the queued values, so a receiver that
   acquired a permit finds a value: `unreachable!("mpmc recv found no data")` is unreachable *)
Theorem mpmc_permits_are_values c s : Reach true true c s -> txp s <> 0 -> rxp s <> 0 ->
  length (q s) = sv s + length (hold s) + length (pend s).
Proof. intros H T X. destruct (I_e1 _ (inv_reach _ _ H) T) as [A B]. specialize (B X). lia. Qed.

Theorem mpmc_unreachable_is_unreachable c s r : Reach true true c s ->
  rp (Rv s r) <> RPanic /\ (rp (Rv s r) = Y3n -> txp s = 0).
Proof.
  intro H. pose proof (I_R _ (inv_reach _ _ H) r) as Q. unfold rinv in Q.
  destruct Q as (_ & _ & _ & _ & _ & _ & Q7 & Q8 & _). split; auto.
Qed.

(* a receiver holding a permit while a sender is alive faces a non-empty queue *)
Theorem mpmc_holder_finds_value c s r : Reach true true c s -> rp (Rv s r) = Y2 -> txp s <> 0 -> q s <> [].
Proof.
  intros H P T. pose proof (inv_reach _ _ H) as Hi. pose proof (I_R _ Hi r) as Q. unfold rinv in Q.
  destruct Q as (Q1 & _ & _ & Q4 & _). rewrite P in *. assert (I : In r (hold s)) by tauto.
  assert (X : rxp s <> 0) by (apply (alive_rx s r Hi); apply Q4; reflexivity).
  pose proof (mpmc_permits_are_values c s H T X) as E. intro Z. rewrite Z in E. cbn in E.
  destruct (hold s); [destruct I | cbn in E; lia].
Qed.

(* the abstract semaphore: a positive value means that nobody is blocked; a blocked waiter is in wq *)
Theorem mpmc_sem_contract c s : Reach true true c s ->
  (sv s <> 0 -> wq s = []) /\ (forall r, In r (wq s) <-> rp (Rv s r) = WB /\ rgr (Rv s r) = false).
Proof.
  intro H. pose proof (inv_reach _ _ H) as Hi. split; [apply (I_sem _ Hi)|].
  intro r. pose proof (I_R _ Hi r) as Q. unfold rinv in Q. tauto.
Qed.

(* ------------------------------------------------------------------------------------------ *)
(* C07 (iii): after the last sender *)

Definition quiescent (s : st) : Prop :=
  (forall a, sp (Sd s a) = SIdle) /\ (forall r, rp (Rv s r) = YIdle \/ rp (Rv s r) = X1 \/ (rp (Rv s r) = WB /\ rgr (Rv s r) = false)).

(* once every Sender is gone and nobody has a step left, a permit is available: no receiver is blocked
   in sem.wait(), alone or alongside other receivers - and the permits cover the queued values, so the
   calls that follow drain the queue before they answer Disconnected *)
Theorem mpmc_no_hang_after_disconnect c s : Reach true true c s -> txp s = 0 -> quiescent s ->
  (forall r, rp (Rv s r) <> WB) /\ 1 <= sv s /\ length (q s) <= sv s.
Proof.
  intros H T [Qs Qr]. pose proof (inv_reach _ _ H) as Hi.
  assert (Hh : hold s = []).
  { apply nil_of_notin. intros r I. pose proof (I_R _ Hi r) as Q. unfold rinv in Q. destruct Q as (Q1 & _).
    apply Q1 in I. destruct (Qr r) as [E|[E|[E G]]]; destruct I as [I|[I1 I2]]; congruence. }
  assert (Hr : rep s = []).
  { apply nil_of_notin. intros r I. pose proof (I_R _ Hi r) as Q. unfold rinv in Q. destruct Q as (_ & _ & Q3 & _).
    apply Q3 in I. destruct (Qr r) as [E|[E|[E G]]]; rewrite E in I; discriminate. }
  assert (Hd : dropper s = None).
  { destruct (dropper s) as [a|] eqn:D; auto. destruct (I_drop _ Hi a D) as [[X|X] _]; rewrite (Qs a) in X; discriminate. }
  pose proof (I_j2 _ Hi T Hd) as J2. pose proof (I_j1 _ Hi T) as J1. unfold g1of in J1. rewrite Hd, Hh, Hr in *. cbn in *.
  assert (Sv : sv s <> 0) by lia. pose proof (I_sem _ Hi Sv) as W.
  repeat split; try lia. intros r E. destruct (Qr r) as [X|[X|[_ G]]]; try congruence.
  pose proof (I_R _ Hi r) as Q. unfold rinv in Q. destruct Q as (_ & Q2 & _). assert (I : In r (wq s)) by tauto. rewrite W in I. destruct I.
Qed.

Theorem mpmc_disconnect_stable c s ac s' : Reach true true c s -> step true true c s ac = Some s' -> txp s = 0 -> txp s' = 0.
Proof.
  intros H St T. pose proof (inv_reach _ _ H) as Hi.
  step_cases St; boolh; unf; prj; auto; try congruence.
  all: sfacts Hi; try match goal with E : sst (Sd ?s0 ?a) = Alive |- _ => exfalso; exact (alive_tx _ _ Hi E T) end.
Qed.

(* Disconnected is answered only after the last sender is gone *)
Theorem mpmc_disconnected_only_without_senders c s r : Reach true true c s ->
  rp (Rv s r) = YIdle -> rres (Rv s r) = RDisc -> txp s = 0.
Proof.
  intros H P E. pose proof (I_R _ (inv_reach _ _ H) r) as Q. unfold rinv in Q.
  destruct Q as (_ & _ & _ & _ & _ & _ & _ & _ & _ & Q10 & _). auto.
Qed.

(* a call that starts after the last sender is gone never waits on the semaphore and does not answer
   Empty or Timeout *)
Theorem mpmc_call_after_disconnect c s r : Reach true true c s -> rdead (Rv s r) = true ->
  txp s = 0 /\ rp (Rv s r) <> W0 /\ rp (Rv s r) <> WB /\
  (rp (Rv s r) = YIdle -> match rres (Rv s r) with REmpty | RTimeout => False | _ => True end).
Proof.
  intros H D. pose proof (I_R _ (inv_reach _ _ H) r) as Q. unfold rinv in Q.
  destruct Q as (_ & _ & _ & _ & _ & _ & _ & _ & Q9 & _). auto.
Qed.

(* ------------------------------------------------------------------------------------------ *)
(* C07 (iv) *)
Theorem mpmc_send_after_last_receiver c s a : Reach true true c s -> sdead (Sd s a) = true ->
  rxp s = 0 /\ (sp (Sd s a) = M0 \/ (sp (Sd s a) = SIdle /\ sres (Sd s a) = false)).
Proof.
  intros H D. pose proof (I_S _ (inv_reach _ _ H) a) as Q. unfold sinv in Q. destruct Q as (_ & _ & _ & _ & Q5 & _). auto.
Qed.

Theorem mpmc_ports_count_live c s : Reach true true c s ->
  txp s = length (livet s) /\ rxp s = length (liver s) /\
  (forall a, sp (Sd s a) = MS -> txp s <> 0) /\ (forall r, rp (Rv s r) = X0 -> rxp s <> 0).
Proof.
  intro H. pose proof (inv_reach _ _ H) as Hi. destruct (I_cnt _ Hi) as [C1 C2]. repeat split; auto.
  - intros a E. pose proof (I_S _ Hi a) as Q. unfold sinv in Q. destruct Q as (_ & Q2 & _). rewrite E in Q2. exact (alive_tx _ _ Hi (Q2 eq_refl)).
  - intros r E. pose proof (I_R _ Hi r) as Q. unfold rinv in Q. destruct Q as (_ & _ & _ & Q4 & _). rewrite E in Q4. exact (alive_rx _ _ Hi (Q4 eq_refl)).
Qed.

(* ------------------------------------------------------------------------------------------ *)
(* the two earlier versions: a receiver blocked for ever although every Sender is gone *)
Definition stranded (s : st) (r : nat) : Prop :=
  txp s = 0 /\ rp (Rv s r) = WB /\ rgr (Rv s r) = false /\ sv s = 0 /\
  (forall a, a <= 3 -> sp (Sd s a) = SIdle) /\ (forall r', r' <= 3 -> r' <> r -> rp (Rv s r') = YIdle).

(* F7 (before 9c5b86f): two receivers past their failed try_recv; the last sender posts ONE permit;
   the first receiver consumes it, finds the queue empty, answers Disconnected and does not pass it on *)
Definition sch_f7 : list action :=
  [CloneRx 0 1; RStep 0;
   Recv 0 false; RStep 0; RStep 0;  Recv 1 false; RStep 1; RStep 1;
   DropTx 0; SStep 0; SStep 0; SStep 0; SStep 0;
   RStep 0; RStep 0; RStep 0;  RStep 1].

Theorem mpmc_no_hang_after_disconnect_refuted_single_permit :
  exists s, Reach false true false s /\ stranded s 1 /\ rres (Rv s 0) = RDisc.
Proof.
  exists (run false true false init sch_f7). split; [apply reach_run; constructor|].
  split; [|vm_compute; reflexivity]. unfold stranded. repeat split; try (vm_compute; reflexivity).
  - intros a L. do 4 (destruct a as [|a]; [vm_compute; reflexivity|]). lia.
  - intros r L N. do 4 (destruct r as [|r]; [try (vm_compute; reflexivity); congruence|]). lia.
Qed.

(* F7b (before 9949d82): the last sender finds a DATA permit pending and posts nothing; a receiver
   consumes that permit together with the value; the other receiver, already past its tx_ports check,
   blocks for ever *)
Definition sch_f7b : list action :=
  [CloneRx 0 1; RStep 0;
   Recv 1 false; RStep 1; RStep 1;
   Send 0; SStep 0; SStep 0; SStep 0;
   DropTx 0; SStep 0; SStep 0;
   TryRecv 0; RStep 0; RStep 0;
   RStep 1].

Theorem mpmc_no_hang_after_disconnect_refuted_data_permit :
  exists s, Reach true false false s /\ stranded s 1 /\ rres (Rv s 0) = ROk (0, 0).
Proof.
  exists (run true false false init sch_f7b). split; [apply reach_run; constructor|].
  split; [|vm_compute; reflexivity]. unfold stranded. repeat split; try (vm_compute; reflexivity).
  - intros a L. do 4 (destruct a as [|a]; [vm_compute; reflexivity|]). lia.
  - intros r L N. do 4 (destruct r as [|r]; [try (vm_compute; reflexivity); congruence|]). lia.
Qed.

(* the same schedules on the current code end with both receivers answered *)
Example f7_schedule_now_disconnects :
  let s := run true true false init (sch_f7 ++ [RStep 0; RStep 1; RStep 1; RStep 1; RStep 1; RStep 1]) in
  Reach true true false s /\ rres (Rv s 0) = RDisc /\ rres (Rv s 1) = RDisc /\ rp (Rv s 1) = YIdle /\ sv s = 1.
Proof. split; [apply reach_run; constructor | vm_compute; auto]. Qed.
Example f7b_schedule_now_disconnects :
  let s := run true true false init (sch_f7b ++ [RStep 0; RStep 0; RStep 1; RStep 1; RStep 1; RStep 1; RStep 1]) in
  Reach true true false s /\ rres (Rv s 0) = ROk (0, 0) /\ rres (Rv s 1) = RDisc /\ rp (Rv s 1) = YIdle /\ sv s = 1.
Proof. split; [apply reach_run; constructor | vm_compute; auto]. Qed.

(* non-vacuity of the quiescent theorem: all senders gone, two receivers idle, a permit left over *)
Example quiescent_after_disconnect :
  let s := run true true false init (sch_f7 ++ [RStep 0; RStep 1; RStep 1; RStep 1; RStep 1; RStep 1]) in
  txp s = 0 /\ rp (Rv s 0) = YIdle /\ rp (Rv s 1) = YIdle /\ sp (Sd s 0) = SIdle /\ 1 <= sv s.
Proof. vm_compute. repeat split; auto. Qed.

(* ------------------------------------------------------------------------------------------ *)
(* F7c: drain before Disconnected *)

(* the CURRENT code (fix7c = false): a single receiver is told Disconnected although a value sent
   before the last Sender was dropped is still queued (its try_wait failed while the queue was empty;
   the value, its permit and the drop came before its tx_ports.load) *)
Definition sch_f7c : list action :=
  [TryRecv 0; RStep 0;                                  (* try_wait fails: no permit, a sender is alive *)
   Send 0; SStep 0; SStep 0; SStep 0;                   (* rx_ports.load, push, post *)
   DropTx 0; SStep 0; SStep 0;                          (* tx_ports -> 0; get_value = 1: nothing to post *)
   RStep 0].                                            (* tx_ports.load = 0 -> Disconnected *)

Theorem mpmc_drain_before_disconnect_refuted :
  exists s, Reach true true false s /\ rp (Rv s 0) = YIdle /\ rres (Rv s 0) = RDisc /\ q s = [(0, 0)] /\ sv s = 1 /\
            txp s = 0 /\ sp (Sd s 0) = SIdle /\ hold s = [] /\ rep s = [] /\ dropper s = None.
Proof.
  exists (run true true false init sch_f7c). split; [apply reach_run; constructor | vm_compute; intuition].
Qed.

(* with the re-check (fix7c = true): whenever a receiver call decides Disconnected, the queue is empty or
   every queued value is claimed by a permit that another receiver (or the last dropper) holds in flight *)
Theorem mpmc_disconnected_means_claimed s r s' : Reach true true true s -> step true true true s (RStep r) = Some s' ->
  rp (Rv s r) <> YIdle -> rp (Rv s' r) = YIdle -> rres (Rv s' r) = RDisc ->
  q s = [] \/ (sv s = 0 /\ length (q s) <= length (hold s) + length (rep s) + g1of s).
Proof.
  intros H St N P E. pose proof (inv_reach _ _ H) as Hi. pose proof (I_R _ Hi r) as Q. unfold rinv in Q.
  destruct Q as (_ & _ & _ & _ & _ & _ & Q7 & _ & _ & _ & _ & Q12).
  step_cases St; boolh; unf; prj; rewrite ?upd_eq in *; prj; try congruence; try discriminate.
  all: try (left; apply Q12; auto; fail).
  all: try (unfold post_Rv in *; destruct (wq s); upd_tac; prj; try discriminate; try congruence; fail).
  all: try (unfold upd in E; destruct (Nat.eqb r (rto (Rv s r))); [cbn in E; discriminate | rewrite Nat.eqb_refl in E; cbn in E; discriminate]).
  (* Y0b: the second try_wait found nothing *)
  right. split; [reflexivity|]. assert (T : txp s = 0) by (apply Q7; auto).
  pose proof (I_j1 _ Hi T) as J. rewrite Esv in J. exact J.
Qed.

(* ... so a receiver that is told Disconnected while nobody else is inside a call has drained the queue *)
Corollary mpmc_disconnected_means_drained s r s' : Reach true true true s -> step true true true s (RStep r) = Some s' ->
  rp (Rv s r) <> YIdle -> rp (Rv s' r) = YIdle -> rres (Rv s' r) = RDisc ->
  hold s = [] -> rep s = [] -> dropper s = None -> q s = [].
Proof.
  intros H St N P E Hh Hr Hd. destruct (mpmc_disconnected_means_claimed s r s' H St N P E) as [Z|[_ L]]; auto.
  unfold g1of in L. rewrite Hh, Hr, Hd in L. cbn in L. destruct (q s); [reflexivity | cbn in L; lia].
Qed.

(* the schedule of the refutation on the code with the re-check: the value is received first *)
Example f7c_schedule_with_recheck_drains :
  let s := run true true true init (sch_f7c ++ [RStep 0; RStep 0; RStep 0; RStep 0]) in
  Reach true true true s /\ rres (Rv s 0) = ROk (0, 0) /\ q s = [] /\ sv s = 1.
Proof. split; [apply reach_run; constructor | vm_compute; auto]. Qed.
