(* Upper-layer model of may::sync::mpsc (src/sync/mpsc.rs), CURRENT code.  Definitions only.

   Abstractions of DESIGN 2.1: the may_queue::mpsc queue is an atomic FIFO `q` (its refinement is
   property C03), a Blocker is the token object {tok, parked, reason} (BlockerSpec: unpark sets the
   token and gives a parked owner the reason Unparked; park returns at once when the token is set
   and clears it, else suspends; a resumption needs a reason and clears the token whatever the
   reason).  One transition per shared access of mpsc.rs, in program order:

     Sender::send          SChk    port_dropped.load      (true: Err(t))          -> SIdle | SPush
                           SPush   queue.push(t)                                   -> STake
                           STake   to_wake.take()                                  -> SUnpark | SIdle
                           SUnpark w.unpark()                                      -> SIdle
     Sender::clone         SAdd    channels.fetch_add(1)                           -> SIdle
     Sender::drop          SSub    channels.fetch_sub(1)  (1: take, unpark)        -> STake | SIdle
     Receiver::try_recv    RPop1   queue.pop()                                     -> data | RChk
                           RChk    channels.load          (> 0: Empty)             -> empty | RPop2
                           RPop2   queue.pop()            (None: Disconnected)     -> data
     InnerQueue::recv(dur) RStore  to_wake.store(cur)     (fresh blocker)          -> RPop1 (ctx CReg)
                           RClear  to_wake.clear()        (data found on re-check) -> return
                           RPark   cur.park(dur): token check                      -> RPop1 (ctx CFin) | RWait
                           RWait   suspended, resumed with a reason                -> RPop1 (ctx CFin) | return Cancel
     Receiver::recv        loop over InnerQueue::recv(None) while it answers Empty
     Receiver::recv_timeout  try_recv (ctx CFirst); recv_max_until: loop { recv(Some d); RDeadline: now >= deadline ? Timeout : again }
     Receiver::drop        RPd0    port_dropped.store(true)                        -> RPd1
                           RPd1    queue.pop() until None                          -> dead

   Sender handles are the actors on the sending side (a handle is used by one thread at a time:
   Sender is !Sync), any number of them; `Clone a b` makes the unborn handle b alive at a's
   fetch_add.  There is one Receiver.  An idle live endpoint may start any call, so quantifying over
   schedules quantifies over all client programs.  Environment actions: `Fire RT` (the timer hits a
   receiver suspended in a timed park), `Fire RC` (cancel() hits a suspended coroutine receiver) - as
   in the real Park both may still win after the token was set, so they are enabled until the
   receiver has resumed; `RDl e` (outcome of `Instant::now() >= deadline`, time is not modelled
   here: C08); `Free` (the last Arc is gone: the values still queued are dropped).

   Payloads are tagged (handle, k) with k the number of earlier successful sends of that handle.
   Ghost state (never read by the code part): sent (push order), rcvd (values handed to the user,
   in order), drpd (values dropped by drop_port / Free), live (handles counted in `channels`),
   rdead / sdead (the peer was already gone when the call in progress started). *)
From Coq Require Import List Arith Bool Lia.
Import ListNotations.

Definition val := (nat * nat)%type.

Inductive rpc := RIdle | RStore | RPop1 | RChk | RPop2 | RClear | RPark | RWait | RDeadline | RPd0 | RPd1.
Inductive tctx := CTry | CFirst | CReg | CFin.   (* which try_recv: plain / recv_timeout's first / re-check after store / after park *)
Inductive api := ATry | ARecv | ATimed | ADrop.
Inductive res := RNone | ROk (v : val) | REmpty | RDisc | RTimeout | RCancel.
Inductive rsn := RU | RT | RC.
Inductive spc := SIdle | SChk | SPush | STake | SUnpark | SAdd | SSub.
Inductive hst := Unborn | Alive | Dead.

Record rcvr := { rp : rpc; rc : tctx; rapi : api; rb : nat; rco : bool; rres : res; rdata : res; ralive : bool; rdead : bool }.
Record sndr := { sp : spc; sw : nat; sto : nat; sst : hst; sres : bool; sdead : bool; sn : nat }.
Record blk := { tok : bool; parked : bool; reason : option rsn }.
Record st := { q : list val; slot : option nat; chans : nat; pdrop : bool; nextb : nat;
               R : rcvr; Sd : nat -> sndr; Bk : nat -> blk;
               sent : list val; rcvd : list val; drpd : list val; live : list nat; freed : bool }.

Definition upd {X} (f : nat -> X) i v := fun j => if Nat.eqb j i then v else f j.
Definition mk q' sl c p n r s' b se rv dr li fr :=
  {| q := q'; slot := sl; chans := c; pdrop := p; nextb := n; R := r; Sd := s'; Bk := b; sent := se; rcvd := rv; drpd := dr; live := li; freed := fr |}.
Definition fresh := {| tok := false; parked := false; reason := None |}.
Definition rm := remove Nat.eq_dec.

(* receiver record updates *)
Definition r_set (x : rcvr) p c := {| rp := p; rc := c; rapi := rapi x; rb := rb x; rco := rco x; rres := rres x; rdata := rdata x; ralive := ralive x; rdead := rdead x |}.
Definition r_ret (x : rcvr) r := {| rp := RIdle; rc := rc x; rapi := rapi x; rb := rb x; rco := rco x; rres := r; rdata := rdata x; ralive := ralive x; rdead := rdead x |}.
Definition r_data (x : rcvr) d :=
  match rc x with
  | CReg => {| rp := RClear; rc := rc x; rapi := rapi x; rb := rb x; rco := rco x; rres := rres x; rdata := d; ralive := ralive x; rdead := rdead x |}
  | _ => r_ret x d
  end.
Definition r_empty (x : rcvr) :=
  match rc x with
  | CTry => r_ret x REmpty
  | CFirst => r_set x RStore CFirst
  | CReg => r_set x RPark CReg
  | CFin => match rapi x with ATimed => r_set x RDeadline CFin | _ => r_set x RStore CFin end
  end.
Definition r_start (x : rcvr) ap co p c d := {| rp := p; rc := c; rapi := ap; rb := rb x; rco := co; rres := RNone; rdata := RNone; ralive := ralive x; rdead := d |}.
Definition r_reg (x : rcvr) b := {| rp := RPop1; rc := CReg; rapi := rapi x; rb := b; rco := rco x; rres := rres x; rdata := rdata x; ralive := ralive x; rdead := rdead x |}.
Definition r_gone (x : rcvr) := {| rp := RIdle; rc := rc x; rapi := rapi x; rb := rb x; rco := rco x; rres := RNone; rdata := rdata x; ralive := false; rdead := false |}.

(* sender record updates *)
Definition s_pc (y : sndr) p := {| sp := p; sw := sw y; sto := sto y; sst := sst y; sres := sres y; sdead := sdead y; sn := sn y |}.
Definition s_call (y : sndr) p t d := {| sp := p; sw := sw y; sto := t; sst := sst y; sres := sres y; sdead := d; sn := sn y |}.
Definition s_res (y : sndr) p r := {| sp := p; sw := sw y; sto := sto y; sst := sst y; sres := r; sdead := sdead y; sn := sn y |}.
Definition s_pushed (y : sndr) := {| sp := STake; sw := sw y; sto := sto y; sst := sst y; sres := true; sdead := sdead y; sn := S (sn y) |}.
Definition s_took (y : sndr) b := {| sp := SUnpark; sw := b; sto := sto y; sst := sst y; sres := sres y; sdead := sdead y; sn := sn y |}.
Definition s_st (y : sndr) p h := {| sp := p; sw := sw y; sto := sto y; sst := h; sres := sres y; sdead := sdead y; sn := sn y |}.

(* blocker updates *)
Definition b_unpark (k : blk) := {| tok := true; parked := parked k; reason := if parked k then match reason k with None => Some RU | r => r end else reason k |}.
Definition b_tok (k : blk) t := {| tok := t; parked := parked k; reason := reason k |}.
Definition b_park (k : blk) := {| tok := tok k; parked := true; reason := None |}.
Definition b_fire (k : blk) r := {| tok := tok k; parked := parked k; reason := Some r |}.

Inductive action :=
  | TryRecv | Recv (co : bool) | RecvTimeout (co : bool) | DropPort
  | RStep | RDl (expired : bool) | Fire (r : rsn)
  | Send (a : nat) | Clone (a b : nat) | DropChan (a : nat) | SStep (a : nat)
  | Free.

Definition is_idle (x : rcvr) : bool := match rp x with RIdle => ralive x | _ => false end.
Definition s_ready (y : sndr) : bool := match sp y, sst y with SIdle, Alive => true | _, _ => false end.
Definition is0 (n : nat) := Nat.eqb n 0.

Definition step (s : st) (ac : action) : option st :=
  let x := R s in
  match ac with
  | TryRecv => if is_idle x
      then Some (mk (q s) (slot s) (chans s) (pdrop s) (nextb s) (r_start x ATry false RPop1 CTry (is0 (chans s))) (Sd s) (Bk s) (sent s) (rcvd s) (drpd s) (live s) (freed s))
      else None
  | Recv co => if is_idle x
      then Some (mk (q s) (slot s) (chans s) (pdrop s) (nextb s) (r_start x ARecv co RStore CReg (is0 (chans s))) (Sd s) (Bk s) (sent s) (rcvd s) (drpd s) (live s) (freed s))
      else None
  | RecvTimeout co => if is_idle x
      then Some (mk (q s) (slot s) (chans s) (pdrop s) (nextb s) (r_start x ATimed co RPop1 CFirst (is0 (chans s))) (Sd s) (Bk s) (sent s) (rcvd s) (drpd s) (live s) (freed s))
      else None
  | DropPort => if is_idle x
      then Some (mk (q s) (slot s) (chans s) (pdrop s) (nextb s) (r_start x ADrop false RPd0 CTry false) (Sd s) (Bk s) (sent s) (rcvd s) (drpd s) (live s) (freed s))
      else None
  | RDl e => match rp x with
      | RDeadline => Some (mk (q s) (slot s) (chans s) (pdrop s) (nextb s) (if e then r_ret x RTimeout else r_set x RStore CFin) (Sd s) (Bk s) (sent s) (rcvd s) (drpd s) (live s) (freed s))
      | _ => None end
  | Fire r => match rp x with
      | RWait => if match r with RU => false | RT => match rapi x with ATimed => true | _ => false end | RC => rco x end
                 then Some (mk (q s) (slot s) (chans s) (pdrop s) (nextb s) x (Sd s) (upd (Bk s) (rb x) (b_fire (Bk s (rb x)) r)) (sent s) (rcvd s) (drpd s) (live s) (freed s))
                 else None
      | _ => None end
  | RStep =>
      let k := Bk s (rb x) in
      match rp x with
      | RIdle | RDeadline => None
      | RStore => let b := nextb s in
          Some (mk (q s) (Some b) (chans s) (pdrop s) (S b) (r_reg x b) (Sd s) (upd (Bk s) b fresh) (sent s) (rcvd s) (drpd s) (live s) (freed s))
      | RPop1 => match q s with
          | v :: q' => Some (mk q' (slot s) (chans s) (pdrop s) (nextb s) (r_data x (ROk v)) (Sd s) (Bk s) (sent s) (rcvd s ++ [v]) (drpd s) (live s) (freed s))
          | [] => Some (mk (q s) (slot s) (chans s) (pdrop s) (nextb s) (r_set x RChk (rc x)) (Sd s) (Bk s) (sent s) (rcvd s) (drpd s) (live s) (freed s))
          end
      | RChk => if is0 (chans s)
          then Some (mk (q s) (slot s) (chans s) (pdrop s) (nextb s) (r_set x RPop2 (rc x)) (Sd s) (Bk s) (sent s) (rcvd s) (drpd s) (live s) (freed s))
          else Some (mk (q s) (slot s) (chans s) (pdrop s) (nextb s) (r_empty x) (Sd s) (Bk s) (sent s) (rcvd s) (drpd s) (live s) (freed s))
      | RPop2 => match q s with
          | v :: q' => Some (mk q' (slot s) (chans s) (pdrop s) (nextb s) (r_data x (ROk v)) (Sd s) (Bk s) (sent s) (rcvd s ++ [v]) (drpd s) (live s) (freed s))
          | [] => Some (mk (q s) (slot s) (chans s) (pdrop s) (nextb s) (r_data x RDisc) (Sd s) (Bk s) (sent s) (rcvd s) (drpd s) (live s) (freed s))
          end
      | RClear => Some (mk (q s) None (chans s) (pdrop s) (nextb s) (r_ret x (rdata x)) (Sd s) (Bk s) (sent s) (rcvd s) (drpd s) (live s) (freed s))
      | RPark => if tok k
          then Some (mk (q s) (slot s) (chans s) (pdrop s) (nextb s) (r_set x RPop1 CFin) (Sd s) (upd (Bk s) (rb x) (b_tok k false)) (sent s) (rcvd s) (drpd s) (live s) (freed s))
          else Some (mk (q s) (slot s) (chans s) (pdrop s) (nextb s) (r_set x RWait (rc x)) (Sd s) (upd (Bk s) (rb x) (b_park k)) (sent s) (rcvd s) (drpd s) (live s) (freed s))
      | RWait => match reason k with
          | None => None
          | Some r => Some (mk (q s) (slot s) (chans s) (pdrop s) (nextb s)
                              (match r with RC => r_ret x RCancel | _ => r_set x RPop1 CFin end)
                              (Sd s) (upd (Bk s) (rb x) fresh) (sent s) (rcvd s) (drpd s) (live s) (freed s))
          end
      | RPd0 => Some (mk (q s) (slot s) (chans s) true (nextb s) (r_set x RPd1 (rc x)) (Sd s) (Bk s) (sent s) (rcvd s) (drpd s) (live s) (freed s))
      | RPd1 => match q s with
          | v :: q' => Some (mk q' (slot s) (chans s) (pdrop s) (nextb s) x (Sd s) (Bk s) (sent s) (rcvd s) (drpd s ++ [v]) (live s) (freed s))
          | [] => Some (mk (q s) (slot s) (chans s) (pdrop s) (nextb s) (r_gone x) (Sd s) (Bk s) (sent s) (rcvd s) (drpd s) (live s) (freed s))
          end
      end
  | Send a => let y := Sd s a in
      if s_ready y
      then Some (mk (q s) (slot s) (chans s) (pdrop s) (nextb s) x (upd (Sd s) a (s_call y SChk (sto y) (pdrop s))) (Bk s) (sent s) (rcvd s) (drpd s) (live s) (freed s))
      else None
  | Clone a b => let y := Sd s a in
      if s_ready y && match sst (Sd s b) with Unborn => true | _ => false end
      then Some (mk (q s) (slot s) (chans s) (pdrop s) (nextb s) x (upd (Sd s) a (s_call y SAdd b false)) (Bk s) (sent s) (rcvd s) (drpd s) (live s) (freed s))
      else None
  | DropChan a => let y := Sd s a in
      if s_ready y
      then Some (mk (q s) (slot s) (chans s) (pdrop s) (nextb s) x (upd (Sd s) a (s_call y SSub (sto y) false)) (Bk s) (sent s) (rcvd s) (drpd s) (live s) (freed s))
      else None
  | SStep a => let y := Sd s a in
      match sp y with
      | SIdle => None
      | SChk => if pdrop s
          then Some (mk (q s) (slot s) (chans s) (pdrop s) (nextb s) x (upd (Sd s) a (s_res y SIdle false)) (Bk s) (sent s) (rcvd s) (drpd s) (live s) (freed s))
          else Some (mk (q s) (slot s) (chans s) (pdrop s) (nextb s) x (upd (Sd s) a (s_pc y SPush)) (Bk s) (sent s) (rcvd s) (drpd s) (live s) (freed s))
      | SPush => let v := (a, sn y) in
          Some (mk (q s ++ [v]) (slot s) (chans s) (pdrop s) (nextb s) x (upd (Sd s) a (s_pushed y)) (Bk s) (sent s ++ [v]) (rcvd s) (drpd s) (live s) (freed s))
      | STake => match slot s with
          | Some b => Some (mk (q s) None (chans s) (pdrop s) (nextb s) x (upd (Sd s) a (s_took y b)) (Bk s) (sent s) (rcvd s) (drpd s) (live s) (freed s))
          | None => Some (mk (q s) (slot s) (chans s) (pdrop s) (nextb s) x (upd (Sd s) a (s_pc y SIdle)) (Bk s) (sent s) (rcvd s) (drpd s) (live s) (freed s))
          end
      | SUnpark => Some (mk (q s) (slot s) (chans s) (pdrop s) (nextb s) x (upd (Sd s) a (s_pc y SIdle)) (upd (Bk s) (sw y) (b_unpark (Bk s (sw y)))) (sent s) (rcvd s) (drpd s) (live s) (freed s))
      | SAdd => match sst (Sd s (sto y)) with
          | Unborn => Some (mk (q s) (slot s) (S (chans s)) (pdrop s) (nextb s) x
                               (upd (upd (Sd s) a (s_pc y SIdle)) (sto y) (s_st (Sd s (sto y)) SIdle Alive)) (Bk s) (sent s) (rcvd s) (drpd s) (sto y :: live s) (freed s))
          | _ => None end
      | SSub => match chans s with
          | 0 => None            (* panic!("bad number of channels left") *)
          | S n => Some (mk (q s) (slot s) n (pdrop s) (nextb s) x (upd (Sd s) a (s_st y (if is0 n then STake else SIdle) Dead)) (Bk s) (sent s) (rcvd s) (drpd s) (rm a (live s)) (freed s))
          end
      end
  | Free => if is0 (chans s) && negb (ralive x) && negb (freed s) && match rp x with RIdle => true | _ => false end
      then Some (mk [] (slot s) (chans s) (pdrop s) (nextb s) x (Sd s) (Bk s) (sent s) (rcvd s) (drpd s ++ q s) (live s) true)
      else None
  end.

Definition rcv0 := {| rp := RIdle; rc := CTry; rapi := ATry; rb := 0; rco := false; rres := RNone; rdata := RNone; ralive := true; rdead := false |}.
Definition snd0 (h : hst) := {| sp := SIdle; sw := 0; sto := 0; sst := h; sres := false; sdead := false; sn := 0 |}.
(* channel(): one sender handle (0), one receiver, channels = 1 *)
Definition init : st :=
  mk [] None 1 false 1 rcv0 (fun a => snd0 (if Nat.eqb a 0 then Alive else Unborn)) (fun _ => fresh) [] [] [] [0] false.

Inductive Reach : st -> Prop :=
| R0 : Reach init
| RS s a s' : Reach s -> step s a = Some s' -> Reach s'.

(* run a schedule; a disabled action is skipped *)
Fixpoint run (s : st) (l : list action) : st :=
  match l with [] => s | a :: l' => match step s a with Some s' => run s' l' | None => run s l' end end.

