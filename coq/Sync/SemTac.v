From Coq Require Import List Arith ZArith Bool Lia.
Import ListNotations.
Require Import MayV.Sync.SemModel MayV.Sync.SemInv.
Open Scope Z_scope.

Ltac inv_some :=
  match goal with H : Some _ = Some _ |- _ => inversion H; subst; clear H end.
Ltac step_cases H :=
  unfold step in H;
  repeat match type of H with
  | context [match ?ac with Wait _ _ => _ | TryWait _ => _ | Post _ => _ | GetValue _ => _ | Step _ => _ | Fire _ => _ end] => destruct ac
  | context [match apc ?x with _ => _ end] => let E := fresh "Epc" in destruct (apc x) eqn:E
  | context [if in_dec ?d ?x ?l then _ else _] => let E := fresh "Ein" in destruct (in_dec d x l) as [E|E]
  | context [if ?c then _ else _] => let E := fresh "Ec" in destruct c eqn:E
  | context [match q ?s with _ => _ end] => let E := fresh "Eq" in destruct (q s) eqn:E
  | context [match reason ?b with _ => _ end] => let E := fresh "Er" in destruct (reason b) eqn:E
  | context [match ?r with RU => _ | RT => _ end] => destruct r
  end; try discriminate; cbv beta iota in H; inv_some.

Ltac num :=
  repeat match goal with
  | H : (_ <? _) = true |- _ => apply Z.ltb_lt in H
  | H : (_ <? _) = false |- _ => apply Z.ltb_ge in H
  | H : (_ =? _) = true |- _ => apply Z.eqb_eq in H
  | H : (_ =? _) = false |- _ => apply Z.eqb_neq in H
  end.

Ltac upd_tac :=
  repeat match goal with
  | |- context [upd ?f ?i ?v ?j] =>
      first [ rewrite (upd_eq f i v) | rewrite (upd_neq f i j v) by congruence
            | let e := fresh "e" in let ne := fresh "ne" in
              destruct (Nat.eq_dec j i) as [e|ne];
              [ rewrite e; rewrite (upd_eq f i v) | rewrite (upd_neq f i j v ne) ] ]
  end.
Ltac brk := repeat match goal with
  | H : _ /\ _ |- _ => destruct H
  | H : ?a = ?a -> _ |- _ => specialize (H eq_refl)
  | H : ?P -> _, H' : ?P |- _ => match type of P with Prop => specialize (H H') end
  | H : true = false -> _ |- _ => clear H
  | H : (?n <= ?n)%nat -> _ |- _ => specialize (H (le_n _))
  | H : false = true -> _ |- _ => clear H
  | E : actx ?x = _, H : context [actx ?x] |- _ => rewrite E in H; cbn in H
  | E : apc ?x = _, H : context [apc ?x] |- _ => rewrite E in H; cbn in H
  end.
Ltac a_facts Hi a :=
  let Ha := fresh "Ha" in
  pose proof (IA _ Hi a) as Ha; unfold ainv, sorted_into in Ha;
  try match goal with E : apc (A _ a) = _ |- _ => rewrite E in Ha end;
  try match goal with E : actx (A _ a) = _ |- _ => rewrite E in Ha end;
  unfold inpark in Ha; try match goal with E : apc (A _ a) = _ |- _ => rewrite E in Ha end;
  try match goal with E : actx (A _ a) = _ |- _ => rewrite E in Ha end;
  cbn in Ha; brk.
Ltac b_facts Hi b :=
  let Hb := fresh "Hb" in
  pose proof (IB _ Hi b) as Hb; unfold binv in Hb; cbn in Hb; brk.
Ltac g_facts Hi :=
  let G := fresh "G" in pose proof (IG _ Hi) as G; unfold ginv in G; brk.
Ltac lists := rewrite ?nl_cons, ?in_rm, ?in_app_iff in *; cbn [In] in *.

Lemma nodup_snoc (l : list nat) n : NoDup l -> ~ In n l -> NoDup (l ++ [n]).
Proof.
  induction l as [|x l IH]; cbn; intros N I; [constructor; [tauto|constructor]|].
  inversion N; subst. constructor; [|apply IH; tauto]. rewrite in_app_iff. cbn. intuition congruence.
Qed.
Ltac mem := solve [ assumption | intuition (auto; try congruence; try discriminate; try lia) ].
Ltac nd := repeat match goal with
  | |- NoDup (_ :: _) => constructor
  | |- NoDup (rm _ _) => apply nodup_rm
  | |- NoDup (_ ++ [_]) => apply nodup_snoc
  end; auto.
Ltac rmfix := repeat match goal with
  | |- context [nl (rm ?x ?l)] =>
      first [ rewrite (nl_rm x l) by mem | rewrite (nl_rm_notin x l) by mem ]
  | |- context [nl (_ :: _)] => rewrite nl_cons
  end.

Ltac ap := repeat match goal with
  | H : (1 <= ?b < ?n)%nat -> _ |- _ =>
      let P := fresh "P" in assert (P : (1 <= b < n)%nat) by lia; specialize (H P); clear P
  end.
