(* C12 - second invariant, for the "lock is free again" and "no stranded reader / writer" halves:
   whoever owns the global lock is at a control point from which it will release or pass it on,
   queue entries are live unflagged registrations, a hand-off in transit reaches its waiter. *)
From Coq Require Import List Arith ZArith Bool Lia.
Import ListNotations.
Require Import MayV.Sync.RwLockModel MayV.Sync.RwLockInv.

(* control points at which an actor can own the global lock as an individual *)
Definition holdpc (p : pc) : bool :=
  match p with GW | HoldW | DWP | RG | H1 | H2 | U0 => true | _ => false end.

(* a cancelled waiter that has left lock() for good *)
Definition gone (p : pc) : bool := match p with Exit | RUx => true | _ => false end.

(* blocker b is a live, unflagged registration *)
Definition QP (s : st) (b : nat) : Prop :=
  let k := Bk s b in let o := A s (owner k) in
  unp k = false /\ ab o = b /\ 1 <= b /\ (waiting o = true \/ (halfgone o = true /\ rel k = true)).

(* the wake-up token of a flagged blocker has been delivered *)
Definition Tdeliv (s : st) (b : nat) : Prop :=
  let k := Bk s b in let o := A s (owner k) in
  match apc o with L2 | PK | H1 | H2 | H3 | H4 | U0 => True | _ => False end -> tok k = true.

Record Inv2 (s : st) : Prop := {
  N1 : ent s <> [] -> holder s <> HNone;
  HX : forall x, holder s = HA x -> holdpc (apc (A s x)) = true;
  QN : NoDup (q s);
  Q1 : forall b, In b (q s) -> QP s b;
  Q2 : forall x, apc (A s x) = H2 -> QP s (aw (A s x)) /\ ~ In (aw (A s x)) (q s);
  K1 : forall b, holder s = HB b ->
         let k := Bk s b in let o := A s (owner k) in
         unp k = true /\ ab o = b /\ 1 <= b /\ (waiting o = true \/ (halfgone o = true /\ rel k = true));
  N2a : forall b, holder s = HB b ->
         (apc (A s (ag (Bk s b))) = H3 /\ aw (A s (ag (Bk s b))) = b) \/ Tdeliv s b;
  N2b : forall b, holder s = HB b -> gone (apc (A s (owner (Bk s b)))) = true ->
         (apc (A s (ag (Bk s b))) = H3 \/ apc (A s (ag (Bk s b))) = H4) /\ aw (A s (ag (Bk s b))) = b
}.

Lemma inv2_init p : Inv2 (init p).
Proof.
  constructor; cbn; intros; try discriminate; try tauto; try constructor.
Qed.
