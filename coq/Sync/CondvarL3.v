(* layer 3 of the Condvar invariant: ownership of blockers, settlement of notifications, the accounting identity *)
From Coq Require Import List Arith ZArith Bool Lia.
Import ListNotations.
Require Import MayV.Sync.CondvarModel MayV.Sync.CondvarInv MayV.Sync.CondvarTac MayV.Sync.CondvarL1 MayV.Sync.CondvarL2.
Open Scope Z_scope.

Definition owns (c : cls) : bool := match c with COwn | CRes | CE3 | CE4 => true | _ => false end.
Definition unsettled (c : cls) : bool := match c with COwn | CRes => true | _ => false end.

Record Inv3 (s : st) : Prop := {
  O_owner : forall a, owns (cls_of (apc (A s a))) = true -> (1 <= ab (A s a))%nat /\ owner (Bk s (ab (A s a))) = a;
  O_own : forall a, unsettled (cls_of (apc (A s a))) = true -> rel (Bk s (ab (A s a))) = false /\ bset (Bk s (ab (A s a))) = O;
  O_res : forall a, cls_of (apc (A s a)) = CRes -> rtok (A s a) = true -> unp (Bk s (ab (A s a))) = true;
  O_e4 : forall a, cls_of (apc (A s a)) = CE4 -> unp (Bk s (ab (A s a))) = true;
  O_k3 : forall a, cls_of (apc (A s a)) = CK3 -> unp (Bk s (aw (A s a))) = true;
  O_hand : forall a, In a (hand s) <-> cls_of (apc (A s a)) = CK2;
  O_owe : forall a, In a (owe s) <-> (apc (A s a) = K1 /\ acomp (A s a) = true);
  O_giv : forall b, In b (giv s) <-> (unp (Bk s b) = true /\ bset (Bk s b) = O);
  O_rel : forall b, rel (Bk s b) = true -> bset (Bk s b) = O;
  O_set : forall b, (bset (Bk s b) <= 1)%nat /\ (unp (Bk s b) = false -> bset (Bk s b) = O);
  O_tok : forall b, tok (Bk s b) = true -> unp (Bk s b) = true;
  O_ndg : NoDup (giv s); O_ndh : NoDup (hand s); O_ndo : NoDup (owe s);
  O_acc : nuser s + nall s = nret s + nl (hand s) + nl (giv s) + nl (owe s) + fnone s }.

Lemma inv3_init : Inv3 init.
Proof. constructor; cbn; intros; try tauto; try discriminate; try constructor; try lia; try (intuition discriminate). Qed.

Ltac cl := try match goal with E : apc (A _ _) = _ |- _ => rewrite E in * end; clsr; cbn [cls_of owns unsettled] in *.

Lemma l3_owner s ac s' : Inv1 s -> Inv2 s -> Inv3 s -> step s ac = Some s' ->
  forall y, owns (cls_of (apc (A s' y))) = true -> (1 <= ab (A s' y))%nat /\ owner (Bk s' (ab (A s' y))) = y.
Proof.
  intros H1 H2 Hi H. destruct ac; step_cases0 H; simp_st; try exact (O_owner _ Hi).
  all: intros y; pose proof (O_owner _ Hi y) as Oy; pose proof (O_owner _ Hi a) as Oa; pose proof (R_a _ H1 y) as Ry; pose proof (R_a _ H1 a) as Ra; pose proof (R_nb _ H1) as Rn.
  all: upd_tac; simp_act; cl; upd_tac; simp_act; fin.
Qed.

Lemma unsettled_owns c : unsettled c = true -> owns c = true.
Proof. destruct c; cbn; auto. Qed.
(* two actors that own their blockers own different ones *)
Lemma owner_conflict s x y : Inv3 s -> owns (cls_of (apc (A s x))) = true -> owns (cls_of (apc (A s y))) = true -> ab (A s x) = ab (A s y) -> x = y.
Proof. intros Hi Hx Hy E. destruct (O_owner _ Hi x Hx) as [_ Ox]. destruct (O_owner _ Hi y Hy) as [_ Oy]. rewrite E in Ox. congruence. Qed.

Lemma l3_own s ac s' : Inv1 s -> Inv2 s -> Inv3 s -> step s ac = Some s' ->
  forall y, unsettled (cls_of (apc (A s' y))) = true -> rel (Bk s' (ab (A s' y))) = false /\ bset (Bk s' (ab (A s' y))) = O.
Proof.
  intros H1 H2 Hi H. destruct ac; step_cases0 H; simp_st; try exact (O_own _ Hi).
  all: intros y; pose proof (O_own _ Hi y) as Oy; pose proof (O_own _ Hi a) as Oa; pose proof (R_a _ H1 y) as Ry; pose proof (R_a _ H1 a) as Ra; pose proof (R_nb _ H1) as Rn;
       pose proof (owner_conflict s y a Hi) as Oc; pose proof (R_fresh _ H1 (nextb s) (le_n _)) as Rf; pose proof (unsettled_owns (cls_of (apc (A s y)))) as Uy.
  all: upd_tac; simp_act; cl; upd_tac; simp_act; try rewrite Rf; cbn [rel bset fresh]; fin.
Qed.

Lemma l3_res s ac s' : Inv1 s -> Inv2 s -> Inv3 s -> step s ac = Some s' ->
  forall y, cls_of (apc (A s' y)) = CRes -> rtok (A s' y) = true -> unp (Bk s' (ab (A s' y))) = true.
Proof.
  intros H1 H2 Hi H. destruct ac; step_cases0 H; simp_st; try exact (O_res _ Hi).
  all: intros y; pose proof (O_res _ Hi y) as Oy; pose proof (O_res _ Hi a) as Oa; pose proof (R_a _ H1 y) as Ry; pose proof (R_a _ H1 a) as Ra;
       pose proof (O_tok _ Hi (ab (A s a))) as Ot.
  all: upd_tac; simp_act; cl; upd_tac; simp_act; fin.
Qed.

Lemma l3_e4 s ac s' : Inv1 s -> Inv2 s -> Inv3 s -> step s ac = Some s' ->
  forall y, cls_of (apc (A s' y)) = CE4 -> unp (Bk s' (ab (A s' y))) = true.
Proof.
  intros H1 H2 Hi H. destruct ac; step_cases0 H; simp_st; try exact (O_e4 _ Hi).
  all: intros y; pose proof (O_e4 _ Hi y) as Oy; pose proof (O_e4 _ Hi a) as Oa; pose proof (R_a _ H1 y) as Ry; pose proof (R_a _ H1 a) as Ra.
  all: upd_tac; simp_act; cl; upd_tac; simp_act; fin.
Qed.

Lemma l3_k3 s ac s' : Inv1 s -> Inv2 s -> Inv3 s -> step s ac = Some s' ->
  forall y, cls_of (apc (A s' y)) = CK3 -> unp (Bk s' (aw (A s' y))) = true.
Proof.
  intros H1 H2 Hi H. destruct ac; step_cases0 H; simp_st; try exact (O_k3 _ Hi).
  all: intros y; pose proof (O_k3 _ Hi y) as Oy; pose proof (O_k3 _ Hi a) as Oa; pose proof (R_a _ H1 y) as Ry; pose proof (R_a _ H1 a) as Ra.
  all: upd_tac; simp_act; cl; upd_tac; simp_act; fin.
Qed.

Lemma l3_hand s ac s' : Inv1 s -> Inv2 s -> Inv3 s -> step s ac = Some s' ->
  forall y, In y (hand s') <-> cls_of (apc (A s' y)) = CK2.
Proof.
  intros H1 H2 Hi H. destruct ac; step_cases0 H; simp_st; try exact (O_hand _ Hi).
  all: intros y; pose proof (O_hand _ Hi y) as Oy; pose proof (O_hand _ Hi a) as Oa.
  all: upd_tac; simp_act; cl; lists; fin.
Qed.

Lemma l3_owe s ac s' : Inv1 s -> Inv2 s -> Inv3 s -> step s ac = Some s' ->
  forall y, In y (owe s') <-> (apc (A s' y) = K1 /\ acomp (A s' y) = true).
Proof.
  intros H1 H2 Hi H. destruct ac; step_cases H; simp_st; try exact (O_owe _ Hi).
  all: intros y; pose proof (O_owe _ Hi y) as Oy; pose proof (O_owe _ Hi a) as Oa.
  all: upd_tac; simp_act; try match goal with E : apc (A _ _) = _ |- _ => rewrite E in * end; lists; fin.
Qed.

Lemma l3_giv s ac s' : Inv1 s -> Inv2 s -> Inv3 s -> step s ac = Some s' ->
  forall b, In b (giv s') <-> (unp (Bk s' b) = true /\ bset (Bk s' b) = O).
Proof.
  intros H1 H2 Hi H. destruct ac; step_cases0 H; simp_st; try exact (O_giv _ Hi).
  all: intros b; pose proof (O_giv _ Hi b) as Ob; pose proof (O_set _ Hi b) as Os; pose proof (R_a _ H1 a) as Ra;
       pose proof (R_fresh _ H1 (nextb s) (le_n _)) as Rf; pose proof (R_giv _ H1 b) as Rg.
  all: try (pose proof (F_k2 _ H2 a) as Fk; rewrite Epc in Fk; cbn [cls_of] in Fk).
  all: upd_tac; simp_act; lists; try rewrite Rf in *; cbn [unp bset fresh] in *; fin.
Qed.

Lemma l3_rel s ac s' : Inv1 s -> Inv2 s -> Inv3 s -> step s ac = Some s' ->
  forall b, rel (Bk s' b) = true -> bset (Bk s' b) = O.
Proof.
  intros H1 H2 Hi H. destruct ac; step_cases0 H; simp_st; try exact (O_rel _ Hi).
  all: intros b; pose proof (O_rel _ Hi b) as Ob; pose proof (O_own _ Hi a) as Oa; pose proof (R_fresh _ H1 (nextb s) (le_n _)) as Rf.
  all: upd_tac; simp_act; cl; try rewrite Rf in *; cbn [rel bset fresh] in *; fin.
Qed.

Lemma l3_set s ac s' : Inv1 s -> Inv2 s -> Inv3 s -> step s ac = Some s' ->
  forall b, (bset (Bk s' b) <= 1)%nat /\ (unp (Bk s' b) = false -> bset (Bk s' b) = O).
Proof.
  intros H1 H2 Hi H. destruct ac; step_cases0 H; simp_st; try exact (O_set _ Hi).
  all: intros b; pose proof (O_set _ Hi b) as Ob; pose proof (O_own _ Hi a) as Oa; pose proof (O_rel _ Hi b) as Or; pose proof (R_fresh _ H1 (nextb s) (le_n _)) as Rf;
       pose proof (O_res _ Hi a) as Ores; pose proof (O_e4 _ Hi a) as Oe4; pose proof (O_k3 _ Hi a) as Ok3.
  all: upd_tac; simp_act; cl; try rewrite Rf in *; cbn [unp rel bset fresh] in *; fin.
Qed.

Lemma l3_tok s ac s' : Inv1 s -> Inv2 s -> Inv3 s -> step s ac = Some s' ->
  forall b, tok (Bk s' b) = true -> unp (Bk s' b) = true.
Proof.
  intros H1 H2 Hi H. destruct ac; step_cases0 H; simp_st; try exact (O_tok _ Hi).
  all: intros b; pose proof (O_tok _ Hi b) as Ob; pose proof (O_k3 _ Hi a) as Ok3; pose proof (R_fresh _ H1 (nextb s) (le_n _)) as Rf.
  all: upd_tac; simp_act; cl; try rewrite Rf in *; cbn [unp tok fresh] in *; fin.
Qed.

(* what every settlement / flagging step needs to know about the lists *)
Ltac listfacts s H1 H2 Hi a :=
  pose proof (O_ndg _ Hi) as Ng; pose proof (O_ndh _ Hi) as Nh; pose proof (O_ndo _ Hi) as No;
  pose proof (O_hand _ Hi a) as Oh; pose proof (O_owe _ Hi a) as Oo;
  pose proof (O_giv _ Hi (ab (A s a))) as Ogb; pose proof (O_giv _ Hi (aw (A s a))) as Ogw;
  pose proof (O_own _ Hi a) as Oa; pose proof (O_res _ Hi a) as Ores; pose proof (O_e4 _ Hi a) as Oe4; pose proof (O_k3 _ Hi a) as Ok3;
  pose proof (O_rel _ Hi (ab (A s a))) as Orb; pose proof (O_rel _ Hi (aw (A s a))) as Orw;
  pose proof (F_k2 _ H2 a) as Fk.

Lemma l3_nd s ac s' : Inv1 s -> Inv2 s -> Inv3 s -> step s ac = Some s' -> NoDup (giv s') /\ NoDup (hand s') /\ NoDup (owe s').
Proof.
  intros H1 H2 Hi H.
  destruct ac; step_cases H; simp_st; try (repeat split; [exact (O_ndg _ Hi) | exact (O_ndh _ Hi) | exact (O_ndo _ Hi)]).
  all: listfacts s H1 H2 Hi a; try match goal with E : apc (A _ _) = _ |- _ => rewrite E in * end; cbn [cls_of unsettled] in *.
  all: repeat split; nd; fin.
Qed.

Lemma l3_acc s ac s' : Inv1 s -> Inv2 s -> Inv3 s -> step s ac = Some s' ->
  nuser s' + nall s' = nret s' + nl (hand s') + nl (giv s') + nl (owe s') + fnone s'.
Proof.
  intros H1 H2 Hi H. pose proof (O_acc _ Hi) as Acc.
  destruct ac; step_cases H; simp_st; try exact Acc.
  all: listfacts s H1 H2 Hi a; try match goal with E : apc (A _ _) = _ |- _ => rewrite E in * end; cbn [cls_of unsettled] in *.
  all: rmfix; try lia.
Qed.

Lemma inv3_step s ac s' : Inv1 s -> Inv2 s -> Inv3 s -> step s ac = Some s' -> Inv3 s'.
Proof.
  intros H1 H2 Hi H. constructor.
  - eapply l3_owner; eauto.
  - eapply l3_own; eauto.
  - eapply l3_res; eauto.
  - eapply l3_e4; eauto.
  - eapply l3_k3; eauto.
  - eapply l3_hand; eauto.
  - eapply l3_owe; eauto.
  - eapply l3_giv; eauto.
  - eapply l3_rel; eauto.
  - eapply l3_set; eauto.
  - eapply l3_tok; eauto.
  - eapply l3_nd; eauto.
  - eapply l3_nd; eauto.
  - eapply l3_nd; eauto.
  - eapply l3_acc; eauto.
Qed.

Lemma inv3_reach s : Reach s -> Inv3 s.
Proof. intro R. induction R; [apply inv3_init | eapply inv3_step; eauto using inv1_reach, inv2_reach]. Qed.
