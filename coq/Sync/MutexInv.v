(* C05 - the safety invariant of MutexModel, Owicki-Gries style:
     ainv s a   assertion attached to the control point of actor a (who is counted in `cnt` (ghost ent),
                who owns the lock (ghost holder), what is known about the blocker it handles)
     binv s b   assertion of blocker b: token/flag/release implications, and the key clause
                "flagged + owner still waiting (or gone with release set)  ->  the lock is in transit to b"
     ginv s     cnt = |ent|, ent duplicate free, queue entries allocated, owner implies cnt >= 1, payload = #writes
   plus the tactics shared by all preservation proofs (step_cases, upd_tac, brk, fin, a_facts, b_facts).
   Preservation: MutexPresG (ginv), MutexPresA (stepping actor), MutexPresO (interference), MutexPresB (blockers);
   assembled in MutexME. *)
From Coq Require Import List Arith Bool Lia.
Import ListNotations.
Require Import MayV.Sync.MutexModel.
Definition isRPark (c : ctx) := match c with RPark => true | _ => false end.
Definition waiting (x : act) : bool :=
  match apc x with
  | L2 | P | P1 | P2 | W | C1 | C2 => true
  | H1 | H2 | H3 | H3w | H4 | U0 => isRPark (actx x)
  | _ => false
  end.
Definition halfgone (x : act) : bool := match apc x with C3 | C4 | Exit => true | _ => false end.

(* assertion attached to each control point of actor a *)
Definition ainv (s : st) (a : nat) : Prop :=
  let x := A s a in
  ab x < nextb s /\ aw x < nextb s /\ (ab x = 0 \/ owner (Bk s (ab x)) = a) /\
  match apc x with
  | Exit => True
  | Idle | T0 | L0 | L1 => ~ In a (ent s)
  | CS => holder s = HA a /\ In a (ent s)
  | CSw => holder s = HA a /\ In a (ent s) /\ aloc x = data s
  | H1 | H2 => holder s = HA a /\ (isRPark (actx x) = true -> In a (ent s) /\ 1 <= ab x) /\
               (isRPark (actx x) = false -> ~ In a (ent s))
  | H3 | H3w | H4 => unp (Bk s (aw x)) = true /\ (isRPark (actx x) = true -> In a (ent s) /\ 1 <= ab x) /\
               (isRPark (actx x) = false -> ~ In a (ent s))
  | U0 => holder s = HA a /\ In (afor x) (ent s) /\
          (isRPark (actx x) = true -> In a (ent s) /\ 1 <= ab x /\ afor x <> a) /\
          (isRPark (actx x) = false -> afor x <> a -> ~ In a (ent s)) /\
          (afor x <> a -> halfgone (A s (afor x)) = true /\ 1 <= ab (A s (afor x)) /\ rel (Bk s (ab (A s (afor x)))) = false)
  | L2 => 1 <= ab x /\ ~ In a (ent s)
  | P | P1 | P2 | W | C1 | C2 => In a (ent s) /\ 1 <= ab x
  | C3 => 1 <= ab x
  | C4 => 1 <= ab x /\ unp (Bk s (ab x)) = true
  end.

(* assertion attached to each blocker b *)
Definition binv (s : st) (b : nat) : Prop :=
  let k := Bk s b in let o := A s (owner k) in
  (tok k = true -> unp k = true) /\
  (reason k = Some RU -> unp k = true) /\
  (rel k = true -> ab o = b /\ 1 <= b /\ halfgone o = true /\ In (owner k) (ent s)) /\
  (unp k = true -> ab o = b ->
     (waiting o = true -> holder s = HB b) /\
     (halfgone o = true -> rel k = true -> holder s = HB b)) /\
  (nextb s <= b -> unp k = false /\ rel k = false /\ tok k = false /\ reason k = None).

Definition ginv (s : st) : Prop :=
  cnt s = length (ent s) /\ NoDup (ent s) /\ 1 <= nextb s /\ (forall b, In b (q s) -> b < nextb s) /\
  (holder s <> HNone -> ent s <> []) /\ data s = nwr s.

Record Inv (s : st) : Prop := { IA : forall a, ainv s a; IB : forall b, binv s b; IG : ginv s }.

Lemma upd_eq {X} (f : nat -> X) i v : upd f i v i = v.
Proof. unfold upd. now rewrite Nat.eqb_refl. Qed.
Lemma upd_neq {X} (f : nat -> X) i j v : j <> i -> upd f i v j = f j.
Proof. unfold upd. intros H. destruct (Nat.eqb_spec j i); congruence. Qed.

Lemma inv_init : Inv init.
Proof.
  constructor.
  - intro a. unfold ainv; cbn. repeat split; auto; lia.
  - intro b. unfold binv; cbn. repeat split; intros; try discriminate; auto.
  - unfold ginv; cbn. split; [reflexivity|]. split; [constructor|]. split; [lia|]. split; [intros b0 Hb0; destruct Hb0 | split; [congruence | reflexivity]].
Qed.

Ltac inv_some :=
  match goal with H : Some _ = Some _ |- _ => inversion H; subst; clear H end.
Ltac step_cases H :=
  unfold MutexModel.step in H;
  repeat match type of H with
  | context [match ?ac with Start _ _ => _ | _ => _ end] => destruct ac
  | context [match apc ?x with _ => _ end] => let E := fresh "Epc" in destruct (apc x) eqn:E
  | context [if ?c then _ else _] => let E := fresh "Ec" in destruct c eqn:E
  | context [match q ?s with _ => _ end] => let E := fresh "Eq" in destruct (q s) eqn:E
  | context [match reason ?b with _ => _ end] => let E := fresh "Er" in destruct (reason b) eqn:E
  | context [match ?r with RU => _ | RC => _ end] => destruct r
  end; try discriminate; inv_some; cbv [setA setAB setABH mk] in *.

Ltac num :=
  repeat match goal with
  | H : (?n =? 0) = true |- _ => apply Nat.eqb_eq in H
  | H : (?n =? 0) = false |- _ => apply Nat.eqb_neq in H
  | H : (1 <? ?n) = true |- _ => apply Nat.ltb_lt in H
  | H : (1 <? ?n) = false |- _ => apply Nat.ltb_ge in H
  end.


Lemma remove_len (x : nat) l : NoDup l -> In x l -> length (remove Nat.eq_dec x l) = length l - 1.
Proof.
  induction l as [|y l IH]; cbn; intros N I; [tauto|].
  inversion N; subst. destruct (Nat.eq_dec x y).
  - subst. rewrite notin_remove by assumption. lia.
  - destruct I as [->|I]; [congruence|]. cbn. rewrite IH by assumption.
    destruct l; [destruct I | cbn; lia].
Qed.
Lemma nodup_remove (x : nat) l : NoDup l -> NoDup (remove Nat.eq_dec x l).
Proof.
  induction l as [|y l IH]; cbn; intros N; [constructor|]. inversion N; subst.
  destruct (Nat.eq_dec x y); auto. constructor; auto. intro I. apply in_remove in I. tauto.
Qed.

Lemma in_remove_neq (x y : nat) l : In y l -> y <> x -> In y (remove Nat.eq_dec x l).
Proof. intros. apply in_in_remove; auto. Qed.
Lemma notin_remove' (x y : nat) l : ~ In y l -> ~ In y (remove Nat.eq_dec x l).
Proof. intros N I. apply in_remove in I. tauto. Qed.
Lemma notin_remove_self (x : nat) l : ~ In x (remove Nat.eq_dec x l).
Proof. apply remove_In. Qed.

Ltac upd_tac :=
  repeat match goal with
  | |- context [upd ?f ?i ?v ?j] =>
      first [ rewrite (upd_eq f i v) | rewrite (upd_neq f i j v) by congruence
            | let e := fresh "e" in let ne := fresh "ne" in
              destruct (Nat.eq_dec j i) as [e|ne];
              [ rewrite e; rewrite (upd_eq f i v) | rewrite (upd_neq f i j v ne) ] ]
  end.
Ltac brk := repeat match goal with
  | H : _ /\ _ |- _ => destruct H
  | H : ?a = ?a -> _ |- _ => specialize (H eq_refl)
  | H : ?P -> _, H' : ?P |- _ => match type of P with Prop => specialize (H H') end
  | H : true = false -> _ |- _ => clear H
  | H : false = true -> _ |- _ => clear H
  | E : actx ?x = _, H : context [actx ?x] |- _ => rewrite E in H; cbn in H
  | E : apc ?x = _, H : context [apc ?x] |- _ => rewrite E in H; cbn in H
  | E : owner (Bk ?s ?b) = ?a, H : context [A ?s (owner (Bk ?s ?b))] |- _ => rewrite E in H; cbn in H
  | E : owner (Bk ?s ?b) = ?a, H : In (owner (Bk ?s ?b)) _ |- _ => rewrite E in H
  | H : ?x = 0 \/ _, H' : 1 <= ?x |- _ => destruct H as [H|H]; [exfalso; lia|]
  end.
Ltac fin0 := try discriminate; try congruence; try tauto; try lia; auto;
  try solve [right; congruence]; try solve [left; congruence].
Ltac fin :=
  fin0;
  repeat match goal with |- _ /\ _ => split end; fin0;
  try solve [apply notin_remove'; fin0];
  try solve [apply in_remove_neq; fin0];
  try (match goal with e : _ = ?a |- ~ In ?a (remove _ _ _) => rewrite e; apply notin_remove_self end);
  try (match goal with |- ~ In ?a (remove _ ?a _) => apply notin_remove_self end).

(* facts about the stepping actor a and (when different) the observed actor a' *)
Ltac a_facts Hi a :=
  let Ha := fresh "Ha" in
  pose proof (IA _ Hi a) as Ha; unfold ainv, waiting, halfgone in Ha;
  match goal with E : apc (A _ a) = _ |- _ => rewrite E in Ha end;
  try match goal with E : actx (A _ a) = _ |- _ => rewrite E in Ha end;
  cbn in Ha; brk.
Ltac b_facts Hi b :=
  let Hb := fresh "Hb" in
  pose proof (IB _ Hi b) as Hb; unfold binv, waiting, halfgone in Hb; cbn in Hb; brk.

