(* C09 on RwLockModel (may::sync::RwLock) through the cancel-bit overlay of Base/CancelOverlay.v.
   RwLockModel's `Abort a` stands for "a is a coroutine whose cancel flag has been set and the cancellation takes
   effect at its current blocking call" (park inside lock(): PK -> C1, the Canceled branch; `rlock.lock()` of
   read(): RL -> Exit, the cancel panic inside the inner Mutex); the model has no cancel bit.  The overlay adds it:
   `Abort a` is a PURE cancel delivery (MustHit a), enabled only with the bit of a set.

   (iii) abort_needs_bit (by the overlay's guard: see the header of CancelOverlay.v)
   (i)   cancelled_not_parked
   (ii)  the lock handed to a waiter that takes the Canceled branch is released by the waiter (C1/C4 -> unlock with
         context RExit) or by the unparker that finds `release` (H4); once everybody is at rest - returned, dropped, or
         gone by the cancel panic - the lock is free and usable (C12 all_dropped_lock_free / try_write), and nobody is
         stranded in quiescence (C12 no_stranded), in every state of every overlay run. *)
From Coq Require Import List Arith ZArith Bool Lia.
Import ListNotations.
Require Import MayV.Base.CancelOverlay MayV.Sync.RwLockModel MayV.Sync.RwLockInv MayV.Sync.RwLockThm MayV.Sync.RwLockPop.

Definition rw_hits (ac : action) : hit := match ac with Abort a => MustHit a | _ => NoHit end.
Definition all_co (_ : nat) : bool := true.

Notation rost := (ost st).
Definition rostep := CancelOverlay.ostep st action step rw_hits all_co.
Definition ROReach (p : bool) := OReach st action step (init p) rw_hits all_co.

Lemma greach_reach p s : GReach st action step (init p) s <-> Reach p s.
Proof. split; induction 1; [constructor | econstructor; eauto | constructor | econstructor; eauto]. Qed.

Theorem roreach_reach p os : ROReach p os -> Reach p (base os).
Proof. intro R. apply greach_reach. exact (oreach_base _ _ _ _ _ _ os R). Qed.
Theorem reach_roreach p s : Reach p s -> exists c l, ROReach p {| base := s; cbit := c; clog := l |}.
Proof. intro R. apply greach_lift; [reflexivity | apply greach_reach; exact R]. Qed.

(* ---- (iii) no spurious cancel ---- *)
(* a blocking call of actor a ends with Canceled (park of lock(): PK -> C1) or with the cancel panic (rlock.lock() of
   read(): RL -> Exit) only if cancel() was called on a before *)
Theorem abort_needs_bit p os a k os' : ROReach p os -> rostep os (OAct (Abort a) k) = Some os' ->
  cbit os a = true /\ In a (clog os) /\
  ((apc (A (base os) a) = PK /\ apc (A (base os') a) = C1) \/
   (apc (A (base os) a) = RL /\ aop (A (base os) a) = ORead /\ apc (A (base os') a) = Exit)).
Proof.
  intros R H. destruct (pure_delivery_needs_bit _ _ _ _ _ _ _ _ _ a H eq_refl) as [-> B].
  destruct (delivery_needs_bit _ _ _ _ _ _ _ _ a H eq_refl) as [_ E].
  split; [exact B|]. split; [apply (bit_iff_cancel_called _ _ _ _ _ _ os R); exact B|].
  unfold step in E. destruct (apc (A (base os) a)) eqn:Ep; try discriminate.
  - destruct (aop (A (base os) a)) eqn:Eo; try discriminate. injection E as E. right. rewrite <- E. cbn. rewrite upd_eq. auto.
  - injection E as E. left. rewrite <- E. cbn. rewrite upd_eq. auto.
Qed.
(* the only transitions into the Canceled branch are deliveries *)
Theorem canceled_branch_entered_only_by_abort s ac s' a : step s ac = Some s' ->
  apc (A s a) <> C1 -> apc (A s' a) = C1 -> ac = Abort a.
Proof.
  intros H N E. destruct ac as [x o|x|x|x|x|x]; unfold step in H.
  all: repeat match type of H with
       | context [match apc ?y with _ => _ end] => destruct (apc y) eqn:?
       | context [match aop ?y with _ => _ end] => destruct (aop y) eqn:?
       | context [match rl ?y with _ => _ end] => destruct (rl y) eqn:?
       | context [match q ?y with _ => _ end] => destruct (q y) eqn:?
       | context [if ?c then _ else _] => destruct c eqn:?
       end; try discriminate; injection H as <-.
  all: cbn in E; unfold upd in E; destruct (Nat.eqb_spec a x) as [->|Nx]; try congruence.
  all: cbn in E; unfold set_pc, set_pcx, ret_pc, exit_pc, got_pc, fail_pc in E; cbn in E; try discriminate.
  all: repeat match type of E with
       | context [match ?c with _ => _ end] => destruct c eqn:?
       | context [if ?c then _ else _] => destruct c eqn:?
       end; try discriminate; try congruence.
Qed.

(* ---- (i) stop ---- *)
Definition OQuiescent (os : rost) : Prop :=
  (forall a, step (base os) (Step a) = None) /\ (forall a, rostep os (OAct (Abort a) true) = None).

Theorem cancelled_not_parked os a : OQuiescent os -> cbit os a = true ->
  apc (A (base os) a) <> PK /\ ~ (apc (A (base os) a) = RL /\ aop (A (base os) a) = ORead).
Proof.
  intros [_ Q] B. specialize (Q a). unfold rostep, CancelOverlay.ostep, allowed in Q. cbn in Q. rewrite B in Q.
  unfold step in Q. split.
  - intro E. rewrite E in Q. discriminate.
  - intros [E O]. rewrite E, O in Q. discriminate.
Qed.

(* ---- (ii) forward ---- *)
(* the waiter in the Canceled branch that sees its blocker flagged at the first look unlocks on its own behalf before the panic *)
Theorem cancelled_waiter_with_handoff_unlocks s a s' :
  apc (A s a) = C1 -> unp (Bk s (ab (A s a))) = true -> step s (Step a) = Some s' ->
  apc (A s' a) = U0 /\ actx (A s' a) = RExit /\ afor (A s' a) = Some a /\ holder s' = HA a.
Proof. intros E U H. unfold step in H. rewrite E, U in H. injection H as <-. cbn. rewrite upd_eq. cbn. auto. Qed.
(* at the re-check, whoever wins the swap of `release` owes the unlock: the waiter ... *)
Theorem cancelled_waiter_takes_release_unlocks s a s' :
  apc (A s a) = C4 -> rel (Bk s (ab (A s a))) = true -> step s (Step a) = Some s' ->
  apc (A s' a) = U0 /\ actx (A s' a) = RExit /\ afor (A s' a) = Some a /\ holder s' = HA a /\ rel (Bk s' (ab (A s a))) = false.
Proof.
  intros E U H. unfold step in H. rewrite E, U in H. injection H as <-. cbn. rewrite !upd_eq. cbn. auto 10.
Qed.
(* ... or the unparker, on behalf of the departed owner *)
Theorem unparker_unlocks_for_departed_waiter s a s' :
  apc (A s a) = H4 -> rel (Bk s (aw (A s a))) = true -> step s (Step a) = Some s' ->
  apc (A s' a) = U0 /\ afor (A s' a) = Some (owner (Bk s (aw (A s a)))) /\ holder s' = HA a /\ rel (Bk s' (aw (A s a))) = false.
Proof.
  intros E U H. unfold step in H. rewrite E, U in H. injection H as <-. cbn. rewrite !upd_eq. cbn. auto 10.
Qed.

(* in every state of every overlay run - whatever was cancelled and when - the C12 invariants hold; in particular: *)
Section Run.
Variable p : bool.
Variable os : rost.
Hypothesis R : ROReach p os.
Hypothesis NoWrap : ovf (base os) = false.
Let s := base os.

(* cnt counts exactly the owner and the registered waiters: a waiter that left by the cancel panic is uncounted by exactly one
   fetch_sub (its own unlock, or the unparker's) *)
Theorem cnt_exact_after_cancel : cnt s = length (ent s) /\ NoDup (ent s).
Proof. exact (cnt_counts_entries p s (roreach_reach p os R) NoWrap). Qed.
(* writers stay exclusive *)
Theorem writers_exclusive_after_cancel a a' : wown (apc (A s a)) = true -> wown (apc (A s a')) = true -> a = a'.
Proof. exact (writers_exclusive p s (roreach_reach p os R) NoWrap a a'). Qed.
(* once everybody is at rest (returned and dropped, or gone by the cancel panic: Exit) the lock is free ... *)
Theorem lock_free_when_all_at_rest : (forall a, at_rest (apc (A s a)) = true) ->
  cnt s = 0 /\ r s = 0%Z /\ rl s = None /\ q s = [] /\ holder s = HNone /\ rdl s = [] /\ ent s = [].
Proof. exact (all_dropped_lock_free p s (roreach_reach p os R) NoWrap). Qed.
(* ... and usable: a try_write succeeds *)
Theorem lock_usable_when_all_at_rest a : (forall x, at_rest (apc (A s x)) = true) -> apc (A s a) = Idle ->
  exists s', run s [Call a OTryWrite; Step a; Step a; Step a] = Some s' /\ apc (A s' a) = HoldW.
Proof. exact (try_write_succeeds_when_all_dropped p s (roreach_reach p os R) NoWrap a). Qed.
(* nobody is stranded: in quiescence with no guard outstanding every actor is at rest *)
Theorem nobody_stranded_after_cancel : RwLockThm.Stable s -> (forall a, apc (A s a) <> HoldW) -> (forall a, apc (A s a) <> HoldR) ->
  forall a, at_rest (apc (A s a)) = true.
Proof. exact (no_stranded p s (roreach_reach p os R) NoWrap). Qed.
(* the hand-over chain never breaks *)
Theorem pop_never_empty_after_cancel a : apc (A s a) = H1 -> q s <> [].
Proof. exact (pop_never_empty p s a (roreach_reach p os R) NoWrap). Qed.
End Run.

(* ---- non-vacuity: the write lock is handed to a waiter that is being cancelled ---- *)
(* actor 1 holds the write guard; coroutine 0 calls write() and parks; cancel(0); 1 drops: fetch_sub, pop, flags 0's blocker;
   the cancel is delivered (0 at C1); 0 sees the flag and unlocks on its own behalf; everybody ends at rest, the lock is free *)
Definition osch : list (oact action) :=
  map (fun a => OAct a false) [Call 1 OWrite; Step 1; Step 1; Step 1; Call 0 OWrite; Step 0; Step 0; Step 0] ++
  [OCancel 0] ++
  map (fun a => OAct a false) [Drop 1; Step 1; Step 1; Step 1] ++
  [OAct (Abort 0) true].
Example handoff_to_cancelled_writer_somewhere :
  exists os, orun st action step rw_hits all_co (oinit st (init false)) osch = Some os /\ ROReach false os /\
    cbit os 0 = true /\ apc (A (base os) 0) = C1 /\ unp (Bk (base os) (ab (A (base os) 0))) = true /\ holder (base os) = HB 1 /\
    exists os', orun st action step rw_hits all_co os
                  (map (fun a => OAct a false) [Step 1; Step 1; Step 0; Step 0]) = Some os' /\
                apc (A (base os') 0) = Exit /\ apc (A (base os') 1) = Idle /\ cnt (base os') = 0 /\ holder (base os') = HNone.
Proof.
  destruct (orun st action step rw_hits all_co (oinit st (init false)) osch) as [os|] eqn:E; [|vm_compute in E; discriminate].
  exists os. split; [reflexivity|]. split; [eapply orun_reach; [constructor | exact E]|].
  vm_compute in E. injection E as <-. repeat split; try (vm_compute; reflexivity).
  eexists. split; [vm_compute; reflexivity|]. repeat split; vm_compute; reflexivity.
Qed.
