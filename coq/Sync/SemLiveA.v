(* Preservation of the overlay invariant of SemLive.v, part A: L1 (agents), L6 (parked), L7 (fresh).
   The tactics and the proof script of every clause are in SemLiveTac.v (re-exported here). *)
From Coq Require Import List Arith ZArith Bool Lia.
Import ListNotations.
Require Import MayV.Sync.SemModel MayV.Sync.SemInv MayV.Sync.SemTac MayV.Sync.SemCase MayV.Sync.SemLive.
Require Export MayV.Sync.SemLiveTac.
Open Scope Z_scope.

Lemma pres_L6 s o ac s' : Inv s -> LInv s o -> step s ac = Some s' -> L6 s' (lstep s o ac).
Proof. intros Hi HL H. l6_pre HL. lsetup Hi H. all: l6_script Hi s a P6. Qed.

Lemma pres_L7 s o ac s' : Inv s -> LInv s o -> step s ac = Some s' -> L7 s' (lstep s o ac).
Proof. intros Hi HL H. l7_pre HL. lsetup Hi H. all: l7_script Hi s a P7. Qed.

Lemma pres_L1 s o ac s' : Inv s -> LInv s o -> step s ac = Some s' -> L1 s' (lstep s o ac).
Proof. intros Hi HL H. l1_pre HL. lsetup Hi H. all: l1_script Hi s a P1. Qed.
