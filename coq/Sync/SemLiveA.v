(* Preservation of the overlay invariant of SemLive.v, part A: tactics, L1 (agents), L6 (parked), L7 (fresh). *)
From Coq Require Import List Arith ZArith Bool Lia.
Import ListNotations.
Require Import MayV.Sync.SemModel MayV.Sync.SemInv MayV.Sync.SemTac MayV.Sync.SemLive.
Open Scope Z_scope.

Ltac ostep_red :=
  unfold lstep;
  repeat match goal with
  | E : apc ?x = _ |- context [match apc ?x with _ => _ end] => rewrite E
  | E : q ?s = _ |- context [match q ?s with _ => _ end] => rewrite E
  | E : ?c = true |- context [if ?c then _ else _] => rewrite E
  | E : ?c = false |- context [if ?c then _ else _] => rewrite E
  | E : reason ?b = _ |- context [match reason ?b with _ => _ end] => rewrite E
  end;
  cbv beta iota zeta;
  unfold set_ag, set_dl, set_rp, set_sc, set_fl; cbn [ag dl rp sc fl].

Ltac prj := cbn [cnt q nextb A Bk ini uposts succ ung giv pre hand owe mk].
Ltac prj_all := cbn [cnt q nextb A Bk ini uposts succ ung giv pre hand owe mk apc ab aw actx atimed acomp av ares tok parked reason unp rel owner fresh ag dl rp sc fl] in *.

(* discharge arithmetic premises of implications in the context *)
Ltac arith_prem := repeat match goal with
  | H : ?P -> _ |- _ =>
      match P with
      | (_ <= _)%nat => idtac | (_ < _)%nat => idtac | (_ <= _ < _)%nat => idtac
      end;
      let Q := fresh "Q" in assert (Q : P) by lia; specialize (H Q); clear Q
  end.

Ltac lsetup Hi H :=
  g_facts Hi; step_cases H; ostep_red; prj.

Lemma pres_L6 s o ac s' : Inv s -> LInv s o -> step s ac = Some s' -> L6 s' (lstep s o ac).
Proof.
  intros Hi HL H. pose proof (IL6 _ _ HL) as P6. unfold L6 in *.
  lsetup Hi H; intro x; pose proof (P6 x) as Px; pose proof (P6 a) as Pa.
  all: a_facts Hi a; a_facts Hi x; b_facts Hi (nextb s).
  all: unfold set_pc, set_ctx, set_res, set_av; upd_tac; prj_all.
  all: repeat match goal with e : ?v = _ |- _ => is_var v; subst v end.
  all: try (destruct (actx (A s a)) eqn:Ectx; cbn [ret_pc] in * ).
  all: intros; brk; try mem.
Qed.

Lemma pres_L7 s o ac s' : Inv s -> LInv s o -> step s ac = Some s' -> L7 s' (lstep s o ac).
Proof.
  intros Hi HL H. pose proof (IL7 _ _ HL) as P7. unfold L7 in *.
  lsetup Hi H; intro x; pose proof (P7 x) as Px.
  all: a_facts Hi a.
  all: upd_tac; prj_all.
  all: repeat match goal with e : ?v = _ |- _ => is_var v; subst v end.
  all: intros; brk; arith_prem; brk; try mem.
Qed.

Lemma pres_L1 s o ac s' : Inv s -> LInv s o -> step s ac = Some s' -> L1 s' (lstep s o ac).
Proof.
  intros Hi HL H. pose proof (IL1 _ _ HL) as P1. unfold L1 in *.
  lsetup Hi H; intro x; pose proof (P1 x) as Px; pose proof (P1 a) as Pa.
  all: a_facts Hi a; a_facts Hi x; b_facts Hi (nextb s).
  all: try match goal with E : NoDup (?n :: _) |- _ => inversion E; subst end.
  all: try match goal with E : q _ = _ :: _ |- _ => rewrite E in * end.
  all: unfold set_pc, set_ctx, set_res, set_av; upd_tac; prj_all; lists.
  all: repeat match goal with e : ?v = _ |- _ => is_var v; subst v end.
  all: try (destruct (actx (A s a)) eqn:Ectx; cbn [ret_pc] in * ).
  all: unfold agentpc in *; repeat match goal with E : apc _ = _ |- _ => rewrite E in * end; cbn [apc] in *.
  all: try match goal with Q : forall b, ?n = b \/ _ -> (_ <= b < _)%nat |- _ => pose proof (Q n (or_introl eq_refl)) end.
  all: intros; brk; try mem.
Qed.
