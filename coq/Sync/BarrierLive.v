(* C11.iii, the progress half: Barrier(n) composed with the Condvar protocol (a proof over the product model
   BarrierModel = barrier program x CondvarModel, not a citation of the Condvar theorems).

   Quiescent state: no actor has an enabled transition of its own (barrier code or Condvar code); only the environment
   (time, cancellation) and new calls of wait() could still happen.  Theorem: in a quiescent reachable state every actor is
   outside wait() (returned), or is a cancelled coroutine that died inside Condvar::wait, or is parked in Condvar::wait
   for the generation in progress - which has fewer than n arrivals - with its blocker unflagged in the queue.  Hence
   every generation g that has completed has been left by everybody: n = followers returned + the leader returned + the
   cancelled coroutines that died in it; without cancellation exactly n arrivals returned, exactly one as leader. *)
From Coq Require Import List Arith ZArith Bool Lia.
Import ListNotations.
Require Import MayV.Sync.CondvarModel MayV.Sync.CondvarInv MayV.Sync.CondvarTac MayV.Sync.CondvarPresM
               MayV.Sync.CondvarL1 MayV.Sync.CondvarL2 MayV.Sync.CondvarL3 MayV.Sync.CondvarL4 MayV.Sync.CondvarThm
               MayV.Sync.BarrierModel MayV.Sync.BarrierThm MayV.Sync.BarrierCv.
Close Scope Z_scope.
Open Scope nat_scope.

Ltac bcases H :=
  unfold bstep in H;
  repeat match type of H with
  | context [match bpc ?s ?a with _ => _ end] => let E := fresh "Eb" in destruct (bpc s a) eqn:E
  | context [match step ?c ?x with _ => _ end] => let E := fresh "Es" in destruct (step c x) eqn:E
  | context [if ?c then _ else _] => let E := fresh "Ec" in destruct c eqn:E
  end; try discriminate; inv_some.
Ltac bsimp := unfold set_bpc, set_cs; cbn [cs cnt gen bpc lgen bco arr ldr ret lret inl viol].
Ltac bsimp_in H := unfold set_bpc, set_cs in H; cbn [cs cnt gen bpc lgen bco arr ldr ret lret inl viol] in H.
Ltac bupd_tac :=
  repeat match goal with
  | |- context [bupd ?f ?i ?v ?j] =>
      first [ rewrite (bupd_eq f i v) | rewrite (bupd_neq f i j v) by congruence
            | let e := fresh "e" in let ne := fresh "ne" in
              destruct (Nat.eq_dec j i) as [e|ne];
              [ rewrite e; rewrite (bupd_eq f i v) | rewrite (bupd_neq f i j v ne) ] ]
  end.
Ltac bnum :=
  repeat match goal with
  | H : (_ <? _) = true |- _ => apply Nat.ltb_lt in H
  | H : (_ <? _) = false |- _ => apply Nat.ltb_ge in H
  | H : (_ =? _) = true |- _ => apply Nat.eqb_eq in H
  | H : (_ =? _) = false |- _ => apply Nat.eqb_neq in H
  end.

Section BarrierLive.
Variable n : nat.
Hypothesis n_pos : 1 <= n.

Record BInvL (s : bst) : Prop := {
  L_pre : forall a, bpc s a = BWait -> prepush (apc (A (cs s) a)) = true -> lgen s a = gen s;
  L_q : (exists x, bpc s x = BNotify) \/ forall b, In b (q (cs s)) -> lgen s (owner (Bk (cs s) b)) = gen s;
  L_lr1 : forall g, lret s g <= 1 /\ (lret s g = 1 -> g < gen s);
  L_lr2 : forall g, g < gen s -> lret s g = 0 -> exists a, (bpc s a = BNotify \/ bpc s a = BExitL) /\ lgen s a = g;
  L_lr3 : forall a, (bpc s a = BNotify \/ bpc s a = BExitL) -> lgen s a < gen s /\ lret s (lgen s a) = 0 }.

Lemma binvl_init : BInvL binit.
Proof.
  constructor; cbn; intros; try discriminate; try lia.
  - right. intros b [].
  - intuition discriminate.
Qed.

(* facts about the stepping actor's call actions *)
Lemma call_pc c x c' a y : step c x = Some c' -> actor_of x = Some a -> y <> a -> apc (A c' y) = apc (A c y).
Proof. intros H E N. rewrite (frame_A _ _ _ y H); [reflexivity | congruence]. Qed.

Lemma holds_mx s a : BReach n s -> (bpc s a = BIn \/ bpc s a = BLoop \/ bpc s a = BExit \/ bpc s a = BExitL \/ bpc s a = BNotify) -> mx (cs s) = Some a.
Proof. apply barrier_code_holds_mutex. Qed.

Lemma wait_pre_holds s a : BReach n s -> bpc s a = BWait -> prepush (apc (A (cs s) a)) = true -> mx (cs s) = Some a.
Proof.
  intros R Eb P. apply wait_holds_mutex; [apply (breach_reach n); assumption|].
  unfold has_mx. destruct (apc (A (cs s) a)); cbn in P; try discriminate; reflexivity.
Qed.

Lemma bl_pre s ac s' : BReach n s -> BInvL s -> bstep n s ac = Some s' ->
  forall y, bpc s' y = BWait -> prepush (apc (A (cs s') y)) = true -> lgen s' y = gen s'.
Proof.
  intros R Hi H. pose proof (L_pre _ Hi) as Lp.
  destruct ac as [a co|a|a c|c]; bcases H; bsimp; intros y; pose proof (Lp y) as Ly; pose proof (wait_pre_holds s y R) as Hwy.
  (* BEnv *)
  all: try solve [match goal with Ok : env_ok _ = true, Es : step _ _ = Some _ |- _ =>
                    destruct (env_pc_frame _ _ _ y Es Ok) as [Ep _]; rewrite Ep; exact Ly end].
  (* BInner; the stepping actor inside wait: it was before the push already *)
  all: try solve [match goal with Ok : inner_ok ?a _ = true, Es : step _ _ = Some _ |- _ =>
                    destruct (Nat.eq_dec y a) as [e|ne];
                    [ subst y; rewrite bupd_eq | rewrite bupd_neq by assumption; rewrite (inner_pc_frame _ _ _ a y Es Ok ne); exact Ly ];
                    try (intros X; discriminate X); intros _ P; apply Lp; first [assumption | eapply prepush_back; eauto] end].
  (* BArrive, BStep; the leader's step: nobody else is before its push (it would hold the mutex too) *)
  all: match goal with Eb : bpc _ ?a = _ |- _ =>
         pose proof (holds_mx s a R) as Hma; rewrite Eb in Hma; bupd_tac; try discriminate; bnum; auto;
         try match goal with Es : step _ _ = Some _, ne : _ <> _ |- _ => rewrite (call_pc _ _ _ a y Es eq_refl ne) end; auto;
         try solve [intros W P; exfalso; assert (M1 : mx (cs s) = Some a) by (apply Hma; tauto); rewrite (Hwy W P) in M1; congruence] end.
Qed.

Lemma bl_q s ac s' : BReach n s -> BInvL s -> bstep n s ac = Some s' ->
  (exists x, bpc s' x = BNotify) \/ forall b, In b (q (cs s')) -> lgen s' (owner (Bk (cs s') b)) = gen s'.
Proof.
  intros R Hi H. pose proof (L_q _ Hi) as Lq. pose proof (inv1_reach _ (breach_reach n _ R)) as I1.
  assert (KEEP : forall a p, bpc s a <> BNotify -> (exists x, bpc s x = BNotify) -> exists x, bupd (bpc s) a p x = BNotify).
  { intros a p Na [x Ex]. exists x. rewrite bupd_neq; [exact Ex | congruence]. }
  destruct ac as [a co|a|a c|c]; bcases H; bsimp.
  (* the leader decides / is inside notify_all *)
  all: try solve [left; eexists; apply bupd_eq].
  (* notify_all returns: the queue is empty *)
  all: try solve [match goal with Eb : bpc _ ?a = BNotify, Ok : inner_ok _ _ = true, Es : step _ _ = Some ?s0 |- _ =>
         right; intros b Hb; exfalso;
         pose proof (J_a _ (binvj_reach n _ R) a) as Ja; rewrite Eb in Ja; destruct Ja as [Ja _];
         assert (I : apc (A s0 a) = Idle) by (destruct (apc (A s0 a)); cbn in *; try discriminate; reflexivity);
         rewrite (notify_all_done _ _ _ a Es Ok Ja I) in Hb; destruct Hb end].
  (* calls and the environment do not touch the queue *)
  all: try match goal with Es : step _ _ = Some _ |- _ => destruct (call_frame _ _ _ Es eq_refl) as [Eq Ebk]; rewrite Eq, Ebk end.
  all: try match goal with Es : step _ _ = Some _, Ok : env_ok _ = true |- _ =>
         destruct (env_pc_frame _ _ _ 0 Es Ok) as (_ & Eq & Ebk & _); rewrite Eq, Ebk end.
  all: try exact Lq.
  (* an actor inside notify_all other than the stepping one stays there *)
  all: match goal with Eb : bpc _ ?a = _ |- _ => destruct Lq as [Lq|Lq]; [left; apply KEEP; [congruence | exact Lq] | right] end.
  all: try exact Lq.
  (* a follower joins the generation in progress *)
  all: try solve [intros b Hb; bnum; bupd_tac; auto].
  (* inside Condvar::wait: a push is by the stepping actor, which is still in the generation in progress *)
  all: intros b Hb; destruct (q_step _ _ _ I1 Es b Hb) as [[Ho Eo]|(a0 & Ex & Ew & Eo)]; [rewrite Eo; apply Lq; exact Ho|].
  all: subst; match goal with Ok : inner_ok _ _ = true |- _ => cbn in Ok; apply Nat.eqb_eq in Ok end; subst; apply (L_pre _ Hi); [assumption | rewrite Ew; reflexivity].
Qed.

Lemma bl_lr1 s ac s' : BReach n s -> BInvL s -> bstep n s ac = Some s' -> forall g, lret s' g <= 1 /\ (lret s' g = 1 -> g < gen s').
Proof.
  intros R Hi H. pose proof (L_lr1 _ Hi) as L1.
  destruct ac; bcases H; bsimp; try exact L1; intros g; destruct (L1 g) as [La Lb].
  - split; [exact La | intro E; specialize (Lb E); lia].
  - destruct (L_lr3 _ Hi a (or_intror Eb)) as [Lc Ld]. bupd_tac; [|tauto]. rewrite Ld. split; [lia | intros _; exact Lc].
Qed.

Lemma bl_lr2 s ac s' : BReach n s -> BInvL s -> bstep n s ac = Some s' ->
  forall g, g < gen s' -> lret s' g = 0 -> exists x, (bpc s' x = BNotify \/ bpc s' x = BExitL) /\ lgen s' x = g.
Proof.
  intros R Hi H. pose proof (L_lr2 _ Hi) as L2.
  destruct ac; bcases H; bsimp; try exact L2; intros g Hg Hl; bnum.
  (* the leader's decision opens a new completed generation: the leader is the witness *)
  all: try match goal with Hg0 : _ < S _ |- _ =>
         destruct (Nat.eq_dec g (gen s)) as [->|ng]; [exists a; rewrite !bupd_eq; auto | assert (Hg' : g < gen s) by lia; clear Hg0; rename Hg' into Hg] end.
  (* the leader's return *)
  all: try (destruct (Nat.eq_dec g (lgen s a)) as [->|ng]; [rewrite bupd_eq in Hl; discriminate | rewrite bupd_neq in Hl by assumption]).
  all: destruct (L2 g Hg Hl) as (x & Px & Lx).
  all: exists x; destruct (Nat.eq_dec x a) as [->|nx]; [| rewrite !bupd_neq by assumption; auto].
  all: try (exfalso; rewrite Eb in Px; destruct Px; discriminate).
  all: try (exfalso; congruence).
  all: rewrite bupd_eq; auto.
Qed.

Lemma bl_lr3 s ac s' : BReach n s -> BInvL s -> bstep n s ac = Some s' ->
  forall y, (bpc s' y = BNotify \/ bpc s' y = BExitL) -> lgen s' y < gen s' /\ lret s' (lgen s' y) = 0.
Proof.
  intros R Hi H. pose proof (L_lr3 _ Hi) as L3.
  destruct ac as [a co|a|a c|c]; bcases H; bsimp; try exact L3; intros y; pose proof (L3 y) as Ly; bnum.
  all: pose proof (holds_mx s a R) as Hma; rewrite Eb in Hma.
  all: pose proof (holds_mx s y R) as Hmy.
  all: bupd_tac; try solve [intuition discriminate]; auto.
  (* the leader's decision *)
  all: try solve [intros _; split; [lia|]; destruct (L_lr1 _ Hi (gen s)) as [La Lb]; destruct (lret s (gen s)) as [|[|k]]; [reflexivity | lia | lia]].
  all: try solve [intros P; destruct (Ly P); split; [lia | assumption]].
  (* the leader's return: nobody else is on the leader's path (it would hold the mutex too) *)
  all: try solve [intros P; exfalso; assert (M1 : mx (cs s) = Some a) by (apply Hma; tauto);
                  assert (M2 : mx (cs s) = Some y) by (apply Hmy; tauto); congruence].
  (* inside notify_all *)
  all: try solve [intros _; apply (L3 a); auto].
Qed.

Lemma binvl_step s ac s' : BReach n s -> BInvL s -> bstep n s ac = Some s' -> BInvL s'.
Proof.
  intros R Hi H. constructor.
  - eapply bl_pre; eauto.
  - eapply bl_q; eauto.
  - eapply bl_lr1; eauto.
  - eapply bl_lr2; eauto.
  - eapply bl_lr3; eauto.
Qed.
Lemma binvl_reach s : BReach n s -> BInvL s.
Proof. intro R. induction R; [apply binvl_init | eapply binvl_step; eauto]. Qed.

End BarrierLive.

(* ---------------------------------------------------------------------------------------- quiescence *)
Section BarrierQuiescence.
Variable n : nat.
Hypothesis n_pos : 1 <= n.

(* no actor has an enabled transition of its own: neither barrier code nor Condvar code *)
Definition BQuiescent (s : bst) : Prop := forall a, bstep n s (BStep a) = None /\ forall c, bstep n s (BInner a c) = None.

Lemma inner_enabled s a c : (bpc s a = BWait \/ bpc s a = BNotify) -> inner_ok a c = true -> step (cs s) c <> None -> bstep n s (BInner a c) <> None.
Proof.
  intros P Ok En. unfold bstep. rewrite Ok. destruct (step (cs s) c); [|congruence]. destruct P as [-> | ->]; discriminate.
Qed.
Lemma cv_enabled_inner s a : (bpc s a = BWait \/ bpc s a = BNotify) -> cv_enabled (cs s) a -> exists c, bstep n s (BInner a c) <> None.
Proof. intros P (c & Ok & En). exists c. apply inner_enabled; assumption. Qed.

(* an actor that is not idle and not dead in the Condvar model is inside Condvar::wait or Condvar::notify_all *)
Lemma busy_class s a : BReach n s -> apc (A (cs s) a) <> Idle -> apc (A (cs s) a) <> Dead -> bpc s a = BWait \/ bpc s a = BNotify.
Proof.
  intros R NI ND. pose proof (J_a _ (binvj_reach n _ R) a) as J.
  destruct (bpc s a); cbn in J; auto; try (destruct J as [J _]; congruence); congruence.
Qed.

(* the holder of the barrier's mutex always has an enabled transition *)
Lemma holder_enabled s h : BReach n s -> mx (cs s) = Some h -> ~ BQuiescent s.
Proof.
  intros R M Q. destruct (Q h) as [Q1 Q2]. pose proof (breach_reach n _ R) as Rc.
  pose proof (J_a _ (binvj_reach n _ R) h) as J. pose proof (invH_reach _ Rc h M) as Hh.
  unfold bstep in Q1. destruct (bpc s h) eqn:E; cbn in J.
  - destruct J as [_ J]. congruence.
  - destruct J as [P _]. destruct (S (cnt s) <? n); [discriminate|]. unfold step in Q1. rewrite P in Q1. discriminate.
  - destruct J as [P _]. destruct (lgen s h =? gen s); [|discriminate]. unfold step in Q1. rewrite P, M, Nat.eqb_refl in Q1. discriminate.
  - assert (NI : apc (A (cs s) h) <> Idle) by (intro X; unfold in_wait in J; rewrite X in J; discriminate).
    destruct (cv_enabled_inner s h (or_introl E) (cv_holder_progress _ _ Rc M NI)) as [c En]. apply En, Q2.
  - destruct J as [P _]. assert (NI : apc (A (cs s) h) <> Idle) by (intro X; rewrite X in P; destruct P as [P|[P|P]]; discriminate).
    destruct (cv_enabled_inner s h (or_intror E) (cv_holder_progress _ _ Rc M NI)) as [c En]. apply En, Q2.
  - destruct J as [P _]. unfold step in Q1. rewrite P, M, Nat.eqb_refl in Q1. discriminate.
  - destruct J as [P _]. unfold step in Q1. rewrite P, M, Nat.eqb_refl in Q1. discriminate.
  - rewrite J in Hh. discriminate.
Qed.

(* THE QUIESCENCE THEOREM: in a quiescent state the mutex is free and every actor is outside wait(), or a cancelled
   coroutine that died in Condvar::wait, or parked for the generation in progress with its blocker unflagged in the queue *)
Theorem barrier_quiescent s : BReach n s -> BQuiescent s ->
  mx (cs s) = None /\
  forall a, bpc s a = BIdle \/ bpc s a = BGone \/
            (bpc s a = BWait /\ apc (A (cs s) a) = WW /\ lgen s a = gen s /\
             unp (Bk (cs s) (ab (A (cs s) a))) = false /\ In (ab (A (cs s) a)) (q (cs s))).
Proof.
  intros R Q. pose proof (breach_reach n _ R) as Rc.
  assert (M : mx (cs s) = None) by (destruct (mx (cs s)) as [h|] eqn:M; [exfalso; eapply holder_enabled; eauto | reflexivity]).
  split; [exact M|]. intro a.
  destruct (bpc s a) eqn:E; auto.
  1,2,4,5,6: exfalso; assert (X : mx (cs s) = Some a) by (apply (barrier_code_holds_mutex n); [exact R | rewrite E; tauto]); congruence.
  (* BWait *)
  right. right. pose proof (J_a _ (binvj_reach n _ R) a) as J. rewrite E in J. cbn in J.
  assert (NI : apc (A (cs s) a) <> Idle) by (intro X; unfold in_wait in J; rewrite X in J; discriminate).
  assert (ND : apc (A (cs s) a) <> Dead) by (intro X; unfold in_wait in J; rewrite X in J; discriminate).
  destruct (cv_progress _ a Rc NI ND) as [En|[[Ew [Et _]]|[_ Em]]]; [| |congruence].
  { exfalso. destruct (cv_enabled_inner s a (or_introl E) En) as [c Ec]. apply Ec, (Q a). }
  destruct (cv_parked_cases _ a Rc Ew) as [[U Iq]|[T|(x & Nx & Px)]]; [| congruence |].
  - repeat split; auto.
    destruct (L_q _ (binvl_reach n n_pos _ R)) as [[x Ex]|Lq].
    + exfalso. assert (X : mx (cs s) = Some x) by (apply (barrier_code_holds_mutex n); [exact R | rewrite Ex; tauto]). congruence.
    + rewrite <- (Lq _ Iq). f_equal. symmetry.
      apply (O_owner _ (inv3_reach _ Rc) a). rewrite Ew. reflexivity.
  - exfalso.
    assert (Bx : bpc s x = BWait \/ bpc s x = BNotify) by (apply busy_class; [exact R | |]; intro X; rewrite X in Px; intuition discriminate).
    assert (En : cv_enabled (cs s) x).
    { exists (Step x). split; [cbn; apply Nat.eqb_refl|]. unfold step. destruct Px as [P|[P|[P|P]]]; rewrite P; discriminate. }
    destruct (cv_enabled_inner s x Bx En) as [c Ec]. apply Ec, (Q x).
Qed.

Lemma cntl_zero g lg l : (forall a, In a l -> lg a <> g) -> cntl g lg l = 0.
Proof.
  unfold cntl. induction l as [|x l IH]; cbn; intro H; [reflexivity|].
  destruct (Nat.eqb_spec (lg x) g) as [e|ne]; [exfalso; apply (H x); auto | apply IH; intros; apply H; auto].
Qed.

(* every completed generation has been left by all its n arrivals: the followers and the one leader have returned, the
   remainder are cancelled coroutines that died inside Condvar::wait *)
Theorem barrier_exactly_n_return s g : BReach n s -> BQuiescent s -> g < gen s ->
  arr s g = n /\ ldr s g = 1 /\ lret s g = 1 /\ ret s g + lret s g + cntl g (lgen s) (inl s) = n /\
  forall a, In a (inl s) -> lgen s a = g -> bpc s a = BGone /\ ccan (A (cs s) a) = true /\ aco (A (cs s) a) = true.
Proof.
  intros R Q Hg. destruct (barrier_quiescent s R Q) as [_ Cl]. pose proof (binvl_reach n n_pos _ R) as Li.
  destruct (barrier_generation_complete n n_pos s g R Hg) as [Ea El].
  assert (Lr : lret s g = 1).
  { destruct (L_lr1 _ Li g) as [La _]. destruct (lret s g) as [|[|k]] eqn:E; [|reflexivity|lia].
    exfalso. destruct (L_lr2 _ Li g Hg E) as (x & Px & _). destruct (Cl x) as [X|[X|[X _]]]; rewrite X in Px; destruct Px; discriminate. }
  repeat split; auto.
  - pose proof (barrier_arrivals_accounted n n_pos s g R) as Ac. lia.
  - destruct (Cl a) as [X|[X|(X & _ & Y & _)]]; [|exact X|lia].
    exfalso. apply (C_inl _ _ (binvc_reach n n_pos _ R) a) in H. rewrite X in H. intuition discriminate.
  - assert (G : bpc s a = BGone).
    { destruct (Cl a) as [X|[X|(X & _ & Y & _)]]; [|exact X|lia].
      exfalso. apply (C_inl _ _ (binvc_reach n n_pos _ R) a) in H. rewrite X in H. intuition discriminate. }
    pose proof (J_a _ (binvj_reach n _ R) a) as J. rewrite G in J. apply (dead_only_if_cancelled _ a (breach_reach n _ R) J).
  - assert (G : bpc s a = BGone).
    { destruct (Cl a) as [X|[X|(X & _ & Y & _)]]; [|exact X|lia].
      exfalso. apply (C_inl _ _ (binvc_reach n n_pos _ R) a) in H. rewrite X in H. intuition discriminate. }
    pose proof (J_a _ (binvj_reach n _ R) a) as J. rewrite G in J. apply (dead_only_if_cancelled _ a (breach_reach n _ R) J).
Qed.

(* without cancellation: exactly n arrivals of every completed generation have returned, exactly one of them as leader *)
Corollary barrier_exactly_n_return_no_cancel s g : BReach n s -> BQuiescent s -> (forall a, ccan (A (cs s) a) = false) -> g < gen s ->
  arr s g = n /\ lret s g = 1 /\ ret s g + lret s g = n.
Proof.
  intros R Q NC Hg. destruct (barrier_exactly_n_return s g R Q Hg) as (Ea & _ & Lr & Sum & Dd).
  assert (Z : cntl g (lgen s) (inl s) = 0).
  { apply cntl_zero. intros a Ia E. destruct (Dd a Ia E) as (_ & C & _). rewrite NC in C. discriminate. }
  repeat split; auto. lia.
Qed.

(* nobody is parked for a generation that has completed: a waiter parked in a quiescent state belongs to the generation in
   progress, which has fewer than n arrivals *)
Corollary barrier_parked_only_for_incomplete_generation s a : BReach n s -> BQuiescent s -> bpc s a = BWait ->
  lgen s a = gen s /\ arr s (gen s) < n.
Proof.
  intros R Q E. destruct (barrier_quiescent s R Q) as [_ Cl]. destruct (Cl a) as [X|[X|(_ & _ & Y & _)]]; try congruence.
  split; [exact Y|]. destruct (C_cnt _ _ (binvc_reach n n_pos _ R)) as [Cc Ca]. lia.
Qed.
End BarrierQuiescence.

(* ---------------------------------------------------------------------------------------- non-vacuity *)
Lemma bquiescent_by_cases n s :
  (forall a, bstep n s (BStep a) = None /\ bstep n s (BInner a (Step a)) = None /\ bstep n s (BInner a (Resume a)) = None /\
             bstep n s (BInner a (Choose a true)) = None /\ bstep n s (BInner a (Choose a false)) = None) -> BQuiescent n s.
Proof.
  intros H a. destruct (H a) as (H1 & H2 & H3 & H4 & H5). split; [exact H1|]. intro c.
  destruct (inner_ok a c) eqn:Ok; [| unfold bstep; rewrite Ok; reflexivity].
  destruct c; cbn in Ok; try discriminate; apply Nat.eqb_eq in Ok; subst; auto. destruct e; auto.
Qed.

(* Barrier(2): generation 0 is passed by actors 0 and 1, then actor 0 arrives again and is parked for generation 1 in a
   quiescent state; generation 0 has been left by both of its arrivals, one of them as the leader *)
Definition bsched_park : list baction :=
  bgen 0 1 ++ [BArrive 0 false; BStep 0; BStep 0] ++ repeat (BInner 0 (Step 0)) 4.
Example barrier_parked_for_next_generation : exists s, brun 2 binit bsched_park = Some s /\ BReach 2 s /\ BQuiescent 2 s /\
  gen s = 1 /\ bpc s 0 = BWait /\ lgen s 0 = 1 /\ bpc s 1 = BIdle /\ arr s 0 = 2 /\ ret s 0 = 1 /\ lret s 0 = 1 /\ arr s 1 = 1.
Proof.
  destruct (brun 2 binit bsched_park) as [s|] eqn:E; [|vm_compute in E; discriminate].
  exists s. split; [reflexivity|]. split; [eapply breach_brun; [constructor | exact E]|].
  vm_compute in E. inversion E; subst; clear E. split; [|cbn; repeat split; reflexivity].
  apply bquiescent_by_cases. intro a. destruct a as [|[|a]]; vm_compute; repeat split; try reflexivity; match goal with |- (if ?c then _ else _) = _ => destruct c; reflexivity end.
Qed.

(* reusable by more parties than n: three actors take turns through Barrier(2), three generations, every pair once *)
Example barrier_three_parties_three_generations : exists s, brun 2 binit (bgen 0 1 ++ bgen 2 0 ++ bgen 1 2) = Some s /\ BReach 2 s /\ BQuiescent 2 s /\
  gen s = 3 /\ (forall g, g < 3 -> arr s g = 2 /\ ldr s g = 1 /\ lret s g = 1 /\ ret s g = 1) /\ inl s = [] /\ viol s = false /\ mx (cs s) = None.
Proof.
  destruct (brun 2 binit (bgen 0 1 ++ bgen 2 0 ++ bgen 1 2)) as [s|] eqn:E; [|vm_compute in E; discriminate].
  exists s. split; [reflexivity|]. split; [eapply breach_brun; [constructor | exact E]|].
  vm_compute in E. inversion E; subst; clear E. split.
  - apply bquiescent_by_cases. intro a. destruct a as [|[|[|a]]]; vm_compute; repeat split; try reflexivity; match goal with |- (if ?c then _ else _) = _ => destruct c; reflexivity end.
  - cbn. repeat split; try reflexivity; destruct g as [|[|[|g]]]; try lia; reflexivity.
Qed.
