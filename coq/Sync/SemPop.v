(* wakeup_one never pops an empty queue: the `expect("got null blocker!")` of
   Semphore::wakeup_one is unreachable.  Ghost overlay on top of SemModel: hk = agents between
   their pop and their flag store, held = the blockers they popped. *)
From Coq Require Import List Arith ZArith Bool Lia.
Import ListNotations.
Require Import MayV.Sync.SemModel MayV.Sync.SemInv MayV.Sync.SemTac MayV.Sync.SemThm.
Open Scope Z_scope.

Record ov := { hk : list nat; held : list nat }.

Definition ostep (s : st) (o : ov) (ac : action) : ov :=
  match ac with
  | Step a => match apc (A s a), q s with
              | K1, v :: _ => {| hk := a :: hk o; held := v :: held o |}
              | K2, _ => {| hk := rm a (hk o); held := rm (aw (A s a)) (held o) |}
              | _, _ => o
              end
  | _ => o
  end.

Inductive Reach2 (i : Z) : st -> ov -> Prop :=
| R20 : Reach2 i (init i) {| hk := []; held := [] |}
| R2S s o a s' : Reach2 i s o -> step s a = Some s' -> Reach2 i s' (ostep s o a).

Lemma reach2_reach i s o : Reach2 i s o -> Reach i s.
Proof. induction 1; [constructor | econstructor; eauto]. Qed.
Lemma reach_reach2 i s : Reach i s -> exists o, Reach2 i s o.
Proof. induction 1 as [|s a s' R [o IH] H]; [eexists; constructor | eexists; econstructor; eauto]. Qed.

Record Ext (s : st) (o : ov) : Prop := {
  X1 : forall a, In a (hk o) <-> apc (A s a) = K2;
  X2 : NoDup (hk o);
  X3 : NoDup (held o);
  X4 : length (held o) = length (hk o);
  X5 : forall b, In b (ung s) -> In b (q s) \/ In b (held o);
  X6 : forall a, apc (A s a) = K2 -> In (aw (A s a)) (held o);
  X7 : forall a, apc (A s a) = W2 -> unp (Bk s (ab (A s a))) = false -> In (ab (A s a)) (q s) \/ In (ab (A s a)) (held o);
  X8 : forall b, In b (held o) -> ~ In b (q s) /\ (b < nextb s)%nat }.

Lemma ext_init i : Ext (init i) {| hk := []; held := [] |}.
Proof. constructor; cbn; intros; try constructor; try tauto; try discriminate; auto. Qed.

Lemma length_rm x l : NoDup l -> In x l -> S (length (rm x l)) = length l.
Proof.
  intros N I. pose proof (nl_rm x l N I) as H. unfold nl in H.
  destruct l; [destruct I|]. cbn [length] in *. lia.
Qed.

Lemma ext_step s o ac s' : Inv s -> Ext s o -> step s ac = Some s' -> Ext s' (ostep s o ac).
Proof.
  intros Hi [X1 X2 X3 X4 X5 X6 X7 X8] H. g_facts Hi.
  pose proof (KD _ Hi) as HKD.
  step_cases H; unfold ostep; cbn [cnt q nextb A Bk ini uposts succ ung giv pre hand owe mk];
    repeat match goal with E : apc _ = _ |- _ => rewrite E end.
  all: try match goal with E : q _ = _ |- _ => rewrite E in * end.
  all: pose proof (X1 a) as X1a; pose proof (X6 a) as X6a; pose proof (X7 a) as X7a.
  all: a_facts Hi a; b_facts Hi (ab (A s a)); b_facts Hi (aw (A s a)).
  all: try match goal with E : NoDup (?n :: _) |- _ => pose proof (X8 n) as X8n; pose proof (X5 n) as X5n; inversion E; subst end.
  all: constructor; cbn [hk held cnt q nextb A Bk ini uposts succ ung giv pre hand owe mk]; unfold set_pc, set_ctx, set_res, set_av.
  all: try match goal with |- NoDup _ => nd; try rewrite in_rm; try mem end.
  all: try match goal with |- length (_ :: _) = length (_ :: _) => cbn [length]; congruence end.
  all: try match goal with |- length (rm _ _) = length (rm _ _) =>
         apply eq_add_S; rewrite !length_rm by mem; assumption end.
  all: try assumption.
  all: match goal with
       | |- forall x : nat, _ =>
           let x := fresh "x" in intro x;
           pose proof (X1 x) as X1x; pose proof (X6 x) as X6x; pose proof (X7 x) as X7x;
           pose proof (X5 x) as X5x; pose proof (X8 x) as X8x; pose proof (HKD a x) as Dx; try match goal with Q : forall b, In b _ -> (_ <= b < _)%nat |- _ => pose proof (Q x) as Qx end;
           intros;
           repeat match goal with H : context [upd _ _ _ _] |- _ => revert H end;
           upd_tac; cbn [apc ab aw actx atimed acomp av ares tok parked reason unp rel owner fresh]; intros; lists;
           repeat match goal with e : ?v = _ |- _ => is_var v; subst v end
       | _ => idtac
       end.
  all: try mem.
  all: try (destruct (actx (A s a)) eqn:Ectx; cbn [ret_pc] in *; mem).
  all: try match goal with X : In ?n _ -> ~ In ?n (?n :: _) /\ _ |- ~ In ?n _ => let I := fresh in intro I; apply X in I; destruct I as [I _]; apply I; now left end.
Qed.

Lemma inv2_reach i s o : 0 <= i -> Reach2 i s o -> Inv s /\ Ext s o.
Proof.
  intros Hi R. induction R as [|s o a s' R [IH1 IH2] H].
  - split; [apply inv_init; exact Hi | apply ext_init].
  - split; [eapply inv_step; eauto | eapply ext_step; eauto].
Qed.

(* the `expect("got null blocker!")` in Semphore::wakeup_one is unreachable: whenever an actor is
   about to pop (pc K1), in any reachable state, the waiter queue is not empty *)
Theorem pop_never_empty i s a : 0 <= i -> Reach i s -> apc (A s a) = K1 -> q s <> [].
Proof.
  intros Hi R Ka. destruct (reach_reach2 _ _ R) as [o R2].
  destruct (inv2_reach _ _ _ Hi R2) as [HI [X1 X2 X3 X4 X5 X6 X7 X8]].
  destruct (IG _ HI) as (_ & G2 & _ & _ & Nu & _).
  assert (Hh : (S (length (hk o)) <= length (hand s))%nat).
  { change (S (length (hk o))) with (length (a :: hk o)). apply NoDup_incl_length.
    - constructor; [rewrite X1; congruence | exact X2].
    - intros x [<-|Ix].
      + destruct (IA _ HI a) as (_ & _ & Hh & _). apply Hh. now left.
      + destruct (IA _ HI x) as (_ & _ & Hh & _). apply Hh. right. now apply X1. }
  assert (Hu : (length (ung s) <= length (q s ++ held o))%nat).
  { apply NoDup_incl_length; [exact Nu|]. intros b Ib. apply in_or_app. now apply X5. }
  rewrite app_length in Hu. unfold nl in G2. pose proof (Nat2Z.is_nonneg (length (pre s))).
  intro E. rewrite E in Hu. cbn [length] in Hu. lia.
Qed.
