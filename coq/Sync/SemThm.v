From Coq Require Import List Arith ZArith Bool Lia.
Import ListNotations.
Require Import MayV.Sync.SemModel MayV.Sync.SemInv MayV.Sync.SemTac MayV.Sync.SemPresG MayV.Sync.SemPresB MayV.Sync.SemPresA MayV.Sync.SemPresO.
Open Scope Z_scope.

Lemma pres_KD s ac s' x y : Inv s -> step s ac = Some s' -> x <> y ->
  apc (A s' x) = K2 -> apc (A s' y) = K2 -> aw (A s' x) <> aw (A s' y).
Proof.
  intros Hi H Hxy. pose proof (KD _ Hi x y Hxy) as D.
  pose proof (IA _ Hi x) as Ax. pose proof (IA _ Hi y) as Ay. unfold ainv in Ax, Ay.
  step_cases H; cbn [cnt q nextb A Bk ini uposts succ ung giv pre hand owe mk]; try exact D.
  all: unfold set_pc, set_ctx, set_res, set_av; upd_tac; cbn [apc ab aw actx atimed acomp av ares]; try discriminate; try congruence; auto.
  all: repeat match goal with e : ?v = _ |- _ => is_var v; subst v end.
  all: try (destruct (actx (A s a)); cbn [ret_pc]; discriminate).
  - intros _ K. rewrite K in Ay. destruct Ay as (_ & _ & _ & _ & _ & _ & _ & NI & _).
    intro E. apply NI. rewrite <- E. now left.
  - intros K _. rewrite K in Ax. destruct Ax as (_ & _ & _ & _ & _ & _ & _ & NI & _).
    intro E. apply NI. rewrite E. now left.
Qed.

Lemma inv_step s ac s' : Inv s -> step s ac = Some s' -> Inv s'.
Proof.
  intros Hi H. constructor.
  - intro a. destruct (Nat.eq_dec (actor ac) a) as [e|ne].
    + eapply pres_A_self; eauto. destruct ac; exact e.
    + eapply pres_A_other; eauto.
  - intro b. eapply pres_B; eauto.
  - eapply pres_G; eauto.
  - intros x y. eapply pres_KD; eauto.
Qed.

Lemma inv_reach i s : 0 <= i -> Reach i s -> Inv s.
Proof. intros Hi R. induction R; [apply inv_init; exact Hi | eapply inv_step; eauto]. Qed.

Lemma ini_const i s : Reach i s -> ini s = i.
Proof.
  intros R. induction R as [|s a s' R IH H]; [reflexivity|]. rewrite <- IH. clear IH R.
  step_cases H; reflexivity.
Qed.

(* C10.i: permits are conserved -- in every reachable state, for any number of actors, any
   interleaving, any mix of timeouts and cancellations, the number of waits that returned success
   never exceeds the initial value plus the number of user posts whose fetch_add has happened. *)
Theorem permits_conserved i s : 0 <= i -> Reach i s -> succ s <= i + uposts s.
Proof.
  intros Hi R. pose proof (ini_const _ _ R) as E. apply inv_reach in R; [|exact Hi].
  destruct (IG _ R) as (G1 & G2 & G3 & _). rewrite <- E.
  pose proof (nl_nonneg (giv s)). pose proof (nl_nonneg (owe s)). pose proof (nl_nonneg (hand s)). pose proof (nl_nonneg (pre s)). lia.
Qed.

(* the counter is exact: what the waiters registered, minus the wake-ups in flight, is precisely
   the part of the counter below zero -- so get_value() = max(cnt, 0) counts exactly the permits
   nobody has been promised, and a positive counter means no unflagged registered waiter once the
   agents in flight (hand) and the early-flagged blockers (pre) have settled *)
Theorem counter_exact i s : 0 <= i -> Reach i s ->
  cnt s + nl (ung s) - nl (hand s) - nl (pre s) = Z.max (cnt s) 0.
Proof. intros Hi R. apply inv_reach in R; [|exact Hi]. destruct (IG _ R) as (_ & _ & _ & G4 & _). exact G4. Qed.
Corollary positive_counter_no_unserved_waiter i s : 0 <= i -> Reach i s ->
  0 < cnt s -> hand s = [] -> pre s = [] -> ung s = [].
Proof.
  intros Hi R C H P. pose proof (counter_exact i s Hi R) as E. rewrite H, P in E. unfold nl in E. cbn [length] in E.
  destruct (ung s); [reflexivity | cbn [length] in E; lia].
Qed.

(* the exact accounting behind it *)
Theorem permit_accounting i s : 0 <= i -> Reach i s ->
  cnt s + nl (ung s) + nl (giv s) + nl (owe s) + succ s = i + uposts s.
Proof.
  intros Hi R. pose proof (ini_const _ _ R) as E. apply inv_reach in R; [|exact Hi].
  destruct (IG _ R) as (G1 & _). lia.
Qed.

(* non-vacuity: the schedule of SemSanity.v (one waiter served, one timed-out waiter whose stale
   entry is flushed by the next post) is a reachable state with a successful wait in it *)
Lemma reach_run i l s : Reach i s -> Reach i (run s l).
Proof.
  revert s. induction l as [|a l IH]; cbn [run]; intros s R; [exact R|].
  destruct (step s a) eqn:E; [apply IH; eapply RS; eauto | apply IH; exact R].
Qed.
Definition sch := [Wait 0%nat false; Step 0%nat; Step 0%nat; Step 0%nat; Step 0%nat; Wait 1%nat true; Step 1%nat; Step 1%nat; Step 1%nat; Step 1%nat; Fire 1%nat;
                   Step 1%nat; Step 1%nat; Step 1%nat; Step 1%nat; Post 2%nat; Step 2%nat; Step 2%nat; Step 2%nat; Step 2%nat; Step 2%nat; Step 0%nat;
                   Post 3%nat; Step 3%nat; Step 3%nat; Step 3%nat; Step 3%nat; Step 3%nat; Step 3%nat].
Example conserved_somewhere :
  Reach 0 (run (init 0) sch) /\ succ (run (init 0) sch) = 1 /\ uposts (run (init 0) sch) = 2 /\ cnt (run (init 0) sch) = 1.
Proof. split; [apply reach_run; constructor | vm_compute; auto]. Qed.
