(* C11 theorems about CondvarModel, for every reachable state: any number of actors (threads and coroutines), any
   interleaving of wait / wait_timeout / notify_one / notify_all / lock / unlock, timeouts, cancellation at any point. *)
From Coq Require Import List Arith ZArith Bool Lia.
Import ListNotations.
Require Import MayV.Sync.CondvarModel MayV.Sync.CondvarInv MayV.Sync.CondvarTac MayV.Sync.CondvarPresM
               MayV.Sync.CondvarL1 MayV.Sync.CondvarL2 MayV.Sync.CondvarL3 MayV.Sync.CondvarL4.
Open Scope Z_scope.

(* ------------------------------------------------------------------------------------------ *)
(* (i) notifications are not lost *)

(* the accounting identity: every notification that found a blocker in the queue (notify_one pops by users, notify_all
   pops) is, at every moment, exactly one of: consumed by a wait that returned "notified" (nret), in flight (the agent has
   popped but not yet flagged: hand; flagged and not settled yet: giv), decided to be passed on and not yet re-issued (owe),
   or passed on and dropped because the queue was empty at that moment (fnone) *)
Theorem notify_accounting s : Reach s ->
  nuser s + nall s = nret s + nl (hand s) + nl (giv s) + nl (owe s) + fnone s.
Proof. intro R. exact (O_acc _ (inv3_reach _ R)). Qed.

(* a notification given to a blocker is settled (consumed by the owner's return, or passed on by the owner, or passed on by
   the notifier that finds `release` set) at most once, and `giv` is exactly the flagged, not yet settled blockers *)
Theorem notification_settled_at_most_once s b : Reach s ->
  (bset (Bk s b) <= 1)%nat /\ (In b (giv s) <-> unp (Bk s b) = true /\ bset (Bk s b) = O).
Proof. intro R. pose proof (inv3_reach _ R) as H3. split; [apply (O_set _ H3) | apply (O_giv _ H3)]. Qed.

(* the owner that leaves on the error path with the flag set passes the notification on, exactly then *)
Theorem timed_out_waiter_forwards s a s' : Reach s -> apc (A s a) = E1 -> unp (Bk s (ab (A s a))) = true ->
  step s (Step a) = Some s' ->
  bset (Bk s (ab (A s a))) = O /\ bset (Bk s' (ab (A s a))) = 1%nat /\ In a (owe s') /\ ~ In (ab (A s a)) (giv s') /\ apc (A s' a) = K1.
Proof.
  intros R Epc U H. pose proof (inv3_reach _ R) as H3.
  pose proof (O_own _ H3 a) as Oa. rewrite Epc in Oa. cbn in Oa. destruct (Oa eq_refl) as [_ B0].
  pose proof (O_ndg _ H3) as Ng.
  unfold step in H. rewrite Epc, U in H. inversion H; subst; clear H. unfold forward. simp_st. upd_tac. simp_act. rewrite B0.
  repeat split; auto; [now left | rewrite in_rm; tauto].
Qed.
(* ... and so does the one that finds its release flag still set after seeing the flag on the re-check *)
Theorem timed_out_waiter_forwards_recheck s a s' : Reach s -> apc (A s a) = E4 -> rel (Bk s (ab (A s a))) = true ->
  step s (Step a) = Some s' ->
  bset (Bk s (ab (A s a))) = O /\ bset (Bk s' (ab (A s a))) = 1%nat /\ In a (owe s') /\ ~ In (ab (A s a)) (giv s') /\ apc (A s' a) = K1.
Proof.
  intros R Epc U H. pose proof (inv3_reach _ R) as H3.
  pose proof (O_rel _ H3 _ U) as B0.
  unfold step in H. rewrite Epc, U in H. inversion H; subst; clear H. unfold forward. simp_st. upd_tac. simp_act. rewrite B0.
  repeat split; auto; [now left | rewrite in_rm; tauto].
Qed.

(* no waiter is forgotten: a registered waiter (between its push and its return from park) that has not been flagged
   is still in the queue, or in the hands of a notifier that has popped it and is about to flag it *)
Theorem unnotified_waiter_is_queued s a : Reach s -> waiting (A s a) (ab (A s a)) -> unp (Bk s (ab (A s a))) = false ->
  In (ab (A s a)) (q s) \/ In (ab (A s a)) (held s).
Proof.
  intros R [W _] U. pose proof (inv1_reach _ R) as H1. pose proof (inv2_reach _ R) as H2. pose proof (inv3_reach _ R) as H3.
  apply (F_cov _ H2); [|exact U]. destruct (R_a _ H1 a) as [Lb _].
  assert (O : owns (cls_of (apc (A s a))) = true) by (destruct W as [-> | [-> | [-> | ->]]]; reflexivity).
  destruct (O_owner _ H3 a O). lia.
Qed.
(* hence a notify_one that finds the queue empty while no other notifier holds a blocker loses nothing: everybody waiting has
   been flagged already *)
Corollary empty_queue_everybody_notified s a : Reach s -> q s = [] -> held s = [] -> waiting (A s a) (ab (A s a)) ->
  unp (Bk s (ab (A s a))) = true.
Proof.
  intros R Q Hd W. destruct (unp (Bk s (ab (A s a)))) eqn:U; [reflexivity|].
  destruct (unnotified_waiter_is_queued s a R W U) as [I|I]; [rewrite Q in I | rewrite Hd in I]; destruct I.
Qed.
(* notify_all: when its pop finds the queue empty (it returns), every blocker registered so far has been flagged or is in the
   hands of a notifier; in particular all those registered before the call *)
Theorem notify_all_reaches_everyone s : Reach s -> q s = [] ->
  forall b, (1 <= b < nextb s)%nat -> unp (Bk s b) = true \/ In b (held s).
Proof.
  intros R Q b Hb. pose proof (inv2_reach _ R) as H2. destruct (unp (Bk s b)) eqn:U; [now left|].
  destruct (F_cov _ H2 b Hb U) as [I|I]; [rewrite Q in I; destruct I | now right].
Qed.
(* a flagged waiter is not stranded: the token is there (its Resume is enabled) or the notifier that flagged it still has
   the wake-up store ahead of it *)
Theorem notified_waiter_not_stranded s a : Reach s -> apc (A s a) = WW -> unp (Bk s (ab (A s a))) = true ->
  tok (Bk s (ab (A s a))) = true \/ exists x, (apc (A s x) = K3 \/ apc (A s x) = A3) /\ aw (A s x) = ab (A s a).
Proof.
  intros R Epc U. pose proof (inv3_reach _ R) as H3. pose proof (inv4_reach _ R) as H4.
  destruct (tokd (Bk s (ab (A s a)))) eqn:D.
  - left. destruct (tok (Bk s (ab (A s a)))) eqn:T; [reflexivity|]. exfalso.
    apply (T_dlv _ H4 _ D T). pose proof (O_owner _ H3 a) as Oa. rewrite Epc in Oa. destruct (Oa eq_refl) as [_ ->].
    split; [auto|reflexivity].
  - right. destruct (T_flg _ H4 _ (T_cov _ H4 _ U D)) as (_ & _ & P & W). eexists. split; [exact P | exact W].
Qed.
Theorem token_enables_resume s a : apc (A s a) = WW -> tok (Bk s (ab (A s a))) = true -> step s (Resume a) <> None.
Proof. intros Epc T. unfold step. rewrite Epc, T. discriminate. Qed.
(* a wait returns "notified" only with a notification: the flag is set when park returns Ok *)
Theorem ok_needs_notification s a : Reach s -> apc (A s a) = R1 -> rtok (A s a) = true -> In (ab (A s a)) (giv s).
Proof.
  intros R Epc T. pose proof (inv3_reach _ R) as H3. apply (O_giv _ H3). split.
  - apply (O_res _ H3 a); [rewrite Epc; reflexivity | exact T].
  - pose proof (O_own _ H3 a) as Oa. rewrite Epc in Oa. apply Oa. reflexivity.
Qed.

(* ------------------------------------------------------------------------------------------ *)
(* (ii) wait re-acquires the mutex on every return path *)

Theorem wait_holds_mutex s a : Reach s -> has_mx (A s a) = true -> mx s = Some a.
Proof. intros R H. apply (invM_reach _ R a). exact H. Qed.
Theorem wait_returns_holding_mutex s a s' : Reach s -> apc (A s a) = P1 -> step s (Step a) = Some s' ->
  apc (A s' a) = Idle /\ mx s' = Some a.
Proof.
  intros R Epc H. assert (M : mx s = Some a) by (apply wait_holds_mutex; [exact R | unfold has_mx; rewrite Epc; reflexivity]).
  unfold step in H. rewrite Epc in H. inversion H; subst; clear H. simp_st. upd_tac. simp_act. auto.
Qed.
(* the Canceled path: wait holds the mutex, releases it (unpoisoned: the guard was forgotten) and only then unwinds *)
Theorem canceled_wait_releases_mutex s a s' : Reach s -> apc (A s a) = C1 -> step s (Step a) = Some s' ->
  mx s = Some a /\ mx s' = None /\ pois s' = pois s /\ apc (A s' a) = Dead.
Proof.
  intros R Epc H. assert (M : mx s = Some a) by (apply wait_holds_mutex; [exact R | unfold has_mx; rewrite Epc; reflexivity]).
  unfold step in H. rewrite Epc in H. inversion H; subst; clear H. simp_st. upd_tac. simp_act. auto.
Qed.
Theorem canceled_only_if_cancelled s a : Reach s -> apc (A s a) = C1 -> ccan (A s a) = true /\ aco (A s a) = true.
Proof.
  intros R Epc. pose proof (invM_reach _ R a) as M. unfold minv in M. cbn zeta in M.
  destruct M as (_ & _ & M3 & _ & _ & _ & M7 & _). apply M3; [unfold post_park; rewrite Epc; reflexivity | apply M7; exact Epc].
Qed.
(* timed_out is reported only when the deadline (park entry + duration) had been reached when park returned *)
Theorem timeout_not_early s a : Reach s -> apc (A s a) = P1 -> ares (A s a) = 1%nat ->
  exists dl, adl (A s a) = Some dl /\ dl <= now s.
Proof.
  intros R Epc T. pose proof (invM_reach _ R a) as M. unfold minv in M. cbn zeta in M.
  destruct M as (_ & _ & M3 & _ & _ & M6 & _). destruct (M6 Epc) as [_ Mt]. specialize (Mt T).
  assert (P : post_park (A s a) = true) by (unfold post_park; rewrite Epc; reflexivity). destruct (M3 P) as [Md _]. specialize (Md Mt).
  unfold due in Md. destruct (adl (A s a)) as [dl|]; [|discriminate]. exists dl. split; [reflexivity | apply Z.leb_le; exact Md].
Qed.
(* the re-lock (and the whole error path with its nested notify_one) runs with the coroutine's cancel disabled, and the
   disable counter is balanced at every point of the call *)
Theorem relock_cancel_disabled s a : Reach s -> apc (A s a) = L -> aco (A s a) = true -> cdis (A s a) = S (cdis0 (A s a)).
Proof.
  intros R Epc C. pose proof (invM_reach _ R a) as M. unfold minv in M. cbn zeta in M.
  destruct M as (_ & M2 & _). unfold in_wait, dis in M2. rewrite Epc, C in M2. apply M2. reflexivity.
Qed.
Theorem cancel_counter_balanced s a : Reach s -> in_wait (A s a) = true ->
  cdis (A s a) = if aco (A s a) && dis (A s a) then S (cdis0 (A s a)) else cdis0 (A s a).
Proof. intros R H. apply (invM_reach _ R a). exact H. Qed.
(* the verdict choices of the model never block: some reason was recorded when park returned *)
Theorem verdict_available s a : Reach s -> apc (A s a) = R1 -> rtok (A s a) = true \/ rtmo (A s a) = true \/ rcan (A s a) = true.
Proof. intros R Epc. pose proof (invM_reach _ R a) as M. unfold minv in M. cbn zeta in M. destruct M as (_ & _ & _ & _ & M5 & _). apply M5. auto. Qed.

(* ------------------------------------------------------------------------------------------ *)
(* non-vacuity: concrete schedules (every action enabled) reaching the situations the theorems talk about *)
Lemma reach_run_strict l : forall s s', Reach s -> run_strict s l = Some s' -> Reach s'.
Proof.
  induction l as [|a l IH]; cbn [run_strict]; intros s s' R H; [inversion H; subst; exact R|].
  destruct (step s a) eqn:E; [|discriminate]. eapply IH; [eapply RS; eauto | exact H].
Qed.
Definition St (a : nat) (n : nat) : list action := repeat (Step a) n.

(* a thread waits, a notifier under the lock wakes it, the wait returns "notified" holding the mutex *)
Definition sch_notify : list action :=
  [Lock 0%nat; Wait 0%nat false None] ++ St 0 4 ++ [Lock 1%nat; NotifyOne 1%nat] ++ St 1 4 ++ [Unlock 1%nat false; Resume 0%nat; Step 0%nat; Choose 0%nat false] ++ St 0 2.
Example notified_somewhere : exists s, run_strict init sch_notify = Some s /\ Reach s /\
  nuser s = 1 /\ nret s = 1 /\ mx s = Some 0%nat /\ apc (A s 0%nat) = Idle /\ ares (A s 0%nat) = 0%nat /\ giv s = [] /\ q s = [].
Proof.
  destruct (run_strict init sch_notify) as [s|] eqn:E; [|vm_compute in E; discriminate].
  exists s. split; [reflexivity|]. split; [eapply reach_run_strict; [constructor | exact E]|].
  vm_compute in E. inversion E; subst; clear E. cbn. repeat split; reflexivity.
Qed.

(* a coroutine's wait_timeout(5) times out at the very moment a notify_one flags its blocker: it passes the notification
   on to the thread waiting behind it, returns timed_out holding the mutex; the thread returns notified *)
Definition sch_forward : list action :=
  [Lock 0%nat; Wait 0%nat true (Some 5)] ++ St 0 6 ++ [Lock 1%nat; Wait 1%nat false None] ++ St 1 4 ++
  [Tick 5; NotifyOne 2%nat; Step 2%nat; Step 2%nat; Resume 0%nat; Step 2%nat; Step 2%nat] ++
  [Step 0%nat; Step 0%nat; Choose 0%nat true] ++ St 0 6 ++ [Choose 0%nat false; Step 0%nat; Unlock 0%nat false] ++
  [Resume 1%nat; Step 1%nat; Choose 1%nat false] ++ St 1 2.
Example forwarded_somewhere : exists s, run_strict init sch_forward = Some s /\ Reach s /\
  nuser s = 1 /\ nret s = 1 /\ fnone s = 0 /\ ares (A s 0%nat) = 1%nat /\ ares (A s 1%nat) = 0%nat /\ mx s = Some 1%nat /\
  bset (Bk s 1%nat) = 1%nat /\ bset (Bk s 2%nat) = 1%nat /\ cdis (A s 0%nat) = O.
Proof.
  destruct (run_strict init sch_forward) as [s|] eqn:E; [|vm_compute in E; discriminate].
  exists s. split; [reflexivity|]. split; [eapply reach_run_strict; [constructor | exact E]|].
  vm_compute in E. inversion E; subst; clear E. cbn. repeat split; reflexivity.
Qed.

(* a cancelled coroutine: wait re-acquires the mutex, releases it unpoisoned, and unwinds *)
Definition sch_cancel : list action :=
  [Lock 0%nat; Wait 0%nat true None] ++ St 0 6 ++ [Cancel 0%nat; Resume 0%nat; Step 0%nat; Step 0%nat; Choose 0%nat true] ++ St 0 4 ++ [Choose 0%nat true].
Example canceled_somewhere : exists s s', run_strict init sch_cancel = Some s /\ Reach s /\ apc (A s 0%nat) = C1 /\ mx s = Some 0%nat /\
  step s (Step 0%nat) = Some s' /\ apc (A s' 0%nat) = Dead /\ mx s' = None /\ pois s' = false.
Proof.
  destruct (run_strict init sch_cancel) as [s|] eqn:E; [|vm_compute in E; discriminate].
  destruct (step s (Step 0%nat)) as [s'|] eqn:E'; [|vm_compute in E; inversion E; subst; vm_compute in E'; discriminate].
  exists s, s'. split; [reflexivity|]. split; [eapply reach_run_strict; [constructor | exact E]|].
  vm_compute in E. inversion E; subst; clear E. vm_compute in E'. inversion E'; subst; clear E'. cbn. repeat split; reflexivity.
Qed.
