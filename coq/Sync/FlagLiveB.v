(* Preservation of the overlay invariant of FlagLive.v, part B: F2 (a popped blocker gets its token), F3 (a delivered
   token is seen by the owner), F1 (after fire every queued blocker has somebody who will pop it). *)
From Coq Require Import List Arith ZArith Bool Lia.
Import ListNotations.
Require Import MayV.Sync.FlagModel MayV.Sync.FlagInv MayV.Sync.FlagLive MayV.Sync.FlagLiveA.
Open Scope Z_scope.

Section P.
Variable MAX : Z.
Hypothesis MAXpos : 0 < MAX.
Notation step := (step MAX).
Notation Inv := (Inv MAX).

Lemma pres_F2 s o ac s' : Inv s -> LInv MAX s o -> step s ac = Some s' -> F2 s' (lstep s o ac).
Proof.
  intros Hi HL H. pose proof (IF2 _ _ _ HL) as P. pose proof (IF6 _ _ _ HL) as P6. pose proof (IG1 _ _ _ HL) as (N & B1 & BQ).
  unfold F2, F6, holds23, agentpc in *.
  lsetup H; intro x; pose proof (P x) as Px; pose proof (P6 a) as Aa; pose proof (P6 (ag o x)) as Ag.
  all: try match goal with E : q _ = _ |- _ => rewrite E in * end; nodupq.
  all: unfold set_pc, set_res; upd_tac; upd_hyps2; prj_all; lists; qhead.
  all: try assumption.
  all: a_facts MAX Hi a.
  all: repeat match goal with e : ?v = _ |- _ => is_var v; subst v end; upd_hyps; prj_all.
  all: repeat match goal with e : ag _ _ = _ |- _ => progress (rewrite e in * ) end.
  all: ctxsplit s a; pcs; lists.
  all: intros; brk; arith_prem; brk; try mem.
Qed.

Lemma pres_F3 s o ac s' : Inv s -> LInv MAX s o -> step s ac = Some s' -> F3 s' (lstep s o ac).
Proof.
  intros Hi HL H. pose proof (IF3 _ _ _ HL) as P. pose proof (IG3 _ _ _ HL) as P3. pose proof (IF5 _ _ _ HL) as P5. pose proof (IG2 _ _ _ HL) as P2.
  unfold F3, F5, G2, G3, own, prepark, attpc, inpark in *.
  lsetup H; intro x; pose proof (P x) as Px; pose proof (P3 a) as Pa; pose proof (P3 (owner (Bk s x))) as Po;
    pose proof (P5 x) as Fx; pose proof (P5 (nextb s)) as Fn; pose proof (P2 a) as Oa.
  all: unfold set_pc, set_res; upd_tac; upd_hyps2; prj_all; lists.
  all: try assumption.
  all: a_facts MAX Hi a; a_facts MAX Hi O; b_facts MAX Hi x.
  all: repeat match goal with e : ?v = _ |- _ => is_var v; subst v end; upd_hyps; prj_all.
  all: repeat match goal with e : owner _ = _ |- _ => progress (rewrite e in * ) end.
  all: ctxsplit s a; pcs; lists.
  all: intros; brk; arith_prem; brk; try mem.
Qed.

Lemma nl_pos_in x l : In x l -> 1 <= nl l.
Proof. destruct l; [intros []|]. intros _. unfold nl. cbn [length]. lia. Qed.

Lemma pres_F1 s o ac s' : Inv s -> LInv MAX s o -> step s ac = Some s' -> F1 MAX s'.
Proof.
  intros Hi HL H. pose proof (IF1 _ _ _ HL) as P. pose proof (IG1 _ _ _ HL) as (N & B1 & BQ). g_facts MAX Hi.
  unfold F1, own in *.
  lsetup H; intros U B b Ib.
  (* the acting actor is (still) inside fire() / wakeup_all *)
  all: try solve [right; exists a; unfold set_pc, set_res; rewrite upd_eq; reflexivity].
  (* it has just left the loop: the queue was empty *)
  all: try solve [match goal with E : q _ = [] |- _ => rewrite E in Ib; destruct Ib end].
  (* a waiter whose fetch_sub finds the flag fired runs wakeup_all itself: the other branch is impossible *)
  all: try solve [exfalso; num; a_facts MAX Hi a;
                  match goal with I : In ?x (infl ?t) <-> _ |- _ => assert (Ia : In x (infl t)) by (apply I; auto) end;
                  apply nl_pos_in in Ia; try match goal with G : ufired _ = true -> _ < _ -> _ |- _ => specialize (G U B) end; lia].
  all: a_facts MAX Hi a; lists; pose proof (IG2 _ _ _ HL a) as Oa; unfold G2, attpc, inpark in Oa.
  all: try match goal with I : In _ (q _) \/ _ |- _ => destruct I as [I|[I|[]]] end.
  all: try match goal with I : In ?x (q _) |- _ => first [destruct (P U B x I) as [[W Ab]|[w Lw]] | destruct (P x I) as [[W Ab]|[w Lw]]] end.
  all: try solve [right; exists w; first [ exact Lw | destruct (Nat.eq_dec w a) as [->|ne];
                  [ rewrite Epc in Lw; discriminate | rewrite upd_neq by exact ne; exact Lw ] ] ].
  all: left; unfold set_pc, set_res; upd_tac; upd_hyps2; prj_all.
  all: repeat match goal with e : ?v = _ |- _ => is_var v; subst v end; upd_hyps; prj_all.
  all: repeat match goal with e : owner _ = _ |- _ => progress (rewrite e in * ) end.
  all: ctxsplit s a; pcs; brk; try mem.
Qed.
End P.
