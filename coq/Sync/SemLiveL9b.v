(* Preservation of the overlay invariant of SemLive.v, clause L9 (success and failure exclude each other): the cases P0, K1, K2, K3, K4, Y0, Y0c, G0
   (env = the actions other than Step).  Script in SemLiveTac.v; assembled in SemLiveE.v. *)
From Coq Require Import List Arith ZArith Bool Lia.
Import ListNotations.
Require Import MayV.Sync.SemModel MayV.Sync.SemInv MayV.Sync.SemTac MayV.Sync.SemCase MayV.Sync.SemLive MayV.Sync.SemLiveTac.
Open Scope Z_scope.

Lemma pres_L9_P0 s o a s' : Inv s -> LInv s o -> apc (A s a) = P0 -> step s (Step a) = Some s' -> L9 s' (lstep s o (Step a)).
Proof. intros Hi HL Epc H. l9_pre HL. lsetup_at Hi H Epc. all: l9_script Hi s a P7 P8 P9. Qed.

Lemma pres_L9_K1 s o a s' : Inv s -> LInv s o -> apc (A s a) = K1 -> step s (Step a) = Some s' -> L9 s' (lstep s o (Step a)).
Proof. intros Hi HL Epc H. l9_pre HL. lsetup_at Hi H Epc. all: l9_script Hi s a P7 P8 P9. Qed.

Lemma pres_L9_K2 s o a s' : Inv s -> LInv s o -> apc (A s a) = K2 -> step s (Step a) = Some s' -> L9 s' (lstep s o (Step a)).
Proof. intros Hi HL Epc H. l9_pre HL. lsetup_at Hi H Epc. all: l9_script Hi s a P7 P8 P9. Qed.

Lemma pres_L9_K3 s o a s' : Inv s -> LInv s o -> apc (A s a) = K3 -> step s (Step a) = Some s' -> L9 s' (lstep s o (Step a)).
Proof. intros Hi HL Epc H. l9_pre HL. lsetup_at Hi H Epc. all: l9_script Hi s a P7 P8 P9. Qed.

Lemma pres_L9_K4 s o a s' : Inv s -> LInv s o -> apc (A s a) = K4 -> step s (Step a) = Some s' -> L9 s' (lstep s o (Step a)).
Proof. intros Hi HL Epc H. l9_pre HL. lsetup_at Hi H Epc. all: l9_script Hi s a P7 P8 P9. Qed.

Lemma pres_L9_Y0 s o a s' : Inv s -> LInv s o -> apc (A s a) = Y0 -> step s (Step a) = Some s' -> L9 s' (lstep s o (Step a)).
Proof. intros Hi HL Epc H. l9_pre HL. lsetup_at Hi H Epc. all: l9_script Hi s a P7 P8 P9. Qed.

Lemma pres_L9_Y0c s o a s' : Inv s -> LInv s o -> apc (A s a) = Y0c -> step s (Step a) = Some s' -> L9 s' (lstep s o (Step a)).
Proof. intros Hi HL Epc H. l9_pre HL. lsetup_at Hi H Epc. all: l9_script Hi s a P7 P8 P9. Qed.

Lemma pres_L9_G0 s o a s' : Inv s -> LInv s o -> apc (A s a) = G0 -> step s (Step a) = Some s' -> L9 s' (lstep s o (Step a)).
Proof. intros Hi HL Epc H. l9_pre HL. lsetup_at Hi H Epc. all: l9_script Hi s a P7 P8 P9. Qed.
