(* mpmc channel invariant, preservation part 3: receiver handle / disconnect-flag clauses. *)
From Coq Require Import List Arith Bool Lia.
Import ListNotations.
Require Import MayV.Sync.ChanMpmcModel MayV.Sync.ChanMpmcInv.
Require Import MayV.Sync.ChanMpmcTac.
Definition rrest (s : st) (r : nat) : Prop :=
  let x := Rv s r in
  (rbusy (rp x) = true -> rst x = Alive) /\
  (rst x = Alive <-> In r (liver s)) /\
  (rst x = Unborn -> rp x = YIdle) /\
  (rdead x = true -> txp s = 0 /\ rp x <> W0 /\ rp x <> WB /\
                     (rp x = YIdle -> match rres x with REmpty | RTimeout => False | _ => True end)) /\
  (rp x = YIdle -> rres x = RDisc -> txp s = 0) /\
  (rp x = X1 -> rxp s = 0) /\
  (rp x = Y3n \/ rp x = Y4n -> q s = []).
Lemma rinv_rest s r : rinv s r -> rrest s r.
Proof. unfold rinv, rrest. tauto. Qed.

Lemma pres_rrest c s ac s' : Inv s -> step true true c s ac = Some s' -> forall r, rrest s' r.
Proof.
  intros Hi H r0. pose proof (I_R _ Hi r0) as P. unfold rinv in P. unfold rrest. boolh.
  step_cases H; boolh; unf; prj; auto.
  all: try (repeat split; assumption).
  all: rfacts Hi; sfacts Hi; wfacts Hi.
  all: try match goal with E : sst (Sd ?s0 ?a) = Alive |- _ => pose proof (alive_tx _ _ Hi E) end.
  all: try match goal with E : rst (Rv ?s0 ?r) = Alive |- _ => pose proof (alive_rx _ _ Hi E) end.
  all: upd_tac; prj; cbn [rbusy]; lists.
  all: repeat match goal with E : rp _ = _ |- _ => rewrite E in * end; cbn [rbusy] in *.
  all: fin.
  all: repeat match goal with |- _ /\ _ => split end; intros; boolh; fin.
Qed.
