(* mpmc channel invariant, preservation part 2: NoDup, handle counts, semaphore, dropper, sender clauses. *)
From Coq Require Import List Arith Bool Lia.
Import ListNotations.
Require Import MayV.Sync.ChanMpmcModel MayV.Sync.ChanMpmcInv.
Require Import MayV.Sync.ChanMpmcTac.
Lemma pres_nd c s ac s' : Inv s -> step true true c s ac = Some s' ->
  NoDup (hold s') /\ NoDup (wq s') /\ NoDup (rep s') /\ NoDup (pend s') /\ NoDup (livet s') /\ NoDup (liver s').
Proof.
  intros Hi H. destruct (I_nd _ Hi) as (N1 & N2 & N3 & N4 & N5 & N6).
  step_cases H; boolh; unf; prj; try (repeat split; assumption).
  all: rfacts Hi; sfacts Hi; wfacts Hi.
  all: repeat split; nd; lists; fin.
  - pose proof (I_R _ Hi (rto (Rv s r))) as U. unfold rinv in U. rewrite Est in U. destruct U as (_ & _ & _ & _ & U5 & _). intro X. apply U5 in X. discriminate.
  - pose proof (I_S _ Hi (sto (Sd s a))) as U. unfold sinv in U. rewrite Est in U. destruct U as (_ & _ & U3 & _). intro X. apply U3 in X. discriminate.
Qed.

Lemma pres_cnt c s ac s' : Inv s -> step true true c s ac = Some s' -> txp s' = length (livet s') /\ rxp s' = length (liver s').
Proof.
  intros Hi H. destruct (I_nd _ Hi) as (N1 & N2 & N3 & N4 & N5 & N6). destruct (I_cnt _ Hi) as [C1 C2].
  step_cases H; boolh; unf; prj; try (split; assumption).
  all: rfacts Hi; sfacts Hi.
  all: cbn [length]; try (split; lia).
  all: lenrm; split; lia.
Qed.

Lemma pres_sem c s ac s' : Inv s -> step true true c s ac = Some s' -> sv s' <> 0 -> wq s' = [].
Proof.
  intros Hi H. pose proof (I_sem _ Hi) as P.
  step_cases H; boolh; unf; prj; auto.
  all: rfacts Hi; wfacts Hi; prj; auto; try lia; try congruence.
  all: intro X; specialize (P X); try discriminate; try (rewrite P; reflexivity).
Qed.

Lemma pres_drop c s ac s' : Inv s -> step true true c s ac = Some s' ->
  forall a, dropper s' = Some a -> (sp (Sd s' a) = G0 \/ sp (Sd s' a) = G1) /\ txp s' = 0.
Proof.
  intros Hi H a0. pose proof (I_drop _ Hi a0) as P.
  step_cases H; boolh; unf; prj; auto.
  all: sfacts Hi; upd_tac; prj; auto; try discriminate.
  all: try match goal with E : sst (Sd ?s0 ?a) = Alive |- _ => pose proof (alive_tx _ _ Hi E) end.
  all: intro X; try (inversion X; subst; upd_tac; prj; auto; fail).
  all: try (destruct (P X) as [[D|D] T]; try lia; try congruence).
  all: try congruence.
  all: match goal with Q : _ -> dropper ?s0 = Some ?a |- _ => assert (Y : dropper s0 = Some a) by (apply Q; auto) end.
  all: destruct (I_drop _ Hi _ Y) as [_ T2]; split; auto.
Qed.

Definition slinks (s : st) (a : nat) : Prop :=
  let y := Sd s a in
  (In a (pend s) <-> sp y = M2) /\
  (sbusy (sp y) = true -> sst y = Alive) /\
  (sst y = Alive <-> In a (livet s)) /\
  (sst y = Unborn -> sp y = SIdle) /\
  (sp y = G0 \/ sp y = G1 -> dropper s = Some a).
Lemma sinv_links s a : sinv s a -> slinks s a.
Proof. unfold sinv, slinks. tauto. Qed.

Lemma pres_slinks c s ac s' : Inv s -> step true true c s ac = Some s' -> forall a, slinks s' a.
Proof.
  intros Hi H a0. pose proof (sinv_links _ _ (I_S _ Hi a0)) as P. unfold slinks in *.
  destruct (I_nd _ Hi) as (N1 & N2 & N3 & N4 & N5 & N6).
  step_cases H; boolh; unf; prj; auto.
  all: sfacts Hi; upd_tac; prj; cbn [sbusy]; lists.
  all: repeat match goal with E : sp _ = _ |- _ => rewrite E in * end; cbn [sbusy] in *.
  all: fin.
  pose proof (I_drop _ Hi a0) as D. repeat split; try tauto. intro X. apply H3 in X. destruct (D X) as [_ T]. congruence.
Qed.

Lemma pres_sdead c s ac s' : Inv s -> step true true c s ac = Some s' -> forall a,
  sdead (Sd s' a) = true -> rxp s' = 0 /\ (sp (Sd s' a) = M0 \/ (sp (Sd s' a) = SIdle /\ sres (Sd s' a) = false)).
Proof.
  intros Hi H a0. pose proof (I_S _ Hi a0) as P. unfold sinv in P. boolh.
  step_cases H; boolh; unf; prj; auto.
  all: rfacts Hi; sfacts Hi; upd_tac; prj; auto; try discriminate.
  all: try match goal with E : rst (Rv ?s0 ?r) = Alive |- _ => pose proof (alive_rx _ _ Hi E) end.
  all: fin.
  intro X. apply is0_true in X. auto.
Qed.

