(* spsc channel model: the receiver-dropped direction (C07 iv / C06 i).  As ChanMpscDrop: every
   Ok-sent value is handed to the receiver exactly once XOR dropped exactly once; the drop transitions
   are RPd1 (Receiver::drop -> drop_port's pop loop) and Free (may_queue::spsc::Queue::drop when the
   last Arc goes: what a send that raced with drop_port left behind). *)
From Coq Require Import List Arith Bool Lia.
Import ListNotations.
Require Import MayV.Sync.ChanSpscModel MayV.Sync.ChanSpscInv MayV.Sync.ChanSpscThm.

Definition cnt (v : nat) (l : list nat) : nat := count_occ Nat.eq_dec l v.

Lemma nodup_three (v : nat) (a b c : list nat) : NoDup (a ++ b ++ c) ->
  (In v (a ++ b ++ c) -> cnt v a + cnt v b + cnt v c = 1) /\
  (~ In v (a ++ b ++ c) -> cnt v a + cnt v b + cnt v c = 0).
Proof.
  intro N. rewrite (NoDup_count_occ Nat.eq_dec) in N. specialize (N v).
  rewrite !count_occ_app in N. unfold cnt. split; intro I.
  - apply (count_occ_In Nat.eq_dec) in I. rewrite !count_occ_app in I. lia.
  - apply (count_occ_not_In Nat.eq_dec) in I. rewrite !count_occ_app in I. lia.
Qed.

Theorem spsc_received_xor_dropped s v : Reach true s ->
  (In v (sent s) -> cnt v (rcvd s) + cnt v (drpd s) + cnt v (q s) = 1) /\
  (~ In v (sent s) -> cnt v (rcvd s) + cnt v (drpd s) + cnt v (q s) = 0).
Proof.
  intro H. destruct (spsc_exactly_once s H) as [N _]. rewrite (spsc_accounting s H).
  apply nodup_three. exact N.
Qed.

Definition finv (s : st) : Prop := freed s = true -> q s = [] /\ chans s = 0 /\ ralive (R s) = false.

Lemma finv_step s ac s' : Inv s -> finv s -> step true s ac = Some s' -> finv s'.
Proof.
  intros Hi F H. unfold finv in *. pose proof (I_s1 _ Hi) as S1. pose proof (I_s2 _ Hi) as S2.
  go H; auto.
  all: try (intro X; destruct (F X) as (F1 & F2 & F3); repeat split; auto; try congruence).
  all: try (rewrite Eq in F1; discriminate).
  all: try (destruct S2 as [S2 _]; specialize (S2 S1); congruence).
  all: try (destruct S2 as [S2 _]; specialize (S2 H0); congruence).
  all: try (exfalso; match goal with A : salive _ = true, B : salive _ = true -> chans _ = 1 |- _ => specialize (B A); congruence end).
  all: try (intros _; repeat split; auto; congruence).
Qed.

Lemma finv_reach s : Reach true s -> finv s.
Proof.
  induction 1 as [|s a s' Hr IH Hs]; [intro X; discriminate|].
  eapply finv_step; eauto. apply inv_reach; auto.
Qed.

Theorem spsc_freed_received_xor_dropped s v : Reach true s -> freed s = true ->
  q s = [] /\ sent s = rcvd s ++ drpd s /\
  (In v (sent s) -> (cnt v (rcvd s) = 1 /\ cnt v (drpd s) = 0) \/ (cnt v (rcvd s) = 0 /\ cnt v (drpd s) = 1)).
Proof.
  intros H F. destruct (finv_reach s H F) as (Q & _ & _).
  pose proof (spsc_accounting s H) as A. rewrite Q, app_nil_r in A.
  split; [exact Q|]. split; [exact A|]. intro I.
  destruct (spsc_received_xor_dropped s v H) as [X _]. specialize (X I). rewrite Q in X. cbn in X. lia.
Qed.

Theorem spsc_drop_sites f s ac s' : step f s ac = Some s' ->
  drpd s' = drpd s \/
  (ac = RStep /\ rp (R s) = RPd1 /\ exists v, q s = v :: q s' /\ drpd s' = drpd s ++ [v]) \/
  (ac = Free /\ drpd s' = drpd s ++ q s /\ q s' = [] /\ freed s' = true).
Proof.
  intro H. step_cases H; unf; prj; auto.
  all: try (right; left; repeat split; auto; eexists; split; eauto; fail).
  all: right; right; auto.
Qed.

Theorem spsc_no_drop_while_receiver_alive s : Reach true s -> ralive (R s) = true -> rp (R s) <> RPd1 -> drpd s = [].
Proof. intros H. exact (I_drpd _ (inv_reach _ H)). Qed.

Theorem spsc_port_drop_returns_drained s s' : Reach true s -> step true s RStep = Some s' ->
  rp (R s) = RPd1 -> ralive (R s') = false -> q s' = [] /\ sent s' = rcvd s' ++ drpd s' /\ pdrop s' = true.
Proof.
  intros Hr H P A.
  assert (Hr' : Reach true s') by (eapply RS; eauto).
  pose proof (spsc_accounting s' Hr') as Acc. pose proof (spsc_port_dropped_flag s' Hr' A) as Fl.
  pose proof (I_alive _ (inv_reach _ Hr)) as X.
  unfold step in H. rewrite P in H. destruct (q s) eqn:Eq; inversion H; subst; unf; prj.
  - cbn [q] in Acc. rewrite app_nil_r in Acc. auto.
  - rewrite A in X. specialize (X eq_refl). congruence.
Qed.

Theorem spsc_freed_is_final s ac s' : Reach true s -> freed s = true -> step true s ac = Some s' ->
  sent s' = sent s /\ rcvd s' = rcvd s /\ drpd s' = drpd s /\ q s' = [] /\ freed s' = true.
Proof.
  intros Hr F H. pose proof (inv_reach _ Hr) as Hi. destruct (finv_reach s Hr F) as (Q & C & A).
  pose proof (I_s1 _ Hi) as S1. pose proof (I_s2 _ Hi) as S2.
  go H; auto; try (rewrite Eq in Q; discriminate); try congruence.
  all: try (destruct S2 as [S2 _]; specialize (S2 S1); congruence).
  all: try (exfalso; match goal with A : salive _ = true, B : salive _ = true -> chans _ = 1 |- _ => specialize (B A); congruence end).
Qed.

Definition sch_late_push : list action :=
  [Send; SStep; DropPort; RStep; RStep; SStep; SStep; DropChan; SStep; SStep].
Example late_push_left_in_queue :
  let s := run true init sch_late_push in
  Reach true s /\ ralive (R s) = false /\ sres (Sn s) = true /\ q s = [0] /\ drpd s = [] /\ chans s = 0 /\ freed s = false.
Proof. split; [apply reach_run; constructor | vm_compute; auto 10]. Qed.
Example late_push_dropped_at_free :
  let s := run true init (sch_late_push ++ [Free]) in
  Reach true s /\ freed s = true /\ q s = [] /\ rcvd s = [] /\ drpd s = [0] /\ sent s = [0].
Proof. split; [apply reach_run; constructor | vm_compute; auto 10]. Qed.
