(* C09 on ChanMpscModel (may::sync::mpsc, one Receiver) through the cancel-bit overlay of Base/CancelOverlay.v.
   The model's environment action `Fire RC` is "cancel() hits the suspended coroutine receiver" (enabled for a receiver
   that called recv from a coroutine: [rco]); `Fire RT` is the timer.  The overlay adds the cancel bit of the receiver
   (actor 0): `Fire RC` is a pure cancel delivery.

   (iii) fire_rc_needs_bit (overlay guard) and - proved as an invariant of the overlay - canceled_result_needs_bit: the
         receiver's call returns `Canceled` (the cancel panic of Receiver::recv) only if its bit is set
   (i)   cancelled_receiver_not_parked
   (ii)  nothing is lost or duplicated by a cancelled receive: the accounting identity sent = rcvd ++ drpd ++ q and
         exactly-once hold in every overlay state; a value whose send raced with the cancel stays in the queue for the next
         recv (cancel_leaves_queue_untouched). *)
From Coq Require Import List Arith Bool Lia.
Import ListNotations.
Require Import MayV.Base.CancelOverlay MayV.Sync.ChanMpscModel MayV.Sync.ChanMpscInv MayV.Sync.ChanMpscThm.

Definition rcv_actor : nat := 0.
Definition ch_hits (ac : action) : hit := match ac with Fire RC => MustHit rcv_actor | _ => NoHit end.
Definition all_co (_ : nat) : bool := true.

Notation cost := (ost st).
Definition costep := CancelOverlay.ostep st action step ch_hits all_co.
Definition COReach := OReach st action step init ch_hits all_co.

Lemma greach_reach s : GReach st action step init s <-> Reach s.
Proof. split; induction 1; [constructor | econstructor; eauto | constructor | econstructor; eauto]. Qed.
Theorem coreach_reach os : COReach os -> Reach (base os).
Proof. intro R. apply greach_reach. exact (oreach_base _ _ _ _ _ _ os R). Qed.
Theorem reach_coreach s : Reach s -> exists c l, COReach {| base := s; cbit := c; clog := l |}.
Proof. intro R. apply greach_lift; [reflexivity | apply greach_reach; exact R]. Qed.

(* ---- (iii) no spurious cancel ---- *)
Theorem fire_rc_needs_bit os k os' : COReach os -> costep os (OAct (Fire RC) k) = Some os' ->
  cbit os rcv_actor = true /\ In rcv_actor (clog os) /\ rp (R (base os)) = RWait /\ rco (R (base os)) = true.
Proof.
  intros Rr H. destruct (pure_delivery_needs_bit _ _ _ _ _ _ _ _ _ rcv_actor H eq_refl) as [-> B].
  destruct (delivery_needs_bit _ _ _ _ _ _ _ _ rcv_actor H eq_refl) as [_ E].
  split; [exact B|]. split; [apply (bit_iff_cancel_called _ _ _ _ _ _ os Rr); exact B|].
  unfold step in E. destruct (rp (R (base os))); try discriminate. destruct (rco (R (base os))); [auto | discriminate].
Qed.

(* overlay invariant: a resume reason `cancelled` and a `Canceled` result exist only with the bit set *)
Definition cinv (os : cost) : Prop :=
  (forall b, reason (Bk (base os) b) = Some RC -> cbit os rcv_actor = true) /\
  (rres (R (base os)) = RCancel -> cbit os rcv_actor = true) /\
  rdata (R (base os)) <> RCancel.

Lemma cinv_step os oa os' : cinv os -> costep os oa = Some os' -> cinv os'.
Proof.
  intros (I1 & I2 & I3) H. destruct oa as [a|ac k]; cbn in H.
  - injection H as <-. split; [|split]; cbn; try exact I3; intros; unfold updb; destruct (Nat.eqb rcv_actor a); auto; eauto.
  - destruct (allowed action ch_hits (cbit os) ac k) eqn:Al; [|discriminate].
    destruct (step (base os) ac) as [s'|] eqn:E; [|discriminate]. injection H as <-. unfold cinv. cbn [base cbit].
    set (s := base os) in *.
    assert (Fb : ac = Fire RC -> cbit os rcv_actor = true).
    { intros ->. unfold allowed in Al. cbn in Al. destruct k; [exact Al | discriminate]. }
    split; [|split].
    + intros b. specialize (I1 b). revert I1 I2 Fb. clear Al.
      step_cases E; unf; prj; intros I1 I2 Fb; try exact I1.
      all: unfold b_fire, b_tok, b_park, b_unpark, fresh; upd_tac; prj; cbn [reason]; try exact I1; try discriminate.
      all: try (intros _; apply Fb; reflexivity).
      all: repeat match goal with
           | |- context [if ?c then _ else _] => destruct c eqn:?
           | |- context [match reason ?k with _ => _ end] => destruct (reason k) eqn:?
           end; try discriminate; try exact I1; subst; auto; try congruence.
      all: try (intros R1; apply (I1 b); congruence).
      all: try (intros R1; apply Fb; congruence).
    + revert I1 I2 I3 Fb. clear Al.
      step_cases E; unf; prj; intros I1 I2 I3 Fb; try exact I2; cbn [rres]; try discriminate.
      all: repeat match goal with
           | |- context [match rc ?x with _ => _ end] => destruct (rc x) eqn:?
           | |- context [match rapi ?x with _ => _ end] => destruct (rapi x) eqn:?
           | |- context [if ?c then _ else _] => destruct c eqn:?
           end; cbn [rres]; try discriminate; try exact I2.
      all: try (intros _; eapply I1; eassumption).
      all: try (intro X; contradiction).
    + revert I3. clear Al.
      step_cases E; unf; prj; intros I3; try exact I3; cbn [rdata]; try discriminate.
      all: repeat match goal with
           | |- context [match rc ?x with _ => _ end] => destruct (rc x) eqn:?
           | |- context [match rapi ?x with _ => _ end] => destruct (rapi x) eqn:?
           | |- context [if ?c then _ else _] => destruct c eqn:?
           end; cbn [rdata]; try discriminate; try exact I3.
Qed.

Theorem cinv_reach os : COReach os -> cinv os.
Proof.
  induction 1 as [|os oa os' Rr IH H]; [split; [|split]; cbn; intros; discriminate|].
  eapply cinv_step; eauto.
Qed.

(* the receiver's call ends with Canceled only if cancel() was called on it *)
Theorem canceled_result_needs_bit os : COReach os -> rres (R (base os)) = RCancel ->
  cbit os rcv_actor = true /\ In rcv_actor (clog os).
Proof.
  intros Rr E. destruct (cinv_reach os Rr) as (_ & I2 & _). split; [apply I2; exact E|].
  apply (bit_iff_cancel_called _ _ _ _ _ _ os Rr). apply I2. exact E.
Qed.

(* ---- (i) stop ---- *)
Definition OQuiescent (os : cost) : Prop :=
  step (base os) RStep = None /\ (forall a, step (base os) (SStep a) = None) /\ costep os (OAct (Fire RC) true) = None.

Theorem cancelled_receiver_not_parked os : OQuiescent os -> cbit os rcv_actor = true -> rco (R (base os)) = true ->
  rp (R (base os)) <> RWait.
Proof.
  intros (_ & _ & Q) B C E. unfold costep, CancelOverlay.ostep, allowed in Q. cbn in Q. rewrite B in Q.
  unfold step in Q. rewrite E, C in Q. discriminate.
Qed.

(* ---- (ii) nothing is corrupted ---- *)
(* the delivery and the cancelled return touch neither the queue nor the logs: a message whose send raced with the cancel
   stays in the queue for the next receive *)
Theorem cancel_leaves_queue_untouched s s1 s2 : step s (Fire RC) = Some s1 -> step s1 RStep = Some s2 ->
  reason (Bk s1 (rb (R s1))) = Some RC ->
  q s2 = q s /\ rcvd s2 = rcvd s /\ drpd s2 = drpd s /\ sent s2 = sent s /\ chans s2 = chans s /\
  rp (R s2) = RIdle /\ rres (R s2) = RCancel /\ ralive (R s2) = ralive (R s).
Proof.
  intros H1 H2 Rn. unfold step in H1. destruct (rp (R s)) eqn:E; try discriminate.
  destruct (rco (R s)); [|discriminate]. injection H1 as <-.
  unfold step in H2. cbn in H2, Rn. rewrite E in H2. rewrite Rn in H2. injection H2 as <-. cbn. auto 10.
Qed.

Theorem channel_intact_after_cancel os : COReach os ->
  let s := base os in sent s = rcvd s ++ drpd s ++ q s /\ NoDup (sent s).
Proof. intros Rr s. pose proof (coreach_reach os Rr) as Rb. split; [apply mpsc_accounting | apply mpsc_sent_distinct]; exact Rb. Qed.

(* ---- non-vacuity: a send races with the cancel of the parked receiver ---- *)
Definition osch : list (oact action) :=
  map (fun a => OAct a false) [Recv true; RStep; RStep; RStep; RStep; Send 0; SStep 0; SStep 0] ++
  [OCancel rcv_actor; OAct (Fire RC) true] ++
  map (fun a => OAct a false) [SStep 0; SStep 0; RStep].
Example cancelled_receiver_with_pending_message :
  exists os, orun st action step ch_hits all_co (oinit st init) osch = Some os /\ COReach os /\
    rres (R (base os)) = RCancel /\ rp (R (base os)) = RIdle /\ q (base os) = [(0, 0)] /\ rcvd (base os) = [] /\
    exists os', orun st action step ch_hits all_co os (map (fun a => OAct a false) [TryRecv; RStep]) = Some os' /\
                rres (R (base os')) = ROk (0, 0) /\ rcvd (base os') = [(0, 0)] /\ q (base os') = [].
Proof.
  destruct (orun st action step ch_hits all_co (oinit st init) osch) as [os|] eqn:E; [|vm_compute in E; discriminate].
  exists os. split; [reflexivity|]. split; [eapply orun_reach; [constructor | exact E]|].
  vm_compute in E. injection E as <-. cbn. repeat split; try reflexivity.
  eexists. split; [vm_compute; reflexivity|]. cbn. repeat split; reflexivity.
Qed.
