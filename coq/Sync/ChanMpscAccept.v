(* Trace acceptor for the mpsc channel model: one recorded event `[code; actor; obj; val]` of the real
   may::sync::mpsc (over the real may_queue::mpsc queue, Blocker, Park / ThreadPark) is matched against
   the transitions of ChanMpscModel it stands for; the model must be at the corresponding control
   point and must compute the value the code observed.  Codes are bound to source sites in
   Sync/chan_mpsc_sites.json.

   API level (logged by the scenario; obj / val):
     1 chan.new                2 send.call(h, seq)     3 send.ret(h, ok)      4 clone.call(h, nh)   5 clone.ret(h, nh)
     6 dropc.call(h)           7 dropc.ret(h)          8 try.call             9 try.ret(k, v)
    10 recv.call(co)          11 recv.ret(k, v)       12 rt.call(co, dur)    13 rt.ret(k, v)
    14 dropp.call             15 dropp.ret            16 tpark.enter(pk)     17 tpark.leave(pk, woken)   18 tpark.unpark(pk)
     19 clk(now_ns)
     (k: 0 Ok, 1 Empty, 2 Disconnected, 4 Timeout, 5 left by the Cancel panic; v = h * 1000 + seq)
   src/sync/mpsc.rs:
    20 send port_dropped.load  21 send to_wake.take     22 recv to_wake.store   23 recv to_wake.clear
    24 try_recv channels.load  25 clone_chan fetch_add  26 drop_chan fetch_sub  27 drop_chan to_wake.take
    28 drop_port port_dropped.store   29 InnerQueue::drop channels.load (= Free)   30 InnerQueue::drop to_wake.take
   may_queue::mpsc linearisation sites (the queue runs atomically in these runs: DESIGN 3.2):
    31 Queue::push tail.cas(ok)     32 Queue::pop head.index.store (a value was popped)     33 Queue::push_index tail.load (pop found nothing)
   src/park.rs (the token word of a coroutine's Blocker):
    40 check_park state.load   41 check_park state.store   42 check_park state.swap   43 unpark_impl state.swap
    44 Park::ignore_cancel check_cancel.store (Blocker::new of a coroutine receiver: to_wake.store follows)

   The runtime itself uses may_queue::mpsc queues, Parks and ThreadParks (scheduler, join): events on
   objects other than the channel's, or by actors that are not inside a channel call at a matching
   control point, are not the channel's and are skipped; the channel's own objects are bound at their
   first use (queue tail / head words, the park word of each blocker) and compared afterwards.

   Besides the model state the acceptor keeps: which actor runs the receiver call in progress, which
   handle each actor is using, the phase inside Blocker::park (as in SemAccept: the model has one
   transition for the token check and one for the resumption, the code has two check_park calls or
   tpark.enter / tpark.leave), and the object bindings. *)
From Coq Require Import List ZArith Bool Arith Lia.
Import ListNotations.
Require Import MayV.Sync.ChanMpscModel.
Open Scope Z_scope.

Record aux := { started : bool;
                ract : nat;           (* actor of the receiver call in progress, 0 = none *)
                hof : nat -> nat;     (* actor -> handle + 1 of the sender call in progress, 0 = none *)
                ph : nat;             (* 0 outside park; 1 thread suspended; 8 thread took the token at enter;
                                         5 check_park#1 load saw false; 3 check_park#1 load saw true (store pending);
                                         2 coroutine suspended; 6 / 7 check_park#2 load saw true / false *)
                opk : nat -> Z;       (* blocker -> its park object *)
                qt : Z; qh : Z;       (* the channel queue's tail word / head.index word *)
                nb : nat }.           (* 1: the receiver created its new blocker, to_wake.store pending; 2: the store was seen to have happened (see codes 44 / 45) *)

Definition aux0 := {| started := false; ract := O; hof := fun _ => O; ph := O; opk := fun _ => 0; qt := 0; qh := 0; nb := O |}.
Definition ast := (st * aux)%type.
Definition a_init : ast := (init, aux0).

Definition set_ract (x : aux) a := {| started := started x; ract := a; hof := hof x; ph := ph x; opk := opk x; qt := qt x; qh := qh x; nb := nb x |}.
Definition set_hof (x : aux) a h := {| started := started x; ract := ract x; hof := upd (hof x) a h; ph := ph x; opk := opk x; qt := qt x; qh := qh x; nb := nb x |}.
Definition set_ph (x : aux) p := {| started := started x; ract := ract x; hof := hof x; ph := p; opk := opk x; qt := qt x; qh := qh x; nb := nb x |}.
Definition set_opk (x : aux) m := {| started := started x; ract := ract x; hof := hof x; ph := ph x; opk := m; qt := qt x; qh := qh x; nb := nb x |}.
Definition set_qt (x : aux) o := {| started := started x; ract := ract x; hof := hof x; ph := ph x; opk := opk x; qt := o; qh := qh x; nb := nb x |}.
Definition set_nb (x : aux) n := {| started := started x; ract := ract x; hof := hof x; ph := ph x; opk := opk x; qt := qt x; qh := qh x; nb := n |}.
Definition set_qh (x : aux) o := {| started := started x; ract := ract x; hof := hof x; ph := ph x; opk := opk x; qt := qt x; qh := o; nb := nb x |}.

Definition rpc_eqb (x y : rpc) : bool :=
  match x, y with
  | RIdle, RIdle | RStore, RStore | RPop1, RPop1 | RChk, RChk | RPop2, RPop2 | RClear, RClear | RPark, RPark
  | RWait, RWait | RDeadline, RDeadline | RPd0, RPd0 | RPd1, RPd1 => true
  | _, _ => false end.
Definition spc_eqb (x y : spc) : bool :=
  match x, y with
  | SIdle, SIdle | SChk, SChk | SPush, SPush | STake, STake | SUnpark, SUnpark | SAdd, SAdd | SSub, SSub => true
  | _, _ => false end.
Definition zb (v : Z) : bool := negb (Z.eqb v 0).
Definition isnone {X} (o : option X) : bool := match o with None => true | Some _ => false end.
Definition isnil {X} (l : list X) : bool := match l with [] => true | _ => false end.

(* the result the scenario saw: k, v *)
Definition res_is (r : res) (k v : Z) : bool :=
  match r with
  | ROk (h, i) => Z.eqb k 0 && Z.eqb v (Z.of_nat h * 1000 + Z.of_nat i)
  | REmpty => Z.eqb k 1
  | RDisc => Z.eqb k 2
  | RTimeout => Z.eqb k 4
  | _ => false end.

Definition bind_obj (m : nat -> Z) (b : nat) (o : Z) : option (nat -> Z) :=
  if Z.eqb (m b) 0 then Some (upd m b o) else if Z.eqb (m b) o then Some m else None.

Record plan := { acts : list action; post : st -> bool; nxt : st -> aux }.
Fixpoint steps (s : st) (l : list action) : option st :=
  match l with
  | [] => Some s
  | a :: l' => match step s a with Some s' => steps s' l' | None => None end
  end.
Definition guard (b : bool) (p : option plan) : option plan := if b then p else None.
Definition ok (l : list action) (x : aux) : option plan := Some {| acts := l; post := fun _ => true; nxt := fun _ => x |}.
Definition skip (x : aux) : option plan := ok [] x.

Definition at_r (s : st) p := rpc_eqb (rp (R s)) p.
Definition at_s (s : st) h p := spc_eqb (sp (Sd s h)) p.
Definition in_pop (s : st) := at_r s RPop1 || at_r s RPop2 || at_r s RPd1.
(* the receiver call in progress is run by actor a *)
Definition is_r (x : aux) (a : nat) := negb (Nat.eqb a 0) && Nat.eqb (ract x) a.
(* resumption of the suspended receiver: the reason is in the model, or it is the timer *)
Definition resume (s : st) : list action :=
  match reason (Bk s (rb (R s))) with Some _ => [RStep] | None => [Fire RT; RStep] end.

(* recv.ret / rt.ret with k = 5: the scenario saw the Cancel panic unwind out of the call.  The only cancellation
   point of the call is the yield of Park::park_timeout, after check_park found no token (ph = 2: the model is at
   RWait): the cancel is delivered (Fire RC) and the resumption ends the call (RCancel). *)
Definition cancelled (s : st) (x : aux) (a : nat) : option plan :=
  guard (is_r x a && Nat.eqb (ph x) 2 && at_r s RWait && rco (R s))
    (Some {| acts := [Fire RC; RStep];
             post := fun s' => at_r s' RIdle && match rres (R s') with RCancel => true | _ => false end;
             nxt := fun _ => set_ph (set_ract x O) 0%nat |}).

Definition plan_ev (s : st) (x : aux) (e : list Z) : option plan :=
  match e with
  | [code; za; o; v] =>
    let a := Z.to_nat za in
    let h := pred (hof x a) in            (* the handle actor a is using (meaningful when hof x a <> 0) *)
    let ins := negb (Nat.eqb (hof x a) 0) in
    let b := rb (R s) in
    match code with
    (* ---- API level ---- *)
    | 2 => let hh := Z.to_nat o in
           guard (negb ins && negb (is_r x a) && Nat.eqb (sn (Sd s hh)) (Z.to_nat v)) (ok [Send hh] (set_hof x a (S hh)))
    | 3 => guard (ins && Nat.eqb h (Z.to_nat o) && at_s s h SIdle && Bool.eqb (sres (Sd s h)) (zb v)) (skip (set_hof x a O))
    | 4 => let hh := Z.to_nat o in guard (negb ins && negb (is_r x a)) (ok [Clone hh (Z.to_nat v)] (set_hof x a (S hh)))
    | 5 => guard (ins && Nat.eqb h (Z.to_nat o) && at_s s h SIdle) (skip (set_hof x a O))
    | 6 => let hh := Z.to_nat o in guard (negb ins && negb (is_r x a)) (ok [DropChan hh] (set_hof x a (S hh)))
    | 7 => guard (ins && Nat.eqb h (Z.to_nat o) && at_s s h SIdle) (skip (set_hof x a O))
    | 8 => guard (negb ins && Nat.eqb (ract x) 0 && Nat.eqb (ph x) 0) (ok [TryRecv] (set_ract x a))
    | 10 => guard (negb ins && Nat.eqb (ract x) 0 && Nat.eqb (ph x) 0) (ok [Recv (zb o)] (set_ract x a))
    | 12 => guard (negb ins && Nat.eqb (ract x) 0 && Nat.eqb (ph x) 0) (ok [RecvTimeout (zb o)] (set_ract x a))
    | 9 => guard (is_r x a && Nat.eqb (ph x) 0 && at_r s RIdle && res_is (rres (R s)) o v) (skip (set_ract x O))
    | 11 => if Z.eqb o 5 then cancelled s x a
            else guard (is_r x a && Nat.eqb (ph x) 0 && at_r s RIdle && res_is (rres (R s)) o v) (skip (set_ract x O))
    | 13 => if Z.eqb o 5 then cancelled s x a else
            guard (is_r x a && Nat.eqb (ph x) 0)
              (if at_r s RDeadline
               then guard (Z.eqb o 4) (Some {| acts := [RDl true]; post := fun _ => true; nxt := fun _ => set_ract x O |})
               else guard (at_r s RIdle && res_is (rres (R s)) o v) (skip (set_ract x O)))
    | 19 => skip x
    | 14 => guard (negb ins && Nat.eqb (ract x) 0 && Nat.eqb (ph x) 0) (ok [DropPort] (set_ract x a))
    | 15 => guard (is_r x a && at_r s RIdle && negb (ralive (R s))) (skip (set_ract x O))
    (* ---- ThreadPark (virtual): token check at enter, resumption at leave ---- *)
    | 16 => if is_r x a && at_r s RPark && Nat.eqb (ph x) 0
            then match bind_obj (opk x) b o with
                 | Some m => Some {| acts := [RStep]; post := fun _ => true;
                                     nxt := fun s' => set_ph (set_opk x m) (if at_r s' RWait then 1%nat else 8%nat) |}
                 | None => None end
            else guard (negb (is_r x a) && negb ins) (skip x)      (* somebody else's ThreadPark (join) *)
    | 17 => if is_r x a && (Nat.eqb (ph x) 8 || Nat.eqb (ph x) 1)
            then guard (Z.eqb (opk x b) o)
                   (if Nat.eqb (ph x) 8 then guard (zb v) (skip (set_ph x 0%nat))
                    else guard (at_r s RWait)
                           (if zb v
                            then guard (negb (isnone (reason (Bk s b)))) (ok [RStep] (set_ph x 0%nat))
                            else ok [Fire RT; RStep] (set_ph x 0%nat)))
            else guard (negb (is_r x a) && negb ins) (skip x)
    | 18 => if ins && at_s s h SUnpark
            then match bind_obj (opk x) (sw (Sd s h)) o with
                 | Some m => ok [SStep h] (set_opk x m)
                 | None => None end
            else guard (negb ins && negb (is_r x a)) (skip x)
    (* ---- src/sync/mpsc.rs ---- *)
    | 20 => guard (ins && at_s s h SChk && Bool.eqb (pdrop s) (zb v)) (ok [SStep h] x)
    | 21 | 27 => guard (ins && at_s s h STake && Bool.eqb (negb (isnone (slot s))) (zb v)) (ok [SStep h] x)
    | 22 => guard (is_r x a && Nat.eqb (ph x) 0)
              (if Nat.eqb (nb x) 2 then guard (at_r s RPop1) (skip (set_nb x 0%nat))
               else if at_r s RDeadline then ok [RDl false; RStep] (set_nb x 0%nat) else guard (at_r s RStore) (ok [RStep] (set_nb x 0%nat)))
    (* AtomicOption::store swaps the new blocker in and then drops the old one; when that is the last
       reference to a stale coroutine blocker its Park::drop may spin (and yield) until the kernel half
       has finished, so the hook's record of the store can come late: after a sender's take that already
       saw the new blocker.  Blocker::new (44) announces the store (nb = 1); from then on a successful
       take by a sender is tried in both orders (see `branch` below); nb = 2: the store has been
       performed ahead of its record. *)
    | 44 => if is_r x a && Nat.eqb (ph x) 0 && (at_r s RStore || at_r s RDeadline)
            then (if at_r s RDeadline then ok [RDl false] (set_nb x 1%nat) else skip (set_nb x 1%nat))
            else skip x
    | 23 => guard (is_r x a && at_r s RClear) (ok [RStep] x)
    | 24 => guard (is_r x a && at_r s RChk && Nat.eqb (ph x) 0 && Z.eqb (Z.of_nat (chans s)) v) (ok [RStep] x)
    | 25 => guard (ins && at_s s h SAdd && Z.eqb (Z.of_nat (chans s)) v) (ok [SStep h] x)
    | 26 => guard (ins && at_s s h SSub && Z.eqb (Z.of_nat (chans s)) v) (ok [SStep h] x)
    | 28 => guard (is_r x a && at_r s RPd0) (ok [RStep] x)
    | 29 => guard (Z.eqb v 0) (ok [Free] x)
    | 30 => guard (freed s && Z.eqb v 0 && isnone (slot s)) (skip x)
    (* ---- the channel's queue ---- *)
    | 31 => if ins && at_s s h SPush && (Z.eqb (qt x) 0 || Z.eqb (qt x) o)
            then guard (zb v) (ok [SStep h] (set_qt x o))
            else guard (negb (Z.eqb (qt x) o)) (skip x)
    | 32 => if freed s then skip x
            else if is_r x a && in_pop s && Nat.eqb (ph x) 0 && (Z.eqb (qh x) 0 || Z.eqb (qh x) o)
            then guard (negb (isnil (q s))) (ok [RStep] (set_qh x o))
            else guard (negb (Z.eqb (qh x) o)) (skip x)
    | 33 => if freed s then skip x
            else if is_r x a && in_pop s && Nat.eqb (ph x) 0 && (Z.eqb (qt x) 0 || Z.eqb (qt x) o)
            then guard (isnil (q s)) (ok [RStep] (set_qt x o))
            else guard (negb (Z.eqb (qt x) o)) (skip x)
    (* ---- Park: the token word of the receiver's blocker ---- *)
    | 40 => if is_r x a && (at_r s RPark || at_r s RWait)
            then match bind_obj (opk x) b o with
                 | None => None
                 | Some m =>
                   guard (Bool.eqb (tok (Bk s b)) (zb v))
                     (if Nat.eqb (ph x) 0
                      then guard (at_r s RPark)
                             (if zb v then Some {| acts := [RStep]; post := fun s' => at_r s' RPop1; nxt := fun _ => set_ph (set_opk x m) 3%nat |}
                              else skip (set_ph (set_opk x m) 5%nat))
                      else guard (Nat.eqb (ph x) 2 && at_r s RWait) (skip (set_ph x (if zb v then 6%nat else 7%nat))))
                 end
            else guard (negb (is_r x a)) (skip x)
    | 41 => if is_r x a
            then guard (negb (zb v) && Z.eqb (opk x b) o)
                   (if Nat.eqb (ph x) 3 then skip (set_ph x 0%nat)
                    else guard (Nat.eqb (ph x) 6 && at_r s RWait) (ok (resume s) (set_ph x 0%nat)))
            else skip x
    | 42 => if is_r x a
            then guard (Z.eqb (opk x b) o && Bool.eqb (tok (Bk s b)) (zb v))
                   (if Nat.eqb (ph x) 5
                    then guard (at_r s RPark)
                           (Some {| acts := [RStep]; post := fun s' => if zb v then at_r s' RPop1 else at_r s' RWait;
                                    nxt := fun _ => set_ph x (if zb v then 0%nat else 2%nat) |})
                    else guard (Nat.eqb (ph x) 7 && at_r s RWait) (ok (resume s) (set_ph x 0%nat)))
            else skip x
    | 43 => if ins && at_s s h SUnpark
            then match bind_obj (opk x) (sw (Sd s h)) o with
                 | Some m => ok [SStep h] (set_opk x m)
                 | None => None end
            else guard (negb ins) (skip x)
    | _ => None
    end
  | _ => None
  end.

Definition accept_ev (sx : ast) (e : list Z) : option ast :=
  let (s, x) := sx in
  if started x
  then match plan_ev s x e with
       | Some p => match steps s (acts p) with
                   | Some s' => if post p s' then Some (s', nxt p s') else None
                   | None => None end
       | None => None end
  else match e with
       | [1; _; _; _] => Some (s, {| started := true; ract := ract x; hof := hof x; ph := ph x; opk := opk x; qt := qt x; qh := qh x; nb := nb x |})
       | _ => Some sx end.      (* the runtime starting up *)

(* two candidate orders for a sender's successful take while the receiver's store is pending *)
Definition branch (sx : ast) (e : list Z) : list ast :=
  let (s, x) := sx in
  match e with
  | [code; _; _; v] =>
      if (Z.eqb code 21 || Z.eqb code 27) && zb v && Nat.eqb (nb x) 1 && at_r s RStore
      then match step s RStep with Some s' => [sx; (s', set_nb x 2%nat)] | None => [sx] end
      else [sx]
  | _ => [sx]
  end.
Definition accept1 (e : list Z) (sx : ast) : list ast := match accept_ev sx e with Some sx' => [sx'] | None => [] end.
Definition accept_evm (l : list ast) (e : list Z) : option (list ast) :=
  match firstn 8 (flat_map (accept1 e) (flat_map (fun sx => branch sx e) l)) with
  | [] => None
  | l' => Some l'
  end.
Fixpoint accept_allm (l : list ast) (tr : list (list Z)) : option (list ast) :=
  match tr with
  | [] => Some l
  | e :: tr' => match accept_evm l e with Some l' => accept_allm l' tr' | None => None end
  end.
Definition m_initm : list ast := [a_init].

Fixpoint accept_all (sx : ast) (tr : list (list Z)) : option ast :=
  match tr with
  | [] => Some sx
  | e :: l => match accept_ev sx e with Some sx' => accept_all sx' l | None => None end
  end.

(* ghost monitor of the final state: the accounting identity (a theorem for every reachable state) *)
Fixpoint vals_eqb (l1 l2 : list val) : bool :=
  match l1, l2 with
  | [], [] => true
  | (a, b) :: t1, (c, d) :: t2 => Nat.eqb a c && Nat.eqb b d && vals_eqb t1 t2
  | _, _ => false end.
Definition monitors_ok (sx : ast) : bool :=
  let s := fst sx in vals_eqb (sent s) (rcvd s ++ drpd s ++ q s).

Definition monitors_okm (l : list ast) : bool := existsb monitors_ok l.

(* ------------------------------------------------------------------------------------------ *)
(* soundness: every state along an accepted trace is a reachable state of the model            *)
Lemma steps_reach l : forall s s', Reach s -> steps s l = Some s' -> Reach s'.
Proof.
  induction l as [|a l IH]; cbn [steps]; intros s s' Hr H; [inversion H; subst; exact Hr|].
  destruct (step s a) as [s1|] eqn:E; [|discriminate]. eapply IH; [eapply RS; eauto | exact H].
Qed.

Lemma accept_ev_ok sx e sx' : Reach (fst sx) -> accept_ev sx e = Some sx' -> Reach (fst sx').
Proof.
  intros Hr H. destruct sx as [s x]. unfold accept_ev in H. cbn [fst] in Hr.
  destruct (started x).
  - destruct (plan_ev s x e) as [p|]; [|discriminate].
    destruct (steps s (acts p)) as [s1|] eqn:E; [|discriminate].
    destruct (post p s1); [|discriminate]. inversion H; subst. cbn [fst]. eapply steps_reach; eauto.
  - repeat match type of H with
           | match ?t with _ => _ end = Some _ => destruct t eqn:?; try discriminate
           end; inversion H; subst; exact Hr.
Qed.

Theorem accept_all_reach tr : forall sx sx', Reach (fst sx) -> accept_all sx tr = Some sx' -> Reach (fst sx').
Proof.
  induction tr as [|e l IH]; cbn [accept_all]; intros sx sx' Hr H; [inversion H; subst; exact Hr|].
  destruct (accept_ev sx e) as [s1|] eqn:E; [|discriminate]. eapply IH; [eapply accept_ev_ok; eauto | exact H].
Qed.

Corollary accepted_trace_reaches tr sx : accept_all a_init tr = Some sx -> Reach (fst sx).
Proof. intro H. apply (accept_all_reach tr a_init sx); [constructor | exact H]. Qed.

(* the same for the candidate lists *)
Definition all_reach (l : list ast) : Prop := forall sx, In sx l -> Reach (fst sx).

Lemma branch_ok sx e : Reach (fst sx) -> all_reach (branch sx e).
Proof.
  intros Hr sx' I. destruct sx as [s x]. unfold branch in I.
  repeat match type of I with
  | In _ (match ?t with _ => _ end) => destruct t eqn:?
  | In _ (if ?t then _ else _) => destruct t eqn:?
  end; cbn [In] in I; intuition (subst; cbn [fst] in *; auto).
  eapply RS; eauto.
Qed.

Lemma in_firstn {X} n (l : list X) x : In x (firstn n l) -> In x l.
Proof. revert l. induction n as [|n IH]; intros [|y l]; cbn; try tauto. intros [->|I]; auto. Qed.

Lemma accept_evm_ok l e l' : all_reach l -> accept_evm l e = Some l' -> all_reach l'.
Proof.
  intros Hl H sx I. unfold accept_evm in H.
  assert (J : In sx (firstn 8 (flat_map (accept1 e) (flat_map (fun sx0 => branch sx0 e) l)))).
  { destruct (firstn 8 _); [discriminate | inversion H; subst; exact I]. }
  apply in_firstn in J. apply in_flat_map in J. destruct J as [sx1 [J1 J2]].
  apply in_flat_map in J1. destruct J1 as [sx0 [J0 J1]].
  unfold accept1 in J2. destruct (accept_ev sx1 e) as [sx2|] eqn:E; [|destruct J2].
  destruct J2 as [<-|[]]. eapply accept_ev_ok; [|exact E]. exact (branch_ok sx0 e (Hl _ J0) _ J1).
Qed.

Theorem accept_allm_reach tr : forall l l', all_reach l -> accept_allm l tr = Some l' -> all_reach l'.
Proof.
  induction tr as [|e tr IH]; cbn [accept_allm]; intros l l' Hl H; [inversion H; subst; exact Hl|].
  destruct (accept_evm l e) as [l1|] eqn:E; [|discriminate]. eapply IH; [eapply accept_evm_ok; eauto | exact H].
Qed.

Corollary accepted_trace_reachesm tr l : accept_allm m_initm tr = Some l -> forall sx, In sx l -> Reach (fst sx).
Proof.
  intro H. apply (accept_allm_reach tr m_initm l); [|exact H]. intros sx [<-|[]]. constructor.
Qed.
