(* Upper-layer model of may::sync::mpmc (src/sync/mpmc.rs).  Definitions only.

   The crossbeam SegQueue is an atomic FIFO `q` (assumed linearizable: trusted base).  The Semphore is
   an atomic counting semaphore object with blocked waiters - the contract of property C10, stated
   here as definitions:  value `sv`, FIFO `wq` of blocked waiters, per waiter a `granted` flag;
       post      : a blocked waiter, if any, is granted the permit (it leaves wq), else sv + 1
       try_wait  : sv > 0 ? (sv - 1, true) : false
       wait      : sv > 0 ? sv - 1 : join wq and block until granted
       wait_timeout : like wait; a blocked waiter may give up (`Fire r false`, the park timed out): one that was NOT
                      granted leaves wq; one that WAS granted (the unpark lost the race against the timer: park still
                      answers Timeout) gives the permit back by a post - the code's `if cur.is_unparked() { self.post() }` -
                      and leaves; both answer false
       cancel       : `Fire r true`: the park of a blocked waiter (timed or not) answers Canceled; same two cases, then the
                      Cancel panic leaves the call (RCancel).  (Only coroutine waiters can be cancelled; the model does not
                      record the kind of the caller and allows it for every blocked waiter: an over-approximation.)
       get_value : sv
   so sv > 0 implies that nobody is blocked, and a permit is never lost or duplicated.

   Section parameters select the code version:
     fix7  = true, fix7b = true    CURRENT code
     fix7  = false                 before commit 9c5b86f (F7):  a receiver that finds the queue empty with
                                   tx_ports == 0 answers Disconnected WITHOUT posting the permit again
     fix7b = false                 before commit 9949d82 (F7b): a receiver that pops a value does not look
                                   at tx_ports and does not pass the permit on
     fix7c = true                  try_recv looks again (a second sem.try_wait(), Y0b) when it found no permit and
                                   then tx_ports == 0; fix7c = false: it answers Disconnected at once (F7c)

   One transition per shared access, in program order:
     send        M0 rx_ports.load (0: Err(t)) -> M1 queue.push(t) -> M2 sem.post()
     clone_tx    MA tx_ports.fetch_add       drop_tx  MS tx_ports.fetch_sub (1: G0) ; G0 sem.get_value() (0: G1, else done) ; G1 sem.post() -> G0
     try_recv    Y0 sem.try_wait() (false: Y1 tx_ports.load -> Disconnected [fix7c: Y0b sem.try_wait() again] | Empty) -> Y2 queue.pop()
                 Some: Y3s tx_ports.load (0: Y4s sem.post()) -> Ok     [fix7b]
                 None: Y3n tx_ports.load (0: Y4n sem.post() [fix7] -> Disconnected ; else unreachable!() = RPanic)
     recv(dur)   try_recv (Empty:) W0 sem.wait()/wait_timeout(dur) -> WB blocked | Y2 ...   (Timeout when the wait gave up)
     clone_rx    XA rx_ports.fetch_add       drop_rx  X0 rx_ports.fetch_sub (1: X1 queue.pop() until None)

   Sender handles and Receiver handles are the actors (each used by one thread at a time), any number
   of both.  Payloads are tagged (sender handle, k).  Ghost (never read by the code part): sent, rlog
   (receiver, value) in pop order, drpd; hold (receivers owning an unused permit), pend (senders between
   push and post), rep (receivers between their pop and their return: they may have to post),
   dropper (the last sender while it is inside the get_value/post loop), livet / liver, rdead / sdead. *)
From Coq Require Import List Arith Bool Lia.
Import ListNotations.

Definition val := (nat * nat)%type.

Inductive rpc := YIdle | Y0 | Y1 | Y0b | W0 | WB | Y2 | Y3s | Y4s | Y3n | Y4n | XA | X0 | X1 | RPanic.
Inductive tctx := CTry | CFirst.
Inductive res := RNone | ROk (v : val) | REmpty | RDisc | RTimeout | RCancel.
Inductive spc := SIdle | M0 | M1 | M2 | MA | MS | G0 | G1.
Inductive hst := Unborn | Alive | Dead.

Record rrec := { rp : rpc; rc : tctx; rtimed : bool; rgr : bool; rv : val; rres : res; rst : hst; rdead : bool; rto : nat }.
Record srec := { sp : spc; sst : hst; sres : bool; sdead : bool; sn : nat; sto : nat }.
Record st := { q : list val; sv : nat; wq : list nat; txp : nat; rxp : nat;
               Rv : nat -> rrec; Sd : nat -> srec;
               sent : list val; rlog : list (nat * val); drpd : list val;
               hold : list nat; pend : list nat; rep : list nat; dropper : option nat;
               livet : list nat; liver : list nat; freed : bool }.

Definition upd {X} (f : nat -> X) i v := fun j => if Nat.eqb j i then v else f j.
Definition rm := remove Nat.eq_dec.
Definition is0 (n : nat) := Nat.eqb n 0.
Definition mk q' v w t x r s' se rl dr ho pe re dp lt lr fr :=
  {| q := q'; sv := v; wq := w; txp := t; rxp := x; Rv := r; Sd := s'; sent := se; rlog := rl; drpd := dr;
     hold := ho; pend := pe; rep := re; dropper := dp; livet := lt; liver := lr; freed := fr |}.

Definition r_pc (x : rrec) p := {| rp := p; rc := rc x; rtimed := rtimed x; rgr := rgr x; rv := rv x; rres := rres x; rst := rst x; rdead := rdead x; rto := rto x |}.
Definition r_ret (x : rrec) r := {| rp := YIdle; rc := rc x; rtimed := rtimed x; rgr := rgr x; rv := rv x; rres := r; rst := rst x; rdead := rdead x; rto := rto x |}.
Definition r_call (x : rrec) p c t d o := {| rp := p; rc := c; rtimed := t; rgr := false; rv := rv x; rres := RNone; rst := rst x; rdead := d; rto := o |}.
Definition r_val (x : rrec) p v := {| rp := p; rc := rc x; rtimed := rtimed x; rgr := rgr x; rv := v; rres := rres x; rst := rst x; rdead := rdead x; rto := rto x |}.
Definition r_gr (x : rrec) p g := {| rp := p; rc := rc x; rtimed := rtimed x; rgr := g; rv := rv x; rres := rres x; rst := rst x; rdead := rdead x; rto := rto x |}.
Definition r_st (x : rrec) p h := {| rp := p; rc := rc x; rtimed := rtimed x; rgr := rgr x; rv := rv x; rres := RNone; rst := h; rdead := false; rto := rto x |}.

Definition s_pc (y : srec) p := {| sp := p; sst := sst y; sres := sres y; sdead := sdead y; sn := sn y; sto := sto y |}.
Definition s_call (y : srec) p d o := {| sp := p; sst := sst y; sres := sres y; sdead := d; sn := sn y; sto := o |}.
Definition s_res (y : srec) p r := {| sp := p; sst := sst y; sres := r; sdead := sdead y; sn := sn y; sto := sto y |}.
Definition s_pushed (y : srec) := {| sp := M2; sst := sst y; sres := true; sdead := sdead y; sn := S (sn y); sto := sto y |}.
Definition s_st (y : srec) p h := {| sp := p; sst := h; sres := sres y; sdead := sdead y; sn := sn y; sto := sto y |}.

(* sem.post() on the abstract semaphore: (sv, wq, Rv, hold) afterwards *)
Definition post_sv (s : st) := match wq s with [] => S (sv s) | _ :: _ => sv s end.
Definition post_wq (s : st) := match wq s with [] => [] | _ :: w' => w' end.
Definition post_Rv (s : st) (rvm : nat -> rrec) := match wq s with [] => rvm | w :: _ => upd rvm w (r_gr (rvm w) (rp (rvm w)) true) end.
Definition post_hold (s : st) (h : list nat) := match wq s with [] => h | w :: _ => w :: h end.

Inductive action :=
  | TryRecv (r : nat) | Recv (r : nat) (timed : bool) | CloneRx (r r2 : nat) | DropRx (r : nat) | RStep (r : nat) | Fire (r : nat) (cancel : bool)
  | Send (a : nat) | CloneTx (a b : nat) | DropTx (a : nat) | SStep (a : nat)
  | Free.

Definition r_ready (x : rrec) : bool := match rp x, rst x with YIdle, Alive => true | _, _ => false end.
Definition s_ready (y : srec) : bool := match sp y, sst y with SIdle, Alive => true | _, _ => false end.

Section M.
Variables fix7 fix7b fix7c : bool.

Definition step (s : st) (ac : action) : option st :=
  match ac with
  | TryRecv r => let x := Rv s r in
      if r_ready x
      then Some (mk (q s) (sv s) (wq s) (txp s) (rxp s) (upd (Rv s) r (r_call x Y0 CTry false (is0 (txp s)) (rto x))) (Sd s) (sent s) (rlog s) (drpd s) (hold s) (pend s) (rep s) (dropper s) (livet s) (liver s) (freed s))
      else None
  | Recv r timed => let x := Rv s r in
      if r_ready x
      then Some (mk (q s) (sv s) (wq s) (txp s) (rxp s) (upd (Rv s) r (r_call x Y0 CFirst timed (is0 (txp s)) (rto x))) (Sd s) (sent s) (rlog s) (drpd s) (hold s) (pend s) (rep s) (dropper s) (livet s) (liver s) (freed s))
      else None
  | CloneRx r r2 => let x := Rv s r in
      if r_ready x && match rst (Rv s r2) with Unborn => true | _ => false end
      then Some (mk (q s) (sv s) (wq s) (txp s) (rxp s) (upd (Rv s) r (r_call x XA CTry false false r2)) (Sd s) (sent s) (rlog s) (drpd s) (hold s) (pend s) (rep s) (dropper s) (livet s) (liver s) (freed s))
      else None
  | DropRx r => let x := Rv s r in
      if r_ready x
      then Some (mk (q s) (sv s) (wq s) (txp s) (rxp s) (upd (Rv s) r (r_call x X0 CTry false false (rto x))) (Sd s) (sent s) (rlog s) (drpd s) (hold s) (pend s) (rep s) (dropper s) (livet s) (liver s) (freed s))
      else None
  | Fire r c => let x := Rv s r in
      match rp x with
      | WB => if c || rtimed x
              then (if rgr x
                    then (* the permit had been handed over: the waiter gives it back (post) before it leaves *)
                         let rvm := upd (Rv s) r (r_ret x (if c then RCancel else RTimeout)) in
                         Some (mk (q s) (post_sv s) (post_wq s) (txp s) (rxp s) (post_Rv s rvm) (Sd s) (sent s) (rlog s) (drpd s) (post_hold s (rm r (hold s))) (pend s) (rep s) (dropper s) (livet s) (liver s) (freed s))
                    else Some (mk (q s) (sv s) (rm r (wq s)) (txp s) (rxp s) (upd (Rv s) r (r_ret x (if c then RCancel else RTimeout))) (Sd s) (sent s) (rlog s) (drpd s) (hold s) (pend s) (rep s) (dropper s) (livet s) (liver s) (freed s)))
              else None
      | _ => None end
  | RStep r => let x := Rv s r in
      match rp x with
      | YIdle | RPanic => None
      | Y0 => match sv s with
          | S n => Some (mk (q s) n (wq s) (txp s) (rxp s) (upd (Rv s) r (r_pc x Y2)) (Sd s) (sent s) (rlog s) (drpd s) (r :: hold s) (pend s) (rep s) (dropper s) (livet s) (liver s) (freed s))
          | 0 => Some (mk (q s) (sv s) (wq s) (txp s) (rxp s) (upd (Rv s) r (r_pc x Y1)) (Sd s) (sent s) (rlog s) (drpd s) (hold s) (pend s) (rep s) (dropper s) (livet s) (liver s) (freed s))
          end
      | Y1 => if is0 (txp s)
          then Some (mk (q s) (sv s) (wq s) (txp s) (rxp s) (upd (Rv s) r (if fix7c then r_pc x Y0b else r_ret x RDisc)) (Sd s) (sent s) (rlog s) (drpd s) (hold s) (pend s) (rep s) (dropper s) (livet s) (liver s) (freed s))
          else Some (mk (q s) (sv s) (wq s) (txp s) (rxp s) (upd (Rv s) r (match rc x with CTry => r_ret x REmpty | CFirst => r_pc x W0 end)) (Sd s) (sent s) (rlog s) (drpd s) (hold s) (pend s) (rep s) (dropper s) (livet s) (liver s) (freed s))
      | Y0b => match sv s with
          | S n => Some (mk (q s) n (wq s) (txp s) (rxp s) (upd (Rv s) r (r_pc x Y2)) (Sd s) (sent s) (rlog s) (drpd s) (r :: hold s) (pend s) (rep s) (dropper s) (livet s) (liver s) (freed s))
          | 0 => Some (mk (q s) (sv s) (wq s) (txp s) (rxp s) (upd (Rv s) r (r_ret x RDisc)) (Sd s) (sent s) (rlog s) (drpd s) (hold s) (pend s) (rep s) (dropper s) (livet s) (liver s) (freed s))
          end
      | W0 => match sv s with
          | S n => Some (mk (q s) n (wq s) (txp s) (rxp s) (upd (Rv s) r (r_pc x Y2)) (Sd s) (sent s) (rlog s) (drpd s) (r :: hold s) (pend s) (rep s) (dropper s) (livet s) (liver s) (freed s))
          | 0 => Some (mk (q s) (sv s) (wq s ++ [r]) (txp s) (rxp s) (upd (Rv s) r (r_gr x WB false)) (Sd s) (sent s) (rlog s) (drpd s) (hold s) (pend s) (rep s) (dropper s) (livet s) (liver s) (freed s))
          end
      | WB => if rgr x
          then Some (mk (q s) (sv s) (wq s) (txp s) (rxp s) (upd (Rv s) r (r_gr x Y2 false)) (Sd s) (sent s) (rlog s) (drpd s) (hold s) (pend s) (rep s) (dropper s) (livet s) (liver s) (freed s))
          else None
      | Y2 => match q s with
          | v :: q' =>
              if fix7b
              then Some (mk q' (sv s) (wq s) (txp s) (rxp s) (upd (Rv s) r (r_val x Y3s v)) (Sd s) (sent s) (rlog s ++ [(r, v)]) (drpd s) (rm r (hold s)) (pend s) (r :: rep s) (dropper s) (livet s) (liver s) (freed s))
              else Some (mk q' (sv s) (wq s) (txp s) (rxp s) (upd (Rv s) r (r_ret (r_val x Y2 v) (ROk v))) (Sd s) (sent s) (rlog s ++ [(r, v)]) (drpd s) (rm r (hold s)) (pend s) (rep s) (dropper s) (livet s) (liver s) (freed s))
          | [] => Some (mk (q s) (sv s) (wq s) (txp s) (rxp s) (upd (Rv s) r (r_pc x Y3n)) (Sd s) (sent s) (rlog s) (drpd s) (rm r (hold s)) (pend s) (r :: rep s) (dropper s) (livet s) (liver s) (freed s))
          end
      | Y3s => if is0 (txp s)
          then Some (mk (q s) (sv s) (wq s) (txp s) (rxp s) (upd (Rv s) r (r_pc x Y4s)) (Sd s) (sent s) (rlog s) (drpd s) (hold s) (pend s) (rep s) (dropper s) (livet s) (liver s) (freed s))
          else Some (mk (q s) (sv s) (wq s) (txp s) (rxp s) (upd (Rv s) r (r_ret x (ROk (rv x)))) (Sd s) (sent s) (rlog s) (drpd s) (hold s) (pend s) (rm r (rep s)) (dropper s) (livet s) (liver s) (freed s))
      | Y4s => let rvm := upd (Rv s) r (r_ret x (ROk (rv x))) in
          Some (mk (q s) (post_sv s) (post_wq s) (txp s) (rxp s) (post_Rv s rvm) (Sd s) (sent s) (rlog s) (drpd s) (post_hold s (hold s)) (pend s) (rm r (rep s)) (dropper s) (livet s) (liver s) (freed s))
      | Y3n => if is0 (txp s)
          then (if fix7
                then Some (mk (q s) (sv s) (wq s) (txp s) (rxp s) (upd (Rv s) r (r_pc x Y4n)) (Sd s) (sent s) (rlog s) (drpd s) (hold s) (pend s) (rep s) (dropper s) (livet s) (liver s) (freed s))
                else Some (mk (q s) (sv s) (wq s) (txp s) (rxp s) (upd (Rv s) r (r_ret x RDisc)) (Sd s) (sent s) (rlog s) (drpd s) (hold s) (pend s) (rm r (rep s)) (dropper s) (livet s) (liver s) (freed s)))
          else Some (mk (q s) (sv s) (wq s) (txp s) (rxp s) (upd (Rv s) r (r_pc x RPanic)) (Sd s) (sent s) (rlog s) (drpd s) (hold s) (pend s) (rm r (rep s)) (dropper s) (livet s) (liver s) (freed s))
      | Y4n => let rvm := upd (Rv s) r (r_ret x RDisc) in
          Some (mk (q s) (post_sv s) (post_wq s) (txp s) (rxp s) (post_Rv s rvm) (Sd s) (sent s) (rlog s) (drpd s) (post_hold s (hold s)) (pend s) (rm r (rep s)) (dropper s) (livet s) (liver s) (freed s))
      | XA => match rst (Rv s (rto x)) with
          | Unborn => Some (mk (q s) (sv s) (wq s) (txp s) (S (rxp s)) (upd (upd (Rv s) r (r_st x YIdle (rst x))) (rto x) (r_st (Rv s (rto x)) YIdle Alive)) (Sd s) (sent s) (rlog s) (drpd s) (hold s) (pend s) (rep s) (dropper s) (livet s) (rto x :: liver s) (freed s))
          | _ => None end
      | X0 => match rxp s with
          | 0 => None            (* panic!("bad number of rx_ports left") *)
          | S n => Some (mk (q s) (sv s) (wq s) (txp s) n (upd (Rv s) r (r_st x (if is0 n then X1 else YIdle) Dead)) (Sd s) (sent s) (rlog s) (drpd s) (hold s) (pend s) (rep s) (dropper s) (livet s) (rm r (liver s)) (freed s))
          end
      | X1 => match q s with
          | v :: q' => Some (mk q' (sv s) (wq s) (txp s) (rxp s) (Rv s) (Sd s) (sent s) (rlog s) (drpd s ++ [v]) (hold s) (pend s) (rep s) (dropper s) (livet s) (liver s) (freed s))
          | [] => Some (mk (q s) (sv s) (wq s) (txp s) (rxp s) (upd (Rv s) r (r_st x YIdle (rst x))) (Sd s) (sent s) (rlog s) (drpd s) (hold s) (pend s) (rep s) (dropper s) (livet s) (liver s) (freed s))
          end
      end
  | Send a => let y := Sd s a in
      if s_ready y
      then Some (mk (q s) (sv s) (wq s) (txp s) (rxp s) (Rv s) (upd (Sd s) a (s_call y M0 (is0 (rxp s)) (sto y))) (sent s) (rlog s) (drpd s) (hold s) (pend s) (rep s) (dropper s) (livet s) (liver s) (freed s))
      else None
  | CloneTx a b => let y := Sd s a in
      if s_ready y && match sst (Sd s b) with Unborn => true | _ => false end
      then Some (mk (q s) (sv s) (wq s) (txp s) (rxp s) (Rv s) (upd (Sd s) a (s_call y MA false b)) (sent s) (rlog s) (drpd s) (hold s) (pend s) (rep s) (dropper s) (livet s) (liver s) (freed s))
      else None
  | DropTx a => let y := Sd s a in
      if s_ready y
      then Some (mk (q s) (sv s) (wq s) (txp s) (rxp s) (Rv s) (upd (Sd s) a (s_call y MS false (sto y))) (sent s) (rlog s) (drpd s) (hold s) (pend s) (rep s) (dropper s) (livet s) (liver s) (freed s))
      else None
  | SStep a => let y := Sd s a in
      match sp y with
      | SIdle => None
      | M0 => if is0 (rxp s)
          then Some (mk (q s) (sv s) (wq s) (txp s) (rxp s) (Rv s) (upd (Sd s) a (s_res y SIdle false)) (sent s) (rlog s) (drpd s) (hold s) (pend s) (rep s) (dropper s) (livet s) (liver s) (freed s))
          else Some (mk (q s) (sv s) (wq s) (txp s) (rxp s) (Rv s) (upd (Sd s) a (s_pc y M1)) (sent s) (rlog s) (drpd s) (hold s) (pend s) (rep s) (dropper s) (livet s) (liver s) (freed s))
      | M1 => let v := (a, sn y) in
          Some (mk (q s ++ [v]) (sv s) (wq s) (txp s) (rxp s) (Rv s) (upd (Sd s) a (s_pushed y)) (sent s ++ [v]) (rlog s) (drpd s) (hold s) (a :: pend s) (rep s) (dropper s) (livet s) (liver s) (freed s))
      | M2 => Some (mk (q s) (post_sv s) (post_wq s) (txp s) (rxp s) (post_Rv s (Rv s)) (upd (Sd s) a (s_pc y SIdle)) (sent s) (rlog s) (drpd s) (post_hold s (hold s)) (rm a (pend s)) (rep s) (dropper s) (livet s) (liver s) (freed s))
      | MA => match sst (Sd s (sto y)) with
          | Unborn => Some (mk (q s) (sv s) (wq s) (S (txp s)) (rxp s) (Rv s) (upd (upd (Sd s) a (s_pc y SIdle)) (sto y) (s_st (Sd s (sto y)) SIdle Alive)) (sent s) (rlog s) (drpd s) (hold s) (pend s) (rep s) (dropper s) (sto y :: livet s) (liver s) (freed s))
          | _ => None end
      | MS => match txp s with
          | 0 => None            (* panic!("bad number of tx_ports left") *)
          | S n => Some (mk (q s) (sv s) (wq s) n (rxp s) (Rv s) (upd (Sd s) a (s_st y (if is0 n then G0 else SIdle) Dead)) (sent s) (rlog s) (drpd s) (hold s) (pend s) (rep s) (if is0 n then Some a else dropper s) (rm a (livet s)) (liver s) (freed s))
          end
      | G0 => if is0 (sv s)
          then Some (mk (q s) (sv s) (wq s) (txp s) (rxp s) (Rv s) (upd (Sd s) a (s_pc y G1)) (sent s) (rlog s) (drpd s) (hold s) (pend s) (rep s) (dropper s) (livet s) (liver s) (freed s))
          else Some (mk (q s) (sv s) (wq s) (txp s) (rxp s) (Rv s) (upd (Sd s) a (s_pc y SIdle)) (sent s) (rlog s) (drpd s) (hold s) (pend s) (rep s) None (livet s) (liver s) (freed s))
      | G1 => Some (mk (q s) (post_sv s) (post_wq s) (txp s) (rxp s) (post_Rv s (Rv s)) (upd (Sd s) a (s_pc y G0)) (sent s) (rlog s) (drpd s) (post_hold s (hold s)) (pend s) (rep s) (dropper s) (livet s) (liver s) (freed s))
      end
  | Free => if is0 (txp s) && is0 (rxp s) && negb (freed s)
      then Some (mk [] (sv s) (wq s) (txp s) (rxp s) (Rv s) (Sd s) (sent s) (rlog s) (drpd s ++ q s) (hold s) (pend s) (rep s) (dropper s) (livet s) (liver s) true)
      else None
  end.

Definition rrec0 (h : hst) := {| rp := YIdle; rc := CTry; rtimed := false; rgr := false; rv := (0, 0); rres := RNone; rst := h; rdead := false; rto := 0 |}.
Definition srec0 (h : hst) := {| sp := SIdle; sst := h; sres := false; sdead := false; sn := 0; sto := 0 |}.
(* channel(): Semphore::new(0), one Sender (0), one Receiver (0) *)
Definition init : st :=
  mk [] 0 [] 1 1 (fun r => rrec0 (if Nat.eqb r 0 then Alive else Unborn)) (fun a => srec0 (if Nat.eqb a 0 then Alive else Unborn))
     [] [] [] [] [] [] None [0] [0] false.

Inductive Reach : st -> Prop :=
| R0 : Reach init
| RS s a s' : Reach s -> step s a = Some s' -> Reach s'.

Fixpoint run (s : st) (l : list action) : st :=
  match l with [] => s | a :: l' => match step s a with Some s' => run s' l' | None => run s l' end end.

End M.
