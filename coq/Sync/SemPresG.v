From Coq Require Import List Arith ZArith Bool Lia.
Import ListNotations.
Require Import MayV.Sync.SemModel MayV.Sync.SemInv MayV.Sync.SemTac.
Open Scope Z_scope.

Lemma pres_G s ac s' : Inv s -> step s ac = Some s' -> ginv s'.
Proof.
  intros Hi H. g_facts Hi.
  step_cases H; unfold ginv, mk; cbn [cnt q nextb A Bk ini uposts succ ung giv pre hand owe]; num.
  all: try (repeat split; auto; lia).
  all: a_facts Hi a; b_facts Hi (ab (A s a)); b_facts Hi (aw (A s a)).
  all: rmfix.
  all: repeat match goal with |- _ /\ _ => split end; auto; try lia; nd; try mem.
  all: try match goal with Q : forall b, In b (q _) -> (_ <= b < _)%nat |- ~ In _ _ => let I := fresh in intro I; apply Q in I; lia end.
  all: try match goal with Q : forall b, In b (q _) -> (_ <= b < _)%nat |- forall b, In b (_ ++ _) -> _ =>
         let b := fresh "b" in let I := fresh "I" in
         intros b I; rewrite in_app_iff in I; cbn in I; destruct I as [I|[<-|[]]]; [apply Q in I|]; lia end.
  all: try match goal with N : NoDup (_ :: ?l) |- NoDup ?l => now inversion N end.
  all: try match goal with Q : forall b, In b (_ :: _) -> (_ <= b < _)%nat |- forall b, In b _ -> _ =>
         let b := fresh "b" in let I := fresh "I" in intros b I; apply Q; now right end.
Qed.
