(* Preservation of the overlay invariant of SemLive.v, part D: L4 (a flagged blocker gets its token), L5 (a delivered token is seen by the owner). *)
From Coq Require Import List Arith ZArith Bool Lia.
Import ListNotations.
Require Import MayV.Sync.SemModel MayV.Sync.SemInv MayV.Sync.SemTac MayV.Sync.SemLive MayV.Sync.SemLiveA MayV.Sync.SemLiveB.
Open Scope Z_scope.

Ltac upd_hyps2 := upd_hyps; repeat match goal with
  | H : context [upd ?f ?i ?v ?j] |- _ =>
      let e := fresh "e" in destruct (Nat.eq_dec j i) as [e|e];
      [ rewrite e in H; rewrite (upd_eq f i v) in H | rewrite (upd_neq f i j v e) in H ]
  end.

Lemma pres_L4 s o ac s' : Inv s -> LInv s o -> step s ac = Some s' -> L4 s' (lstep s o ac).
Proof.
  intros Hi HL H. pose proof (IL4 _ _ HL) as P4. pose proof (IL1 _ _ HL) as P1.
  unfold L1, L4, holds3, agentpc in *.
  lsetup Hi H; intro x; pose proof (P4 x) as Px; pose proof (P1 a) as Aa; pose proof (P1 (ag o x)) as Ag.
  all: unfold set_pc, set_ctx, set_res, set_av; upd_tac; upd_hyps2; prj_all; lists.
  all: try assumption.
  all: a_facts Hi a; b_facts Hi x.
  all: try match goal with E : NoDup (?n :: _) |- _ => b_facts Hi n; inversion E; subst end.
  all: try match goal with E : q _ = _ :: _ |- _ => rewrite E in * end.
  all: repeat match goal with e : ?v = _ |- _ => is_var v; subst v end; upd_hyps; prj_all.
  all: repeat match goal with e : ag _ _ = _ |- _ => progress (rewrite e in * ) end.
  all: ctxsplit s a; pcs; lists.
  all: intros; brk; arith_prem; brk; try mem.
Qed.

Lemma pres_L5 s o ac s' : Inv s -> LInv s o -> step s ac = Some s' -> L5 s' (lstep s o ac).
Proof.
  intros Hi HL H. pose proof (IL5 _ _ HL) as P5. pose proof (IL6 _ _ HL) as P6. pose proof (IL7 _ _ HL) as P7.
  unfold L5, L6, L7, own, prepark, inpark in *.
  lsetup Hi H; intro x; pose proof (P5 x) as Px; pose proof (P6 a) as Pa; pose proof (P6 (owner (Bk s x))) as Po; pose proof (P7 x) as Fx; pose proof (P7 (nextb s)) as Fn.
  all: unfold set_pc, set_ctx, set_res, set_av; upd_tac; upd_hyps2; prj_all; lists.
  all: try assumption.
  all: a_facts Hi a; a_facts Hi O; b_facts Hi x.
  all: repeat match goal with e : ?v = _ |- _ => is_var v; subst v end; upd_hyps; prj_all.
  all: repeat match goal with e : owner _ = _ |- _ => progress (rewrite e in * ) end.
  all: ctxsplit s a; pcs; lists.
  all: intros; brk; arith_prem; brk; try mem.
Qed.
