(* Preservation of the overlay invariant of SemLive.v, part D: L4 (a flagged blocker gets its token), L5 (a delivered token is seen by the owner).
   Each lemma is assembled from one lemma per control point of the stepping actor (files SemLiveL4.v, SemLiveL5a.v, SemLiveL5b.v;
   the proof script of the clause is an Ltac in SemLiveTac.v). *)
From Coq Require Import List Arith ZArith Bool Lia.
Import ListNotations.
Require Import MayV.Sync.SemModel MayV.Sync.SemInv MayV.Sync.SemTac MayV.Sync.SemCase MayV.Sync.SemLive.
Require Export MayV.Sync.SemLiveTac.
Require Import MayV.Sync.SemLiveL4 MayV.Sync.SemLiveL5a MayV.Sync.SemLiveL5b.
Open Scope Z_scope.

Lemma pres_L4 s o ac s' : Inv s -> LInv s o -> step s ac = Some s' -> L4 s' (lstep s o ac).
Proof.
  intros Hi HL H. destruct (is_step ac) eqn:Hn; [|eapply pres_L4_env; eassumption].
  destruct ac as [a t|a|a|a|a|a]; try discriminate Hn. destruct (apc (A s a)) eqn:Epc.
  - rewrite (step_idle s a Epc) in H. discriminate H.
  - eapply pres_L4_W0; eassumption.
  - eapply pres_L4_W0c; eassumption.
  - eapply pres_L4_W1; eassumption.
  - eapply pres_L4_W2; eassumption.
  - eapply pres_L4_WP; eassumption.
  - eapply pres_L4_WW; eassumption.
  - eapply pres_L4_E1; eassumption.
  - eapply pres_L4_E2; eassumption.
  - eapply pres_L4_E3; eassumption.
  - eapply pres_L4_E4; eassumption.
  - eapply pres_L4_P0; eassumption.
  - eapply pres_L4_K1; eassumption.
  - eapply pres_L4_K2; eassumption.
  - eapply pres_L4_K3; eassumption.
  - eapply pres_L4_K4; eassumption.
  - eapply pres_L4_Y0; eassumption.
  - eapply pres_L4_Y0c; eassumption.
  - eapply pres_L4_G0; eassumption.
Qed.

Lemma pres_L5 s o ac s' : Inv s -> LInv s o -> step s ac = Some s' -> L5 s' (lstep s o ac).
Proof.
  intros Hi HL H. destruct (is_step ac) eqn:Hn; [|eapply pres_L5_env; eassumption].
  destruct ac as [a t|a|a|a|a|a]; try discriminate Hn. destruct (apc (A s a)) eqn:Epc.
  - rewrite (step_idle s a Epc) in H. discriminate H.
  - eapply pres_L5_W0; eassumption.
  - eapply pres_L5_W0c; eassumption.
  - eapply pres_L5_W1; eassumption.
  - eapply pres_L5_W2; eassumption.
  - eapply pres_L5_WP; eassumption.
  - eapply pres_L5_WW; eassumption.
  - eapply pres_L5_E1; eassumption.
  - eapply pres_L5_E2; eassumption.
  - eapply pres_L5_E3; eassumption.
  - eapply pres_L5_E4; eassumption.
  - eapply pres_L5_P0; eassumption.
  - eapply pres_L5_K1; eassumption.
  - eapply pres_L5_K2; eassumption.
  - eapply pres_L5_K3; eassumption.
  - eapply pres_L5_K4; eassumption.
  - eapply pres_L5_Y0; eassumption.
  - eapply pres_L5_Y0c; eassumption.
  - eapply pres_L5_G0; eassumption.
Qed.
