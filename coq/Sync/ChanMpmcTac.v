(* Tactics and small facts shared by the preservation proofs of the mpmc channel invariant. *)
From Coq Require Import List Arith Bool Lia.
Import ListNotations.
Require Import MayV.Sync.ChanMpmcModel MayV.Sync.ChanMpmcInv.
Ltac lists := rewrite ?in_rm, ?in_app_iff in *; cbn [In] in *.
Ltac fin := try solve [ tauto | congruence | discriminate | intuition (subst; try congruence; try discriminate; try lia) ].
Ltac rfacts Hi := try match goal with E : rp (Rv ?s0 ?r) = _ |- _ => let Q := fresh "Q" in pose proof (I_R _ Hi r) as Q; unfold rinv in Q; rewrite E in Q; cbn [inrep rbusy] in Q; boolh; spec end.
Ltac sfacts Hi := try match goal with E : sp (Sd ?s0 ?a) = _ |- _ => let Q := fresh "Q" in pose proof (I_S _ Hi a) as Q; unfold sinv in Q; rewrite E in Q; cbn [sbusy] in Q; boolh; spec end.
Ltac wfacts Hi := try (match goal with |- context [post_wq _] => idtac | |- context [post_hold _ _] => idtac | |- context [post_sv _] => idtac | |- context [post_Rv _ _] => idtac end;
   match goal with Hi : Inv ?s |- _ => post_cases s end;
   try match goal with E : wq ?s = ?w :: _ |- _ => let W := fresh "W" in pose proof (I_R _ Hi w) as W; unfold rinv in W; boolh; rewrite E in * end).
Ltac lenrm := repeat match goal with |- context [length (rm ?x ?l)] =>
   let L := fresh "L" in assert (L : S (length (rm x l)) = length l) by (apply len_rm; [assumption | tauto]);
   revert L; generalize (length (rm x l)); intros ? L end.
Ltac nd := repeat match goal with
  | |- NoDup (_ :: _) => constructor
  | |- NoDup (rm _ _) => apply nodup_rm
  | |- NoDup (_ ++ [_]) => apply nodup_snoc
  | H : NoDup (_ :: ?l) |- NoDup ?l => now inversion H
  end; auto.


Lemma alive_tx s a : Inv s -> sst (Sd s a) = Alive -> txp s <> 0.
Proof.
  intros Hi E. destruct (I_cnt _ Hi) as [C _]. pose proof (I_S _ Hi a) as Q. unfold sinv in Q. boolh.
  assert (In a (livet s)) by tauto. destruct (livet s); [contradiction | cbn in C; lia].
Qed.
Lemma alive_rx s r : Inv s -> rst (Rv s r) = Alive -> rxp s <> 0.
Proof.
  intros Hi E. destruct (I_cnt _ Hi) as [_ C]. pose proof (I_R _ Hi r) as Q. unfold rinv in Q. boolh.
  assert (In r (liver s)) by tauto. destruct (liver s); [contradiction | cbn in C; lia].
Qed.


