(* Facts about CondvarModel that its client programs (Barrier, WaitGroup) need for their progress theorems:
     - who can hold the abstract mutex (never a parked, re-locking or dead actor),
     - a blocker in the hands of a notifier belongs to an actor standing right before its flag store,
     - a dead actor is a cancelled coroutine,
     - enabledness: every actor inside a Condvar call has an enabled transition of its own unless it is parked without a
       reason to resume (no token, deadline not reached, not a cancelled coroutine) or re-locking while the mutex is held.
   These are inductive invariants / case analyses over CondvarModel.step; nothing here is specific to a client. *)
From Coq Require Import List Arith ZArith Bool Lia.
Import ListNotations.
Require Import MayV.Sync.CondvarModel MayV.Sync.CondvarInv MayV.Sync.CondvarTac MayV.Sync.CondvarPresM
               MayV.Sync.CondvarL1 MayV.Sync.CondvarL2 MayV.Sync.CondvarL3 MayV.Sync.CondvarL4 MayV.Sync.CondvarThm
               MayV.Sync.BarrierModel.
Open Scope Z_scope.

(* ---------------------------------------------------------------------------------------- the holder of the mutex *)
Definition holder_ok (p : pc) : bool :=
  match p with N1 | WP | WW | D2 | L | Dead => false | _ => true end.
Definition InvH (s : st) : Prop := forall a, mx s = Some a -> holder_ok (apc (A s a)) = true.

Lemma invH_init : InvH init.
Proof. intros a H. discriminate. Qed.

Lemma invH_step s ac s' : InvM s -> InvH s -> step s ac = Some s' -> InvH s'.
Proof.
  intros Hm Hh H. destruct ac; step_cases H; intros hz Mz; simp_st_in Mz; simp_st.
  all: try discriminate.
  all: try (pose proof (Hh hz) as Hz).
  all: try (m_facts Hm a).
  all: upd_tac; simp_act; try reflexivity.
  all: try solve [apply Hz; congruence].
  all: try solve [inversion Mz; subst; congruence].
  all: try solve [exfalso; inversion Mz; subst; rewrite Hz in *; congruence].
  all: try solve [specialize (Hz Mz); rewrite ?Epc in Hz; cbn in Hz; congruence].
  all: try solve [inversion Mz; subst; rewrite Epc; reflexivity].
  all: try solve [exfalso; specialize (Hz Mz); subst; rewrite Epc in Hz; discriminate].
  all: try solve [exfalso; match goal with e : ?h = _, Hz : holder_ok (apc (A _ ?h)) = true |- _ => rewrite e in Hz; rewrite Epc in Hz; discriminate end].
Qed.
Lemma invH_reach s : Reach s -> InvH s.
Proof. intro R. induction R; [apply invH_init | eapply invH_step; eauto using invM_reach]. Qed.

(* ---------------------------------------------------------------------------------------- held blockers have an agent *)
Definition InvA (s : st) : Prop := forall b, In b (held s) -> exists x, cls_of (apc (A s x)) = CK2 /\ aw (A s x) = b.

Lemma invA_init : InvA init.
Proof. intros b []. Qed.

Lemma invA_step s ac s' : Inv2 s -> InvA s -> step s ac = Some s' -> InvA s'.
Proof.
  intros H2 Hi H. destruct ac; step_cases0 H; intros b Hb; simp_st_in Hb; simp_st.
  all: lists.
  all: try exact (Hi b Hb).
  (* a pop: the popped blocker is the stepping actor's *)
  all: try (destruct Hb as [Hb|Hb]; [subst; exists a; upd_tac; simp_act; split; reflexivity|]).
  (* a flag store: the stored blocker leaves `held` *)
  all: try (destruct Hb as [Hb Nb]).
  all: destruct (Hi b Hb) as (x & Cx & Wx); exists x.
  all: destruct (Nat.eq_dec x a) as [->|nx]; [| upd_tac; simp_act; auto; fail].
  all: try (exfalso; rewrite Epc in Cx; cbn in Cx; clsr; congruence).
  all: try (exfalso; congruence).
  all: upd_tac; simp_act; auto.
Qed.
Lemma invA_reach s : Reach s -> InvA s.
Proof. intro R. induction R; [apply invA_init | eapply invA_step; eauto using inv2_reach]. Qed.

(* ---------------------------------------------------------------------------------------- a dead actor is a cancelled coroutine *)
Definition InvD (s : st) : Prop := forall a, apc (A s a) = Dead -> ccan (A s a) = true /\ aco (A s a) = true.
Lemma invD_init : InvD init.
Proof. intros a H. discriminate. Qed.
Lemma invD_step s ac s' : InvM s -> InvD s -> step s ac = Some s' -> InvD s'.
Proof.
  intros Hm Hd H. destruct ac; step_cases H; intros y; pose proof (Hd y) as Hy; simp_st; try exact Hy.
  all: try (m_facts Hm a).
  all: upd_tac; simp_act; try exact Hy; try discriminate; auto.
  all: try solve [intro; exfalso; congruence].
  all: try solve [subst; intro Ed; split; [reflexivity | apply Hy; exact Ed]].
Qed.
Lemma invD_reach s : Reach s -> InvD s.
Proof. intro R. induction R; [apply invD_init | eapply invD_step; eauto using invM_reach]. Qed.
Theorem dead_only_if_cancelled s a : Reach s -> apc (A s a) = Dead -> ccan (A s a) = true /\ aco (A s a) = true.
Proof. intros R. apply (invD_reach _ R). Qed.

(* ---------------------------------------------------------------------------------------- enabledness *)
Definition parked_idle (s : st) (a : nat) : Prop :=
  apc (A s a) = WW /\ tok (Bk s (ab (A s a))) = false /\ due (adl (A s a)) (now s) = false /\ (aco (A s a) && ccan (A s a))%bool = false.
Definition relock_blocked (s : st) (a : nat) : Prop := apc (A s a) = L /\ mx s <> None.
Definition cv_enabled (s : st) (a : nat) : Prop := exists c, inner_ok a c = true /\ step s c <> None.

Ltac en_step a E :=
  left; exists (Step a); split; [cbn; apply Nat.eqb_refl |];
  unfold step; rewrite E;
  repeat match goal with
  | |- context [if ?c then _ else _] => destruct c
  | |- context [match q ?s with _ => _ end] => destruct (q s)
  end; discriminate.

Lemma cv_progress s a : Reach s -> apc (A s a) <> Idle -> apc (A s a) <> Dead ->
  cv_enabled s a \/ parked_idle s a \/ relock_blocked s a.
Proof.
  intros R NI ND. pose proof (invM_reach _ R a) as M. unfold minv in M. cbn zeta in M.
  destruct M as (_ & _ & _ & M4 & M5 & _).
  unfold cv_enabled. destruct (apc (A s a)) eqn:E; try congruence; try (en_step a E).
  - (* WW *)
    destruct (tok (Bk s (ab (A s a))) || due (adl (A s a)) (now s) || (aco (A s a) && ccan (A s a)))%bool eqn:C.
    + left. exists (Resume a). split; [cbn; apply Nat.eqb_refl|]. unfold step. rewrite E. cbv zeta. rewrite C. discriminate.
    + right. left. apply orb_false_iff in C. destruct C as [C C3]. apply orb_false_iff in C. destruct C as [C1 C2].
      repeat split; assumption.
  - (* L *)
    destruct (mx s) eqn:Em.
    + right. right. split; [exact E | congruence].
    + left. exists (Step a). split; [cbn; apply Nat.eqb_refl|]. unfold step. rewrite E, Em. discriminate.
  - (* R1: some verdict is available *)
    destruct (M5 (or_intror (or_intror eq_refl))) as [T|T].
    + left. exists (Choose a false). split; [cbn; apply Nat.eqb_refl|]. unfold step. rewrite E. cbv zeta. rewrite T. discriminate.
    + left. exists (Choose a true). split; [cbn; apply Nat.eqb_refl|]. unfold step. rewrite E. cbv zeta.
      assert (X : (rtmo (A s a) || rcan (A s a))%bool = true) by (apply orb_true_iff; exact T). rewrite X. discriminate.
  - (* R2 *)
    destruct (aerr (A s a)) eqn:Ee.
    + assert (P : post_choice (A s a) = true) by (unfold post_choice; rewrite E; reflexivity).
      destruct (M4 P eq_refl) as [T|T].
      * left. exists (Choose a false). split; [cbn; apply Nat.eqb_refl|]. unfold step. rewrite E. cbv zeta. rewrite Ee, T. discriminate.
      * left. exists (Choose a true). split; [cbn; apply Nat.eqb_refl|]. unfold step. rewrite E. cbv zeta. rewrite Ee, T. discriminate.
    + left. exists (Step a). split; [cbn; apply Nat.eqb_refl|]. unfold step. rewrite E. cbv zeta. rewrite Ee. discriminate.
Qed.

(* the holder of the mutex, when inside a Condvar call, always has an enabled transition of its own *)
Lemma cv_holder_progress s a : Reach s -> mx s = Some a -> apc (A s a) <> Idle -> cv_enabled s a.
Proof.
  intros R M NI. pose proof (invH_reach _ R a M) as Hh.
  assert (ND : apc (A s a) <> Dead) by (intro E; rewrite E in Hh; discriminate).
  destruct (cv_progress s a R NI ND) as [En|[[E _]|[E _]]]; [exact En| |]; rewrite E in Hh; discriminate.
Qed.

(* a parked waiter whose blocker is not flagged is in the queue or in the hands of an agent that has an enabled step;
   one whose blocker is flagged has its token or the agent that still has the token store ahead *)
Lemma cv_parked_cases s a : Reach s -> apc (A s a) = WW ->
  (unp (Bk s (ab (A s a))) = false /\ In (ab (A s a)) (q s)) \/
  tok (Bk s (ab (A s a))) = true \/
  exists x, x <> a /\ (apc (A s x) = K2 \/ apc (A s x) = A2 \/ apc (A s x) = K3 \/ apc (A s x) = A3).
Proof.
  intros R E. destruct (unp (Bk s (ab (A s a)))) eqn:U.
  - destruct (notified_waiter_not_stranded s a R E U) as [T|(x & P & W)]; [auto|].
    right. right. exists x. split; [intro; subst; destruct P as [P|P]; congruence | tauto].
  - assert (W : waiting (A s a) (ab (A s a))) by (split; [tauto | reflexivity]).
    destruct (unnotified_waiter_is_queued s a R W U) as [I|I]; [auto|].
    destruct (invA_reach _ R _ I) as (x & Cx & Wx). right. right. exists x.
    split; [intro; subst; rewrite E in Cx; discriminate|].
    destruct (apc (A s x)); cbn in Cx; try discriminate; auto.
Qed.

(* ---------------------------------------------------------------------------------------- how one step changes the queue *)
Definition prepush (p : pc) : bool := match p with V0 | D0 | W1 => true | _ => false end.

(* a blocker in the queue after a step was there before (same owner), or it was pushed by this step, by its owner at W1 *)
Lemma q_step c x c' : Inv1 c -> step c x = Some c' -> forall b, In b (q c') ->
  (In b (q c) /\ owner (Bk c' b) = owner (Bk c b)) \/ (exists a, x = Step a /\ apc (A c a) = W1 /\ owner (Bk c' b) = a).
Proof.
  intros H1 H. destruct x; step_cases0 H; intros b Hb; simp_st_in Hb; simp_st; auto.
  all: try (pose proof (R_q _ H1 b) as Rb).
  all: try (pose proof (R_a _ H1 a) as Ra).
  all: try solve [left; split; [exact Hb|]; upd_tac; simp_act; reflexivity].
  (* the push *)
  all: try (apply in_app_iff in Hb; destruct Hb as [Hb|[<-|[]]];
            [left; split; [exact Hb|]; specialize (Rb Hb); upd_tac; simp_act; try reflexivity; exfalso; lia
            | right; exists a; repeat split; auto; upd_tac; reflexivity]).
  (* a pop *)
  all: try solve [left; split; [right; exact Hb | reflexivity]].
  all: try solve [rewrite Eq in Hb; destruct Hb].
Qed.

(* notify_all returns only with the queue empty *)
Lemma notify_all_done c x c' a : step c x = Some c' -> inner_ok a x = true ->
  (apc (A c a) = A1 \/ apc (A c a) = A2 \/ apc (A c a) = A3) -> apc (A c' a) = Idle -> q c' = [].
Proof.
  intros H Ok W I. destruct x; cbn in Ok; try discriminate; apply Nat.eqb_eq in Ok; subst.
  all: step_cases H; try (destruct W as [W|[W|W]]; discriminate).
  all: revert I; simp_st; upd_tac; simp_act; try discriminate; auto.
Qed.

(* inside Condvar::wait the part before the push is only entered from the call *)
Lemma prepush_back c x c' a : step c x = Some c' -> inner_ok a x = true -> prepush (apc (A c' a)) = true -> prepush (apc (A c a)) = true.
Proof.
  intros H Ok P. destruct x; cbn in Ok; try discriminate; apply Nat.eqb_eq in Ok; subst.
  all: step_cases H; revert P; simp_st; upd_tac; simp_act; cbn; try discriminate; auto.
  all: try (destruct (aco (A c a)); cbn; discriminate).
Qed.
Lemma inner_pc_frame c x c' a y : step c x = Some c' -> inner_ok a x = true -> y <> a -> A c' y = A c y.
Proof. intros H Ok N. apply (frame_A _ _ _ y H). destruct x; cbn in Ok; try discriminate; apply Nat.eqb_eq in Ok; cbn; congruence. Qed.
Lemma env_pc_frame c x c' y : step c x = Some c' -> env_ok x = true -> apc (A c' y) = apc (A c y) /\ q c' = q c /\ Bk c' = Bk c /\ mx c' = mx c.
Proof.
  intros H Ok. destruct x; cbn in Ok; try discriminate; step_cases H; simp_st; auto.
  split; auto. upd_tac; simp_act; reflexivity.
Qed.
Definition is_call (x : action) : bool :=
  match x with Lock _ | Unlock _ _ | Wait _ _ _ | NotifyAll _ | NotifyOne _ => true | _ => false end.
Lemma call_frame c x c' : step c x = Some c' -> is_call x = true -> q c' = q c /\ Bk c' = Bk c.
Proof. intros H Ok. destruct x; cbn in Ok; try discriminate; step_cases H; simp_st; auto. Qed.
