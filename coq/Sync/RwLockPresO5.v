(* C12 - interference freedom: environment actions (Call, Busy, Abort, Drop, Panic) and the combined lemma *)
From Coq Require Import List Arith ZArith Bool Lia.
Import ListNotations.
Require Import MayV.Sync.RwLockModel MayV.Sync.RwLockInv MayV.Sync.RwLockPresG MayV.Sync.RwLockPresA MayV.Sync.RwLockPresOTac.
Require Import MayV.Sync.RwLockPresO1 MayV.Sync.RwLockPresO2 MayV.Sync.RwLockPresO3 MayV.Sync.RwLockPresO4.
Require Import MayV.Sync.RwLockPresO1b MayV.Sync.RwLockPresO2b MayV.Sync.RwLockPresO2c MayV.Sync.RwLockPresO3b MayV.Sync.RwLockPresO4b.

Definition actor_of (ac : action) : nat :=
  match ac with Call a _ | Step a | Busy a | Abort a | Drop a | Panic a => a end.

Ltac other_env Hi H a a' :=
  let Ho := fresh "Ho" in
  pose proof (IA _ Hi a') as Ho; unfold ainv, hasrl, waiting, halfgone, opctx in Ho;
  step_cases H;
  unfold ainv, set_pc, set_pcx, hasrl, waiting, halfgone, opctx;
  cbn -[Z.of_nat]; rewrite ?(upd_neq (A _) a a') by auto;
  destruct (apc (A _ a')) eqn:Eo; cbn -[Z.of_nat] in Ho |- *;
  a_facts Hi a; brk; num;
  repeat match goal with |- _ /\ _ => split end;
  try assumption; try (intros; assumption); intros; brk; try assumption; fin.

Lemma o_env s ac s' a a' : Inv s ->
  (ac = Busy a \/ ac = Abort a \/ ac = Drop a \/ ac = Panic a \/ exists o, ac = Call a o) ->
  a' <> a -> step s ac = Some s' -> ainv s' a'.
Proof.
  intros Hi Hac Hne H. destruct (IG _ Hi) as (G1 & G2 & G3 & G4 & G5 & G6 & G7 & G8 & G9 & G10 & G11).
  destruct Hac as [->|[->|[->|[->|[o ->]]]]]; other_env Hi H a a'.
  all: try solve [yclause Hi a].
  all: other_fin.
Qed.

Lemma pres_A_other s ac s' a' : Inv s -> a' <> actor_of ac -> step s ac = Some s' -> ovf s' = false -> ainv s' a'.
Proof.
  intros Hi Hne H Hov. destruct ac as [a o|a|a|a|a|a]; cbn [actor_of] in Hne.
  2: { destruct (apc (A s a)) eqn:EP;
       first [ solve [unfold step in H; rewrite EP in H; discriminate H]
             | eapply o_RL; eassumption | eapply o_T0; eassumption | eapply o_T1; eassumption | eapply o_L1; eassumption
             | eapply o_L2; eassumption | eapply o_H1; eassumption | eapply o_H2; eassumption | eapply o_H3; eassumption
             | eapply o_H4; eassumption | eapply o_U0; eassumption | eapply o_PK; eassumption | eapply o_C1; eassumption
             | eapply o_C2; eassumption | eapply o_C3; eassumption | eapply o_C4; eassumption | eapply o_GW; eassumption
             | eapply o_RG; eassumption | eapply o_RUh; eassumption | eapply o_RUi; eassumption | eapply o_RUx; eassumption
             | eapply o_DWP; eassumption | eapply o_DR0; eassumption ]. }
  - eapply (o_env s (Call a o) s' a a' Hi); [right; right; right; right; exists o; reflexivity | exact Hne | exact H].
  - eapply (o_env s (Busy a) s' a a' Hi); [left; reflexivity | exact Hne | exact H].
  - eapply (o_env s (Abort a) s' a a' Hi); [right; left; reflexivity | exact Hne | exact H].
  - eapply (o_env s (Drop a) s' a a' Hi); [right; right; left; reflexivity | exact Hne | exact H].
  - eapply (o_env s (Panic a) s' a a' Hi); [right; right; right; left; reflexivity | exact Hne | exact H].
Qed.
