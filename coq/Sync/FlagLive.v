(* SyncFlag: "waiters registered before the store are all popped" as a safety statement -
   in a quiescent state after a user-level fire() nobody is parked.
   Ghost overlay on FlagModel (stepped alongside, never read by the model):
     ag b   the agent that popped b in wakeup_all
     dl b   the token of b has been set (A3 executed on b)
   plus structural facts the first invariant (FlagInv.v) did not need. *)
From Coq Require Import List Arith ZArith Bool Lia.
Import ListNotations.
Require Import MayV.Sync.FlagModel MayV.Sync.FlagInv.
Open Scope Z_scope.

Record lv := { ag : nat -> nat; dl : nat -> bool }.
Definition lv0 : lv := {| ag := fun _ => O; dl := fun _ => false |}.

Definition lstep (s : st) (o : lv) (ac : action) : lv :=
  match ac with
  | Step a =>
      let x := A s a in
      match apc x with
      | A1 => match q s with v :: _ => {| ag := upd (ag o) v a; dl := dl o |} | [] => o end
      | A3 => {| ag := ag o; dl := upd (dl o) (aw x) true |}
      | _ => o
      end
  | _ => o
  end.

Section L.
Variable MAX : Z.
Hypothesis MAXpos : 0 < MAX.
Notation step := (step MAX).
Notation Reach := (Reach MAX).

Inductive ReachL : st -> lv -> Prop :=
| RL0 : ReachL init lv0
| RLS s o a s' : ReachL s o -> step s a = Some s' -> ReachL s' (lstep s o a).

Lemma reachL_reach s o : ReachL s o -> Reach s.
Proof. induction 1; [constructor | econstructor; eauto]. Qed.
Lemma reach_reachL s : Reach s -> exists o, ReachL s o.
Proof. induction 1 as [|s a s' R [o IH] H]; [eexists; constructor | eexists; econstructor; eauto]. Qed.

Definition own (s : st) (b : nat) : nat := owner (Bk s b).
Definition inpark (x : act) : bool :=
  match apc x, actx x with
  | (F0 | A1 | A2 | A3 | A4), RPark => true
  | _, _ => false
  end.
Definition prepark (x : act) : bool := match apc x with W2 | WP => true | _ => inpark x end.
Definition attpc (x : act) : bool := match apc x with W2 | WP | WW | E1 | E2 | E3 | E4 => true | _ => inpark x end.
Definition looppc (p : pc) : bool := match p with F0 | A1 | A2 | A3 | A4 => true | _ => false end.
Definition agentpc (p : pc) : bool := match p with A2 | A3 | A4 => true | _ => false end.
Definition holds23 (s : st) (o : lv) (b : nat) : Prop :=
  aw (A s (ag o b)) = b /\ (apc (A s (ag o b)) = A2 \/ apc (A s (ag o b)) = A3).

(* structure: the queue holds distinct, allocated blockers; an actor inside its wait owns its blocker *)
Definition G1 (s : st) : Prop :=
  NoDup (q s) /\ (1 <= nextb s)%nat /\ (forall b, In b (q s) -> (1 <= b < nextb s)%nat).
Definition G2 (s : st) : Prop := forall a, attpc (A s a) = true -> owner (Bk s (ab (A s a))) = a /\ (1 <= ab (A s a))%nat.
Definition G3 (s : st) : Prop := forall a, apc (A s a) = WW -> parked (Bk s (ab (A s a))) = true.
(* once fired, every queued blocker has somebody who will pop it: its owner is about to see the
   positive counter at its fetch_sub, or some actor is inside fire()/wakeup_all *)
Definition F1 (s : st) : Prop := ufired s = true -> fbound s < MAX ->
  forall b, In b (q s) -> (apc (A s (own s b)) = W2 /\ ab (A s (own s b)) = b) \/ exists a, looppc (apc (A s a)) = true.
Definition F6 (s : st) (o : lv) : Prop := forall a, agentpc (apc (A s a)) = true ->
  ag o (aw (A s a)) = a /\ ~ In (aw (A s a)) (q s) /\ (1 <= aw (A s a) < nextb s)%nat.
Definition F2 (s : st) (o : lv) : Prop := forall b, (1 <= b < nextb s)%nat -> ~ In b (q s) -> dl o b = true \/ holds23 s o b.
Definition F3 (s : st) (o : lv) : Prop := forall b, dl o b = true -> ab (A s (own s b)) = b ->
  (apc (A s (own s b)) = WW -> reason (Bk s b) <> None) /\ (prepark (A s (own s b)) = true -> tok (Bk s b) = true).
Definition F5 (s : st) (o : lv) : Prop := forall b, (nextb s <= b)%nat -> dl o b = false.

Record LInv (s : st) (o : lv) : Prop := {
  IG1 : G1 s; IG2 : G2 s; IG3 : G3 s; IF1 : F1 s; IF6 : F6 s o; IF2 : F2 s o; IF3 : F3 s o; IF5 : F5 s o }.

Lemma linv_init : LInv init lv0.
Proof.
  constructor; unfold G1, G2, G3, F1, F6, F2, F3, F5; cbn; intros; try discriminate; try tauto;
    repeat split; intros; try discriminate; try tauto; try lia; auto; try constructor.
Qed.
End L.
