(* C05 - preservation of Inv2: N2a, N2b (token delivery) *)
From Coq Require Import List Arith Bool Lia.
Import ListNotations.
Require Import MayV.Sync.MutexModel MayV.Sync.MutexInv MayV.Sync.MutexLiveInv.

Section S.
Variable isco : nat -> bool.
Notation step := (step isco).

Ltac brk2 := brk; repeat (match goal with H : True -> _ |- _ => specialize (H I) end; brk).

Lemma pres2_N2a s ac s' : Inv s -> Inv2 s -> step s ac = Some s' ->
  forall b, holder s' = HB b ->
    (apc (A s' (ag (Bk s' b))) = H3 /\ aw (A s' (ag (Bk s' b))) = b) \/ Tdeliv s' b.
Proof.
  intros Hi Hj H b. destruct (IG _ Hi) as (G1 & G2 & G3 & G4 & G5 & G6).
  pose proof (K1 _ Hj b) as Hk. cbn in Hk. unfold waiting, halfgone in Hk.
  pose proof (N2a _ Hj b) as Hn. unfold Tdeliv in Hn.
  pose proof (IB _ Hi b) as Hb. unfold binv, waiting, halfgone in Hb. destruct Hb as (B1 & B2 & B3 & B4 & B5).
  pose proof (PK _ Hj (owner (Bk s b))) as Hpk.
  step_cases H; try destruct (actx (A s a)) eqn:Ectx; try a_facts Hi a;
    unfold Tdeliv, set_pc, fresh; cbn; intros Hh; try discriminate;
    try (injection Hh as <-); brk.
  all: try (specialize (Hk Hh)); try (specialize (Hn Hh)); brk.
  all: repeat (upd_tac; cbn in * ).
  all: try (match goal with e : ?b = _ |- _ => is_var b; subst b end).
  all: repeat match goal with
       | H : context [upd ?f ?i ?v ?i] |- _ => rewrite (upd_eq f i v) in H; cbn in H
       | H : context [upd ?f ?i ?v ?j], ne : ?j <> ?i |- _ => rewrite (upd_neq f i j v ne) in H; cbn in H
       end.
  all: try solve [exfalso; assert (nextb s <= b) by lia; brk; fin0].
  all: try solve [exfalso; cbn in *; brk2; fin0].
  all: try solve [exfalso; match goal with H : nextb ?s <= ?x -> _ |- _ => assert (nextb s <= x) by lia end; brk2; fin0].
  all: try solve [left; brk2; split; fin0].
  all: try solve [right; brk2; split; intros; brk2; fin0].
  all: try (destruct Hn as [[Hn1 Hn2]|[Ht1 Ht2]];
            [ try solve [left; brk2; split; fin0]; try solve [right; brk2; split; intros; brk2; fin0]
            | try solve [exfalso; brk2; fin0]; try solve [right; brk2; split; intros; brk2; fin0] ]).
Qed.

Lemma pres2_N2b s ac s' : Inv s -> Inv2 s -> step s ac = Some s' ->
  forall b, holder s' = HB b -> apc (A s' (owner (Bk s' b))) = Exit ->
    (apc (A s' (ag (Bk s' b))) = H3 \/ apc (A s' (ag (Bk s' b))) = H3w \/ apc (A s' (ag (Bk s' b))) = H4) /\ aw (A s' (ag (Bk s' b))) = b.
Proof.
  intros Hi Hj H b. destruct (IG _ Hi) as (G1 & G2 & G3 & G4 & G5 & G6).
  pose proof (K1 _ Hj b) as Hk. cbn in Hk. unfold waiting, halfgone in Hk.
  pose proof (N2b _ Hj b) as Hn.
  pose proof (IB _ Hi b) as Hb. unfold binv, waiting, halfgone in Hb. destruct Hb as (B1 & B2 & B3 & B4 & B5).
  step_cases H; try destruct (actx (A s a)) eqn:Ectx; try a_facts Hi a;
    unfold set_pc, fresh; cbn; intros Hh; try discriminate;
    try (injection Hh as <-); brk.
  all: try (specialize (Hk Hh)); brk.
  all: repeat (upd_tac; cbn in * ).
  all: try (match goal with e : ?b = _ |- _ => is_var b; subst b end).
  all: repeat match goal with
       | H : context [upd ?f ?i ?v ?i] |- _ => rewrite (upd_eq f i v) in H; cbn in H
       | H : context [upd ?f ?i ?v ?j], ne : ?j <> ?i |- _ => rewrite (upd_neq f i j v ne) in H; cbn in H
       end.
  all: intros Hex; try discriminate; brk2.
  all: try solve [exfalso; cbn in *; brk2; fin0].
  all: try solve [exfalso; match goal with H : nextb ?s <= ?x -> _ |- _ => assert (nextb s <= x) by lia end; brk2; fin0].
  all: try solve [split; fin0].
  all: try solve [destruct Hn as [[Hn1|Hn1] Hn2]; split; fin0].
  all: try solve [exfalso; repeat match goal with e : ag _ = _ |- _ => rewrite e in * end; rewrite ?Epc in *; intuition congruence].
  all: try solve [rewrite ?Epc in *; intuition congruence].
Qed.
End S.
