(* Preservation of the overlay invariant of SemLive.v, clause L3 (unflagged registered blockers): the cases env, W0, W0c, W1, W2, WP, WW, E1, E2, E3, E4, P0, K1, K2, K3, K4, Y0, Y0c, G0
   (env = the actions other than Step).  Script in SemLiveTac.v; assembled in SemLiveB.v. *)
From Coq Require Import List Arith ZArith Bool Lia.
Import ListNotations.
Require Import MayV.Sync.SemModel MayV.Sync.SemInv MayV.Sync.SemTac MayV.Sync.SemCase MayV.Sync.SemLive MayV.Sync.SemLiveTac.
Open Scope Z_scope.

Lemma pres_L3_env s o ac s' : Inv s -> LInv s o -> is_step ac = false -> step s ac = Some s' -> L3 s' (lstep s o ac).
Proof.
  intros Hi HL Hn H. l3_pre HL.
  destruct ac as [a t|a|a|a|a|a]; try discriminate Hn; g_facts Hi; step_cases H; ostep_red; prj.
  all: l3_script Hi s a P3.
Qed.

Lemma pres_L3_W0 s o a s' : Inv s -> LInv s o -> apc (A s a) = W0 -> step s (Step a) = Some s' -> L3 s' (lstep s o (Step a)).
Proof. intros Hi HL Epc H. l3_pre HL. lsetup_at Hi H Epc. all: l3_script Hi s a P3. Qed.

Lemma pres_L3_W0c s o a s' : Inv s -> LInv s o -> apc (A s a) = W0c -> step s (Step a) = Some s' -> L3 s' (lstep s o (Step a)).
Proof. intros Hi HL Epc H. l3_pre HL. lsetup_at Hi H Epc. all: l3_script Hi s a P3. Qed.

Lemma pres_L3_W1 s o a s' : Inv s -> LInv s o -> apc (A s a) = W1 -> step s (Step a) = Some s' -> L3 s' (lstep s o (Step a)).
Proof. intros Hi HL Epc H. l3_pre HL. lsetup_at Hi H Epc. all: l3_script Hi s a P3. Qed.

Lemma pres_L3_W2 s o a s' : Inv s -> LInv s o -> apc (A s a) = W2 -> step s (Step a) = Some s' -> L3 s' (lstep s o (Step a)).
Proof. intros Hi HL Epc H. l3_pre HL. lsetup_at Hi H Epc. all: l3_script Hi s a P3. Qed.

Lemma pres_L3_WP s o a s' : Inv s -> LInv s o -> apc (A s a) = WP -> step s (Step a) = Some s' -> L3 s' (lstep s o (Step a)).
Proof. intros Hi HL Epc H. l3_pre HL. lsetup_at Hi H Epc. all: l3_script Hi s a P3. Qed.

Lemma pres_L3_WW s o a s' : Inv s -> LInv s o -> apc (A s a) = WW -> step s (Step a) = Some s' -> L3 s' (lstep s o (Step a)).
Proof. intros Hi HL Epc H. l3_pre HL. lsetup_at Hi H Epc. all: l3_script Hi s a P3. Qed.

Lemma pres_L3_E1 s o a s' : Inv s -> LInv s o -> apc (A s a) = E1 -> step s (Step a) = Some s' -> L3 s' (lstep s o (Step a)).
Proof. intros Hi HL Epc H. l3_pre HL. lsetup_at Hi H Epc. all: l3_script Hi s a P3. Qed.

Lemma pres_L3_E2 s o a s' : Inv s -> LInv s o -> apc (A s a) = E2 -> step s (Step a) = Some s' -> L3 s' (lstep s o (Step a)).
Proof. intros Hi HL Epc H. l3_pre HL. lsetup_at Hi H Epc. all: l3_script Hi s a P3. Qed.

Lemma pres_L3_E3 s o a s' : Inv s -> LInv s o -> apc (A s a) = E3 -> step s (Step a) = Some s' -> L3 s' (lstep s o (Step a)).
Proof. intros Hi HL Epc H. l3_pre HL. lsetup_at Hi H Epc. all: l3_script Hi s a P3. Qed.

Lemma pres_L3_E4 s o a s' : Inv s -> LInv s o -> apc (A s a) = E4 -> step s (Step a) = Some s' -> L3 s' (lstep s o (Step a)).
Proof. intros Hi HL Epc H. l3_pre HL. lsetup_at Hi H Epc. all: l3_script Hi s a P3. Qed.

Lemma pres_L3_P0 s o a s' : Inv s -> LInv s o -> apc (A s a) = P0 -> step s (Step a) = Some s' -> L3 s' (lstep s o (Step a)).
Proof. intros Hi HL Epc H. l3_pre HL. lsetup_at Hi H Epc. all: l3_script Hi s a P3. Qed.

Lemma pres_L3_K1 s o a s' : Inv s -> LInv s o -> apc (A s a) = K1 -> step s (Step a) = Some s' -> L3 s' (lstep s o (Step a)).
Proof. intros Hi HL Epc H. l3_pre HL. lsetup_at Hi H Epc. all: l3_script Hi s a P3. Qed.

Lemma pres_L3_K2 s o a s' : Inv s -> LInv s o -> apc (A s a) = K2 -> step s (Step a) = Some s' -> L3 s' (lstep s o (Step a)).
Proof. intros Hi HL Epc H. l3_pre HL. lsetup_at Hi H Epc. all: l3_script Hi s a P3. Qed.

Lemma pres_L3_K3 s o a s' : Inv s -> LInv s o -> apc (A s a) = K3 -> step s (Step a) = Some s' -> L3 s' (lstep s o (Step a)).
Proof. intros Hi HL Epc H. l3_pre HL. lsetup_at Hi H Epc. all: l3_script Hi s a P3. Qed.

Lemma pres_L3_K4 s o a s' : Inv s -> LInv s o -> apc (A s a) = K4 -> step s (Step a) = Some s' -> L3 s' (lstep s o (Step a)).
Proof. intros Hi HL Epc H. l3_pre HL. lsetup_at Hi H Epc. all: l3_script Hi s a P3. Qed.

Lemma pres_L3_Y0 s o a s' : Inv s -> LInv s o -> apc (A s a) = Y0 -> step s (Step a) = Some s' -> L3 s' (lstep s o (Step a)).
Proof. intros Hi HL Epc H. l3_pre HL. lsetup_at Hi H Epc. all: l3_script Hi s a P3. Qed.

Lemma pres_L3_Y0c s o a s' : Inv s -> LInv s o -> apc (A s a) = Y0c -> step s (Step a) = Some s' -> L3 s' (lstep s o (Step a)).
Proof. intros Hi HL Epc H. l3_pre HL. lsetup_at Hi H Epc. all: l3_script Hi s a P3. Qed.

Lemma pres_L3_G0 s o a s' : Inv s -> LInv s o -> apc (A s a) = G0 -> step s (Step a) = Some s' -> L3 s' (lstep s o (Step a)).
Proof. intros Hi HL Epc H. l3_pre HL. lsetup_at Hi H Epc. all: l3_script Hi s a P3. Qed.
