(* Preservation of SemInv.Inv, ainv of an actor other than the stepping one: the cases env, W0, W0c, W1, W2, WP, WW (env = the actions other than Step).
   Script in SemPresTac.v; assembled in SemPresO.v. *)
From Coq Require Import List Arith ZArith Bool Lia.
Import ListNotations.
Require Import MayV.Sync.SemModel MayV.Sync.SemInv MayV.Sync.SemTac MayV.Sync.SemCase MayV.Sync.SemPresTac.
Open Scope Z_scope.

Lemma pres_A_other_env s ac s' a' : Inv s -> is_step ac = false -> step s ac = Some s' -> actor ac <> a' -> ainv s' a'.
Proof.
  intros Hi Hn H Hx. g_facts Hi. destruct ac as [a t|a|a|a|a|a]; try discriminate Hn; cbn [actor] in Hx; step_cases H.
  all: ao_script Hi s a a' Hx.
Qed.

Lemma pres_A_other_W0 s a s' a' : Inv s -> apc (A s a) = W0 -> step s (Step a) = Some s' -> a <> a' -> ainv s' a'.
Proof. intros Hi Epc H Hx. g_facts Hi. step_at H Epc. all: ao_script Hi s a a' Hx. Qed.

Lemma pres_A_other_W0c s a s' a' : Inv s -> apc (A s a) = W0c -> step s (Step a) = Some s' -> a <> a' -> ainv s' a'.
Proof. intros Hi Epc H Hx. g_facts Hi. step_at H Epc. all: ao_script Hi s a a' Hx. Qed.

Lemma pres_A_other_W1 s a s' a' : Inv s -> apc (A s a) = W1 -> step s (Step a) = Some s' -> a <> a' -> ainv s' a'.
Proof. intros Hi Epc H Hx. g_facts Hi. step_at H Epc. all: ao_script Hi s a a' Hx. Qed.

Lemma pres_A_other_W2 s a s' a' : Inv s -> apc (A s a) = W2 -> step s (Step a) = Some s' -> a <> a' -> ainv s' a'.
Proof. intros Hi Epc H Hx. g_facts Hi. step_at H Epc. all: ao_script Hi s a a' Hx. Qed.

Lemma pres_A_other_WP s a s' a' : Inv s -> apc (A s a) = WP -> step s (Step a) = Some s' -> a <> a' -> ainv s' a'.
Proof. intros Hi Epc H Hx. g_facts Hi. step_at H Epc. all: ao_script Hi s a a' Hx. Qed.

Lemma pres_A_other_WW s a s' a' : Inv s -> apc (A s a) = WW -> step s (Step a) = Some s' -> a <> a' -> ainv s' a'.
Proof. intros Hi Epc H Hx. g_facts Hi. step_at H Epc. all: ao_script Hi s a a' Hx. Qed.
