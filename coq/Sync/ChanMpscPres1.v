(* Preservation of the mpsc channel invariant, part 1: control/slot/blocker/sender/accounting clauses. *)
From Coq Require Import List Arith Bool Lia.
Import ListNotations.
Require Import MayV.Sync.ChanMpscModel MayV.Sync.ChanMpscInv.


Lemma pres_rc s ac s' : Inv s -> step s ac = Some s' ->
  match rp (R s') with RClear | RPark | RWait => rc (R s') = CReg | _ => True end.
Proof.
  intros Hi H. pose proof (I_rc _ Hi) as P.
  go H; auto.
Qed.

Lemma pres_rb s ac s' : Inv s -> step s ac = Some s' -> inreg (R s') = true -> rb (R s') < nextb s'.
Proof.
  intros Hi H. pose proof (I_rb _ Hi) as P. pose proof (I_rc _ Hi) as P2.
  go H; auto; try discriminate; try (intros; lia).
Qed.

Lemma pres_slot s ac s' : Inv s -> step s ac = Some s' -> forall b, slot s' = Some b -> b < nextb s'.
Proof.
  intros Hi H. pose proof (I_slot _ Hi) as P.
  go H; auto; try discriminate; intros b0 Hb; try (inversion Hb; subst; lia); try (specialize (P _ Hb); lia).
Qed.

Lemma pres_slotreg s ac s' : Inv s -> step s ac = Some s' -> inreg (R s') = true -> slot s' = Some (rb (R s')) \/ slot s' = None.
Proof.
  intros Hi H. pose proof (I_slotreg _ Hi) as P. pose proof (I_rc _ Hi) as P2.
  go H; auto; try discriminate.
Qed.



Lemma pres_B s ac s' : Inv s -> step s ac = Some s' -> forall b, binv s' b.
Proof.
  intros Hi H b. pose proof (I_B _ Hi b) as P. pose proof (I_rc _ Hi) as P2. pose proof (I_rb _ Hi) as P3.
  pose proof (I_B _ Hi (rb (R s))) as P4. pose proof (I_wait _ Hi) as P5.
  unfold binv in *.
  go H; auto.
  all: try match goal with E : sp (Sd ?s0 ?a) = SUnpark, Hi : Inv ?s0 |- _ => pose proof (I_S _ Hi a) as Q; unfold sinv in Q; rewrite E in Q; boolh end.
  all: fin.
  all: try match goal with H : _ <= ?b -> Bk _ ?b = _ |- Bk _ ?b = _ => apply H; lia end.
  all: bdes; fin.
Qed.



Lemma pres_wait s ac s' : Inv s -> step s ac = Some s' -> rp (R s') = RWait -> parked (Bk s' (rb (R s'))) = true.
Proof.
  intros Hi H. pose proof (I_wait _ Hi) as P.
  go H; auto; try discriminate; fin.
  all: bdes; fin.
Qed.

Lemma pres_S s ac s' : Inv s -> step s ac = Some s' -> forall a, sinv s' a.
Proof.
  intros Hi H a0. pose proof (I_S _ Hi a0) as P. pose proof (I_pd _ Hi) as P1. pose proof (I_live _ Hi) as P2. pose proof (I_slot _ Hi) as P3.
  unfold sinv in *.
  go H; auto.
  all: try match goal with E : sp (Sd ?s0 ?a) = _, Hi : Inv ?s0 |- _ => pose proof (I_S _ Hi a) as Q; unfold sinv in Q; rewrite E in Q; boolh end.
  all: try match goal with E : sst (Sd ?s0 ?a) = _, Hi : Inv ?s0 |- _ => pose proof (I_S _ Hi a) as Q'; unfold sinv in Q'; rewrite E in Q'; boolh end.
  all: fin.
  all: try (apply P3; reflexivity).
  all: rewrite ?in_rm; cbn [In]; try solve [intuition (subst; try congruence)].
Qed.

Ltac sfacts := try match goal with E : sp (Sd ?s0 ?a) = _, Hi : Inv ?s0 |- _ => let Q := fresh "Q" in pose proof (I_S _ Hi a) as Q; unfold sinv in Q; rewrite E in Q; boolh end;
  try match goal with E : sst (Sd ?s0 ?a) = _, Hi : Inv ?s0 |- _ => let Q := fresh "Q" in pose proof (I_S _ Hi a) as Q; unfold sinv in Q; rewrite E in Q; boolh end.

Lemma pres_live s ac s' : Inv s -> step s ac = Some s' -> chans s' = length (live s') /\ NoDup (live s').
Proof.
  intros Hi H. pose proof (I_live _ Hi) as P.
  go H; auto; sfacts.
  - pose proof (I_S _ Hi (sto (Sd s a))) as Q. unfold sinv in Q. rewrite Est in Q. boolh.
    split; [reflexivity|]. constructor; auto. intro I. apply H12 in I. discriminate.
  - assert (In a (live s)) by (apply H2; auto). pose proof (len_rm a (live s) H0 H11). split; [lia | apply nodup_rm; auto].
  - assert (In a (live s)) by (apply H2; auto). pose proof (len_rm a (live s) H0 H11). split; [lia | apply nodup_rm; auto].
Qed.

Lemma pres_acc s ac s' : Inv s -> step s ac = Some s' -> sent s' = rcvd s' ++ drpd s' ++ q s'.
Proof.
  intros Hi H. pose proof (I_acc _ Hi) as P. pose proof (I_drpd _ Hi) as P1. pose proof (I_alive _ Hi) as P2.
  go H; auto.
  all: try (assert (D : drpd s = []) by (apply P1; [destruct (ralive (R s)); auto; specialize (P2 eq_refl); discriminate | discriminate]); rewrite D in * ).
  all: rewrite P; cbn [app]; rewrite ?app_nil_r, <- ?app_assoc; cbn [app]; auto.
Qed.

Lemma pres_alive s ac s' : Inv s -> step s ac = Some s' -> ralive (R s') = false -> rp (R s') = RIdle.
Proof.
  intros Hi H. pose proof (I_alive _ Hi) as P.
  go H; auto; try congruence; try (intros Q; specialize (P Q); discriminate).
Qed.

Lemma pres_drpd s ac s' : Inv s -> step s ac = Some s' -> ralive (R s') = true -> rp (R s') <> RPd1 -> drpd s' = [].
Proof.
  intros Hi H. pose proof (I_alive _ Hi) as P. pose proof (I_drpd _ Hi) as P1.
  go H; auto; try congruence; try (intros; apply P1; congruence).
Qed.

Lemma pres_pd s ac s' : Inv s -> step s ac = Some s' -> ralive (R s') = false \/ rp (R s') = RPd1 -> pdrop s' = true.
Proof.
  intros Hi H. pose proof (I_alive _ Hi) as P. pose proof (I_pd _ Hi) as P1.
  go H; auto; try (intros [Q|Q]; try discriminate; try (specialize (P Q); discriminate); apply P1; auto; fail).
Qed.




Lemma filter_snoc {X} (f : X -> bool) l x : filter f (l ++ [x]) = filter f l ++ (if f x then [x] else []).
Proof. rewrite filter_app. reflexivity. Qed.

Lemma pres_ord s ac s' : Inv s -> step s ac = Some s' -> forall a, filter (from a) (sent s') = map (pair a) (seq 0 (sn (Sd s' a))).
Proof.
  intros Hi H a0. pose proof (I_ord _ Hi a0) as P.
  go H; auto; upd_tac; prj; auto.
  - rewrite filter_snoc, P. unfold from at 1. cbn [fst]. rewrite Nat.eqb_refl. rewrite seq_S, map_app. reflexivity.
  - rewrite filter_snoc, P. unfold from at 1. cbn [fst]. destruct (Nat.eqb_spec a a0); [congruence|]. now rewrite app_nil_r.
Qed.
