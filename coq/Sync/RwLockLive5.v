(* C12 - preservation of Inv2: N2b (a gone owner still has an agent about to take its release) *)
From Coq Require Import List Arith ZArith Bool Lia.
Import ListNotations.
Require Import MayV.Sync.RwLockModel MayV.Sync.RwLockInv MayV.Sync.RwLockPresG MayV.Sync.RwLockPresOTac MayV.Sync.RwLockLiveInv.

Ltac brk2 := brk; repeat (match goal with H : True -> _ |- _ => specialize (H I) end; brk).

Lemma pres2_N2b s ac s' : Inv s -> Inv2 s -> step s ac = Some s' ->
  forall b, holder s' = HB b -> gone (apc (A s' (owner (Bk s' b)))) = true ->
    (apc (A s' (ag (Bk s' b))) = H3 \/ apc (A s' (ag (Bk s' b))) = H4) /\ aw (A s' (ag (Bk s' b))) = b.
Proof.
  intros Hi Hj H b. destruct (IG _ Hi) as (G1 & G2 & G3 & G4 & G5 & _).
  pose proof (K1 _ Hj b) as Hk. cbn in Hk. unfold waiting, halfgone in Hk.
  pose proof (N2b _ Hj b) as Hn. unfold gone in Hn.
  pose proof (N2a _ Hj b) as Hna. unfold Tdeliv in Hna.
  pose proof (IB _ Hi b) as Hb. unfold binv, waiting, halfgone in Hb. destruct Hb as (B1 & B2 & B3 & B4).
  step_cases H; try a_facts Hi a;
    unfold set_pc, set_pcx, fresh, gone; cbn; intros Hh; try discriminate;
    try (injection Hh as <-); brk.
  all: try (specialize (Hk Hh)); try (specialize (Hna Hh)); brk.
  all: repeat (upd_tac; cbn in * ).
  all: try (match goal with e : ?b = _ |- _ => is_var b; subst b end).
  all: repeat match goal with
       | H : context [upd ?f ?i ?v ?i] |- _ => rewrite (upd_eq f i v) in H; cbn in H
       | H : context [upd ?f ?i ?v ?j], ne : ?j <> ?i |- _ => rewrite (upd_neq f i j v ne) in H; cbn in H
       end.
  all: intros Hex; try discriminate; brk2.
  all: try solve [exfalso; cbn in *; brk2; fin0].
  all: try solve [exfalso; match goal with H : nextb ?s <= ?x -> _ |- _ => assert (nextb s <= x) by lia end; brk2; fin0].
  all: try solve [split; fin0].
  all: try solve [destruct Hn as [[Hn1|Hn1] Hn2]; split; fin0].
  all: try solve [exfalso; repeat match goal with e : ag _ = _ |- _ => rewrite e in * end; rewrite ?Epc in *; intuition congruence].
  all: try solve [rewrite ?Epc in *; intuition congruence].
  all: try solve [destruct (actx (A s a)) eqn:Ectx; destruct (aop (A s a)) eqn:Eop; cbn in *; brk2; intuition congruence].
  all: try solve [exfalso; repeat match goal with e : ag _ = _ |- _ => rewrite e in * end;
                  repeat match goal with e : aw (A _ _) = _ |- _ => rewrite e in * end;
                  destruct (apc (A s (owner (Bk s b)))); cbn in *; brk2; intuition congruence].

Qed.
