(* may::sync::Mutex - model of a HALF repair of finding F1: the Canceled branch no longer registers
   `release` when the cancel is disabled (as in the current code), but SyncBlocker::unpark still wakes
   the blocker before it stores `unparked` (as before the fix; here H2 = token, H3w = wake_up take,
   H3 = unparked.store).  Used only for the refutation in MutexRefuted.v: this variant strands a waiter,
   which is why the fix: commit contains both changes. *)
From Coq Require Import List Arith Bool Lia.
Import ListNotations.

Inductive pc := Idle | T0 | L0 | L1 | L2 | H1 | H2 | H3 | H3w | H4 | U0 | P | P1 | P2 | W
              | C1 | C2 | C3 | C4 | CS | CSw | Exit.
Inductive ctx := RPark | RDone | RExit.      (* where an unlock/unpark chain returns to *)
Inductive rsn := RU | RC.                    (* why a suspended waiter is resumed: unparked / cancelled *)
Inductive hold := HNone | HA (a : nat) | HB (b : nat).   (* ghost: the lock belongs to nobody / actor / blocker in transit *)

Record act := { apc : pc; ab : nat; aw : nat; actx : ctx; afor : nat; aign : bool; acanc : bool; aloc : nat }.
Record blk := { tok : bool; parked : bool; reason : option rsn; unp : bool; rel : bool; owner : nat; ag : nat }.
Record st := { cnt : nat; q : list nat; nextb : nat; A : nat -> act; Bk : nat -> blk;
               holder : hold; ent : list nat; data : nat; nwr : nat }.

Definition upd {X} (f : nat -> X) i v := fun j => if Nat.eqb j i then v else f j.

Inductive action :=
| Start (a : nat) (ign : bool)   (* call lock(); ign = the caller has cancellation disabled *)
| StartTry (a : nat)             (* call try_lock() *)
| Step (a : nat)                 (* the actor's next shared access *)
| Park (a : nat)                 (* P1: suspend although a cancel may just have been set (the flag was read earlier) *)
| Kick (a : nat)                 (* subscribe's re-check: token set, still registered -> resume itself (Ok) *)
| Cancel (a : nat)               (* Cancel::cancel: state.fetch_or(1) *)
| CKick (a : nat)                (* Cancel::cancel / subscribe's cancel re-check: takes the registered coroutine -> Canceled *)
| Read (a : nat)                 (* holder reads the protected payload *)
| Write (a : nat).               (* holder writes back local + 1 *)

Section Model.
Variable isco : nat -> bool.      (* which actors are coroutines (cancellable) *)

Definition set_pc (x : act) p :=
  {| apc := p; ab := ab x; aw := aw x; actx := actx x; afor := afor x; aign := aign x; acanc := acanc x; aloc := aloc x |}.
Definition ret_pc (c : ctx) := match c with RPark => P | RDone => Idle | RExit => Exit end.
Definition fresh (o : nat) := {| tok := false; parked := false; reason := None; unp := false; rel := false; owner := o; ag := 0 |}.

Definition mk c q' n A' B' h e d w :=
  {| cnt := c; q := q'; nextb := n; A := A'; Bk := B'; holder := h; ent := e; data := d; nwr := w |}.

(* same state, other actor map / blocker map *)
Definition setA (s : st) A' := mk (cnt s) (q s) (nextb s) A' (Bk s) (holder s) (ent s) (data s) (nwr s).
Definition setAB (s : st) A' B' := mk (cnt s) (q s) (nextb s) A' B' (holder s) (ent s) (data s) (nwr s).
Definition setABH (s : st) A' B' h := mk (cnt s) (q s) (nextb s) A' B' h (ent s) (data s) (nwr s).

Definition step (s : st) (ac : action) : option st :=
  match ac with
  | Start a ign =>
      let x := A s a in
      match apc x with
      | Idle => Some (setA s (upd (A s) a {| apc := L0; ab := ab x; aw := aw x; actx := actx x; afor := afor x; aign := ign; acanc := acanc x; aloc := aloc x |}))
      | _ => None
      end
  | StartTry a =>
      let x := A s a in
      match apc x with
      | Idle => Some (setA s (upd (A s) a (set_pc x T0)))
      | _ => None
      end
  | Cancel a =>
      if isco a then
        let x := A s a in
        Some (setA s (upd (A s) a {| apc := apc x; ab := ab x; aw := aw x; actx := actx x; afor := afor x; aign := aign x; acanc := true; aloc := aloc x |}))
      else None
  | CKick a =>
      let x := A s a in let b := Bk s (ab x) in
      match apc x with
      | W => if isco a && acanc x && parked b then
               match reason b with
               | None => Some (setAB s (A s)
                           (upd (Bk s) (ab x) {| tok := tok b; parked := parked b; reason := Some RC; unp := unp b; rel := rel b; owner := owner b; ag := ag b |}))
               | Some _ => None
               end
             else None
      | _ => None
      end
  | Kick a =>
      let x := A s a in let b := Bk s (ab x) in
      match apc x with
      | W => if tok b && parked b then
               match reason b with
               | None => Some (setAB s (A s)
                           (upd (Bk s) (ab x) {| tok := tok b; parked := parked b; reason := Some RU; unp := unp b; rel := rel b; owner := owner b; ag := ag b |}))
               | Some _ => None
               end
             else None
      | _ => None
      end
  | Park a =>
      let x := A s a in let b := Bk s (ab x) in
      match apc x with
      | P1 => Some (setAB s (upd (A s) a (set_pc x W))
                      (upd (Bk s) (ab x) {| tok := tok b; parked := true; reason := None; unp := unp b; rel := rel b; owner := owner b; ag := ag b |}))
      | _ => None
      end
  | Read a =>
      let x := A s a in
      match apc x with
      | CS => Some (setA s (upd (A s) a {| apc := CSw; ab := ab x; aw := aw x; actx := actx x; afor := afor x; aign := aign x; acanc := acanc x; aloc := data s |}))
      | _ => None
      end
  | Write a =>
      let x := A s a in
      match apc x with
      | CSw => Some (mk (cnt s) (q s) (nextb s) (upd (A s) a (set_pc x CS)) (Bk s) (holder s) (ent s) (S (aloc x)) (S (nwr s)))
      | _ => None
      end
  | Step a =>
      let x := A s a in
      let b := Bk s (ab x) in
      let w := Bk s (aw x) in
      match apc x with
      | Idle | Exit | CSw => None
      | T0 => if Nat.eqb (cnt s) 0
              then Some (mk 1 (q s) (nextb s) (upd (A s) a (set_pc x CS)) (Bk s) (HA a) (a :: ent s) (data s) (nwr s))
              else Some (setA s (upd (A s) a (set_pc x Idle)))
      | L0 => if Nat.eqb (cnt s) 0
              then Some (mk 1 (q s) (nextb s) (upd (A s) a (set_pc x CS)) (Bk s) (HA a) (a :: ent s) (data s) (nwr s))
              else Some (setA s (upd (A s) a (set_pc x L1)))
      | L1 => let n := nextb s in
              Some (mk (cnt s) (q s ++ [n]) (S n)
                     (upd (A s) a {| apc := L2; ab := n; aw := aw x; actx := actx x; afor := afor x; aign := aign x; acanc := acanc x; aloc := aloc x |})
                     (upd (Bk s) n (fresh a)) (holder s) (ent s) (data s) (nwr s))
      | L2 => if Nat.eqb (cnt s) 0
              then Some (mk 1 (q s) (nextb s)
                     (upd (A s) a {| apc := H1; ab := ab x; aw := aw x; actx := RPark; afor := afor x; aign := aign x; acanc := acanc x; aloc := aloc x |})
                     (Bk s) (HA a) (a :: ent s) (data s) (nwr s))
              else Some (mk (S (cnt s)) (q s) (nextb s) (upd (A s) a (set_pc x P)) (Bk s) (holder s) (a :: ent s) (data s) (nwr s))
      | H1 => match q s with
              | [] => None                               (* expect("got null blocker!") *)
              | v :: q' => Some (mk (cnt s) q' (nextb s)
                     (upd (A s) a {| apc := H2; ab := ab x; aw := v; actx := actx x; afor := afor x; aign := aign x; acanc := acanc x; aloc := aloc x |})
                     (Bk s) (holder s) (ent s) (data s) (nwr s))
              end
      | H2 => if tok w
              then Some (setA s (upd (A s) a (set_pc x H3)))
              else Some (setAB s (upd (A s) a (set_pc x H3w))
                     (upd (Bk s) (aw x) {| tok := true; parked := parked w; reason := reason w; unp := unp w; rel := rel w; owner := owner w; ag := ag w |}))
      | H3w => Some (setAB s (upd (A s) a (set_pc x H3))
                     (upd (Bk s) (aw x) {| tok := tok w; parked := parked w;
                                           reason := (if parked w then match reason w with None => Some RU | r => r end else reason w);
                                           unp := unp w; rel := rel w; owner := owner w; ag := ag w |}))
      | H3 => Some (setABH s (upd (A s) a (set_pc x H4))
                     (upd (Bk s) (aw x) {| tok := tok w; parked := parked w; reason := reason w; unp := true; rel := rel w; owner := owner w; ag := a |})
                     (HB (aw x)))
      | H4 => if rel w
              then Some (setABH s
                     (upd (A s) a {| apc := U0; ab := ab x; aw := aw x; actx := actx x; afor := owner w; aign := aign x; acanc := acanc x; aloc := aloc x |})
                     (upd (Bk s) (aw x) {| tok := tok w; parked := parked w; reason := reason w; unp := unp w; rel := false; owner := owner w; ag := ag w |})
                     (HA a))
              else Some (setA s (upd (A s) a (set_pc x (ret_pc (actx x)))))
      | U0 => if Nat.ltb 1 (cnt s)
              then Some (mk (cnt s - 1) (q s) (nextb s) (upd (A s) a (set_pc x H1)) (Bk s) (holder s) (remove Nat.eq_dec (afor x) (ent s)) (data s) (nwr s))
              else Some (mk (cnt s - 1) (q s) (nextb s) (upd (A s) a (set_pc x (ret_pc (actx x)))) (Bk s) HNone (remove Nat.eq_dec (afor x) (ent s)) (data s) (nwr s))
      | P => if tok b
             then Some (setABH s (upd (A s) a (set_pc x CS))
                     (upd (Bk s) (ab x) {| tok := false; parked := parked b; reason := reason b; unp := unp b; rel := rel b; owner := owner b; ag := ag b |})
                     (HA a))
             else Some (setA s (upd (A s) a (set_pc x P1)))
      | P1 => if acanc x && negb (aign x)
              then Some (setA s (upd (A s) a (set_pc x P2)))
              else Some (setAB s (upd (A s) a (set_pc x W))
                     (upd (Bk s) (ab x) {| tok := tok b; parked := true; reason := None; unp := unp b; rel := rel b; owner := owner b; ag := ag b |}))
      | P2 => Some (setAB s (upd (A s) a (set_pc x C1))
                     (upd (Bk s) (ab x) {| tok := false; parked := parked b; reason := reason b; unp := unp b; rel := rel b; owner := owner b; ag := ag b |}))
      | W => match reason b with
             | None => None
             | Some RU => Some (setABH s (upd (A s) a (set_pc x CS))
                     (upd (Bk s) (ab x) {| tok := false; parked := false; reason := None; unp := unp b; rel := rel b; owner := owner b; ag := ag b |})
                     (HA a))
             | Some RC => Some (setAB s (upd (A s) a (set_pc x C1))
                     (upd (Bk s) (ab x) {| tok := false; parked := false; reason := None; unp := unp b; rel := rel b; owner := owner b; ag := ag b |}))
             end
      | C1 => if unp b
              then (if aign x
                    then Some (setABH s (upd (A s) a (set_pc x CS)) (Bk s) (HA a))
                    else Some (setABH s
                           (upd (A s) a {| apc := U0; ab := ab x; aw := aw x; actx := RExit; afor := a; aign := aign x; acanc := acanc x; aloc := aloc x |})
                           (Bk s) (HA a)))
              else (if aign x
                    then Some (setA s (upd (A s) a (set_pc x P)))
                    else Some (setA s (upd (A s) a (set_pc x C2))))
      | C2 => Some (setAB s (upd (A s) a (set_pc x C3))
                     (upd (Bk s) (ab x) {| tok := tok b; parked := parked b; reason := reason b; unp := unp b; rel := true; owner := owner b; ag := ag b |}))
      | C3 => if unp b
              then Some (setA s (upd (A s) a (set_pc x C4)))
              else Some (setA s (upd (A s) a (set_pc x Exit)))
      | C4 => if rel b
              then Some (setABH s
                     (upd (A s) a {| apc := U0; ab := ab x; aw := aw x; actx := RExit; afor := a; aign := aign x; acanc := acanc x; aloc := aloc x |})
                     (upd (Bk s) (ab x) {| tok := tok b; parked := parked b; reason := reason b; unp := unp b; rel := false; owner := owner b; ag := ag b |})
                     (HA a))
              else Some (setA s (upd (A s) a (set_pc x Exit)))
      | CS => Some (setA s
                     (upd (A s) a {| apc := U0; ab := ab x; aw := aw x; actx := RDone; afor := a; aign := aign x; acanc := acanc x; aloc := aloc x |}))
      end
  end.

Definition act0 := {| apc := Idle; ab := 0; aw := 0; actx := RDone; afor := 0; aign := false; acanc := false; aloc := 0 |}.
Definition init : st := mk 0 [] 1 (fun _ => act0) (fun _ => fresh 0) HNone [] 0 0.
  (* blocker 0 is a dummy never pushed; real blockers start at 1 *)

Inductive Reach : st -> Prop :=
| R0 : Reach init
| RS s a s' : Reach s -> step s a = Some s' -> Reach s'.

Fixpoint run (s : st) (l : list action) : st :=
  match l with [] => s | a :: l' => match step s a with Some s' => run s' l' | None => run s l' end end.
Lemma run_reach l : forall s, Reach s -> Reach (run s l).
Proof. induction l as [|a l IH]; cbn; intros s R; auto. destruct (step s a) eqn:E; eauto using RS. Qed.

End Model.
