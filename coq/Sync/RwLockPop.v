(* C12 - third invariant: the pop of the waiter queue never finds it empty, i.e. the
   `expect("got null blocker!")` of RwLock::lock / RwLock::unlock is unreachable.
     P1  a live unflagged registration is in the queue, or is the one the lock owner has just popped;
     P2  the entry of a cancelled waiter that has given up is covered by its release flag or by an
         unlock in progress on its behalf;
     P3  an unlocker about to pop left at least one entry in the counter. *)
From Coq Require Import List Arith ZArith Bool Lia.
Import ListNotations.
Require Import MayV.Sync.RwLockModel MayV.Sync.RwLockInv MayV.Sync.RwLockPresG MayV.Sync.RwLockPresOTac MayV.Sync.RwLockPresB.
Require Import MayV.Sync.RwLockLiveInv MayV.Sync.RwLockLive2 MayV.Sync.RwLockThm.

(* going backwards: a live unflagged registration after a step was one before it (unless it was just pushed) *)
Lemma QP_back s ac s' b : Inv s -> step s ac = Some s' -> QP s' b -> b < nextb s -> QP s b.
Proof.
  intros Hi H Hq Hlt.
  pose proof (IB _ Hi b) as Hb. unfold binv in Hb. destruct Hb as (B1 & B2 & B3 & B4).
  revert Hq. unfold QP, waiting, halfgone.
  step_cases H; try a_facts Hi a;
    unfold set_pc, set_pcx, fresh; cbn; upd_tac; cbn in *; intros (Q_u & Q_ab & Q_1 & Q_w); brk;
    repeat match goal with |- _ /\ _ => split end; fin0.
  all: try (rewrite Epc in *; cbn in *; brk; fin0).
  all: try solve [destruct (actx (A s a)) eqn:Ectx; destruct (aop (A s a)) eqn:Eop; cbn in *; brk; intuition congruence].
  all: try (match goal with e : ?b = ab _ |- _ => rewrite e in * end; brk; fin0).
  all: try solve [unfold halfgone, waiting in *; repeat match goal with E : owner (Bk _ _) = _ |- _ => rewrite E in * end;
                  rewrite Epc in *; destruct (actx (A s a)) eqn:Ectx; destruct (aop (A s a)) eqn:Eop; cbn in *; brk; intuition congruence].
Qed.

Definition Hag (s : st) (b : nat) : Prop :=
  match holder s with HA y => apc (A s y) = H2 /\ aw (A s y) = b | _ => False end.
Definition P1 (s : st) : Prop := forall b, QP s b -> In b (q s) \/ Hag s b.

Lemma QP_lt s b : Inv s -> QP s b -> b < nextb s.
Proof.
  intros Hi (_ & Hab & _). pose proof (IA _ Hi (owner (Bk s b))) as I. unfold ainv in I. destruct I as (I1 & _). lia.
Qed.

Lemma pres3_P1 s ac s' : Inv s -> Inv s' -> P1 s -> step s ac = Some s' -> P1 s'.
Proof.
  intros Hi Hi' HP H b Hq'. pose proof (QP_lt _ _ Hi' Hq') as Hlt'.
  destruct (IG _ Hi) as (G1 & G2 & G3 & G4 & G5 & G6 & G7 & G8 & G9 & G10 & G11).
  destruct (lt_dec b (nextb s)) as [Hlt|Hge].
  - pose proof (QP_back _ _ _ _ Hi H Hq' Hlt) as Hq. destruct (HP b Hq) as [Hin | Hg].
    + step_cases H; cbn; auto.
      * left. apply in_or_app. left. assumption.
      * destruct Hin as [<-|Hin]; [right|left; assumption].
        a_facts Hi a. unfold Hag. cbn. rewrite H8. rewrite upd_eq. cbn. split; reflexivity.
    + unfold Hag in Hg. destruct (holder s) as [|y|bb|] eqn:Eh; try tauto. destruct Hg as [Hy2 Hyw].
      destruct Hq' as (Qu' & _).
      step_cases H; try a_facts Hi a; unfold Hag; cbn in *; try (right; rewrite Eh; upd_tac; cbn; fin0).
      all: try solve [exfalso; num; ent_nil; apply G5; [congruence | reflexivity]].
      all: try solve [exfalso; brk; assert (a = y) by congruence; subst y; congruence].
      all: try solve [exfalso; b_facts Hi (ab (A s a)); b_facts Hi (aw (A s a)); brk; congruence].
      all: try solve [exfalso; assert (holder s = HG) by (apply G7; let E0 := fresh "E0" in intro E0; rewrite E0 in *; cbn in *; tauto); congruence].
      all: try solve [exfalso; assert (a = y) by congruence; subst y; rewrite upd_eq in Qu'; discriminate].
      all: try solve [exfalso; num; brk; assert (a = y) by congruence; subst y; congruence].
      all: try solve [exfalso; assert (HA y = HG) by (apply G7; let E0 := fresh "E0" in intro E0; rewrite E0 in *; cbn in *; tauto); discriminate].
  - assert (b = nextb s) by (step_cases H; cbn in *; lia). subst b.
    step_cases H; cbn in *; try lia. left. apply in_or_app. right. left. reflexivity.
Qed.

(* somebody is unlocking on behalf of x *)
Definition own_u (s : st) (x : nat) : Prop :=
  match holder s with HA y => apc (A s y) = U0 /\ afor (A s y) = Some x | _ => False end.
(* the entry of a cancelled waiter that has given up is covered by its release flag or by an unlock in progress *)
Definition P2 (s : st) : Prop :=
  forall x, halfgone (A s x) = true -> In (Some x) (ent s) -> rel (Bk s (ab (A s x))) = true \/ own_u s x.

Lemma pres3_P2 s ac s' : Inv s -> P2 s -> step s ac = Some s' -> P2 s'.
Proof.
  intros Hi HP H x. destruct (IG _ Hi) as (G1 & G2 & G3 & G4 & G5 & G6 & G7 & G8 & G9 & G10 & G11).
  pose proof (HP x) as Hx. unfold own_u, halfgone in Hx.
  pose proof (IA _ Hi x) as Ix. unfold ainv in Ix. destruct Ix as (Ix1 & _ & Ix3 & _).
  pose proof (IB _ Hi (ab (A s x))) as Bx. unfold binv in Bx. destruct Bx as (_ & Bx2 & _).
  step_cases H; try a_facts Hi a; unfold own_u, halfgone, set_pc, set_pcx, fresh; cbn;
    destruct (Nat.eq_dec x a) as [->|ne]; rewrite ?upd_eq, ?(upd_neq (A s) a x) by assumption; cbn;
    try (rewrite Epc in Hx; cbn in Hx); try (intros; discriminate); intros Hhg Hin.
  all: try solve [exfalso; dor; brk; fin0].
  (* x <> a, nothing relevant changes: rel of x's blocker, the holder and the unlocker's record are the same *)
  all: try (assert (Hio : In (Some x) (ent s)) by (dor; first [assumption | congruence]);
            destruct (Hx Hhg Hio) as [Hr | Ho]; clear Hx).
  all: try solve [left; upd_tac; cbn; fin0].
  all: try solve [left; exact Hr].
  all: try solve [right; destruct (holder s) as [|y| |] eqn:Eh; try tauto; destruct Ho as [Ho1 Ho2];
                  destruct (Nat.eq_dec y a) as [->|ney]; [congruence | rewrite ?(upd_neq (A s) a y) by assumption; cbn; tauto]].
  (* the unlocker of x is the stepping actor, or the holder changes: contradictions *)
  all: try solve [exfalso; destruct (holder s) as [|y| |] eqn:Eh; try tauto; destruct Ho as [Ho1 Ho2]; num; brk;
                  first [ assert (y = a) by congruence; subst y; first [congruence | dor; congruence]
                        | num; ent_nil; apply G5; [congruence | reflexivity]
                        | b_facts Hi (ab (A s a)); b_facts Hi (aw (A s a)); brk; congruence
                        | assert (HA y = HG) by (apply G7; let E0 := fresh "E0" in intro E0; rewrite E0 in *; cbn in *; tauto); discriminate ]].
  (* H4 takes the release of x's blocker *)
  all: try solve [destruct (Nat.eq_dec (ab (A s x)) (aw (A s a))) as [e|ne'];
                  [ right; split; [reflexivity|]; rewrite <- e; f_equal;
                    destruct (Bx2 Hr) as (_ & B1x & _); destruct Ix3 as [Ix3|Ix3]; [lia | exact Ix3]
                  | left; rewrite upd_neq by assumption; exact Hr ]].
  (* x = a *)
  all: try solve [exfalso; dor; brk; try discriminate; fin0].
  all: try (assert (Hio : In (Some a) (ent s)) by (dor; first [assumption | congruence]); specialize (Hx eq_refl Hio)).
  all: try solve [left; rewrite ?upd_eq; reflexivity].
  all: try solve [destruct Hx as [Hr|Ho]; [left; upd_tac; cbn; fin0 |
                  right; destruct (holder s) as [|y| |] eqn:Eh; try tauto; destruct Ho as [Ho1 Ho2];
                  destruct (Nat.eq_dec y a) as [->|ney]; [congruence | rewrite ?(upd_neq (A s) a y) by assumption; cbn; tauto]]].
  all: try solve [left; rewrite upd_neq by lia; exact Hr].
  all: try solve [exfalso; dor; destruct (aop (A s a)); destruct (actx (A s a)); cbn in *; try discriminate; brk; fin0].
  all: try solve [exfalso; dor; assert (afor (A s a) <> Some a) by congruence; destruct (aop (A s a)); destruct (actx (A s a)); cbn in *; try discriminate; brk; fin0].
  all: try solve [left; rewrite upd_neq; [exact Hr|]; intro e; destruct (Bx2 Hr) as (_ & B1x & _); destruct Ix3 as [Ix3|Ix3]; [lia| congruence]].
Qed.

Definition P3 (s : st) : Prop :=
  forall a, apc (A s a) = H1 -> isRPark (actx (A s a)) = false -> ent s <> [].

Lemma pres3_P3 s ac s' : Inv s -> P3 s -> step s ac = Some s' -> P3 s'.
Proof.
  intros Hi HP H x. destruct (IG _ Hi) as (G1 & G2 & G3 & G4 & G5 & G6 & G7 & G8 & G9 & G10 & G11).
  pose proof (HP x) as Hx. pose proof (IA _ Hi x) as Ix. unfold ainv in Ix.
  step_cases H; try a_facts Hi a; unfold set_pc, set_pcx; cbn;
    destruct (Nat.eq_dec x a) as [->|ne]; rewrite ?upd_eq, ?(upd_neq (A s) a x) by assumption; cbn;
    try (intros; discriminate); intros Hpc Hctx; try discriminate.
  all: try solve [apply Hx; assumption].
  all: try solve [revert Hpc; dpc; discriminate].
  all: try solve [num; intro E; apply (f_equal (@length _)) in E; rewrite remove_len in E by tauto; cbn in E; lia].
  (* x <> a at H1 owns the lock: the stepping actor cannot be unlocking *)
  all: try solve [exfalso; rewrite Hpc in Ix; cbn in Ix; brk; congruence].
  all: try solve [exfalso; match goal with Hm : match apc (A _ _) with _ => _ end |- _ =>
                    rewrite Hpc in Hm; cbn in Hm; destruct Hm as [Hm _]; congruence end].
Qed.

Record Inv3 (s : st) : Prop := { I3P1 : P1 s; I3P2 : P2 s; I3P3 : P3 s }.

Lemma inv3_init p : Inv3 (init p).
Proof.
  constructor.
  - intros b (_ & Hab & H1b & _). cbn in *. lia.
  - intros x _ Hin. destruct Hin.
  - intros a Ha. discriminate.
Qed.

Theorem inv123_reach p s : Reach p s -> ovf s = false -> Inv s /\ Inv2 s /\ Inv3 s.
Proof.
  induction 1 as [|s a s' R IH H]; intros Ho; [split; [apply inv_init | split; [apply inv2_init | apply inv3_init]]|].
  destruct (IH (ovf_mono _ _ _ H Ho)) as (Hi & Hj & Hk).
  assert (Hi' : Inv s') by (eapply inv_step; eauto).
  split; [exact Hi' | split; [exact (inv2_step _ _ _ Hi Hj H)|]].
  constructor.
  - exact (pres3_P1 _ _ _ Hi Hi' (I3P1 _ Hk) H).
  - exact (pres3_P2 _ _ _ Hi (I3P2 _ Hk) H).
  - exact (pres3_P3 _ _ _ Hi (I3P3 _ Hk) H).
Qed.

(* The waiter queue is never empty when somebody is about to pop it: the `expect("got null blocker!")`
   in lock() and unlock() cannot fire (so no panic can happen while the rlock guard is held, and the
   hand-over chain never breaks). *)
Theorem pop_never_empty p s a : Reach p s -> ovf s = false -> apc (A s a) = H1 -> q s <> [].
Proof.
  intros R Ho Ha. destruct (inv123_reach _ _ R Ho) as (Hi & Hj & Hk).
  destruct (IG _ Hi) as (G1 & G2 & G3 & G4 & G5 & G6 & G7 & G8 & G9 & G10 & G11).
  pose proof (IA _ Hi a) as Ia. unfold ainv in Ia. rewrite Ha in Ia.
  destruct Ia as (_ & _ & Ia3 & _ & _ & _ & _ & _ & Ia9 & Hh & Hp & Hnp & _).
  (* a live unflagged registration b, different from nothing the owner holds: it is in the queue *)
  assert (Key : forall b, QP s b -> q s <> []).
  { intros b Hq. destruct (I3P1 _ Hk b Hq) as [Hin | Hg].
    - intro E. rewrite E in Hin. destruct Hin.
    - unfold Hag in Hg. rewrite Hh in Hg. destruct Hg as [Hg _]. congruence. }
  destruct (isRPark (actx (A s a))) eqn:Ectx.
  - (* lock(): a's own registration *)
    destruct (Hp eq_refl) as [Hin H1ab]. destruct Ia3 as [Ia3|Ia3]; [lia|].
    apply (Key (ab (A s a))). unfold QP. rewrite Ia3.
    pose proof (IB _ Hi (ab (A s a))) as Hb. unfold binv in Hb. rewrite Ia3 in Hb. destruct Hb as (_ & _ & B3 & _).
    assert (Hw : waiting (A s a) = true) by (unfold waiting; rewrite Ha; exact Ectx).
    repeat split; auto.
    destruct (unp (Bk s (ab (A s a)))) eqn:Eu; auto. destruct (B3 eq_refl eq_refl) as [B3a _]. specialize (B3a Hw). congruence.
  - (* unlock(): some other entry is left *)
    specialize (Hnp eq_refl).
    pose proof (I3P3 _ Hk a Ha Ectx) as Hne.
    assert (Hex : exists e, In e (ent s)) by (destruct (ent s) as [|e l]; [congruence | exists e; left; reflexivity]).
    destruct Hex as [e Hine].
    destruct e as [x|].
    2:{ exfalso. destruct (Ia9 Hh Hine) as [E _]. discriminate. }
    assert (Hxa : x <> a) by (intro E; subst x; tauto).
    pose proof (IA _ Hi x) as Ix. unfold ainv in Ix. destruct Ix as (_ & _ & Ix3 & _ & _ & _ & _ & _ & _ & Ixpc).
    pose proof (IB _ Hi (ab (A s x))) as Hb. unfold binv in Hb. destruct Hb as (_ & B2 & B3 & _).
    assert (Own : forall bb, holder s = HB bb -> False) by (intros bb E; congruence).
    (* x is a counted waiter or a given-up waiter with its release registered *)
    assert (Hcase : (waiting (A s x) = true /\ 1 <= ab (A s x)) \/ (halfgone (A s x) = true /\ rel (Bk s (ab (A s x))) = true)).
    { destruct (apc (A s x)) eqn:Ex; unfold waiting, halfgone; rewrite Ex; cbn in Ixpc |- *.
      all: try solve [exfalso; tauto].
      all: try solve [exfalso; destruct Ixpc as [Ixh _]; congruence].
      all: try solve [left; split; [reflexivity | tauto]].
      all: try solve [right; split; [reflexivity|]; destruct (I3P2 _ Hk x) as [Hr|Hu];
             [unfold halfgone; rewrite Ex; reflexivity | exact Hine | exact Hr |
              exfalso; unfold own_u in Hu; rewrite Hh in Hu; destruct Hu as [Hu _]; congruence]].
      all: try solve [exfalso; destruct Ixpc as (_ & I0 & In0); destruct (Z.eq_dec (r s) 0) as [e0|n0];
             [destruct (I0 e0) as [Ehx _]; congruence | apply (In0 n0); exact Hine]].
      all: try solve [destruct Ixpc as (_ & Ip & Inp & _); destruct (isRPark (actx (A s x))) eqn:Ecx;
             [left; split; [reflexivity | destruct (Ip eq_refl); assumption] | exfalso; apply (Inp eq_refl); exact Hine]]. }
    assert (H1x : 1 <= ab (A s x)).
    { destruct Hcase as [[_ Hl]|[_ Hr]]; [exact Hl | destruct (B2 Hr) as (_ & Hl & _); exact Hl]. }
    destruct Ix3 as [Ix3|Ix3]; [lia|].
    apply (Key (ab (A s x))). unfold QP. rewrite Ix3. repeat split; auto.
    + destruct (unp (Bk s (ab (A s x)))) eqn:Eu; auto. exfalso.
      rewrite Ix3 in B3. destruct (B3 eq_refl eq_refl) as [B3a B3b].
      destruct Hcase as [[Hw _]|[Hg Hr]]; [eapply Own; eauto | eapply Own; eauto].
    + destruct Hcase as [[Hw _]|[Hg Hr]]; [left; exact Hw | right; split; assumption].
Qed.

(* (iii) in full quiescence form: if no actor can take a step and no guard is outstanding, every actor is
   at rest - nobody is parked in lock(), nobody waits for rlock, no guard drop is stuck. *)
Theorem no_stranded p s : Reach p s -> ovf s = false ->
  Stable s -> (forall a, apc (A s a) <> HoldW) -> (forall a, apc (A s a) <> HoldR) ->
  forall a, at_rest (apc (A s a)) = true.
Proof.
  intros R Ho St NoW NoR. apply (no_stranded_partial p s R Ho St NoW NoR).
  intros a Ha. pose proof (pop_never_empty p s a R Ho Ha) as Hq.
  specialize (St a). unfold step in St. rewrite Ha in St. destruct (q s); [congruence | discriminate].
Qed.
