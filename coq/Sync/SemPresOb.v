(* Preservation of SemInv.Inv, ainv of an actor other than the stepping one: the cases E1, E2, E3, E4, P0, K1, K3 (env = the actions other than Step).
   Script in SemPresTac.v; assembled in SemPresO.v. *)
From Coq Require Import List Arith ZArith Bool Lia.
Import ListNotations.
Require Import MayV.Sync.SemModel MayV.Sync.SemInv MayV.Sync.SemTac MayV.Sync.SemCase MayV.Sync.SemPresTac.
Open Scope Z_scope.

Lemma pres_A_other_E1 s a s' a' : Inv s -> apc (A s a) = E1 -> step s (Step a) = Some s' -> a <> a' -> ainv s' a'.
Proof. intros Hi Epc H Hx. g_facts Hi. step_at H Epc. all: ao_script Hi s a a' Hx. Qed.

Lemma pres_A_other_E2 s a s' a' : Inv s -> apc (A s a) = E2 -> step s (Step a) = Some s' -> a <> a' -> ainv s' a'.
Proof. intros Hi Epc H Hx. g_facts Hi. step_at H Epc. all: ao_script Hi s a a' Hx. Qed.

Lemma pres_A_other_E3 s a s' a' : Inv s -> apc (A s a) = E3 -> step s (Step a) = Some s' -> a <> a' -> ainv s' a'.
Proof. intros Hi Epc H Hx. g_facts Hi. step_at H Epc. all: ao_script Hi s a a' Hx. Qed.

Lemma pres_A_other_E4 s a s' a' : Inv s -> apc (A s a) = E4 -> step s (Step a) = Some s' -> a <> a' -> ainv s' a'.
Proof. intros Hi Epc H Hx. g_facts Hi. step_at H Epc. all: ao_script Hi s a a' Hx. Qed.

Lemma pres_A_other_P0 s a s' a' : Inv s -> apc (A s a) = P0 -> step s (Step a) = Some s' -> a <> a' -> ainv s' a'.
Proof. intros Hi Epc H Hx. g_facts Hi. step_at H Epc. all: ao_script Hi s a a' Hx. Qed.

Lemma pres_A_other_K1 s a s' a' : Inv s -> apc (A s a) = K1 -> step s (Step a) = Some s' -> a <> a' -> ainv s' a'.
Proof. intros Hi Epc H Hx. g_facts Hi. step_at H Epc. all: ao_script Hi s a a' Hx. Qed.

Lemma pres_A_other_K3 s a s' a' : Inv s -> apc (A s a) = K3 -> step s (Step a) = Some s' -> a <> a' -> ainv s' a'.
Proof. intros Hi Epc H Hx. g_facts Hi. step_at H Epc. all: ao_script Hi s a a' Hx. Qed.
