(* Preservation of the overlay invariant of FlagLive.v, part A: tactics; G1, G2, G3 (structure), F5 (fresh), F6 (agents). *)
From Coq Require Import List Arith ZArith Bool Lia.
Import ListNotations.
Require Import MayV.Sync.FlagModel MayV.Sync.FlagInv MayV.Sync.FlagLive.
Open Scope Z_scope.

Ltac inv_some :=
  match goal with H : Some _ = Some _ |- _ => inversion H; subst; clear H end.
Ltac step_cases H :=
  unfold FlagModel.step in H;
  repeat match type of H with
  | context [match ?ac with Wait _ _ => _ | IsFired _ => _ | Fire _ => _ | Step _ => _ | Tmo _ => _ end] => destruct ac
  | context [match apc ?x with _ => _ end] => let E := fresh "Epc" in destruct (apc x) eqn:E
  | context [if ?c then _ else _] => let E := fresh "Ec" in destruct c eqn:E
  | context [match q ?s with _ => _ end] => let E := fresh "Eq" in destruct (q s) eqn:E
  | context [match dep ?x with _ => _ end] => let E := fresh "Ed" in destruct (dep x) eqn:E
  | context [match reason ?b with _ => _ end] => let E := fresh "Er" in destruct (reason b) eqn:E
  | context [match ?r with RU => _ | RT => _ end] => destruct r
  end; try discriminate; cbv beta iota in H; inv_some.
Ltac num :=
  repeat match goal with
  | H : (_ <? _) = true |- _ => apply Z.ltb_lt in H
  | H : (_ <? _) = false |- _ => apply Z.ltb_ge in H
  end.
Ltac upd_tac :=
  repeat match goal with
  | |- context [upd ?f ?i ?v ?j] =>
      first [ rewrite (upd_eq f i v) | rewrite (upd_neq f i j v) by congruence
            | let e := fresh "e" in let ne := fresh "ne" in
              destruct (Nat.eq_dec j i) as [e|ne];
              [ rewrite e; rewrite (upd_eq f i v) | rewrite (upd_neq f i j v ne) ] ]
  end.
Ltac upd_hyps := repeat match goal with
  | H : context [upd ?f ?i ?v ?i] |- _ => rewrite (upd_eq f i v) in H
  | H : context [upd ?f ?i ?v ?j] |- _ => rewrite (upd_neq f i j v) in H by (first [assumption | congruence | lia])
  end.
Ltac upd_hyps2 := upd_hyps; repeat match goal with
  | H : context [upd ?f ?i ?v ?j] |- _ =>
      let e := fresh "e" in destruct (Nat.eq_dec j i) as [e|e];
      [ rewrite e in H; rewrite (upd_eq f i v) in H | rewrite (upd_neq f i j v e) in H ]
  end.
Ltac brk := repeat match goal with
  | H : _ /\ _ |- _ => destruct H
  | H : ?a = ?a -> _ |- _ => specialize (H eq_refl)
  | H : ?P -> _, H' : ?P |- _ => match type of P with Prop => specialize (H H') end
  | H : true = false -> _ |- _ => clear H
  | H : false = true -> _ |- _ => clear H
  | H : (?n <= ?n)%nat -> _ |- _ => specialize (H (le_n _))
  | E : actx ?x = _, H : context [actx ?x] |- _ => rewrite E in H; cbn in H
  | E : apc ?x = _, H : context [apc ?x] |- _ => rewrite E in H; cbn in H
  end.
Ltac arith_prem := repeat match goal with
  | H : ?P -> _ |- _ =>
      match P with
      | (_ <= _)%nat => idtac | (_ < _)%nat => idtac | (_ <= _ < _)%nat => idtac
      end;
      let Q := fresh "Q" in assert (Q : P) by lia; specialize (H Q); clear Q
  end.
Ltac a_facts MAX Hi a :=
  let Ha := fresh "Ha" in
  pose proof (IA MAX _ Hi a) as Ha; unfold ainv in Ha;
  try match goal with E : apc (A _ a) = _ |- _ => rewrite E in Ha end;
  cbn in Ha; brk.
Ltac b_facts MAX Hi b :=
  let Hb := fresh "Hb" in
  pose proof (IB MAX _ Hi b) as Hb; unfold binv in Hb; cbn in Hb; brk.
Ltac g_facts MAX Hi :=
  let G := fresh "G" in pose proof (IG MAX _ Hi) as G; unfold ginv in G; brk.
Ltac lists := rewrite ?nl_cons, ?in_rm, ?in_app_iff in *; cbn [In] in *.
Ltac mem := solve [ assumption | intuition (auto; try congruence; try discriminate; try lia) ].
Ltac prj := cbn [cnt q nextb A Bk ufired fbound infl obs mk].
Ltac prj_all := cbn [cnt q nextb A Bk ufired fbound infl obs mk apc ab aw actx atimed dep ares tok parked reason unp rel owner fresh ag dl] in *.
Ltac ostep_red :=
  unfold lstep;
  repeat match goal with
  | E : apc ?x = _ |- context [match apc ?x with _ => _ end] => rewrite E
  | E : q ?s = _ |- context [match q ?s with _ => _ end] => rewrite E
  end;
  cbv beta iota zeta; cbn [ag dl].
Ltac lsetup H := step_cases H; ostep_red; prj.
Ltac ctxsplit s a := try (destruct (actx (A s a)) eqn:Ectx; cbn [ret_pc] in * ).
Ltac pcs := repeat match goal with E : apc _ = _ |- _ => rewrite E in * end; cbn [apc actx] in *.
Ltac nodupq := try match goal with E : NoDup (?n :: _) |- _ => inversion E; subst end.
Ltac qhead := try match goal with Q : forall b, ?n = b \/ _ -> (_ <= b < _)%nat |- _ => pose proof (Q n (or_introl eq_refl)) end.

Lemma nodup_snoc (l : list nat) n : NoDup l -> ~ In n l -> NoDup (l ++ [n]).
Proof.
  induction l as [|x l IH]; cbn; intros N I; [constructor; [tauto|constructor]|].
  inversion N; subst. constructor; [|apply IH; tauto]. rewrite in_app_iff. cbn. intuition congruence.
Qed.

Section P.
Variable MAX : Z.
Hypothesis MAXpos : 0 < MAX.
Notation step := (step MAX).
Notation Inv := (Inv MAX).

Lemma pres_G1 s o ac s' : Inv s -> LInv MAX s o -> step s ac = Some s' -> G1 s'.
Proof.
  intros Hi HL H. pose proof (IG1 _ _ _ HL) as P. unfold G1 in *. destruct P as (N & B1 & BQ).
  lsetup H; try (repeat split; assumption).
  all: try match goal with E : q _ = _ |- _ => rewrite E in * end; nodupq; lists.
  all: repeat split; auto; try lia; intros.
  all: try (apply nodup_snoc; auto; intro I; apply BQ in I; lia).
  all: try match goal with I : _ \/ _ |- _ => destruct I as [I|[I|[]]]; [apply BQ in I|]; lia end.
  all: try (apply BQ; tauto).
  all: match goal with I : In _ (_ ++ _) |- _ => rewrite in_app_iff in I; cbn in I; destruct I as [I|[I|[]]]; [apply BQ in I|]; lia end.
Qed.

Lemma pres_G2 s o ac s' : Inv s -> LInv MAX s o -> step s ac = Some s' -> G2 s'.
Proof.
  intros Hi HL H. pose proof (IG2 _ _ _ HL) as P. pose proof (IG1 _ _ _ HL) as (_ & B1 & _). unfold G2, attpc, inpark in *.
  lsetup H; intro x; pose proof (P x) as Px; pose proof (P a) as Pa.
  all: unfold set_pc, set_res; upd_tac; upd_hyps2; prj_all.
  all: try assumption.
  all: a_facts MAX Hi a; a_facts MAX Hi x.
  all: repeat match goal with e : ?v = _ |- _ => is_var v; subst v end; upd_hyps; prj_all.
  all: ctxsplit s a; pcs.
  all: intros; brk; arith_prem; brk; try mem.
Qed.

Lemma pres_G3 s o ac s' : Inv s -> LInv MAX s o -> step s ac = Some s' -> G3 s'.
Proof.
  intros Hi HL H. pose proof (IG3 _ _ _ HL) as P. pose proof (IG2 _ _ _ HL) as P2. unfold G2, G3, attpc, inpark in *.
  lsetup H; intro x; pose proof (P x) as Px; pose proof (P a) as Pa; pose proof (P2 x) as Ox; pose proof (P2 a) as Oa.
  all: unfold set_pc, set_res; upd_tac; upd_hyps2; prj_all.
  all: try assumption.
  all: a_facts MAX Hi a; a_facts MAX Hi x.
  all: repeat match goal with e : ?v = _ |- _ => is_var v; subst v end; upd_hyps; prj_all.
  all: ctxsplit s a; pcs.
  all: intros; brk; arith_prem; brk; try mem.
Qed.

Lemma pres_F5 s o ac s' : Inv s -> LInv MAX s o -> step s ac = Some s' -> F5 s' (lstep s o ac).
Proof.
  intros Hi HL H. pose proof (IF5 _ _ _ HL) as P. unfold F5 in *.
  lsetup H; intro x; pose proof (P x) as Px.
  all: upd_tac; upd_hyps2; prj_all.
  all: try assumption.
  all: a_facts MAX Hi a.
  all: repeat match goal with e : ?v = _ |- _ => is_var v; subst v end; upd_hyps; prj_all.
  all: intros; brk; arith_prem; brk; try mem.
Qed.

Lemma pres_F6 s o ac s' : Inv s -> LInv MAX s o -> step s ac = Some s' -> F6 s' (lstep s o ac).
Proof.
  intros Hi HL H. pose proof (IF6 _ _ _ HL) as P. pose proof (IG1 _ _ _ HL) as (N & B1 & BQ). unfold F6, agentpc in *.
  lsetup H; intro x; pose proof (P x) as Px; pose proof (P a) as Pa.
  all: try match goal with E : q _ = _ |- _ => rewrite E in * end; nodupq.
  all: unfold set_pc, set_res; upd_tac; upd_hyps2; prj_all; lists; qhead.
  all: try assumption.
  all: a_facts MAX Hi a; a_facts MAX Hi x.
  all: repeat match goal with e : ?v = _ |- _ => is_var v; subst v end; upd_hyps; prj_all.
  all: ctxsplit s a; pcs.
  all: intros; brk; arith_prem; brk; try mem.
Qed.
End P.
